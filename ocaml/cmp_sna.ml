module M = Model
open Zio
let run path =
  let cases = read_cases path in
  List.iter (fun (name, lines) ->
    List.iteri (fun i toks ->
      incr records;
      match toks with
      | ["s32"; a; b; lt; lte; gt; gte; eq] ->
          let x = cz a and y = cz b in
          let m = String.concat " " [sbool (M.sna32LT x y); sbool (M.sna32LTE x y); sbool (M.sna32GT x y); sbool (M.sna32GTE x y); sbool (M.Z.eqb x y)] in
          let im = String.concat " " [lt; lte; gt; gte; eq] in
          if m <> im then report name (i+1) ("sna32 " ^ a ^ " " ^ b) m im
      | ["s16"; a; b; lt; lte; gt; gte; eq] ->
          let x = cz a and y = cz b in
          let m = String.concat " " [sbool (M.sna16LT x y); sbool (M.sna16LTE x y); sbool (M.sna16GT x y); sbool (M.sna16GTE x y); sbool (M.Z.eqb x y)] in
          let im = String.concat " " [lt; lte; gt; gte; eq] in
          if m <> im then report name (i+1) ("sna16 " ^ a ^ " " ^ b) m im
      | ["pad"; l; r] -> let m = sz (M.getPadding (cz l)) in if m <> r then report name (i+1) ("getPadding " ^ l) m r
      | ["mps"; mtu; r0; r1] ->
          let m = sz (M.maxPayloadSizeForMTU (cz mtu) false) ^ " " ^ sz (M.maxPayloadSizeForMTU (cz mtu) true) in
          if m <> r0 ^ " " ^ r1 then report name (i+1) ("maxPayloadSizeForMTU " ^ mtu) m (r0 ^ " " ^ r1)
      | ["mto"; b; r] -> let m = sz (M.getMaxTSNOffset (cz b)) in if m <> r then report name (i+1) ("getMaxTSNOffset " ^ b) m r
      | _ -> report name (i+1) "unparsed" "" (String.concat " " toks)) lines) cases;
  Printf.printf "SUMMARY component=sna cases=%d records=%d mismatches=%d\n" (List.length cases) !records !mismatches
