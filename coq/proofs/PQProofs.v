(* Lemmas about the pending-queue model (coq/model/PQ.v). *)
From Coq Require Import ZArith Bool List Lia Permutation.
From Coq Require Import ZifyBool.
From Sctp Require Import Gen PQ.
Import ListNotations.
Open Scope Z_scope.

(* ================================================================= *)
(* association lists                                                  *)
(* ================================================================= *)

Fixpoint al_sorted {V : Type} (m : list (Z * V)) : Prop :=
  match m with
  | [] => True
  | (k, _) :: r => (forall k' v', In (k', v') r -> k < k') /\ al_sorted r
  end.

Lemma al_get_set_same : forall {V} k (v : V) m, al_get k (al_set k v m) = Some v.
Proof.
  induction m as [|[k0 v0] r IH]; cbn [al_set al_get].
  - rewrite Z.eqb_refl. reflexivity.
  - destruct (k =? k0) eqn:E1; cbn [al_get].
    + rewrite Z.eqb_refl. reflexivity.
    + destruct (k <? k0) eqn:E2; cbn [al_get].
      * rewrite Z.eqb_refl. reflexivity.
      * rewrite E1. exact IH.
Qed.

Lemma al_get_set_other : forall {V} k k' (v : V) m, k' <> k -> al_get k' (al_set k v m) = al_get k' m.
Proof.
  induction m as [|[k0 v0] r IH]; intros Hne; cbn [al_set al_get].
  - destruct (k' =? k) eqn:E; [lia|reflexivity].
  - destruct (k =? k0) eqn:E1; cbn [al_get].
    + assert (k = k0) by lia. subst k0.
      destruct (k' =? k) eqn:E; [lia|reflexivity].
    + destruct (k <? k0) eqn:E2; cbn [al_get].
      * destruct (k' =? k) eqn:E; [lia|reflexivity].
      * destruct (k' =? k0); [reflexivity|]. apply IH. exact Hne.
Qed.

Lemma al_get_del_same : forall {V} k (m : list (Z * V)), al_get k (al_del k m) = None.
Proof.
  induction m as [|[k0 v0] r IH]; cbn [al_del al_get]; [reflexivity|].
  destruct (k =? k0) eqn:E; [exact IH|]. cbn [al_get]. rewrite E. exact IH.
Qed.

Lemma al_get_del_other : forall {V} k k' (m : list (Z * V)), k' <> k -> al_get k' (al_del k m) = al_get k' m.
Proof.
  induction m as [|[k0 v0] r IH]; intros Hne; cbn [al_del al_get]; [reflexivity|].
  destruct (k =? k0) eqn:E.
  - assert (k = k0) by lia. subst k0. destruct (k' =? k) eqn:E2; [lia|]. apply IH. exact Hne.
  - cbn [al_get]. destruct (k' =? k0); [reflexivity|]. apply IH. exact Hne.
Qed.

Lemma al_in_set : forall {V} k (v : V) m k' v',
  In (k', v') (al_set k v m) -> (k' = k /\ v' = v) \/ In (k', v') m.
Proof.
  induction m as [|[k0 v0] r IH]; intros k' v' Hin; cbn [al_set] in Hin.
  - destruct Hin as [H|[]]. inversion H. left. split; reflexivity.
  - destruct (k =? k0) eqn:E1.
    + destruct Hin as [H|H]; [inversion H; left; split; reflexivity | right; right; exact H].
    + destruct (k <? k0) eqn:E2.
      * destruct Hin as [H|H]; [inversion H; left; split; reflexivity | right; exact H].
      * destruct Hin as [H|H]; [right; left; exact H|].
        destruct (IH _ _ H) as [H1|H1]; [left; exact H1 | right; right; exact H1].
Qed.

Lemma al_in_del : forall {V} k (m : list (Z * V)) k' v', In (k', v') (al_del k m) -> In (k', v') m /\ k' <> k.
Proof.
  induction m as [|[k0 v0] r IH]; intros k' v' Hin; cbn [al_del] in Hin; [destruct Hin|].
  destruct (k =? k0) eqn:E.
  - destruct (IH _ _ Hin) as [H1 H2]. split; [right; exact H1 | exact H2].
  - destruct Hin as [H|H].
    + inversion H. subst. split; [left; reflexivity | lia].
    + destruct (IH _ _ H) as [H1 H2]. split; [right; exact H1 | exact H2].
Qed.

Lemma al_set_sorted : forall {V} k (v : V) m, al_sorted m -> al_sorted (al_set k v m).
Proof.
  induction m as [|[k0 v0] r IH]; intros Hs; cbn [al_set].
  - cbn. split; [intros ? ? []|exact I].
  - cbn [al_sorted] in Hs. destruct Hs as [Hlt Hs].
    destruct (k =? k0) eqn:E1.
    + assert (k = k0) by lia. subst k0. cbn [al_sorted]. split; assumption.
    + destruct (k <? k0) eqn:E2.
      * cbn [al_sorted]. split; [|split; assumption].
        intros k' v' [H|H]; [inversion H; lia|]. specialize (Hlt _ _ H). lia.
      * cbn [al_sorted]. split; [|apply IH; exact Hs].
        intros k' v' H. destruct (al_in_set _ _ _ _ _ H) as [[H1 _]|H1]; [lia|]. exact (Hlt _ _ H1).
Qed.

Lemma al_del_sorted : forall {V} k (m : list (Z * V)), al_sorted m -> al_sorted (al_del k m).
Proof.
  induction m as [|[k0 v0] r IH]; intros Hs; cbn [al_del]; [exact I|].
  cbn [al_sorted] in Hs. destruct Hs as [Hlt Hs].
  destruct (k =? k0); [apply IH; exact Hs|].
  cbn [al_sorted]. split; [|apply IH; exact Hs].
  intros k' v' H. destruct (al_in_del _ _ _ _ H) as [H1 _]. exact (Hlt _ _ H1).
Qed.

Lemma al_get_in : forall {V} k (v : V) m, al_get k m = Some v -> In (k, v) m.
Proof.
  induction m as [|[k0 v0] r IH]; cbn [al_get]; intros H; [discriminate|].
  destruct (k =? k0) eqn:E.
  - inversion H. subst. left. f_equal. lia.
  - right. apply IH. exact H.
Qed.

Lemma al_in_get : forall {V} k (v : V) m, al_sorted m -> In (k, v) m -> al_get k m = Some v.
Proof.
  induction m as [|[k0 v0] r IH]; intros Hs Hin; [destruct Hin|].
  cbn [al_sorted] in Hs. destruct Hs as [Hlt Hs]. cbn [al_get].
  destruct Hin as [H|H].
  - inversion H. subst. rewrite Z.eqb_refl. reflexivity.
  - specialize (Hlt _ _ H). destruct (k =? k0) eqn:E; [lia|]. apply IH; assumption.
Qed.

Lemma al_del_notin : forall {V} k (m : list (Z * V)), al_get k m = None -> al_del k m = m.
Proof.
  induction m as [|[k0 v0] r IH]; cbn [al_get al_del]; intros H; [reflexivity|].
  destruct (k =? k0); [discriminate|]. f_equal. apply IH. exact H.
Qed.

(* the values, concatenated in key order *)
Definition al_flat {A : Type} (m : list (Z * list A)) : list A := concat (map snd m).

Lemma al_flat_get : forall {A} k (l : list A) m,
  al_sorted m -> al_get k m = Some l -> Permutation (al_flat m) (l ++ al_flat (al_del k m)).
Proof.
  induction m as [|[k0 v0] r IH]; intros Hs Hg; cbn [al_get] in Hg; [discriminate|].
  cbn [al_sorted] in Hs. destruct Hs as [Hlt Hs]. cbn [al_del].
  destruct (k =? k0) eqn:E.
  - inversion Hg. subst v0. assert (k = k0) by lia. subst k0.
    rewrite al_del_notin; [apply Permutation_refl|].
    destruct (al_get k r) eqn:G; [|reflexivity].
    apply al_get_in in G. specialize (Hlt _ _ G). lia.
  - unfold al_flat in *. cbn [map concat].
    rewrite (IH Hs Hg). rewrite !app_assoc. apply Permutation_app_tail. apply Permutation_app_comm.
Qed.

Lemma al_flat_set : forall {A} k (l : list A) m,
  al_sorted m -> Permutation (al_flat (al_set k l m)) (l ++ al_flat (al_del k m)).
Proof.
  induction m as [|[k0 v0] r IH]; intros Hs; cbn [al_set al_del].
  - unfold al_flat. cbn. apply Permutation_refl.
  - cbn [al_sorted] in Hs. destruct Hs as [Hlt Hs].
    destruct (k =? k0) eqn:E1.
    + assert (k = k0) by lia. subst k0.
      rewrite al_del_notin; [unfold al_flat; cbn [map concat]; apply Permutation_refl|].
      destruct (al_get k r) eqn:G; [|reflexivity].
      apply al_get_in in G. specialize (Hlt _ _ G). lia.
    + destruct (k <? k0) eqn:E2.
      * assert (Hn : al_get k r = None).
        { destruct (al_get k r) eqn:G; [|reflexivity]. apply al_get_in in G. specialize (Hlt _ _ G). lia. }
        rewrite (al_del_notin _ _ Hn). unfold al_flat. cbn [map concat]. apply Permutation_refl.
      * unfold al_flat in *. cbn [map concat]. rewrite (IH Hs).
        rewrite !app_assoc. apply Permutation_app_tail. apply Permutation_app_comm.
Qed.

(* replacing the value of a present key *)
Lemma al_flat_update : forall {A} k (l l' : list A) m,
  al_sorted m -> al_get k m = Some l ->
  forall rest, Permutation (al_flat m) (l ++ rest) -> Permutation (al_flat (al_set k l' m)) (l' ++ rest).
Proof.
  intros A k l l' m Hs Hg rest Hp.
  rewrite (al_flat_set k l' m Hs).
  apply Permutation_app_head.
  apply (Permutation_app_inv_l l).
  rewrite <- Hp. symmetry. apply al_flat_get; assumption.
Qed.

Lemma al_del_set : forall {V} k (v : V) m, al_del k (al_set k v m) = al_del k m.
Proof.
  induction m as [|[k0 v0] r IH]; cbn [al_set al_del].
  - rewrite Z.eqb_refl. reflexivity.
  - destruct (k =? k0) eqn:E1.
    + cbn [al_del]. rewrite Z.eqb_refl. reflexivity.
    + destruct (k <? k0) eqn:E2; cbn [al_del].
      * rewrite Z.eqb_refl, E1. reflexivity.
      * rewrite E1. f_equal. exact IH.
Qed.

(* ================================================================= *)
(* well-formed messages                                               *)
(* ================================================================= *)

Definition msg_unord (x : list pchunk) : bool := match x with [] => false | c :: _ => pc_unord c end.
Definition msg_sid (x : list pchunk) : Z := match x with [] => 0 | c :: _ => pc_sid c end.

Lemma msg_tail_ok_cons : forall s u c r, msg_tail_ok s u (c :: r) = true ->
  pc_sid c = s /\ pc_unord c = u /\ pc_b c = false /\ 0 <= pc_len c /\
  ((pc_e c = true /\ r = []) \/ (pc_e c = false /\ r <> [] /\ msg_tail_ok s u r = true)).
Proof.
  intros s u c r H. cbn [msg_tail_ok] in H.
  destruct (pc_sid c =? s) eqn:E1; [|discriminate].
  destruct (Bool.eqb (pc_unord c) u) eqn:E2; [|discriminate].
  destruct (pc_b c) eqn:E3; [discriminate|].
  destruct (0 <=? pc_len c) eqn:E4; [|discriminate].
  cbn [andb negb] in H. apply Bool.eqb_prop in E2.
  repeat split; try lia; try assumption.
  destruct r as [|c2 r2].
  - left. split; [exact H|reflexivity].
  - right. destruct (pc_e c); [discriminate|]. cbn [negb andb] in H. repeat split; [discriminate|exact H].
Qed.

Lemma msg_tail_ok_nonempty : forall s u l, msg_tail_ok s u l = true -> l <> [].
Proof. intros s u [|c r] H; [discriminate|discriminate]. Qed.

Lemma msg_ok_cons : forall x, msg_ok x = true ->
  exists c r, x = c :: r /\ pc_b c = true /\ 0 <= pc_len c /\
  ((pc_e c = true /\ r = []) \/ (pc_e c = false /\ r <> [] /\ msg_tail_ok (pc_sid c) (pc_unord c) r = true)).
Proof.
  intros [|c r] H; [discriminate|]. exists c, r. cbn [msg_ok] in H.
  destruct (pc_b c) eqn:E1; [|discriminate].
  destruct (0 <=? pc_len c) eqn:E2; [|discriminate]. cbn [andb] in H.
  repeat split; try lia.
  destruct r as [|c2 r2].
  - left. split; [exact H|reflexivity].
  - right. destruct (pc_e c); [discriminate|]. cbn [negb andb] in H. repeat split; [discriminate|exact H].
Qed.

Lemma msg_tail_ok_all : forall s u l, msg_tail_ok s u l = true ->
  Forall (fun c => pc_sid c = s /\ pc_unord c = u /\ 0 <= pc_len c) l.
Proof.
  induction l as [|c r IH]; intros H; [constructor|].
  destruct (msg_tail_ok_cons _ _ _ _ H) as (H1 & H2 & _ & H4 & H5).
  constructor; [repeat split; assumption|].
  destruct H5 as [[_ ->]|(_ & _ & H6)]; [constructor|apply IH; exact H6].
Qed.

Lemma msg_ok_all : forall x, msg_ok x = true ->
  Forall (fun c => pc_sid c = msg_sid x /\ pc_unord c = msg_unord x /\ 0 <= pc_len c) x.
Proof.
  intros x H. destruct (msg_ok_cons x H) as (c & r & -> & _ & Hl & H5). cbn [msg_sid msg_unord].
  constructor; [split; [reflexivity|split; [reflexivity|exact Hl]]|].
  destruct H5 as [[_ ->]|(_ & _ & H6)]; [constructor|apply msg_tail_ok_all; exact H6].
Qed.

(* ================================================================= *)
(* policy-level steps (what pq_step does to the policy object)        *)
(* ================================================================= *)

Definition no_setil (op : pq_op) : bool := match op with PO_setil _ => false | _ => true end.

Definition pol_pop_peeked (p : pq_policy) : pq_policy * list pchunk :=
  let '(p1, x) := pol_peek p in
  match x with
  | PR_chunk c => let '(p2, e) := pol_pop p1 c in (p2, if e =? 0 then [c] else [])
  | _ => (p1, [])
  end.

Definition pol_step (p : pq_policy) (op : pq_op) : pq_policy * list pchunk :=
  match op with
  | PO_push m => (fold_left pol_push m p, [])
  | PO_peek => (fst (pol_peek p), [])
  | PO_pop => pol_pop_peeked p
  | PO_setil _ => (p, [])
  end.

Lemma pq_push_fold_pol : forall m q, pq_pol (fold_left pq_push m q) = fold_left pol_push m (pq_pol q).
Proof. induction m as [|c r IH]; intros q; cbn [fold_left]; [reflexivity|]. rewrite IH. reflexivity. Qed.

Lemma pq_step_pol : forall q op, no_setil op = true ->
  pq_pol (fst (pq_step q op)) = fst (pol_step (pq_pol q) op) /\ snd (pq_step q op) = snd (pol_step (pq_pol q) op).
Proof.
  intros q op Hn. destruct op as [m| | |b]; cbn [pq_step pol_step fst snd]; try discriminate.
  - split; [apply pq_push_fold_pol|reflexivity].
  - unfold pq_peek. destruct (pol_peek (pq_pol q)) as [p x]. split; reflexivity.
  - unfold pq_pop_peeked, pol_pop_peeked, pq_peek.
    destruct (pol_peek (pq_pol q)) as [p x]. destruct x as [|c|]; cbn [fst snd pq_pol]; try (split; reflexivity).
    unfold pq_pop. cbn [pq_pol]. destruct (pol_pop p c) as [p2 e].
    destruct (e =? 0) eqn:E; cbn [negb fst snd pq_pol]; rewrite ?E; split; reflexivity.
Qed.


(* ================================================================= *)
(* message policy                                                     *)
(* ================================================================= *)

Definition mp_step (m : mp) (op : pq_op) : mp * list pchunk :=
  match op with
  | PO_push x => (fold_left mp_push x m, [])
  | PO_peek => (m, [])
  | PO_pop => match mp_peek m with
              | PR_chunk c => let '(m', e) := mp_pop m c in (m', if e =? 0 then [c] else [])
              | _ => (m, [])
              end
  | PO_setil _ => (m, [])
  end.

Lemma fold_pol_push_msg : forall x m, fold_left pol_push x (PP_msg m) = PP_msg (fold_left mp_push x m).
Proof. induction x as [|c r IH]; intros m; cbn [fold_left pol_push]; [reflexivity|apply IH]. Qed.

Lemma pol_step_msg : forall m op,
  pol_step (PP_msg m) op = (PP_msg (fst (mp_step m op)), snd (mp_step m op)).
Proof.
  intros m op. destruct op as [x| | |b]; cbn [pol_step mp_step fst snd pol_peek]; try reflexivity.
  - rewrite fold_pol_push_msg. reflexivity.
  - unfold pol_pop_peeked. cbn [pol_peek]. destruct (mp_peek m) as [|c|]; try reflexivity.
    cbn [pol_pop]. destruct (mp_pop m c) as [m' e]. reflexivity.
Qed.

(* pushes of chunks that all belong to one ordering class *)
Lemma mp_push_all : forall x u m, Forall (fun c => pc_unord c = u) x ->
  fold_left mp_push x m =
  if u then mkMp (mp_uq m ++ x) (mp_oq m) (mp_sel m) (mp_usel m)
  else mkMp (mp_uq m) (mp_oq m ++ x) (mp_sel m) (mp_usel m).
Proof.
  induction x as [|c r IH]; intros u m Hall; cbn [fold_left].
  - rewrite !app_nil_r. destruct u, m; reflexivity.
  - inversion Hall as [|? ? Hc Hr]. subst. rewrite (IH (pc_unord c) _ Hr).
    unfold mp_push. destruct (pc_unord c); cbn [mp_uq mp_oq mp_sel mp_usel]; rewrite <- app_assoc; reflexivity.
Qed.

Lemma mp_push_msg : forall x m, msg_ok x = true ->
  fold_left mp_push x m =
  if msg_unord x then mkMp (mp_uq m ++ x) (mp_oq m) (mp_sel m) (mp_usel m)
  else mkMp (mp_uq m) (mp_oq m ++ x) (mp_sel m) (mp_usel m).
Proof.
  intros x m H. apply mp_push_all. eapply Forall_impl; [|apply msg_ok_all; exact H].
  intros c (_ & Hc & _). exact Hc.
Qed.

(* Ghost invariant.  P: the messages pushed so far; T: the chunks popped so far (pop order).
   T is a sequence of whole pushed messages [dn] followed by the already popped part [cur] of the
   message in progress; [rest] is what remains of it at the head of the selected sub-queue; behind
   it both sub-queues hold whole messages only. *)
Definition mp_inv (P : list (list pchunk)) (T : list pchunk) (m : mp) : Prop :=
  exists dn cur rest um om,
    T = concat dn ++ cur /\
    Forall (fun x => In x P) dn /\
    Forall (fun x => In x P /\ msg_unord x = true) um /\
    Forall (fun x => In x P /\ msg_unord x = false) om /\
    (mp_sel m = false -> cur = []) /\
    (mp_sel m = false -> rest = []) /\
    (mp_sel m = true -> cur <> []) /\
    (mp_sel m = true -> In (cur ++ rest) P) /\
    (mp_sel m = true -> exists s, msg_tail_ok s (mp_usel m) rest = true) /\
    mp_uq m = (if mp_usel m then rest else []) ++ concat um /\
    mp_oq m = (if mp_usel m then [] else rest) ++ concat om.

Lemma mp_inv_new : mp_inv [] [] mp_new.
Proof.
  exists [], [], [], [], []. cbn. repeat apply conj; try constructor; try discriminate; reflexivity.
Qed.

Lemma concat_head : forall (um : list (list pchunk)) c t,
  Forall (fun x => x <> []) um -> concat um = c :: t ->
  exists xr um', um = (c :: xr) :: um' /\ t = xr ++ concat um'.
Proof.
  intros [|x um'] c t Hne Hc; [discriminate|].
  inversion Hne as [|? ? Hx _]. subst. destruct x as [|c0 xr]; [contradiction|].
  cbn [concat] in Hc. inversion Hc. subst. exists xr, um'. split; reflexivity.
Qed.

Lemma pc_eqb_refl : forall c, pc_eqb c c = true.
Proof. intros c. unfold pc_eqb. apply Z.eqb_refl. Qed.

(* characterisation of a step under the invariant *)
Lemma mp_step_inv : forall P T m op,
  Forall (fun x => msg_ok x = true) P -> op_ok op = true -> mp_inv P T m ->
  let P' := match op with PO_push x => P ++ [x] | _ => P end in
  let m' := fst (mp_step m op) in
  let o := snd (mp_step m op) in
  mp_inv P' (T ++ o) m' /\
  match op with
  | PO_push x => (msg_unord x = true /\ mp_uq m' = mp_uq m ++ x /\ mp_oq m' = mp_oq m) \/
                 (msg_unord x = false /\ mp_uq m' = mp_uq m /\ mp_oq m' = mp_oq m ++ x)
  | PO_pop =>
      (o = [] /\ m' = m /\ mp_uq m = [] /\ mp_oq m = []) \/
      (exists c, o = [c] /\
         ((pc_unord c = true /\ mp_uq m = c :: mp_uq m' /\ mp_oq m' = mp_oq m) \/
          (pc_unord c = false /\ mp_oq m = c :: mp_oq m' /\ mp_uq m' = mp_uq m /\ (mp_sel m = false -> mp_uq m = []))))
  | _ => o = [] /\ m' = m
  end.
Proof.
  intros P T m op HP Hok Hinv.
  destruct op as [x| | |b]; cbn [mp_step fst snd].
  - (* push *)
    cbn [op_ok] in Hok. rewrite (mp_push_msg x m Hok). rewrite app_nil_r.
    destruct Hinv as (dn & cur & rest & um & om & H1 & H2 & H3 & H4 & H5 & H5' & H6 & H6' & H6'' & H7 & H8).
    assert (Hsub : forall y, In y P -> In y (P ++ [x])) by (intros; apply in_or_app; left; assumption).
    assert (Hx : In x (P ++ [x])) by (apply in_or_app; right; left; reflexivity).
    assert (H2' : Forall (fun y => In y (P ++ [x])) dn) by (eapply Forall_impl; [|exact H2]; cbv beta; auto).
    assert (H3' : Forall (fun y => In y (P ++ [x]) /\ msg_unord y = true) um)
      by (eapply Forall_impl; [|exact H3]; intros y [? ?]; split; auto).
    assert (H4' : Forall (fun y => In y (P ++ [x]) /\ msg_unord y = false) om)
      by (eapply Forall_impl; [|exact H4]; intros y [? ?]; split; auto).
    destruct (msg_unord x) eqn:Eu.
    + split; [|left; cbn; repeat split; reflexivity].
      exists dn, cur, rest, (um ++ [x]), om. cbn [mp_uq mp_oq mp_sel mp_usel].
      repeat apply conj; try assumption.
      * apply Forall_app; split; [assumption|constructor; [split; assumption|constructor]].
      * intros Hs. apply Hsub. apply H6'. exact Hs.
      * rewrite H7, concat_app. cbn [concat]. rewrite app_nil_r, app_assoc. reflexivity.
    + split; [|right; cbn; repeat split; reflexivity].
      exists dn, cur, rest, um, (om ++ [x]). cbn [mp_uq mp_oq mp_sel mp_usel].
      repeat apply conj; try assumption.
      * apply Forall_app; split; [assumption|constructor; [split; assumption|constructor]].
      * intros Hs. apply Hsub. apply H6'. exact Hs.
      * rewrite H8, concat_app. cbn [concat]. rewrite app_nil_r, app_assoc. reflexivity.
  - rewrite app_nil_r. split; [exact Hinv|split; reflexivity].
  - (* pop *)
    destruct Hinv as (dn & cur & rest & um & om & H1 & H2 & H3 & H4 & H5 & H5' & H6 & H6' & H6'' & H7 & H8).
    assert (Hne : forall l (Q : list pchunk -> Prop), Forall (fun x => In x P /\ Q x) l -> Forall (fun x : list pchunk => x <> []) l).
    { intros l Q Hl. eapply Forall_impl; [|exact Hl]. intros y [Hy _] ->.
      rewrite Forall_forall in HP. specialize (HP _ Hy). discriminate. }
    destruct m as [uq oq sel usel]. cbn [mp_uq mp_oq mp_sel mp_usel] in *. subst uq oq T.
    destruct sel.
    + (* a message is in progress *)
      specialize (H6 eq_refl). specialize (H6' eq_refl). destruct (H6'' eq_refl) as [s Htail]. clear H5 H5' H6''.
      destruct rest as [|c rest']; [discriminate|].
      destruct (msg_tail_ok_cons _ _ _ _ Htail) as (_ & Hu & _ & _ & Hcase).
      destruct usel; cbn [mp_peek mp_sel mp_usel mp_uq mp_oq app pq_head mp_pop mp_pop_selected]; rewrite pc_eqb_refl; cbn [negb];
      (destruct Hcase as [[He ->]|(He & Hr & Ht)]; rewrite He; cbn [fst snd Z.eqb mp_uq mp_oq mp_sel mp_usel app]).
      * split.
        -- exists (dn ++ [cur ++ [c]]), [], [], um, om. cbn [mp_uq mp_oq mp_sel mp_usel].
           repeat apply conj; try assumption; try (intros; discriminate); try (intros; reflexivity).
           ++ rewrite concat_app. cbn [concat]. rewrite !app_nil_r, app_assoc. reflexivity.
           ++ apply Forall_app. split; [assumption|constructor; [exact H6'|constructor]].
        -- right. exists c. split; [reflexivity|]. left. repeat split; assumption.
      * split.
        -- exists dn, (cur ++ [c]), rest', um, om. cbn [mp_uq mp_oq mp_sel mp_usel].
           repeat apply conj; try assumption; try (intros; discriminate); try reflexivity.
           ++ rewrite app_assoc. reflexivity.
           ++ intros _ Hc. apply app_eq_nil in Hc. destruct Hc; discriminate.
           ++ intros _. rewrite <- app_assoc. exact H6'.
           ++ intros _. exists s. exact Ht.
        -- right. exists c. split; [reflexivity|]. left. repeat split; assumption.
      * split.
        -- exists (dn ++ [cur ++ [c]]), [], [], um, om. cbn [mp_uq mp_oq mp_sel mp_usel].
           repeat apply conj; try assumption; try (intros; discriminate); try (intros; reflexivity).
           ++ rewrite concat_app. cbn [concat]. rewrite !app_nil_r, app_assoc. reflexivity.
           ++ apply Forall_app. split; [assumption|constructor; [exact H6'|constructor]].
        -- right. exists c. split; [reflexivity|]. right. repeat split; try assumption. intros; discriminate.
      * split.
        -- exists dn, (cur ++ [c]), rest', um, om. cbn [mp_uq mp_oq mp_sel mp_usel].
           repeat apply conj; try assumption; try (intros; discriminate); try reflexivity.
           ++ rewrite app_assoc. reflexivity.
           ++ intros _ Hc. apply app_eq_nil in Hc. destruct Hc; discriminate.
           ++ intros _. rewrite <- app_assoc. exact H6'.
           ++ intros _. exists s. exact Ht.
        -- right. exists c. split; [reflexivity|]. right. repeat split; try assumption. intros; discriminate.
    + (* message boundary *)
      specialize (H5 eq_refl). specialize (H5' eq_refl). subst cur rest. clear H6 H6' H6''.
      assert (Huq : (if usel then [] else []) ++ concat um = concat um) by (destruct usel; reflexivity).
      assert (Hoq : (if usel then [] else []) ++ concat om = concat om) by (destruct usel; reflexivity).
      rewrite Huq, Hoq. clear Huq Hoq. rewrite app_nil_r.
      cbn [mp_peek mp_sel mp_uq mp_oq].
      destruct (concat um) as [|c t] eqn:Equ.
      * destruct (concat om) as [|c t] eqn:Eoq.
        -- cbn [pq_head fst snd]. rewrite app_nil_r. split.
           ++ exists dn, [], [], um, om. cbn [mp_uq mp_oq mp_sel mp_usel]. rewrite Equ, Eoq.
              repeat apply conj; try assumption; try (intros; discriminate); try (intros; reflexivity).
              ** rewrite app_nil_r. reflexivity.
              ** destruct usel; reflexivity.
              ** destruct usel; reflexivity.
           ++ left. repeat split; reflexivity.
        -- cbn [pq_head].
           destruct (concat_head om c t (Hne _ _ H4) Eoq) as (xr & om' & -> & ->).
           inversion H4 as [|? ? [HinP Hcls] H4']. subst.
           rewrite Forall_forall in HP. pose proof (HP _ HinP) as Hmok.
           destruct (msg_ok_cons _ Hmok) as (c0 & r0 & Heq & Hb & _ & Hcase). inversion Heq. subst c0 r0.
           cbn [msg_unord] in Hcls.
           cbn [mp_pop mp_sel]. rewrite Hb. cbn [negb]. unfold mp_pop_new_selection. rewrite Hcls.
           cbn [mp_uq mp_oq mp_sel mp_usel]. rewrite pc_eqb_refl. cbn [negb].
           destruct Hcase as [[He ->]|(He & Hr & Ht)]; rewrite He; cbn [negb fst snd Z.eqb mp_uq mp_oq mp_sel mp_usel app].
           ++ split.
              ** exists (dn ++ [[c]]), [], [], um, om'. cbn [mp_uq mp_oq mp_sel mp_usel].
                 repeat apply conj; try assumption; try (intros; discriminate); try (intros; reflexivity).
                 --- rewrite concat_app. cbn. rewrite !app_nil_r. reflexivity.
                 --- apply Forall_app. split; [rewrite Forall_forall; intros y Hy; rewrite Forall_forall in H2; auto|constructor; [exact HinP|constructor]].
                 --- rewrite Equ. destruct usel; reflexivity.
                 --- destruct usel; reflexivity.
              ** right. exists c. split; [reflexivity|]. right. repeat split; auto.
           ++ split.
              ** exists dn, [c], xr, um, om'. cbn [mp_uq mp_oq mp_sel mp_usel].
                 repeat apply conj; try assumption; try (intros; discriminate); try reflexivity.
                 --- intros _. exact HinP.
                 --- intros _. exists (pc_sid c). rewrite <- Hcls. exact Ht.
                 --- rewrite Equ. reflexivity.
              ** right. exists c. split; [reflexivity|]. right. repeat split; auto.
      * cbn [pq_head].
        destruct (concat_head um c t (Hne _ _ H3) Equ) as (xr & um' & -> & ->).
        inversion H3 as [|? ? [HinP Hcls] H3']. subst.
        rewrite Forall_forall in HP. pose proof (HP _ HinP) as Hmok.
        destruct (msg_ok_cons _ Hmok) as (c0 & r0 & Heq & Hb & _ & Hcase). inversion Heq. subst c0 r0.
        cbn [msg_unord] in Hcls.
        cbn [mp_pop mp_sel]. rewrite Hb. cbn [negb]. unfold mp_pop_new_selection. rewrite Hcls.
        cbn [mp_uq mp_oq mp_sel mp_usel]. rewrite pc_eqb_refl. cbn [negb].
        destruct Hcase as [[He ->]|(He & Hr & Ht)]; rewrite He; cbn [negb fst snd Z.eqb mp_uq mp_oq mp_sel mp_usel app].
        -- split.
           ++ exists (dn ++ [[c]]), [], [], um', om. cbn [mp_uq mp_oq mp_sel mp_usel].
              repeat apply conj; try assumption; try (intros; discriminate); try (intros; reflexivity).
              ** rewrite concat_app. cbn. rewrite !app_nil_r. reflexivity.
              ** apply Forall_app. split; [rewrite Forall_forall; intros y Hy; rewrite Forall_forall in H2; auto|constructor; [exact HinP|constructor]].
              ** destruct usel; reflexivity.
              ** destruct usel; reflexivity.
           ++ right. exists c. split; [reflexivity|]. left. repeat split; auto.
        -- split.
           ++ exists dn, [c], xr, um', om. cbn [mp_uq mp_oq mp_sel mp_usel].
              repeat apply conj; try assumption; try (intros; discriminate); try reflexivity.
              ** intros _. exact HinP.
              ** intros _. exists (pc_sid c). rewrite Hcls in Ht. exact Ht.
           ++ right. exists c. split; [reflexivity|]. left. repeat split; auto.
  - rewrite app_nil_r. split; [exact Hinv|split; reflexivity].
Qed.

(* ================================================================= *)
(* round-robin policy                                                 *)
(* ================================================================= *)

Definition rr_step (r : rr) (op : pq_op) : rr * list pchunk :=
  match op with
  | PO_push x => (fold_left rr_push x r, [])
  | PO_peek => (fst (rr_peek r), [])
  | PO_pop => let '(r1, x) := rr_peek r in
              match x with
              | PR_chunk c => let '(r2, e) := rr_pop r1 c in (r2, if e =? 0 then [c] else [])
              | _ => (r1, [])
              end
  | PO_setil _ => (r, [])
  end.

Lemma fold_pol_push_rr : forall x r, fold_left pol_push x (PP_rr r) = PP_rr (fold_left rr_push x r).
Proof. induction x as [|c t IH]; intros r; cbn [fold_left pol_push]; [reflexivity|apply IH]. Qed.

Lemma pol_step_rr : forall r op,
  pol_step (PP_rr r) op = (PP_rr (fst (rr_step r op)), snd (rr_step r op)).
Proof.
  intros r op. destruct op as [x| | |b]; cbn [pol_step rr_step fst snd]; try reflexivity.
  - rewrite fold_pol_push_rr. reflexivity.
  - cbn [pol_peek]. destruct (rr_peek r) as [r1 x]. reflexivity.
  - unfold pol_pop_peeked. cbn [pol_peek]. destruct (rr_peek r) as [r1 x]. destruct x as [|c|]; try reflexivity.
    cbn [pol_pop]. destruct (rr_pop r1 c) as [r2 e]. reflexivity.
Qed.

(* the sub-queue of stream s *)
Definition rr_q (r : rr) (s : Z) : list pchunk :=
  match al_get s (rr_qs r) with Some l => l | None => [] end.

Definition rr_inv (r : rr) : Prop :=
  al_sorted (rr_qs r) /\
  (forall s l, al_get s (rr_qs r) = Some l -> l <> [] /\ Forall (fun c => pc_sid c = s) l) /\
  NoDup (rr_order r) /\
  (forall s, In s (rr_order r) <-> al_get s (rr_qs r) <> None) /\
  (rr_sel r = true -> exists t, rr_order r = rr_selsid r :: t).

Lemma rr_inv_new : rr_inv rr_new.
Proof.
  unfold rr_inv, rr_new. cbn. repeat apply conj; try exact I; try constructor; try discriminate.
  - intros [].
  - intros H. contradiction.
Qed.

Lemma NoDup_app_snoc : forall (l : list Z) x, NoDup l -> ~ In x l -> NoDup (l ++ [x]).
Proof.
  intros l x Hn Hx. apply (Permutation_NoDup (Permutation_cons_append l x)). constructor; assumption.
Qed.

Lemma rr_push_inv : forall r c, rr_inv r ->
  rr_inv (rr_push r c) /\
  rr_q (rr_push r c) (pc_sid c) = rr_q r (pc_sid c) ++ [c] /\
  (forall s, s <> pc_sid c -> rr_q (rr_push r c) s = rr_q r s) /\
  rr_order (rr_push r c) = rr_order r ++ (match rr_q r (pc_sid c) with [] => [pc_sid c] | _ => [] end) /\
  rr_sel (rr_push r c) = rr_sel r /\ rr_selsid (rr_push r c) = rr_selsid r /\
  Permutation (al_flat (rr_qs (rr_push r c))) (al_flat (rr_qs r) ++ [c]).
Proof.
  intros r c (Hs & Hq & Hnd & Hin & Hsel).
  unfold rr_push, rr_q, rr_inv. cbn [rr_qs rr_order rr_sel rr_selsid].
  set (s := pc_sid c) in *.
  destruct (al_get s (rr_qs r)) as [l|] eqn:G.
  - destruct (Hq _ _ G) as [Hne Hall].
    destruct l as [|c0 l0]; [contradiction|].
    rewrite al_get_set_same. rewrite app_nil_r.
    repeat apply conj; try reflexivity.
    + apply al_set_sorted. exact Hs.
    + intros s' l'. destruct (Z.eq_dec s' s) as [->|Hne'].
      * rewrite al_get_set_same. intros H. injection H as <-. split; [discriminate|].
        rewrite app_comm_cons. apply Forall_app. split; [exact Hall|constructor; [reflexivity|constructor]].
      * rewrite al_get_set_other by exact Hne'. apply Hq.
    + exact Hnd.
    + intros s'. destruct (Z.eq_dec s' s) as [->|Hne'].
      * rewrite al_get_set_same. split; [discriminate|]. intros _. apply Hin. rewrite G. discriminate.
      * rewrite al_get_set_other by exact Hne'. apply Hin.
    + exact Hsel.
    + intros s' Hne'. rewrite al_get_set_other by exact Hne'. reflexivity.
    + rewrite (al_flat_set s _ _ Hs). rewrite (al_flat_get s _ _ Hs G).
      rewrite <- !app_assoc. apply Permutation_app_head. apply Permutation_app_comm.
  - rewrite al_get_set_same. cbn [app].
    assert (Hnotin : ~ In s (rr_order r)). { intros H. apply Hin in H. apply H. exact G. }
    repeat apply conj; try reflexivity.
    + apply al_set_sorted. exact Hs.
    + intros s' l'. destruct (Z.eq_dec s' s) as [->|Hne'].
      * rewrite al_get_set_same. intros H. injection H as <-. split; [discriminate|].
        constructor; [reflexivity|constructor].
      * rewrite al_get_set_other by exact Hne'. apply Hq.
    + apply NoDup_app_snoc; assumption.
    + intros s'. rewrite in_app_iff. destruct (Z.eq_dec s' s) as [->|Hne'].
      * rewrite al_get_set_same. split; [discriminate|]. intros _. right. left. reflexivity.
      * rewrite al_get_set_other by exact Hne'. rewrite <- Hin. split; [intros [H|[H|[]]]; [exact H|congruence]|auto].
    + intros H. destruct (Hsel H) as [t Ht]. exists (t ++ [s]). rewrite Ht. reflexivity.
    + intros s' Hne'. rewrite al_get_set_other by exact Hne'. reflexivity.
    + rewrite (al_flat_set s _ _ Hs). rewrite (al_del_notin _ _ G). cbn [app].
      apply Permutation_cons_append.
Qed.

Lemma rr_peek_inv : forall r, rr_inv r ->
  rr_inv (fst (rr_peek r)) /\ rr_qs (fst (rr_peek r)) = rr_qs r /\ rr_order (fst (rr_peek r)) = rr_order r /\
  (rr_sel r = true -> fst (rr_peek r) = r).
Proof.
  intros r Hinv. pose proof Hinv as (Hs & Hq & Hnd & Hin & Hsel). unfold rr_peek.
  destruct r as [qs order sel selsid]. cbn [rr_qs rr_order rr_sel rr_selsid] in *.
  destruct sel; cbn [fst].
  - split; [exact Hinv|]. repeat apply conj; reflexivity.
  - destruct order as [|s t]; cbn [fst].
    + split; [exact Hinv|]. repeat apply conj; try reflexivity; discriminate.
    + unfold rr_inv. cbn [rr_qs rr_order rr_sel rr_selsid].
      repeat apply conj; try reflexivity; try assumption; try discriminate.
      intros _. exists t. reflexivity.
Qed.

Lemma rr_pop_step : forall r, rr_inv r ->
  let r' := fst (rr_step r PO_pop) in
  let o := snd (rr_step r PO_pop) in
  match rr_order r with
  | [] => o = [] /\ r' = r
  | s :: t =>
      exists c l, rr_q r s = c :: l /\ o = [c] /\ pc_sid c = s /\
        rr_q r' s = l /\ (forall s', s' <> s -> rr_q r' s' = rr_q r s') /\
        rr_order r' = t ++ (match l with [] => [] | _ :: _ => [s] end) /\
        rr_sel r' = false /\ rr_inv r' /\
        Permutation (al_flat (rr_qs r)) (c :: al_flat (rr_qs r'))
  end.
Proof.
  intros r (Hs & Hq & Hnd & Hin & Hsel). cbn [rr_step].
  destruct r as [qs order sel selsid]. cbn [rr_qs rr_order rr_sel rr_selsid] in *.
  destruct order as [|s t].
  - destruct sel; [destruct (Hsel eq_refl) as [t Ht]; discriminate|].
    unfold rr_peek. cbn [rr_sel rr_order fst snd]. split; reflexivity.
  - assert (Hr1 : rr_peek (mkRr qs (s :: t) sel selsid) = (mkRr qs (s :: t) true s, rr_head qs s)).
    { unfold rr_peek. cbn [rr_sel rr_order rr_qs rr_selsid]. destruct sel; [|reflexivity].
      destruct (Hsel eq_refl) as [t' Ht']. inversion Ht'. subst. reflexivity. }
    rewrite Hr1. clear Hr1.
    assert (Hg : al_get s qs <> None) by (apply Hin; left; reflexivity).
    destruct (al_get s qs) as [l0|] eqn:G; [|contradiction].
    destruct (Hq _ _ G) as [Hne Hall]. destruct l0 as [|c l]; [contradiction|].
    unfold rr_head. rewrite G. cbn [pq_head].
    unfold rr_pop. cbn [rr_sel rr_selsid rr_qs rr_order negb]. rewrite G. rewrite pc_eqb_refl. cbn [negb].
    inversion Hall as [|? ? Hc Hl]. subst.
    inversion Hnd as [|? ? Hnotin Hnd']. subst.
    exists c, l. unfold rr_q. cbn [rr_qs]. rewrite G.
    destruct l as [|c2 l2]; cbn [fst snd Z.eqb rr_qs rr_order rr_sel rr_selsid]; unfold rr_inv; cbn [rr_qs rr_order rr_sel rr_selsid].
    + rewrite al_del_set. rewrite al_get_del_same. rewrite app_nil_r.
      repeat apply conj; try reflexivity.
      * intros s' Hne'. rewrite al_get_del_other by exact Hne'. reflexivity.
      * apply al_del_sorted. exact Hs.
      * intros s' l'. destruct (Z.eq_dec s' (pc_sid c)) as [->|Hne'].
        -- rewrite al_get_del_same. discriminate.
        -- rewrite al_get_del_other by exact Hne'. apply Hq.
      * exact Hnd'.
      * intros s'. destruct (Z.eq_dec s' (pc_sid c)) as [->|Hne'].
        -- rewrite al_get_del_same. split; [intros H; contradiction|intros H; contradiction].
        -- rewrite al_get_del_other by exact Hne'. rewrite <- Hin. split; [intros H; right; exact H|intros [H|H]; [congruence|exact H]].
      * discriminate.
      * rewrite (al_flat_get _ _ _ Hs G). reflexivity.
    + rewrite al_get_set_same.
      repeat apply conj; try reflexivity.
      * intros s' Hne'. rewrite al_get_set_other by exact Hne'. reflexivity.
      * apply al_set_sorted. exact Hs.
      * intros s' l'. destruct (Z.eq_dec s' (pc_sid c)) as [->|Hne'].
        -- rewrite al_get_set_same. intros H. injection H as <-. split; [discriminate|exact Hl].
        -- rewrite al_get_set_other by exact Hne'. apply Hq.
      * apply NoDup_app_snoc; assumption.
      * intros s'. rewrite in_app_iff. destruct (Z.eq_dec s' (pc_sid c)) as [->|Hne'].
        -- rewrite al_get_set_same. split; [discriminate|]. intros _. right. left. reflexivity.
        -- rewrite al_get_set_other by exact Hne'. rewrite <- Hin.
           split; [intros [H|[H|[]]]; [right; exact H|congruence]|intros [H|H]; [congruence|left; exact H]].
      * discriminate.
      * rewrite (al_flat_set _ (c2 :: l2) _ Hs). rewrite (al_flat_get _ _ _ Hs G). reflexivity.
Qed.

Definition on_stream (s : Z) (c : pchunk) : bool := pc_sid c =? s.

Lemma rr_push_fold : forall x r, rr_inv r ->
  let r' := fold_left rr_push x r in
  rr_inv r' /\
  (exists ext, rr_order r' = rr_order r ++ ext) /\
  (forall s, rr_q r' s = rr_q r s ++ filter (on_stream s) x) /\
  Permutation (al_flat (rr_qs r')) (al_flat (rr_qs r) ++ x).
Proof.
  induction x as [|c t IH]; intros r Hinv; cbn [fold_left]; cbv zeta.
  - split; [exact Hinv|]. repeat apply conj.
    + exists []. rewrite app_nil_r. reflexivity.
    + intros s. cbn [filter]. rewrite app_nil_r. reflexivity.
    + rewrite app_nil_r. reflexivity.
  - destruct (rr_push_inv r c Hinv) as (Hi1 & Hq1 & Hq2 & Ho1 & _ & _ & Hp1).
    destruct (IH _ Hi1) as (Hi2 & [ext Ho2] & Hq3 & Hp2).
    split; [exact Hi2|]. repeat apply conj.
    + eexists. rewrite Ho2, Ho1, <- app_assoc. reflexivity.
    + intros s. rewrite Hq3. cbn [filter]. unfold on_stream at 2.
      destruct (pc_sid c =? s) eqn:E.
      * assert (pc_sid c = s) by lia. subst s. rewrite Hq1. rewrite <- app_assoc. reflexivity.
      * rewrite Hq2 by lia. reflexivity.
    + rewrite Hp2, Hp1. rewrite <- app_assoc. reflexivity.
Qed.

(* generic run of a step function *)
Fixpoint run_gen {S : Type} (step : S -> pq_op -> S * list pchunk) (s : S) (ops : list pq_op) : S * list pchunk :=
  match ops with
  | [] => (s, [])
  | op :: r =>
      let '(s1, o1) := step s op in
      let '(s2, o2) := run_gen step s1 r in
      (s2, o1 ++ o2)
  end.

Lemma pq_run_gen : forall ops q, pq_run q ops = run_gen pq_step q ops.
Proof. induction ops as [|op r IH]; intros q; cbn [pq_run run_gen]; [reflexivity|].
  destruct (pq_step q op) as [q1 o1]. rewrite IH. reflexivity. Qed.

Lemma run_gen_app : forall {S} (step : S -> pq_op -> S * list pchunk) a b s,
  run_gen step s (a ++ b) =
  let '(s1, o1) := run_gen step s a in let '(s2, o2) := run_gen step s1 b in (s2, o1 ++ o2).
Proof.
  induction a as [|op r IH]; intros b s; cbn [app run_gen].
  - destruct (run_gen step s b). reflexivity.
  - destruct (step s op) as [s1 o1]. rewrite IH.
    destruct (run_gen step s1 r) as [s2 o2]. destruct (run_gen step s2 b) as [s3 o3].
    rewrite app_assoc. reflexivity.
Qed.

Definition pol_run := run_gen pol_step.

Lemma pq_run_pol : forall ops q, forallb no_setil ops = true ->
  pq_pol (fst (pq_run q ops)) = fst (pol_run (pq_pol q) ops) /\ snd (pq_run q ops) = snd (pol_run (pq_pol q) ops).
Proof.
  induction ops as [|op r IH]; intros q Hn; cbn [pq_run pol_run run_gen fst snd]; [split; reflexivity|].
  cbn [forallb] in Hn. apply andb_prop in Hn. destruct Hn as [Hn1 Hn2].
  destruct (pq_step_pol q op Hn1) as [Hp Ho].
  destruct (pq_step q op) as [q1 o1]. destruct (pol_step (pq_pol q) op) as [p1 o1'].
  cbn [fst snd] in Hp, Ho. subst o1'.
  destruct (IH q1 Hn2) as [Hp2 Ho2]. unfold pol_run in *. rewrite Hp in *.
  destruct (pq_run q1 r) as [q2 o2]. destruct (run_gen pol_step p1 r) as [p2 o2'].
  cbn [fst snd] in *. subst. split; reflexivity.
Qed.

Lemma pol_run_rr : forall ops r,
  pol_run (PP_rr r) ops = (PP_rr (fst (run_gen rr_step r ops)), snd (run_gen rr_step r ops)).
Proof.
  induction ops as [|op t IH]; intros r; unfold pol_run in *; cbn [run_gen fst snd]; [reflexivity|].
  rewrite pol_step_rr. destruct (rr_step r op) as [r1 o1]. cbn [fst snd]. rewrite IH.
  destruct (run_gen rr_step r1 t) as [r2 o2]. reflexivity.
Qed.

Lemma pol_run_msg : forall ops m,
  pol_run (PP_msg m) ops = (PP_msg (fst (run_gen mp_step m ops)), snd (run_gen mp_step m ops)).
Proof.
  induction ops as [|op t IH]; intros m; unfold pol_run in *; cbn [run_gen fst snd]; [reflexivity|].
  rewrite pol_step_msg. destruct (mp_step m op) as [m1 o1]. cbn [fst snd]. rewrite IH.
  destruct (run_gen mp_step m1 t) as [m2 o2]. reflexivity.
Qed.

(* ---------- round-robin service order ---------- *)

(* what one step does to the ring, under the invariant *)
Lemma rr_step_order : forall r op, rr_inv r ->
  let r' := fst (rr_step r op) in
  let o := snd (rr_step r op) in
  rr_inv r' /\
  match o with
  | [] => exists ext, rr_order r' = rr_order r ++ ext
  | c :: o' => o' = [] /\ exists t ext, rr_order r = pc_sid c :: t /\ rr_order r' = t ++ ext /\
               (ext = [] \/ ext = [pc_sid c])
  end.
Proof.
  intros r op Hinv. destruct op as [x| | |b].
  - cbn [rr_step fst snd]. destruct (rr_push_fold x r Hinv) as (H1 & H2 & _). split; assumption.
  - cbn [rr_step fst snd]. destruct (rr_peek_inv r Hinv) as (H1 & _ & H3 & _). split; [exact H1|].
    exists []. rewrite app_nil_r. exact H3.
  - pose proof (rr_pop_step r Hinv) as H. cbv zeta in H.
    destruct (rr_order r) as [|s t] eqn:Eo.
    + destruct H as [Ho Hr]. cbv zeta. rewrite Ho, Hr. split; [exact Hinv|]. exists []. rewrite Eo. reflexivity.
    + destruct H as (c & l & _ & Ho & Hc & _ & _ & Hord & _ & Hi & _). cbv zeta. rewrite Ho.
      split; [exact Hi|]. split; [reflexivity|]. exists t. eexists. subst s. split; [reflexivity|].
      split; [exact Hord|]. destruct l; [left|right]; reflexivity.
  - cbn [rr_step fst snd]. split; [exact Hinv|]. exists []. rewrite app_nil_r. reflexivity.
Qed.

(* A stream at position |pre| of the ring is served by exactly the (|pre|+1)-th pop; the pops before
   it serve the streams of [pre], each once, in ring order. *)
Lemma rr_position : forall ops r pre s post,
  rr_inv r -> rr_order r = pre ++ s :: post ->
  let T := snd (run_gen rr_step r ops) in
  let r' := fst (run_gen rr_step r ops) in
  ((length T <= length pre)%nat ->
     map pc_sid T = firstn (length T) pre /\
     exists post', rr_order r' = skipn (length T) pre ++ s :: post') /\
  ((length T > length pre)%nat ->
     map pc_sid (firstn (length pre) T) = pre /\ nth_error (map pc_sid T) (length pre) = Some s).
Proof.
  induction ops as [|op t IH]; intros r pre s post Hinv Hord; cbn [run_gen].
  - cbn [fst snd length]. split.
    + intros _. split; [reflexivity|]. exists post. exact Hord.
    + intros H. inversion H.
  - pose proof (rr_step_order r op Hinv) as Hstep. cbv zeta in Hstep.
    destruct (rr_step r op) as [r1 o1]. cbn [fst snd] in Hstep. destruct Hstep as [Hi1 Hstep].
    destruct o1 as [|c o1'].
    + destruct Hstep as [ext Hext].
      assert (Ho1 : rr_order r1 = pre ++ s :: (post ++ ext)).
      { rewrite Hext, Hord, <- app_assoc. reflexivity. }
      specialize (IH r1 pre s (post ++ ext) Hi1 Ho1). cbv zeta in IH.
      destruct (run_gen rr_step r1 t) as [r2 o2]. cbn [fst snd app] in *. exact IH.
    + destruct Hstep as (-> & t0 & ext & Hhd & Htl & _). rewrite Hord in Hhd.
      destruct pre as [|a pre'].
      * cbn [app] in Hhd. inversion Hhd. subst.
        destruct (run_gen rr_step r1 t) as [r2 o2]. cbn [fst snd app length].
        split; [intros H; inversion H|]. intros _. split; reflexivity.
      * cbn [app] in Hhd. inversion Hhd. subst.
        assert (Ho1 : rr_order r1 = pre' ++ s :: (post ++ ext)).
        { rewrite Htl, <- app_assoc. reflexivity. }
        specialize (IH r1 pre' s (post ++ ext) Hi1 Ho1). cbv zeta in IH.
        destruct (run_gen rr_step r1 t) as [r2 o2]. cbn [fst snd app length] in *.
        destruct IH as [IH1 IH2]. split.
        -- intros H. destruct (IH1 ltac:(lia)) as [Hm Hp]. cbn [map firstn skipn]. rewrite Hm. split; [reflexivity|exact Hp].
        -- intros H. destruct (IH2 ltac:(lia)) as [Hm Hn]. cbn [firstn map nth_error]. rewrite Hm. split; [reflexivity|exact Hn].
Qed.

(* ================================================================= *)
(* weighted fair queueing: structure                                  *)
(* ================================================================= *)

Definition wf_step (w : wfq) (op : pq_op) : wfq * list pchunk :=
  match op with
  | PO_push x => (fold_left wf_push x w, [])
  | PO_peek => (fst (wf_peek w), [])
  | PO_pop => let '(w1, x) := wf_peek w in
              match x with
              | PR_chunk c => let '(w2, e) := wf_pop w1 c in (w2, if e =? 0 then [c] else [])
              | _ => (w1, [])
              end
  | PO_setil _ => (w, [])
  end.

Lemma fold_pol_push_wfq : forall x w, fold_left pol_push x (PP_wfq w) = PP_wfq (fold_left wf_push x w).
Proof. induction x as [|c t IH]; intros w; cbn [fold_left pol_push]; [reflexivity|apply IH]. Qed.

Lemma pol_step_wfq : forall w op,
  pol_step (PP_wfq w) op = (PP_wfq (fst (wf_step w op)), snd (wf_step w op)).
Proof.
  intros w op. destruct op as [x| | |b]; cbn [pol_step wf_step fst snd]; try reflexivity.
  - rewrite fold_pol_push_wfq. reflexivity.
  - cbn [pol_peek]. destruct (wf_peek w) as [w1 x]. reflexivity.
  - unfold pol_pop_peeked. cbn [pol_peek]. destruct (wf_peek w) as [w1 x]. destruct x as [|c|]; try reflexivity.
    cbn [pol_pop]. destruct (wf_pop w1 c) as [w2 e]. reflexivity.
Qed.

Lemma pol_run_wfq : forall ops w,
  pol_run (PP_wfq w) ops = (PP_wfq (fst (run_gen wf_step w ops)), snd (run_gen wf_step w ops)).
Proof.
  induction ops as [|op t IH]; intros w; unfold pol_run in *; cbn [run_gen fst snd]; [reflexivity|].
  rewrite pol_step_wfq. destruct (wf_step w op) as [w1 o1]. cbn [fst snd]. rewrite IH.
  destruct (run_gen wf_step w1 t) as [w2 o2]. reflexivity.
Qed.

Definition wf_q (w : wfq) (s : Z) : list (pchunk * Z) :=
  match al_get s (wf_qs w) with Some l => l | None => [] end.

(* lexicographic order on (finish tag, stream id) *)
Definition lexle (f s f' s' : Z) : Prop := f < f' \/ (f = f' /\ s <= s').

(* specification of the Peek loop: the result is the lexicographic minimum of [best] and the heads *)
Lemma wf_scan_spec : forall m best,
  match wf_scan m best with
  | None => best = None /\ forall s l, In (s, l) m -> l = []
  | Some (c, s, f) =>
      (best = Some (c, s, f) \/ exists l, In (s, (c, f) :: l) m) /\
      (forall bc bs bf, best = Some (bc, bs, bf) -> lexle f s bf bs) /\
      (forall s' c' f' l', In (s', (c', f') :: l') m -> lexle f s f' s')
  end.
Proof.
  induction m as [|[s l] r IH]; intros best; cbn [wf_scan].
  - destruct best as [[[c s] f]|].
    + split; [left; reflexivity|]. split.
      * intros bc bs bf H. inversion H. subst. right. split; [reflexivity|lia].
      * intros ? ? ? ? [].
    + split; [reflexivity|]. intros ? ? [].
  - destruct l as [|[c f] l].
    + specialize (IH best). destruct (wf_scan r best) as [[[c0 s0] f0]|].
      * destruct IH as (H1 & H2 & H3). split; [|split].
        -- destruct H1 as [H1|[l H1]]; [left; exact H1|right; exists l; right; exact H1].
        -- exact H2.
        -- intros s' c' f' l' [H|H]; [inversion H|]. eapply H3. exact H.
      * destruct IH as [H1 H2]. split; [exact H1|]. intros s' l' [H|H]; [inversion H; reflexivity|]. eapply H2. exact H.
    + set (take := match best with
                   | None => true
                   | Some (_, bs, bf) => (f <? bf) || ((f =? bf) && (s <? bs))
                   end).
      specialize (IH (if take then Some (c, s, f) else best)).
      destruct (wf_scan r (if take then Some (c, s, f) else best)) as [[[c0 s0] f0]|].
      * destruct IH as (H1 & H2 & H3).
        assert (Hcur : lexle f0 s0 f s /\ forall bc bs bf, best = Some (bc, bs, bf) -> lexle f0 s0 bf bs).
        { destruct take eqn:Et.
          - pose proof (H2 _ _ _ eq_refl) as Hle. split; [exact Hle|].
            intros bc bs bf Hb. subst best. unfold take in Et. unfold lexle in *. lia.
          - destruct best as [[[bc bs] bf]|]; [|discriminate].
            pose proof (H2 _ _ _ eq_refl) as Hle. split.
            + unfold take in Et. unfold lexle in *. lia.
            + intros ? ? ? Hb. inversion Hb. subst. exact Hle. }
        destruct Hcur as [Hc1 Hc2].
        split; [|split].
        -- destruct H1 as [H1|[l0 H1]].
           ++ destruct take; [inversion H1; subst; right; exists l; left; reflexivity|left; exact H1].
           ++ right. exists l0. right. exact H1.
        -- exact Hc2.
        -- intros s' c' f' l' [H|H]; [inversion H; subst; exact Hc1|]. eapply H3. exact H.
      * destruct IH as [H1 _]. destruct take eqn:Et; [discriminate|]. unfold take in Et. rewrite H1 in Et. discriminate.
Qed.

Definition wf_sinv (w : wfq) : Prop :=
  al_sorted (wf_qs w) /\
  (forall s l, al_get s (wf_qs w) = Some l -> l <> [] /\ Forall (fun cf => pc_sid (fst cf) = s) l) /\
  (wf_sel w = true -> al_get (wf_selsid w) (wf_qs w) <> None).

Lemma wf_sinv_new : forall ws, wf_sinv (wf_new ws).
Proof. intros ws. unfold wf_sinv, wf_new. cbn. repeat apply conj; try exact I; discriminate. Qed.

Definition wf_flat (w : wfq) : list pchunk := map fst (al_flat (wf_qs w)).

Lemma wf_push_sinv : forall w c, wf_sinv w ->
  let w' := wf_push w c in
  let tag := Z.max (wf_vt w) (wf_fin_of w (pc_sid c)) + pc_len c * wf_phi w (pc_sid c) in
  wf_sinv w' /\
  wf_q w' (pc_sid c) = wf_q w (pc_sid c) ++ [(c, tag)] /\
  (forall s, s <> pc_sid c -> wf_q w' s = wf_q w s) /\
  (forall s, s <> pc_sid c -> al_get s (wf_qs w') = al_get s (wf_qs w)) /\
  al_get (pc_sid c) (wf_qs w') = Some (wf_q w (pc_sid c) ++ [(c, tag)]) /\
  wf_fin_of w' (pc_sid c) = tag /\
  (forall s, s <> pc_sid c -> wf_fin_of w' s = wf_fin_of w s) /\
  wf_vt w' = wf_vt w /\ wf_sel w' = wf_sel w /\ wf_selsid w' = wf_selsid w /\
  wf_w w' = wf_w w /\ wf_scale w' = wf_scale w /\
  Permutation (wf_flat w') (wf_flat w ++ [c]).
Proof.
  intros w c (Hs & Hq & Hsel). cbv zeta.
  unfold wf_push, wf_q, wf_sinv, wf_fin_of, wf_flat. cbn [wf_qs wf_fin wf_w wf_scale wf_vt wf_sel wf_selsid].
  set (s := pc_sid c) in *.
  set (tag := Z.max (wf_vt w) match al_get s (wf_fin w) with Some f => f | None => 0 end + pc_len c * wf_phi w s).
  rewrite !al_get_set_same.
  assert (Hphi : wf_phi {| wf_qs := al_set s (match al_get s (wf_qs w) with Some l => l | None => [] end ++ [(c, tag)]) (wf_qs w);
                           wf_fin := al_set s tag (wf_fin w); wf_w := wf_w w; wf_scale := wf_scale w; wf_vt := wf_vt w;
                           wf_sel := wf_sel w; wf_selsid := wf_selsid w |} s = wf_phi w s) by reflexivity.
  repeat apply conj; try reflexivity.
  - apply al_set_sorted. exact Hs.
  - intros s' l'. destruct (Z.eq_dec s' s) as [->|Hne].
    + rewrite al_get_set_same. intros H. injection H as <-. split.
      * intros H. apply app_eq_nil in H. destruct H; discriminate.
      * apply Forall_app. split; [|constructor; [reflexivity|constructor]].
        destruct (al_get s (wf_qs w)) as [l|] eqn:G; [|constructor]. apply (Hq _ _ G).
    + rewrite al_get_set_other by exact Hne. apply Hq.
  - intros H. destruct (Z.eq_dec (wf_selsid w) s) as [->|Hne].
    + rewrite al_get_set_same. discriminate.
    + rewrite al_get_set_other by exact Hne. apply Hsel. exact H.
  - intros s' Hne. rewrite al_get_set_other by exact Hne. reflexivity.
  - intros s' Hne. rewrite al_get_set_other by exact Hne. reflexivity.
  - intros s' Hne. rewrite al_get_set_other by exact Hne. reflexivity.
  - rewrite (al_flat_set s _ _ Hs).
    destruct (al_get s (wf_qs w)) as [l|] eqn:G.
    + rewrite (al_flat_get s _ _ Hs G). rewrite !map_app. cbn [map fst].
      rewrite <- !app_assoc. apply Permutation_app_head. apply Permutation_app_comm.
    + rewrite (al_del_notin _ _ G). cbn [app map fst]. apply Permutation_cons_append.
Qed.

Lemma wf_peek_keeps : forall w,
  let w' := fst (wf_peek w) in
  wf_qs w' = wf_qs w /\ wf_fin w' = wf_fin w /\ wf_vt w <= wf_vt w' /\ wf_w w' = wf_w w /\ wf_scale w' = wf_scale w /\
  (wf_sel w = true -> w' = w).
Proof.
  intros w. unfold wf_peek. destruct (wf_sel w) eqn:Es; cbn [fst].
  - repeat apply conj; try reflexivity; try lia.
  - destruct (wf_scan (wf_qs w) None) as [[[c s] f]|]; cbn [fst wf_qs wf_fin wf_vt wf_w wf_scale];
      repeat apply conj; try reflexivity; try discriminate; try lia.
Qed.

(* one PO_pop step: nothing when no chunk is queued; otherwise the head of the selected stream is
   removed; when no selection was held the stream is the lexicographic minimum of the head tags *)
Lemma wf_pop_step : forall w, wf_sinv w ->
  let w' := fst (wf_step w PO_pop) in
  let o := snd (wf_step w PO_pop) in
  (o = [] /\ w' = w /\ wf_qs w = [] /\ wf_sel w = false) \/
  (exists s c f l,
     al_get s (wf_qs w) = Some ((c, f) :: l) /\ o = [c] /\ pc_sid c = s /\
     (wf_sel w = true -> s = wf_selsid w) /\
     (wf_sel w = false -> forall s' c' f' l', al_get s' (wf_qs w) = Some ((c', f') :: l') -> lexle f s f' s') /\
     al_get s (wf_qs w') = (match l with [] => None | _ :: _ => Some l end) /\
     (forall s', s' <> s -> al_get s' (wf_qs w') = al_get s' (wf_qs w)) /\
     wf_vt w' = Z.max (wf_vt w) f /\ wf_fin w' = wf_fin w /\ wf_w w' = wf_w w /\ wf_scale w' = wf_scale w /\
     wf_sel w' = false /\ wf_sinv w' /\
     Permutation (wf_flat w) (c :: wf_flat w')).
Proof.
  intros w (Hs & Hq & Hsel). cbn [wf_step].
  (* the state after peek and the selected head *)
  assert (Hpk : (wf_qs w = [] /\ wf_sel w = false /\ wf_peek w = (w, PR_nil)) \/
                exists s c f l vt1, al_get s (wf_qs w) = Some ((c, f) :: l) /\
                  wf_peek w = (mkWfq (wf_qs w) (wf_fin w) (wf_w w) (wf_scale w) vt1 true s, PR_chunk c) /\
                  Z.max vt1 f = Z.max (wf_vt w) f /\
                  (wf_sel w = true -> s = wf_selsid w) /\
                  (wf_sel w = false -> forall s' c' f' l', al_get s' (wf_qs w) = Some ((c', f') :: l') -> lexle f s f' s')).
  { unfold wf_peek. destruct (wf_sel w) eqn:Es.
    - right. specialize (Hsel eq_refl). destruct (al_get (wf_selsid w) (wf_qs w)) as [l0|] eqn:G; [|contradiction].
      destruct (Hq _ _ G) as [Hne _]. destruct l0 as [|[c f] l]; [contradiction|].
      exists (wf_selsid w), c, f, l, (wf_vt w). unfold wf_head. rewrite G.
      repeat apply conj; try reflexivity; try discriminate.
      destruct w; cbn in *. subst. reflexivity.
    - pose proof (wf_scan_spec (wf_qs w) None) as Hsp.
      destruct (wf_scan (wf_qs w) None) as [[[c s] f]|].
      + right. destruct Hsp as ([H|[l H]] & _ & Hmin); [discriminate|].
        exists s, c, f, l, (Z.max (wf_vt w) f). repeat apply conj; try reflexivity; try discriminate.
        * apply al_in_get; assumption.
        * lia.
        * intros _ s' c' f' l' G. apply (Hmin s' c' f' l'). apply al_get_in. exact G.
      + left. destruct Hsp as [_ Hall]. repeat apply conj; try reflexivity.
        destruct (wf_qs w) as [|[s l] r] eqn:Eq; [reflexivity|].
        assert (Hl : l = []) by (apply (Hall s); left; reflexivity). subst l.
        assert (G : al_get s ((s, []) :: r) = Some (@nil (pchunk * Z))) by (apply al_in_get; [exact Hs|left; reflexivity]).
        destruct (Hq _ _ G) as [Hne _]. contradiction. }
  destruct Hpk as [(Hq0 & Hs0 & Hp)|(s & c & f & l & vt1 & G & Hp & Hvt1 & Hst & Hmin)]; rewrite Hp.
  - left. cbn [fst snd]. repeat apply conj; try reflexivity; assumption.
  - right. exists s, c, f, l.
    unfold wf_pop. cbn [wf_sel wf_selsid wf_qs wf_fin wf_w wf_scale wf_vt negb]. rewrite G, pc_eqb_refl. cbn [negb fst snd Z.eqb].
    assert (Hsid : pc_sid c = s). { destruct (Hq _ _ G) as [_ Hall]. inversion Hall. assumption. }
    unfold wf_flat, wf_sinv.
    destruct l as [|cf2 l2]; cbn [wf_sel wf_selsid wf_qs wf_fin wf_w wf_scale wf_vt].
    + rewrite al_del_set, al_get_del_same.
      repeat apply conj; try reflexivity; try assumption; try discriminate.
      * intros s' Hne. rewrite al_get_del_other by exact Hne. reflexivity.
      * apply al_del_sorted. exact Hs.
      * intros s' l'. destruct (Z.eq_dec s' s) as [->|Hne].
        -- rewrite al_get_del_same. discriminate.
        -- rewrite al_get_del_other by exact Hne. apply Hq.
      * rewrite (al_flat_get _ _ _ Hs G). reflexivity.
    + rewrite al_get_set_same.
      repeat apply conj; try reflexivity; try assumption; try discriminate.
      * intros s' Hne. rewrite al_get_set_other by exact Hne. reflexivity.
      * apply al_set_sorted. exact Hs.
      * intros s' l'. destruct (Z.eq_dec s' s) as [->|Hne].
        -- rewrite al_get_set_same. intros H. injection H as <-. split; [discriminate|].
           destruct (Hq _ _ G) as [_ Hall]. inversion Hall. assumption.
        -- rewrite al_get_set_other by exact Hne. apply Hq.
      * rewrite (al_flat_set _ (cf2 :: l2) _ Hs). rewrite (al_flat_get _ _ _ Hs G). reflexivity.
Qed.

Lemma wf_peek_sinv : forall w, wf_sinv w -> wf_sinv (fst (wf_peek w)).
Proof.
  intros w Hinv. pose proof Hinv as (Hs & Hq & Hsel). unfold wf_peek.
  destruct (wf_sel w) eqn:Es; cbn [fst]; [exact Hinv|].
  pose proof (wf_scan_spec (wf_qs w) None) as Hsp.
  destruct (wf_scan (wf_qs w) None) as [[[c s] f]|]; cbn [fst]; [|exact Hinv].
  destruct Hsp as ([H|[l H]] & _ & _); [discriminate|].
  unfold wf_sinv. cbn [wf_qs wf_sel wf_selsid]. repeat apply conj; try assumption.
  intros _. rewrite (al_in_get _ _ _ Hs H). discriminate.
Qed.

Lemma wf_push_fold_sinv : forall x w, wf_sinv w ->
  let w' := fold_left wf_push x w in
  wf_sinv w' /\ wf_sel w' = wf_sel w /\
  (forall s, map fst (wf_q w' s) = map fst (wf_q w s) ++ filter (on_stream s) x) /\
  Permutation (wf_flat w') (wf_flat w ++ x).
Proof.
  induction x as [|c t IH]; intros w Hinv; cbn [fold_left]; cbv zeta.
  - split; [exact Hinv|]. repeat apply conj; try reflexivity.
    + intros s. cbn [filter]. rewrite app_nil_r. reflexivity.
    + rewrite app_nil_r. reflexivity.
  - pose proof (wf_push_sinv w c Hinv) as H. cbv zeta in H.
    destruct H as (Hi1 & Hq1 & Hq2 & _ & _ & _ & _ & _ & Hsel1 & _ & _ & _ & Hp1).
    destruct (IH _ Hi1) as (Hi2 & Hsel2 & Hq3 & Hp2).
    split; [exact Hi2|]. repeat apply conj.
    + rewrite Hsel2. exact Hsel1.
    + intros s. rewrite Hq3. cbn [filter]. unfold on_stream at 2.
      destruct (pc_sid c =? s) eqn:E.
      * assert (pc_sid c = s) by lia. subst s. rewrite Hq1, map_app. cbn [map fst]. rewrite <- app_assoc. reflexivity.
      * rewrite Hq2 by lia. reflexivity.
    + rewrite Hp2, Hp1. rewrite <- app_assoc. reflexivity.
Qed.

(* ================================================================= *)
(* pendingQueue level: conservation, counters, mode switch            *)
(* ================================================================= *)

Definition pol_inv (p : pq_policy) : Prop :=
  match p with
  | PP_msg m => exists P T, Forall (fun x => msg_ok x = true) P /\ mp_inv P T m
  | PP_rr r => rr_inv r
  | PP_wfq w => wf_sinv w
  end.

Definition op_pushed (op : pq_op) : list pchunk := match op with PO_push x => x | _ => [] end.

Lemma pol_step_perm : forall p op, pol_inv p -> op_ok op = true ->
  let p' := fst (pol_step p op) in
  let o := snd (pol_step p op) in
  pol_inv p' /\ Permutation (o ++ pol_queued p') (pol_queued p ++ op_pushed op).
Proof.
  intros p op Hinv Hok. destruct p as [m|r|w]; cbv zeta.
  - rewrite pol_step_msg. cbn [fst snd pol_queued pol_inv] in *.
    destruct Hinv as (P & T & HP & Hm).
    pose proof (mp_step_inv P T m op HP Hok Hm) as H. cbv zeta in H. destruct H as [Hinv' Hshape].
    split.
    + exists (match op with PO_push x => P ++ [x] | _ => P end), (T ++ snd (mp_step m op)).
      split; [|exact Hinv'].
      destruct op as [x| | |b]; try exact HP. apply Forall_app. split; [exact HP|constructor; [exact Hok|constructor]].
    + destruct op as [x| | |b]; cbn [op_pushed].
      * destruct Hshape as [(_ & H1 & H2)|(_ & H1 & H2)]; rewrite H1, H2; cbn [mp_step snd app].
        -- rewrite <- !app_assoc. apply Permutation_app_head. apply Permutation_app_comm.
        -- rewrite <- !app_assoc. reflexivity.
      * destruct Hshape as [-> ->]. rewrite app_nil_r. reflexivity.
      * destruct Hshape as [(-> & -> & _ & _)|(c & -> & [(_ & H1 & H2)|(_ & H1 & H2 & _)])]; rewrite ?app_nil_r; cbn [app].
        -- reflexivity.
        -- rewrite H1, H2. reflexivity.
        -- rewrite H1, H2. apply Permutation_middle.
      * destruct Hshape as [-> ->]. rewrite app_nil_r. reflexivity.
  - rewrite pol_step_rr. cbn [fst snd pol_queued pol_inv] in *. fold (al_flat (rr_qs r)).
    destruct op as [x| | |b]; cbn [op_pushed].
    + cbn [rr_step fst snd app]. destruct (rr_push_fold x r Hinv) as (H1 & _ & _ & H2). split; [exact H1|exact H2].
    + cbn [rr_step fst snd app]. destruct (rr_peek_inv r Hinv) as (H1 & H2 & _). split; [exact H1|].
      rewrite H2, app_nil_r. reflexivity.
    + pose proof (rr_pop_step r Hinv) as H. cbv zeta in H.
      destruct (rr_order r) as [|s t].
      * destruct H as [-> ->]. split; [exact Hinv|]. rewrite app_nil_r. reflexivity.
      * destruct H as (c & l & _ & -> & _ & _ & _ & _ & _ & Hi & Hp). split; [exact Hi|].
        rewrite app_nil_r. cbn [app]. symmetry. exact Hp.
    + cbn [rr_step fst snd app]. split; [exact Hinv|]. rewrite app_nil_r. reflexivity.
  - rewrite pol_step_wfq. cbn [fst snd pol_queued pol_inv] in *. fold (al_flat (wf_qs w)). fold (wf_flat w).
    destruct op as [x| | |b]; cbn [op_pushed].
    + cbn [wf_step fst snd app]. destruct (wf_push_fold_sinv x w Hinv) as (H1 & _ & _ & H2). split; [exact H1|exact H2].
    + cbn [wf_step fst snd app]. split; [apply wf_peek_sinv; exact Hinv|].
      destruct (wf_peek_keeps w) as (H2 & _). fold (wf_flat (fst (wf_peek w))). unfold wf_flat. rewrite H2, app_nil_r. reflexivity.
    + pose proof (wf_pop_step w Hinv) as H. cbv zeta in H.
      destruct H as [(-> & -> & _)|(s & c & f & l & _ & -> & _ & _ & _ & _ & _ & _ & _ & _ & _ & _ & Hi & Hp)].
      * split; [exact Hinv|]. rewrite app_nil_r. reflexivity.
      * split; [exact Hi|]. rewrite app_nil_r. cbn [app]. symmetry. exact Hp.
    + cbn [wf_step fst snd app]. split; [exact Hinv|]. rewrite app_nil_r. reflexivity.
Qed.

Definition sum_len (l : list pchunk) : Z := fold_right (fun c a => pc_len c + a) 0 l.

Lemma sum_len_app : forall a b, sum_len (a ++ b) = sum_len a + sum_len b.
Proof. induction a as [|c r IH]; intros b; cbn [app sum_len fold_right]; [reflexivity|]. fold (sum_len (r ++ b)). fold (sum_len r). rewrite IH. lia. Qed.

Lemma sum_len_perm : forall a b, Permutation a b -> sum_len a = sum_len b.
Proof.
  induction 1; unfold sum_len in *; cbn [fold_right]; lia.
Qed.

Lemma sum_len_nonneg : forall l, Forall (fun c => 0 <= pc_len c) l -> 0 <= sum_len l.
Proof. induction 1; cbn [sum_len fold_right]; [lia|]. fold (sum_len l). lia. Qed.

Definition pq_inv (q : pq) : Prop :=
  pol_inv (pq_pol q) /\
  pq_nbytes q = sum_len (pq_queued q) /\
  pq_nchunks q = Z.of_nat (length (pq_queued q)) /\
  Forall (fun c => 0 <= pc_len c) (pq_queued q).

Lemma pq_inv_new : forall s, pq_inv (pq_new s).
Proof.
  intros s. unfold pq_inv, pq_new, pq_queued. cbn. repeat apply conj; try reflexivity; try constructor.
  exists [], []. split; [constructor|apply mp_inv_new].
Qed.

Lemma pq_push_fold_counters : forall x q,
  let q' := fold_left pq_push x q in
  pq_nbytes q' = pq_nbytes q + sum_len x /\ pq_nchunks q' = pq_nchunks q + Z.of_nat (length x) /\
  pq_il q' = pq_il q /\ pq_sch q' = pq_sch q.
Proof.
  induction x as [|c t IH]; intros q; cbn [fold_left]; cbv zeta.
  - cbn. repeat apply conj; try reflexivity; lia.
  - destruct (IH (pq_push q c)) as (H1 & H2 & H3 & H4). rewrite H1, H2, H3, H4.
    unfold pq_push. cbn [pq_nbytes pq_nchunks pq_il pq_sch length sum_len fold_right]. fold (sum_len t).
    repeat apply conj; try reflexivity; lia.
Qed.

Lemma pq_step_counters : forall q op, no_setil op = true ->
  let q' := fst (pq_step q op) in
  let o := snd (pq_step q op) in
  pq_il q' = pq_il q /\ pq_sch q' = pq_sch q /\
  match o with
  | [] => pq_nbytes q' = pq_nbytes q + sum_len (op_pushed op) /\
          pq_nchunks q' = pq_nchunks q + Z.of_nat (length (op_pushed op))
  | c :: _ => pq_nbytes q' = (if pq_nbytes q - pc_len c <? 0 then 0 else pq_nbytes q - pc_len c) /\
              pq_nchunks q' = pq_nchunks q - 1
  end.
Proof.
  intros q op Hn. destruct op as [x| | |b]; try discriminate; cbn [pq_step fst snd op_pushed].
  - destruct (pq_push_fold_counters x q) as (H1 & H2 & H3 & H4). repeat apply conj; assumption.
  - unfold pq_peek. destruct (pol_peek (pq_pol q)) as [p x]. cbn. repeat apply conj; try reflexivity; lia.
  - unfold pq_pop_peeked, pq_peek. destruct (pol_peek (pq_pol q)) as [p x].
    destruct x as [|c|]; cbn [fst snd pq_il pq_sch pq_nbytes pq_nchunks sum_len fold_right length];
      try (repeat apply conj; try reflexivity; lia).
    unfold pq_pop. cbn [pq_pol pq_nbytes pq_nchunks pq_il pq_sch]. destruct (pol_pop p c) as [p2 e].
    destruct (e =? 0) eqn:E; cbn [negb fst snd pq_il pq_sch pq_nbytes pq_nchunks]; rewrite ?E;
      cbn [sum_len fold_right length]; repeat apply conj; try reflexivity; lia.
Qed.


Lemma pol_step_out : forall p op,
  match snd (pol_step p op) with
  | [] => True
  | c :: o' => o' = [] /\ op = PO_pop
  end.
Proof.
  intros p op. destruct op as [x| | |b]; cbn [pol_step snd]; try exact I.
  unfold pol_pop_peeked. destruct (pol_peek p) as [p1 x]. destruct x as [|c|]; cbn [snd]; try exact I.
  destruct (pol_pop p1 c) as [p2 e]. destruct (e =? 0); cbn [snd]; [split; reflexivity|exact I].
Qed.

Lemma pq_set_il_inv : forall q b, pq_inv q ->
  pq_inv (fst (pq_set_interleaving q b)) /\ pq_queued (fst (pq_set_interleaving q b)) = pq_queued q.
Proof.
  intros q b Hinv. pose proof Hinv as (Hpol & Hnb & Hnc & Hlen). unfold pq_set_interleaving.
  destruct (Bool.eqb (pq_il q) b); cbn [fst]; [split; [exact Hinv|reflexivity]|].
  destruct (pq_nchunks q =? 0) eqn:E0; cbn [negb fst]; [|split; [exact Hinv|reflexivity]].
  assert (Hq : pq_queued q = []).
  { destruct (pq_queued q) as [|c l]; [reflexivity|]. cbn [length] in Hnc. lia. }
  destruct b.
  - destruct (pq_sch q) as [| |ws]; cbn [fst].
    + split; [|reflexivity]. unfold pq_inv, pq_queued in *. cbn [pq_pol pq_nbytes pq_nchunks]. repeat apply conj; assumption.
    + split; [|rewrite Hq; reflexivity]. unfold pq_inv, pq_queued in *. cbn [pq_pol pq_nbytes pq_nchunks pol_queued pol_inv rr_new rr_qs map concat length].
      rewrite Hq in *. split; [apply rr_inv_new|]. repeat apply conj; assumption.
    + split; [|rewrite Hq; reflexivity]. unfold pq_inv, pq_queued in *. cbn [pq_pol pq_nbytes pq_nchunks pol_queued pol_inv wf_new wf_qs map concat length].
      rewrite Hq in *. split; [apply wf_sinv_new|]. repeat apply conj; assumption.
  - cbn [fst]. split; [|rewrite Hq; reflexivity]. unfold pq_inv, pq_queued in *. cbn [pq_pol pq_nbytes pq_nchunks pol_queued pol_inv mp_new mp_uq mp_oq app length].
    rewrite Hq in *. split; [exists [], []; split; [constructor|apply mp_inv_new]|]. repeat apply conj; assumption.
Qed.

Lemma pq_step_inv : forall q op, pq_inv q -> op_ok op = true ->
  let q' := fst (pq_step q op) in
  let o := snd (pq_step q op) in
  pq_inv q' /\ Permutation (o ++ pq_queued q') (pq_queued q ++ op_pushed op) /\
  match o with
  | [] => True
  | c :: o' => o' = [] /\ op = PO_pop /\ 0 <= pq_nbytes q - pc_len c
  end.
Proof.
  intros q op Hinv Hok. pose proof Hinv as (Hpol & Hnb & Hnc & Hlen). cbv zeta.
  destruct (no_setil op) eqn:Hns.
  - destruct (pq_step_pol q op Hns) as [Hp Ho].
    pose proof (pol_step_perm (pq_pol q) op Hpol Hok) as H. cbv zeta in H. destruct H as [Hinv' Hperm].
    pose proof (pq_step_counters q op Hns) as Hc. cbv zeta in Hc. destruct Hc as (_ & _ & Hc).
    pose proof (pol_step_out (pq_pol q) op) as Hout.
    unfold pq_queued in *. rewrite Hp, Ho. rewrite Ho in Hc.
    assert (Hpushed : Forall (fun c => 0 <= pc_len c) (op_pushed op)).
    { destruct op as [x| | |b]; cbn [op_pushed]; try constructor. cbn [op_ok] in Hok.
      eapply Forall_impl; [|apply msg_ok_all; exact Hok]. intros c (_ & _ & H). exact H. }
    assert (Hall : Forall (fun c => 0 <= pc_len c) (snd (pol_step (pq_pol q) op) ++ pol_queued (fst (pol_step (pq_pol q) op)))).
    { eapply Permutation_Forall; [symmetry; exact Hperm|]. apply Forall_app. split; assumption. }
    apply Forall_app in Hall. destruct Hall as [Hall1 Hall2].
    pose proof (sum_len_perm _ _ Hperm) as Hsum. rewrite !sum_len_app in Hsum.
    pose proof (Permutation_length Hperm) as Hlenp. rewrite !app_length in Hlenp.
    pose proof (sum_len_nonneg _ Hall2) as Hnn.
    unfold pq_inv, pq_queued. rewrite Hp.
    destruct (snd (pol_step (pq_pol q) op)) as [|c o'] eqn:Eo.
    + destruct Hc as [Hc1 Hc2]. cbn [sum_len fold_right length] in Hsum, Hlenp.
      split; [|split; [exact Hperm|exact I]].
      split; [exact Hinv'|]. split; [rewrite Hc1, Hnb; lia|]. split; [rewrite Hc2, Hnc; lia|exact Hall2].
    + destruct Hout as [-> ->]. cbn [op_pushed sum_len fold_right length] in *.
      destruct Hc as [Hc1 Hc2].
      assert (Hge : 0 <= pq_nbytes q - pc_len c) by lia.
      split; [|split; [exact Hperm|repeat split; assumption]].
      split; [exact Hinv'|]. split; [|split; [rewrite Hc2, Hnc; lia|exact Hall2]].
      rewrite Hc1. destruct (pq_nbytes q - pc_len c <? 0) eqn:E; lia.
  - destruct op as [x| | |b]; try discriminate. cbn [pq_step fst snd op_pushed app].
    destruct (pq_set_il_inv q b Hinv) as [H1 H2]. split; [exact H1|]. rewrite H2, app_nil_r.
    split; [reflexivity|exact I].
Qed.

(* conservation and counters over every run (mode switches included) *)
Lemma pq_run_inv : forall ops q, pq_inv q -> forallb op_ok ops = true ->
  let q' := fst (pq_run q ops) in
  let T := snd (pq_run q ops) in
  pq_inv q' /\ Permutation (T ++ pq_queued q') (pq_queued q ++ pq_pushed ops).
Proof.
  induction ops as [|op r IH]; intros q Hinv Hok; cbn [pq_run]; cbv zeta.
  - cbn [fst snd app pq_pushed map concat]. split; [exact Hinv|]. rewrite app_nil_r. reflexivity.
  - cbn [forallb] in Hok. apply andb_prop in Hok. destruct Hok as [Hok1 Hok2].
    pose proof (pq_step_inv q op Hinv Hok1) as H. cbv zeta in H. destruct H as (Hi1 & Hp1 & _).
    destruct (pq_step q op) as [q1 o1]. cbn [fst snd] in *.
    pose proof (IH q1 Hi1 Hok2) as H. cbv zeta in H. destruct H as (Hi2 & Hp2).
    destruct (pq_run q1 r) as [q2 o2]. cbn [fst snd] in *.
    split; [exact Hi2|].
    unfold pq_pushed in *. cbn [map concat].
    change (match op with PO_push m => m | _ => [] end) with (op_pushed op).
    rewrite <- app_assoc. rewrite Hp2.
    rewrite !app_assoc. apply Permutation_app_tail. exact Hp1.
Qed.

(* ---------- FIFO per sub-queue ---------- *)
(* key of a chunk: its ordering class under the message policy, its stream under the schedulers *)
Definition pol_key (p : pq_policy) (c : pchunk) : Z :=
  match p with
  | PP_msg _ => if pc_unord c then 1 else 0
  | _ => pc_sid c
  end.

Definition pol_subq (p : pq_policy) (k : Z) : list pchunk :=
  match p with
  | PP_msg m => if k =? 1 then mp_uq m else if k =? 0 then mp_oq m else []
  | PP_rr r => rr_q r k
  | PP_wfq w => map fst (wf_q w k)
  end.

Definition on_key (p : pq_policy) (k : Z) (c : pchunk) : bool := pol_key p c =? k.

Definition same_kind (p p' : pq_policy) : Prop :=
  match p, p' with
  | PP_msg _, PP_msg _ => True
  | PP_rr _, PP_rr _ => True
  | PP_wfq _, PP_wfq _ => True
  | _, _ => False
  end.

Lemma on_key_kind : forall p p' k c, same_kind p p' -> on_key p' k c = on_key p k c.
Proof. intros [m|r|w] [m'|r'|w'] k c H; try contradiction; reflexivity. Qed.

Lemma filter_all : forall {A} (f : A -> bool) l, Forall (fun x => f x = true) l -> filter f l = l.
Proof. induction 1; cbn [filter]; [reflexivity|]. rewrite H, IHForall. reflexivity. Qed.

Lemma filter_none : forall {A} (f : A -> bool) l, Forall (fun x => f x = false) l -> filter f l = [].
Proof. induction 1; cbn [filter]; [reflexivity|]. rewrite H, IHForall. reflexivity. Qed.

Lemma pol_step_fifo : forall p op, pol_inv p -> op_ok op = true ->
  let p' := fst (pol_step p op) in
  let o := snd (pol_step p op) in
  same_kind p p' /\
  forall k, pol_subq p k ++ filter (on_key p k) (op_pushed op) = filter (on_key p k) o ++ pol_subq p' k.
Proof.
  intros p op Hinv Hok. destruct p as [m|r|w]; cbv zeta.
  - rewrite pol_step_msg. cbn [fst snd pol_inv] in *. split; [exact I|].
    destruct Hinv as (P & T & HP & Hm).
    pose proof (mp_step_inv P T m op HP Hok Hm) as H. cbv zeta in H. destruct H as [_ Hshape].
    intros k. unfold on_key. cbn [pol_subq pol_key].
    destruct op as [x| | |b]; cbn [op_pushed].
    + cbn [op_ok] in Hok. pose proof (msg_ok_all x Hok) as Hall.
      destruct Hshape as [(Hu & H1 & H2)|(Hu & H1 & H2)]; rewrite H1, H2; cbn [mp_step snd filter app].
      * destruct (k =? 1) eqn:E1.
        -- rewrite filter_all; [reflexivity|]. eapply Forall_impl; [|exact Hall]. intros c (_ & Hc & _). cbv beta. rewrite Hc, Hu. lia.
        -- rewrite filter_none; [rewrite app_nil_r; reflexivity|]. eapply Forall_impl; [|exact Hall]. intros c (_ & Hc & _). cbv beta. rewrite Hc, Hu. lia.
      * destruct (k =? 1) eqn:E1.
        -- rewrite filter_none; [rewrite app_nil_r; reflexivity|]. eapply Forall_impl; [|exact Hall]. intros c (_ & Hc & _). cbv beta. rewrite Hc, Hu. lia.
        -- destruct (k =? 0) eqn:E0.
           ++ rewrite filter_all; [reflexivity|]. eapply Forall_impl; [|exact Hall]. intros c (_ & Hc & _). cbv beta. rewrite Hc, Hu. lia.
           ++ rewrite filter_none; [reflexivity|]. eapply Forall_impl; [|exact Hall]. intros c (_ & Hc & _). cbv beta. rewrite Hc, Hu. lia.
    + destruct Hshape as [-> ->]. cbn [filter]. rewrite app_nil_r. reflexivity.
    + destruct Hshape as [(-> & -> & _ & _)|(c & -> & [(Hu & H1 & H2)|(Hu & H1 & H2 & _)])]; cbn [filter]; rewrite ?app_nil_r.
      * reflexivity.
      * rewrite Hu, H1, H2. destruct (k =? 1) eqn:E1.
        -- replace (1 =? k) with true by lia. reflexivity.
        -- replace (1 =? k) with false by lia. reflexivity.
      * rewrite Hu, H1, H2. destruct (k =? 1) eqn:E1.
        -- replace (0 =? k) with false by lia. reflexivity.
        -- destruct (k =? 0) eqn:E0.
           ++ replace (0 =? k) with true by lia. reflexivity.
           ++ replace (0 =? k) with false by lia. reflexivity.
    + destruct Hshape as [-> ->]. cbn [filter]. rewrite app_nil_r. reflexivity.
  - rewrite pol_step_rr. cbn [fst snd pol_inv] in *. split; [exact I|].
    intros k. unfold on_key. cbn [pol_subq pol_key]. change (fun c => pc_sid c =? k) with (on_stream k).
    destruct op as [x| | |b]; cbn [op_pushed].
    + cbn [rr_step fst snd filter app]. destruct (rr_push_fold x r Hinv) as (_ & _ & H & _). rewrite H. reflexivity.
    + cbn [rr_step fst snd filter app]. destruct (rr_peek_inv r Hinv) as (_ & H2 & _). unfold rr_q. rewrite H2, app_nil_r. reflexivity.
    + pose proof (rr_pop_step r Hinv) as H. cbv zeta in H.
      destruct (rr_order r) as [|s t].
      * destruct H as [-> ->]. cbn [filter]. rewrite app_nil_r. reflexivity.
      * destruct H as (c & l & Hq & -> & Hc & Hq' & Hoth & _). cbn [filter]. rewrite app_nil_r. unfold on_stream.
        destruct (pc_sid c =? k) eqn:E.
        -- assert (k = s) by lia. subst k. rewrite Hq, Hq'. reflexivity.
        -- rewrite Hoth by lia. reflexivity.
    + cbn [rr_step fst snd filter app]. rewrite app_nil_r. reflexivity.
  - rewrite pol_step_wfq. cbn [fst snd pol_inv] in *. split; [exact I|].
    intros k. unfold on_key. cbn [pol_subq pol_key]. change (fun c => pc_sid c =? k) with (on_stream k).
    destruct op as [x| | |b]; cbn [op_pushed].
    + cbn [wf_step fst snd filter app]. destruct (wf_push_fold_sinv x w Hinv) as (_ & _ & H & _). rewrite H. reflexivity.
    + cbn [wf_step fst snd filter app]. destruct (wf_peek_keeps w) as (H2 & _). unfold wf_q. rewrite H2, app_nil_r. reflexivity.
    + pose proof (wf_pop_step w Hinv) as H. cbv zeta in H.
      destruct H as [(-> & -> & _)|(s & c & f & l & G & -> & Hc & _ & _ & G' & Hoth & _)].
      * cbn [filter]. rewrite app_nil_r. reflexivity.
      * cbn [filter]. rewrite app_nil_r. unfold on_stream, wf_q.
        destruct (pc_sid c =? k) eqn:E.
        -- assert (k = s) by lia. subst k. rewrite G, G'. destruct l; reflexivity.
        -- rewrite Hoth by lia. reflexivity.
    + cbn [wf_step fst snd filter app]. rewrite app_nil_r. reflexivity.
Qed.

Lemma same_kind_trans : forall a b c, same_kind a b -> same_kind b c -> same_kind a c.
Proof. intros [?|?|?] [?|?|?] [?|?|?]; cbn; tauto. Qed.

Lemma pol_run_fifo : forall ops p, pol_inv p -> forallb op_ok ops = true ->
  let p' := fst (pol_run p ops) in
  let T := snd (pol_run p ops) in
  pol_inv p' /\ same_kind p p' /\
  forall k, pol_subq p k ++ filter (on_key p k) (pq_pushed ops) = filter (on_key p k) T ++ pol_subq p' k.
Proof.
  induction ops as [|op r IH]; intros p Hinv Hok; unfold pol_run in *; cbn [run_gen]; cbv zeta.
  - cbn [fst snd pq_pushed map concat filter app]. split; [exact Hinv|]. split; [destruct p; exact I|].
    intros k. rewrite app_nil_r. reflexivity.
  - cbn [forallb] in Hok. apply andb_prop in Hok. destruct Hok as [Hok1 Hok2].
    pose proof (pol_step_perm p op Hinv Hok1) as H. cbv zeta in H. destruct H as [Hi1 _].
    pose proof (pol_step_fifo p op Hinv Hok1) as H. cbv zeta in H. destruct H as [Hk1 Hf1].
    destruct (pol_step p op) as [p1 o1]. cbn [fst snd] in *.
    pose proof (IH p1 Hi1 Hok2) as H. cbv zeta in H. destruct H as (Hi2 & Hk2 & Hf2).
    destruct (run_gen pol_step p1 r) as [p2 o2]. cbn [fst snd] in *.
    split; [exact Hi2|]. split; [eapply same_kind_trans; eassumption|].
    intros k. unfold pq_pushed in *. cbn [map concat].
    change (match op with PO_push m => m | _ => [] end) with (op_pushed op).
    rewrite !filter_app. rewrite app_assoc, Hf1, <- !app_assoc. f_equal.
    specialize (Hf2 k).
    assert (E1 : forall l, filter (on_key p1 k) l = filter (on_key p k) l)
      by (intros l; apply filter_ext; intros c; apply on_key_kind; exact Hk1).
    rewrite !E1 in Hf2.
    exact Hf2.
Qed.

(* ================================================================= *)
(* statements over runs of the pendingQueue                           *)
(* ================================================================= *)

(* the queue right after newPendingQueue + a successful setInterleaving(true) *)
Definition pq_interleaved (s : pq_sched) : pq := fst (pq_set_interleaving (pq_new s) true).

Lemma pq_interleaved_inv : forall s, pq_inv (pq_interleaved s).
Proof. intros s. unfold pq_interleaved. apply pq_set_il_inv. apply pq_inv_new. Qed.

(* 1. conservation + counters, every policy, mode switches included *)
Lemma pq_conservation : forall sched ops, forallb op_ok ops = true ->
  let q' := fst (pq_run (pq_new sched) ops) in
  let T := snd (pq_run (pq_new sched) ops) in
  Permutation (T ++ pq_queued q') (pq_pushed ops) /\
  pq_nbytes q' = sum_len (pq_queued q') /\
  pq_nchunks q' = Z.of_nat (length (pq_queued q')) /\
  0 <= pq_nbytes q'.
Proof.
  intros sched ops Hok. cbv zeta.
  pose proof (pq_run_inv ops (pq_new sched) (pq_inv_new sched) Hok) as H. cbv zeta in H.
  destruct H as ((_ & Hnb & Hnc & Hlen) & Hperm). cbn [pq_queued pq_new pq_pol pol_queued mp_new mp_uq mp_oq app] in Hperm.
  repeat apply conj; try assumption. rewrite Hnb. apply sum_len_nonneg. exact Hlen.
Qed.

(* the underflow clamp of pendingQueue.pop is never taken, and the pop of the peeked chunk never fails:
   whenever chunks are queued the PO_pop step returns one *)
Lemma pq_pop_no_clamp : forall sched ops c, forallb op_ok ops = true ->
  let q := fst (pq_run (pq_new sched) ops) in
  snd (pq_step q PO_pop) = [c] -> 0 <= pq_nbytes q - pc_len c.
Proof.
  intros sched ops c Hok q Hpop.
  pose proof (pq_run_inv ops (pq_new sched) (pq_inv_new sched) Hok) as H. cbv zeta in H. destruct H as [Hinv _].
  pose proof (pq_step_inv q PO_pop Hinv eq_refl) as H. cbv zeta in H. destruct H as (_ & _ & H3).
  fold q in Hinv. rewrite Hpop in H3. destruct H3 as (_ & _ & H3). exact H3.
Qed.

(* FIFO per sub-queue (ordering class under the message policy, stream under a scheduler), for runs
   that do not switch the mode *)
Lemma pq_fifo : forall q ops, pq_inv q -> forallb op_ok ops = true -> forallb no_setil ops = true ->
  let q' := fst (pq_run q ops) in
  let T := snd (pq_run q ops) in
  forall k, pol_subq (pq_pol q) k ++ filter (on_key (pq_pol q) k) (pq_pushed ops) =
            filter (on_key (pq_pol q) k) T ++ pol_subq (pq_pol q') k.
Proof.
  intros q ops (Hpol & _) Hok Hns. cbv zeta.
  destruct (pq_run_pol ops q Hns) as [Hp Ho]. rewrite Hp, Ho.
  pose proof (pol_run_fifo ops (pq_pol q) Hpol Hok) as H. cbv zeta in H. destruct H as (_ & _ & H). exact H.
Qed.

(* 5. setInterleaving takes effect only on an empty queue *)
Lemma pq_setil_nonempty : forall q b, pq_inv q -> pq_queued q <> [] ->
  pq_set_interleaving q b = (q, if Bool.eqb (pq_il q) b then 0 else 5).
Proof.
  intros q b (_ & _ & Hnc & _) Hne.
  assert (Hnz : (pq_nchunks q =? 0) = false).
  { destruct (pq_queued q); [contradiction|]. cbn [length] in Hnc. lia. }
  unfold pq_set_interleaving. destruct (Bool.eqb (pq_il q) b); [reflexivity|].
  rewrite Hnz. reflexivity.
Qed.

Lemma pq_setil_keeps : forall q b, pq_inv q ->
  let q' := fst (pq_set_interleaving q b) in
  pq_inv q' /\ pq_queued q' = pq_queued q /\ pq_nbytes q' = pq_nbytes q /\ pq_nchunks q' = pq_nchunks q /\
  (pq_queued q = [] -> pq_il q <> b -> pq_il q' = b).
Proof.
  intros q b Hinv. cbv zeta. destruct (pq_set_il_inv q b Hinv) as [Hi Hq].
  split; [exact Hi|]. split; [exact Hq|].
  destruct Hinv as (_ & _ & Hnc & _).
  unfold pq_set_interleaving. destruct (Bool.eqb (pq_il q) b) eqn:E.
  - cbn [fst]. repeat split. intros _ H. apply Bool.eqb_prop in E. contradiction.
  - destruct (pq_nchunks q =? 0) eqn:E0; cbn [negb].
    + destruct b; [destruct (pq_sch q)|]; cbn [fst pq_nbytes pq_nchunks pq_il]; repeat split.
    + cbn [fst]. repeat split. intros Hz. rewrite Hz in Hnc. cbn [length] in Hnc. lia.
Qed.

(* ---------- 2. message policy: contiguity ---------- *)

Definition op_msgs (op : pq_op) : list (list pchunk) := match op with PO_push x => [x] | _ => [] end.
Definition pq_pushed_msgs (ops : list pq_op) : list (list pchunk) := concat (map op_msgs ops).

Lemma mp_run_inv : forall ops P T m,
  Forall (fun x => msg_ok x = true) P -> forallb op_ok ops = true -> mp_inv P T m ->
  mp_inv (P ++ pq_pushed_msgs ops) (T ++ snd (run_gen mp_step m ops)) (fst (run_gen mp_step m ops)) /\
  Forall (fun x => msg_ok x = true) (P ++ pq_pushed_msgs ops).
Proof.
  induction ops as [|op r IH]; intros P T m HP Hok Hinv; cbn [run_gen].
  - cbn [fst snd pq_pushed_msgs map concat]. rewrite !app_nil_r. split; assumption.
  - cbn [forallb] in Hok. apply andb_prop in Hok. destruct Hok as [Hok1 Hok2].
    pose proof (mp_step_inv P T m op HP Hok1 Hinv) as H. cbv zeta in H. destruct H as [Hi1 _].
    assert (HP1 : Forall (fun x => msg_ok x = true) (P ++ op_msgs op)).
    { apply Forall_app. split; [exact HP|]. destruct op; cbn [op_msgs]; try constructor; [exact Hok1|constructor]. }
    assert (Hi1' : mp_inv (P ++ op_msgs op) (T ++ snd (mp_step m op)) (fst (mp_step m op))).
    { destruct op; cbn [op_msgs]; [exact Hi1|rewrite (app_nil_r P); exact Hi1..]. }
    destruct (mp_step m op) as [m1 o1]. cbn [fst snd] in *.
    destruct (IH _ _ _ HP1 Hok2 Hi1') as [Hi2 HP2].
    destruct (run_gen mp_step m1 r) as [m2 o2]. cbn [fst snd] in *.
    unfold pq_pushed_msgs in *. cbn [map concat]. rewrite !app_assoc in *. split; assumption.
Qed.

(* Without interleaving: the popped sequence is a sequence of whole pushed messages, fragments in
   order, followed by the already popped part of at most one message in progress.  As TSNs are
   assigned in pop order, every message occupies consecutive TSNs. *)
Lemma pq_msg_contiguous : forall sched ops,
  forallb op_ok ops = true -> forallb no_setil ops = true ->
  let T := snd (pq_run (pq_new sched) ops) in
  exists dn cur,
    T = concat dn ++ cur /\
    Forall (fun x => In x (pq_pushed_msgs ops)) dn /\
    (cur = [] \/ exists rest, rest <> [] /\ In (cur ++ rest) (pq_pushed_msgs ops)).
Proof.
  intros sched ops Hok Hns. cbv zeta.
  destruct (pq_run_pol ops (pq_new sched) Hns) as [_ Ho]. rewrite Ho.
  cbn [pq_new pq_pol]. rewrite pol_run_msg. cbn [snd].
  destruct (mp_run_inv ops [] [] mp_new (Forall_nil _) Hok mp_inv_new) as [Hinv _].
  cbn [app] in Hinv.
  destruct Hinv as (dn & cur & rest & um & om & H1 & H2 & _ & _ & H5 & _ & H6 & H6' & H6'' & _).
  exists dn, cur. repeat apply conj; try assumption.
  destruct (mp_sel (fst (run_gen mp_step mp_new ops))) eqn:Es.
  - right. exists rest. split; [|apply H6'; reflexivity].
    destruct (H6'' eq_refl) as [s Ht]. eapply msg_tail_ok_nonempty. exact Ht.
  - left. apply H5. reflexivity.
Qed.

(* at a message boundary an unordered message, if any is queued, goes first; inside a message the
   next chunk offered is the next fragment of that message (whatever else is queued) *)
Lemma pq_msg_peek : forall sched ops,
  forallb op_ok ops = true -> forallb no_setil ops = true ->
  let q := fst (pq_run (pq_new sched) ops) in
  exists m, pq_pol q = PP_msg m /\
    (mp_sel m = false -> forall c l, mp_uq m = c :: l -> snd (pq_peek q) = PR_chunk c) /\
    (mp_sel m = false -> mp_uq m = [] -> forall c l, mp_oq m = c :: l -> snd (pq_peek q) = PR_chunk c).
Proof.
  intros sched ops Hok Hns. cbv zeta.
  destruct (pq_run_pol ops (pq_new sched) Hns) as [Hp _].
  cbn [pq_new pq_pol] in Hp. rewrite pol_run_msg in Hp. cbn [fst] in Hp.
  exists (fst (run_gen mp_step mp_new ops)). split; [exact Hp|].
  unfold pq_peek. rewrite Hp. cbn [pol_peek snd]. unfold mp_peek.
  split.
  - intros Hs c l Hu. rewrite Hs, Hu. reflexivity.
  - intros Hs Hu c l Ho. rewrite Hs, Hu, Ho. reflexivity.
Qed.

(* ---------- 3. round robin ---------- *)

Definition pq_ring (q : pq) : list Z := match pq_pol q with PP_rr r => rr_order r | _ => [] end.

Lemma rr_run_inv : forall ops r, rr_inv r -> rr_inv (fst (run_gen rr_step r ops)).
Proof.
  induction ops as [|op t IH]; intros r Hinv; cbn [run_gen]; [exact Hinv|].
  pose proof (rr_step_order r op Hinv) as H. cbv zeta in H. destruct H as [Hi1 _].
  destruct (rr_step r op) as [r1 o1]. cbn [fst] in Hi1. specialize (IH r1 Hi1).
  destruct (run_gen rr_step r1 t) as [r2 o2]. exact IH.
Qed.

Lemma pq_run_rr : forall ops q r, pq_pol q = PP_rr r -> forallb no_setil ops = true ->
  pq_pol (fst (pq_run q ops)) = PP_rr (fst (run_gen rr_step r ops)) /\
  snd (pq_run q ops) = snd (run_gen rr_step r ops).
Proof.
  intros ops q r Hp Hns. destruct (pq_run_pol ops q Hns) as [H1 H2]. rewrite H1, H2, Hp, pol_run_rr. split; reflexivity.
Qed.

Lemma pq_interleaved_rr : pq_pol (pq_interleaved PS_rr) = PP_rr rr_new.
Proof. reflexivity. Qed.

(* the ring lists exactly the streams with queued chunks, each once *)
Lemma pq_rr_ring : forall ops, forallb no_setil ops = true ->
  let q := fst (pq_run (pq_interleaved PS_rr) ops) in
  NoDup (pq_ring q) /\ forall s, In s (pq_ring q) <-> pol_subq (pq_pol q) s <> [].
Proof.
  intros ops Hns. cbv zeta.
  destruct (pq_run_rr ops _ _ pq_interleaved_rr Hns) as [Hp _].
  pose proof (rr_run_inv ops rr_new rr_inv_new) as (_ & Hq & Hnd & Hin & _).
  unfold pq_ring. rewrite Hp. cbn [pol_subq]. split; [exact Hnd|].
  intros s. rewrite Hin. unfold rr_q.
  destruct (al_get s (rr_qs (fst (run_gen rr_step rr_new ops)))) as [l|] eqn:G.
  - destruct (Hq _ _ G) as [Hne _]. split; [intros _; exact Hne|intros _; discriminate].
  - split; [intros H; contradiction|intros H; contradiction].
Qed.

(* bounded wait: a stream at position |pre| of the ring is served by exactly the (|pre|+1)-th pop
   from now on, after the streams of [pre], each once, in ring order -- whatever is pushed meanwhile *)
Lemma pq_rr_bounded_wait : forall ops1 ops2 pre s post,
  forallb no_setil ops1 = true -> forallb no_setil ops2 = true ->
  let q := fst (pq_run (pq_interleaved PS_rr) ops1) in
  pq_ring q = pre ++ s :: post ->
  let T := snd (pq_run q ops2) in
  ((length T <= length pre)%nat -> map pc_sid T = firstn (length T) pre) /\
  ((length T > length pre)%nat ->
     map pc_sid (firstn (length pre) T) = pre /\ nth_error (map pc_sid T) (length pre) = Some s).
Proof.
  intros ops1 ops2 pre s post Hns1 Hns2. cbv zeta.
  destruct (pq_run_rr ops1 _ _ pq_interleaved_rr Hns1) as [Hp _].
  pose proof (rr_run_inv ops1 rr_new rr_inv_new) as Hinv.
  unfold pq_ring. rewrite Hp. intros Hord.
  destruct (pq_run_rr ops2 _ _ Hp Hns2) as [_ Ho]. rewrite Ho.
  pose proof (rr_position ops2 _ pre s post Hinv Hord) as H. cbv zeta in H. destruct H as [H1 H2].
  split; [intros Hl; apply (H1 Hl)|exact H2].
Qed.

Lemma nth_error_firstn_lt : forall {A} (l : list A) n i, (i < n)%nat -> nth_error (firstn n l) i = nth_error l i.
Proof.
  induction l as [|a l IH]; intros n i Hlt.
  - rewrite firstn_nil. reflexivity.
  - destruct n as [|n]; [lia|]. destruct i as [|i]; cbn [firstn nth_error]; [reflexivity|]. apply IH. lia.
Qed.

Lemma in_firstn_in : forall {A} (x : A) n l, In x (firstn n l) -> In x l.
Proof. intros A x n l H. rewrite <- (firstn_skipn n l). apply in_or_app. left. exact H. Qed.

(* one round: after a service of s that leaves s backlogged, the services up to the next service of
   s are to pairwise distinct streams (each other stream at most once) *)
Lemma rr_round : forall r ops c1 mid c2 rest,
  rr_inv r ->
  snd (rr_step r PO_pop) = [c1] ->
  rr_q (fst (rr_step r PO_pop)) (pc_sid c1) <> [] ->
  snd (run_gen rr_step (fst (rr_step r PO_pop)) ops) = mid ++ c2 :: rest ->
  pc_sid c2 = pc_sid c1 -> ~ In (pc_sid c1) (map pc_sid mid) ->
  NoDup (map pc_sid mid) /\
  exists t, rr_order (fst (rr_step r PO_pop)) = t ++ [pc_sid c1] /\ map pc_sid mid = t.
Proof.
  intros r ops c1 mid c2 rest Hinv Hpop Hback Hrun Hsid Hnotin.
  pose proof (rr_pop_step r Hinv) as H. cbv zeta in H.
  destruct (rr_order r) as [|s t] eqn:Eo.
  - destruct H as [H _]. rewrite H in Hpop. discriminate.
  - destruct H as (c & l & _ & Ho & Hc & Hq' & _ & Hord & _ & Hi1 & _).
    rewrite Ho in Hpop. injection Hpop as ->. subst s.
    rewrite Hq' in Hback. destruct l as [|c3 l3]; [contradiction|].
    set (r1 := fst (rr_step r PO_pop)) in *.
    pose proof Hi1 as (_ & _ & Hnd & _).
    rewrite Hord in Hnd.
    assert (Hst : ~ In (pc_sid c1) t).
    { intros Hin. apply NoDup_remove_2 in Hnd. apply Hnd. rewrite app_nil_r. exact Hin. }
    assert (Hndt : NoDup t). { apply NoDup_remove_1 in Hnd. rewrite app_nil_r in Hnd. exact Hnd. }
    pose proof (rr_position ops r1 t (pc_sid c1) [] Hi1 Hord) as H. cbv zeta in H. rewrite Hrun in H.
    destruct H as [H1 H2].
    set (L := map pc_sid (mid ++ c2 :: rest)) in *.
    assert (HL : L = map pc_sid mid ++ pc_sid c2 :: map pc_sid rest) by (unfold L; rewrite map_app; reflexivity).
    assert (Hpos : nth_error L (length mid) = Some (pc_sid c1)).
    { rewrite HL. rewrite nth_error_app2 by (rewrite map_length; lia). rewrite map_length, Nat.sub_diag. cbn. rewrite Hsid. reflexivity. }
    assert (Hlen : length (mid ++ c2 :: rest) = length L) by (unfold L; rewrite map_length; reflexivity).
    destruct (Nat.le_gt_cases (length (mid ++ c2 :: rest)) (length t)) as [Hle|Hgt].
    + exfalso. destruct (H1 Hle) as [Hm _]. fold L in Hm.
      apply Hst. apply nth_error_In in Hpos. rewrite Hm in Hpos.
      eapply in_firstn_in; exact Hpos.
    + destruct (H2 Hgt) as [Hm Hn]. fold L in Hn. rewrite <- firstn_map in Hm. fold L in Hm.
      assert (Heq : length mid = length t).
      { destruct (Nat.lt_trichotomy (length mid) (length t)) as [Hlt|[He|Hgt2]]; [exfalso| exact He |exfalso].
        - apply Hst. rewrite <- Hm. eapply nth_error_In. rewrite nth_error_firstn_lt by exact Hlt. exact Hpos.
        - apply Hnotin. rewrite HL in Hn. rewrite nth_error_app1 in Hn by (rewrite map_length; lia).
          eapply nth_error_In. exact Hn. }
      assert (Hmid : map pc_sid mid = t).
      { transitivity (firstn (length t) L); [|exact Hm]. rewrite <- Heq, HL. rewrite <- (map_length pc_sid mid).
        rewrite firstn_app, Nat.sub_diag, firstn_all. cbn [firstn]. rewrite app_nil_r. reflexivity. }
      split; [rewrite Hmid; exact Hndt|]. exists t. split; [exact Hord|exact Hmid].
Qed.

Lemma pq_rr_round : forall ops1 ops2 c1 mid c2 rest,
  forallb no_setil ops1 = true -> forallb no_setil ops2 = true ->
  let q := fst (pq_run (pq_interleaved PS_rr) ops1) in
  snd (pq_run q (PO_pop :: ops2)) = c1 :: mid ++ c2 :: rest ->
  pol_subq (pq_pol (fst (pq_step q PO_pop))) (pc_sid c1) <> [] ->
  pc_sid c2 = pc_sid c1 -> ~ In (pc_sid c1) (map pc_sid mid) ->
  NoDup (map pc_sid mid).
Proof.
  intros ops1 ops2 c1 mid c2 rest Hns1 Hns2. cbv zeta.
  destruct (pq_run_rr ops1 _ _ pq_interleaved_rr Hns1) as [Hp _].
  pose proof (rr_run_inv ops1 rr_new rr_inv_new) as Hinv.
  set (q := fst (pq_run (pq_interleaved PS_rr) ops1)) in *.
  set (r := fst (run_gen rr_step rr_new ops1)) in *.
  intros Hrun Hback Hsid Hnotin.
  assert (Hns : forallb no_setil (PO_pop :: ops2) = true) by (cbn [forallb no_setil andb]; exact Hns2).
  destruct (pq_run_rr (PO_pop :: ops2) q r Hp Hns) as [_ Ho]. rewrite Ho in Hrun. clear Ho.
  destruct (pq_step_pol q PO_pop eq_refl) as [Hp1 _]. rewrite Hp, pol_step_rr in Hp1. cbn [fst] in Hp1.
  rewrite Hp1 in Hback. cbn [pol_subq] in Hback.
  cbn [run_gen] in Hrun.
  pose proof (rr_pop_step r Hinv) as Hps. cbv zeta in Hps.
  destruct (rr_order r) as [|s t] eqn:Eo.
  - exfalso. destruct Hps as [_ Hr1]. rewrite Hr1 in Hback. apply Hback.
    destruct Hinv as (_ & _ & _ & Hin & _). unfold rr_q.
    destruct (al_get (pc_sid c1) (rr_qs r)) eqn:G; [|reflexivity].
    exfalso. assert (Hx : In (pc_sid c1) (rr_order r)) by (apply Hin; rewrite G; discriminate).
    rewrite Eo in Hx. exact Hx.
  - destruct Hps as (c & l & _ & Hout & _).
    pose proof (rr_round r ops2 c mid c2 rest Hinv Hout) as Hrr.
    destruct (rr_step r PO_pop) as [r1 o1]. cbn [fst snd] in *. subst o1.
    destruct (run_gen rr_step r1 ops2) as [r2 o2]. cbn [snd app] in *.
    injection Hrun as -> Ho2. destruct (Hrr Hback Ho2 Hsid Hnotin) as [Hnd _]. exact Hnd.
Qed.

(* ---------- the Go map iteration in WFQ Peek: the result does not depend on the order ---------- *)
Lemma nodup_keys_inj : forall {V} (m : list (Z * V)) k a b,
  NoDup (map fst m) -> In (k, a) m -> In (k, b) m -> a = b.
Proof.
  induction m as [|[k0 v0] r IH]; intros k a b Hnd Ha Hb; [destruct Ha|].
  cbn [map fst] in Hnd. inversion Hnd as [|? ? Hnotin Hnd']. subst.
  destruct Ha as [Ha|Ha]; destruct Hb as [Hb|Hb].
  - inversion Ha. inversion Hb. subst. reflexivity.
  - inversion Ha. subst. exfalso. apply Hnotin. apply (in_map fst) in Hb. exact Hb.
  - inversion Hb. subst. exfalso. apply Hnotin. apply (in_map fst) in Ha. exact Ha.
  - eapply IH; eassumption.
Qed.

Lemma wf_scan_perm : forall m m', NoDup (map fst m) -> Permutation m m' ->
  wf_scan m' None = wf_scan m None.
Proof.
  intros m m' Hnd Hp.
  pose proof (wf_scan_spec m None) as H1. pose proof (wf_scan_spec m' None) as H2.
  destruct (wf_scan m None) as [[[c s] f]|]; destruct (wf_scan m' None) as [[[c' s'] f']|].
  - destruct H1 as ([H1|[l Hin]] & _ & Hmin); [discriminate|].
    destruct H2 as ([H2|[l' Hin']] & _ & Hmin'); [discriminate|].
    apply (Permutation_in _ (Permutation_sym Hp)) in Hin'.
    pose proof (Hmin _ _ _ _ Hin') as Ha.
    pose proof (Hmin' _ _ _ _ (Permutation_in _ Hp Hin)) as Hb.
    unfold lexle in Ha, Hb. assert (f = f' /\ s = s') as [-> ->] by lia.
    pose proof (nodup_keys_inj _ _ _ _ Hnd Hin Hin') as He. inversion He. reflexivity.
  - exfalso. destruct H1 as ([H1|[l Hin]] & _); [discriminate|]. destruct H2 as [_ Hall].
    specialize (Hall _ _ (Permutation_in _ Hp Hin)). discriminate.
  - exfalso. destruct H2 as ([H2|[l Hin]] & _); [discriminate|]. destruct H1 as [_ Hall].
    specialize (Hall _ _ (Permutation_in _ (Permutation_sym Hp) Hin)). discriminate.
  - reflexivity.
Qed.

Lemma al_sorted_nodup : forall {V} (m : list (Z * V)), al_sorted m -> NoDup (map fst m).
Proof.
  induction m as [|[k v] r IH]; intros Hs; cbn [map fst]; [constructor|].
  cbn [al_sorted] in Hs. destruct Hs as [Hlt Hs]. constructor; [|apply IH; exact Hs].
  intros Hin. apply in_map_iff in Hin. destruct Hin as ([k' v'] & Hk & Hin). cbn [fst] in Hk. subst k'.
  specialize (Hlt _ _ Hin). lia.
Qed.

(* ---------- corollaries in the form cited by props/C17.v ---------- *)

Lemma pq_reachable_inv : forall sched ops, forallb op_ok ops = true -> pq_inv (fst (pq_run (pq_new sched) ops)).
Proof. intros sched ops Hok. apply (pq_run_inv ops (pq_new sched) (pq_inv_new sched) Hok). Qed.

Lemma pq_setil_nonempty_reach : forall sched ops b, forallb op_ok ops = true ->
  let q := fst (pq_run (pq_new sched) ops) in
  pq_queued q <> [] -> pq_set_interleaving q b = (q, if Bool.eqb (pq_il q) b then 0 else 5).
Proof. intros sched ops b Hok q Hne. apply pq_setil_nonempty; [apply pq_reachable_inv; exact Hok|exact Hne]. Qed.

Lemma pq_setil_keeps_reach : forall sched ops b, forallb op_ok ops = true ->
  let q := fst (pq_run (pq_new sched) ops) in
  let q' := fst (pq_set_interleaving q b) in
  pq_queued q' = pq_queued q /\ pq_nbytes q' = pq_nbytes q /\ pq_nchunks q' = pq_nchunks q /\
  (pq_queued q = [] -> pq_il q <> b -> pq_il q' = b).
Proof.
  intros sched ops b Hok. cbv zeta.
  pose proof (pq_setil_keeps _ b (pq_reachable_inv sched ops Hok)) as H. cbv zeta in H.
  destruct H as (_ & H1 & H2 & H3 & H4). repeat split; assumption.
Qed.

(* message mode: FIFO per ordering class *)
Lemma pq_fifo_msg : forall sched ops, forallb op_ok ops = true -> forallb no_setil ops = true ->
  let q' := fst (pq_run (pq_new sched) ops) in
  let T := snd (pq_run (pq_new sched) ops) in
  exists m, pq_pol q' = PP_msg m /\
    filter pc_unord (pq_pushed ops) = filter pc_unord T ++ mp_uq m /\
    filter (fun c => negb (pc_unord c)) (pq_pushed ops) = filter (fun c => negb (pc_unord c)) T ++ mp_oq m.
Proof.
  intros sched ops Hok Hns. cbv zeta.
  pose proof (pq_fifo (pq_new sched) ops (pq_inv_new sched) Hok Hns) as H. cbv zeta in H.
  destruct (pq_run_pol ops (pq_new sched) Hns) as [Hp _]. cbn [pq_new pq_pol] in Hp. rewrite pol_run_msg in Hp. cbn [fst] in Hp.
  exists (fst (run_gen mp_step mp_new ops)). split; [exact Hp|].
  pose proof (H 1) as H1. pose proof (H 0) as H0. rewrite Hp in H1, H0.
  cbn [pq_new pq_pol pol_subq mp_new mp_uq mp_oq app Z.eqb Pos.eqb] in H1, H0.
  assert (E1 : forall l, filter (on_key (PP_msg mp_new) 1) l = filter pc_unord l).
  { intros l. apply filter_ext. intros c. unfold on_key. cbn [pol_key]. destruct (pc_unord c); reflexivity. }
  assert (E0 : forall l, filter (on_key (PP_msg mp_new) 0) l = filter (fun c => negb (pc_unord c)) l).
  { intros l. apply filter_ext. intros c. unfold on_key. cbn [pol_key]. destruct (pc_unord c); reflexivity. }
  rewrite !E1 in H1. rewrite !E0 in H0. split; assumption.
Qed.

(* interleaved mode (round robin or WFQ): FIFO per stream *)
Lemma pq_fifo_stream : forall sched ops k, sched <> PS_none ->
  forallb op_ok ops = true -> forallb no_setil ops = true ->
  let q' := fst (pq_run (pq_interleaved sched) ops) in
  let T := snd (pq_run (pq_interleaved sched) ops) in
  filter (on_stream k) (pq_pushed ops) = filter (on_stream k) T ++ pol_subq (pq_pol q') k.
Proof.
  intros sched ops k Hsch Hok Hns. cbv zeta.
  pose proof (pq_fifo (pq_interleaved sched) ops (pq_interleaved_inv sched) Hok Hns k) as H. cbv zeta in H.
  destruct sched as [| |ws]; [contradiction| |]; exact H.
Qed.

(* ---------- progress: with chunks queued, peek offers one and the pop of it succeeds ---------- *)
Lemma al_all_none_nil : forall {V} (m : list (Z * V)), (forall k, al_get k m = None) -> m = [].
Proof.
  intros V [|[k v] r] H; [reflexivity|]. specialize (H k). cbn [al_get] in H. rewrite Z.eqb_refl in H. discriminate.
Qed.

Lemma pol_pop_progress : forall p, pol_inv p -> pol_queued p <> [] -> exists c, snd (pol_step p PO_pop) = [c].
Proof.
  intros [m|r|w] Hinv Hne.
  - rewrite pol_step_msg. cbn [snd pol_inv pol_queued] in *. destruct Hinv as (P & T & HP & Hm).
    pose proof (mp_step_inv P T m PO_pop HP eq_refl Hm) as H. cbv zeta in H. destruct H as [_ Hshape].
    destruct Hshape as [(_ & _ & Hu & Ho)|(c & Hc & _)]; [rewrite Hu, Ho in Hne; contradiction|exists c; exact Hc].
  - rewrite pol_step_rr. cbn [snd pol_inv pol_queued] in *.
    pose proof (rr_pop_step r Hinv) as H. cbv zeta in H.
    destruct (rr_order r) as [|s t] eqn:Eo.
    + exfalso. apply Hne. destruct Hinv as (_ & _ & _ & Hin & _).
      rewrite (al_all_none_nil (rr_qs r)); [reflexivity|].
      intros k. destruct (al_get k (rr_qs r)) eqn:G; [|reflexivity].
      exfalso. assert (Hx : In k (rr_order r)) by (apply Hin; rewrite G; discriminate). rewrite Eo in Hx. exact Hx.
    + destruct H as (c & l & _ & Ho & _). exists c. exact Ho.
  - rewrite pol_step_wfq. cbn [snd pol_inv pol_queued] in *.
    pose proof (wf_pop_step w Hinv) as H. cbv zeta in H.
    destruct H as [(_ & _ & Hq & _)|(s & c & f & l & _ & Ho & _)]; [rewrite Hq in Hne; contradiction|exists c; exact Ho].
Qed.

Lemma pq_pop_progress : forall sched ops, forallb op_ok ops = true ->
  let q := fst (pq_run (pq_new sched) ops) in
  pq_queued q <> [] -> exists c, snd (pq_step q PO_pop) = [c].
Proof.
  intros sched ops Hok q Hne.
  pose proof (pq_reachable_inv sched ops Hok) as (Hpol & _). fold q in Hpol.
  destruct (pq_step_pol q PO_pop eq_refl) as [_ Ho]. rewrite Ho.
  apply pol_pop_progress; assumption.
Qed.
