"""C04 — handshake: both sides end established and agree on the negotiated features under any loss /
duplication / reordering of handshake packets within the retry budget; stale handshake packets do not disturb
an established association; an unanswered connect call fails in bounded time."""
import os
import vlib, simcommon

PROP = "C04"
PROPS_FILE = "props/C04.v"
COQ_FILES = ["gen/Gen.v", "model/Handshake.v", "proofs/HandshakeProofs.v", "proofs/HandshakeReach.v", "props/C04.v"]
TRUSTED_BASE = [
    "Coq 8.16.1 kernel; vm_compute inside proofs (closure of the reachable set, state predicates over its 5024 elements); no native_compute",
    "hand-written finite abstraction coq/model/Handshake.v of association.go (initClient, initServer, initWithOutOfBandTokens, "
    "handleInit, handleInitAck, handleCookieEcho, handleCookieAck, establish/updateInterleavingState, completeHandshake, T1 branches of "
    "onRetransmissionTimeout/onRetransmissionFailure) and of rtxTimer.timeout's retry counter; c_maxInitRetrans and the state codes "
    "come from the translator (gen/Gen.v)",
    "network model: the set of packets emitted so far, any element deliverable at any time (reordering, duplication; loss = never "
    "delivered); packet = kind + the content flags the handlers read; tags/TSNs/ports are not modelled (never branched on)",
    "extraction (ExtrOcamlBasic) + ocaml/cmp_hs.ml; simulator go/inpkg/zz_verif_sim_test.go + zz_verif_simhs_test.go (overlay, synctest, go1.26.8); "
    "the abstraction function is hsRun.abs (white-box read of the Association fields, frozen = association lock held at a quiescent point)",
    "modelled, not verified: goroutine scheduling and channel semantics (completeHandshake's blocking send), the timer runtime; "
    "'the waiting server call returns when its transport closes' is checked on the implementation only (goroutine fact)",
]
ASSUMPTIONS = [
    "no user data is queued before the handshake completes (pendingQueue.setInterleaving cannot fail); the public API gives the caller no "
    "*Association before that",
    "packets are genuine: forged handshake packets are outside the quantifier (an INIT-ACK without state cookie leaves a client in "
    "COOKIE-WAIT without timer: c04_cookieless_init_ack_stalls, observed on the implementation as SIMNOTE (cookieless-init-ack))",
    "progress is existence of a delivery schedule over the packets emitted so far (each retransmitted packet gets a chance) plus the "
    "invariant that the waiting side's T1 timer is running with the packet stored; it is not a fairness theorem over infinite runs",
    "SNAP: the token and the Config of one side carry the same options",
]
LEVEL_TEXT = ("Coq theorems over ALL finite runs (start / delivery of any packet ever emitted / T1 expiry, in any order) of the exact "
              "two-endpoint system, for client/server, server/client, client/client and SNAP starts and all 16 option combinations: "
              "interleaving is used iff both enabled it, the forward-TSN variant follows it, zero checksums are sent only towards a side "
              "that accepts them, nothing enabled changes an established side (stale INIT -> error, INIT-ACK/COOKIE-ACK ignored, own "
              "COOKIE-ECHO re-acknowledged), from every non-failed state a delivery schedule completes the handshake and the waiting "
              "side's T1 timer is running, T1 fails exactly at expiry maxInitRetrans+1 (243 s with default RTO). The reachable set "
              "(5024 counter-collapsed states) is computed by vm_compute and certified by a closure lemma proved by induction on runs "
              "plus a simulation lemma for the counter collapse. The model is tied to the code by step-commuting records of every "
              "start/delivery/T1 event of exhaustively enumerated fault schedules on two real associations, and every system state the "
              "implementation visits is checked to lie in the computed reachable set.")
LEVEL_NOTE = ("Trusted: Coq kernel, hand model Handshake.v, extraction, simulator. The monitor P_C04 (both established, Metadata() of "
              "both sides against the option formula, chunk kinds and checksum fields on the wire, stale duplicates of all four handshake "
              "packets after data transfer, retry counts and failure time with nobody answering, transport close) searches for concrete "
              "failing schedules on the implementation.")
TECHNIQUE = "Coq proof (finite abstraction, computed reachable set + closure/simulation lemmas) + step-commuting correspondence on exhaustive fault schedules"


def _run(ctx, name, test, env, summary_prefix, timeout=3000):
    """one harness run = step-commuting trace (replayed on the extracted model) + P_C04 monitor lines"""
    trace = os.path.join(ctx.tmp, name + ".trace")
    e = dict(env)
    e.update(VERIF_OUT=trace, VERIF_SEED=ctx.seed)
    r = vlib.run_harness(test, e, timeout=timeout)
    fails = [l for l in r["out"].splitlines() if l.startswith("SIMFAIL prop=%s " % PROP)]
    summ = [l for l in r["out"].splitlines() if l.startswith(summary_prefix)]
    notes = [l for l in r["out"].splitlines() if l.startswith("SIMNOTE prop=%s " % PROP)]
    cls = simcommon.classify(PROP)
    for l in fails:
        ctx.concrete.append(dict(property=PROP, what=l[:600], key=cls(l), monitor=name, test=test, env=e))
    ctx.corr.append(dict(name=name + "-monitor", ok=not fails and r["rc"] == 0, records=0, failures=len(fails),
                         summary=summ[-1][:900] if summ else "", wall_s=round(r["wall"], 2)))
    for n in sorted(set(notes))[:4]:
        ctx.notes.append("observed on the implementation (outside the property's quantifier): " + n[:400])
    if r["rc"] != 0 and not fails:
        ctx.broken.append(("correspondence", name, "harness run failed (rc=%s): %s" % (r["rc"], r["out"][-1500:])))
        return
    if not os.path.exists(trace):
        ctx.broken.append(("correspondence", name, "no trace written"))
        return
    c = vlib.run_cmp("hs", trace, timeout=timeout)
    ok = c["rc"] == 0 and not c["mismatches"] and c["summary"].get("records", 0) > 0
    ctx.corr.append(dict(name=name, ok=ok, records=c["summary"].get("records", 0), cases=c["summary"].get("cases", 0),
                         mismatches=len(c["mismatches"]), wall_s=round(c["wall"], 2), env=e))
    if not ok:
        ctx.broken.append(("correspondence", name, "\n".join(c["mismatches"][:5]) or c["raw"][-1500:]))
    try:
        with open(trace) as f:
            head = [next(f).strip() for _ in range(12)]
        ctx.samples.append({"trace": name, "first_lines": head})
    except (StopIteration, OSError):
        pass


def correspondence(ctx):
    _run(ctx, "hs-fault-schedules", "TestVerifSimHs",
         {"VERIF_HS_K": ctx.scale(2, 3), "VERIF_HS_RECMOD": ctx.scale(16, 256)}, "SIMHS")
    _run(ctx, "hs-special", "TestVerifSimHsSpecial", {}, "SIMHSSPECIAL")


def search(ctx):
    if ctx.tier != "thorough":
        _run(ctx, "hs-fault-schedules-k3", "TestVerifSimHs", {"VERIF_HS_K": 3, "VERIF_HS_RECMOD": 256}, "SIMHS")
