// Verification harness (overlay; not part of pion/sctp): wire codec differential and monitors.
//
// TestVerifCodec writes a trace that /verif/ocaml/cmp_codec.ml replays on the extracted Coq model
// (coq/model/Codec.v).  Trace grammar (one case = one packet):
//
//	case <name>
//	build <packet dump>            structured cases only: the packet struct handed to packet.marshal
//	enc ok <hex> | enc err <code> | enc panic
//	dec <doChecksum> <ckOk> <hex>  bytes handed to packet.unmarshal ('=' : the bytes of the enc line)
//	res ok | res err <code> | res panic
//	dump <packet dump>             when res ok: canonical dump of the decoded struct
//	renc ok <hex> | renc err <code> | renc panic   when res ok: packet.marshal(false) of the decoded struct
//	cdec hback <hex> / cres .. / cdump ..          direct call of chunkHeartbeatAck.unmarshal
//
// TestVerifCodecProps evaluates the C12 statements directly on the implementation and prints one
// CODECFAIL line per violated statement instance (decisive failing inputs).
package sctp

import (
	"bufio"
	"encoding/binary"
	"encoding/hex"
	"errors"
	"fmt"
	"math/rand"
	"os"
	"sort"
	"strings"
	"testing"
)

// ---------------------------------------------------------------- error classification

// index+1 = error code of coq/model/Codec.v (e_* definitions); first errors.Is match wins
var codecErrTable = []error{
	ErrPacketRawTooSmall, ErrParseSCTPChunkNotEnoughData, ErrUnmarshalUnknownChunkType, ErrChecksumMismatch,
	ErrChunkHeaderTooSmall, ErrChunkHeaderNotEnoughSpace, ErrChunkHeaderPaddingNonZero, ErrChunkPayloadSmall,
	ErrChunkTypeUnhandled, ErrChunkTypeNotSack, ErrSackSizeNotLargeEnoughInfo, ErrSackSizeNotMatchPredicted,
	ErrChunkTypeNotTypeInit, ErrChunkValueNotLongEnough, ErrChunkTypeInitFlagZero, ErrChunkTypeInitUnmarshalFailed,
	ErrChunkTypeNotInitAck, ErrChunkNotLongEnoughForParams, ErrChunkTypeInitAckFlagZero, ErrInitAckUnmarshalFailed,
	ErrChunkTypeNotHeartbeat, ErrHeartbeatNotLongEnoughInfo, ErrParseParamTypeFailed, ErrHeartbeatParam,
	ErrHeartbeatChunkUnmarshal, ErrHeartbeatExtraNonZero, ErrChunkTypeNotHeartbeatAck, ErrHeartbeatAckParams,
	ErrHeartbeatAckNotHeartbeatInfo, ErrHeartbeatAckMarshalParam, ErrChunkTypeNotAbort, ErrBuildAbortChunkFailed,
	ErrChunkTypeNotCtError, ErrBuildErrorChunkFailed, ErrChunkTypeNotShutdown, ErrInvalidChunkSize,
	ErrChunkTypeNotShutdownAck, ErrChunkTypeNotShutdownComplete, ErrChunkTypeNotCookieEcho, ErrChunkTypeNotCookieAck,
	ErrChunkParseParamTypeFailed, ErrMarshalStreamFailed, ErrChunkTooShort, errIForwardTSNChunkTooShort,
	errIForwardTSNChunkInvalidLength, errIForwardTSNTooManyStreams, ErrParamHeaderTooShort,
	ErrParamHeaderSelfReportedLengthShorter, ErrParamHeaderSelfReportedLengthLonger, ErrParamHeaderParseFailed,
	ErrParamTypeUnhandled, ErrSSNResetRequestParamTooShort, ErrReconfigRespParamTooShort, ErrInvalidChunkLength,
	ErrInvalidAlgorithmType, ErrZeroChecksumParamTooShort, ErrInvalidSCTPChunk, ErrProtocolViolationUnmarshal,
	ErrInitChunkParseParamTypeFailed, ErrParamPacketTooShort, ErrHeartbeatMarshalNoInfo,
}

func cdErrCode(err error) int {
	for i, e := range codecErrTable {
		if errors.Is(err, e) {
			return i + 1
		}
	}
	return 0
}

// ---------------------------------------------------------------- canonical dump

func cdHex(b []byte) string {
	if len(b) == 0 {
		return "-"
	}
	return hex.EncodeToString(b)
}

func cdDumpParam(sb *strings.Builder, p param) {
	switch v := p.(type) {
	case *paramHeartbeatInfo:
		fmt.Fprintf(sb, " hbinfo %s", cdHex(v.heartbeatInformation))
	case *paramStateCookie:
		fmt.Fprintf(sb, " cookie %s", cdHex(v.cookie))
	case *paramOutgoingResetRequest:
		fmt.Fprintf(sb, " outreset %d %d %d %d", v.reconfigRequestSequenceNumber, v.reconfigResponseSequenceNumber,
			v.senderLastTSN, len(v.streamIdentifiers))
		for _, s := range v.streamIdentifiers {
			fmt.Fprintf(sb, " %d", s)
		}
	case *paramReconfigResponse:
		fmt.Fprintf(sb, " reconfresp %d %d", v.reconfigResponseSequenceNumber, uint32(v.result))
	case *paramECNCapable:
		sb.WriteString(" ecn")
	case *paramZeroChecksumAcceptable:
		fmt.Fprintf(sb, " zerock %d", v.edmid)
	case *paramRandom:
		fmt.Fprintf(sb, " random %s", cdHex(v.randomData))
	case *paramChunkList:
		b := make([]byte, len(v.chunkTypes))
		for i, t := range v.chunkTypes {
			b[i] = byte(t)
		}
		fmt.Fprintf(sb, " chunklist %s", cdHex(b))
	case *paramRequestedHMACAlgorithm:
		fmt.Fprintf(sb, " hmac %d", len(v.availableAlgorithms))
		for _, a := range v.availableAlgorithms {
			fmt.Fprintf(sb, " %d", uint16(a))
		}
	case *paramSupportedExtensions:
		b := make([]byte, len(v.ChunkTypes))
		for i, t := range v.ChunkTypes {
			b[i] = byte(t)
		}
		fmt.Fprintf(sb, " suppext %s", cdHex(b))
	case *paramForwardTSNSupported:
		sb.WriteString(" fwdsupp")
	default:
		fmt.Fprintf(sb, " ?param(%T)", p)
	}
}

func cdDumpCause(sb *strings.Builder, c errorCause) {
	switch v := c.(type) {
	case *errorCauseInvalidMandatoryParameter:
		fmt.Fprintf(sb, " invmand %d %s", uint16(v.code), cdHex(v.raw))
	case *errorCauseUnrecognizedChunkType:
		fmt.Fprintf(sb, " unrec %s", cdHex(v.unrecognizedChunk))
	case *errorCauseProtocolViolation:
		fmt.Fprintf(sb, " protoviol %d %s", uint16(v.code), cdHex(v.additionalInformation))
	case *errorCauseUserInitiatedAbort:
		fmt.Fprintf(sb, " userabort %s", cdHex(v.upperLayerAbortReason))
	case *errorCauseHeader:
		fmt.Fprintf(sb, " other %d %s", uint16(v.code), cdHex(v.raw))
	default:
		fmt.Fprintf(sb, " ?cause(%T)", c)
	}
}

func cdDumpInitCommon(sb *strings.Builder, ack int, flags byte, i *chunkInitCommon) {
	fmt.Fprintf(sb, " INIT %d %d %d %d %d %d %d %d", ack, flags, i.initiateTag, i.advertisedReceiverWindowCredit,
		i.numOutboundStreams, i.numInboundStreams, i.initialTSN, len(i.params))
	for _, p := range i.params {
		cdDumpParam(sb, p)
	}
	fmt.Fprintf(sb, " %d", len(i.unrecognizedParams))
	for _, u := range i.unrecognizedParams {
		fmt.Fprintf(sb, " %d %s", uint16(u.typ), cdHex(u.raw))
	}
}

// sem=true leaves out chunk-header state that is not a field of the chunk (used by the monitors)
func cdDumpChunk(sb *strings.Builder, c chunk, sem bool) {
	hraw := func(b []byte) string {
		if sem {
			return "_"
		}
		return cdHex(b)
	}
	switch v := c.(type) {
	case *chunkPayloadData:
		fmt.Fprintf(sb, " DATA %d %d %d %d %d %d %d %d %d %d %d %s", b2i(v.isIData()), b2i(v.unordered),
			b2i(v.beginningFragment), b2i(v.endingFragment), b2i(v.immediateSack), v.tsn, v.streamIdentifier,
			v.streamSequenceNumber, v.messageIdentifier, v.fragmentSequenceNumber, uint32(v.payloadType), cdHex(v.userData))
	case *chunkSelectiveAck:
		fmt.Fprintf(sb, " SACK %d %d %d %d", v.flags, v.cumulativeTSNAck, v.advertisedReceiverWindowCredit, len(v.gapAckBlocks))
		for _, g := range v.gapAckBlocks {
			fmt.Fprintf(sb, " %d %d", g.start, g.end)
		}
		fmt.Fprintf(sb, " %d", len(v.duplicateTSN))
		for _, d := range v.duplicateTSN {
			fmt.Fprintf(sb, " %d", d)
		}
	case *chunkInit:
		cdDumpInitCommon(sb, 0, v.flags, &v.chunkInitCommon)
	case *chunkInitAck:
		cdDumpInitCommon(sb, 1, v.flags, &v.chunkInitCommon)
	case *chunkHeartbeat:
		if sem {
			fmt.Fprintf(sb, " HB _ _ _ %d", len(v.params))
		} else {
			fmt.Fprintf(sb, " HB %d %d %s %d", uint8(v.typ), v.flags, cdHex(v.raw), len(v.params))
		}
		for _, p := range v.params {
			cdDumpParam(sb, p)
		}
	case *chunkHeartbeatAck:
		fmt.Fprintf(sb, " HBACK %d %d", v.flags, len(v.params))
		for _, p := range v.params {
			cdDumpParam(sb, p)
		}
	case *chunkAbort:
		fmt.Fprintf(sb, " ABORT %d", len(v.errorCauses))
		for _, e := range v.errorCauses {
			cdDumpCause(sb, e)
		}
	case *chunkError:
		fmt.Fprintf(sb, " ERROR %d", len(v.errorCauses))
		for _, e := range v.errorCauses {
			cdDumpCause(sb, e)
		}
	case *chunkShutdown:
		fmt.Fprintf(sb, " SHUTDOWN %d %d", v.flags, v.cumulativeTSNAck)
	case *chunkShutdownAck:
		fmt.Fprintf(sb, " SHUTACK %d %s", v.flags, hraw(v.raw))
	case *chunkShutdownComplete:
		fmt.Fprintf(sb, " SHUTCOMP %d %s", v.flags, hraw(v.raw))
	case *chunkCookieEcho:
		fmt.Fprintf(sb, " COOKIEECHO %d %s", v.flags, cdHex(v.cookie))
	case *chunkCookieAck:
		fmt.Fprintf(sb, " COOKIEACK %d %s", v.flags, hraw(v.raw))
	case *chunkReconfig:
		fmt.Fprintf(sb, " RECONFIG %d", v.flags)
		cdDumpParam(sb, v.paramA)
		if v.paramB != nil {
			sb.WriteString(" 1")
			cdDumpParam(sb, v.paramB)
		} else {
			sb.WriteString(" 0")
		}
	case *chunkForwardTSN:
		fmt.Fprintf(sb, " FWD %d %d %d", v.flags, v.newCumulativeTSN, len(v.streams))
		for _, s := range v.streams {
			fmt.Fprintf(sb, " %d %d", s.identifier, s.sequence)
		}
	case *chunkIForwardTSN:
		fmt.Fprintf(sb, " IFWD %d %d %d", v.flags, v.newCumulativeTSN, len(v.streams))
		for _, s := range v.streams {
			fmt.Fprintf(sb, " %d %d %d", s.identifier, b2i(s.unordered), s.messageIdentifier)
		}
	default:
		fmt.Fprintf(sb, " ?chunk(%T)", c)
	}
}

func cdDumpPacket(p *packet, sem bool) string {
	var sb strings.Builder
	fmt.Fprintf(&sb, "P %d %d %d %d", p.sourcePort, p.destinationPort, p.verificationTag, len(p.chunks))
	for _, c := range p.chunks {
		cdDumpChunk(&sb, c, sem)
	}
	return sb.String()
}

// ---------------------------------------------------------------- guarded calls

func cdMarshal(p *packet, doChecksum bool) (raw []byte, outcome string) {
	defer func() {
		if r := recover(); r != nil {
			raw, outcome = nil, "panic"
		}
	}()
	b, err := p.marshal(doChecksum)
	if err != nil {
		return nil, fmt.Sprintf("err %d", cdErrCode(err))
	}
	return b, "ok"
}

func cdUnmarshal(doChecksum bool, raw []byte) (p *packet, outcome string) {
	defer func() {
		if r := recover(); r != nil {
			p, outcome = nil, "panic"
		}
	}()
	p = &packet{}
	// hand the decoder a private copy with no spare capacity: an out-of-bounds read cannot be hidden
	buf := make([]byte, len(raw))
	copy(buf, raw)
	if err := p.unmarshal(doChecksum, buf); err != nil {
		return nil, fmt.Sprintf("err %d", cdErrCode(err))
	}
	return p, "ok"
}

func cdCkOk(raw []byte) bool {
	return len(raw) >= packetHeaderSize && generatePacketChecksum(raw) == binary.LittleEndian.Uint32(raw[8:])
}

func cdSetCRC(raw []byte) {
	if len(raw) >= packetHeaderSize {
		binary.LittleEndian.PutUint32(raw[8:], generatePacketChecksum(raw))
	}
}

func cdZeroCRC(raw []byte) {
	if len(raw) >= packetHeaderSize {
		copy(raw[8:12], []byte{0, 0, 0, 0})
	}
}

func cdOutcomeWithHex(outcome string, raw []byte) string {
	if outcome == "ok" {
		return "ok " + cdHex(raw)
	}
	return outcome
}

// decode + dump + re-encode, written as the res/dump/renc lines
func cdWriteDecode(w *bufio.Writer, doChecksum bool, raw []byte, hexTok string) (*packet, string) {
	fmt.Fprintf(w, "dec %d %d %s\n", b2i(doChecksum), b2i(cdCkOk(raw)), hexTok)
	p, oc := cdUnmarshal(doChecksum, raw)
	fmt.Fprintf(w, "res %s\n", oc)
	if oc != "ok" {
		return nil, oc
	}
	fmt.Fprintf(w, "dump %s\n", cdDumpPacket(p, false))
	re, roc := cdMarshal(p, false)
	fmt.Fprintf(w, "renc %s\n", cdOutcomeWithHex(roc, re))
	return p, oc
}

// ---------------------------------------------------------------- generators

type cdGen struct {
	rng *rand.Rand
	// emit=true restricts to shapes an endpoint builds itself (monitors); false also sets header state
	emit bool
}

func (g *cdGen) blen() int {
	switch g.rng.Intn(12) {
	case 0:
		return 0
	case 1, 2, 3, 4:
		return 1 + g.rng.Intn(8)
	case 5, 6, 7:
		return g.rng.Intn(41)
	case 8, 9:
		return 4 * g.rng.Intn(12)
	case 10:
		return g.rng.Intn(300)
	default:
		return g.rng.Intn(1300)
	}
}

func (g *cdGen) bytes(n int) []byte {
	b := make([]byte, n)
	g.rng.Read(b)
	if n > 0 && g.rng.Intn(6) == 0 { // zero runs matter for padding / all-zero checks
		for i := g.rng.Intn(n); i < n; i++ {
			b[i] = 0
		}
	}
	return b
}

func (g *cdGen) u32() uint32 {
	switch g.rng.Intn(6) {
	case 0:
		return 0
	case 1:
		return 0xffffffff - uint32(g.rng.Intn(3))
	case 2:
		return uint32(g.rng.Intn(70000))
	case 3:
		return 0x80000000 + uint32(g.rng.Intn(3)) - 1
	default:
		return g.rng.Uint32()
	}
}

func (g *cdGen) u16() uint16 {
	switch g.rng.Intn(5) {
	case 0:
		return 0
	case 1:
		return 0xffff - uint16(g.rng.Intn(2))
	case 2:
		return uint16(g.rng.Intn(300))
	default:
		return uint16(g.rng.Intn(65536))
	}
}

func (g *cdGen) flags() byte {
	if g.emit || g.rng.Intn(3) != 0 {
		return 0
	}
	return byte(g.rng.Intn(256))
}

func (g *cdGen) hdrRaw() []byte {
	if g.emit || g.rng.Intn(4) != 0 {
		return nil
	}
	return g.bytes(g.rng.Intn(10))
}

func (g *cdGen) chunkTypes(n int) []chunkType {
	out := make([]chunkType, n)
	for i := range out {
		out[i] = chunkType(g.rng.Intn(256))
	}
	return out
}

var cdParamKinds = []string{"hbinfo", "cookie", "outreset", "reconfresp", "ecn", "zerock", "random", "chunklist", "hmac", "suppext", "fwdsupp"}

func (g *cdGen) param(kind string) param {
	switch kind {
	case "hbinfo":
		return &paramHeartbeatInfo{heartbeatInformation: g.bytes(g.blen() % 64)}
	case "cookie":
		return &paramStateCookie{cookie: g.bytes(g.blen() % 80)}
	case "outreset":
		n := g.rng.Intn(6)
		if g.rng.Intn(10) == 0 {
			n = g.rng.Intn(200)
		}
		s := make([]uint16, n)
		for i := range s {
			s[i] = g.u16()
		}
		return &paramOutgoingResetRequest{reconfigRequestSequenceNumber: g.u32(), reconfigResponseSequenceNumber: g.u32(),
			senderLastTSN: g.u32(), streamIdentifiers: s}
	case "reconfresp":
		r := uint32(g.rng.Intn(8))
		if g.rng.Intn(4) == 0 {
			r = g.u32()
		}
		return &paramReconfigResponse{reconfigResponseSequenceNumber: g.u32(), result: reconfigResult(r)}
	case "ecn":
		return &paramECNCapable{}
	case "zerock":
		e := uint32(1)
		if g.rng.Intn(3) == 0 {
			e = g.u32()
		}
		return &paramZeroChecksumAcceptable{edmid: e}
	case "random":
		return &paramRandom{randomData: g.bytes(g.blen() % 48)}
	case "chunklist":
		return &paramChunkList{chunkTypes: g.chunkTypes(g.rng.Intn(9))}
	case "hmac":
		n := g.rng.Intn(4)
		a := make([]hmacAlgorithm, n)
		for i := range a {
			if g.emit || g.rng.Intn(8) != 0 {
				a[i] = []hmacAlgorithm{hmacSHA128, hmacSHA256}[g.rng.Intn(2)]
			} else {
				a[i] = hmacAlgorithm(g.rng.Intn(6))
			}
		}
		return &paramRequestedHMACAlgorithm{availableAlgorithms: a}
	case "suppext":
		return &paramSupportedExtensions{ChunkTypes: g.chunkTypes(g.rng.Intn(7))}
	default:
		return &paramForwardTSNSupported{}
	}
}

func (g *cdGen) cause() errorCause {
	switch g.rng.Intn(6) {
	case 0:
		code := invalidMandatoryParameter
		if !g.emit && g.rng.Intn(3) == 0 {
			code = errorCauseCode(g.rng.Intn(16))
		}
		return &errorCauseInvalidMandatoryParameter{errorCauseHeader{code: code, raw: g.bytes(g.blen() % 24)}}
	case 1:
		return &errorCauseUnrecognizedChunkType{unrecognizedChunk: g.bytes(g.blen() % 40)}
	case 2:
		code := protocolViolation
		if !g.emit && g.rng.Intn(3) == 0 {
			code = errorCauseCode(g.rng.Intn(16))
		}
		return &errorCauseProtocolViolation{errorCauseHeader: errorCauseHeader{code: code},
			additionalInformation: g.bytes(g.blen() % 60)}
	case 3:
		return &errorCauseUserInitiatedAbort{upperLayerAbortReason: g.bytes(g.blen() % 60)}
	default:
		codes := []errorCauseCode{invalidStreamIdentifier, missingMandatoryParameter, staleCookieError, outOfResource,
			unresolvableAddress, unrecognizedParameters, noUserData, cookieReceivedWhileShuttingDown,
			restartOfAnAssociationWithNewAddresses, errorCauseCode(0), errorCauseCode(0x0b00), errorCauseCode(g.rng.Intn(65536))}
		c := codes[g.rng.Intn(len(codes))]
		if c == unrecognizedChunkType || c == invalidMandatoryParameter || c == protocolViolation || c == userInitiatedAbort {
			c = noUserData
		}
		return &errorCauseHeader{code: c, raw: g.bytes(g.blen() % 24)}
	}
}

var cdChunkKinds = []string{"DATA", "IDATA", "SACK", "INIT", "INITACK", "HB", "HBACK", "ABORT", "ERROR", "SHUTDOWN",
	"SHUTACK", "SHUTCOMP", "COOKIEECHO", "COOKIEACK", "RECONFIG", "FWD", "IFWD"}

func (g *cdGen) initCommon() chunkInitCommon {
	ic := chunkInitCommon{initiateTag: g.u32(), advertisedReceiverWindowCredit: g.u32(), numOutboundStreams: g.u16(),
		numInboundStreams: g.u16(), initialTSN: g.u32()}
	n := g.rng.Intn(5)
	for i := 0; i < n; i++ {
		ic.params = append(ic.params, g.param(cdParamKinds[g.rng.Intn(len(cdParamKinds))]))
	}
	return ic
}

func (g *cdGen) chunk(kind string) chunk {
	switch kind {
	case "DATA", "IDATA":
		c := &chunkPayloadData{unordered: g.rng.Intn(2) == 0, beginningFragment: g.rng.Intn(2) == 0,
			endingFragment: g.rng.Intn(2) == 0, immediateSack: g.rng.Intn(4) == 0, tsn: g.u32(),
			streamIdentifier: g.u16(), streamSequenceNumber: g.u16(), payloadType: PayloadProtocolIdentifier(g.u32()),
			userData: g.bytes(g.blen())}
		if kind == "IDATA" {
			c.iData = true
			c.messageIdentifier = g.u32()
			c.fragmentSequenceNumber = g.u32()
			if g.emit { // what the sender builds (stream.go): ssn mirrors the low half of the MID
				c.streamSequenceNumber = uint16(c.messageIdentifier)
			}
		} else if !g.emit && g.rng.Intn(6) == 0 {
			c.messageIdentifier = g.u32()
			c.fragmentSequenceNumber = g.u32()
		}
		return c
	case "SACK":
		c := &chunkSelectiveAck{cumulativeTSNAck: g.u32(), advertisedReceiverWindowCredit: g.u32()}
		c.flags = g.flags()
		ng, nd := g.rng.Intn(5), g.rng.Intn(4)
		if g.rng.Intn(12) == 0 {
			ng, nd = g.rng.Intn(300), g.rng.Intn(100)
		}
		for i := 0; i < ng; i++ {
			c.gapAckBlocks = append(c.gapAckBlocks, gapAckBlock{g.u16(), g.u16()})
		}
		for i := 0; i < nd; i++ {
			c.duplicateTSN = append(c.duplicateTSN, g.u32())
		}
		return c
	case "INIT":
		c := &chunkInit{chunkInitCommon: g.initCommon()}
		if !g.emit && g.rng.Intn(10) == 0 {
			c.flags = g.flags()
		}
		return c
	case "INITACK":
		c := &chunkInitAck{chunkInitCommon: g.initCommon()}
		if !g.emit && g.rng.Intn(10) == 0 {
			c.flags = g.flags()
		}
		return c
	case "HB":
		// association.sendActiveHeartbeatLocked builds exactly this shape
		c := &chunkHeartbeat{chunkHeader: chunkHeader{typ: ctHeartbeat, flags: 0},
			params: []param{&paramHeartbeatInfo{heartbeatInformation: g.bytes(g.blen() % 40)}}}
		if !g.emit {
			switch g.rng.Intn(8) {
			case 0: // zero header, as a chunkHeartbeat{} literal without explicit header
				c.chunkHeader = chunkHeader{}
			case 1: // header state as left by a previous unmarshal
				c.flags = g.flags()
				pp, _ := c.params[0].marshal()
				c.raw = pp
			case 2: // no parameter: marshal falls back to the bare header (typ, flags, raw as they are)
				c.params = nil
				c.flags = g.flags()
				if g.rng.Intn(2) == 0 {
					c.raw = g.hdrRaw()
				}
			case 3: // marshal errors: two parameters / not a Heartbeat Info
				if g.rng.Intn(2) == 0 {
					c.params = append(c.params, g.param("hbinfo"))
				} else {
					c.params = []param{g.param(cdParamKinds[1+g.rng.Intn(len(cdParamKinds)-1)])}
				}
			}
		}
		return c
	case "HBACK":
		c := &chunkHeartbeatAck{params: []param{&paramHeartbeatInfo{heartbeatInformation: g.bytes(g.blen() % 40)}}}
		if !g.emit {
			c.flags = g.flags()
			switch g.rng.Intn(8) {
			case 0:
				c.params = nil
			case 1:
				c.params = append(c.params, g.param("hbinfo"))
			case 2:
				c.params = []param{g.param(cdParamKinds[g.rng.Intn(len(cdParamKinds))])}
			}
		}
		return c
	case "ABORT", "ERROR":
		n := g.rng.Intn(3)
		if g.emit && n == 2 {
			n = 1
		}
		var cs []errorCause
		for i := 0; i < n; i++ {
			cs = append(cs, g.cause())
		}
		if kind == "ABORT" {
			return &chunkAbort{errorCauses: cs}
		}
		return &chunkError{errorCauses: cs}
	case "SHUTDOWN":
		c := &chunkShutdown{cumulativeTSNAck: g.u32()}
		c.flags = g.flags()
		return c
	case "SHUTACK":
		c := &chunkShutdownAck{}
		c.flags, c.raw = g.flags(), g.hdrRaw()
		return c
	case "SHUTCOMP":
		c := &chunkShutdownComplete{}
		c.flags, c.raw = g.flags(), g.hdrRaw()
		return c
	case "COOKIEECHO":
		c := &chunkCookieEcho{cookie: g.bytes(g.blen() % 100)}
		c.flags = g.flags()
		return c
	case "COOKIEACK":
		c := &chunkCookieAck{}
		c.flags, c.raw = g.flags(), g.hdrRaw()
		return c
	case "RECONFIG":
		c := &chunkReconfig{}
		c.flags = g.flags()
		rk := []string{"outreset", "reconfresp"}
		if g.emit || g.rng.Intn(4) != 0 {
			c.paramA = g.param(rk[g.rng.Intn(2)])
			if g.rng.Intn(2) == 0 {
				c.paramB = g.param(rk[g.rng.Intn(2)])
			}
		} else {
			c.paramA = g.param(cdParamKinds[g.rng.Intn(len(cdParamKinds))])
			if g.rng.Intn(2) == 0 {
				c.paramB = g.param(cdParamKinds[g.rng.Intn(len(cdParamKinds))])
			}
		}
		return c
	case "FWD":
		c := &chunkForwardTSN{newCumulativeTSN: g.u32()}
		c.flags = g.flags()
		n := g.rng.Intn(5)
		if g.rng.Intn(12) == 0 {
			n = g.rng.Intn(200)
		}
		for i := 0; i < n; i++ {
			c.streams = append(c.streams, chunkForwardTSNStream{g.u16(), g.u16()})
		}
		return c
	default: // IFWD
		c := &chunkIForwardTSN{newCumulativeTSN: g.u32()}
		c.flags = g.flags()
		n := g.rng.Intn(6)
		if g.rng.Intn(12) == 0 {
			n = g.rng.Intn(120)
		}
		for i := 0; i < n; i++ {
			sid := g.u16()
			if g.rng.Intn(2) == 0 {
				sid = uint16(g.rng.Intn(3)) // duplicates exercise the normalisation
			}
			c.streams = append(c.streams, chunkIForwardTSNStream{sid, g.rng.Intn(2) == 0, g.u32()})
		}
		return c
	}
}

func (g *cdGen) packet(kinds []string) *packet {
	p := &packet{sourcePort: g.u16(), destinationPort: g.u16(), verificationTag: g.u32()}
	for _, k := range kinds {
		p.chunks = append(p.chunks, g.chunk(k))
	}
	return p
}

func (g *cdGen) bundleKinds() []string {
	n := 1
	switch g.rng.Intn(10) {
	case 0:
		n = 0
	case 1, 2, 3:
		n = 2
	case 4, 5:
		n = 3
	case 6:
		n = 4 + g.rng.Intn(5)
	}
	ks := make([]string, n)
	for i := range ks {
		ks[i] = cdChunkKinds[g.rng.Intn(len(cdChunkKinds))]
	}
	return ks
}

// ---------------------------------------------------------------- mutations

// offsets of the chunk headers found by walking the length fields
func cdChunkOffsets(raw []byte) []int {
	var offs []int
	off := packetHeaderSize
	for off+4 <= len(raw) {
		offs = append(offs, off)
		l := int(binary.BigEndian.Uint16(raw[off+2:]))
		if l < 4 {
			break
		}
		off += l + getPadding(l)
	}
	return offs
}

var cdKnownTypes = []byte{0, 64, 1, 2, 3, 4, 5, 6, 7, 8, 9, 10, 11, 13, 14, 130, 192, 194, 12, 63, 255}

func (g *cdGen) mutate(raw []byte, other []byte) ([]byte, string) {
	b := append([]byte(nil), raw...)
	offs := cdChunkOffsets(b)
	pick := func() int { return offs[g.rng.Intn(len(offs))] }
	delta := func() int {
		d := []int{1, -1, 2, -2, 3, -3, 4, -4, 5, 8, -8, 16, 100, -100, 65535, 32768}
		return d[g.rng.Intn(len(d))]
	}
	k := g.rng.Intn(13)
	if len(offs) == 0 && k >= 1 && k <= 5 {
		k = 6
	}
	switch k {
	case 0: // truncate
		if len(b) > 0 {
			b = b[:g.rng.Intn(len(b))]
		}
		return b, "trunc"
	case 1: // chunk length field +-
		o := pick()
		l := int(binary.BigEndian.Uint16(b[o+2:])) + delta()
		binary.BigEndian.PutUint16(b[o+2:], uint16(l))
		return b, "chunklen"
	case 2: // chunk length field to a boundary value
		o := pick()
		v := []uint16{0, 1, 2, 3, 4, 5, 7, 8, 15, 16, 19, 20, 0xffff, 0xfffc, 0xfffb}
		binary.BigEndian.PutUint16(b[o+2:], v[g.rng.Intn(len(v))])
		return b, "chunklenabs"
	case 3: // flags
		o := pick()
		if g.rng.Intn(2) == 0 {
			b[o+1] ^= 1 << uint(g.rng.Intn(8))
		} else {
			b[o+1] = byte(g.rng.Intn(256))
		}
		return b, "flags"
	case 4: // chunk type
		o := pick()
		b[o] = cdKnownTypes[g.rng.Intn(len(cdKnownTypes))]
		return b, "type"
	case 5: // a 16-bit word inside a chunk +- (parameter / cause lengths, counts)
		o := pick()
		l := int(binary.BigEndian.Uint16(b[o+2:]))
		if l >= 8 && o+l <= len(b) {
			w := o + 4 + 2*g.rng.Intn((l-4)/2)
			if g.rng.Intn(3) == 0 {
				w = o + 4 + 2 // the length half of a leading parameter / cause
			}
			if w+2 <= len(b) {
				binary.BigEndian.PutUint16(b[w:], uint16(int(binary.BigEndian.Uint16(b[w:]))+delta()))
			}
		}
		return b, "word"
	case 6: // byte flips
		for i := 0; i < 1+g.rng.Intn(3) && len(b) > 0; i++ {
			b[g.rng.Intn(len(b))] ^= byte(1 + g.rng.Intn(255))
		}
		return b, "flip"
	case 7: // splice the chunks of another packet behind (or into the middle of) this one
		if len(other) > packetHeaderSize {
			cut := len(b)
			if len(offs) > 0 && g.rng.Intn(2) == 0 {
				cut = pick()
			}
			nb := append([]byte(nil), b[:cut]...)
			nb = append(nb, other[packetHeaderSize:]...)
			nb = append(nb, b[cut:]...)
			b = nb
		}
		return b, "splice"
	case 8: // random bytes
		b = g.bytes(g.rng.Intn(64))
		if len(b) > 12 && g.rng.Intn(2) == 0 {
			b[12] = cdKnownTypes[g.rng.Intn(len(cdKnownTypes))]
		}
		return b, "random"
	case 9: // extra bytes at the end
		b = append(b, g.bytes(1+g.rng.Intn(7))...)
		return b, "append"
	case 10: // drop 1..3 trailing bytes (padding)
		n := 1 + g.rng.Intn(3)
		if len(b) >= n {
			b = b[:len(b)-n]
		}
		return b, "unpad"
	case 11: // non-zero padding
		for _, o := range offs {
			l := int(binary.BigEndian.Uint16(b[o+2:]))
			if l%4 != 0 && o+l < len(b) {
				b[o+l+g.rng.Intn(min(getPadding(l), len(b)-o-l))] = byte(1 + g.rng.Intn(255))
				break
			}
		}
		return b, "padnz"
	default: // header-only chunk of a random type at the end
		b = append(b, cdKnownTypes[g.rng.Intn(len(cdKnownTypes))], byte(g.rng.Intn(2)), 0, 4)
		return b, "tailchunk"
	}
}

// ---------------------------------------------------------------- the differential test

func TestVerifCodec(t *testing.T) {
	seed := verifEnvInt("VERIF_SEED", 1)
	nStruct := int(verifEnvInt("VERIF_N", 1500))
	nMut := int(verifEnvInt("VERIF_MUT", 3000))
	nBig := int(verifEnvInt("VERIF_BIG", 3))
	w, done := verifOut(t, "/tmp/verif_codec.trace")
	defer done()
	g := &cdGen{rng: rand.New(rand.NewSource(seed))}

	var pool [][]byte
	cid := 0
	structured := func(name string, p *packet) {
		cid++
		fmt.Fprintf(w, "case %s%d\n", name, cid)
		fmt.Fprintf(w, "build %s\n", cdDumpPacket(p, false))
		withCRC := g.rng.Intn(2) == 0
		if len(p.chunks) > 0 {
			switch p.chunks[0].(type) {
			case *chunkInit, *chunkCookieEcho:
				withCRC = g.rng.Intn(8) != 0
			}
		}
		raw, oc := cdMarshal(p, withCRC)
		fmt.Fprintf(w, "enc %s\n", cdOutcomeWithHex(oc, raw))
		if oc != "ok" {
			return
		}
		if len(raw) < 4000 {
			pool = append(pool, raw)
		}
		cdWriteDecode(w, g.rng.Intn(4) == 0, raw, "=")
	}

	// corpus: the witnesses of the refutations in coq/props/C12.v and other minimal inputs
	if corpus := os.Getenv("VERIF_CORPUS"); corpus != "" {
		if data, err := os.ReadFile(corpus); err == nil {
			for _, line := range strings.Split(string(data), "\n") {
				f := strings.Fields(line)
				if len(f) < 3 || strings.HasPrefix(f[0], "#") {
					continue
				}
				raw, err := hex.DecodeString(strings.ReplaceAll(f[2], "-", ""))
				if err != nil {
					continue
				}
				cid++
				fmt.Fprintf(w, "case corpus%d\n", cid)
				cdWriteDecode(w, f[1] == "1", raw, cdHex(raw))
			}
		}
	}

	// one packet per kind first, then random bundles
	for _, k := range cdChunkKinds {
		for i := 0; i < 6; i++ {
			structured("k"+k, g.packet([]string{k}))
		}
	}
	for i := 0; i < nStruct; i++ {
		structured("s", g.packet(g.bundleKinds()))
	}
	// length-field wrap: values of 64 KiB and more
	for i := 0; i < nBig; i++ {
		p := g.packet([]string{[]string{"DATA", "IDATA", "COOKIEECHO"}[i%3]})
		n := 65500 + g.rng.Intn(60)
		switch c := p.chunks[0].(type) {
		case *chunkPayloadData:
			c.userData = g.bytes(n)
		case *chunkCookieEcho:
			c.cookie = g.bytes(n)
		}
		structured("big", p)
	}
	// direct calls of the HEARTBEAT-ACK decoder
	for i := 0; i < 200 && len(pool) > 0; i++ {
		c := g.chunk("HBACK")
		raw, err := c.marshal()
		if err != nil {
			continue
		}
		if i%2 == 1 {
			m, _ := g.mutate(append(make([]byte, 12), raw...), pool[g.rng.Intn(len(pool))])
			if len(m) < 12 {
				continue
			}
			raw = m[12:]
		}
		cid++
		fmt.Fprintf(w, "case hback%d\ncdec hback %s\n", cid, cdHex(raw))
		func() {
			defer func() {
				if r := recover(); r != nil {
					fmt.Fprintf(w, "cres panic\n")
				}
			}()
			d := &chunkHeartbeatAck{}
			buf := append([]byte(nil), raw...)
			if err := d.unmarshal(buf[:len(buf):len(buf)]); err != nil {
				fmt.Fprintf(w, "cres err %d\n", cdErrCode(err))
				return
			}
			var sb strings.Builder
			cdDumpChunk(&sb, d, false)
			fmt.Fprintf(w, "cres ok\ncdump%s\n", sb.String())
		}()
	}
	// mutated byte strings
	kinds := map[string]int{}
	for i := 0; i < nMut && len(pool) > 0; i++ {
		base := pool[g.rng.Intn(len(pool))]
		other := pool[g.rng.Intn(len(pool))]
		m, what := g.mutate(base, other)
		if g.rng.Intn(5) == 0 {
			m, _ = g.mutate(m, other)
			what += "+"
		}
		doChecksum := false
		first := byte(255)
		if len(m) >= 16 {
			first = m[12]
		}
		switch r := g.rng.Intn(20); {
		case r < 13:
			if first == byte(ctInit) || first == byte(ctCookieEcho) {
				cdSetCRC(m)
			} else {
				cdZeroCRC(m)
			}
		case r < 16:
			cdSetCRC(m)
			doChecksum = g.rng.Intn(2) == 0
		case r < 18:
			cdZeroCRC(m)
			doChecksum = g.rng.Intn(2) == 0
		default:
			doChecksum = g.rng.Intn(2) == 0
		}
		kinds[what]++
		cid++
		fmt.Fprintf(w, "case m%d_%s\n", cid, what)
		cdWriteDecode(w, doChecksum, m, cdHex(m))
	}
	fmt.Printf("CODECGEN structured=%d mutated=%d kinds=%v\n", nStruct+6*len(cdChunkKinds)+nBig, nMut, kinds)
}

// ---------------------------------------------------------------- monitors: C12 on the implementation

// what a packet must decode to: the dump of the struct it was built from, with the documented
// normalisations (I-DATA carries either PPI or FSN; SSN mirrors the MID; DATA has no MID/FSN;
// I-FORWARD-TSN entries are merged per (stream, unordered))
func cdExpected(p *packet) string {
	q := &packet{sourcePort: p.sourcePort, destinationPort: p.destinationPort, verificationTag: p.verificationTag}
	for _, c := range p.chunks {
		switch v := c.(type) {
		case *chunkPayloadData:
			d := *v
			if d.isIData() {
				d.streamSequenceNumber = uint16(d.messageIdentifier)
				if d.beginningFragment {
					d.fragmentSequenceNumber = 0
				} else {
					d.payloadType = 0
				}
			} else {
				d.messageIdentifier, d.fragmentSequenceNumber = 0, 0
			}
			q.chunks = append(q.chunks, &d)
		case *chunkIForwardTSN:
			d := *v
			d.streams = normalizeIForwardTSNStreams(append([]chunkIForwardTSNStream(nil), v.streams...))
			q.chunks = append(q.chunks, &d)
		default:
			q.chunks = append(q.chunks, c)
		}
	}
	return cdDumpPacket(q, true)
}

func cdTrunc(s string) string {
	if len(s) > 300 {
		return s[:300] + "..."
	}
	return s
}

// failure collection: one CODECFAIL line per key (the shortest witness), with the number of instances
type cdFails struct {
	n     map[string]int
	best  map[string]string
	bestN map[string]int
}

func newCdFails() *cdFails {
	return &cdFails{n: map[string]int{}, best: map[string]string{}, bestN: map[string]int{}}
}

func (f *cdFails) add(key string, size int, detail string) {
	f.n[key]++
	if old, ok := f.bestN[key]; !ok || size < old {
		f.bestN[key], f.best[key] = size, detail
	}
}

func (f *cdFails) print() int {
	keys := make([]string, 0, len(f.n))
	total := 0
	for k, c := range f.n {
		keys = append(keys, k)
		total += c
	}
	sort.Strings(keys)
	for _, k := range keys {
		fmt.Printf("CODECFAIL key=%s instances=%d %s\n", k, f.n[k], f.best[k])
	}
	return total
}

// attribution of a failing packet to the construct that explains it; anything unexplained gets a
// generic key made of the statement and the first chunk kind
func cdChunkName(c chunk) string {
	var sb strings.Builder
	cdDumpChunk(&sb, c, true)
	f := strings.Fields(sb.String())
	if len(f) == 0 {
		return "none"
	}
	if f[0] == "INIT" && f[1] == "1" {
		return "INITACK"
	}
	if f[0] == "DATA" && f[1] == "1" {
		return "IDATA"
	}
	return f[0]
}

func cdHasEmptyLastParam(c chunk) bool {
	var ps []param
	switch v := c.(type) {
	case *chunkInit:
		ps = v.params
	case *chunkInitAck:
		ps = v.params
	}
	if len(ps) == 0 {
		return false
	}
	b, _ := ps[len(ps)-1].marshal()
	return len(b) == 4
}

func cdAttribute(statement string, p *packet) string {
	if statement == "stable" {
		// an accepted HEARTBEAT-ACK without Heartbeat Info cannot be marshalled again
		for _, c := range p.chunks {
			if hb, ok := c.(*chunkHeartbeatAck); ok && len(hb.params) == 0 {
				return "codec-heartbeat-ack-empty-accepted-not-encodable"
			}
		}
	}
	for i, c := range p.chunks {
		switch c.(type) {
		case *chunkAbort, *chunkError:
			if i != len(p.chunks)-1 {
				return "codec-abort-error-causes-read-past-chunk"
			}
		}
	}
	for _, c := range p.chunks {
		switch c.(type) {
		case *chunkHeartbeat:
			if statement == "roundtrip" {
				return "codec-heartbeat-marshal-drops-info"
			}
		case *chunkHeartbeatAck:
			return "codec-heartbeat-ack-not-decodable"
		}
		if cdHasEmptyLastParam(c) {
			return "codec-init-trailing-empty-param-dropped"
		}
	}
	k := "none"
	if len(p.chunks) > 0 {
		k = cdChunkName(p.chunks[0])
	}
	return "codec-" + statement + "-" + k
}

// the former refutation witnesses of coq/props/C12.v (now regression examples), replayed on the implementation
func cdWitnesses(f *cdFails) {
	hdr := func(cs ...chunk) *packet {
		return &packet{sourcePort: 5000, destinationPort: 5000, verificationTag: 1, chunks: cs}
	}
	check := func(name string, p *packet) {
		want := cdExpected(p)
		raw, oc := cdMarshal(p, true)
		if oc != "ok" {
			f.add(cdAttribute("roundtrip", p), 0, fmt.Sprintf("witness=%s marshal=%q built=%s", name, oc, want))
			return
		}
		q, doc := cdUnmarshal(false, raw)
		if doc != "ok" {
			f.add(cdAttribute("roundtrip", p), 0, fmt.Sprintf("witness=%s statement=roundtrip outcome=%q bytes=%s built=%s", name, doc, cdHex(raw), want))
			return
		}
		if got := cdDumpPacket(q, true); got != want {
			f.add(cdAttribute("roundtrip", p), 0, fmt.Sprintf("witness=%s statement=roundtrip bytes=%s built=%s decoded=%s", name, cdHex(raw), want, got))
		}
	}
	// D2: the HEARTBEAT the association sends (sendActiveHeartbeatLocked)
	check("c12_heartbeat", hdr(&chunkHeartbeat{chunkHeader: chunkHeader{typ: ctHeartbeat},
		params: []param{&paramHeartbeatInfo{heartbeatInformation: []byte{1, 2, 3, 4, 5, 6, 7, 8}}}}))
	// D3: the HEARTBEAT-ACK the association sends (handleHeartbeat)
	check("c12_heartbeat_ack", hdr(&chunkHeartbeatAck{params: []param{&paramHeartbeatInfo{heartbeatInformation: []byte{1, 2, 3, 4}}}}))
	// D8: INIT whose last parameter has an empty value
	ic := chunkInitCommon{initiateTag: 1, advertisedReceiverWindowCredit: 1500, numOutboundStreams: 1, numInboundStreams: 1,
		initialTSN: 1, params: []param{&paramSupportedExtensions{ChunkTypes: []chunkType{ctForwardTSN}}, &paramForwardTSNSupported{}}}
	check("c12_init_trailing_empty_param", hdr(&chunkInit{chunkInitCommon: ic}))
	// D4: ERROR without causes followed by COOKIE-ACK
	check("c12_error_then_cookie_ack", hdr(&chunkError{}, &chunkCookieAck{}))
	check("c12_abort_then_cookie_ack", hdr(&chunkAbort{}, &chunkCookieAck{}))
	// stability witness: an empty HEARTBEAT-ACK is accepted; the decoded value must be encodable again
	func() {
		raw := []byte{0x13, 0x88, 0x13, 0x88, 0, 0, 0, 1, 0, 0, 0, 0, 5, 0, 0, 4}
		q, oc := cdUnmarshal(false, raw)
		if oc != "ok" {
			return // rejecting it is fine
		}
		if _, moc := cdMarshal(q, false); moc != "ok" {
			f.add(cdAttribute("stable", q), 0, fmt.Sprintf("witness=c12_heartbeat_ack_empty statement=stable remarshal=%q accepted=%s decoded=%s",
				moc, cdHex(raw), cdDumpPacket(q, true)))
		}
	}()
	// D4, rejection form: ABORT with a 5-byte cause followed by any chunk
	check("c12_abort_padded_then_chunk", hdr(&chunkAbort{errorCauses: []errorCause{&errorCauseUserInitiatedAbort{upperLayerAbortReason: []byte{0x78}}}},
		&chunkCookieAck{}))
}

func TestVerifCodecProps(t *testing.T) {
	seed := verifEnvInt("VERIF_SEED", 1)
	n := int(verifEnvInt("VERIF_N", 2000))
	g := &cdGen{rng: rand.New(rand.NewSource(seed + 77)), emit: true}
	nRound, nLocal, nStable := 0, 0, 0
	f := newCdFails()
	cdWitnesses(f)

	// (1) round trip of single-chunk packets: unmarshal(marshal(p)) == p; emitted bytes are aligned
	for i := 0; i < n; i++ {
		k := cdChunkKinds[i%len(cdChunkKinds)]
		p := g.packet([]string{k})
		want := cdExpected(p)
		raw, oc := cdMarshal(p, true)
		if oc != "ok" {
			f.add("codec-marshal-"+strings.Fields(oc)[0]+"-"+k, len(want), "statement=roundtrip built="+cdTrunc(want))
			continue
		}
		nRound++
		q, doc := cdUnmarshal(false, raw)
		if doc != "ok" {
			f.add(cdAttribute("roundtrip", p), len(raw), fmt.Sprintf("statement=roundtrip outcome=%q bytes=%s built=%s", doc, cdTrunc(cdHex(raw)), cdTrunc(want)))
			continue
		}
		if got := cdDumpPacket(q, true); got != want {
			f.add(cdAttribute("roundtrip", p), len(raw), fmt.Sprintf("statement=roundtrip bytes=%s built=%s decoded=%s", cdTrunc(cdHex(raw)), cdTrunc(want), cdTrunc(got)))
		}
		if len(raw)%4 != 0 {
			f.add("codec-emit-unaligned-"+k, len(raw), "statement=wellformed bytes="+cdTrunc(cdHex(raw)))
		}
	}

	// (2) locality: every chunk of a bundle decodes to what it decodes to when alone in a packet
	for i := 0; i < n; i++ {
		k1 := cdChunkKinds[g.rng.Intn(len(cdChunkKinds))]
		k2 := cdChunkKinds[g.rng.Intn(len(cdChunkKinds))]
		if i < 2*len(cdChunkKinds) { // deterministic: each kind once in front of / behind COOKIE-ACK
			if i%2 == 0 {
				k1, k2 = cdChunkKinds[i/2], "COOKIEACK"
			} else {
				k1, k2 = "COOKIEACK", cdChunkKinds[i/2]
			}
		}
		p := g.packet([]string{k1, k2})
		alone := func(c chunk) (string, bool) {
			raw, oc := cdMarshal(&packet{chunks: []chunk{c}}, true)
			if oc != "ok" {
				return "", false
			}
			q, doc := cdUnmarshal(false, raw)
			if doc != "ok" || len(q.chunks) != 1 {
				return "", false
			}
			var sb strings.Builder
			cdDumpChunk(&sb, q.chunks[0], true)
			return sb.String(), true
		}
		a1, ok1 := alone(p.chunks[0])
		a2, ok2 := alone(p.chunks[1])
		if !ok1 || !ok2 {
			continue
		}
		raw, oc := cdMarshal(p, true)
		if oc != "ok" {
			continue
		}
		nLocal++
		q, doc := cdUnmarshal(false, raw)
		if doc != "ok" {
			f.add(cdAttribute("locality", p), len(raw), fmt.Sprintf("statement=locality bundle=%s+%s outcome=%q bytes=%s", k1, k2, doc, cdTrunc(cdHex(raw))))
			continue
		}
		if len(q.chunks) != 2 {
			f.add(cdAttribute("locality", p), len(raw), fmt.Sprintf("statement=locality bundle=%s+%s chunks=%d bytes=%s", k1, k2, len(q.chunks), cdTrunc(cdHex(raw))))
			continue
		}
		var s1, s2 strings.Builder
		cdDumpChunk(&s1, q.chunks[0], true)
		cdDumpChunk(&s2, q.chunks[1], true)
		if s1.String() != a1 {
			f.add(cdAttribute("locality", p), len(raw), fmt.Sprintf("statement=locality bundle=%s+%s first-alone=%s bundled=%s bytes=%s", k1, k2, cdTrunc(a1), cdTrunc(s1.String()), cdTrunc(cdHex(raw))))
		}
		if s2.String() != a2 {
			f.add(cdAttribute("locality", p), len(raw), fmt.Sprintf("statement=locality bundle=%s+%s second-alone=%s bundled=%s bytes=%s", k1, k2, cdTrunc(a2), cdTrunc(s2.String()), cdTrunc(cdHex(raw))))
		}
	}

	// (3) stability: bytes accepted by the decoder re-encode to bytes that are accepted and re-encode
	// to themselves
	var pool [][]byte
	g2 := &cdGen{rng: rand.New(rand.NewSource(seed + 78))}
	for i := 0; i < 300; i++ {
		if raw, oc := cdMarshal(g2.packet(g2.bundleKinds()), false); oc == "ok" && len(raw) < 3000 {
			pool = append(pool, raw)
		}
	}
	for i := 0; i < 3*n; i++ {
		m := pool[g2.rng.Intn(len(pool))]
		if i%3 != 0 {
			m, _ = g2.mutate(m, pool[g2.rng.Intn(len(pool))])
		}
		cdSetCRC(m)
		p1, oc := cdUnmarshal(false, m)
		if oc != "ok" {
			continue
		}
		key := cdAttribute("stable", p1)
		b1, oc1 := cdMarshal(p1, true)
		if oc1 != "ok" {
			f.add(key, len(m), fmt.Sprintf("statement=stable remarshal=%q accepted=%s", oc1, cdTrunc(cdHex(m))))
			continue
		}
		nStable++
		p2, oc2 := cdUnmarshal(false, b1)
		if oc2 != "ok" {
			f.add(key, len(m), fmt.Sprintf("statement=stable accepted=%s reencoded=%s outcome=%q", cdTrunc(cdHex(m)), cdTrunc(cdHex(b1)), oc2))
			continue
		}
		b2, _ := cdMarshal(p2, true)
		if string(b2) != string(b1) {
			f.add(key, len(m), fmt.Sprintf("statement=stable accepted=%s reencoded=%s reencoded2=%s", cdTrunc(cdHex(m)), cdTrunc(cdHex(b1)), cdTrunc(cdHex(b2))))
		}
	}
	total := f.print()
	fmt.Printf("CODECPROPS roundtrip=%d locality=%d stable=%d failures=%d keys=%d\n", nRound, nLocal, nStable, total, len(f.n))
}
