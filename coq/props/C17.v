(* C17 — queue/scheduler clauses: message-policy contiguity, conservation and FIFO for every policy,
   round-robin rounds, weighted-fair-queueing fairness and no-starvation, mode switch only when empty.
   Model: coq/model/PQ.v (pending_queue.go, association_interleaving_options.go).
   A run is a list of operations as the association issues them: PO_push m (all fragments of one
   message under one lock hold, sendPayloadData / sendResetRequest), PO_peek (the write loop peeked
   and stopped: cwnd / rwnd / MTU / burst budget), PO_pop (peek + pop of exactly the peeked chunk,
   movePendingDataChunkToInflightQueue), PO_setil b (setInterleaving).  Concurrent writers are
   serialised by the association lock at message granularity, so "all interleavings of concurrent
   writers" = all operation lists.  [op_ok] only asks that pushed messages are well formed
   ([msg_ok]: non-empty, one stream, one ordering class, B first only, E last only, lengths >= 0).
   The negotiation / wrong-kind-ABORT clauses of C17 are decided with the handshake model.
   Only statements closed by [exact] + Print Assumptions here. *)
From Coq Require Import ZArith Bool List Permutation.
From Sctp Require Import Gen PQ PQProofs PQFairProofs.
Import ListNotations.
Open Scope Z_scope.

(* ---------------- 1. conservation, counters, FIFO (every policy) ---------------- *)

(* For every scheduler configuration and every run (mode switches included): the chunks popped so
   far together with the chunks still queued are exactly the chunks pushed (as multisets);
   getNumBytes = sum of the queued payload lengths; size = number of queued chunks. *)
Theorem c17_conservation : forall sched ops, forallb op_ok ops = true ->
  let q' := fst (pq_run (pq_new sched) ops) in
  let T := snd (pq_run (pq_new sched) ops) in
  Permutation (T ++ pq_queued q') (pq_pushed ops) /\
  pq_nbytes q' = sum_len (pq_queued q') /\
  pq_nchunks q' = Z.of_nat (length (pq_queued q')) /\
  0 <= pq_nbytes q'.
Proof. exact pq_conservation. Qed.
Print Assumptions c17_conservation.

(* the "guard against negative values" in pendingQueue.pop is dead code *)
Theorem c17_pop_never_clamps : forall sched ops c, forallb op_ok ops = true ->
  let q := fst (pq_run (pq_new sched) ops) in
  snd (pq_step q PO_pop) = [c] -> 0 <= pq_nbytes q - pc_len c.
Proof. exact pq_pop_no_clamp. Qed.
Print Assumptions c17_pop_never_clamps.

(* no stall inside the queue: whenever chunks are queued, the association's peek + pop(peeked) step
   delivers one (peek never returns nil, pop never fails) *)
Theorem c17_pop_progress : forall sched ops, forallb op_ok ops = true ->
  let q := fst (pq_run (pq_new sched) ops) in
  pq_queued q <> [] -> exists c, snd (pq_step q PO_pop) = [c].
Proof. exact pq_pop_progress. Qed.
Print Assumptions c17_pop_progress.

(* without interleaving: chunks of one ordering class leave in push order *)
Theorem c17_fifo_message_mode : forall sched ops, forallb op_ok ops = true -> forallb no_setil ops = true ->
  let q' := fst (pq_run (pq_new sched) ops) in
  let T := snd (pq_run (pq_new sched) ops) in
  exists m, pq_pol q' = PP_msg m /\
    filter pc_unord (pq_pushed ops) = filter pc_unord T ++ mp_uq m /\
    filter (fun c => negb (pc_unord c)) (pq_pushed ops) = filter (fun c => negb (pc_unord c)) T ++ mp_oq m.
Proof. exact pq_fifo_msg. Qed.
Print Assumptions c17_fifo_message_mode.

(* with interleaving (round robin or WFQ): the chunks of one stream leave in push order, hence the
   fragments of every message are sent in fragment order *)
Theorem c17_fifo_per_stream : forall sched ops k, sched <> PS_none ->
  forallb op_ok ops = true -> forallb no_setil ops = true ->
  let q' := fst (pq_run (pq_interleaved sched) ops) in
  let T := snd (pq_run (pq_interleaved sched) ops) in
  filter (on_stream k) (pq_pushed ops) = filter (on_stream k) T ++ pol_subq (pq_pol q') k.
Proof. exact pq_fifo_stream. Qed.
Print Assumptions c17_fifo_per_stream.

(* ---------------- 2. message policy: a message occupies consecutive TSNs ---------------- *)

(* The pop sequence is a sequence of whole pushed messages (fragments in order) followed by the
   already popped prefix of at most one message in progress.  TSNs are assigned in pop order. *)
Theorem c17_msg_contiguous : forall sched ops,
  forallb op_ok ops = true -> forallb no_setil ops = true ->
  let T := snd (pq_run (pq_new sched) ops) in
  exists dn cur,
    T = concat dn ++ cur /\
    Forall (fun x => In x (pq_pushed_msgs ops)) dn /\
    (cur = [] \/ exists rest, rest <> [] /\ In (cur ++ rest) (pq_pushed_msgs ops)).
Proof. exact pq_msg_contiguous. Qed.
Print Assumptions c17_msg_contiguous.

(* unordered is preferred over ordered exactly at message boundaries *)
Theorem c17_msg_unordered_first_at_boundary : forall sched ops,
  forallb op_ok ops = true -> forallb no_setil ops = true ->
  let q := fst (pq_run (pq_new sched) ops) in
  exists m, pq_pol q = PP_msg m /\
    (mp_sel m = false -> forall c l, mp_uq m = c :: l -> snd (pq_peek q) = PR_chunk c) /\
    (mp_sel m = false -> mp_uq m = [] -> forall c l, mp_oq m = c :: l -> snd (pq_peek q) = PR_chunk c).
Proof. exact pq_msg_peek. Qed.
Print Assumptions c17_msg_unordered_first_at_boundary.

(* ---------------- 3. round robin ---------------- *)

(* the ring holds exactly the streams with queued chunks, each once *)
Theorem c17_rr_ring : forall ops, forallb no_setil ops = true ->
  let q := fst (pq_run (pq_interleaved PS_rr) ops) in
  NoDup (pq_ring q) /\ forall s, In s (pq_ring q) <-> pol_subq (pq_pol q) s <> [].
Proof. exact pq_rr_ring. Qed.
Print Assumptions c17_rr_ring.

(* bounded wait: a stream at position p = |pre| of the ring is served by exactly the (p+1)-th pop
   from now on; the p pops before serve the streams ahead of it, one chunk each, in ring order;
   whatever is written or peeked in between *)
Theorem c17_rr_bounded_wait : forall ops1 ops2 pre s post,
  forallb no_setil ops1 = true -> forallb no_setil ops2 = true ->
  let q := fst (pq_run (pq_interleaved PS_rr) ops1) in
  pq_ring q = pre ++ s :: post ->
  let T := snd (pq_run q ops2) in
  ((length T <= length pre)%nat -> map pc_sid T = firstn (length T) pre) /\
  ((length T > length pre)%nat ->
     map pc_sid (firstn (length pre) T) = pre /\ nth_error (map pc_sid T) (length pre) = Some s).
Proof. exact pq_rr_bounded_wait. Qed.
Print Assumptions c17_rr_bounded_wait.

(* one chunk each per round: between two consecutive services of a stream that stayed backlogged
   every other stream is served at most once *)
Theorem c17_rr_round : forall ops1 ops2 c1 mid c2 rest,
  forallb no_setil ops1 = true -> forallb no_setil ops2 = true ->
  let q := fst (pq_run (pq_interleaved PS_rr) ops1) in
  snd (pq_run q (PO_pop :: ops2)) = c1 :: mid ++ c2 :: rest ->
  pol_subq (pq_pol (fst (pq_step q PO_pop))) (pc_sid c1) <> [] ->
  pc_sid c2 = pc_sid c1 -> ~ In (pc_sid c1) (map pc_sid mid) ->
  NoDup (map pc_sid mid).
Proof. exact pq_rr_round. Qed.
Print Assumptions c17_rr_round.

(* ---------------- 4. weighted fair queueing (SCFQ on virtual finish tags, exact rationals) -------- *)

(* W_s = [svc s T] bytes of stream s served during the observed run ops2, w_s = [pq_weight ws s],
   Lmax s a bound on the chunk lengths of stream s.  If stream i has a queued chunk in every state
   of the run, then for every stream k
        W_k / w_k - W_i / w_i  <=  Lmax k / w_k + Lmax i / w_i
   (stated multiplied by w_i * w_k).  No hypothesis on how pushes, peeks and pops interleave: a
   selection may be held across any number of writes (the write loop stopped on cwnd/rwnd after
   peek()).  This is the statement for the code as of fix f24bbf1 (virtual time advances when a
   chunk is selected); before that fix it was false, see the end of this file.  The Go code
   computes the tags in float64; the theorem is over exact rationals (rounding is outside the
   theorem). *)
Theorem c17_wfq_fair : forall ws Lmax ops1 ops2 i k,
  Forall (fun sw => 0 <= snd sw) ws -> (forall s, 0 <= Lmax s) ->
  forallb op_ok (ops1 ++ ops2) = true -> forallb no_setil (ops1 ++ ops2) = true ->
  Forall (op_lens_ok Lmax) (ops1 ++ ops2) ->
  let q0 := pq_interleaved (PS_wfq ws) in
  let qa := fst (pq_run q0 ops1) in
  pq_backlogged i qa ops2 ->
  let T := snd (pq_run qa ops2) in
  svc k T * pq_weight ws i - svc i T * pq_weight ws k <= Lmax k * pq_weight ws i + Lmax i * pq_weight ws k.
Proof. exact pq_wfq_fair. Qed.
Print Assumptions c17_wfq_fair.

(* two streams backlogged throughout: |W_i/w_i - W_k/w_k| <= Lmax_i/w_i + Lmax_k/w_k *)
Theorem c17_wfq_fair_two_sided : forall ws Lmax ops1 ops2 i k,
  Forall (fun sw => 0 <= snd sw) ws -> (forall s, 0 <= Lmax s) ->
  forallb op_ok (ops1 ++ ops2) = true -> forallb no_setil (ops1 ++ ops2) = true ->
  Forall (op_lens_ok Lmax) (ops1 ++ ops2) ->
  let q0 := pq_interleaved (PS_wfq ws) in
  let qa := fst (pq_run q0 ops1) in
  pq_backlogged i qa ops2 -> pq_backlogged k qa ops2 ->
  let T := snd (pq_run qa ops2) in
  Z.abs (svc k T * pq_weight ws i - svc i T * pq_weight ws k) <= Lmax k * pq_weight ws i + Lmax i * pq_weight ws k.
Proof. exact pq_wfq_fair_two. Qed.
Print Assumptions c17_wfq_fair_two_sided.

(* no starvation: while a backlogged stream i is not served, any other stream k is served at most
   Lmax k + Lmax i * w_k / w_i bytes *)
Theorem c17_wfq_no_starvation : forall ws Lmax ops1 ops2 i k,
  Forall (fun sw => 0 <= snd sw) ws -> (forall s, 0 <= Lmax s) ->
  forallb op_ok (ops1 ++ ops2) = true -> forallb no_setil (ops1 ++ ops2) = true ->
  Forall (op_lens_ok Lmax) (ops1 ++ ops2) ->
  let q0 := pq_interleaved (PS_wfq ws) in
  let qa := fst (pq_run q0 ops1) in
  pq_backlogged i qa ops2 ->
  let T := snd (pq_run qa ops2) in
  svc i T = 0 ->
  svc k T * pq_weight ws i <= Lmax k * pq_weight ws i + Lmax i * pq_weight ws k.
Proof. exact pq_wfq_no_starvation. Qed.
Print Assumptions c17_wfq_no_starvation.

(* the only iteration over a Go map in pending_queue.go (WFQ Peek over streamQueues): its result
   does not depend on the iteration order *)
Theorem c17_wfq_peek_order_insensitive : forall m m', NoDup (map fst m) -> Permutation m m' ->
  wf_scan m' None = wf_scan m None.
Proof. exact wf_scan_perm. Qed.
Print Assumptions c17_wfq_peek_order_insensitive.

(* ---------------- 5. mode switch only takes effect while the queue is empty ---------------- *)

Theorem c17_setil_nonempty_is_identity : forall sched ops b, forallb op_ok ops = true ->
  let q := fst (pq_run (pq_new sched) ops) in
  pq_queued q <> [] -> pq_set_interleaving q b = (q, if Bool.eqb (pq_il q) b then 0 else 5).
Proof. exact pq_setil_nonempty_reach. Qed.
Print Assumptions c17_setil_nonempty_is_identity.

Theorem c17_setil_loses_nothing : forall sched ops b, forallb op_ok ops = true ->
  let q := fst (pq_run (pq_new sched) ops) in
  let q' := fst (pq_set_interleaving q b) in
  pq_queued q' = pq_queued q /\ pq_nbytes q' = pq_nbytes q /\ pq_nchunks q' = pq_nchunks q /\
  (pq_queued q = [] -> pq_il q <> b -> pq_il q' = b).
Proof. exact pq_setil_keeps_reach. Qed.
Print Assumptions c17_setil_loses_nothing.

(* ---------------- non-vacuity ---------------- *)

Definition ck (id sid : Z) (u b e : bool) (n : Z) : pchunk := mkPchunk id sid u b e n.

(* message policy: ordered 3-fragment message, an unordered message written meanwhile waits for
   the message boundary, then overtakes the next ordered one *)
Example c17_example_msg :
  let m1 := [ck 1 5 false true false 10; ck 2 5 false false false 10; ck 3 5 false false true 4] in
  let m2 := [ck 4 6 true true true 7] in
  let m3 := [ck 5 5 false true true 1] in
  let ops := [PO_push m1; PO_pop; PO_push m3; PO_push m2; PO_pop; PO_pop; PO_pop; PO_pop] in
  forallb op_ok ops = true /\
  map pc_id (snd (pq_run (pq_new PS_none) ops)) = [1; 2; 3; 4; 5].
Proof. vm_compute. split; reflexivity. Qed.

(* round robin: three backlogged streams are served one chunk each per round *)
Example c17_example_rr :
  let msg i s := [ck i s false true false 10; ck (i + 1) s false false true 10] in
  let ops := [PO_setil true; PO_push (msg 1 7); PO_push (msg 3 8); PO_push (msg 5 9);
              PO_pop; PO_pop; PO_pop; PO_pop; PO_pop; PO_pop] in
  forallb op_ok ops = true /\
  map pc_sid (snd (pq_run (pq_new PS_rr) ops)) = [7; 8; 9; 7; 8; 9].
Proof. vm_compute. split; reflexivity. Qed.

(* WFQ, weights 2:1, both streams backlogged: hypotheses of c17_wfq_fair are satisfiable and the
   service is shared 2:1 *)
Example c17_example_wfq :
  let ws := [(1, 2); (2, 1)] in
  let one i s := [ck i s false true true 100] in
  let ops1 := [PO_push (one 1 1); PO_push (one 2 1); PO_push (one 3 1); PO_push (one 4 1); PO_push (one 5 1);
               PO_push (one 6 2); PO_push (one 7 2); PO_push (one 8 2)] in
  let ops2 := [PO_pop; PO_peek; PO_pop; PO_pop; PO_pop; PO_pop; PO_pop] in
  let q0 := pq_interleaved (PS_wfq ws) in
  forallb op_ok (ops1 ++ ops2) = true /\ forallb no_setil (ops1 ++ ops2) = true /\
  pq_backlogged 1 (fst (pq_run q0 ops1)) ops2 /\ pq_backlogged 2 (fst (pq_run q0 ops1)) ops2 /\
  map pc_sid (snd (pq_run (fst (pq_run q0 ops1)) ops2)) = [1; 1; 2; 1; 1; 2] /\
  pq_weight ws 1 = 2 /\ pq_weight ws 2 = 1.
Proof. vm_compute. repeat split; discriminate. Qed.

(* ---------------- finding wfq-unfair-stale-selection (fixed in /repo by f24bbf1) ---------------- *)

(* Before the fix Peek() latched the selected stream but virtualTime advanced only in Pop(): chunks
   written while a selection was held got finish tags relative to the old virtual time, and a
   continuously backlogged stream could be overtaken without bound.  Witness (observed on the real
   code before the fix, notes/C17.md; replayed every run from corpus/pq.ops): weights
   {1:1, 2:10, 3:10}, all chunks 100 bytes; stream 1 is selected and held, streams 2 (one chunk) and
   3 (six chunks) are written, the held chunk is popped, stream 2 writes more chunks.  Old code:
   the next pops serve streams 2,3,3,3,3 (W_3/w_3 - W_2/w_2 = 30 > 20).  Fixed code and this model:
   2,3,2,3,2 -- and c17_wfq_fair applies to this run although the selection is held across writes. *)
Example c17_wfq_held_selection_witness_is_fair :
  let one := fun i s => [ck i s false true true 100] in
  let ws := [(1, 1); (2, 10); (3, 10)] in
  let ops1 := [PO_push (one 1 1); PO_peek; PO_push (one 2 2);
               PO_push (one 3 3); PO_push (one 4 3); PO_push (one 5 3); PO_push (one 6 3); PO_push (one 7 3); PO_push (one 8 3);
               PO_pop] in
  let ops2 := [PO_push (one 9 2); PO_push (one 10 2); PO_push (one 11 2); PO_pop; PO_pop; PO_pop; PO_pop; PO_pop] in
  let q0 := pq_interleaved (PS_wfq ws) in
  let qa := fst (pq_run q0 ops1) in
  forallb op_ok (ops1 ++ ops2) = true /\ forallb no_setil (ops1 ++ ops2) = true /\
  pq_backlogged 2 qa ops2 /\ pq_backlogged 3 qa ops2 /\
  map pc_sid (snd (pq_run qa ops2)) = [2; 3; 2; 3; 2].
Proof. vm_compute. repeat split; discriminate. Qed.
