(* Lemmas about the reset model coq/model/Reset.v (property C14). *)
From Coq Require Import ZArith Bool List Lia Sorted.
From Coq Require Import ZifyBool.
From Sctp Require Import Gen SnaProofs Reset.
Import ListNotations.
Open Scope Z_scope.
Ltac Zify.zify_post_hook ::= Z.div_mod_to_equations.

(* ================================================================ maps keyed by rsn *)

Definition rs_sorted (l : list rs_req) : Prop := StronglySorted (fun a b => rs_q_rsn a < rs_q_rsn b) l.

Lemma rs_put_in l r x : In x (rs_req_put l r) -> x = r \/ In x l.
Proof.
  induction l as [|h t IH]; cbn [rs_req_put]; intros H.
  - destruct H as [H|[]]; auto.
  - destruct (rs_q_rsn r =? rs_q_rsn h) eqn:E1.
    + destruct H as [H|H]; [auto|right; right; exact H].
    + destruct (rs_q_rsn r <? rs_q_rsn h) eqn:E2.
      * destruct H as [H|H]; [auto|right; exact H].
      * destruct H as [H|H]; [right; left; exact H|].
        destruct (IH H) as [H1|H1]; [auto|right; right; exact H1].
Qed.

Lemma rs_put_keeps l r x : In x l -> rs_q_rsn x <> rs_q_rsn r -> In x (rs_req_put l r).
Proof.
  induction l as [|h t IH]; cbn [rs_req_put]; intros H Hn; [destruct H|].
  destruct (rs_q_rsn r =? rs_q_rsn h) eqn:E1.
  - destruct H as [H|H]; [subst; lia|right; exact H].
  - destruct (rs_q_rsn r <? rs_q_rsn h) eqn:E2.
    + right. exact H.
    + destruct H as [H|H]; [left; exact H|right; apply IH; assumption].
Qed.

Lemma rs_put_has l r : In r (rs_req_put l r).
Proof.
  induction l as [|h t IH]; cbn [rs_req_put]; [left; reflexivity|].
  destruct (rs_q_rsn r =? rs_q_rsn h); [left; reflexivity|].
  destruct (rs_q_rsn r <? rs_q_rsn h); [left; reflexivity|right; exact IH].
Qed.

Lemma rs_put_sorted l r : rs_sorted l -> rs_sorted (rs_req_put l r).
Proof.
  unfold rs_sorted. induction l as [|h t IH]; cbn [rs_req_put]; intros H.
  - constructor; constructor.
  - inversion H as [|? ? Ht Hh]; subst.
    destruct (rs_q_rsn r =? rs_q_rsn h) eqn:E1.
    + constructor; [exact Ht|]. rewrite Forall_forall in *. intros x Hx. specialize (Hh x Hx). lia.
    + destruct (rs_q_rsn r <? rs_q_rsn h) eqn:E2.
      * constructor; [exact H|]. constructor; [lia|]. rewrite Forall_forall in *. intros x Hx. specialize (Hh x Hx). lia.
      * constructor; [apply IH; exact Ht|]. rewrite Forall_forall in *. intros x Hx.
        destruct (rs_put_in _ _ _ Hx) as [Hx1|Hx1]; [subst; lia|apply Hh; exact Hx1].
Qed.

Lemma rs_del_in l k x : In x (rs_req_del l k) -> In x l.
Proof.
  induction l as [|h t IH]; cbn [rs_req_del]; intros H; [exact H|].
  destruct (rs_q_rsn h =? k); [right; exact H|]. destruct H as [H|H]; [left; exact H|right; apply IH; exact H].
Qed.

Lemma rs_del_sorted l k : rs_sorted l -> rs_sorted (rs_req_del l k).
Proof.
  unfold rs_sorted. induction l as [|h t IH]; cbn [rs_req_del]; intros H; [exact H|].
  inversion H as [|? ? Ht Hh]; subst. destruct (rs_q_rsn h =? k); [exact Ht|].
  constructor; [apply IH; exact Ht|]. rewrite Forall_forall in *. intros x Hx. apply Hh. eapply rs_del_in; exact Hx.
Qed.

Lemma rs_del_not l k x : rs_sorted l -> In x (rs_req_del l k) -> rs_q_rsn x <> k.
Proof.
  unfold rs_sorted. induction l as [|h t IH]; cbn [rs_req_del]; intros H Hx; [destruct Hx|].
  inversion H as [|? ? Ht Hh]; subst. destruct (rs_q_rsn h =? k) eqn:E.
  - rewrite Forall_forall in Hh. specialize (Hh x Hx). lia.
  - destruct Hx as [Hx|Hx]; [subst; lia|apply IH; assumption].
Qed.

Lemma rs_del_keeps l k x : In x l -> rs_q_rsn x <> k -> In x (rs_req_del l k).
Proof.
  induction l as [|h t IH]; cbn [rs_req_del]; intros H Hn; [destruct H|].
  destruct (rs_q_rsn h =? k) eqn:E.
  - destruct H as [H|H]; [subst; lia|exact H].
  - destruct H as [H|H]; [left; exact H|right; apply IH; assumption].
Qed.

Lemma rs_del_absent l k : rs_req_get l k = None -> rs_req_del l k = l.
Proof.
  induction l as [|h t IH]; cbn [rs_req_get rs_req_del]; intros H; [reflexivity|].
  destruct (rs_q_rsn h =? k); [discriminate|]. f_equal. apply IH. exact H.
Qed.

Lemma rs_get_in l k q : rs_req_get l k = Some q -> In q l /\ rs_q_rsn q = k.
Proof.
  induction l as [|h t IH]; cbn [rs_req_get]; intros H; [discriminate|].
  destruct (rs_q_rsn h =? k) eqn:E.
  - inversion H; subst. split; [left; reflexivity|lia].
  - destruct (IH H) as [H1 H2]. split; [right; exact H1|exact H2].
Qed.

Lemma rs_get_del_other l k k' : k <> k' -> rs_req_get (rs_req_del l k') k = rs_req_get l k.
Proof.
  intros Hn. induction l as [|h t IH]; cbn [rs_req_get rs_req_del]; [reflexivity|].
  destruct (rs_q_rsn h =? k') eqn:E1.
  - destruct (rs_q_rsn h =? k) eqn:E2; [lia|reflexivity].
  - cbn [rs_req_get]. destruct (rs_q_rsn h =? k); [reflexivity|exact IH].
Qed.

Lemma rs_get_put_other l r k : k <> rs_q_rsn r -> rs_req_get (rs_req_put l r) k = rs_req_get l k.
Proof.
  intros Hn. induction l as [|h t IH]; cbn [rs_req_get rs_req_put].
  - destruct (rs_q_rsn r =? k) eqn:E; [lia|reflexivity].
  - destruct (rs_q_rsn r =? rs_q_rsn h) eqn:E1.
    + cbn [rs_req_get]. destruct (rs_q_rsn r =? k) eqn:E2; [lia|]. destruct (rs_q_rsn h =? k) eqn:E3; [lia|reflexivity].
    + destruct (rs_q_rsn r <? rs_q_rsn h) eqn:E2.
      * cbn [rs_req_get]. destruct (rs_q_rsn r =? k) eqn:E3; [lia|reflexivity].
      * cbn [rs_req_get]. destruct (rs_q_rsn h =? k); [reflexivity|exact IH].
Qed.

Lemma rs_put_same_idem l r : rs_sorted l -> In r l -> rs_req_put l r = l.
Proof.
  unfold rs_sorted. induction l as [|h t IH]; intros Hs Hin; [destruct Hin|]. cbn [rs_req_put].
  inversion Hs as [|? ? Ht Hh]; subst. destruct Hin as [Hin|Hin].
  - subst. rewrite Z.eqb_refl. reflexivity.
  - rewrite Forall_forall in Hh. specialize (Hh r Hin).
    destruct (rs_q_rsn r =? rs_q_rsn h) eqn:E1; [lia|]. destruct (rs_q_rsn r <? rs_q_rsn h) eqn:E2; [lia|].
    f_equal. apply IH; assumption.
Qed.

(* ================================================================ (b) the reset is performed only when due *)

Definition rs_resp_ok (r : rs_resp) : Prop :=
  (rs_r_res r = c_reconfigResultSuccessPerformed /\ sna32LTE (rs_r_last r) (rs_r_cum r) = true) \/
  (rs_r_res r = c_reconfigResultInProgress /\ rs_r_hit r = false /\ sna32LTE (rs_r_last r) (rs_r_cum r) = false).

Lemma rs_reset_if_any_ok sid e q e' r : rs_reset_if_any sid e q = (e', r) -> rs_resp_ok r.
Proof.
  unfold rs_reset_if_any, rs_resp_ok. destruct (sna32LTE (rs_q_last q) (rs_cum e)) eqn:E; intros H; inversion H; subst; cbn.
  - left. split; [reflexivity|exact E].
  - right. repeat split; try reflexivity. exact E.
Qed.

(* what one examination does to the state *)
Lemma rs_reset_if_any_state sid e q e' r : rs_reset_if_any sid e q = (e', r) ->
  rs_cum e' = rs_cum e /\ rs_rcvd e' = rs_rcvd e /\ rs_maxoff e' = rs_maxoff e /\
  (sna32LTE (rs_q_last q) (rs_cum e) = true -> rs_reqs e' = rs_req_del (rs_reqs e) (rs_q_rsn q)) /\
  (sna32LTE (rs_q_last q) (rs_cum e) = false -> e' = e) /\
  (rs_r_hit r = true -> rs_present e = true /\ rs_present e' = false /\ rs_eof (rs_obj e') = true /\ rs_gen (rs_obj e') = rs_gen (rs_obj e)) /\
  (rs_r_hit r = false -> rs_obj e' = rs_obj e /\ rs_present e' = rs_present e).
Proof.
  unfold rs_reset_if_any. destruct (sna32LTE (rs_q_last q) (rs_cum e)) eqn:E; intros H; inversion H; subst; clear H; cbn [rs_r_hit].
  - destruct (rs_mem sid (rs_q_ids q) && negb (rs_already e q))%bool eqn:Ef; destruct (rs_present e) eqn:Ep; cbn;
      repeat match goal with |- _ /\ _ => split | |- _ -> _ => intro end; try reflexivity; try discriminate; try assumption.
  - cbn. repeat match goal with |- _ /\ _ => split | |- _ -> _ => intro end; try reflexivity; try discriminate.
Qed.

(* the record of performed requests (fd7385c) *)
Lemma rs_reset_if_any_done sid e q e' r : rs_reset_if_any sid e q = (e', r) ->
  (rs_r_hit r = true -> rs_mem sid (rs_q_ids q) = true /\ rs_already e q = false) /\
  (rs_done e' = rs_done e \/
   (rs_done e' = Some (rs_q_rsn q) /\ rs_already e q = false /\ rs_mem sid (rs_q_ids q) = true /\
    rs_r_res r = c_reconfigResultSuccessPerformed)) /\
  (rs_already e q = true -> rs_obj e' = rs_obj e /\ rs_present e' = rs_present e /\ rs_done e' = rs_done e /\ rs_r_hit r = false) /\
  (sna32LTE (rs_q_last q) (rs_cum e) = true -> rs_mem sid (rs_q_ids q) = true -> rs_already e q = false ->
     rs_done e' = Some (rs_q_rsn q) /\ rs_present e' = false /\ rs_r_hit r = rs_present e).
Proof.
  unfold rs_reset_if_any. destruct (sna32LTE (rs_q_last q) (rs_cum e)) eqn:E; intros H; inversion H; subst; clear H; cbn [rs_r_hit rs_r_res].
  - destruct (rs_mem sid (rs_q_ids q)) eqn:Em; destruct (rs_already e q) eqn:Ea; destruct (rs_present e) eqn:Ep; cbn;
      repeat match goal with |- _ /\ _ => split | |- _ -> _ => intro end; try reflexivity; try discriminate; try assumption;
      try (left; reflexivity); try (right; repeat split; reflexivity).
  - cbn. repeat match goal with |- _ /\ _ => split | |- _ -> _ => intro end; try reflexivity; try discriminate; try (left; reflexivity).
Qed.

Lemma rs_retry_list_ok sid : forall l e acc e' acc',
  rs_retry_list sid l e acc = (e', acc') -> Forall rs_resp_ok acc -> Forall rs_resp_ok acc'.
Proof.
  induction l as [|q t IH]; cbn [rs_retry_list]; intros e acc e' acc' H Ha; [inversion H; subst; exact Ha|].
  destruct (rs_reset_if_any sid e q) as [e1 r] eqn:E. eapply IH; [exact H|].
  apply Forall_app. split; [exact Ha|]. constructor; [eapply rs_reset_if_any_ok; exact E|constructor].
Qed.

Lemma rs_pop_loop_ok sid : forall fuel e acc e' acc',
  rs_pop_loop fuel sid e acc = (e', acc') -> Forall rs_resp_ok acc -> Forall rs_resp_ok acc'.
Proof.
  induction fuel as [|f IH]; cbn [rs_pop_loop]; intros e acc e' acc' H Ha; [inversion H; subst; exact Ha|].
  destruct (rs_mem (wrap32 (rs_cum e + 1)) (rs_rcvd e)); [|inversion H; subst; exact Ha].
  match type of H with context [rs_retry sid ?E acc] => destruct (rs_retry sid E acc) as [e2 acc2] eqn:Er end.
  eapply IH; [exact H|]. unfold rs_retry in Er. eapply rs_retry_list_ok; eassumption.
Qed.

Lemma rs_step_resps_ok sid e ev e' out : rs_ep_step sid e ev = Some (e', out) -> Forall rs_resp_ok (rs_o_resps out).
Proof.
  destruct ev; cbn [rs_ep_step]; intros H.
  - inversion H; subst; constructor.
  - destruct (rs_write e id il unord frags); inversion H; subst; constructor.
  - destruct (rs_close e id); inversion H; subst; constructor.
  - destruct (rs_read e); inversion H; subst; constructor.
  - destruct (rs_gather sid e items ids) as [[e1 g]|]; inversion H; subst; constructor.
  - inversion H; subst; constructor.
  - inversion H; subst; constructor.
  - destruct (rs_recv_request sid e q) as [[e1 r]|] eqn:E; inversion H; subst; cbn [rs_o_resps]; [|constructor].
    unfold rs_recv_request in E. destruct (_ && _)%bool; [discriminate|]. inversion E as [E1].
    constructor; [eapply rs_reset_if_any_ok; exact E1|constructor].
  - destruct (rs_recv_data sid e tsn mine simple ssn) as [e1 rs] eqn:E; inversion H; subst; cbn [rs_o_resps].
    unfold rs_recv_data, rs_cum_advanced in E. eapply rs_pop_loop_ok; [exact E|constructor].
  - destruct (rs_recv_fwd sid e newcum skip) as [e1 rs] eqn:E; inversion H; subst; cbn [rs_o_resps].
    unfold rs_recv_fwd in E. destruct (sna32LTE newcum (rs_cum e)); [inversion E; subst; constructor|].
    unfold rs_cum_advanced in E. eapply rs_pop_loop_ok; [exact E|constructor].
Qed.

(* EOF is set / the stream is unregistered only by a reset that was due *)
Definition rs_obj_kept (e e' : rs_ep) (news : list rs_resp) : Prop :=
  (rs_obj e' = rs_obj e /\ rs_present e' = rs_present e) \/ exists r, In r news /\ rs_r_hit r = true.

Lemma rs_retry_list_obj sid : forall l e acc e' acc',
  rs_retry_list sid l e acc = (e', acc') -> exists news, acc' = acc ++ news /\ rs_obj_kept e e' news.
Proof.
  induction l as [|q t IH]; cbn [rs_retry_list]; intros e acc e' acc' H.
  - inversion H; subst. exists []. rewrite app_nil_r. split; [reflexivity|left; split; reflexivity].
  - destruct (rs_reset_if_any sid e q) as [e1 r] eqn:E. destruct (IH _ _ _ _ H) as (news & Hn & Hk).
    exists (r :: news). rewrite Hn, <- app_assoc. split; [reflexivity|].
    destruct (rs_r_hit r) eqn:Eh; [right; exists r; split; [left; reflexivity|exact Eh]|].
    destruct (rs_reset_if_any_state _ _ _ _ _ E) as (_ & _ & _ & _ & _ & _ & Hf). destruct (Hf Eh) as [Ho Hp].
    destruct Hk as [[Ho2 Hp2]|(r' & Hr' & Hh)]; [left; split; congruence|right; exists r'; split; [right; exact Hr'|exact Hh]].
Qed.

Lemma rs_pop_loop_obj sid : forall fuel e acc e' acc',
  rs_pop_loop fuel sid e acc = (e', acc') -> exists news, acc' = acc ++ news /\ rs_obj_kept e e' news.
Proof.
  induction fuel as [|f IH]; cbn [rs_pop_loop]; intros e acc e' acc' H.
  - inversion H; subst. exists []. rewrite app_nil_r. split; [reflexivity|left; split; reflexivity].
  - destruct (rs_mem (wrap32 (rs_cum e + 1)) (rs_rcvd e)).
    + match type of H with context [rs_retry sid ?E acc] => destruct (rs_retry sid E acc) as [e2 acc2] eqn:Er end.
      unfold rs_retry in Er. destruct (rs_retry_list_obj _ _ _ _ _ _ Er) as (n1 & Hn1 & Hk1).
      destruct (IH _ _ _ _ H) as (n2 & Hn2 & Hk2). exists (n1 ++ n2). subst. rewrite app_assoc. split; [reflexivity|].
      cbn [rs_set_rcv rs_obj rs_present] in Hk1.
      destruct Hk1 as [[Ho1 Hp1]|(r & Hr & Hh)]; [|right; exists r; split; [apply in_or_app; left; exact Hr|exact Hh]].
      cbn [rs_set_rcv rs_obj rs_present] in Ho1, Hp1.
      destruct Hk2 as [[Ho2 Hp2]|(r & Hr & Hh)]; [left; split; congruence|right; exists r; split; [apply in_or_app; right; exact Hr|exact Hh]].
    + inversion H; subst. exists []. rewrite app_nil_r. split; [reflexivity|left; split; reflexivity].
Qed.

(* ================================================================ (b) no lost wake-up on the pop path *)

Definition rs_no_ready (e : rs_ep) : Prop :=
  forall q, In q (rs_reqs e) -> sna32LTE (rs_q_last q) (rs_cum e) = false.

Lemma rs_retry_list_no_ready sid : forall l e acc e' acc',
  rs_retry_list sid l e acc = (e', acc') -> rs_sorted (rs_reqs e) ->
  (forall q, In q (rs_reqs e) -> In q l \/ sna32LTE (rs_q_last q) (rs_cum e) = false) ->
  rs_no_ready e' /\ rs_sorted (rs_reqs e') /\ rs_cum e' = rs_cum e /\ rs_rcvd e' = rs_rcvd e /\ rs_maxoff e' = rs_maxoff e.
Proof.
  induction l as [|q t IH]; cbn [rs_retry_list]; intros e acc e' acc' H Hs Hc.
  - inversion H; subst. repeat split; try reflexivity; [|exact Hs]. intros q Hq. destruct (Hc q Hq) as [[]|Hq']; exact Hq'.
  - destruct (rs_reset_if_any sid e q) as [e1 r] eqn:E.
    destruct (rs_reset_if_any_state _ _ _ _ _ E) as (Hcum & Hrc & Hmo & Ht & Hf & _ & _).
    assert (Hs1 : rs_sorted (rs_reqs e1) /\
                  forall q', In q' (rs_reqs e1) -> In q' t \/ sna32LTE (rs_q_last q') (rs_cum e1) = false).
    { destruct (sna32LTE (rs_q_last q) (rs_cum e)) eqn:El.
      - rewrite (Ht eq_refl). split; [apply rs_del_sorted; exact Hs|]. intros q' Hq'. rewrite Hcum.
        pose proof (rs_del_not _ _ _ Hs Hq') as Hne. pose proof (rs_del_in _ _ _ Hq') as Hin.
        destruct (Hc q' Hin) as [[Heq|Hin']|Hn]; [subst; exfalso; apply Hne; reflexivity|left; exact Hin'|right; exact Hn].
      - rewrite (Hf eq_refl). split; [exact Hs|]. intros q' Hq'.
        destruct (Hc q' Hq') as [[Heq|Hin']|Hn]; [subst; right; exact El|left; exact Hin'|right; exact Hn]. }
    destruct Hs1 as [Hs1 Hc1]. destruct (IH _ _ _ _ H Hs1 Hc1) as (A & B & C & D & F).
    repeat split; try assumption; congruence.
Qed.

Lemma rs_retry_no_ready sid e acc e' acc' : rs_retry sid e acc = (e', acc') -> rs_sorted (rs_reqs e) ->
  rs_no_ready e' /\ rs_sorted (rs_reqs e') /\ rs_cum e' = rs_cum e /\ rs_rcvd e' = rs_rcvd e /\ rs_maxoff e' = rs_maxoff e.
Proof. unfold rs_retry. intros H Hs. eapply rs_retry_list_no_ready; [exact H|exact Hs|]. intros q Hq. left. exact Hq. Qed.

(* the loop either does nothing at all or ends right after a full re-examination *)
Lemma rs_pop_loop_no_ready sid : forall fuel e acc e' acc',
  rs_pop_loop fuel sid e acc = (e', acc') -> rs_sorted (rs_reqs e) ->
  ((e' = e /\ acc' = acc) \/ rs_no_ready e') /\ rs_sorted (rs_reqs e').
Proof.
  induction fuel as [|f IH]; cbn [rs_pop_loop]; intros e acc e' acc' H Hs; [inversion H; subst; split; [left; split; reflexivity|exact Hs]|].
  destruct (rs_mem (wrap32 (rs_cum e + 1)) (rs_rcvd e)); [|inversion H; subst; split; [left; split; reflexivity|exact Hs]].
  match type of H with context [rs_retry sid ?E acc] => destruct (rs_retry sid E acc) as [e2 acc2] eqn:Er end.
  destruct (rs_retry_no_ready _ _ _ _ _ Er Hs) as (Hn & Hs2 & _).
  destruct (IH _ _ _ _ H Hs2) as [[[He Ha]|Hn'] Hs']; split; try assumption; right; [subst; exact Hn|exact Hn'].
Qed.

Lemma rs_step_frame_rcv sid e ev e' out : rs_ep_step sid e ev = Some (e', out) ->
  match ev with RsVReq _ | RsVData _ _ _ _ | RsVFwd _ _ => True | _ => rs_cum e' = rs_cum e /\ rs_reqs e' = rs_reqs e end.
Proof.
  destruct ev; cbn [rs_ep_step]; intros H; try exact I.
  - inversion H; subst. unfold rs_open. destruct (rs_present e); split; reflexivity.
  - unfold rs_write in H. destruct (negb (rs_state (rs_obj e) =? rs_st_open)); [inversion H; subst; split; reflexivity|].
    destruct (negb (rs_estab e)); [inversion H; subst; split; reflexivity|].
    destruct (rs_fifo e || negb unord)%bool; inversion H; subst; split; reflexivity.
  - unfold rs_close in H. destruct (rs_state (rs_obj e) =? rs_st_open); [|inversion H; subst; split; reflexivity].
    destruct (rs_estab e); inversion H; subst; split; reflexivity.
  - unfold rs_read in H. destruct (rs_read_strm (rs_obj e)). inversion H; subst; split; reflexivity.
  - destruct (rs_gather sid e items ids) as [[e1 g]|] eqn:E; [|discriminate]. inversion H; subst. clear H.
    unfold rs_gather in E.
    assert (Hsk : forall n e0 acc n' e1 acc', rs_skip_markers n e0 acc = (n', e1, acc') -> rs_cum e1 = rs_cum e0 /\ rs_reqs e1 = rs_reqs e0).
    { induction n as [|n IHn]; cbn [rs_skip_markers]; intros e0 acc n' e1 acc' Hk; [inversion Hk; subst; split; reflexivity|].
      destruct (rs_pop_head e0) as [[c e2]|] eqn:Ep; [|inversion Hk; subst; split; reflexivity].
      destruct (rs_is_marker c); [|inversion Hk; subst; split; reflexivity].
      destruct (IHn _ _ _ _ _ Hk) as [A B].
      assert (F : rs_cum e2 = rs_cum e0 /\ rs_reqs e2 = rs_reqs e0).
      { unfold rs_pop_head in Ep. destruct (rs_fifo e0); [destruct (rs_pend_o e0); [discriminate|inversion Ep; subst; split; reflexivity]|].
        destruct (rs_sel_o e0); [destruct (rs_pend_o e0); [discriminate|inversion Ep; subst; split; reflexivity]|].
        destruct (rs_pend_u e0); [destruct (rs_pend_o e0); [discriminate|inversion Ep; subst; split; reflexivity]|inversion Ep; subst; split; reflexivity]. }
      destruct F; split; congruence. }
    assert (Hpop : forall e0 c e2, rs_pop_head e0 = Some (c, e2) -> rs_cum e2 = rs_cum e0 /\ rs_reqs e2 = rs_reqs e0).
    { intros e0 c e2 Ep. unfold rs_pop_head in Ep. destruct (rs_fifo e0); [destruct (rs_pend_o e0); [discriminate|inversion Ep; subst; split; reflexivity]|].
      destruct (rs_sel_o e0); [destruct (rs_pend_o e0); [discriminate|inversion Ep; subst; split; reflexivity]|].
      destruct (rs_pend_u e0); [destruct (rs_pend_o e0); [discriminate|inversion Ep; subst; split; reflexivity]|inversion Ep; subst; split; reflexivity]. }
    assert (Hgi : forall its n e0 p s m n' e1 s' m', rs_gather_items its n e0 p s m = Some (n', e1, s', m') -> rs_cum e1 = rs_cum e0 /\ rs_reqs e1 = rs_reqs e0).
    { induction its as [|it r IHr]; cbn [rs_gather_items]; intros n e0 p s m n' e1 s' m' Hg; [inversion Hg; subst; split; reflexivity|].
      destruct it as [|len un].
      - destruct (IHr _ _ _ _ _ _ _ _ _ Hg) as [A B]. cbn in A, B. split; assumption.
      - destruct (rs_skip_markers n e0 m) as [[n1 e1'] m1] eqn:Ek. destruct (Hsk _ _ _ _ _ _ Ek) as [A1 B1].
        destruct (rs_pop_head e1') as [[c e2]|] eqn:Ep; [|discriminate]. destruct (Hpop _ _ _ Ep) as [A2 B2].
        destruct (negb (rs_is_marker c) && (rs_pc_len c =? len) && Bool.eqb (rs_pc_unord c) un)%bool; [|discriminate].
        destruct (IHr _ _ _ _ _ _ _ _ _ Hg) as [A B]. cbn in A, B. split; congruence. }
    destruct (rs_gather_items items (count_occ Z.eq_dec ids sid) e 0 [] []) as [[[[n1 e1'] s1] m1]|] eqn:Eg; [|discriminate].
    destruct (Hgi _ _ _ _ _ _ _ _ _ _ Eg) as [A1 B1].
    destruct (rs_skip_markers n1 e1' m1) as [[n2 e2] m2] eqn:Ek. destruct (Hsk _ _ _ _ _ _ Ek) as [A2 B2].
    destruct n2; [|discriminate]. destruct ids; inversion E; subst; cbn; split; congruence.
  - inversion H; subst. split; reflexivity.
  - inversion H; subst. unfold rs_recv_response. destruct (result =? c_reconfigResultInProgress); [split; reflexivity|].
    cbn [fst]. destruct (result =? c_reconfigResultSuccessPerformed); [|split; reflexivity].
    destruct (rs_req_get (rs_reconfigs e) rsn); [|split; reflexivity].
    destruct (rs_mem sid (rs_q_ids r) && rs_present e && negb (rs_state (rs_obj e) =? rs_st_open))%bool; split; reflexivity.
Qed.

Lemma rs_step_no_lost_wakeup sid e ev e' out :
  rs_ep_step sid e ev = Some (e', out) -> (forall c sk, ev <> RsVFwd c sk) ->
  rs_sorted (rs_reqs e) -> rs_no_ready e -> rs_no_ready e' /\ rs_sorted (rs_reqs e').
Proof.
  intros H Hnf Hs Hn. pose proof (rs_step_frame_rcv _ _ _ _ _ H) as Hfr.
  destruct ev; try (destruct Hfr as [Hc Hr]; unfold rs_no_ready; rewrite Hc, Hr; split; [exact Hn|exact Hs]).
  - (* request *)
    cbn [rs_ep_step] in H. destruct (rs_recv_request sid e q) as [[e1 r]|] eqn:E; inversion H; subst; [|split; assumption]. clear H.
    unfold rs_recv_request in E. destruct (_ && _)%bool; [discriminate|]. inversion E as [E1]. clear E.
    set (e0 := rs_set_rcv e (rs_cum e) (rs_rcvd e) (rs_req_put (rs_reqs e) q)) in *.
    assert (Hs0 : rs_sorted (rs_reqs e0)) by (apply rs_put_sorted; exact Hs).
    destruct (rs_reset_if_any_state _ _ _ _ _ E1) as (Hcum & _ & _ & Ht & Hf & _ & _).
    destruct (sna32LTE (rs_q_last q) (rs_cum e0)) eqn:El.
    + rewrite (Ht eq_refl). split; [|apply rs_del_sorted; exact Hs0]. intros q' Hq'. rewrite (Ht eq_refl) in Hq'. rewrite Hcum.
      pose proof (rs_del_not _ _ _ Hs0 Hq') as Hne. apply rs_del_in in Hq'. cbn [e0 rs_set_rcv rs_reqs rs_cum] in *.
      destruct (rs_put_in _ _ _ Hq') as [Hq1|Hq1]; [subst; exfalso; apply Hne; reflexivity|apply Hn; exact Hq1].
    + rewrite (Hf eq_refl). split; [|exact Hs0]. intros q' Hq'. cbn [e0 rs_set_rcv rs_reqs rs_cum] in *.
      destruct (rs_put_in _ _ _ Hq') as [Hq1|Hq1]; [subst; exact El|apply Hn; exact Hq1].
  - (* data *)
    cbn [rs_ep_step] in H. destruct (rs_recv_data sid e tsn mine simple ssn) as [e1 rs] eqn:E; inversion H; subst. clear H.
    unfold rs_recv_data, rs_cum_advanced in E.
    match type of E with rs_pop_loop _ _ ?E0 _ = _ => set (e0 := E0) in * end.
    assert (H0 : rs_reqs e0 = rs_reqs e /\ rs_cum e0 = rs_cum e).
    { unfold e0. destruct (rs_can_push e tsn); [|split; reflexivity]. destruct mine; [|split; reflexivity].
      destruct (rs_present e); destruct simple; split; reflexivity. }
    destruct H0 as [Hr0 Hc0]. assert (Hs0 : rs_sorted (rs_reqs e0)) by (rewrite Hr0; exact Hs).
    destruct (rs_pop_loop_no_ready _ _ _ _ _ _ E Hs0) as [[[He _]|Hn'] Hs']; split; try assumption.
    subst. unfold rs_no_ready. rewrite Hr0, Hc0. exact Hn.
  - exfalso. eapply Hnf. reflexivity.
Qed.

(* the FORWARD-TSN path: the cumulative point jumps past a deferred request's senderLastTSN and the
   request stays stored (until a later pop or a retransmission of the request) *)
Definition rs_fwd_witness : rs_ep :=
  mkRsEp true true (rs_fresh_strm 1) false [] [] false 100 100 [] false 5 8448 [] [mkRsReq 7 10 [1]] None.

Lemma rs_lost_wakeup_after_fwd : exists e' q,
  rs_recv_fwd 1 rs_fwd_witness 10 None = (e', []) /\ rs_cum e' = 10 /\ rs_present e' = true /\ rs_eof (rs_obj e') = false /\
  In q (rs_reqs e') /\ sna32LTE (rs_q_last q) (rs_cum e') = true.
Proof.
  exists (fst (rs_recv_fwd 1 rs_fwd_witness 10 None)), (mkRsReq 7 10 [1]). vm_compute.
  repeat split; try reflexivity. left. reflexivity.
Qed.

(* ================================================================ (c) buffered messages before the read error *)

Lemma rs_read_msg_first o s r : rs_rbuf o = s :: r -> sna16GT s (rs_rnext o) = false ->
  exists o', rs_read_strm o = (o', RsMsg s) /\ rs_rbuf o' = r /\ rs_eof o' = rs_eof o /\
             rs_rnext o' = (if s =? rs_rnext o then wrap16 (rs_rnext o + 1) else rs_rnext o).
Proof. intros Hb Hg. unfold rs_read_strm. rewrite Hb, Hg. eexists. split; [reflexivity|]. cbn. repeat split; reflexivity. Qed.

Lemma rs_read_eof_only_when_nothing_readable o o' : rs_read_strm o = (o', RsEOF) ->
  rs_eof o = true /\ o' = o /\ (rs_rbuf o = [] \/ exists s r, rs_rbuf o = s :: r /\ sna16GT s (rs_rnext o) = true).
Proof.
  unfold rs_read_strm. destruct (rs_rbuf o) as [|s r] eqn:Eb.
  - destruct (rs_eof o) eqn:Ee; intros H; inversion H; subst. repeat split; try reflexivity. left. reflexivity.
  - destruct (sna16GT s (rs_rnext o)) eqn:Eg; [|intros H; inversion H].
    destruct (rs_eof o) eqn:Ee; intros H; inversion H; subst. repeat split; try reflexivity. right. exists s, r. split; [reflexivity|exact Eg].
Qed.

Lemma rs_inbound_reset_keeps_buffer o :
  rs_rbuf (rs_inbound_reset o) = rs_rbuf o /\ rs_rnext (rs_inbound_reset o) = rs_rnext o /\ rs_eof (rs_inbound_reset o) = true.
Proof. unfold rs_inbound_reset. cbn. repeat split; reflexivity. Qed.

(* n reads in a row *)
Fixpoint rs_reads (n : nat) (o : rs_strm) : rs_strm * list rs_rres :=
  match n with
  | O => (o, [])
  | S m => let (o1, r) := rs_read_strm o in let (o2, rs) := rs_reads m o1 in (o2, r :: rs)
  end.

Definition rs_contig (next : Z) (k : nat) : list Z := map (fun i => wrap16 (next + Z.of_nat i)) (seq 0 k).

Lemma rs_contig_S next k : rs_contig next (S k) = wrap16 next :: rs_contig (next + 1) k.
Proof.
  unfold rs_contig. cbn [seq map]. rewrite Z.add_0_r. f_equal. rewrite <- seq_shift, map_map.
  apply map_ext. intros i. f_equal. lia.
Qed.

Lemma rs_reads_S n o :
  rs_reads (S n) o = let (o1, r) := rs_read_strm o in let (o2, rs) := rs_reads n o1 in (o2, r :: rs).
Proof. reflexivity. Qed.

Lemma rs_contig_wrap next k : rs_contig (wrap16 next) k = rs_contig next k.
Proof. unfold rs_contig. apply map_ext. intros i. unfold wrap16. lia. Qed.

Lemma rs_reads_contig : forall k o, in16 (rs_rnext o) -> rs_rbuf o = rs_contig (rs_rnext o) k ->
  exists o', rs_reads (S k) o = (o', map RsMsg (rs_contig (rs_rnext o) k) ++ [if rs_eof o then RsEOF else RsWait]) /\
             rs_rbuf o' = [] /\ rs_eof o' = rs_eof o.
Proof.
  induction k as [|k IH]; intros o Hr Hb.
  - rewrite rs_reads_S. unfold rs_read_strm. rewrite Hb. cbn [rs_contig map seq rs_reads app].
    exists o. split; [reflexivity|]. split; [exact Hb|reflexivity].
  - rewrite rs_contig_S in Hb. assert (Hw : wrap16 (rs_rnext o) = rs_rnext o) by (unfold wrap16, in16 in *; lia).
    rewrite Hw in Hb.
    assert (Hg : sna16GT (rs_rnext o) (rs_rnext o) = false) by (unfold sna16GT, wrap16, in16 in *; lia).
    destruct (rs_read_msg_first o _ _ Hb Hg) as (o1 & Hrd & Hb1 & He1 & Hn1). rewrite Z.eqb_refl in Hn1.
    assert (Hr1 : in16 (rs_rnext o1)) by (rewrite Hn1; unfold wrap16, in16; lia).
    assert (Hb1' : rs_rbuf o1 = rs_contig (rs_rnext o1) k) by (rewrite Hb1, Hn1, rs_contig_wrap; reflexivity).
    destruct (IH o1 Hr1 Hb1') as (o' & Hrs & Hb' & He').
    exists o'. rewrite rs_reads_S, Hrd, Hrs.
    split; [|split; [exact Hb'|congruence]].
    rewrite rs_contig_S, Hw, Hn1, rs_contig_wrap, He1. reflexivity.
Qed.

(* ================================================================ (d) fresh counters, fresh incarnations *)

Lemma rs_fresh_is_zero g :
  rs_state (rs_fresh_strm g) = rs_st_open /\ rs_eof (rs_fresh_strm g) = false /\ rs_ssn (rs_fresh_strm g) = 0 /\
  rs_omid (rs_fresh_strm g) = 0 /\ rs_umid (rs_fresh_strm g) = 0 /\ rs_rnext (rs_fresh_strm g) = 0 /\ rs_rbuf (rs_fresh_strm g) = [].
Proof. cbn. repeat split; reflexivity. Qed.

Lemma rs_response_performed_resets sid e rsn q :
  rs_req_get (rs_reconfigs e) rsn = Some q -> rs_mem sid (rs_q_ids q) = true -> rs_present e = true ->
  rs_state (rs_obj e) <> rs_st_open ->
  let e' := fst (rs_recv_response sid e rsn c_reconfigResultSuccessPerformed) in
  rs_ssn (rs_obj e') = 0 /\ rs_omid (rs_obj e') = 0 /\ rs_umid (rs_obj e') = 0 /\
  rs_state (rs_obj e') = rs_state (rs_obj e) /\ rs_eof (rs_obj e') = rs_eof (rs_obj e) /\ rs_present e' = true.
Proof.
  intros Hg Hm Hp Hs. unfold rs_recv_response. replace (c_reconfigResultSuccessPerformed =? c_reconfigResultInProgress) with false by reflexivity.
  rewrite Z.eqb_refl, Hg, Hm, Hp. replace (rs_state (rs_obj e) =? rs_st_open) with false by lia. cbn. repeat split; reflexivity.
Qed.

(* a186bb2: whatever response arrives, an open stream keeps its counters (the stream that sent a reset
   request has left the open state; an open one under the identifier is a later incarnation) *)
Lemma rs_response_open_untouched sid e rsn result : rs_state (rs_obj e) = rs_st_open ->
  rs_obj (fst (rs_recv_response sid e rsn result)) = rs_obj e /\
  rs_present (fst (rs_recv_response sid e rsn result)) = rs_present e.
Proof.
  intros Hs. unfold rs_recv_response. destruct (result =? c_reconfigResultInProgress); [split; reflexivity|].
  cbn [fst]. destruct (result =? c_reconfigResultSuccessPerformed); [|split; reflexivity].
  destruct (rs_req_get (rs_reconfigs e) rsn) as [q|]; [|split; reflexivity].
  rewrite Hs, Z.eqb_refl, andb_false_r. split; reflexivity.
Qed.

Lemma rs_open_fresh e : rs_present e = false ->
  rs_present (rs_open e) = true /\ rs_obj (rs_open e) = rs_fresh_strm (rs_gen (rs_obj e) + 1).
Proof. intros H. unfold rs_open. rewrite H. cbn. split; reflexivity. Qed.

Lemma rs_open_existing e : rs_present e = true -> rs_open e = e.
Proof. intros H. unfold rs_open. rewrite H. reflexivity. Qed.

Lemma rs_pop_loop_no_reqs sid : forall f e1 acc, rs_reqs e1 = [] ->
  rs_reqs (fst (rs_pop_loop f sid e1 acc)) = [] /\ rs_obj (fst (rs_pop_loop f sid e1 acc)) = rs_obj e1 /\
  rs_present (fst (rs_pop_loop f sid e1 acc)) = rs_present e1 /\ snd (rs_pop_loop f sid e1 acc) = acc.
Proof.
  induction f as [|f IH]; intros e1 acc H1; cbn [rs_pop_loop]; [repeat split; try reflexivity; exact H1|].
  destruct (rs_mem (wrap32 (rs_cum e1 + 1)) (rs_rcvd e1)); [|repeat split; try reflexivity; exact H1].
  unfold rs_retry. cbn [rs_set_rcv rs_reqs]. rewrite H1. cbn [rs_retry_list].
  match goal with |- context [rs_pop_loop f sid ?E2 acc] => pose proof (IH E2 acc eq_refl) as IH2 end.
  cbn [rs_set_rcv rs_obj rs_present] in IH2. exact IH2.
Qed.

(* the first message of a new incarnation (SSN 0) arriving at an endpoint that has no object under the id
   and no stored reset request: a fresh object is created, the message is readable at once *)
Lemma rs_first_message_deliverable sid e tsn :
  rs_present e = false -> rs_reqs e = [] -> rs_can_push e tsn = true ->
  let e' := fst (rs_recv_data sid e tsn true true 0) in
  rs_present e' = true /\ rs_gen (rs_obj e') = rs_gen (rs_obj e) + 1 /\ rs_eof (rs_obj e') = false /\
  snd (rs_read e') = RsMsg 0.
Proof.
  intros Hp Hr Hc. unfold rs_recv_data. rewrite Hc, Hp. unfold rs_cum_advanced.
  match goal with |- context [rs_pop_loop _ sid ?E0 []] => set (e0 := E0) end.
  assert (H0 : rs_reqs e0 = []) by (unfold e0; cbn; exact Hr).
  destruct (rs_pop_loop_no_reqs sid (S (length (rs_rcvd e0))) e0 [] H0) as (A & B & C & _).
  assert (Ho : rs_obj e0 = mkRsStrm (rs_gen (rs_obj e) + 1) rs_st_open false 0 0 0 0 [0]) by (unfold e0; cbn; reflexivity).
  assert (Hp0 : rs_present e0 = true) by (unfold e0; cbn; reflexivity).
  cbv zeta. rewrite C, B, Ho, Hp0. cbn [rs_gen rs_eof]. repeat split; try reflexivity.
  unfold rs_read. rewrite B, Ho. cbn. reflexivity.
Qed.

(* a request for an identifier that is not registered changes nothing but the request table *)
Lemma rs_request_absent_harmless sid e q e' r :
  rs_present e = false -> rs_recv_request sid e q = Some (e', r) ->
  rs_obj e' = rs_obj e /\ rs_present e' = false /\ rs_r_hit r = false.
Proof.
  intros Hp H. unfold rs_recv_request in H. destruct (_ && _)%bool; [discriminate|]. inversion H as [H1]. clear H.
  unfold rs_reset_if_any in H1. cbn [rs_set_rcv rs_cum rs_present rs_obj] in H1. rewrite Hp, andb_false_r in H1.
  destruct (sna32LTE (rs_q_last q) (rs_cum e)); inversion H1; subst; [|cbn; repeat split; try reflexivity; exact Hp].
  destruct (rs_mem sid (rs_q_ids q) && _)%bool; cbn; repeat split; try reflexivity; exact Hp.
Qed.

(* fd7385c: a request that is not newer than the one already performed for the identifier (retransmission
   after a lost response, network duplicate) is answered but touches neither the stream registered under
   the identifier now nor the record *)
Lemma rs_request_already_performed sid e q e' r p :
  rs_done e = Some p -> sna32LTE (rs_q_rsn q) p = true -> rs_recv_request sid e q = Some (e', r) ->
  rs_obj e' = rs_obj e /\ rs_present e' = rs_present e /\ rs_done e' = rs_done e /\ rs_r_hit r = false /\
  (sna32LTE (rs_q_last q) (rs_cum e) = true -> rs_r_res r = c_reconfigResultSuccessPerformed).
Proof.
  intros Hd Hl H. unfold rs_recv_request in H. destruct (_ && _)%bool; [discriminate|]. inversion H as [H1]. clear H.
  set (e0 := rs_set_rcv e (rs_cum e) (rs_rcvd e) (rs_req_put (rs_reqs e) q)) in *.
  assert (Ha : rs_already e0 q = true) by (unfold rs_already, e0; cbn; rewrite Hd; exact Hl).
  destruct (rs_reset_if_any_done _ _ _ _ _ H1) as (_ & _ & Hal & _). destruct (Hal Ha) as (A & B & C & D).
  split; [exact A|]. split; [exact B|]. split; [exact C|]. split; [exact D|].
  intros Hdue. unfold rs_reset_if_any in H1. cbn [e0 rs_set_rcv rs_cum] in H1. rewrite Hdue in H1. inversion H1; subst. reflexivity.
Qed.

(* ... while the request of the next incarnation (newer sequence number) is performed and recorded *)
Lemma rs_request_newer_performed sid e q e' r :
  rs_already e q = false -> rs_mem sid (rs_q_ids q) = true -> sna32LTE (rs_q_last q) (rs_cum e) = true ->
  rs_recv_request sid e q = Some (e', r) ->
  rs_done e' = Some (rs_q_rsn q) /\ rs_present e' = false /\ rs_r_hit r = rs_present e /\
  rs_r_res r = c_reconfigResultSuccessPerformed.
Proof.
  intros Ha Hm Hdue H. unfold rs_recv_request in H. destruct (_ && _)%bool; [discriminate|]. inversion H as [H1]. clear H.
  set (e0 := rs_set_rcv e (rs_cum e) (rs_rcvd e) (rs_req_put (rs_reqs e) q)) in *.
  destruct (rs_reset_if_any_done _ _ _ _ _ H1) as (_ & _ & _ & Hn).
  destruct (Hn Hdue Hm Ha) as (A & B & C). split; [exact A|]. split; [exact B|]. split; [exact C|].
  unfold rs_reset_if_any in H1. cbn [e0 rs_set_rcv rs_cum] in H1. rewrite Hdue in H1. inversion H1; subst. reflexivity.
Qed.

(* frame: RECONFIG parameters that do not name the identifier never touch its object *)
Lemma rs_request_frame sid e q e' r :
  rs_mem sid (rs_q_ids q) = false -> rs_recv_request sid e q = Some (e', r) ->
  rs_obj e' = rs_obj e /\ rs_present e' = rs_present e /\ rs_r_hit r = false.
Proof.
  intros Hm H. unfold rs_recv_request in H. destruct (_ && _)%bool; [discriminate|]. inversion H as [H1]. clear H.
  unfold rs_reset_if_any in H1. rewrite Hm in H1. cbn [andb] in H1.
  destruct (sna32LTE _ _); inversion H1; subst; cbn; repeat split; reflexivity.
Qed.

(* ... nor the record of performed requests *)
Lemma rs_request_frame_done sid e q e' r :
  rs_mem sid (rs_q_ids q) = false -> rs_recv_request sid e q = Some (e', r) -> rs_done e' = rs_done e.
Proof.
  intros Hm H. unfold rs_recv_request in H. destruct (_ && _)%bool; [discriminate|]. inversion H as [H1]. clear H.
  unfold rs_reset_if_any in H1. rewrite Hm in H1. cbn [andb] in H1.
  destruct (sna32LTE _ _); inversion H1; subst; cbn; reflexivity.
Qed.

Lemma rs_response_frame sid e rsn result :
  (forall q, rs_req_get (rs_reconfigs e) rsn = Some q -> rs_mem sid (rs_q_ids q) = false) ->
  rs_obj (fst (rs_recv_response sid e rsn result)) = rs_obj e /\
  rs_present (fst (rs_recv_response sid e rsn result)) = rs_present e.
Proof.
  intros Hq. unfold rs_recv_response. destruct (result =? c_reconfigResultInProgress); [split; reflexivity|].
  cbn [fst]. destruct (result =? c_reconfigResultSuccessPerformed); [|split; reflexivity].
  destruct (rs_req_get (rs_reconfigs e) rsn) as [q|] eqn:E; [|split; reflexivity].
  rewrite (Hq q eq_refl). cbn [andb]. split; reflexivity.
Qed.

(* ================================================================ (e) retransmission, duplicates *)

(* after the timer expired the next gather retransmits every stored request *)
Lemma rs_gather_frame_snd sid e items ids e' g : rs_gather sid e items ids = Some (e', g) ->
  rs_go_rtx g = (if rs_will_rtx e then rs_reconfigs e else []) /\ rs_will_rtx e' = false /\
  (ids = [] -> rs_reconfigs e' = rs_reconfigs e /\ rs_next_rsn e' = rs_next_rsn e) /\
  (ids <> [] -> exists q, rs_go_new g = Some q /\ rs_q_rsn q = rs_next_rsn e /\ rs_q_ids q = ids /\
                          rs_reconfigs e' = rs_req_put (rs_reconfigs e) q).
Proof.
  unfold rs_gather. intros E.
  assert (Hpop : forall e0 c e2, rs_pop_head e0 = Some (c, e2) ->
            rs_reconfigs e2 = rs_reconfigs e0 /\ rs_will_rtx e2 = rs_will_rtx e0 /\ rs_next_rsn e2 = rs_next_rsn e0).
  { intros e0 c e2 Ep. unfold rs_pop_head in Ep. destruct (rs_fifo e0); [destruct (rs_pend_o e0); [discriminate|inversion Ep; subst; repeat split; reflexivity]|].
    destruct (rs_sel_o e0); [destruct (rs_pend_o e0); [discriminate|inversion Ep; subst; repeat split; reflexivity]|].
    destruct (rs_pend_u e0); [destruct (rs_pend_o e0); [discriminate|inversion Ep; subst; repeat split; reflexivity]|inversion Ep; subst; repeat split; reflexivity]. }
  assert (Hsk : forall n e0 acc n' e1 acc', rs_skip_markers n e0 acc = (n', e1, acc') ->
            rs_reconfigs e1 = rs_reconfigs e0 /\ rs_will_rtx e1 = rs_will_rtx e0 /\ rs_next_rsn e1 = rs_next_rsn e0).
  { induction n as [|n IHn]; cbn [rs_skip_markers]; intros e0 acc n' e1 acc' Hk; [inversion Hk; subst; repeat split; reflexivity|].
    destruct (rs_pop_head e0) as [[c e2]|] eqn:Ep; [|inversion Hk; subst; repeat split; reflexivity].
    destruct (rs_is_marker c); [|inversion Hk; subst; repeat split; reflexivity].
    destruct (IHn _ _ _ _ _ Hk) as (A & B & C). destruct (Hpop _ _ _ Ep) as (A2 & B2 & C2). repeat split; congruence. }
  assert (Hgi : forall its n e0 p s m n' e1 s' m', rs_gather_items its n e0 p s m = Some (n', e1, s', m') ->
            rs_reconfigs e1 = rs_reconfigs e0 /\ rs_will_rtx e1 = rs_will_rtx e0 /\ rs_next_rsn e1 = rs_next_rsn e0).
  { induction its as [|it r IHr]; cbn [rs_gather_items]; intros n e0 p s m n' e1 s' m' Hg; [inversion Hg; subst; repeat split; reflexivity|].
    destruct it as [|len un].
    - destruct (IHr _ _ _ _ _ _ _ _ _ Hg) as (A & B & C). cbn in A, B, C. repeat split; assumption.
    - destruct (rs_skip_markers n e0 m) as [[n1 e1'] m1] eqn:Ek. destruct (Hsk _ _ _ _ _ _ Ek) as (A1 & B1 & C1).
      destruct (rs_pop_head e1') as [[c e2]|] eqn:Ep; [|discriminate]. destruct (Hpop _ _ _ Ep) as (A2 & B2 & C2).
      destruct (negb (rs_is_marker c) && (rs_pc_len c =? len) && Bool.eqb (rs_pc_unord c) un)%bool; [|discriminate].
      destruct (IHr _ _ _ _ _ _ _ _ _ Hg) as (A & B & C). cbn in A, B, C. repeat split; congruence. }
  destruct (rs_gather_items items (count_occ Z.eq_dec ids sid) e 0 [] []) as [[[[n1 e1'] s1] m1]|] eqn:Eg; [|discriminate].
  destruct (Hgi _ _ _ _ _ _ _ _ _ _ Eg) as (A1 & B1 & C1).
  destruct (rs_skip_markers n1 e1' m1) as [[n2 e2] m2] eqn:Ek. destruct (Hsk _ _ _ _ _ _ Ek) as (A2 & B2 & C2).
  destruct n2; [|discriminate].
  destruct ids as [|i0 ids']; inversion E; subst; cbn [rs_go_rtx rs_go_new rs_will_rtx rs_set_snd rs_reconfigs rs_next_rsn].
  - rewrite B2, B1, A2, A1. repeat split; try congruence; try (intros Hne; exfalso; apply Hne; reflexivity).
  - rewrite B2, B1, A2, A1. repeat split; try congruence; try discriminate;
      try (intros _; eexists; split; [reflexivity|]; cbn; repeat split; congruence).
Qed.

Lemma rs_expire_then_gather_retransmits_all sid e items ids e' g :
  rs_gather sid (rs_treconfig_expire e) items ids = Some (e', g) -> rs_go_rtx g = rs_reconfigs e.
Proof. intros H. apply rs_gather_frame_snd in H. destruct H as [H _]. exact H. Qed.


(* ================================================================ frames of the receiving-role handlers *)

(* fields the receiving-role handlers (request, DATA, FORWARD-TSN) never write *)
Definition rs_snd_same (e e' : rs_ep) : Prop :=
  rs_reconfigs e' = rs_reconfigs e /\ rs_next_rsn e' = rs_next_rsn e /\ rs_next_tsn e' = rs_next_tsn e /\
  rs_will_rtx e' = rs_will_rtx e /\ rs_pend_u e' = rs_pend_u e /\ rs_pend_o e' = rs_pend_o e /\
  rs_sel_o e' = rs_sel_o e /\ rs_fifo e' = rs_fifo e /\ rs_estab e' = rs_estab e.

Lemma rs_snd_same_refl e : rs_snd_same e e.
Proof. unfold rs_snd_same. repeat split; reflexivity. Qed.

Lemma rs_snd_same_trans a b c : rs_snd_same a b -> rs_snd_same b c -> rs_snd_same a c.
Proof. unfold rs_snd_same. intros (A1 & A2 & A3 & A4 & A5 & A6 & A7 & A8 & A9) (B1 & B2 & B3 & B4 & B5 & B6 & B7 & B8 & B9). repeat split; congruence. Qed.

Lemma rs_reset_if_any_snd sid e q e' r : rs_reset_if_any sid e q = (e', r) -> rs_snd_same e e'.
Proof.
  unfold rs_reset_if_any. destruct (sna32LTE _ _); intros H; inversion H; subst; [|apply rs_snd_same_refl].
  destruct (rs_mem sid (rs_q_ids q) && negb (rs_already e q))%bool; destruct (rs_present e); unfold rs_snd_same; cbn; repeat split; reflexivity.
Qed.

Lemma rs_retry_list_snd sid : forall l e acc e' acc', rs_retry_list sid l e acc = (e', acc') -> rs_snd_same e e'.
Proof.
  induction l as [|q t IH]; cbn [rs_retry_list]; intros e acc e' acc' H; [inversion H; subst; apply rs_snd_same_refl|].
  destruct (rs_reset_if_any sid e q) as [e1 r] eqn:E. eapply rs_snd_same_trans; [eapply rs_reset_if_any_snd; exact E|eapply IH; exact H].
Qed.

Lemma rs_pop_loop_snd sid : forall f e acc e' acc', rs_pop_loop f sid e acc = (e', acc') -> rs_snd_same e e'.
Proof.
  induction f as [|f IH]; cbn [rs_pop_loop]; intros e acc e' acc' H; [inversion H; subst; apply rs_snd_same_refl|].
  destruct (rs_mem (wrap32 (rs_cum e + 1)) (rs_rcvd e)); [|inversion H; subst; apply rs_snd_same_refl].
  match type of H with context [rs_retry sid ?E acc] => destruct (rs_retry sid E acc) as [e2 acc2] eqn:Er end.
  unfold rs_retry in Er. apply rs_retry_list_snd in Er. apply IH in H.
  eapply rs_snd_same_trans; [|exact H]. eapply rs_snd_same_trans; [|exact Er]. unfold rs_snd_same; cbn; repeat split; reflexivity.
Qed.

Lemma rs_recv_request_snd sid e q e' r : rs_recv_request sid e q = Some (e', r) -> rs_snd_same e e'.
Proof.
  unfold rs_recv_request. destruct (_ && _)%bool; [discriminate|]. intros H. inversion H as [H1].
  apply rs_reset_if_any_snd in H1. eapply rs_snd_same_trans; [|exact H1]. unfold rs_snd_same; cbn; repeat split; reflexivity.
Qed.

Lemma rs_recv_data_snd sid e tsn mine simple ssn e' rs : rs_recv_data sid e tsn mine simple ssn = (e', rs) -> rs_snd_same e e'.
Proof.
  unfold rs_recv_data, rs_cum_advanced. intros H. apply rs_pop_loop_snd in H. eapply rs_snd_same_trans; [|exact H].
  destruct (rs_can_push e tsn); [|apply rs_snd_same_refl]. destruct mine; [|unfold rs_snd_same; cbn; repeat split; reflexivity].
  destruct (rs_present e); destruct simple; unfold rs_snd_same; cbn; repeat split; reflexivity.
Qed.

Lemma rs_recv_fwd_snd sid e c sk e' rs : rs_recv_fwd sid e c sk = (e', rs) -> rs_snd_same e e'.
Proof.
  unfold rs_recv_fwd, rs_cum_advanced. destruct (sna32LTE c (rs_cum e)); intros H; [inversion H; subst; apply rs_snd_same_refl|].
  apply rs_pop_loop_snd in H. eapply rs_snd_same_trans; [|exact H].
  destruct sk as [s|]; [destruct (rs_present _)|]; unfold rs_snd_same; cbn; repeat split; reflexivity.
Qed.

(* ================================================================ (e) a stored request stays until its final response *)

Lemma rs_request_kept_until_final sid e ev e' out rsn q :
  rs_ep_step sid e ev = Some (e', out) -> rs_req_get (rs_reconfigs e) rsn = Some q ->
  (forall result, ev = RsVResp rsn result -> result = c_reconfigResultInProgress) ->
  rsn <> rs_next_rsn e ->
  rs_req_get (rs_reconfigs e') rsn = Some q.
Proof.
  intros H Hg Hfin Hnx. destruct ev; cbn [rs_ep_step] in H.
  - inversion H; subst. unfold rs_open. destruct (rs_present e); exact Hg.
  - unfold rs_write in H. destruct (negb (rs_state (rs_obj e) =? rs_st_open)); [inversion H; subst; exact Hg|].
    destruct (negb (rs_estab e)); [inversion H; subst; exact Hg|].
    destruct (rs_fifo e || negb unord)%bool; inversion H; subst; exact Hg.
  - unfold rs_close in H. destruct (rs_state (rs_obj e) =? rs_st_open); [|inversion H; subst; exact Hg].
    destruct (rs_estab e); inversion H; subst; exact Hg.
  - unfold rs_read in H. destruct (rs_read_strm (rs_obj e)). inversion H; subst. exact Hg.
  - destruct (rs_gather sid e items ids) as [[e1 g]|] eqn:E; [|discriminate]. inversion H; subst.
    destruct (rs_gather_frame_snd _ _ _ _ _ _ E) as (_ & _ & Hnil & Hcons).
    destruct ids as [|i0 ids']; [destruct (Hnil eq_refl) as [Hr _]; rewrite Hr; exact Hg|].
    destruct (Hcons ltac:(discriminate)) as (q0 & _ & Hk & _ & Hr). rewrite Hr, rs_get_put_other; [exact Hg|congruence].
  - inversion H; subst. exact Hg.
  - inversion H; subst. unfold rs_recv_response. destruct (result =? c_reconfigResultInProgress) eqn:Ei; [exact Hg|].
    cbn [fst]. destruct (Z.eq_dec rsn0 rsn) as [Heq|Hne]; [subst; specialize (Hfin result eq_refl); lia|].
    match goal with |- rs_req_get (rs_reconfigs (rs_set_snd ?E1 _ _ ?RC _)) _ = _ => assert (Hrc : rs_reconfigs E1 = rs_reconfigs e) end.
    { destruct (result =? c_reconfigResultSuccessPerformed); [|reflexivity].
      destruct (rs_req_get (rs_reconfigs e) rsn0); [|reflexivity]. destruct (rs_mem sid (rs_q_ids r) && rs_present e && negb (rs_state (rs_obj e) =? rs_st_open))%bool; reflexivity. }
    cbn [rs_set_snd rs_reconfigs]. rewrite Hrc, rs_get_del_other; [exact Hg|congruence].
  - destruct (rs_recv_request sid e q0) as [[e1 r]|] eqn:E; inversion H; subst; [|exact Hg].
    destruct (rs_recv_request_snd _ _ _ _ _ E) as (A & _). rewrite A. exact Hg.
  - destruct (rs_recv_data sid e tsn mine simple ssn) as [e1 rs] eqn:E; inversion H; subst.
    destruct (rs_recv_data_snd _ _ _ _ _ _ _ _ E) as (A & _). rewrite A. exact Hg.
  - destruct (rs_recv_fwd sid e newcum skip) as [e1 rs] eqn:E; inversion H; subst.
    destruct (rs_recv_fwd_snd _ _ _ _ _ _ E) as (A & _). rewrite A. exact Hg.
Qed.

(* a final response whose number is not stored (duplicate of one already processed) changes nothing *)
Lemma rs_dup_final_response_noop sid e rsn result :
  rs_req_get (rs_reconfigs e) rsn = None -> fst (rs_recv_response sid e rsn result) = e.
Proof.
  intros Hg. unfold rs_recv_response. destruct (result =? c_reconfigResultInProgress); [reflexivity|].
  cbn [fst]. rewrite Hg. destruct (result =? c_reconfigResultSuccessPerformed); rewrite (rs_del_absent _ _ Hg); destruct e; reflexivity.
Qed.

(* InProgress never changes the state *)
Lemma rs_in_progress_noop sid e rsn : fst (rs_recv_response sid e rsn c_reconfigResultInProgress) = e.
Proof. reflexivity. Qed.

(* a duplicate of a request that is still deferred: same answer, same state *)
Lemma rs_dup_request_deferred sid e q :
  rs_sorted (rs_reqs e) -> In q (rs_reqs e) -> sna32LTE (rs_q_last q) (rs_cum e) = false ->
  Z.of_nat (length (rs_reqs e)) < c_maxReconfigRequests ->
  exists r, rs_recv_request sid e q = Some (e, r) /\ rs_r_res r = c_reconfigResultInProgress.
Proof.
  intros Hs Hin Hl Hn. unfold rs_recv_request.
  replace (c_maxReconfigRequests <=? Z.of_nat (length (rs_reqs e))) with false by lia. rewrite andb_false_r.
  rewrite (rs_put_same_idem _ _ Hs Hin). unfold rs_reset_if_any. cbn [rs_set_rcv rs_cum]. rewrite Hl.
  exists (mkRsResp (rs_q_rsn q) c_reconfigResultInProgress false (rs_q_last q) (rs_cum e)).
  split; [|reflexivity]. destruct e; reflexivity.
Qed.

(* a duplicate of a request that was performed, arriving while the identifier is not registered: harmless
   (rs_request_absent_harmless); arriving after the identifier was registered again: see the refutation
   rs_stale_request_witness below *)

(* ================================================================ (a) the marker leaves the queue after the stream's data *)

Definition rs_pend_all (e : rs_ep) : list rs_pchunk := rs_pend_u e ++ rs_pend_o e.

(* shape of the ordered sub-queue (message policy): fragments of one message are contiguous, a marker is a
   complete one-chunk message.  [sel] = the head continues a message whose first fragments were popped. *)
Fixpoint rs_frag_ok (sel : bool) (l : list rs_pchunk) : Prop :=
  match l with
  | [] => sel = false
  | c :: r => rs_pc_beg c = negb sel /\ (rs_is_marker c = true -> rs_pc_beg c = true /\ rs_pc_end c = true) /\
              rs_frag_ok (negb (rs_pc_end c)) r
  end.

Definition rs_ids_sorted (l : list rs_pchunk) : Prop := StronglySorted (fun a b => rs_pc_id a < rs_pc_id b) l.

Definition rs_wf (e : rs_ep) : Prop :=
  rs_ids_sorted (rs_pend_u e) /\ rs_ids_sorted (rs_pend_o e) /\
  (rs_fifo e = true -> rs_pend_u e = []) /\
  (rs_fifo e = false -> rs_frag_ok (rs_sel_o e) (rs_pend_o e)) /\
  (forall c, In c (rs_pend_u e) -> rs_is_marker c = false).

(* what a pop leaves untouched *)
Definition rs_pop_same (e e' : rs_ep) : Prop :=
  rs_obj e' = rs_obj e /\ rs_present e' = rs_present e /\ rs_estab e' = rs_estab e /\ rs_fifo e' = rs_fifo e /\
  rs_next_tsn e' = rs_next_tsn e /\ rs_next_rsn e' = rs_next_rsn e /\ rs_reconfigs e' = rs_reconfigs e /\
  rs_will_rtx e' = rs_will_rtx e.

Lemma rs_sorted_tail_gt (c : rs_pchunk) r : rs_ids_sorted (c :: r) -> rs_ids_sorted r /\ forall x, In x r -> rs_pc_id c < rs_pc_id x.
Proof. intros H. inversion H as [|? ? Hr Hc]; subst. split; [exact Hr|]. rewrite Forall_forall in Hc. exact Hc. Qed.

Lemma rs_pop_head_wf e c e' : rs_wf e -> rs_pop_head e = Some (c, e') ->
  rs_wf e' /\ rs_pop_same e e' /\ In c (rs_pend_all e) /\
  (forall x, In x (rs_pend_all e') -> In x (rs_pend_all e)) /\
  (forall x, In x (rs_pend_all e) -> x = c \/ In x (rs_pend_all e')) /\
  (rs_is_marker c = true -> forall x, In x (rs_pend_all e') -> rs_pc_id c < rs_pc_id x).
Proof.
  intros (Hu & Ho & Hf & Hm & Hnm) H. unfold rs_pop_head in H. unfold rs_pend_all.
  destruct (rs_fifo e) eqn:Ef.
  - (* per-stream FIFO *)
    rewrite (Hf eq_refl) in *. destruct (rs_pend_o e) as [|c0 r] eqn:Eo; [discriminate|]. inversion H; subst. clear H.
    destruct (rs_sorted_tail_gt _ _ Ho) as [Hr Hgt]. cbn [rs_set_pend rs_pend_u rs_pend_o rs_fifo rs_sel_o app].
    split; [|split; [unfold rs_pop_same; cbn; repeat split; try reflexivity; exact Ef|]].
    + unfold rs_wf. cbn [rs_set_pend rs_pend_u rs_pend_o rs_fifo rs_sel_o]. rewrite Ef.
      split; [constructor|]. split; [exact Hr|]. split; [reflexivity|]. split; [discriminate|]. intros x [].
    + split; [left; reflexivity|]. split; [intros x Hx; right; exact Hx|]. split; [intros x [Hx|Hx]; [left; symmetry; exact Hx|right; exact Hx]|].
      intros _. exact Hgt.
  - specialize (Hm eq_refl). destruct (rs_sel_o e) eqn:Es.
    + (* an ordered message of this stream is being popped *)
      destruct (rs_pend_o e) as [|c0 r] eqn:Eo; [discriminate|]. inversion H; subst. clear H.
      destruct (rs_sorted_tail_gt _ _ Ho) as [Hr Hgt]. cbn [rs_frag_ok] in Hm. destruct Hm as (Hb & Hmk & Hrest).
      cbn [rs_set_pend rs_pend_u rs_pend_o rs_fifo rs_sel_o].
      split; [|split; [unfold rs_pop_same; cbn; repeat split; try reflexivity; exact Ef|]].
      * unfold rs_wf. cbn [rs_set_pend rs_pend_u rs_pend_o rs_fifo rs_sel_o]. rewrite Ef.
        split; [exact Hu|]. split; [exact Hr|]. split; [discriminate|]. split; [intros _; exact Hrest|exact Hnm].
      * split; [apply in_or_app; right; left; reflexivity|].
        split; [intros x Hx; apply in_app_or in Hx; apply in_or_app; destruct Hx as [Hx|Hx]; [left; exact Hx|right; right; exact Hx]|].
        split; [intros x Hx; apply in_app_or in Hx; destruct Hx as [Hx|[Hx|Hx]];
                [right; apply in_or_app; left; exact Hx|left; symmetry; exact Hx|right; apply in_or_app; right; exact Hx]|].
        intros Hmark. destruct (Hmk Hmark) as [Hb1 _]. rewrite Hb1 in Hb. discriminate.
    + destruct (rs_pend_u e) as [|cu ru] eqn:Eu.
      * destruct (rs_pend_o e) as [|c0 r] eqn:Eo; [discriminate|]. inversion H; subst. clear H.
        destruct (rs_sorted_tail_gt _ _ Ho) as [Hr Hgt]. cbn [rs_frag_ok] in Hm. destruct Hm as (Hb & Hmk & Hrest).
        cbn [rs_set_pend rs_pend_u rs_pend_o rs_fifo rs_sel_o app].
        split; [|split; [unfold rs_pop_same; cbn; repeat split; try reflexivity; exact Ef|]].
        -- unfold rs_wf. cbn [rs_set_pend rs_pend_u rs_pend_o rs_fifo rs_sel_o]. rewrite Ef.
           split; [constructor|]. split; [exact Hr|]. split; [discriminate|]. split; [intros _; exact Hrest|intros x []].
        -- split; [left; reflexivity|]. split; [intros x Hx; right; exact Hx|].
           split; [intros x [Hx|Hx]; [left; symmetry; exact Hx|right; exact Hx]|]. intros _. exact Hgt.
      * inversion H; subst. clear H. destruct (rs_sorted_tail_gt _ _ Hu) as [Hr Hgt].
        cbn [rs_set_pend rs_pend_u rs_pend_o rs_fifo rs_sel_o].
        split; [|split; [unfold rs_pop_same; cbn; repeat split; try reflexivity; exact Ef|]].
        -- unfold rs_wf. cbn [rs_set_pend rs_pend_u rs_pend_o rs_fifo rs_sel_o]. rewrite Ef.
           split; [exact Hr|]. split; [exact Ho|]. split; [discriminate|]. split; [intros _; exact Hm|].
           intros x Hx. apply Hnm. right. exact Hx.
        -- split; [left; reflexivity|]. split; [intros x Hx; right; exact Hx|].
           split; [intros x [Hx|Hx]; [left; symmetry; exact Hx|right; exact Hx]|].
           intros Hmark. rewrite (Hnm c (or_introl eq_refl)) in Hmark. discriminate.
Qed.

Lemma rs_pop_same_trans a b c : rs_pop_same a b -> rs_pop_same b c -> rs_pop_same a c.
Proof. unfold rs_pop_same. intros (A1 & A2 & A3 & A4 & A5 & A6 & A7 & A8) (B1 & B2 & B3 & B4 & B5 & B6 & B7 & B8). repeat split; congruence. Qed.

Lemma rs_pop_same_refl a : rs_pop_same a a.
Proof. unfold rs_pop_same. repeat split; reflexivity. Qed.

(* markers popped at the head *)
Lemma rs_skip_markers_wf : forall n e acc n' e' acc', rs_wf e -> rs_skip_markers n e acc = (n', e', acc') ->
  rs_wf e' /\ rs_pop_same e e' /\ exists d, acc' = acc ++ d /\
  (forall x, In x (rs_pend_all e') -> In x (rs_pend_all e)) /\
  (forall x, In x (rs_pend_all e) -> In x (rs_pend_all e') \/ (rs_is_marker x = true /\ In (rs_pc_id x) d)) /\
  (forall m, In m d -> forall x, In x (rs_pend_all e') -> m < rs_pc_id x) /\
  (forall m, In m d -> exists x, In x (rs_pend_all e) /\ rs_pc_id x = m /\ rs_is_marker x = true).
Proof.
  induction n as [|n IH]; cbn [rs_skip_markers]; intros e acc n' e' acc' Hwf H.
  - inversion H; subst. split; [exact Hwf|]. split; [apply rs_pop_same_refl|]. exists []. rewrite app_nil_r.
    split; [reflexivity|]. split; [auto|]. split; [auto|]. split; intros m [].
  - destruct (rs_pop_head e) as [[c e1]|] eqn:Ep.
    + destruct (rs_is_marker c) eqn:Em.
      * destruct (rs_pop_head_wf _ _ _ Hwf Ep) as (Hwf1 & Hs1 & Hin & Hsub & Hsup & Hgt).
        destruct (IH _ _ _ _ _ Hwf1 H) as (Hwf' & Hs' & d & Hd & Hsub' & Hsup' & Hgt' & Hfrom').
        split; [exact Hwf'|]. split; [eapply rs_pop_same_trans; eassumption|]. exists (rs_pc_id c :: d).
        split; [rewrite Hd, <- app_assoc; reflexivity|].
        split; [intros x Hx; apply Hsub, Hsub'; exact Hx|].
        split.
        { intros x Hx. destruct (Hsup x Hx) as [Hx1|Hx1]; [subst; right; split; [exact Em|left; reflexivity]|].
          destruct (Hsup' x Hx1) as [Hx2|[Hx2 Hx3]]; [left; exact Hx2|right; split; [exact Hx2|right; exact Hx3]]. }
        split.
        -- intros m [Hm|Hm] x Hx; [subst; apply (Hgt Em); apply Hsub'; exact Hx|apply (Hgt' m Hm x Hx)].
        -- intros m [Hm|Hm]; [subst; exists c; split; [exact Hin|split; [reflexivity|exact Em]]|].
           destruct (Hfrom' m Hm) as (x & Hx1 & Hx2 & Hx3). exists x. split; [apply Hsub; exact Hx1|split; assumption].
      * inversion H; subst. split; [exact Hwf|]. split; [apply rs_pop_same_refl|]. exists []. rewrite app_nil_r.
        split; [reflexivity|]. split; [auto|]. split; [auto|]. split; intros m [].
    + inversion H; subst. split; [exact Hwf|]. split; [apply rs_pop_same_refl|]. exists []. rewrite app_nil_r.
      split; [reflexivity|]. split; [auto|]. split; [auto|]. split; intros m [].
Qed.

Definition rs_wf_tsn (e e' : rs_ep) (k : Z) : Prop :=
  rs_obj e' = rs_obj e /\ rs_present e' = rs_present e /\ rs_estab e' = rs_estab e /\ rs_fifo e' = rs_fifo e /\
  rs_next_tsn e' = wrap32 (rs_next_tsn e + k) /\ rs_next_rsn e' = rs_next_rsn e /\ rs_reconfigs e' = rs_reconfigs e /\
  rs_will_rtx e' = rs_will_rtx e.

(* the data pops of one gather *)
Lemma rs_gather_items_wf : forall items need e pos sent marks need' e' sent' marks',
  rs_wf e -> in32 (rs_next_tsn e) -> rs_gather_items items need e pos sent marks = Some (need', e', sent', marks') ->
  rs_wf e' /\ rs_wf_tsn e e' (Z.of_nat (length items)) /\
  exists ds dm, sent' = sent ++ ds /\ marks' = marks ++ dm /\
  (forall x, In x (rs_pend_all e') -> In x (rs_pend_all e)) /\
  (forall x, In x (rs_pend_all e) -> In x (rs_pend_all e') \/
     (rs_is_marker x = false /\ exists tsn p, In (rs_pc_id x, tsn, p) ds) \/ (rs_is_marker x = true /\ In (rs_pc_id x) dm)) /\
  (forall m, In m dm -> forall x, In x (rs_pend_all e') -> m < rs_pc_id x) /\
  (forall id tsn p, In (id, tsn, p) ds -> pos <= p < pos + Z.of_nat (length items) /\ tsn = wrap32 (rs_next_tsn e + (p - pos))) /\
  (forall m, In m dm -> exists x, In x (rs_pend_all e) /\ rs_pc_id x = m /\ rs_is_marker x = true).
Proof.
  induction items as [|it r IH]; intros need e pos sent marks need' e' sent' marks' Hwf Hin H.
  - cbn [rs_gather_items] in H. inversion H; subst. split; [exact Hwf|].
    split.
    { unfold rs_wf_tsn. cbn [length Z.of_nat]. rewrite Z.add_0_r. repeat split; try reflexivity.
      unfold wrap32, in32 in *. symmetry. apply Z.mod_small. lia. }
    exists [], []. rewrite !app_nil_r. split; [reflexivity|]. split; [reflexivity|]. split; [auto|]. split; [auto|].
    split; [intros m []|]. split; [intros id tsn p []|intros m []].
  - cbn [rs_gather_items] in H. destruct it as [|len un].
    + (* a chunk of another stream takes the next TSN *)
      set (e1 := rs_set_snd e (wrap32 (rs_next_tsn e + 1)) (rs_next_rsn e) (rs_reconfigs e) (rs_will_rtx e)) in *.
      assert (Hwf1 : rs_wf e1) by exact Hwf.
      assert (Hin1 : in32 (rs_next_tsn e1)) by (unfold e1, in32, wrap32; cbn; lia).
      destruct (IH _ _ _ _ _ _ _ _ _ Hwf1 Hin1 H) as (Hwf' & Ht & ds & dm & Hs & Hm & Hsub & Hsup & Hgt & Hpos & Hfrom).
      split; [exact Hwf'|]. split.
      { destruct Ht as (T1 & T2 & T3 & T4 & T5 & T6 & T7 & T8). unfold rs_wf_tsn. cbn [e1 rs_set_snd rs_obj rs_present rs_estab rs_fifo rs_next_tsn rs_next_rsn rs_reconfigs rs_will_rtx] in *.
        repeat split; try assumption. rewrite T5. cbn [length]. unfold wrap32. rewrite Nat2Z.inj_succ. lia. }
      exists ds, dm. split; [exact Hs|]. split; [exact Hm|]. split; [exact Hsub|]. split; [exact Hsup|]. split; [exact Hgt|].
      split; [|exact Hfrom].
      intros id tsn p Hp. destruct (Hpos id tsn p Hp) as [Hp1 Hp2]. cbn [length]. rewrite Nat2Z.inj_succ. split; [lia|].
      rewrite Hp2. unfold e1. cbn [rs_set_snd rs_next_tsn]. unfold wrap32. lia.
    + destruct (rs_skip_markers need e marks) as [[need1 e1] marks1] eqn:Ek.
      destruct (rs_skip_markers_wf _ _ _ _ _ _ Hwf Ek) as (Hwf1 & Hs1 & d1 & Hd1 & Hsub1 & Hsup1 & Hgt1 & Hfrom1).
      destruct (rs_pop_head e1) as [[c e2]|] eqn:Ep; [|discriminate].
      destruct (rs_pop_head_wf _ _ _ Hwf1 Ep) as (Hwf2 & Hs2 & Hcin & Hsub2 & Hsup2 & _).
      destruct (negb (rs_is_marker c) && (rs_pc_len c =? len) && Bool.eqb (rs_pc_unord c) un)%bool eqn:Ec; [|discriminate].
      apply andb_true_iff in Ec. destruct Ec as [Ec _]. apply andb_true_iff in Ec. destruct Ec as [Ec _].
      apply negb_true_iff in Ec.
      set (e3 := rs_set_snd e2 (wrap32 (rs_next_tsn e2 + 1)) (rs_next_rsn e2) (rs_reconfigs e2) (rs_will_rtx e2)) in *.
      assert (Hwf3 : rs_wf e3) by exact Hwf2.
      assert (Hin3 : in32 (rs_next_tsn e3)) by (unfold e3, in32, wrap32; cbn; lia).
      destruct (IH _ _ _ _ _ _ _ _ _ Hwf3 Hin3 H) as (Hwf' & Ht & ds & dm & Hs & Hm & Hsub & Hsup & Hgt & Hpos & Hfrom).
      pose proof (rs_pop_same_trans _ _ _ Hs1 Hs2) as Hs12.
      destruct Hs12 as (S1 & S2 & S3 & S4 & S5 & S6 & S7 & S8).
      split; [exact Hwf'|]. split.
      { destruct Ht as (T1 & T2 & T3 & T4 & T5 & T6 & T7 & T8). unfold rs_wf_tsn. cbn [e3 rs_set_snd rs_obj rs_present rs_estab rs_fifo rs_next_tsn rs_next_rsn rs_reconfigs rs_will_rtx] in *.
        repeat split; try congruence. rewrite T5, S5. cbn [length]. unfold wrap32. rewrite Nat2Z.inj_succ. lia. }
      exists ((rs_pc_id c, rs_next_tsn e2, pos) :: ds), (d1 ++ dm).
      split; [rewrite Hs, <- app_assoc; reflexivity|]. split; [rewrite Hm, Hd1, <- app_assoc; reflexivity|].
      split; [intros x Hx; apply Hsub1, Hsub2; exact (Hsub x Hx)|].
      split.
      { intros x Hx. destruct (Hsup1 x Hx) as [Hx1|[Hx1 Hx2]]; [|right; right; split; [exact Hx1|apply in_or_app; left; exact Hx2]].
        destruct (Hsup2 x Hx1) as [Hx2|Hx2]; [subst; right; left; split; [exact Ec|exists (rs_next_tsn e2), pos; left; reflexivity]|].
        destruct (Hsup x Hx2) as [Hx3|[[Hx3 (t & p & Hx4)]|[Hx3 Hx4]]];
          [left; exact Hx3|right; left; split; [exact Hx3|exists t, p; right; exact Hx4]|right; right; split; [exact Hx3|apply in_or_app; right; exact Hx4]]. }
      split.
      { intros m Hmm x Hx. apply in_app_or in Hmm. destruct Hmm as [Hmm|Hmm]; [|exact (Hgt m Hmm x Hx)].
        apply (Hgt1 m Hmm). apply Hsub2. exact (Hsub x Hx). }
      split.
      { intros id tsn p [Hp|Hp].
        { inversion Hp; subst. cbn [length]. rewrite Nat2Z.inj_succ. split; [lia|]. rewrite S5, Z.sub_diag, Z.add_0_r.
          unfold wrap32, in32 in *. symmetry. apply Z.mod_small. lia. }
        destruct (Hpos id tsn p Hp) as [Hp1 Hp2]. cbn [length]. rewrite Nat2Z.inj_succ. split; [lia|].
        rewrite Hp2. unfold e3. cbn [rs_set_snd rs_next_tsn]. rewrite S5. unfold wrap32. lia. }
      intros m Hmm. apply in_app_or in Hmm. destruct Hmm as [Hmm|Hmm]; [exact (Hfrom1 m Hmm)|].
      destruct (Hfrom m Hmm) as (x & Hx1 & Hx2 & Hx3). exists x. split; [apply Hsub1, Hsub2; exact Hx1|split; assumption].
Qed.

(* one whole gather *)
Lemma rs_gather_wf sid e items ids e' g :
  rs_wf e -> in32 (rs_next_tsn e) -> rs_gather sid e items ids = Some (e', g) ->
  rs_wf e' /\ rs_next_tsn e' = wrap32 (rs_next_tsn e + Z.of_nat (length items)) /\
  rs_obj e' = rs_obj e /\ rs_present e' = rs_present e /\ rs_estab e' = rs_estab e /\ rs_fifo e' = rs_fifo e /\
  (forall x, In x (rs_pend_all e') -> In x (rs_pend_all e)) /\
  (forall x, In x (rs_pend_all e) -> In x (rs_pend_all e') \/
     (rs_is_marker x = false /\ exists tsn p, In (rs_pc_id x, tsn, p) (rs_go_sent g)) \/
     (rs_is_marker x = true /\ In (rs_pc_id x) (rs_go_marks g))) /\
  (forall m, In m (rs_go_marks g) -> forall x, In x (rs_pend_all e') -> m < rs_pc_id x) /\
  (forall id tsn p, In (id, tsn, p) (rs_go_sent g) -> 0 <= p < Z.of_nat (length items) /\ tsn = wrap32 (rs_next_tsn e + p)) /\
  (forall q, rs_go_new g = Some q -> rs_q_last q = wrap32 (rs_next_tsn e + Z.of_nat (length items) - 1) /\ rs_q_ids q = ids) /\
  (rs_go_marks g <> [] -> exists q, rs_go_new g = Some q /\ In sid ids) /\
  (forall m, In m (rs_go_marks g) -> exists x, In x (rs_pend_all e) /\ rs_pc_id x = m /\ rs_is_marker x = true).
Proof.
  intros Hwf Hin H. unfold rs_gather in H.
  destruct (rs_gather_items items (count_occ Z.eq_dec ids sid) e 0 [] []) as [[[[n1 e1] s1] m1]|] eqn:Eg; [|discriminate].
  destruct (rs_gather_items_wf _ _ _ _ _ _ _ _ _ _ Hwf Hin Eg) as (Hwf1 & Ht & ds & dm & Hs & Hm & Hsub & Hsup & Hgt & Hpos & Hfrom).
  cbn [app] in Hs, Hm. subst s1 m1.
  destruct (rs_skip_markers n1 e1 dm) as [[n2 e2] m2] eqn:Ek.
  destruct (rs_skip_markers_wf _ _ _ _ _ _ Hwf1 Ek) as (Hwf2 & Hs2 & d2 & Hd2 & Hsub2 & Hsup2 & Hgt2 & Hfrom2).
  destruct n2; [|discriminate].
  assert (Hfrom12 : forall m, In m m2 -> exists x, In x (rs_pend_all e) /\ rs_pc_id x = m /\ rs_is_marker x = true).
  { intros m Hmm. rewrite Hd2 in Hmm. apply in_app_or in Hmm. destruct Hmm as [Hmm|Hmm]; [exact (Hfrom m Hmm)|].
    destruct (Hfrom2 m Hmm) as (x & Hx1 & Hx2 & Hx3). exists x. split; [apply Hsub; exact Hx1|split; assumption]. }
  destruct Ht as (T1 & T2 & T3 & T4 & T5 & T6 & T7 & T8). destruct Hs2 as (S1 & S2 & S3 & S4 & S5 & S6 & S7 & S8).
  assert (Hneed : m2 <> [] -> ids <> [] /\ In sid ids).
  { intros Hne. destruct (count_occ Z.eq_dec ids sid) eqn:Ec.
    - exfalso. apply Hne. clear - Eg Ek.
      assert (G : forall its e0 p0 s0 m0 n0' e0' s0' m0', rs_gather_items its O e0 p0 s0 m0 = Some (n0', e0', s0', m0') -> m0' = m0 /\ n0' = O).
      { induction its as [|it r IHr]; cbn [rs_gather_items]; intros e0 p0 s0 m0 n0' e0' s0' m0' Hg; [inversion Hg; subst; split; reflexivity|].
        destruct it; [eapply IHr; exact Hg|]. cbn [rs_skip_markers] in Hg. destruct (rs_pop_head e0) as [[c0 e02]|]; [|discriminate].
        destruct (_ && _)%bool; [|discriminate]. eapply IHr; exact Hg. }
      destruct (G _ _ _ _ _ _ _ _ _ Eg) as [G1 G2]. subst. cbn [rs_skip_markers] in Ek. inversion Ek; subst. reflexivity.
    - assert (Hc : (count_occ Z.eq_dec ids sid > 0)%nat) by lia. apply count_occ_In in Hc.
      split; [intros Hnil; subst; destruct Hc|exact Hc]. }
  assert (Hcommon :
    rs_wf e2 /\ rs_next_tsn e2 = wrap32 (rs_next_tsn e + Z.of_nat (length items)) /\
    rs_obj e2 = rs_obj e /\ rs_present e2 = rs_present e /\ rs_estab e2 = rs_estab e /\ rs_fifo e2 = rs_fifo e /\
    (forall x, In x (rs_pend_all e2) -> In x (rs_pend_all e)) /\
    (forall x, In x (rs_pend_all e) -> In x (rs_pend_all e2) \/
       (rs_is_marker x = false /\ exists tsn p, In (rs_pc_id x, tsn, p) ds) \/ (rs_is_marker x = true /\ In (rs_pc_id x) m2)) /\
    (forall m, In m m2 -> forall x, In x (rs_pend_all e2) -> m < rs_pc_id x) /\
    (forall id tsn p, In (id, tsn, p) ds -> 0 <= p < Z.of_nat (length items) /\ tsn = wrap32 (rs_next_tsn e + p))).
  { split; [exact Hwf2|]. split; [congruence|]. split; [congruence|]. split; [congruence|]. split; [congruence|]. split; [congruence|].
    split; [intros x Hx; exact (Hsub x (Hsub2 x Hx))|].
    split.
    { intros x Hx. destruct (Hsup x Hx) as [Hx1|[Hx1|[Hx1 Hx2]]].
      - destruct (Hsup2 x Hx1) as [Hx2|[Hx2 Hx3]]; [left; exact Hx2|right; right; split; [exact Hx2|rewrite Hd2; apply in_or_app; right; exact Hx3]].
      - right; left; exact Hx1.
      - right; right; split; [exact Hx1|rewrite Hd2; apply in_or_app; left; exact Hx2]. }
    split.
    { intros m Hmm x Hx. rewrite Hd2 in Hmm. apply in_app_or in Hmm. destruct Hmm as [Hmm|Hmm]; [apply (Hgt m Hmm); exact (Hsub2 x Hx)|exact (Hgt2 m Hmm x Hx)]. }
    intros id tsn p Hp. destruct (Hpos id tsn p Hp) as [P1 P2]. split; [lia|]. rewrite P2. f_equal. lia. }
  destruct Hcommon as (C1 & C2 & C3 & C4 & C5 & C6 & C7 & C8 & C9 & C10).
  destruct ids as [|i0 ids'].
  - inversion H; subst. cbn [rs_go_sent rs_go_marks rs_go_new rs_set_snd rs_next_tsn rs_obj rs_present rs_estab rs_fifo].
    split; [exact C1|]. split; [exact C2|]. split; [exact C3|]. split; [exact C4|]. split; [exact C5|]. split; [exact C6|].
    split; [exact C7|]. split; [exact C8|]. split; [exact C9|]. split; [exact C10|]. split; [intros q Hq; discriminate|].
    split; [|exact Hfrom12].
    intros Hne. destruct (Hneed Hne) as [Hx _]. exfalso. apply Hx. reflexivity.
  - inversion H; subst. cbn [rs_go_sent rs_go_marks rs_go_new rs_set_snd rs_next_tsn rs_obj rs_present rs_estab rs_fifo].
    split; [exact C1|]. split; [exact C2|]. split; [exact C3|]. split; [exact C4|]. split; [exact C5|]. split; [exact C6|].
    split; [exact C7|]. split; [exact C8|]. split; [exact C9|]. split; [exact C10|].
    split.
    { intros q Hq. inversion Hq; subst. cbn. split; [|reflexivity]. rewrite C2. unfold wrap32. lia. }
    split; [|exact Hfrom12].
    intros Hne. eexists. split; [reflexivity|]. exact (proj2 (Hneed Hne)).
Qed.

(* ---------------------------------------------------------------- histories with unbounded ghost indices *)

Record rs_gh := mkRsGh {
  rs_g_n : Z;                   (* number of TSNs assigned so far (unbounded) *)
  rs_g_written : list Z;        (* labels of the data chunks of accepted writes on the stream *)
  rs_g_sent : list (Z * Z);     (* (label, index of its TSN) *)
  rs_g_marks : list (Z * Z);    (* (label of a popped marker, index of the senderLastTSN of its request) *)
  rs_g_label : Z                (* labels below this one are used *)
}.

Definition rs_label_seq (id : Z) (n : nat) : list Z := map (fun i => id + Z.of_nat i) (seq 0 n).

(* labels are fresh and increasing (they stand for the order of the application's calls); fragments are
   non-empty (packetize) *)
Definition rs_ev_ok (gh : rs_gh) (ev : rs_ev) : Prop :=
  match ev with
  | RsVWrite id _ _ frags => rs_g_label gh <= id /\ Forall (fun n => 0 < n) frags
  | RsVClose id => rs_g_label gh <= id
  | _ => True
  end.

Definition rs_gh_step (gh : rs_gh) (ev : rs_ev) (out : rs_out) : rs_gh :=
  match ev with
  | RsVWrite id _ _ frags =>
    if rs_o_ok out then
      mkRsGh (rs_g_n gh) (rs_g_written gh ++ rs_label_seq id (length frags)) (rs_g_sent gh) (rs_g_marks gh) (id + Z.of_nat (length frags))
    else gh
  | RsVClose id => mkRsGh (rs_g_n gh) (rs_g_written gh) (rs_g_sent gh) (rs_g_marks gh) (id + 1)
  | RsVGather items _ =>
    match rs_o_gout out with
    | Some g =>
      mkRsGh (rs_g_n gh + Z.of_nat (length items)) (rs_g_written gh)
             (rs_g_sent gh ++ map (fun x => (fst (fst x), rs_g_n gh + snd x)) (rs_go_sent g))
             (rs_g_marks gh ++ map (fun m => (m, rs_g_n gh + Z.of_nat (length items) - 1)) (rs_go_marks g))
             (rs_g_label gh)
    | None => gh
    end
  | _ => gh
  end.

Inductive rs_reach (sid : Z) : rs_ep -> rs_gh -> rs_ep -> rs_gh -> Prop :=
| rs_reach_refl e gh : rs_reach sid e gh e gh
| rs_reach_step e gh e1 gh1 ev e2 out :
    rs_reach sid e gh e1 gh1 -> rs_ev_ok gh1 ev -> rs_ep_step sid e1 ev = Some (e2, out) ->
    rs_reach sid e gh e2 (rs_gh_step gh1 ev out).

Definition rs_ainv (t0 : Z) (e : rs_ep) (gh : rs_gh) : Prop :=
  rs_wf e /\ rs_next_tsn e = wrap32 (t0 + rs_g_n gh) /\
  (forall c, In c (rs_pend_all e) -> rs_pc_id c < rs_g_label gh) /\
  (forall id, In id (rs_g_written gh) -> id < rs_g_label gh) /\
  (forall m L, In (m, L) (rs_g_marks gh) -> m < rs_g_label gh /\ L < rs_g_n gh) /\
  (forall id, In id (rs_g_written gh) ->
     (exists c, In c (rs_pend_all e) /\ rs_pc_id c = id /\ rs_is_marker c = false) \/ exists k, In (id, k) (rs_g_sent gh)) /\
  (forall id k, In (id, k) (rs_g_sent gh) -> k < rs_g_n gh) /\
  (forall m L, In (m, L) (rs_g_marks gh) -> forall id, In id (rs_g_written gh) -> id < m ->
     exists k, In (id, k) (rs_g_sent gh) /\ k <= L).

Lemma rs_wf_same e e' : rs_pend_u e' = rs_pend_u e -> rs_pend_o e' = rs_pend_o e -> rs_sel_o e' = rs_sel_o e ->
  rs_fifo e' = rs_fifo e -> rs_wf e -> rs_wf e'.
Proof. unfold rs_wf. intros A B C D. rewrite A, B, C, D. auto. Qed.

Lemma rs_ainv_same t0 e e' gh : rs_pend_u e' = rs_pend_u e -> rs_pend_o e' = rs_pend_o e -> rs_sel_o e' = rs_sel_o e ->
  rs_fifo e' = rs_fifo e -> rs_next_tsn e' = rs_next_tsn e -> rs_ainv t0 e gh -> rs_ainv t0 e' gh.
Proof.
  intros A B C D E (I1 & I2 & I3 & I4 & I5 & I6 & I7 & I8). unfold rs_ainv, rs_pend_all in *. rewrite A, B, E.
  split; [eapply rs_wf_same; eassumption|]. exact (conj I2 (conj I3 (conj I4 (conj I5 (conj I6 (conj I7 I8)))))).
Qed.

Lemma rs_mk_frags_ids : forall frags id unord first,
  map rs_pc_id (rs_mk_frags id unord first frags) = rs_label_seq id (length frags).
Proof.
  induction frags as [|n r IH]; intros id unord first; [reflexivity|].
  cbn [rs_mk_frags map length]. unfold rs_label_seq. cbn [seq map]. rewrite Z.add_0_r. f_equal.
  rewrite IH. unfold rs_label_seq. rewrite <- seq_shift, map_map. apply map_ext. intros i. lia.
Qed.

Lemma rs_label_seq_range id n x : In x (rs_label_seq id n) -> id <= x < id + Z.of_nat n.
Proof. unfold rs_label_seq. rewrite in_map_iff. intros (i & Hi & Hs). apply in_seq in Hs. lia. Qed.

Lemma rs_mk_frags_data : forall frags id unord first c, Forall (fun n => 0 < n) frags ->
  In c (rs_mk_frags id unord first frags) -> rs_is_marker c = false /\ id <= rs_pc_id c < id + Z.of_nat (length frags).
Proof.
  induction frags as [|n r IH]; intros id unord first c Hf Hc; [destruct Hc|].
  inversion Hf as [|? ? Hn Hr]; subst. cbn [rs_mk_frags length] in *. rewrite Nat2Z.inj_succ. destruct Hc as [Hc|Hc].
  - subst. cbn. unfold rs_is_marker. cbn. split; lia.
  - destruct (IH _ _ _ _ Hr Hc) as [A B]. split; [exact A|lia].
Qed.

Lemma rs_mk_frags_sorted : forall frags id unord first, rs_ids_sorted (rs_mk_frags id unord first frags).
Proof.
  induction frags as [|n r IH]; intros id unord first; [constructor|]. cbn [rs_mk_frags]. constructor; [apply IH|].
  rewrite Forall_forall. intros x Hx. cbn [rs_pc_id].
  assert (Hm : In (rs_pc_id x) (map rs_pc_id (rs_mk_frags (id + 1) unord false r))) by (apply in_map; exact Hx).
  rewrite rs_mk_frags_ids in Hm. apply rs_label_seq_range in Hm. lia.
Qed.

Lemma rs_mk_frags_frag_ok : forall frags id unord first, Forall (fun n => 0 < n) frags -> (frags = [] -> first = true) ->
  rs_frag_ok (negb first) (rs_mk_frags id unord first frags).
Proof.
  induction frags as [|n r IH]; intros id unord first Hf Hfirst.
  - cbn. rewrite (Hfirst eq_refl). reflexivity.
  - inversion Hf as [|? ? Hn Hr]; subst. cbn [rs_mk_frags rs_frag_ok rs_pc_beg rs_pc_end]. split; [destruct first; reflexivity|].
    split; [unfold rs_is_marker; cbn; intros Hm; lia|].
    destruct r as [|n2 r2]; [cbn; reflexivity|]. apply (IH (id + 1) unord false Hr). discriminate.
Qed.

Lemma rs_frag_ok_app : forall o sel cs, rs_frag_ok sel o -> rs_frag_ok false cs -> rs_frag_ok sel (o ++ cs).
Proof.
  induction o as [|c r IH]; intros sel cs Ho Hc; cbn [app rs_frag_ok] in *; [subst; exact Hc|].
  destruct Ho as (A & B & C). split; [exact A|]. split; [exact B|]. apply IH; assumption.
Qed.

Lemma rs_sorted_app (l cs : list rs_pchunk) : rs_ids_sorted l -> rs_ids_sorted cs ->
  (forall a b, In a l -> In b cs -> rs_pc_id a < rs_pc_id b) -> rs_ids_sorted (l ++ cs).
Proof.
  unfold rs_ids_sorted. induction l as [|h t IH]; intros Hl Hc Hlt; cbn [app]; [exact Hc|].
  inversion Hl as [|? ? Ht Hh]; subst. constructor.
  - apply IH; [exact Ht|exact Hc|]. intros a b Ha Hb. apply Hlt; [right; exact Ha|exact Hb].
  - rewrite Forall_forall in *. intros x Hx. apply in_app_or in Hx. destruct Hx as [Hx|Hx]; [apply Hh; exact Hx|apply Hlt; [left; reflexivity|exact Hx]].
Qed.

(* appending fresh chunks cs (labels >= the label bound) to one of the two sub-queues *)
Lemma rs_ainv_step t0 sid e gh ev e' out :
  rs_ainv t0 e gh -> rs_ev_ok gh ev -> rs_ep_step sid e ev = Some (e', out) -> rs_ainv t0 e' (rs_gh_step gh ev out).
Proof.
  intros Hinv Hok H. destruct ev; cbn [rs_ep_step] in H; cbn [rs_gh_step].
  - (* open *) inversion H; subst. unfold rs_open. destruct (rs_present e); [exact Hinv|]. eapply rs_ainv_same; try exact Hinv; reflexivity.
  - (* write *)
    destruct (rs_write e id il unord frags) as [e1 ok] eqn:Ew. inversion H; subst. clear H. cbn [rs_o_ok].
    unfold rs_write in Ew. destruct (negb (rs_state (rs_obj e) =? rs_st_open)); [inversion Ew; subst; exact Hinv|].
    destruct (negb (rs_estab e)); [inversion Ew; subst; exact Hinv|].
    destruct Hok as [Hlab Hpos]. destruct Hinv as (I1 & I2 & I3 & I4 & I5 & I6 & I7 & I8).
    destruct I1 as (W1 & W2 & W3 & W4 & W5).
    set (cs := rs_mk_frags id unord true frags) in *.
    assert (Hcs : forall c, In c cs -> rs_is_marker c = false /\ id <= rs_pc_id c < id + Z.of_nat (length frags))
      by (intros c Hc; eapply rs_mk_frags_data; [exact Hpos|exact Hc]).
    assert (Hnew : forall x, In x (rs_label_seq id (length frags)) -> exists c, In c cs /\ rs_pc_id c = x /\ rs_is_marker c = false).
    { intros x Hx. unfold cs. rewrite <- (rs_mk_frags_ids frags id unord true) in Hx. apply in_map_iff in Hx.
      destruct Hx as (c & Hc1 & Hc2). exists c. split; [exact Hc2|]. split; [exact Hc1|]. apply (Hcs c Hc2). }
    assert (Hgen : forall u o sel, 
        (rs_pend_u e' = u /\ rs_pend_o e' = o /\ rs_sel_o e' = sel /\ rs_fifo e' = rs_fifo e /\ rs_next_tsn e' = rs_next_tsn e) ->
        (forall x, In x (u ++ o) <-> In x (rs_pend_all e) \/ In x cs) ->
        rs_wf e' ->
        rs_ainv t0 e' (mkRsGh (rs_g_n gh) (rs_g_written gh ++ rs_label_seq id (length frags)) (rs_g_sent gh) (rs_g_marks gh) (id + Z.of_nat (length frags)))).
    { intros u o sel (E1 & E2 & E3 & E4 & E5) Hmem Hwf1. unfold rs_ainv. cbn [rs_g_n rs_g_written rs_g_sent rs_g_marks rs_g_label].
      unfold rs_pend_all at 1 2. rewrite E1, E2, E5.
      split; [exact Hwf1|]. split; [exact I2|].
      split. { intros c Hc. apply Hmem in Hc. destruct Hc as [Hc|Hc]; [specialize (I3 c Hc); lia|destruct (Hcs c Hc); lia]. }
      split. { intros x Hx. apply in_app_or in Hx. destruct Hx as [Hx|Hx]; [specialize (I4 x Hx); lia|apply rs_label_seq_range in Hx; lia]. }
      split. { intros m L HmL. destruct (I5 m L HmL). split; lia. }
      split. { intros x Hx. apply in_app_or in Hx. destruct Hx as [Hx|Hx].
        - destruct (I6 x Hx) as [(c & Hc1 & Hc2 & Hc3)|Hs]; [left; exists c; split; [apply Hmem; left; exact Hc1|split; assumption]|right; exact Hs].
        - destruct (Hnew x Hx) as (c & Hc1 & Hc2 & Hc3). left. exists c. split; [apply Hmem; right; exact Hc1|split; assumption]. }
      split; [exact I7|].
      intros m L HmL x Hx Hlt. apply in_app_or in Hx. destruct Hx as [Hx|Hx]; [exact (I8 m L HmL x Hx Hlt)|].
      apply rs_label_seq_range in Hx. destruct (I5 m L HmL). lia. }
    assert (Hlt : forall a b, In a (rs_pend_all e) -> In b cs -> rs_pc_id a < rs_pc_id b).
    { intros a b Ha Hb. specialize (I3 a Ha). destruct (Hcs b Hb). lia. }
    destruct (rs_fifo e || negb unord)%bool eqn:Ef; inversion Ew; subst; clear Ew.
    + (* appended to the ordered sub-queue / per-stream queue *)
      apply (Hgen (rs_pend_u e) (rs_pend_o e ++ cs) (rs_sel_o e)); [cbn; repeat split; reflexivity| |].
      * intros x. unfold rs_pend_all. rewrite !in_app_iff. tauto.
      * unfold rs_wf. cbn [rs_set_pend rs_set_obj rs_pend_u rs_pend_o rs_fifo rs_sel_o].
        split; [exact W1|]. split; [apply rs_sorted_app; [exact W2|apply rs_mk_frags_sorted|]|].
        { intros a b Ha Hb. apply Hlt; [unfold rs_pend_all; apply in_or_app; right; exact Ha|exact Hb]. }
        split; [exact W3|]. split; [|exact W5].
        intros Hff. apply rs_frag_ok_app; [exact (W4 Hff)|]. apply (rs_mk_frags_frag_ok frags id unord true Hpos). reflexivity.
    + (* unordered data under the message policy *)
      apply orb_false_iff in Ef. destruct Ef as [Ef1 Ef2].
      apply (Hgen (rs_pend_u e ++ cs) (rs_pend_o e) (rs_sel_o e)); [cbn; repeat split; reflexivity| |].
      * intros x. unfold rs_pend_all. rewrite !in_app_iff. tauto.
      * unfold rs_wf. cbn [rs_set_pend rs_set_obj rs_pend_u rs_pend_o rs_fifo rs_sel_o].
        split; [apply rs_sorted_app; [exact W1|apply rs_mk_frags_sorted|]|].
        { intros a b Ha Hb. apply Hlt; [unfold rs_pend_all; apply in_or_app; left; exact Ha|exact Hb]. }
        split; [exact W2|]. split; [intros Hff; rewrite Hff in Ef1; discriminate|]. split; [exact W4|].
        intros c Hc. apply in_app_or in Hc. destruct Hc as [Hc|Hc]; [exact (W5 c Hc)|apply (Hcs c Hc)].
  - (* close *)
    destruct (rs_close e id) as [e1 ok] eqn:Ec. inversion H; subst. clear H.
    cbn [rs_ev_ok] in Hok. destruct Hinv as (I1 & I2 & I3 & I4 & I5 & I6 & I7 & I8).
    assert (Hlabel : forall e2, rs_pend_u e2 = rs_pend_u e -> rs_pend_o e2 = rs_pend_o e -> rs_sel_o e2 = rs_sel_o e ->
              rs_fifo e2 = rs_fifo e -> rs_next_tsn e2 = rs_next_tsn e ->
              rs_ainv t0 e2 (mkRsGh (rs_g_n gh) (rs_g_written gh) (rs_g_sent gh) (rs_g_marks gh) (id + 1))).
    { intros e2 A B C D E. unfold rs_ainv, rs_pend_all. cbn [rs_g_n rs_g_written rs_g_sent rs_g_marks rs_g_label]. rewrite A, B, E.
      split; [eapply rs_wf_same; eassumption|]. split; [exact I2|].
      split; [intros c Hc; specialize (I3 c Hc); lia|]. split; [intros x Hx; specialize (I4 x Hx); lia|].
      split; [intros m L HmL; destruct (I5 m L HmL); split; lia|]. repeat split; assumption. }
    unfold rs_close in Ec. destruct (rs_state (rs_obj e) =? rs_st_open); [|inversion Ec; subst; apply Hlabel; reflexivity].
    destruct (rs_estab e); [|inversion Ec; subst; apply Hlabel; reflexivity].
    inversion Ec; subst. clear Ec. destruct I1 as (W1 & W2 & W3 & W4 & W5).
    unfold rs_ainv, rs_pend_all. cbn [rs_set_pend rs_set_obj rs_pend_u rs_pend_o rs_next_tsn rs_g_n rs_g_written rs_g_sent rs_g_marks rs_g_label].
    split.
    { unfold rs_wf. cbn [rs_set_pend rs_set_obj rs_pend_u rs_pend_o rs_fifo rs_sel_o].
      split; [exact W1|]. split.
      { apply rs_sorted_app; [exact W2|constructor; constructor|]. intros a b Ha [Hb|[]]. subst. cbn.
        assert (Hi : In a (rs_pend_all e)) by (unfold rs_pend_all; apply in_or_app; right; exact Ha). specialize (I3 a Hi). lia. }
      split; [exact W3|]. split; [|exact W5]. intros Hff. apply rs_frag_ok_app; [exact (W4 Hff)|].
      cbn. repeat split; reflexivity. }
    split; [exact I2|].
    split. { intros c Hc. rewrite app_assoc in Hc. apply in_app_or in Hc. destruct Hc as [Hc|[Hc|[]]]; [specialize (I3 c Hc); lia|subst; cbn; lia]. }
    split; [intros x Hx; specialize (I4 x Hx); lia|].
    split; [intros m L HmL; destruct (I5 m L HmL); split; lia|].
    split. { intros x Hx. destruct (I6 x Hx) as [(c & Hc1 & Hc2 & Hc3)|Hs]; [|right; exact Hs].
      left. exists c. split; [|split; assumption]. rewrite app_assoc. apply in_or_app. left. exact Hc1. }
    split; assumption.
  - (* read *) unfold rs_read in H. destruct (rs_read_strm (rs_obj e)). inversion H; subst. eapply rs_ainv_same; try exact Hinv; reflexivity.
  - (* gather *)
    destruct (rs_gather sid e items ids) as [[e1 g]|] eqn:Eg; [|discriminate]. inversion H; subst. clear H. cbn [rs_o_gout].
    destruct Hinv as (I1 & I2 & I3 & I4 & I5 & I6 & I7 & I8).
    assert (Hin : in32 (rs_next_tsn e)) by (rewrite I2; unfold in32, wrap32; lia).
    destruct (rs_gather_wf _ _ _ _ _ _ I1 Hin Eg) as (G1 & G2 & _ & _ & _ & _ & G7 & G8 & G9 & G10 & G11 & G12 & G13).
    unfold rs_ainv. cbn [rs_g_n rs_g_written rs_g_sent rs_g_marks rs_g_label].
    split; [exact G1|].
    split. { rewrite G2, I2. unfold wrap32. lia. }
    split; [intros c Hc; apply I3, G7; exact Hc|]. split; [exact I4|].
    assert (Hlen : 0 <= Z.of_nat (length items)) by lia.
    split.
    { intros m L HmL. apply in_app_or in HmL. destruct HmL as [HmL|HmL]; [destruct (I5 m L HmL); split; lia|].
      apply in_map_iff in HmL. destruct HmL as (m0 & Hm0 & Hm1). inversion Hm0; subst.
      destruct (G13 m Hm1) as (x & Hx1 & Hx2 & _). specialize (I3 x Hx1). split; lia. }
    split.
    { intros x Hx. destruct (I6 x Hx) as [(c & Hc1 & Hc2 & Hc3)|(k & Hk)]; [|right; exists k; apply in_or_app; left; exact Hk].
      destruct (G8 c Hc1) as [Hc4|[[_ (tsn & p & Hc4)]|[Hc4 _]]].
      - left. exists c. repeat split; assumption.
      - right. exists (rs_g_n gh + p). apply in_or_app. right. apply in_map_iff. exists (rs_pc_id c, tsn, p). split; [cbn; rewrite Hc2; reflexivity|exact Hc4].
      - rewrite Hc3 in Hc4. discriminate. }
    split.
    { intros x k Hk. apply in_app_or in Hk. destruct Hk as [Hk|Hk]; [specialize (I7 x k Hk); lia|].
      apply in_map_iff in Hk. destruct Hk as ([[i t] p] & Hp0 & Hp1). cbn in Hp0. inversion Hp0; subst.
      destruct (G10 _ _ _ Hp1). lia. }
    intros m L HmL x Hx Hlt. apply in_app_or in HmL. destruct HmL as [HmL|HmL].
    { destruct (I8 m L HmL x Hx Hlt) as (k & Hk1 & Hk2). exists k. split; [apply in_or_app; left; exact Hk1|exact Hk2]. }
    apply in_map_iff in HmL. destruct HmL as (m0 & Hm0 & Hm1). inversion Hm0; subst. clear Hm0.
    destruct (I6 x Hx) as [(c & Hc1 & Hc2 & Hc3)|(k & Hk)].
    + destruct (G8 c Hc1) as [Hc4|[[_ (tsn & p & Hc4)]|[Hc4 _]]].
      * specialize (G9 m Hm1 c Hc4). lia.
      * exists (rs_g_n gh + p). split; [|destruct (G10 _ _ _ Hc4); lia].
        apply in_or_app. right. apply in_map_iff. exists (rs_pc_id c, tsn, p). split; [cbn; rewrite Hc2; reflexivity|exact Hc4].
      * rewrite Hc3 in Hc4. discriminate.
    + exists k. split; [apply in_or_app; left; exact Hk|]. specialize (I7 x k Hk). lia.
  - (* timer *) inversion H; subst. eapply rs_ainv_same; try exact Hinv; reflexivity.
  - (* response *)
    inversion H; subst. eapply rs_ainv_same; try exact Hinv; unfold rs_recv_response;
      (destruct (result =? c_reconfigResultInProgress); [reflexivity|]); cbn [fst];
      (destruct (result =? c_reconfigResultSuccessPerformed); [|reflexivity]);
      (destruct (rs_req_get (rs_reconfigs e) rsn); [|reflexivity]);
      (destruct (rs_mem sid (rs_q_ids r) && rs_present e && negb (rs_state (rs_obj e) =? rs_st_open))%bool; reflexivity).
  - (* request *)
    destruct (rs_recv_request sid e q) as [[e1 r]|] eqn:E; inversion H; subst; [|exact Hinv].
    destruct (rs_recv_request_snd _ _ _ _ _ E) as (_ & _ & A3 & _ & A5 & A6 & A7 & A8 & _). eapply rs_ainv_same; try exact Hinv; assumption.
  - (* DATA *)
    destruct (rs_recv_data sid e tsn mine simple ssn) as [e1 rs] eqn:E; inversion H; subst.
    destruct (rs_recv_data_snd _ _ _ _ _ _ _ _ E) as (_ & _ & A3 & _ & A5 & A6 & A7 & A8 & _). eapply rs_ainv_same; try exact Hinv; assumption.
  - (* FORWARD-TSN *)
    destruct (rs_recv_fwd sid e newcum skip) as [e1 rs] eqn:E; inversion H; subst.
    destruct (rs_recv_fwd_snd _ _ _ _ _ _ E) as (_ & _ & A3 & _ & A5 & A6 & A7 & A8 & _). eapply rs_ainv_same; try exact Hinv; assumption.
Qed.

Lemma rs_ainv_reach t0 sid e gh e' gh' : rs_ainv t0 e gh -> rs_reach sid e gh e' gh' -> rs_ainv t0 e' gh'.
Proof. intros Hi Hr. induction Hr as [|e gh e1 gh1 ev e2 out Hr IH Hok Hs]; [exact Hi|]. eapply rs_ainv_step; [apply IH; exact Hi|exact Hok|exact Hs]. Qed.

Definition rs_gh0 : rs_gh := mkRsGh 0 [] [] [] 0.

Lemma rs_ainv_init fifo t0 p : in32 t0 -> rs_ainv t0 (rs_ep_init fifo t0 p) rs_gh0.
Proof.
  intros Ht. unfold rs_ainv, rs_ep_init, rs_gh0, rs_pend_all. cbn.
  split. { unfold rs_wf. cbn. split; [constructor|]. split; [constructor|]. split; [reflexivity|]. split; [reflexivity|]. intros c []. }
  split; [unfold wrap32, in32 in *; rewrite Z.add_0_r; symmetry; apply Z.mod_small; lia|].
  repeat split; intros; contradiction.
Qed.

(* (a): when the marker of a Close has left the pending queue, every data chunk written on the stream before
   that Close (smaller label) has been given a TSN, and the index of that TSN is at most the index of the
   senderLastTSN of the request that was created for the marker *)
Theorem rs_reset_after_data fifo t0 p sid e gh : in32 t0 ->
  rs_reach sid (rs_ep_init fifo t0 p) rs_gh0 e gh ->
  forall m L, In (m, L) (rs_g_marks gh) -> forall id, In id (rs_g_written gh) -> id < m ->
  exists k, In (id, k) (rs_g_sent gh) /\ k <= L /\ L < rs_g_n gh /\
            (L - k < 2147483648 -> sna32LTE (wrap32 (t0 + k)) (wrap32 (t0 + L)) = true).
Proof.
  intros Ht Hr m L HmL id Hid Hlt.
  destruct (rs_ainv_reach _ _ _ _ _ _ (rs_ainv_init fifo t0 p Ht) Hr) as (_ & _ & _ & _ & I5 & _ & _ & I8).
  destruct (I8 m L HmL id Hid Hlt) as (k & Hk1 & Hk2). exists k. split; [exact Hk1|]. split; [exact Hk2|].
  split; [apply (I5 m L HmL)|]. intros Hw. apply sna32LTE_spec; unfold in32, wrap32 in *; lia.
Qed.

(* the ghost indices are the real TSNs: in one gather the request's senderLastTSN and the TSNs of the
   stream's chunks are offsets from myNextTSN; the marker is only popped with a request naming the stream *)
Lemma rs_gather_request_covers sid e items ids e' g q :
  rs_wf e -> in32 (rs_next_tsn e) -> Z.of_nat (length items) < 2147483648 ->
  rs_gather sid e items ids = Some (e', g) -> rs_go_new g = Some q ->
  rs_q_last q = wrap32 (rs_next_tsn e + Z.of_nat (length items) - 1) /\
  forall id tsn pos, In (id, tsn, pos) (rs_go_sent g) -> tsn = wrap32 (rs_next_tsn e + pos) /\ sna32LTE tsn (rs_q_last q) = true.
Proof.
  intros Hwf Hin Hlen Hg Hq. destruct (rs_gather_wf _ _ _ _ _ _ Hwf Hin Hg) as (_ & _ & _ & _ & _ & _ & _ & _ & _ & G10 & G11 & _).
  destruct (G11 q Hq) as [Hl _]. split; [exact Hl|]. intros id tsn pos Hs. destruct (G10 _ _ _ Hs) as [Hp Ht]. split; [exact Ht|].
  rewrite Ht, Hl. apply sna32LTE_spec; unfold in32, wrap32 in *; lia.
Qed.

Lemma rs_marker_needs_request sid e items ids e' g :
  rs_wf e -> in32 (rs_next_tsn e) -> rs_gather sid e items ids = Some (e', g) -> rs_go_marks g <> [] ->
  exists q, rs_go_new g = Some q /\ In sid (rs_q_ids q).
Proof.
  intros Hwf Hin Hg Hne. destruct (rs_gather_wf _ _ _ _ _ _ Hwf Hin Hg) as (_ & _ & _ & _ & _ & _ & _ & _ & _ & _ & G11 & G12 & _).
  destruct (G12 Hne) as (q & Hq & Hs). exists q. split; [exact Hq|]. destruct (G11 q Hq) as [_ Hi]. rewrite Hi. exact Hs.
Qed.

(* message policy: the marker is popped only when no unordered chunk of the stream is left in the queue *)
Lemma rs_marker_pop_message_policy e c e' :
  rs_wf e -> rs_fifo e = false -> rs_pop_head e = Some (c, e') -> rs_is_marker c = true ->
  rs_pend_u e = [] /\ rs_sel_o e = false /\ exists r, rs_pend_o e = c :: r.
Proof.
  intros (Hu & Ho & Hf & Hm & Hnm) Ef H Hc. unfold rs_pop_head in H. rewrite Ef in H. specialize (Hm Ef).
  destruct (rs_sel_o e) eqn:Es.
  - destruct (rs_pend_o e) as [|c0 r] eqn:Eo; [discriminate|]. inversion H; subst. cbn [rs_frag_ok] in Hm.
    destruct Hm as (Hb & Hmk & _). destruct (Hmk Hc) as [Hb1 _]. rewrite Hb1 in Hb. discriminate.
  - destruct (rs_pend_u e) as [|cu ru] eqn:Eu.
    + destruct (rs_pend_o e) as [|c0 r]; [discriminate|]. inversion H; subst. repeat split. exists r. reflexivity.
    + inversion H; subst. rewrite (Hnm c (or_introl eq_refl)) in Hc. discriminate.
Qed.

(* ================================================================ EOF / unregistering happen only through a reset that was due *)

Definition rs_shape (e : rs_ep) (u o : list rs_pchunk) (s : bool) (t : Z) : rs_ep :=
  mkRsEp (rs_estab e) (rs_present e) (rs_obj e) (rs_fifo e) u o s t (rs_next_rsn e) (rs_reconfigs e) (rs_will_rtx e)
         (rs_cum e) (rs_maxoff e) (rs_rcvd e) (rs_reqs e) (rs_done e).

Lemma rs_pop_head_shape e c e' : rs_pop_head e = Some (c, e') -> exists u o s, e' = rs_shape e u o s (rs_next_tsn e).
Proof.
  unfold rs_pop_head. destruct (rs_fifo e); [destruct (rs_pend_o e); [discriminate|intros H; inversion H; subst; eexists _, _, _; reflexivity]|].
  destruct (rs_sel_o e); [destruct (rs_pend_o e); [discriminate|intros H; inversion H; subst; eexists _, _, _; reflexivity]|].
  destruct (rs_pend_u e); [destruct (rs_pend_o e); [discriminate|]|]; intros H; inversion H; subst; eexists _, _, _; reflexivity.
Qed.

Lemma rs_skip_markers_shape : forall n e acc n' e' acc', rs_skip_markers n e acc = (n', e', acc') ->
  exists u o s, e' = rs_shape e u o s (rs_next_tsn e).
Proof.
  induction n as [|n IH]; cbn [rs_skip_markers]; intros e acc n' e' acc' H.
  - inversion H; subst. exists (rs_pend_u e'), (rs_pend_o e'), (rs_sel_o e'). destruct e'; reflexivity.
  - destruct (rs_pop_head e) as [[c e1]|] eqn:Ep.
    + destruct (rs_is_marker c).
      * destruct (rs_pop_head_shape _ _ _ Ep) as (u & o & s & He1). destruct (IH _ _ _ _ _ H) as (u' & o' & s' & He'). subst.
        eexists _, _, _. reflexivity.
      * inversion H; subst. exists (rs_pend_u e'), (rs_pend_o e'), (rs_sel_o e'). destruct e'; reflexivity.
    + inversion H; subst. exists (rs_pend_u e'), (rs_pend_o e'), (rs_sel_o e'). destruct e'; reflexivity.
Qed.

Lemma rs_gather_items_shape : forall items need e pos sent marks need' e' sent' marks',
  rs_gather_items items need e pos sent marks = Some (need', e', sent', marks') -> exists u o s t, e' = rs_shape e u o s t.
Proof.
  induction items as [|it r IH]; cbn [rs_gather_items]; intros need e pos sent marks need' e' sent' marks' H.
  - inversion H; subst. exists (rs_pend_u e'), (rs_pend_o e'), (rs_sel_o e'), (rs_next_tsn e'). destruct e'; reflexivity.
  - destruct it as [|len un].
    + destruct (IH _ _ _ _ _ _ _ _ _ H) as (u & o & s & t & He). subst. eexists _, _, _, _. reflexivity.
    + destruct (rs_skip_markers need e marks) as [[need1 e1] marks1] eqn:Ek.
      destruct (rs_skip_markers_shape _ _ _ _ _ _ Ek) as (u1 & o1 & s1 & He1).
      destruct (rs_pop_head e1) as [[c e2]|] eqn:Ep; [|discriminate].
      destruct (rs_pop_head_shape _ _ _ Ep) as (u2 & o2 & s2 & He2).
      destruct (_ && _)%bool; [|discriminate].
      destruct (IH _ _ _ _ _ _ _ _ _ H) as (u & o & s & t & He). subst. eexists _, _, _, _. reflexivity.
Qed.

Lemma rs_gather_keeps_obj sid e items ids e' g : rs_gather sid e items ids = Some (e', g) ->
  rs_obj e' = rs_obj e /\ rs_present e' = rs_present e.
Proof.
  unfold rs_gather. intros H.
  destruct (rs_gather_items items (count_occ Z.eq_dec ids sid) e 0 [] []) as [[[[n1 e1] s1] m1]|] eqn:Eg; [|discriminate].
  destruct (rs_gather_items_shape _ _ _ _ _ _ _ _ _ _ Eg) as (u & o & s & t & He1).
  destruct (rs_skip_markers n1 e1 m1) as [[n2 e2] m2] eqn:Ek.
  destruct (rs_skip_markers_shape _ _ _ _ _ _ Ek) as (u2 & o2 & s2 & He2). destruct n2; [|discriminate].
  subst. destruct ids; inversion H; subst; cbn; split; reflexivity.
Qed.

Lemma rs_resp_hit_due r : rs_resp_ok r -> rs_r_hit r = true ->
  rs_r_res r = c_reconfigResultSuccessPerformed /\ sna32LTE (rs_r_last r) (rs_r_cum r) = true.
Proof. intros [[A B]|(A & B & C)] Hh; [split; assumption|rewrite B in Hh; discriminate]. Qed.

Lemma rs_step_reset_only_when_due sid e ev e' out : rs_ep_step sid e ev = Some (e', out) ->
  (rs_present e = true /\ rs_present e' = false) \/ (rs_eof (rs_obj e) = false /\ rs_eof (rs_obj e') = true) ->
  exists r, In r (rs_o_resps out) /\ rs_r_hit r = true /\ rs_r_res r = c_reconfigResultSuccessPerformed /\
            sna32LTE (rs_r_last r) (rs_r_cum r) = true.
Proof.
  intros H Hch. pose proof (rs_step_resps_ok _ _ _ _ _ H) as Hok.
  assert (Hfin : forall r, In r (rs_o_resps out) -> rs_r_hit r = true ->
            exists r, In r (rs_o_resps out) /\ rs_r_hit r = true /\ rs_r_res r = c_reconfigResultSuccessPerformed /\
                      sna32LTE (rs_r_last r) (rs_r_cum r) = true).
  { intros r Hr Hh. exists r. split; [exact Hr|]. split; [exact Hh|]. rewrite Forall_forall in Hok. exact (rs_resp_hit_due r (Hok r Hr) Hh). }
  assert (Hsame : rs_present e' = rs_present e \/ rs_present e' = true -> rs_eof (rs_obj e') = rs_eof (rs_obj e) \/ rs_eof (rs_obj e') = false -> False).
  { intros Hp He. destruct Hch as [[C1 C2]|[C1 C2]]; [destruct Hp as [Hp|Hp]; congruence|destruct He as [He|He]; congruence]. }
  destruct ev; cbn [rs_ep_step] in H.
  - exfalso. inversion H; subst. unfold rs_open in *. destruct (rs_present e) eqn:Ep; [apply Hsame; auto|].
    apply Hsame; auto.
  - exfalso. unfold rs_write in H. destruct (negb (rs_state (rs_obj e) =? rs_st_open)); [inversion H; subst; apply Hsame; auto|].
    destruct (negb (rs_estab e)); [inversion H; subst; apply Hsame; auto|].
    destruct (rs_fifo e || negb unord)%bool; inversion H; subst; (apply Hsame; [left; reflexivity|left]);
      unfold rs_bump; destruct il; destruct unord; reflexivity.
  - exfalso. unfold rs_close in H. destruct (rs_state (rs_obj e) =? rs_st_open); [|inversion H; subst; apply Hsame; auto].
    destruct (rs_estab e); inversion H; subst; apply Hsame; auto.
  - exfalso. unfold rs_read, rs_read_strm in H. destruct (rs_rbuf (rs_obj e)) as [|s0 r0].
    + inversion H; subst. apply Hsame; auto.
    + destruct (sna16GT s0 (rs_rnext (rs_obj e))); inversion H; subst; apply Hsame; auto.
  - exfalso. destruct (rs_gather sid e items ids) as [[e1 g]|] eqn:E; [|discriminate]. inversion H; subst.
    destruct (rs_gather_keeps_obj _ _ _ _ _ _ E) as [A B]. apply Hsame; left; congruence.
  - exfalso. inversion H; subst. apply Hsame; auto.
  - exfalso. inversion H; subst. unfold rs_recv_response in *. destruct (result =? c_reconfigResultInProgress); [apply Hsame; auto|].
    cbn [fst] in *. destruct (result =? c_reconfigResultSuccessPerformed); [|apply Hsame; auto].
    destruct (rs_req_get (rs_reconfigs e) rsn); [|apply Hsame; auto].
    destruct (rs_mem sid (rs_q_ids r) && rs_present e && negb (rs_state (rs_obj e) =? rs_st_open))%bool eqn:Em; [|apply Hsame; auto].
    apply andb_true_iff in Em. destruct Em as [_ Em]. apply Hsame; auto.
  - destruct (rs_recv_request sid e q) as [[e1 r]|] eqn:E; inversion H; subst; [|exfalso; apply Hsame; auto].
    cbn [rs_o_resps] in *. destruct (rs_r_hit r) eqn:Eh; [apply (Hfin r (or_introl eq_refl) Eh)|]. exfalso.
    unfold rs_recv_request in E. destruct (_ && _)%bool; [discriminate|]. inversion E as [E1].
    destruct (rs_reset_if_any_state _ _ _ _ _ E1) as (_ & _ & _ & _ & _ & _ & Hf). destruct (Hf Eh) as [Ho Hp].
    cbn [rs_set_rcv rs_obj rs_present] in Ho, Hp. apply Hsame; left; congruence.
  - destruct (rs_recv_data sid e tsn mine simple ssn) as [e1 rs] eqn:E; inversion H; subst. cbn [rs_o_resps] in *.
    unfold rs_recv_data, rs_cum_advanced in E.
    match type of E with rs_pop_loop _ _ ?E0 _ = _ => set (e0 := E0) in * end.
    destruct (rs_pop_loop_obj _ _ _ _ _ _ E) as (news & Hn & Hk). cbn [app] in Hn. subst rs.
    destruct Hk as [[Ho Hp]|(r & Hr & Hh)]; [|exact (Hfin r Hr Hh)]. exfalso.
    assert (H0 : (rs_present e0 = rs_present e \/ rs_present e0 = true) /\ (rs_eof (rs_obj e0) = rs_eof (rs_obj e) \/ rs_eof (rs_obj e0) = false)).
    { unfold e0. destruct (rs_can_push e tsn); [|split; left; reflexivity]. destruct mine; [|split; left; reflexivity].
      destruct (rs_present e) eqn:Ep; destruct simple; unfold rs_push_msg;
        cbn [rs_set_rcv rs_set_obj rs_present rs_obj rs_eof rs_rnext rs_fresh_strm];
        repeat match goal with |- context [if ?c then _ else _] => destruct c end;
        cbn [rs_set_rcv rs_set_obj rs_present rs_obj rs_eof rs_rnext rs_fresh_strm]; split; auto. }
    destruct H0 as [H1 H2]. apply Hsame; [rewrite Hp; exact H1|rewrite Ho; exact H2].
  - destruct (rs_recv_fwd sid e newcum skip) as [e1 rs] eqn:E; inversion H; subst. cbn [rs_o_resps] in *.
    unfold rs_recv_fwd in E. destruct (sna32LTE newcum (rs_cum e)); [inversion E; subst; exfalso; apply Hsame; auto|].
    unfold rs_cum_advanced in E. destruct (rs_pop_loop_obj _ _ _ _ _ _ E) as (news & Hn & Hk). cbn [app] in Hn. subst rs.
    destruct Hk as [[Ho Hp]|(r & Hr & Hh)]; [|exact (Hfin r Hr Hh)]. exfalso.
    destruct skip as [s0|]; cbn [rs_set_rcv rs_obj rs_present] in Ho, Hp.
    + destruct (rs_present e) eqn:Ep; cbn [rs_set_rcv rs_set_obj rs_obj rs_present] in Ho, Hp.
      * apply Hsame; [left; congruence|left]. rewrite Ho. unfold rs_skip_ssn. destruct (sna16LTE _ _); reflexivity.
      * apply Hsame; left; congruence.
    + apply Hsame; left; congruence.
Qed.

(* ================================================================ refutations: stale RECONFIG parameters after the identifier was reopened *)

(* endpoints A (initial TSN 1000) and B (initial TSN 5000), stream 1 open on both sides *)
Definition rs_sys0 : rs_sys := mkRsSys (rs_ep_init false 1000 5000) (rs_ep_init false 5000 1000) [].

(* K1: the response to A's reset request is lost; both directions get reset; A reopens the identifier and
   sends a message; A's re-configuration timer expires and the old request is retransmitted; B applies it
   to the NEW incarnation: EOF although A never closed it *)
Definition rs_stale_request_history : list rs_sev :=
  [ RsEWrite true 1; RsEGather true [RsMine 1 false] []; RsEDeliver 0; RsERead false;   (* message 0 of incarnation 1 *)
    RsEClose true 2; RsEGather true [] [1];                (* A closes: request R1 (net 1) *)
    RsEDeliver 1;                                          (* B performs it: response (net 2) is never delivered *)
    RsERead false;                                         (* B reads EOF ... *)
    RsEClose false 3; RsEGather false [] [1];              (* ... and closes its side: request R2 (net 3) *)
    RsEDeliver 3; RsEDeliver 4;                            (* A performs it, B gets the response (net 4) *)
    RsEOpen true;                                          (* both directions reset: A reopens the identifier *)
    RsEWrite true 4; RsEGather true [RsMine 1 false] [];   (* first message of incarnation 2 (net 5) *)
    RsEDeliver 5; RsERead false;                           (* delivered to a fresh object at B *)
    RsEExpire true; RsEGather true [] [];                  (* tReconfig: R1 retransmitted (net 6) *)
    RsEDeliver 6;                                          (* B: the old request hits incarnation 2 *)
    RsERead false ].

(* before fd7385c this history ended with [RsMsg 0; RsEOF; RsMsg 0; RsEOF]: B's object of the new incarnation got
   EOF and was unregistered.  Now the retransmitted request is answered without being performed; the late
   answer (net 7) leaves A's open stream alone (a186bb2) and the next message is delivered in sequence. *)
Lemma rs_stale_request_now_harmless : exists s log,
  rs_sys_run 1 rs_sys0 (rs_stale_request_history ++
     [RsEDeliver 7; RsEWrite true 5; RsEGather true [RsMine 1 false] []; RsEDeliver 8; RsERead false]) [] = Some (s, log) /\
  log = [RsMsg 0; RsEOF; RsMsg 0; RsWait; RsMsg 1] /\
  rs_gen (rs_obj (rs_a s)) = 2 /\ rs_state (rs_obj (rs_a s)) = rs_st_open /\ rs_ssn (rs_obj (rs_a s)) = 2 /\
  rs_gen (rs_obj (rs_b s)) = 2 /\ rs_eof (rs_obj (rs_b s)) = false /\ rs_present (rs_b s) = true /\
  rs_done (rs_b s) = Some 1000.
Proof.
  match goal with |- exists s log, ?R = _ /\ _ => destruct R as [[s log]|] eqn:E; [|vm_compute in E; discriminate] end.
  exists s, log. split; [reflexivity|]. vm_compute in E. inversion E; subst. vm_compute. repeat split; reflexivity.
Qed.

(* K2: the response is only delayed; when it arrives the sender applies it to the new incarnation: its SSN
   goes back to 0 after two messages, the third message reuses SSN 0 and the receiver discards it *)
Definition rs_late_response_history : list rs_sev :=
  [ RsEClose true 2; RsEGather true [] [1];                (* A closes (nothing written): R1 (net 0) *)
    RsEDeliver 0;                                          (* B performs it: response (net 1) is delayed *)
    RsERead false;
    RsEClose false 3; RsEGather false [] [1];              (* B closes: R2 (net 2) *)
    RsEDeliver 2; RsEDeliver 3;                            (* A performs it; B gets its response *)
    RsEOpen true;
    RsEWrite true 4; RsEGather true [RsMine 1 false] []; RsEDeliver 4; RsERead false;   (* SSN 0 *)
    RsEWrite true 5; RsEGather true [RsMine 1 false] []; RsEDeliver 5; RsERead false;   (* SSN 1 *)
    RsEDeliver 1;                                          (* the delayed response arrives *)
    RsEWrite true 6; RsEGather true [RsMine 1 false] []; RsEDeliver 6; RsERead false ]. (* SSN 0 again *)

(* before a186bb2 this history ended with [RsEOF; RsMsg 0; RsMsg 1; RsWait] and A's SSN back at 1; now the
   delayed response leaves the open stream alone and the third message carries SSN 2 *)
Lemma rs_late_response_now_harmless : exists s log,
  rs_sys_run 1 rs_sys0 rs_late_response_history [] = Some (s, log) /\
  log = [RsEOF; RsMsg 0; RsMsg 1; RsMsg 2] /\
  rs_gen (rs_obj (rs_a s)) = 2 /\ rs_ssn (rs_obj (rs_a s)) = 3 /\ rs_reconfigs (rs_a s) = [] /\
  rs_rnext (rs_obj (rs_b s)) = 3 /\ rs_rbuf (rs_obj (rs_b s)) = [].
Proof.
  destruct (rs_sys_run 1 rs_sys0 rs_late_response_history []) as [[s log]|] eqn:E; [|vm_compute in E; discriminate].
  exists s, log. split; [reflexivity|]. vm_compute in E. inversion E; subst. vm_compute. repeat split; reflexivity.
Qed.

(* non-vacuity of (a): a history with a marker waiting behind unordered and ordered data under the message policy *)
Definition rs_example_events : list rs_ev :=
  [ RsVWrite 0 false false [1200; 300];      (* ordered, two fragments: labels 0,1 *)
    RsVWrite 2 false true [50];              (* unordered: label 2 *)
    RsVClose 3;                              (* marker: label 3 *)
    RsVGather [RsOther; RsMine 50 true; RsMine 1200 false] [];      (* cwnd: the second fragment waits *)
    RsVWrite 4 false false [10];             (* refused: the stream is closing *)
    RsVGather [RsMine 300 false; RsOther] [1] ].                    (* then the marker *)

Fixpoint rs_grun (sid : Z) (e : rs_ep) (gh : rs_gh) (evs : list rs_ev) : option (rs_ep * rs_gh) :=
  match evs with
  | [] => Some (e, gh)
  | ev :: r => match rs_ep_step sid e ev with
               | Some (e1, out) => rs_grun sid e1 (rs_gh_step gh ev out) r
               | None => None
               end
  end.

Lemma rs_example_history_ok : exists e gh,
  rs_grun 1 (rs_ep_init false 4294967295 7) rs_gh0 rs_example_events = Some (e, gh) /\
  rs_g_marks gh = [(3, 4)] /\ rs_g_sent gh = [(2, 1); (0, 2); (1, 3)] /\ rs_g_written gh = [0; 1; 2] /\
  rs_reconfigs e = [mkRsReq 4294967295 3 [1]] /\ rs_pend_u e = [] /\ rs_pend_o e = [].
Proof. eexists _, _. vm_compute. repeat split; reflexivity. Qed.

Fixpoint rs_evs_ok_run (sid : Z) (e : rs_ep) (gh : rs_gh) (evs : list rs_ev) : Prop :=
  match evs with
  | [] => True
  | ev :: r => rs_ev_ok gh ev /\
               match rs_ep_step sid e ev with
               | Some (e1, out) => rs_evs_ok_run sid e1 (rs_gh_step gh ev out) r
               | None => False
               end
  end.

Lemma rs_grun_reach sid : forall evs e0 gh0 e gh ea gha,
  rs_reach sid ea gha e0 gh0 -> rs_evs_ok_run sid e0 gh0 evs -> rs_grun sid e0 gh0 evs = Some (e, gh) ->
  rs_reach sid ea gha e gh.
Proof.
  induction evs as [|ev r IH]; intros e0 gh0 e gh ea gha Hr Hok Hg; cbn [rs_grun rs_evs_ok_run] in *.
  - inversion Hg; subst. exact Hr.
  - destruct Hok as [Hev Hok]. destruct (rs_ep_step sid e0 ev) as [[e1 out]|] eqn:Es; [|discriminate].
    eapply IH; [|exact Hok|exact Hg]. eapply rs_reach_step; eassumption.
Qed.

Lemma rs_example_history_reach : exists e gh,
  rs_reach 1 (rs_ep_init false 4294967295 7) rs_gh0 e gh /\ rs_g_marks gh = [(3, 4)] /\ rs_g_written gh = [0; 1; 2].
Proof.
  destruct rs_example_history_ok as (e & gh & Hg & Hm & _ & Hw & _). exists e, gh. split; [|split; assumption].
  eapply rs_grun_reach; [apply rs_reach_refl| |exact Hg].
  vm_compute. repeat (split || constructor); try reflexivity; try discriminate.
Qed.

(* ================================================================ the record of performed requests changes only by performing one *)

Definition rs_done_ok (e e' : rs_ep) (news : list rs_resp) : Prop :=
  rs_done e' = rs_done e \/
  exists r, In r news /\ rs_r_res r = c_reconfigResultSuccessPerformed /\ rs_done e' = Some (rs_r_rsn r).

Lemma rs_reset_if_any_done_ok sid e q e' r : rs_reset_if_any sid e q = (e', r) -> rs_done_ok e e' [r].
Proof.
  intros H. assert (Hr : rs_r_rsn r = rs_q_rsn q).
  { unfold rs_reset_if_any in H. destruct (sna32LTE _ _); inversion H; subst; reflexivity. }
  destruct (rs_reset_if_any_done _ _ _ _ _ H) as (_ & [Hd|(Hd & _ & _ & Hres)] & _); [left; exact Hd|].
  right. exists r. split; [left; reflexivity|]. split; [exact Hres|]. rewrite Hr. exact Hd.
Qed.

Lemma rs_done_ok_trans a b c n1 n2 : rs_done_ok a b n1 -> rs_done_ok b c n2 -> rs_done_ok a c (n1 ++ n2).
Proof.
  intros [H1|(r1 & I1 & P1 & D1)] [H2|(r2 & I2 & P2 & D2)].
  - left. congruence.
  - right. exists r2. split; [apply in_or_app; right; exact I2|split; assumption].
  - right. exists r1. split; [apply in_or_app; left; exact I1|split; [exact P1|congruence]].
  - right. exists r2. split; [apply in_or_app; right; exact I2|split; assumption].
Qed.

Lemma rs_retry_list_done sid : forall l e acc e' acc',
  rs_retry_list sid l e acc = (e', acc') -> exists news, acc' = acc ++ news /\ rs_done_ok e e' news.
Proof.
  induction l as [|q t IH]; cbn [rs_retry_list]; intros e acc e' acc' H.
  - inversion H; subst. exists []. rewrite app_nil_r. split; [reflexivity|left; reflexivity].
  - destruct (rs_reset_if_any sid e q) as [e1 r] eqn:E. destruct (IH _ _ _ _ H) as (news & Hn & Hk).
    exists ([r] ++ news). rewrite Hn, <- app_assoc. split; [reflexivity|].
    eapply rs_done_ok_trans; [eapply rs_reset_if_any_done_ok; exact E|exact Hk].
Qed.

Lemma rs_pop_loop_done sid : forall fuel e acc e' acc',
  rs_pop_loop fuel sid e acc = (e', acc') -> exists news, acc' = acc ++ news /\ rs_done_ok e e' news.
Proof.
  induction fuel as [|f IH]; cbn [rs_pop_loop]; intros e acc e' acc' H.
  - inversion H; subst. exists []. rewrite app_nil_r. split; [reflexivity|left; reflexivity].
  - destruct (rs_mem (wrap32 (rs_cum e + 1)) (rs_rcvd e)).
    + match type of H with context [rs_retry sid ?E acc] => destruct (rs_retry sid E acc) as [e2 acc2] eqn:Er end.
      unfold rs_retry in Er. destruct (rs_retry_list_done _ _ _ _ _ _ Er) as (n1 & Hn1 & Hk1).
      destruct (IH _ _ _ _ H) as (n2 & Hn2 & Hk2). exists (n1 ++ n2). subst. rewrite app_assoc. split; [reflexivity|].
      eapply rs_done_ok_trans; [|exact Hk2]. exact Hk1.
    + inversion H; subst. exists []. rewrite app_nil_r. split; [reflexivity|left; reflexivity].
Qed.

Lemma rs_gather_keeps_done sid e items ids e' g : rs_gather sid e items ids = Some (e', g) -> rs_done e' = rs_done e.
Proof.
  unfold rs_gather. intros H.
  destruct (rs_gather_items items (count_occ Z.eq_dec ids sid) e 0 [] []) as [[[[n1 e1] s1] m1]|] eqn:Eg; [|discriminate].
  destruct (rs_gather_items_shape _ _ _ _ _ _ _ _ _ _ Eg) as (u & o & s & t & He1).
  destruct (rs_skip_markers n1 e1 m1) as [[n2 e2] m2] eqn:Ek.
  destruct (rs_skip_markers_shape _ _ _ _ _ _ Ek) as (u2 & o2 & s2 & He2). destruct n2; [|discriminate].
  subst. destruct ids; inversion H; subst; reflexivity.
Qed.

Lemma rs_step_done sid e ev e' out : rs_ep_step sid e ev = Some (e', out) -> rs_done_ok e e' (rs_o_resps out).
Proof.
  intros H. destruct ev; cbn [rs_ep_step] in H.
  - inversion H; subst. left. unfold rs_open. destruct (rs_present e); reflexivity.
  - unfold rs_write in H. destruct (negb (rs_state (rs_obj e) =? rs_st_open)); [inversion H; subst; left; reflexivity|].
    destruct (negb (rs_estab e)); [inversion H; subst; left; reflexivity|].
    destruct (rs_fifo e || negb unord)%bool; inversion H; subst; left; reflexivity.
  - unfold rs_close in H. destruct (rs_state (rs_obj e) =? rs_st_open); [|inversion H; subst; left; reflexivity].
    destruct (rs_estab e); inversion H; subst; left; reflexivity.
  - unfold rs_read in H. destruct (rs_read_strm (rs_obj e)). inversion H; subst. left. reflexivity.
  - destruct (rs_gather sid e items ids) as [[e1 g]|] eqn:E; [|discriminate]. inversion H; subst. left.
    eapply rs_gather_keeps_done; exact E.
  - inversion H; subst. left. reflexivity.
  - inversion H; subst. left. unfold rs_recv_response. destruct (result =? c_reconfigResultInProgress); [reflexivity|].
    cbn [fst]. destruct (result =? c_reconfigResultSuccessPerformed); [|reflexivity].
    destruct (rs_req_get (rs_reconfigs e) rsn); [|reflexivity].
    destruct (rs_mem sid (rs_q_ids r) && rs_present e && negb (rs_state (rs_obj e) =? rs_st_open))%bool; reflexivity.
  - destruct (rs_recv_request sid e q) as [[e1 r]|] eqn:E; inversion H; subst; [|left; reflexivity]. cbn [rs_o_resps].
    unfold rs_recv_request in E. destruct (_ && _)%bool; [discriminate|]. inversion E as [E1].
    apply rs_reset_if_any_done_ok in E1. exact E1.
  - destruct (rs_recv_data sid e tsn mine simple ssn) as [e1 rs] eqn:E; inversion H; subst. cbn [rs_o_resps].
    unfold rs_recv_data, rs_cum_advanced in E. destruct (rs_pop_loop_done _ _ _ _ _ _ E) as (news & Hn & Hk). cbn [app] in Hn. subst.
    destruct Hk as [Hk|Hk]; [left|right; exact Hk]. rewrite Hk.
    destruct (rs_can_push e tsn); [|reflexivity]. destruct mine; [|reflexivity]. destruct (rs_present e); destruct simple; reflexivity.
  - destruct (rs_recv_fwd sid e newcum skip) as [e1 rs] eqn:E; inversion H; subst. cbn [rs_o_resps].
    unfold rs_recv_fwd in E. destruct (sna32LTE newcum (rs_cum e)); [inversion E; subst; left; reflexivity|].
    unfold rs_cum_advanced in E. destruct (rs_pop_loop_done _ _ _ _ _ _ E) as (news & Hn & Hk). cbn [app] in Hn. subst.
    destruct Hk as [Hk|Hk]; [left|right; exact Hk]. rewrite Hk. destruct skip; [destruct (rs_present _)|]; reflexivity.
Qed.
