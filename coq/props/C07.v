(* C07 — messages the sender gives up on never block or damage other traffic.
   Model: coq/model/PR.v.  Sender: finishAcknowledgement C1-C3, the C2-C3 loop of the T3 branch of
   onRetransmissionTimeout, createForwardTSN, createIForwardTSN, gatherOutboundForwardTSNPackets over the
   in-flight queue with the abandoned / all-in-flight flags of chunk_payload_data.go.  Receiver: handleForwardTSN /
   handleIForwardTSN (incl. getOrCreateSkippedStream, fix 5722c17) on top of RPQ.advance and the RQ forward
   operations (theorems cited from RQSafety.v / RQProofs.v / RPQProofs.v).
   Histories: lists of pr_ev (see C06.v); pr_winv = PR negotiated, the in-flight queue holds the TSNs
   cum+1, cum+2, .. and the advanced point lies d chunks past the cumulative point with those d chunks abandoned;
   pr_ev_sane = SACK fields are uint32 and fewer than 2^31 - 1 chunks are in flight.
   Only statements closed by [exact] + Print Assumptions here. *)
From Coq Require Import ZArith Bool List Lia.
From Coq Require Import ZifyBool.
From Sctp Require Import Gen SnaProofs RPQ RPQProofs RQ RQProofs RQSafety PR PRProofs.
Import ListNotations.
Open Scope Z_scope.
Ltac Zify.zify_post_hook ::= Z.div_mod_to_equations.

(* ---------------------------------------------------------------- (a) the advanced peer ack point *)

(* For every history of sends, markings, retransmissions, fast retransmissions, SACKs (any cumulative TSN, any gap
   blocks) and T3 expiries from a state satisfying the invariant: every chunk whose TSN is <= advancedPeerTSNAckPoint
   (all in-flight TSNs are > cumulativeTSNAckPoint: second clause) belongs to a message whose abandoned flag is set
   AND that is entirely in flight; the point is d <= |in flight| chunks past the cumulative point: it never passes
   a chunk that is not abandoned. *)
Theorem c07_adv_only_abandoned : forall evs s0 s outs,
  pr_winv s0 -> pr_run_ok pr_ev_sane s0 evs -> pr_run s0 evs = Some (s, outs) -> pr_small s ->
  (forall c, In c (pr_infl s) -> sna32LTE (pr_tsn c) (pr_adv s) = true ->
     pr_msg_flag (pr_msgs s) (pr_msg c) = true /\ pr_msg_allinfl (pr_msgs s) (pr_msg c) = true) /\
  (forall c, In c (pr_infl s) -> sna32LT (pr_cum s) (pr_tsn c) = true) /\
  (exists d : nat, (d <= length (pr_infl s))%nat /\ pr_adv s = wrap32 (pr_cum s + Z.of_nat d)).
Proof. exact pr_adv_only_abandoned_thm. Qed.
Print Assumptions c07_adv_only_abandoned.

(* abandonment is monotone: no step ever resets the flags of a message *)
Theorem c07_abandoned_monotone : forall evs s s' outs m,
  pr_run s evs = Some (s', outs) -> pr_msg_abandoned (pr_msgs s) m = true -> pr_msg_abandoned (pr_msgs s') m = true.
Proof. exact pr_abandoned_monotone_thm. Qed.
Print Assumptions c07_abandoned_monotone.

(* the association starts in the invariant (createAssociationFromConfigWithTsn: both points = initial TSN - 1) *)
Theorem c07_init : forall tsn pol uf ui, in32 tsn -> uf || ui = true -> pr_winv (pr_init tsn pol uf ui).
Proof. exact pr_init_winv. Qed.
Print Assumptions c07_init.

(* ---------------------------------------------------------------- (b) what the FORWARD-TSN says *)

(* createForwardTSN in any invariant state: new cumulative TSN = advanced point; with L = the d abandoned chunks in
   (cum, adv]: one entry per stream that has an ORDERED chunk in L, none for streams with only unordered chunks
   there; the SSN of an entry is the SSN of such a chunk, and - when the ordered SSNs of a stream within L span
   less than 2^15 - it is their serial maximum.  Keys are strictly increasing: the comparator sorts the Go map
   into this order. *)
Theorem c07_fwd_lists_max_ordered_ssn : forall s,
  pr_winv s -> pr_small s ->
  exists d : nat, (d <= length (pr_infl s))%nat /\ pr_adv s = wrap32 (pr_cum s + Z.of_nat d) /\
  let L := firstn d (pr_infl s) in
  let M := snd (pr_mk_fwd s) in
  fst (pr_mk_fwd s) = pr_adv s /\
  pr_sorted M /\
  (forall c, In c L -> pr_abandoned s c = true) /\
  (forall sid, (exists c, In c L /\ pr_unord c = false /\ pr_sid c = sid) <-> (exists v, In (sid, v) M)) /\
  (forall sid v, In (sid, v) M -> exists c, In c L /\ pr_unord c = false /\ pr_sid c = sid /\ pr_ssn c = v) /\
  (pr_span16 pr_ordered pr_ssn L ->
     forall sid v, In (sid, v) M -> forall c, In c L -> pr_unord c = false -> pr_sid c = sid -> sna16LTE (pr_ssn c) v = true).
Proof. exact pr_fwd_lists_max_ordered_ssn_thm. Qed.
Print Assumptions c07_fwd_lists_max_ordered_ssn.

(* createIForwardTSN: likewise per (stream, U flag) with message identifiers (span < 2^31) *)
Theorem c07_ifwd_lists_max_mid : forall s,
  pr_winv s -> pr_small s ->
  exists d : nat, (d <= length (pr_infl s))%nat /\ pr_adv s = wrap32 (pr_cum s + Z.of_nat d) /\
  let L := firstn d (pr_infl s) in
  fst (pr_mk_ifwd s) = pr_adv s /\
  pr_sorted (pr_ifwd_omap s) /\ pr_sorted (pr_ifwd_umap s) /\
  (forall sid u v, In (sid, u, v) (snd (pr_mk_ifwd s)) <-> In (sid, v) (if u then pr_ifwd_umap s else pr_ifwd_omap s)) /\
  (forall c, In c L -> pr_abandoned s c = true) /\
  (forall u sid, (exists c, In c L /\ pr_unord c = u /\ pr_sid c = sid) <-> (exists v, In (sid, u, v) (snd (pr_mk_ifwd s)))) /\
  (forall sid u v, In (sid, u, v) (snd (pr_mk_ifwd s)) -> exists c, In c L /\ pr_unord c = u /\ pr_sid c = sid /\ pr_mid c = v) /\
  (forall u, pr_span32 (fun c => Bool.eqb (pr_unord c) u) pr_mid L ->
     forall sid v, In (sid, u, v) (snd (pr_mk_ifwd s)) -> forall c, In c L -> pr_unord c = u -> pr_sid c = sid -> sna32LTE (pr_mid c) v = true).
Proof. exact pr_ifwd_lists_max_mid_thm. Qed.
Print Assumptions c07_ifwd_lists_max_mid.

(* ---------------------------------------------------------------- (c) nothing that was not abandoned is skipped *)

(* Well-formed universe (pr_mono16 / pr_mono32): within one stream the ordered (resp. unordered) messages in flight
   carry SSNs / MIDs that do not decrease with the TSN, equal numbers mean the same message, and the numbers in
   flight together span less than half the number space.  Established by Stream.packetize (consecutive numbers per
   message: StreamW.sw_packetize) and by the pending queue keeping the per-class (message mode) resp. per-stream
   (interleaving) order up to TSN assignment: C17.c17_fifo_message_mode, c17_fifo_per_stream, c17_msg_contiguous.

   DATA: an entry (sid, v) of the FORWARD-TSN can only concern abandoned messages: every ordered chunk of stream
   sid that is still in flight and whose SSN is serially <= v is abandoned.  Everything not in flight any more
   (TSN <= cumulative point) has been received, so an ordered message with SSN <= v that is not abandoned is
   complete at the receiver. *)
Theorem c07_no_collateral_ordered : forall s sid v,
  pr_winv s -> pr_small s -> pr_mono16 pr_ordered pr_ssn s -> In (sid, v) (snd (pr_mk_fwd s)) ->
  forall c, In c (pr_infl s) -> pr_unord c = false -> pr_sid c = sid -> in16 (pr_ssn c) ->
    sna16LTE (pr_ssn c) v = true -> pr_abandoned s c = true.
Proof. exact pr_no_collateral_ordered_thm. Qed.
Print Assumptions c07_no_collateral_ordered.

(* I-DATA: the same per (stream, U flag) *)
Theorem c07_no_collateral_mid : forall s sid u v,
  pr_winv s -> pr_small s -> pr_mono32 (fun c => Bool.eqb (pr_unord c) u) pr_mid s -> In (sid, u, v) (snd (pr_mk_ifwd s)) ->
  forall c, In c (pr_infl s) -> pr_unord c = u -> pr_sid c = sid -> in32 (pr_mid c) ->
    sna32LTE (pr_mid c) v = true -> pr_abandoned s c = true.
Proof. exact pr_no_collateral_mid_thm. Qed.
Print Assumptions c07_no_collateral_mid.

(* every in-flight TSN <= the new cumulative TSN is abandoned; when a FORWARD-TSN is due (adv >s cum) the message
   that straddles the cumulative point (earlier fragments acknowledged, the rest in flight) is abandoned *)
Theorem c07_no_collateral_tsn : forall s,
  pr_winv s -> pr_small s ->
  (forall c, In c (pr_infl s) -> sna32LTE (pr_tsn c) (pr_adv s) = true -> pr_abandoned s c = true) /\
  (sna32GT (pr_adv s) (pr_cum s) = true -> forall c, nth_error (pr_infl s) 0 = Some c -> pr_abandoned s c = true).
Proof. exact pr_no_collateral_tsn_thm. Qed.
Print Assumptions c07_no_collateral_tsn.

(* Receiver side, ordered DATA, with rqs_forward_ordered (only incomplete sets with SSN <= v are removed; complete
   sets and sets beyond v are kept; the unordered containers are untouched; the cursor moves past v).  Link
   hypothesis: an incomplete set at the receiver still has a fragment in flight at the sender (the receiver holds
   every TSN up to the sender's cumulative point).  Then every removed set belongs to an abandoned message. *)
Theorem c07_purge_only_abandoned_ordered : forall s q sid v,
  pr_winv s -> pr_small s -> pr_mono16 pr_ordered pr_ssn s -> In (sid, v) (snd (pr_mk_fwd s)) ->
  (forall S, In S (rq_ordered q) -> rqs_complete (rqs_chunks S) = false ->
     exists c, In c (pr_infl s) /\ pr_unord c = false /\ pr_sid c = sid /\ pr_ssn c = rqs_key S /\ in16 (pr_ssn c)) ->
  let q' := rq_fwd_ordered q v in
  (forall S, In S (rq_ordered q) -> ~ In S (rq_ordered q') ->
     exists c, In c (pr_infl s) /\ pr_sid c = sid /\ pr_ssn c = rqs_key S /\ pr_abandoned s c = true) /\
  (forall S, In S (rq_ordered q) -> (rqs_complete (rqs_chunks S) = true \/ sna16LTE (rqs_key S) v = false) -> In S (rq_ordered q')) /\
  rq_nextSSN q' = (if sna16LTE (rq_nextSSN q) v then wrap16 (v + 1) else rq_nextSSN q) /\
  rq_unordered q' = rq_unordered q /\ rq_uchunks q' = rq_uchunks q.
Proof. exact pr_purge_only_abandoned_ordered_thm. Qed.
Print Assumptions c07_purge_only_abandoned_ordered.

(* unordered DATA, with rqs_forward_unordered (a prefix of fragments with TSN <= new cumulative TSN is removed,
   nothing else changes).  [rel x c]: the held fragment x belongs to the message of the in-flight chunk c; link
   hypothesis: a held fragment at or below the new cumulative TSN is a copy of a chunk still in flight or belongs
   to the message straddling the sender's cumulative point (DATA fragments of a message have consecutive TSNs:
   c17_msg_contiguous).  Then every removed fragment belongs to an abandoned message. *)
Theorem c07_purge_only_abandoned_unordered : forall s q (rel : rqchunk -> pr_chunk -> Prop),
  pr_winv s -> pr_small s -> sna32GT (pr_adv s) (pr_cum s) = true ->
  (forall x, In x (rq_uchunks q) -> sna32GT (rqc_tsn x) (pr_adv s) = false ->
     (exists c, In c (pr_infl s) /\ pr_tsn c = rqc_tsn x /\ rel x c) \/
     (exists c0, nth_error (pr_infl s) 0 = Some c0 /\ rel x c0)) ->
  let q' := rq_fwd_unordered q (pr_adv s) in
  rq_uchunks q = rq_fwdu_removed q (pr_adv s) ++ rq_uchunks q' /\
  (forall x, In x (rq_fwdu_removed q (pr_adv s)) -> exists c, In c (pr_infl s) /\ rel x c /\ pr_abandoned s c = true) /\
  rq_ordered q' = rq_ordered q /\ rq_unordered q' = rq_unordered q /\ rq_nextSSN q' = rq_nextSSN q.
Proof. exact pr_purge_only_abandoned_unordered_thm. Qed.
Print Assumptions c07_purge_only_abandoned_unordered.

(* I-DATA *)
Theorem c07_purge_only_abandoned_ordered_mid : forall s q sid v,
  pr_winv s -> pr_small s -> pr_mono32 (fun c => Bool.eqb (pr_unord c) false) pr_mid s -> In (sid, false, v) (snd (pr_mk_ifwd s)) ->
  (forall S, In S (rq_orderedMID q) -> rqm_complete (rqs_chunks S) = false ->
     exists c, In c (pr_infl s) /\ pr_unord c = false /\ pr_sid c = sid /\ pr_mid c = rqs_key S /\ in32 (pr_mid c)) ->
  let q' := rq_fwd_ordered_mid q v in
  (forall S, In S (rq_orderedMID q) -> ~ In S (rq_orderedMID q') ->
     exists c, In c (pr_infl s) /\ pr_sid c = sid /\ pr_mid c = rqs_key S /\ pr_abandoned s c = true) /\
  (forall S, In S (rq_orderedMID q) -> (rqm_complete (rqs_chunks S) = true \/ sna32LTE (rqs_key S) v = false) -> In S (rq_orderedMID q')) /\
  rq_nextMID q' = (if sna32LTE (rq_nextMID q) v then wrap32 (v + 1) else rq_nextMID q).
Proof. exact pr_purge_only_abandoned_ordered_mid_thm. Qed.
Print Assumptions c07_purge_only_abandoned_ordered_mid.

Theorem c07_purge_only_abandoned_unordered_mid : forall s q sid v,
  pr_winv s -> pr_small s -> pr_mono32 (fun c => Bool.eqb (pr_unord c) true) pr_mid s -> In (sid, true, v) (snd (pr_mk_ifwd s)) ->
  (forall S, In S (rq_umidmap q) ->
     exists c, In c (pr_infl s) /\ pr_unord c = true /\ pr_sid c = sid /\ pr_mid c = rqs_key S /\ in32 (pr_mid c)) ->
  let q' := rq_fwd_unordered_mid q v in
  (forall S, In S (rq_umidmap q) -> ~ In S (rq_umidmap q') ->
     exists c, In c (pr_infl s) /\ pr_sid c = sid /\ pr_mid c = rqs_key S /\ pr_abandoned s c = true) /\
  rq_unorderedMID q' = rq_unorderedMID q /\ rq_orderedMID q' = rq_orderedMID q /\ rq_nextMID q' = rq_nextMID q.
Proof. exact pr_purge_only_abandoned_unordered_mid_thm. Qed.
Print Assumptions c07_purge_only_abandoned_unordered_mid.

(* the receive bitmap: advancing the cumulative TSN drops exactly the skipped TSNs and keeps every other bit
   (cited from the C05 development) *)
Theorem c07_bitmap_advance : forall q c, Inv q -> in32 c ->
  let a := dist (cum q) c in
  Inv (advance q c) /\
  (if (0 <? a) && (a <? H31)
   then cum (advance q c) = c /\ forall o, 1 <= o -> (held (advance q c) o <-> held q (o + a))
   else advance q c = q).
Proof. exact advance_spec. Qed.
Print Assumptions c07_bitmap_advance.

(* the cursor moves past the skipped messages and the next live message is readable as soon as it is complete *)
Theorem c07_cursor_advances : forall q v S rest,
  let q' := rq_fwd_ordered q v in
  (sna16LTE (rq_nextSSN q) v = true -> rq_nextSSN q' = wrap16 (v + 1)) /\
  (rq_inter q = false -> rq_ordered q' = S :: rest -> rqs_complete (rqs_chunks S) = true ->
   sna16LTE (rqs_key S) (rq_nextSSN q') = true -> rq_is_readable q' = true).
Proof. exact pr_cursor_advances_thm. Qed.
Print Assumptions c07_cursor_advances.

Theorem c07_cursor_advances_mid : forall q v S rest,
  let q' := rq_fwd_ordered_mid q v in
  (sna32LTE (rq_nextMID q) v = true -> rq_nextMID q' = wrap32 (v + 1)) /\
  (rq_inter q = true -> rq_orderedMID q' = S :: rest -> rqm_complete (rqs_chunks S) = true ->
   sna32LTE (rqs_key S) (rq_nextMID q') = true -> rq_is_readable q' = true).
Proof. exact pr_cursor_advances_mid_thm. Qed.
Print Assumptions c07_cursor_advances_mid.

(* ---------------------------------------------------------------- the first message of a stream (D29, fixed by 5722c17) *)

(* an entry for a stream the receiver has never seen creates the stream (as the first DATA chunk would have) with the
   skip applied, provided the accept queue has room; other streams are not touched *)
Theorem c07_skip_creates_stream : forall maxent sid f l accq,
  pr_streams_get sid l = None -> accq < c_acceptChSize ->
  let st := pr_skip_stream maxent sid f (l, accq) in
  pr_streams_get sid (fst st) = Some (f (rq_new sid maxent)) /\ snd st = accq + 1 /\
  (forall k, k <> sid -> pr_streams_get k (fst st) = pr_streams_get k l).
Proof. exact pr_skip_creates_stream_thm. Qed.
Print Assumptions c07_skip_creates_stream.

(* abandoned first message of stream 5 (nothing of it ever arrived): FORWARD-TSN (newCum 101, [(5, 0)]) reaches a
   receiver without stream 5; then the next ordered message (SSN 1) arrives: it is readable *)
Example c07_first_message_abandoned_now_delivered :
  let r := mkPrRcv (rpq_init (rpq_new 8388) 100) [] false true false 0 0 in
  let '(r1, res) := pr_recv_fwd r 101 [(5, 0)] in
  res = PrrApplied /\ cum (pr_r_pq r1) = 101 /\
  match pr_streams_get 5 (pr_r_streams r1) with
  | Some q => rq_nextSSN q = 1 /\
              rq_is_readable (fst (rq_push q (mkRqChunk 102 5 1 0 0 51 false true true false [7; 7]))) = true
  | None => False
  end.
Proof. vm_compute. repeat split; reflexivity. Qed.

(* the same arrival order in I-DATA mode *)
Example c07_first_message_abandoned_now_delivered_idata :
  let r := mkPrRcv (rpq_init (rpq_new 8388) 100) [] true false true 0 0 in
  let '(r1, res) := pr_recv_ifwd r 101 [(5, false, 0)] in
  res = PrrApplied /\
  match pr_streams_get 5 (pr_r_streams r1) with
  | Some q => rq_nextMID q = 1 /\
              rq_is_readable (fst (rq_push q (mkRqChunk 102 5 1 1 0 51 false true true true [7; 7]))) = true
  | None => False
  end.
Proof. vm_compute. repeat split; reflexivity. Qed.

(* D29 as it was before 5722c17 (handler looked the stream up and ignored a missing one): the skip is lost, the
   stream is created by the next DATA chunk with cursor 0 and the message with SSN 1 is never readable *)
Example c07_d29_witness_before_fix :
  let old_streams := fold_left (fun st (e : Z * Z) => pr_streams_upd (fst e) (fun x => rq_fwd_ordered x (snd e)) st)
                               [(5, 0)] (@nil (Z * rq)) in
  pr_streams_get 5 old_streams = None /\
  let q := fst (rq_push (rq_new 5 0) (mkRqChunk 102 5 1 0 0 51 false true true false [7; 7])) in
  rq_is_readable q = false /\ snd (rq_read q 100) = RdTryAgain /\ rq_nextSSN q = 0.
Proof. vm_compute. repeat split; reflexivity. Qed.

(* ---------------------------------------------------------------- non-vacuity *)

(* three messages on stream 5 (limit 0: abandoned at the first transmission) and a reliable one on stream 6,
   across the 2^32 wrap; T3 advances the point over the three abandoned chunks and stops at the live one; the
   FORWARD-TSN lists stream 5 with the serial maximum SSN; after the SACK for it the point equals the cumulative
   point again and the live chunk is still there *)
Example c07_example_history :
  let s0 := pr_init 4294967295 [(5, (c_ReliabilityTypeRexmit, 0)); (6, (c_ReliabilityTypeReliable, 0))] true false in
  let mk t sid ssn m := mkPrChunk t sid ssn 0 false true true m false 0 false false 0 in
  let evs := [PrSend (mk 4294967295 5 65535 1) 0; PrSend (mk 0 5 0 2) 0; PrSend (mk 1 5 1 3) 0; PrSend (mk 2 6 0 4) 0;
              PrT3; PrGather] in
  pr_run_ok pr_ev_sane s0 evs /\
  match pr_run s0 evs with
  | Some (s, outs) =>
      pr_cum s = 4294967294 /\ pr_adv s = 1 /\ outs = [PrOutFwd 1 [(5, 1)]] /\
      pr_span16 pr_ordered pr_ssn (firstn 3 (pr_infl s)) /\ pr_mono16 pr_ordered pr_ssn s /\
      match pr_run s [PrSack 1 []; PrGather] with
      | Some (s2, outs2) => pr_cum s2 = 1 /\ pr_adv s2 = 1 /\ map pr_tsn (pr_infl s2) = [2] /\ outs2 = []
      | None => False
      end
  | None => False
  end.
Proof.
  split; [apply pr_ev_saneb_sound; vm_compute; reflexivity|].
  vm_compute pr_run at 1. cbv iota beta. split; [reflexivity|]. split; [reflexivity|]. split; [reflexivity|]. split; [|split].
  - exists (fun _ => 65535). intros c Hc Hs. unfold in16.
    destruct Hc as [<-|[<-|[<-|[]]]]; cbn [pr_ssn pr_sid]; lia.
  - intros i j ci cj Hij Hi Hj Hsi Hsj Hsid. unfold in16.
    destruct i as [|[|[|[|i]]]]; destruct j as [|[|[|[|j]]]]; cbn [nth_error] in Hi, Hj; try discriminate; try lia;
      try (destruct i; discriminate); try (destruct j; discriminate);
      inversion Hi; inversion Hj; subst; cbn [pr_sid] in Hsid; try discriminate; cbn [pr_ssn pr_msg]; lia.
  - vm_compute. repeat split; reflexivity.
Qed.
