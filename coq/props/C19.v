(* C19 — timer laws.
   Models: coq/model/Rto.v (rtoManager, calculateNextTimeout, math.Max/Min; IEEE binary64 primitive floats),
           coq/model/TimerFsm.v (rtxTimer, ackTimer with the pending counter and in-flight callbacks; the ack
           decision; Karn's rule).
   Only statements closed by [exact] + Print Assumptions here.  The float theorems depend on the primitive-float
   interface of the standard library and, where marked (Flocq), on the axioms of Reals; the integer theorems are
   closed under the global context. *)
From Coq Require Import ZArith Bool List Floats.
From Sctp Require Import Gen RPQ Rto RtoProofs TimerFsm TimerProofs.
Import ListNotations.

(* ================================================================================================ *)
(* 1. RTO bounds (floats)                                                                            *)
(* ================================================================================================ *)

(* The clamp math.Min(math.Max(srtt+4*rttvar, rtoMin), rtoMax): for every input that is not NaN and every
   rtoMax that is not NaN the result is in [rtoMin, rtoMax] when rtoMin <= rtoMax, and is exactly rtoMax when
   rtoMax < rtoMin.  fle/flt are the IEEE comparisons <= / < (false on NaN).  No Reals, no Flocq. *)
Theorem c19_rto_clamp_range : forall s v mx,
  fnan (s + 4 * v) = false -> fnan mx = false ->
  (fle rto_min mx -> fle rto_min (rto_clamp s v mx) /\ fle (rto_clamp s v mx) mx) /\
  (flt mx rto_min -> rto_clamp s v mx = mx).
Proof. exact rto_clamp_range. Qed.
Print Assumptions c19_rto_clamp_range.

(* a NaN input makes the RTO NaN (unless rtoMax = -Inf) *)
Theorem c19_rto_clamp_nan : forall s v mx,
  fnan (s + 4 * v) = true -> rto_isinf_neg mx = false -> fnan (rto_clamp s v mx) = true.
Proof. exact rto_clamp_nan. Qed.
Print Assumptions c19_rto_clamp_nan.

(* rto_bounds (Flocq): for every configured maximum that is not NaN and every sequence of setNewRTT calls with
   finite, non-negative samples (0 <= r < +Inf; this excludes NaN), interleaved with reset(), the manager keeps
   the effective maximum (defaultRTOMax if 0 was configured) and rtoMin <= rto <= rtoMax whenever
   rtoMin <= rtoMax.  The initial state and the state after reset are included (empty sequence). *)
Theorem c19_rto_bounds : forall mx0 evs,
  fnan mx0 = false -> Forall rto_ev_ok evs ->
  let m := fold_left rto_apply evs (rto_new mx0) in
  rm_rtomax m = rto_eff_max mx0 /\
  (fle rto_min (rto_eff_max mx0) -> fle rto_min (rto_get m) /\ fle (rto_get m) (rto_eff_max mx0)).
Proof. exact rto_bounds. Qed.
Print Assumptions c19_rto_bounds.

(* when the configured maximum is below rtoMin (one second), every update sets rto to exactly that maximum *)
Theorem c19_rto_small_max : forall mx0 evs r,
  fnan mx0 = false -> Forall rto_ev_ok evs -> sample_ok r ->
  flt (rto_eff_max mx0) rto_min ->
  rto_get (fold_left rto_apply (evs ++ [ESample r]) (rto_new mx0)) = rto_eff_max mx0.
Proof. exact rto_small_max. Qed.
Print Assumptions c19_rto_small_max.

(* srtt and rttvar stay >= 0 (hence not NaN) under finite non-negative samples: the clamp input is never NaN *)
Theorem c19_rto_smoothing_never_nan : forall s v r, fle 0 s -> fle 0 v -> sample_ok r ->
  fle 0 (fst (rto_smooth s v r)) /\ fle 0 (snd (rto_smooth s v r)) /\
  fnan (fst (rto_smooth s v r) + 4 * snd (rto_smooth s v r)) = false.
Proof.
  intros s v r Hs Hv Hr. destruct (rto_smooth_nn s v r Hs Hv Hr) as (H1 & H2).
  split; [exact H1|]. split; [exact H2|]. apply rto_clamp_input_not_nan; assumption.
Qed.
Print Assumptions c19_rto_smoothing_never_nan.

(* the hypotheses are satisfiable: 0, the smallest subnormal, typical and the largest finite float are samples *)
Example c19_sample_ok_examples :
  sample_ok 0 /\ sample_ok 0x1p-1074 /\ sample_ok 37.5 /\ sample_ok 0x1.fffffffffffffp1023 /\
  fnan 60000 = false /\ fle rto_min (rto_eff_max 0) /\ flt (rto_eff_max 500) rto_min.
Proof. repeat split; reflexivity. Qed.

(* what the excluded samples do (evaluated on the model; the differential confirms the same bits on the Go code):
   one +Inf sample still gives rto = rtoMax, the second one makes rto NaN (Inf - Inf); a NaN sample poisons the
   manager for good; a negative sample is clamped like any other. *)
Example c19_rto_nan_from_two_infinite_samples :
  rto_get (fold_left rto_apply [ESample infinity] (rto_new 0)) = 60000%float /\
  fnan (rto_get (fold_left rto_apply [ESample infinity; ESample infinity] (rto_new 0))) = true /\
  fnan (rto_get (fold_left rto_apply [ESample nan; ESample 100; ESample 100] (rto_new 0))) = true /\
  rto_get (fold_left rto_apply [ESample (-5000)] (rto_new 0)) = 1000%float.
Proof. repeat split; reflexivity. Qed.

(* ================================================================================================ *)
(* 2. back-off (floats)                                                                              *)
(* ================================================================================================ *)

(* calculateNextTimeout = math.Min(rto * 2^n, rtoMax) for fewer than 31 expiries, rtoMax from then on;
   float64(1 << n) is the float 2^n *)
Theorem c19_backoff_law : forall rto n mx,
  (0 <= n < 31 -> rto_next_timeout rto n mx = rto_gomin (rto * rto_pow2 n) mx /\
                  Prim2SF (rto_pow2 n) = S754_finite false 4503599627370496 (n - 52))%Z /\
  (31 <= n -> rto_next_timeout rto n mx = mx)%Z.
Proof.
  intros rto n mx. split.
  - intro H. split; [apply rto_next_timeout_law; exact H | apply rto_pow2_spec; exact H].
  - apply rto_next_timeout_law.
Qed.
Print Assumptions c19_backoff_law.

(* (Flocq) every time-out handed to the runtime timer is at most rtoMax (rto >= 0, rtoMax not NaN) ... *)
Theorem c19_backoff_le_max : forall rto n mx, (0 <= n)%Z ->
  fle 0 rto -> fnan mx = false -> fle (rto_next_timeout rto n mx) mx.
Proof. exact rto_next_timeout_le_max. Qed.
Print Assumptions c19_backoff_le_max.

(* ... and, for an rto that is at least rtoMin, lies in [rtoMin, rtoMax]; with rtoMax < rtoMin it is rtoMax *)
Theorem c19_backoff_bounds : forall rto n mx, (0 <= n)%Z ->
  fle rto_min rto -> fnan mx = false ->
  (fle rto_min mx -> fle rto_min (rto_next_timeout rto n mx) /\ fle (rto_next_timeout rto n mx) mx) /\
  (flt mx rto_min -> rto_next_timeout rto n mx = mx).
Proof. exact rto_next_timeout_bounds. Qed.
Print Assumptions c19_backoff_bounds.

(* (Flocq) multiplication by a power of two is exact unless it overflows: rto * 2^(n+1) and (rto * 2^n) * 2 are
   the same float, bit for bit, for every rto (zeros, infinities, NaN included) *)
Theorem c19_backoff_pow2_exact : forall (rto : float) n, (0 <= n < 30)%Z ->
  (rto * rto_pow2 (n + 1)%Z = (rto * rto_pow2 n) * 2)%float.
Proof. exact rto_mul_pow2_succ. Qed.
Print Assumptions c19_backoff_pow2_exact.

(* doubling law: while the backed-off value rto*2^n is still below rtoMax, T(n) is that value and
   T(n+1) = Min(2 * T(n), rtoMax) *)
Theorem c19_backoff_doubling : forall (rto : float) n mx, (0 <= n < 30)%Z ->
  flt (rto * rto_pow2 n) mx ->
  rto_next_timeout rto n mx = (rto * rto_pow2 n)%float /\
  rto_next_timeout rto (n + 1)%Z mx = rto_gomin (rto_next_timeout rto n mx * 2) mx.
Proof. exact rto_backoff_doubling. Qed.
Print Assumptions c19_backoff_doubling.

(* the time-out never decreases from one expiry to the next (rto >= 0, rtoMax not NaN, every n >= 0) *)
Theorem c19_backoff_monotone : forall rto n mx, (0 <= n)%Z ->
  fle 0 rto -> fnan mx = false -> fle (rto_next_timeout rto n mx) (rto_next_timeout rto (n + 1)%Z mx).
Proof. exact rto_backoff_monotone. Qed.
Print Assumptions c19_backoff_monotone.

(* the schedule of T1-init with the default maximum: 1, 2, 4, 8, 16, 32, 60, 60, 60 seconds *)
Example c19_backoff_schedule :
  map (fun n => rto_next_timeout 1000 n 60000) [0; 1; 2; 3; 4; 5; 6; 7; 8; 30; 31; 1000]%Z =
  [1000; 2000; 4000; 8000; 16000; 32000; 60000; 60000; 60000; 60000; 60000; 60000]%float.
Proof. reflexivity. Qed.

(* ================================================================================================ *)
(* 3. timer state machines (integers; no axioms)                                                     *)
(* ================================================================================================ *)
Open Scope Z_scope.

(* no stale and no early expiry: in every run of start/stop/close/isRunning/clock/fire/run events (any
   interleaving; fewer than 255 callbacks waiting for the mutex at any time), a step that hands a callback to the
   observer is a callback run, the timer was not stopped or closed since its last start, no arming is pending,
   the running callback is the last one in flight and the deadline of the latest arming has been reached. *)
Theorem c19_timer_no_stale_expiry : forall id mr mx pre e,
  rtx_small_run (rtx_new id mr mx) pre ->
  let t := rtx_exec (rtx_new id mr mx) pre in
  rtx_small t ->
  tm_is_callback (snd (rtx_step t e)) = true ->
  (exists k, e = TRun k) /\
  tc_state (rx_core t) = tm_started /\ tc_armed (rx_core t) = None /\
  length (tc_inflight (rx_core t)) = 1%nat /\ tc_lastdl (rx_core t) <= tc_now (rx_core t).
Proof. exact rtx_no_stale_expiry. Qed.
Print Assumptions c19_timer_no_stale_expiry.

(* the pending counter is the number of armed runtime timers (0 or 1) plus the callbacks in flight *)
Theorem c19_timer_pending_counts : forall id mr mx evs,
  rtx_small_run (rtx_new id mr mx) evs ->
  let c := rx_core (rtx_exec (rtx_new id mr mx) evs) in
  tc_pending c = tm_b2z (tc_armed c) + Z.of_nat (length (tc_inflight c)) /\
  (tc_armed c <> None -> tc_state c = tm_started).
Proof. exact rtx_pending_counts. Qed.
Print Assumptions c19_timer_pending_counts.

(* retry bound: maxRetrans = N > 0.  After start, under clock / fire / run events only, the observer sees a
   prefix of timeout(1) .. timeout(N), failure: the failure is reported at expiry N+1 and the timer is then
   stopped with nothing armed and nothing in flight; before that it is started with exactly one arming or
   callback outstanding. *)
Theorem c19_retry_bound : forall t rto evs N,
  rtx_clean t -> rx_maxretrans t = N -> 0 < N < 18446744073709551615 -> Forall tm_quiet evs ->
  let r := rtx_run (fst (rtx_step t (TStart rto))) evs in
  exists n : nat,
    tm_callbacks (snd r) = rtx_expiries (rx_id t) N 0 n /\ Z.of_nat n <= N + 1 /\
    (Z.of_nat n <= N -> rtx_live (fst r) (Z.of_nat n)) /\
    (Z.of_nat n = N + 1 -> rtx_dead (fst r)).
Proof. exact rtx_retry_bound. Qed.
Print Assumptions c19_retry_bound.

(* maxRetrans = 0: no failure is ever reported and the timer stays live *)
Theorem c19_never_gives_up : forall evs t,
  rtx_inv t -> rx_maxretrans t = 0 -> rtx_alive t -> Forall tm_quiet evs ->
  (forall id, ~ In (OFailure id) (snd (rtx_run t evs))) /\ rtx_alive (fst (rtx_run t evs)).
Proof. exact rtx_never_gives_up. Qed.
Print Assumptions c19_never_gives_up.

(* which timers are bounded: T1-init and T1-cookie use maxInitRetrans (generated constant, 8); T2-shutdown,
   T3-rtx and reconfig use 0 = retransmit for as long as the association lives *)
Theorem c19_timer_retry_limits :
  tm_max_retrans c_timerT1Init = c_maxInitRetrans /\ tm_max_retrans c_timerT1Cookie = c_maxInitRetrans /\
  tm_max_retrans c_timerT2Shutdown = 0 /\ tm_max_retrans c_timerT3RTX = 0 /\ tm_max_retrans c_timerReconfig = 0 /\
  0 < c_maxInitRetrans < 18446744073709551615.
Proof. exact tm_max_retrans_table. Qed.
Print Assumptions c19_timer_retry_limits.

Theorem c19_start_when_started_is_noop : forall t rto,
  tc_state (rx_core t) <> tm_stopped -> rtx_step t (TStart rto) = (t, OStarted false).
Proof. exact rtx_start_when_not_stopped_is_noop. Qed.
Print Assumptions c19_start_when_started_is_noop.

Theorem c19_stop_when_stopped_is_noop : forall t,
  tc_state (rx_core t) <> tm_started -> rtx_step t TStop = (t, ONone).
Proof. exact rtx_stop_when_not_started_is_noop. Qed.
Print Assumptions c19_stop_when_stopped_is_noop.

Theorem c19_closed_is_final : forall t e, rtx_inv t -> rtx_small t -> tc_state (rx_core t) = tm_closed ->
  tc_state (rx_core (fst (rtx_step t e))) = tm_closed /\ tm_is_callback (snd (rtx_step t e)) = false.
Proof. exact rtx_closed_step. Qed.
Print Assumptions c19_closed_is_final.

(* ack timer: the acknowledgement callback comes from a started timer whose 200 ms deadline has passed, it is
   delivered once (the timer is stopped by it), a second start does not move the deadline *)
Theorem c19_ack_timer_no_stale_expiry : forall pre e,
  ack_small_run tc_init pre ->
  let c := ack_exec tc_init pre in
  tm_small c ->
  tm_is_callback (snd (ack_step c e)) = true ->
  (exists k, e = TRun k) /\ snd (ack_step c e) = OAck /\
  tc_state c = tm_started /\ tc_armed c = None /\
  length (tc_inflight c) = 1%nat /\ tc_lastdl c <= tc_now c /\
  tc_state (fst (ack_step c e)) = tm_stopped.
Proof. exact ack_no_stale_expiry. Qed.
Print Assumptions c19_ack_timer_no_stale_expiry.

Theorem c19_ack_timer_start : forall c r,
  (tc_state c = tm_stopped ->
   tc_armed (fst (ack_step c (TStart r))) = Some (tc_gen c, tc_now c + 200 * 1000000) /\
   tc_state (fst (ack_step c (TStart r))) = tm_started) /\
  (tc_state c <> tm_stopped -> ack_step c (TStart r) = (c, OStarted false)).
Proof.
  intros c r. split.
  - intro H. destruct (ack_start_arms c r H) as (_ & H1 & H2). split; assumption.
  - apply ack_start_when_not_stopped_is_noop.
Qed.
Print Assumptions c19_ack_timer_start.

(* ================================================================================================ *)
(* 4. Karn's rule and the ack decision (integers; no axioms)                                         *)
(* ================================================================================================ *)

(* every TSN whose round trip a SACK feeds to setNewRTT belongs to a chunk with nSent = 1 that was not
   acknowledged before; a single decision needs nSent = 1 and tsn >= minTSN2MeasureRTT (serial) *)
Theorem c19_karn : forall chunks mn nx t,
  In t (snd (karn_sack mn nx chunks)) -> In (t, 1, false) chunks.
Proof. exact karn_sack_sound. Qed.
Print Assumptions c19_karn.

Theorem c19_karn_decision : forall tsn mn ns,
  karn_takes_sample tsn mn ns = true -> ns = 1 /\ sna32GTE tsn mn = true.
Proof. exact karn_sample_only_first_transmission. Qed.
Print Assumptions c19_karn_decision.

(* after a packet with at least one DATA chunk: immediate SACK scheduled, or state Delay with the timer running *)
Theorem c19_ack_after_data : forall a tmr chunks, chunks <> [] ->
  tc_state tmr = tm_stopped \/ tc_state tmr = tm_started ->
  let r := ack_packet a tmr chunks in
  ak_state (fst r) = c_ackStateImmediate \/
  (ak_state (fst r) = c_ackStateDelay /\ tc_state (snd r) = tm_started).
Proof. exact ack_after_data. Qed.
Print Assumptions c19_ack_after_data.

(* a gap (sackImmediately or hasPacketLoss on any chunk of the packet) forces the immediate path *)
Theorem c19_ack_gap_immediate : forall a tmr chunks,
  (exists ch, In ch chunks /\ fst ch || snd ch = true) ->
  ak_state (fst (ack_packet a tmr chunks)) = c_ackStateImmediate.
Proof. exact ack_gap_immediate. Qed.
Print Assumptions c19_ack_gap_immediate.

(* the delayed path arms exactly 200 ms; while in Delay every further DATA packet is acknowledged at once, so the
   delay cannot be extended *)
Theorem c19_ack_delay_is_200ms : forall a tmr chunks,
  tc_state tmr = tm_stopped ->
  ak_state (fst (ack_packet a tmr chunks)) = c_ackStateDelay -> ak_state a <> c_ackStateDelay ->
  tc_armed (snd (ack_packet a tmr chunks)) = Some (tc_gen tmr, tc_now tmr + 200 * 1000000).
Proof. exact ack_delay_arms_200ms. Qed.
Print Assumptions c19_ack_delay_is_200ms.

Theorem c19_ack_second_packet_immediate : forall a tmr chunks, chunks <> [] ->
  ak_state a = c_ackStateDelay -> ak_state (fst (ack_packet a tmr chunks)) = c_ackStateImmediate.
Proof. exact ack_second_packet_immediate. Qed.
Print Assumptions c19_ack_second_packet_immediate.

(* duplicates (handleData after 19816ad): a DATA chunk whose TSN is at or below the cumulative point, or already held,
   and not beyond the tracking window, is appended to the duplicate list (the queue is otherwise unchanged), the next
   SACK's duplicate list (popDuplicates) contains it, and sackNow is true ... *)
Theorem c19_duplicate_recorded : forall q tsn,
  sna32LTE tsn (cum q) || has_chunk q tsn = true ->
  sna32GT tsn (wrap32 (cum q + max_off q)) = false ->
  let r := ack_record_duplicate q tsn in
  snd r = true /\ dups (fst r) = dups q ++ [tsn] /\ In tsn (snd (pop_duplicates (fst r))) /\
  cum (fst r) = cum q /\ tail (fst r) = tail q /\ size (fst r) = size q /\ bits (fst r) = bits q /\
  forall imm last st, ack_sack_now imm (snd r) tsn last st = true.
Proof. exact ack_duplicate_recorded. Qed.
Print Assumptions c19_duplicate_recorded.

(* ... so the packet that carries it is acknowledged at once, whatever else it carries, in every ack state and mode *)
Theorem c19_duplicate_ack_immediate : forall q tsn a tmr before after imm last st loss,
  sna32LTE tsn (cum q) || has_chunk q tsn = true ->
  sna32GT tsn (wrap32 (cum q + max_off q)) = false ->
  let dup := snd (ack_record_duplicate q tsn) in
  ak_state (fst (ack_packet a tmr (before ++ (ack_sack_now imm dup tsn last st, loss) :: after))) = c_ackStateImmediate.
Proof. exact ack_duplicate_immediate. Qed.
Print Assumptions c19_duplicate_ack_immediate.

(* the flag computed by the code (did the duplicate list grow?) is exactly "rejected by canPush and not beyond the window" *)
Theorem c19_duplicate_flag : forall q tsn,
  snd (ack_record_duplicate q tsn) =
  ack_duplicate_flag (can_push q tsn) (sna32GT tsn (wrap32 (cum q + max_off q))).
Proof. exact ack_record_duplicate_flag. Qed.
Print Assumptions c19_duplicate_flag.

(* ================================================================================================ *)
(* examples and refutation (vm_compute witnesses)                                                   *)
(* ================================================================================================ *)

(* T1-init with the default maximum: expiries after 1,2,4,8,16,32,60,60,60 s; eight retransmissions, the ninth
   expiry reports failure at 243 s and leaves the timer stopped *)
Example c19_retry_example :
  let durs := [1000; 2000; 4000; 8000; 16000; 32000; 60000; 60000; 60000] in
  let evs := flat_map (fun d => [TAdvance (d * tm_ms); TFire; TRun 0]) durs in
  let r := rtx_run (fst (rtx_step (rtx_new c_timerT1Init (tm_max_retrans c_timerT1Init) 0) (TStart 1000))) evs in
  tm_callbacks (snd r) =
    [OTimeout 0 1; OTimeout 0 2; OTimeout 0 3; OTimeout 0 4; OTimeout 0 5; OTimeout 0 6; OTimeout 0 7; OTimeout 0 8;
     OFailure 0] /\
  existsb (fun o => match o with OInvalid => true | _ => false end) (snd r) = false /\
  tc_now (rx_core (fst r)) = 243000 * tm_ms /\ tc_state (rx_core (fst r)) = tm_stopped.
Proof. vm_compute. repeat split. Qed.

(* the bound on waiting callbacks is needed: with 256 expired callbacks parked on the mutex the uint8 counter
   wraps and a stale callback delivers a time-out for a freshly started timer before its deadline *)
Example c19_pending_wrap_refuted :
  let cyc := [TStart 1; TAdvance tm_ms; TFire; TStop] in
  let evs := concat (repeat cyc 256) ++ [TStart 1000] in
  let t := rtx_exec (rtx_new 3 0 0) evs in
  length (tc_inflight (rx_core t)) = 256%nat /\ tc_pending (rx_core t) = 1 /\
  snd (rtx_step t (TRun 0)) = OTimeout 3 1 /\ tc_now (rx_core t) < tc_lastdl (rx_core t).
Proof. vm_compute. repeat split. Qed.

(* D15 (repaired in /repo by 19816ad; before it the model refuted the clause: a duplicate of the cumulative TSN took the
   delayed path).  Non-vacuity of the duplicate theorems: on a queue that has received 101 and 103 after cumulative
   TSN 100, TSN 100 (at the cumulative point) and TSN 103 (already held) are duplicates, 102 is not. *)
Example c19_duplicate_example :
  let q := fst (push (fst (push (rpq_init (rpq_new 8388) 100) 103)) 101) in
  snd (ack_record_duplicate q 100) = true /\ snd (ack_record_duplicate q 103) = true /\
  snd (ack_record_duplicate q 102) = false /\
  snd (pop_duplicates (fst (ack_record_duplicate (fst (ack_record_duplicate q 100)) 103))) = [100; 103] /\
  ak_state (fst (ack_packet (mkAck c_ackStateIdle c_ackModeNormal false false) tc_init
             [(ack_sack_now false (snd (ack_record_duplicate q 100)) 100 100 c_established, false)])) = c_ackStateImmediate.
Proof. vm_compute. repeat split. Qed.
