// Translator: a subset of Go (pure scalar functions and integer constants of
// package sctp) -> Coq definitions over Z.  Regenerated on every check run, so
// that the theorems in coq/props are re-checked against what the source says now.
//
// Subset semantics (trusted):
//   - uint8/16/32/64 arithmetic (+ - * <<) wraps modulo 2^N: emitted as `wrapN (...)`.
//   - int/int64/uint are unbounded Z (the translated functions never approach 2^63;
//     every such use is flagged in the output header).
//   - / and % on non-negative operands are Z.div / Z.modulo.
//   - untyped constant expressions are folded to literals.
//
// Anything outside the subset makes the translator exit with status 2 and a
// message naming the construct; it never guesses.
package main

import (
	"fmt"
	"go/ast"
	"go/parser"
	"go/token"
	"math/big"
	"os"
	"path/filepath"
	"sort"
	"strings"
)

var wantFuncs = []string{
	"getPadding",
	"sna32LT", "sna32LTE", "sna32GT", "sna32GTE", "sna32EQ",
	"sna16LT", "sna16LTE", "sna16GT", "sna16GTE", "sna16EQ",
	"payloadDataChunkHeaderSize", "maxPayloadSizeForMTU", "getMaxTSNOffset",
	"min16", "max32", "min32",
	"isDataReceiveState", "isShutdownHandleState", "entersShutdownReceived",
	"isReassemblyQueueLimitReached",
}

// constants that must exist (others in the same blocks are emitted too when integer).
var wantConsts = []string{
	"paddingMultiple", "receiveMTU", "initialMTU", "initialRecvBufSize", "commonHeaderSize",
	"dataChunkHeaderSize", "iDataChunkHeaderSize", "defaultMaxMessageSize",
	"closed", "cookieWait", "cookieEchoed", "established", "shutdownAckSent", "shutdownPending",
	"shutdownReceived", "shutdownSent",
	"avgChunkSize", "minTSNOffset", "maxTSNOffset", "maxReconfigRequests",
	"packetHeaderSize", "chunkHeaderSize", "payloadDataHeaderSize", "iDataHeaderSize",
	"maxInitRetrans", "pathMaxRetrans", "noMaxRetrans",
	"ackStateIdle", "ackStateImmediate", "ackStateDelay",
	"payloadDataEndingFragmentBitmask", "payloadDataBeginingFragmentBitmask",
	"payloadDataUnorderedBitmask", "payloadDataImmediateSACK",
	"selectiveAckHeaderSize", "paramHeaderLength", "initChunkMinLength", "initOptionalVarHeaderLength",
	"newCumulativeTSNLength", "forwardTSNStreamLength",
	"iForwardTSNEntryLength", "maxIForwardTSNStreams", "cumulativeTSNAckLength",
}

type ctype struct {
	name string // "uint32", "int", "bool", "untyped"
}

func bitsOf(t string) int {
	switch t {
	case "uint8", "byte":
		return 8
	case "uint16":
		return 16
	case "uint32":
		return 32
	case "uint64":
		return 64
	}
	return 0
}

func isIntType(t string) bool {
	switch t {
	case "uint8", "byte", "uint16", "uint32", "uint64", "int", "int64", "int32", "uint", "untyped":
		return true
	}
	return false
}

type constVal struct {
	typ string
	val *big.Int
}

type tr struct {
	fset   *token.FileSet
	consts map[string]constVal
	funcs  map[string]*ast.FuncDecl
	ftype  map[string]string // return type
	notes  []string
	order  []string // const emission order
}

func die(pos token.Position, format string, args ...interface{}) {
	fmt.Fprintf(os.Stderr, "translator: %s: unsupported: %s\n", pos, fmt.Sprintf(format, args...))
	os.Exit(2)
}

func (t *tr) pos(n ast.Node) token.Position { return t.fset.Position(n.Pos()) }

// ---------- constant evaluation ----------

func (t *tr) evalConst(e ast.Expr, iota int64) (constVal, bool) {
	switch x := e.(type) {
	case *ast.BasicLit:
		if x.Kind == token.INT {
			v := new(big.Int)
			if _, ok := v.SetString(x.Value, 0); !ok {
				return constVal{}, false
			}
			return constVal{"untyped", v}, true
		}
		if x.Kind == token.FLOAT {
			return constVal{}, false
		}
		return constVal{}, false
	case *ast.Ident:
		if x.Name == "iota" {
			return constVal{"untyped", big.NewInt(iota)}, true
		}
		if c, ok := t.consts[x.Name]; ok {
			return c, true
		}
		return constVal{}, false
	case *ast.ParenExpr:
		return t.evalConst(x.X, iota)
	case *ast.CallExpr:
		if id, ok := x.Fun.(*ast.Ident); ok && len(x.Args) == 1 && isIntType(id.Name) {
			c, ok := t.evalConst(x.Args[0], iota)
			if !ok {
				return constVal{}, false
			}
			return constVal{id.Name, c.val}, true
		}
		return constVal{}, false
	case *ast.BinaryExpr:
		a, ok1 := t.evalConst(x.X, iota)
		b, ok2 := t.evalConst(x.Y, iota)
		if !ok1 || !ok2 {
			return constVal{}, false
		}
		typ := a.typ
		if typ == "untyped" {
			typ = b.typ
		}
		if x.Op == token.SHL || x.Op == token.SHR {
			typ = a.typ
		}
		r := new(big.Int)
		switch x.Op {
		case token.ADD:
			r.Add(a.val, b.val)
		case token.SUB:
			r.Sub(a.val, b.val)
		case token.MUL:
			r.Mul(a.val, b.val)
		case token.QUO:
			if b.val.Sign() == 0 {
				return constVal{}, false
			}
			r.Quo(a.val, b.val)
		case token.REM:
			if b.val.Sign() == 0 {
				return constVal{}, false
			}
			r.Rem(a.val, b.val)
		case token.SHL:
			r.Lsh(a.val, uint(b.val.Int64()))
		case token.SHR:
			r.Rsh(a.val, uint(b.val.Int64()))
		case token.OR:
			r.Or(a.val, b.val)
		case token.AND:
			r.And(a.val, b.val)
		default:
			return constVal{}, false
		}
		return constVal{typ, r}, true
	}
	return constVal{}, false
}

func (t *tr) collectConsts(files []*ast.File) {
	// iterate to a fixpoint because blocks may reference constants of other files
	for pass := 0; pass < 4; pass++ {
		for _, f := range files {
			for _, d := range f.Decls {
				gd, ok := d.(*ast.GenDecl)
				if !ok || gd.Tok != token.CONST {
					continue
				}
				var lastType string
				var lastVals []ast.Expr
				for i, s := range gd.Specs {
					vs := s.(*ast.ValueSpec)
					typ := ""
					if vs.Type != nil {
						if id, ok := vs.Type.(*ast.Ident); ok {
							typ = id.Name
						} else {
							typ = "?"
						}
					}
					vals := vs.Values
					if len(vals) == 0 {
						vals = lastVals
						if typ == "" {
							typ = lastType
						}
					} else {
						lastVals = vals
						lastType = typ
					}
					for j, n := range vs.Names {
						if n.Name == "_" || j >= len(vals) {
							continue
						}
						if _, done := t.consts[n.Name]; done {
							continue
						}
						c, ok := t.evalConst(vals[j], int64(i))
						if !ok {
							continue
						}
						if typ != "" {
							if !isIntType(typ) && typ != "chunkType" && typ != "paramType" && typ != "errorCauseCode" && typ != "reconfigResult" {
								continue
							}
							c.typ = typ
						}
						t.consts[n.Name] = c
						t.order = append(t.order, n.Name)
					}
				}
			}
		}
	}
}

// ---------- expression translation ----------

type env map[string]string // variable -> type

func unify(a, b string) string {
	if a == "untyped" {
		return b
	}
	return a
}

func wrap(typ, s string) string {
	if n := bitsOf(typ); n > 0 {
		return fmt.Sprintf("(wrap%d %s)", n, s)
	}
	return s
}

func zlit(v *big.Int) string {
	if v.Sign() < 0 {
		return "(" + v.String() + ")"
	}
	return v.String()
}

// expr returns Coq text and Go type.
func (t *tr) expr(e ast.Expr, en env) (string, string) {
	if c, ok := t.evalConstNoIdentVars(e, en); ok {
		return zlit(c.val), c.typ
	}
	switch x := e.(type) {
	case *ast.ParenExpr:
		return t.expr(x.X, en)
	case *ast.Ident:
		if x.Name == "true" || x.Name == "false" {
			return x.Name, "bool"
		}
		if ty, ok := en[x.Name]; ok {
			return x.Name, ty
		}
		if c, ok := t.consts[x.Name]; ok {
			return "c_" + x.Name, c.typ
		}
		die(t.pos(x), "unknown identifier %s", x.Name)
	case *ast.UnaryExpr:
		if x.Op == token.NOT {
			s, ty := t.expr(x.X, en)
			if ty != "bool" {
				die(t.pos(x), "! on non-bool")
			}
			return "(negb " + s + ")", "bool"
		}
		die(t.pos(x), "unary %s", x.Op)
	case *ast.CallExpr:
		id, ok := x.Fun.(*ast.Ident)
		if !ok {
			die(t.pos(x), "call of non-identifier")
		}
		if isIntType(id.Name) && len(x.Args) == 1 { // conversion
			s, from := t.expr(x.Args[0], en)
			to := id.Name
			if from == "bool" {
				die(t.pos(x), "conversion from bool")
			}
			nb, fb := bitsOf(to), bitsOf(from)
			if nb > 0 && (fb == 0 || fb > nb) && from != "untyped" {
				return wrap(to, s), to
			}
			if nb == 0 && fb == 0 && from != "untyped" && from != to {
				t.notes = append(t.notes, fmt.Sprintf("%s: conversion %s->%s treated as identity on Z", t.pos(x), from, to))
			}
			return s, to
		}
		if id.Name == "min" || id.Name == "max" {
			if len(x.Args) != 2 {
				die(t.pos(x), "%s with %d args", id.Name, len(x.Args))
			}
			a, ta := t.expr(x.Args[0], en)
			b, tb := t.expr(x.Args[1], en)
			fn := "Z.min"
			if id.Name == "max" {
				fn = "Z.max"
			}
			return fmt.Sprintf("(%s %s %s)", fn, a, b), unify(ta, tb)
		}
		if _, ok := t.funcs[id.Name]; ok {
			var args []string
			for _, a := range x.Args {
				s, _ := t.expr(a, en)
				args = append(args, s)
			}
			rt, ok := t.ftype[id.Name]
			if !ok {
				die(t.pos(x), "call to %s before its translation (ordering)", id.Name)
			}
			return "(" + id.Name + " " + strings.Join(args, " ") + ")", rt
		}
		die(t.pos(x), "call to untranslated function %s", id.Name)
	case *ast.BinaryExpr:
		a, ta := t.expr(x.X, en)
		b, tb := t.expr(x.Y, en)
		switch x.Op {
		case token.LAND:
			return fmt.Sprintf("(andb %s %s)", a, b), "bool"
		case token.LOR:
			return fmt.Sprintf("(orb %s %s)", a, b), "bool"
		case token.EQL:
			if ta == "bool" {
				return fmt.Sprintf("(Bool.eqb %s %s)", a, b), "bool"
			}
			return fmt.Sprintf("(%s =? %s)", a, b), "bool"
		case token.NEQ:
			return fmt.Sprintf("(negb (%s =? %s))", a, b), "bool"
		case token.LSS:
			return fmt.Sprintf("(%s <? %s)", a, b), "bool"
		case token.LEQ:
			return fmt.Sprintf("(%s <=? %s)", a, b), "bool"
		case token.GTR:
			return fmt.Sprintf("(%s >? %s)", a, b), "bool"
		case token.GEQ:
			return fmt.Sprintf("(%s >=? %s)", a, b), "bool"
		}
		ty := unify(ta, tb)
		if x.Op == token.SHL || x.Op == token.SHR {
			ty = ta
		}
		if !isIntType(ty) {
			die(t.pos(x), "arithmetic on type %s", ty)
		}
		if bitsOf(ty) == 0 && ty != "untyped" {
			t.notes = append(t.notes, fmt.Sprintf("%s: %s arithmetic on %s treated as unbounded Z", t.pos(x), x.Op, ty))
		}
		switch x.Op {
		case token.ADD:
			return wrap(ty, fmt.Sprintf("(%s + %s)", a, b)), ty
		case token.SUB:
			return wrap(ty, fmt.Sprintf("(%s - %s)", a, b)), ty
		case token.MUL:
			return wrap(ty, fmt.Sprintf("(%s * %s)", a, b)), ty
		case token.QUO:
			return fmt.Sprintf("(%s / %s)", a, b), ty
		case token.REM:
			return fmt.Sprintf("(%s mod %s)", a, b), ty
		case token.SHL:
			return wrap(ty, fmt.Sprintf("(Z.shiftl %s %s)", a, b)), ty
		case token.SHR:
			return fmt.Sprintf("(Z.shiftr %s %s)", a, b), ty
		}
		die(t.pos(x), "binary operator %s", x.Op)
	}
	die(t.pos(e), "expression %T", e)
	return "", ""
}

// constant folding that must not capture local variables
func (t *tr) evalConstNoIdentVars(e ast.Expr, en env) (constVal, bool) {
	bad := false
	ast.Inspect(e, func(n ast.Node) bool {
		if id, ok := n.(*ast.Ident); ok {
			if _, isVar := en[id.Name]; isVar {
				bad = true
			}
			if _, isC := t.consts[id.Name]; isC { // keep named constants symbolic
				bad = true
			}
		}
		return true
	})
	if bad {
		return constVal{}, false
	}
	return t.evalConst(e, 0)
}

// ---------- statements ----------

func (t *tr) stmts(ss []ast.Stmt, en env, rt string) string {
	if len(ss) == 0 {
		die(token.Position{}, "function body falls off the end")
	}
	s := ss[0]
	rest := ss[1:]
	switch x := s.(type) {
	case *ast.ReturnStmt:
		if len(x.Results) != 1 {
			die(t.pos(x), "return with %d results", len(x.Results))
		}
		r, _ := t.expr(x.Results[0], en)
		return r
	case *ast.AssignStmt:
		if x.Tok != token.DEFINE || len(x.Lhs) != 1 || len(x.Rhs) != 1 {
			die(t.pos(x), "assignment other than single :=")
		}
		name := x.Lhs[0].(*ast.Ident).Name
		r, ty := t.expr(x.Rhs[0], en)
		if ty == "untyped" {
			ty = "int"
		}
		en2 := env{}
		for k, v := range en {
			en2[k] = v
		}
		en2[name] = ty
		return fmt.Sprintf("(let %s := %s in\n  %s)", name, r, t.stmts(rest, en2, rt))
	case *ast.IfStmt:
		if x.Init != nil {
			die(t.pos(x), "if with init")
		}
		c, ty := t.expr(x.Cond, en)
		if ty != "bool" {
			die(t.pos(x), "if condition not bool")
		}
		thenS := t.block(x.Body.List, rest, en, rt)
		var elseS string
		if x.Else != nil {
			switch el := x.Else.(type) {
			case *ast.BlockStmt:
				elseS = t.block(el.List, rest, en, rt)
			case *ast.IfStmt:
				elseS = t.stmts(append([]ast.Stmt{el}, rest...), en, rt)
			}
		} else {
			elseS = t.stmts(rest, en, rt)
		}
		return fmt.Sprintf("(if %s then %s\n  else %s)", c, thenS, elseS)
	case *ast.SwitchStmt:
		if x.Init != nil || x.Tag == nil {
			die(t.pos(x), "switch form")
		}
		tag, _ := t.expr(x.Tag, en)
		var def []ast.Stmt
		type cc struct {
			cond string
			body []ast.Stmt
		}
		var cases []cc
		for _, c := range x.Body.List {
			cl := c.(*ast.CaseClause)
			if cl.List == nil {
				def = cl.Body
				continue
			}
			var conds []string
			for _, v := range cl.List {
				s, _ := t.expr(v, en)
				conds = append(conds, fmt.Sprintf("(%s =? %s)", tag, s))
			}
			cond := conds[0]
			for _, c2 := range conds[1:] {
				cond = fmt.Sprintf("(orb %s %s)", cond, c2)
			}
			cases = append(cases, cc{cond, cl.Body})
		}
		out := ""
		if def != nil {
			out = t.block(def, rest, en, rt)
		} else {
			out = t.stmts(rest, en, rt)
		}
		for i := len(cases) - 1; i >= 0; i-- {
			out = fmt.Sprintf("(if %s then %s\n  else %s)", cases[i].cond, t.block(cases[i].body, rest, en, rt), out)
		}
		return out
	}
	die(t.pos(s), "statement %T", s)
	return ""
}

// block: statements of a nested block followed (if it does not return) by rest.
func (t *tr) block(body []ast.Stmt, rest []ast.Stmt, en env, rt string) string {
	all := append(append([]ast.Stmt{}, body...), rest...)
	return t.stmts(all, en, rt)
}

func typeName(e ast.Expr) string {
	if id, ok := e.(*ast.Ident); ok {
		return id.Name
	}
	return "?"
}

func (t *tr) fn(fd *ast.FuncDecl) string {
	if fd.Recv != nil {
		die(t.pos(fd), "method")
	}
	if fd.Type.Results == nil || len(fd.Type.Results.List) != 1 {
		die(t.pos(fd), "function %s must have one result", fd.Name.Name)
	}
	rt := typeName(fd.Type.Results.List[0].Type)
	en := env{}
	var params []string
	for _, f := range fd.Type.Params.List {
		ty := typeName(f.Type)
		if !isIntType(ty) && ty != "bool" {
			die(t.pos(fd), "parameter type %s", ty)
		}
		for _, n := range f.Names {
			en[n.Name] = ty
			cty := "Z"
			if ty == "bool" {
				cty = "bool"
			}
			params = append(params, fmt.Sprintf("(%s : %s)", n.Name, cty))
		}
	}
	crt := "Z"
	if rt == "bool" {
		crt = "bool"
	}
	body := t.stmts(fd.Body.List, en, rt)
	t.ftype[fd.Name.Name] = rt
	return fmt.Sprintf("(* %s *)\nDefinition %s %s : %s :=\n  %s.\n", t.pos(fd), fd.Name.Name, strings.Join(params, " "), crt, body)
}

func main() {
	if len(os.Args) < 3 {
		fmt.Fprintln(os.Stderr, "usage: translator <repo> <out.v>")
		os.Exit(2)
	}
	repo, out := os.Args[1], os.Args[2]
	fset := token.NewFileSet()
	matches, _ := filepath.Glob(filepath.Join(repo, "*.go"))
	sort.Strings(matches)
	var files []*ast.File
	for _, m := range matches {
		if strings.HasSuffix(m, "_test.go") {
			continue
		}
		f, err := parser.ParseFile(fset, m, nil, 0)
		if err != nil {
			fmt.Fprintln(os.Stderr, "translator: parse:", err)
			os.Exit(2)
		}
		files = append(files, f)
	}
	t := &tr{fset: fset, consts: map[string]constVal{}, funcs: map[string]*ast.FuncDecl{}, ftype: map[string]string{}}
	t.collectConsts(files)
	for _, f := range files {
		for _, d := range f.Decls {
			if fd, ok := d.(*ast.FuncDecl); ok && fd.Recv == nil {
				t.funcs[fd.Name.Name] = fd
			}
		}
	}
	var b strings.Builder
	b.WriteString("(* GENERATED by /verif/go/translator from /repo's working tree. Do not edit. *)\n")
	b.WriteString("From Coq Require Import ZArith Bool.\nOpen Scope Z_scope.\n\n")
	b.WriteString("Definition wrap8 (x : Z) : Z := x mod 256.\nDefinition wrap16 (x : Z) : Z := x mod 65536.\n")
	b.WriteString("Definition wrap32 (x : Z) : Z := x mod 4294967296.\nDefinition wrap64 (x : Z) : Z := x mod 18446744073709551616.\n\n")
	for _, w := range wantConsts {
		if _, ok := t.consts[w]; !ok {
			fmt.Fprintf(os.Stderr, "translator: required constant %s not found (or not an integer constant)\n", w)
			os.Exit(2)
		}
	}
	seen := map[string]bool{}
	for _, n := range t.order {
		if seen[n] {
			continue
		}
		seen[n] = true
		c := t.consts[n]
		fmt.Fprintf(&b, "Definition c_%s : Z := %s. (* %s *)\n", n, zlit(c.val), c.typ)
	}
	b.WriteString("\n")
	// translate in dependency order: iterate until all done
	done := map[string]bool{}
	for len(done) < len(wantFuncs) {
		progress := false
		for _, name := range wantFuncs {
			if done[name] {
				continue
			}
			fd, ok := t.funcs[name]
			if !ok {
				fmt.Fprintf(os.Stderr, "translator: required function %s not found\n", name)
				os.Exit(2)
			}
			ready := true
			ast.Inspect(fd.Body, func(n ast.Node) bool {
				if ce, ok := n.(*ast.CallExpr); ok {
					if id, ok := ce.Fun.(*ast.Ident); ok {
						if _, isF := t.funcs[id.Name]; isF && !done[id.Name] && id.Name != name {
							ready = false
						}
					}
				}
				return true
			})
			if !ready {
				continue
			}
			b.WriteString(t.fn(fd))
			b.WriteString("\n")
			done[name] = true
			progress = true
		}
		if !progress {
			fmt.Fprintln(os.Stderr, "translator: cyclic or untranslatable dependency among functions")
			os.Exit(2)
		}
	}
	if len(t.notes) > 0 {
		b.WriteString("(* translator notes:\n")
		for _, n := range t.notes {
			b.WriteString("   " + n + "\n")
		}
		b.WriteString("*)\n")
	}
	if err := os.WriteFile(out, []byte(b.String()), 0o644); err != nil {
		fmt.Fprintln(os.Stderr, err)
		os.Exit(2)
	}
}
