// Verification harness: (1) exhaustive dispatch matrix of the data-path chunk handlers on bare
// associations (compared with coq/model/Inbound.v), (2) hostile packets injected into live simulated
// associations (C03).
package sctp

import (
	"fmt"
	"math/rand"
	"sync"
	"testing"
	"testing/synctest"
	"time"
)

func ibBareAssoc() *Association {
	conn := &simConn{sim: &sim{}, in: make(chan []byte, 1), closed: make(chan struct{}), rdl: make(chan struct{})}
	cfg, _ := buildClientConfig(Config{NetConn: conn, LoggerFactory: simLoggerFactory()})
	a := createAssociationFromConfigWithTsn(cfg, 1000)
	a.payloadQueue.init(5000)
	a.peerVerificationTag = 7
	a.sourcePort, a.destinationPort = 5000, 5000
	return a
}

func TestVerifInboundMatrix(t *testing.T) {
	w, done := verifOut(t, "/tmp/verif_inbound.trace")
	defer done()
	fmt.Fprintln(w, "case matrix")
	n := 0
	for state := uint32(0); state < 8; state++ {
		for m := 0; m < 16; m++ {
			cp, il, fwd, ifwd := m&1 != 0, m&2 != 0, m&4 != 0, m&8 != 0
			for kind := 0; kind < 5; kind++ {
				a := ibBareAssoc()
				a.setState(state)
				a.shutdownCompletePending = cp
				a.useInterleaving, a.useForwardTSN, a.useIForwardTSN = il, fwd, ifwd
				_ = a.pendingQueue.setInterleaving(il)
				datas0, sacks0 := a.stats.getNumDATAs(), a.stats.getNumSACKsReceived()
				cum0 := a.payloadQueue.getcumulativeTSN()
				var pkts []*packet
				a.lock.Lock()
				switch kind {
				case 0, 1:
					c := &chunkPayloadData{tsn: 5001, streamIdentifier: 1, beginningFragment: true, endingFragment: true, userData: []byte{1, 2, 3}, iData: kind == 1}
					if kind == 1 {
						c.typ = ctIData
					}
					pkts = a.handleData(c)
				case 2:
					pkts = a.handleForwardTSN(&chunkForwardTSN{newCumulativeTSN: 5005})
				case 3:
					pkts = a.handleIForwardTSN(&chunkIForwardTSN{newCumulativeTSN: 5005})
				case 4:
					_ = a.handleSack(&chunkSelectiveAck{cumulativeTSNAck: 999, advertisedReceiverWindowCredit: 1000})
				}
				abort := a.willSendAbort
				a.lock.Unlock()
				action := "ignore"
				hasErr := false
				for _, p := range pkts {
					for _, c := range p.chunks {
						if _, ok := c.(*chunkError); ok {
							hasErr = true
						}
					}
				}
				processed := a.stats.getNumDATAs() != datas0 || a.stats.getNumSACKsReceived() != sacks0 || a.payloadQueue.getcumulativeTSN() != cum0
				switch {
				case abort:
					action = "abort"
				case hasErr:
					action = "errorreply"
				case processed:
					action = "process"
				}
				fmt.Fprintf(w, "ib %d %d %d %d %d %d %s\n", state, b2i(cp), b2i(il), b2i(fwd), b2i(ifwd), kind, action)
				_ = a.close()
				n++
			}
		}
	}
	fmt.Printf("INBOUNDMATRIX combinations=%d\n", n)
}

// ---------------------------------------------------------------- hostile injection into live associations

func ibMarshal(a *Association, chunks ...chunk) []byte {
	a.lock.RLock()
	p := a.createPacket(chunks)
	a.lock.RUnlock()
	// the packet must look as if it came from the peer: swap nothing (ports are symmetric), tag = our tag
	p.verificationTag = a.myVerificationTag
	raw, err := p.marshal(true)
	if err != nil {
		return nil
	}
	return raw
}

type ibStats struct{ scenarios, injected, aborted, fails int }

func runInjectScenario(t *testing.T, seed int64, st *ibStats) []string {
	var fails []string
	synctest.Test(t, func(t *testing.T) {
		rng := rand.New(rand.NewSource(seed))
		o := simRandomOpts(rng, seed)
		o.recvBuf = 0
		s := newSim(t, o, fmt.Sprintf("inject/tsnA=%d/il=%d,%d", o.tsnA, o.interleaveA, o.interleaveB))
		if !s.establish() {
			s.fail("C04", "fault-free handshake did not complete")
			s.closeBoth()
			fails = s.fails
			s.report()
			return
		}
		target := rng.Intn(2)
		a := s.assoc[target]
		expectAbort := false
		allowAbort := rng.Intn(3) == 0 // only some scenarios inject a wrong-kind chunk (which ends the association)
		for ev := 0; ev < 120 && !expectAbort; ev++ {
			r := rng.Intn(100)
			switch {
			case r < 25:
				side := rng.Intn(2)
				_ = s.write(side, uint16(rng.Intn(3)), 1+rng.Intn(3*int(s.assoc[side].maxPayloadSize)), PayloadTypeWebRTCBinary)
			case r < 55:
				from := rng.Intn(2)
				if len(s.flight[from]) > 0 {
					if rng.Intn(8) == 0 {
						s.drop(from, 0)
					} else {
						s.deliver(from, 0, false)
					}
				}
			case r < 62:
				s.readAll()
			case r < 70:
				s.advance(time.Duration(1+rng.Intn(400)) * time.Millisecond)
			default:
				// hostile packet towards `target`
				a.lock.RLock()
				cum := a.cumulativeTSNAckPoint
				nxt := a.myNextTSN
				peerCum := a.payloadQueue.getcumulativeTSN()
				il := a.useInterleaving
				a.lock.RUnlock()
				var raw []byte
				what := ""
				kindSel := rng.Intn(14)
				if !allowAbort && (kindSel == 7 || kindSel == 8) {
					kindSel = 0
				}
				switch kindSel {
				case 0:
					what = "sack-beyond-next-tsn"
					raw = ibMarshal(a, &chunkSelectiveAck{cumulativeTSNAck: nxt + uint32(rng.Intn(5)), advertisedReceiverWindowCredit: 100000})
				case 1:
					what = "sack-reversed-gap"
					raw = ibMarshal(a, &chunkSelectiveAck{cumulativeTSNAck: cum, advertisedReceiverWindowCredit: 100000, gapAckBlocks: []gapAckBlock{{5, 3}}})
				case 2:
					what = "sack-zero-gap"
					raw = ibMarshal(a, &chunkSelectiveAck{cumulativeTSNAck: cum, advertisedReceiverWindowCredit: 100000, gapAckBlocks: []gapAckBlock{{0, 2}}})
				case 3:
					what = "sack-huge-gap"
					raw = ibMarshal(a, &chunkSelectiveAck{cumulativeTSNAck: cum, advertisedReceiverWindowCredit: 100000, gapAckBlocks: []gapAckBlock{{2, 65535}}})
				case 4:
					what = "sack-far-behind"
					raw = ibMarshal(a, &chunkSelectiveAck{cumulativeTSNAck: cum - uint32(1<<31) + uint32(rng.Intn(3)), advertisedReceiverWindowCredit: 0})
				case 5:
					// (a SACK whose gaps only name chunks that ARE in flight is indistinguishable from a genuine one
					// and is therefore not a hostile input in the sense of the property)
					what = "sack-gap-ends-beyond-next-tsn"
					span := uint16(nxt - cum)
					raw = ibMarshal(a, &chunkSelectiveAck{cumulativeTSNAck: cum, advertisedReceiverWindowCredit: 5, gapAckBlocks: []gapAckBlock{{1, span + 1}, {span + 3, span + 3}}})
				case 6:
					what = "fwd-behind"
					if il {
						raw = ibMarshal(a, &chunkIForwardTSN{newCumulativeTSN: peerCum - uint32(rng.Intn(5))})
					} else {
						raw = ibMarshal(a, &chunkForwardTSN{newCumulativeTSN: peerCum - uint32(rng.Intn(5))})
					}
				case 7:
					what = "wrong-kind-data"
					c := &chunkPayloadData{tsn: peerCum + 1, streamIdentifier: 9, beginningFragment: true, endingFragment: true, userData: []byte{1}, iData: !il}
					raw = ibMarshal(a, c)
					expectAbort = true
				case 8:
					what = "wrong-kind-forward-tsn"
					if il {
						raw = ibMarshal(a, &chunkForwardTSN{newCumulativeTSN: peerCum})
					} else {
						raw = ibMarshal(a, &chunkIForwardTSN{newCumulativeTSN: peerCum})
					}
					expectAbort = true
				case 9:
					what = "stale-init"
					raw = ibMarshal(a, &chunkInit{chunkInitCommon: chunkInitCommon{initiateTag: 5, advertisedReceiverWindowCredit: 1000, numOutboundStreams: 1, numInboundStreams: 1, initialTSN: 77}})
					if len(raw) >= 8 {
						raw[4], raw[5], raw[6], raw[7] = 0, 0, 0, 0 // INIT carries tag 0
						raw = ibFixChecksum(raw)
					}
				case 10:
					what = "unknown-chunk-type"
					raw = ibMarshal(a, &chunkCookieAck{})
					if len(raw) > 12 {
						raw[12] = byte(200 + rng.Intn(50))
						raw = ibFixChecksum(raw)
					}
				case 11:
					what = "random-bytes"
					raw = make([]byte, 12+rng.Intn(80))
					rng.Read(raw)
				case 12:
					what = "truncated-valid-packet"
					raw = ibMarshal(a, &chunkSelectiveAck{cumulativeTSNAck: cum, advertisedReceiverWindowCredit: 1000, gapAckBlocks: []gapAckBlock{{2, 3}}})
					if len(raw) > 14 {
						raw = raw[:12+rng.Intn(len(raw)-12)]
					}
				default:
					what = "duplicate-old-data"
					c := &chunkPayloadData{tsn: peerCum - uint32(rng.Intn(3)), streamIdentifier: 0, beginningFragment: true, endingFragment: true, userData: []byte{9, 9}, iData: il}
					raw = ibMarshal(a, c)
				}
				if raw == nil {
					continue
				}
				t0 := time.Now()
				_ = t0
				pre := ibSnapshot(a)
				s.inject(target, raw, what)
				st.injected++
				post := ibSnapshot(a)
				if !expectAbort && what != "duplicate-old-data" && what != "fwd-behind" && pre != post {
					s.fail("C03", fmt.Sprintf("a packet that must be dropped changed transfer state (hostile-packet-changes-state) kind=%s pre=[%s] post=[%s]", what, pre, post))
				}
			}
			if len(s.fails) > 0 {
				break
			}
		}
		if expectAbort {
			st.aborted++
			// the ABORT must be on the wire and the peer must close with an error
			sawAbort := false
			for k := 0; k < 40 && !sawAbort; k++ {
				for _, p := range s.flight[target] {
					if p.pkt != nil {
						for _, c := range p.pkt.chunks {
							if _, ok := c.(*chunkAbort); ok {
								sawAbort = true
							}
						}
					}
				}
				s.advance(10 * time.Millisecond)
			}
			if !sawAbort {
				s.fail("C03", "a chunk of the wrong kind was not answered with ABORT (wrong-kind-not-aborted)")
			}
		} else if len(s.fails) == 0 {
			healed := s.runFaultFree(4*60*time.Second, 50*time.Millisecond, s.allDelivered)
			s.checkOrderedPrefix(true)
			if !healed {
				s.fail("C03", fmt.Sprintf("after hostile packets the association no longer completes its transfers (hostile-packet-stalls-association): buffered=%d,%d", s.assoc[0].BufferedAmount(), s.assoc[1].BufferedAmount()))
			}
			s.checkBuffered(0)
			s.checkBuffered(1)
		}
		s.closeBoth()
		fails = s.fails
		s.report()
	})
	return fails
}

func ibFixChecksum(raw []byte) []byte {
	raw[8], raw[9], raw[10], raw[11] = 0, 0, 0, 0
	c := generatePacketChecksum(raw)
	raw[8], raw[9], raw[10], raw[11] = byte(c), byte(c>>8), byte(c>>16), byte(c>>24)
	return raw
}

// ibSnapshot: the transfer state a dropped packet must leave alone.
func ibSnapshot(a *Association) string {
	a.lock.RLock()
	defer a.lock.RUnlock()
	held := 0
	for _, st := range a.streams {
		held += st.getNumBytesInReassemblyQueue()
	}
	return fmt.Sprintf("state=%d cum=%d nxt=%d inflight=%d/%d pending=%d peercum=%d rq=%d held=%d streams=%d abort=%v",
		a.getState(), a.cumulativeTSNAckPoint, a.myNextTSN, a.inflightQueue.size(), a.inflightQueue.getNumBytes(), a.pendingQueue.size(),
		a.payloadQueue.getcumulativeTSN(), a.payloadQueue.size(), held, len(a.streams), a.willSendAbort)
}

func TestVerifSimInject(t *testing.T) {
	seed := verifEnvInt("VERIF_SEED", 1)
	n := int(verifEnvInt("VERIF_N", 60))
	st := &ibStats{}
	if only := verifEnvInt("VERIF_ONLY", 0); only != 0 {
		runInjectScenario(t, only, st)
		return
	}
	for i := 0; i < n; i++ {
		f := runInjectScenario(t, seed*9000011+int64(i), st)
		st.scenarios++
		st.fails += len(f)
	}
	fmt.Printf("SIMINJECT scenarios=%d injected=%d abort_scenarios=%d fails=%d\n", st.scenarios, st.injected, st.aborted, st.fails)
}

// TestVerifSimInjectSender: the hostile-injection scenarios with the sender step recorder attached, so that
// rejected, stale and forged SACKs reach the sender model's step-commuting check.
func TestVerifSimInjectSender(t *testing.T) {
	seed := verifEnvInt("VERIF_SEED", 1)
	n := int(verifEnvInt("VERIF_N", 60))
	w, done := verifOut(t, "/tmp/verif_injectsender.trace")
	defer done()
	var mu sync.Mutex
	cnt, skipped := 0, 0
	kinds := map[string]int{}
	simObserverFactory = func() []simObserver {
		return []simObserver{&sndRecorder{mu: &mu, w: w, n: &cnt, kinds: kinds, skipped: &skipped, injected: true}}
	}
	defer func() { simObserverFactory = nil }()
	st := &ibStats{}
	for i := 0; i < n; i++ {
		f := runInjectScenario(t, seed*9000011+int64(i), st)
		st.scenarios++
		st.fails += len(f)
	}
	fmt.Printf("SIMINJECTSENDER scenarios=%d records=%d injected_packets=%d monitor_fails=%d\n", st.scenarios, cnt, st.injected, st.fails)
}
