// Verification harness (overlay; not part of pion/sctp): reassemblyQueue differential.
// Random operation sequences on a real *reassemblyQueue; after every operation the return values and
// a canonical dump of the whole queue are written to a trace that /verif/ocaml/cmp_rq.ml replays on
// the extracted Coq model (coq/model/RQ.v).
package sctp

import (
	"bufio"
	"errors"
	"fmt"
	"io"
	"math/rand"
	"os"
	"sort"
	"strconv"
	"strings"
	"testing"
)

func rqChunkTokens(sb *strings.Builder, c *chunkPayloadData) {
	fmt.Fprintf(sb, " %d %d %d %d %d %d %d %d %d %d %d", c.tsn, c.streamIdentifier, c.streamSequenceNumber,
		c.messageIdentifier, c.fragmentSequenceNumber, uint32(c.payloadType),
		b2i(c.unordered), b2i(c.beginningFragment), b2i(c.endingFragment), b2i(c.isIData()), len(c.userData))
	for _, b := range c.userData {
		fmt.Fprintf(sb, " %d", b)
	}
}

func rqSetTokens(sb *strings.Builder, key uint32, ppi PayloadProtocolIdentifier, chunks []*chunkPayloadData) {
	fmt.Fprintf(sb, " %d %d %d", key, uint32(ppi), len(chunks))
	for _, c := range chunks {
		rqChunkTokens(sb, c)
	}
}

// rqDumpString is the abstraction function: every field of the queue the model carries.
func rqDumpString(q *reassemblyQueue) string {
	var sb strings.Builder
	fmt.Fprintf(&sb, "dump %d %d %d %d", q.nextSSN, q.nextMID, b2i(q.useInterleaving), q.nBytes)
	fmt.Fprintf(&sb, " O %d", len(q.ordered))
	for _, s := range q.ordered {
		rqSetTokens(&sb, uint32(s.ssn), s.ppi, s.chunks)
	}
	fmt.Fprintf(&sb, " U %d", len(q.unordered))
	for _, s := range q.unordered {
		rqSetTokens(&sb, uint32(s.ssn), s.ppi, s.chunks)
	}
	fmt.Fprintf(&sb, " C %d", len(q.unorderedChunks))
	for _, c := range q.unorderedChunks {
		rqChunkTokens(&sb, c)
	}
	fmt.Fprintf(&sb, " OM %d", len(q.orderedMID))
	for _, s := range q.orderedMID {
		rqSetTokens(&sb, s.mid, s.ppi, s.chunks)
	}
	fmt.Fprintf(&sb, " UM %d", len(q.unorderedMID))
	for _, s := range q.unorderedMID {
		rqSetTokens(&sb, s.mid, s.ppi, s.chunks)
	}
	keys := make([]uint32, 0, len(q.unorderedMIDMap))
	for k := range q.unorderedMIDMap {
		keys = append(keys, k)
	}
	sort.Slice(keys, func(i, j int) bool { return keys[i] < keys[j] })
	fmt.Fprintf(&sb, " MAP %d", len(keys))
	for _, k := range keys {
		s := q.unorderedMIDMap[k]
		fmt.Fprintf(&sb, " %d", k)
		rqSetTokens(&sb, s.mid, s.ppi, s.chunks)
	}
	// orderedMIDMap: keys in numeric order, each with 1 when the map value is the very set of the
	// orderedMID slice carrying that mid (the model keeps the slice only)
	okeys := make([]uint32, 0, len(q.orderedMIDMap))
	for k := range q.orderedMIDMap {
		okeys = append(okeys, k)
	}
	sort.Slice(okeys, func(i, j int) bool { return okeys[i] < okeys[j] })
	fmt.Fprintf(&sb, " OMAP %d", len(okeys))
	for _, k := range okeys {
		sync := 0
		for _, s := range q.orderedMID {
			if s.mid == k {
				if s == q.orderedMIDMap[k] {
					sync = 1
				}
				break
			}
		}
		fmt.Fprintf(&sb, " %d %d", k, sync)
	}
	return sb.String()
}

func rqDump(w *bufio.Writer, q *reassemblyQueue) { fmt.Fprintln(w, rqDumpString(q)) }

func rqErrCode(err error) int {
	switch {
	case err == nil:
		return 0
	case errors.Is(err, errReassemblyQueueLimitExceeded):
		return 1
	case errors.Is(err, errReassemblyQueueMIDLimitExceeded):
		return 2
	}
	return 9
}

func rqPush(w *bufio.Writer, q *reassemblyQueue, c *chunkPayloadData) {
	var sb strings.Builder
	sb.WriteString("push")
	rqChunkTokens(&sb, c)
	complete, code := false, 0
	func() {
		defer func() {
			if r := recover(); r != nil {
				code = 3
			}
		}()
		var err error
		complete, err = q.pushWithError(c)
		code = rqErrCode(err)
	}()
	fmt.Fprintf(w, "%s %d %d\n", sb.String(), b2i(complete), code)
	rqDump(w, q)
}

func rqRead(w *bufio.Writer, q *reassemblyQueue, buflen int) {
	buf := make([]byte, buflen)
	for i := range buf {
		buf[i] = 0xEE
	}
	n, ppi, err := q.read(buf)
	code := 0
	switch {
	case err == nil:
	case errors.Is(err, errTryAgain):
		code = 1
	case errors.Is(err, io.ErrShortBuffer):
		code = 2
	default:
		code = 9
	}
	fmt.Fprintf(w, "read %d %d %d %d", buflen, n, uint32(ppi), code)
	if code == 0 {
		fmt.Fprintf(w, " %d", n)
		for _, b := range buf[:n] {
			fmt.Fprintf(w, " %d", b)
		}
	} else {
		fmt.Fprintf(w, " 0")
	}
	fmt.Fprintln(w)
	rqDump(w, q)
}

// ---- sort-hypothesis filter -------------------------------------------------------------------
// sort.Slice runs an insertion sort for n <= 12 (transcribed in the model) and pdqsort above; above
// 12 elements the generator only lets a push through when the keys of the slice about to be sorted
// are distinct and within a quarter of the number space of each other (strict total order), where
// every correct sort returns the same permutation.
func rqKeysSafe32(keys []uint32) bool {
	if len(keys) <= 12 {
		return true
	}
	seen := map[uint32]bool{}
	for _, k := range keys {
		d := int32(k - keys[0])
		if d <= -(1<<30) || d >= 1<<30 || seen[k] {
			return false
		}
		seen[k] = true
	}
	return true
}

func rqKeysSafe16(keys []uint16) bool {
	if len(keys) <= 12 {
		return true
	}
	seen := map[uint16]bool{}
	for _, k := range keys {
		d := int16(k - keys[0])
		if d <= -(1<<14) || d >= 1<<14 || seen[k] {
			return false
		}
		seen[k] = true
	}
	return true
}

func rqSortSafe(q *reassemblyQueue, c *chunkPayloadData) bool {
	if c.isIData() {
		var set *chunkSetMID
		if c.unordered {
			set = q.unorderedMIDMap[c.messageIdentifier]
		} else {
			set = q.orderedMIDMap[c.messageIdentifier]
		}
		keys := []uint32{}
		if set != nil {
			for _, x := range set.chunks {
				keys = append(keys, x.fragmentSequenceNumber)
			}
		}
		return rqKeysSafe32(append(keys, c.fragmentSequenceNumber))
	}
	if c.unordered {
		keys := []uint32{}
		for _, x := range q.unorderedChunks {
			keys = append(keys, x.tsn)
		}
		return rqKeysSafe32(append(keys, c.tsn))
	}
	if c.isFragmented() {
		for _, set := range q.ordered {
			if set.ssn == c.streamSequenceNumber && len(set.chunks) > 0 && set.chunks[0].isFragmented() {
				keys := []uint32{}
				for _, x := range set.chunks {
					keys = append(keys, x.tsn)
				}
				return rqKeysSafe32(append(keys, c.tsn))
			}
		}
	}
	keys := []uint16{}
	for _, s := range q.ordered {
		keys = append(keys, s.ssn)
	}
	return rqKeysSafe16(append(keys, c.streamSequenceNumber))
}

// ---- message universe ---------------------------------------------------------------------------
type rqMsg struct {
	frags []*chunkPayloadData
}

type rqGenStats struct {
	pushes, hostile, skippedUnsafe, reads, fwds, readables                 int
	modeOrdData, modeUnordData, modeIData, modeMixed, nearWrap, withLimit  int
	zeroLen, dupes, shortReads                                             int
	completeTrue, errLimit, errMID, readOK, readShort, readAgain, bigSlice int
}

func rqClone(c *chunkPayloadData) *chunkPayloadData {
	d := *c
	d.userData = append([]byte{}, c.userData...)
	return &d
}

// rqUniverse builds nMsg sender-like messages: fragments of one message carry consecutive TSNs,
// B on the first and E on the last fragment, SSN / MID counted per ordered resp. unordered space.
func rqUniverse(rng *rand.Rand, si uint16, idata bool, pUnordered int, nMsg int, tsn0 uint32, ssn0 uint16,
	mid0 uint32, umid0 uint32, maxFrags int, zeroLenPct int) []*rqMsg {
	msgs := []*rqMsg{}
	tsn := tsn0
	ssn, mid, umid := ssn0, mid0, umid0
	for m := 0; m < nMsg; m++ {
		unordered := rng.Intn(100) < pUnordered
		nf := 1 + rng.Intn(maxFrags)
		if rng.Intn(3) == 0 {
			nf = 1
		}
		ppi := PayloadProtocolIdentifier(50 + rng.Intn(8))
		msg := &rqMsg{}
		for f := 0; f < nf; f++ {
			n := 1 + rng.Intn(5)
			if rng.Intn(100) < zeroLenPct {
				n = 0
			}
			data := make([]byte, n)
			for i := range data {
				switch i {
				case 0:
					data[i] = byte(m)
				case 1:
					data[i] = byte(f)
				default:
					data[i] = byte(rng.Intn(256))
				}
			}
			c := &chunkPayloadData{
				tsn: tsn, streamIdentifier: si, unordered: unordered, beginningFragment: f == 0,
				endingFragment: f == nf-1, payloadType: ppi, userData: data, iData: idata,
			}
			if idata {
				if unordered {
					c.messageIdentifier = umid
				} else {
					c.messageIdentifier = mid
				}
				c.fragmentSequenceNumber = uint32(f)
				c.streamSequenceNumber = uint16(c.messageIdentifier)
				if f != 0 {
					c.payloadType = 0 // non-first I-DATA fragments carry no PPI on the wire
				}
			} else {
				c.streamSequenceNumber = ssn // unordered DATA carries the current ordered SSN
			}
			tsn++
			msg.frags = append(msg.frags, c)
		}
		if idata {
			if unordered {
				umid++
			} else {
				mid++
			}
		} else if !unordered {
			ssn++
		}
		msgs = append(msgs, msg)
	}
	return msgs
}

func rqNear32(rng *rand.Rand, span int) uint32 {
	switch rng.Intn(4) {
	case 0:
		return rng.Uint32()
	case 1:
		return uint32(rng.Intn(4))
	default:
		return uint32(0) - uint32(rng.Intn(span)+1)
	}
}

func rqNear16(rng *rand.Rand, span int) uint16 {
	switch rng.Intn(4) {
	case 0:
		return uint16(rng.Intn(65536))
	case 1:
		return uint16(rng.Intn(4))
	default:
		return uint16(0) - uint16(rng.Intn(span)+1)
	}
}

func rqMutate(rng *rand.Rand, c *chunkPayloadData, si uint16, st *rqGenStats) {
	st.hostile++
	switch rng.Intn(14) {
	case 0:
		c.streamIdentifier = si + 1 + uint16(rng.Intn(3))
	case 1:
		c.streamSequenceNumber -= uint16(1 + rng.Intn(4)) // stale or earlier SSN
	case 2:
		c.beginningFragment = !c.beginningFragment
	case 3:
		c.endingFragment = !c.endingFragment
	case 4:
		c.tsn += uint32(rng.Intn(7)) - 3
	case 5:
		c.tsn = rng.Uint32()
	case 6:
		c.userData = []byte{}
		st.zeroLen++
	case 7:
		c.fragmentSequenceNumber += uint32(rng.Intn(5)) - 2
	case 8:
		c.streamSequenceNumber += 1 << 15 // antipode
		c.messageIdentifier += 1 << 31
	case 9:
		c.unordered = !c.unordered
	case 10:
		c.messageIdentifier -= uint32(1 + rng.Intn(4))
		c.streamSequenceNumber = uint16(c.messageIdentifier)
	case 11:
		c.streamSequenceNumber += uint16(rng.Intn(5))
		c.messageIdentifier += uint32(rng.Intn(5))
	case 12:
		c.beginningFragment, c.endingFragment = true, true
	default:
		c.payloadType = PayloadProtocolIdentifier(rng.Intn(4))
		c.userData = append(c.userData, byte(rng.Intn(256)))
	}
}

func rqRunCase(w *bufio.Writer, rng *rand.Rand, name string, nOps int, st *rqGenStats) {
	si := uint16(rng.Intn(5))
	maxEntries := uint32(0)
	if rng.Intn(100) < 35 {
		maxEntries = uint32(1 + rng.Intn(10))
		st.withLimit++
	}
	mode := rng.Intn(10) // 0-2 ordered DATA, 3-4 unordered-heavy DATA, 5-8 I-DATA, 9 DATA and I-DATA mixed
	idata := mode >= 5 && mode <= 8
	pUnordered := 15
	switch {
	case mode <= 2:
		st.modeOrdData++
	case mode <= 4:
		pUnordered = 75
		st.modeUnordData++
	case mode <= 8:
		pUnordered = 40
		st.modeIData++
	default:
		pUnordered = 40
		st.modeMixed++
	}
	near := rng.Intn(100) < 60
	tsn0, ssn0, mid0, umid0 := rng.Uint32(), uint16(rng.Intn(65536)), rng.Uint32(), rng.Uint32()
	if near {
		st.nearWrap++
		tsn0, ssn0, mid0, umid0 = rqNear32(rng, 40), rqNear16(rng, 12), rqNear32(rng, 12), rqNear32(rng, 12)
	}
	hostilePct := []int{0, 0, 5, 30}[rng.Intn(4)]
	zeroLenPct := []int{0, 0, 10}[rng.Intn(3)]
	nMsg := 4 + rng.Intn(16)
	maxFrags := 1 + rng.Intn(4)
	big := rng.Intn(12) == 0 // long messages / many sets: sorted slices beyond 12 elements
	if big {
		hostilePct = []int{0, 0, 5}[rng.Intn(3)]
		nMsg = 30 + rng.Intn(30)
		if rng.Intn(2) == 0 {
			maxFrags = 20
		}
	}
	msgs := rqUniverse(rng, si, idata, pUnordered, nMsg, tsn0, ssn0, mid0, umid0, maxFrags, zeroLenPct)
	if mode == 9 {
		msgs = append(msgs, rqUniverse(rng, si, true, pUnordered, 6, tsn0+500, ssn0, mid0, umid0, maxFrags, zeroLenPct)...)
	}

	if big && rng.Intn(4) != 0 {
		maxEntries = 0
	}
	q := newReassemblyQueue(si, maxEntries)
	q.nextSSN, q.nextMID = ssn0, mid0 // white-box preset: counters start near their wraps
	if rng.Intn(6) == 0 {
		q.nextSSN, q.nextMID = 0, 0 // as created; the universe is then possibly "behind" or far ahead
	}
	fmt.Fprintf(w, "case %s\nnew %d %d %d %d\n", name, si, maxEntries, q.nextSSN, q.nextMID)
	rqDump(w, q)

	// a window of messages the "sender" has released so far: arrivals are drawn from it
	released := 1 + rng.Intn(4)
	if big {
		released = len(msgs) / 2 // many messages in flight at once, few reads: slices grow beyond 12 elements
	}
	for i := 0; i < nOps; i++ {
		if rng.Intn(4) == 0 && released < len(msgs) {
			released++
		}
		r := rng.Intn(100)
		if big && r >= 62 && r < 76 {
			r = 0
		}
		switch {
		case r < 62:
			lo := 0
			if released > 8 && rng.Intn(4) != 0 && !big {
				lo = released - 8
			}
			m := msgs[lo+rng.Intn(released-lo)]
			c := rqClone(m.frags[rng.Intn(len(m.frags))])
			if rng.Intn(100) < hostilePct {
				rqMutate(rng, c, si, st)
			}
			if !rqSortSafe(q, c) && os.Getenv("VERIF_RQ_NOFILTER") == "" {
				st.skippedUnsafe++
				continue
			}
			if len(c.userData) == 0 {
				st.zeroLen++
			}
			st.pushes++
			rqPush(w, q, c)
			if len(q.ordered) > 12 || len(q.unorderedChunks) > 12 {
				st.bigSlice++
			}
		case r < 80:
			st.reads++
			sizes := []int{0, 1, 2, 3, 5, 8, 13, 21, 64, 200}
			rqRead(w, q, sizes[rng.Intn(len(sizes))])
		case r < 86:
			st.readables++
			fmt.Fprintf(w, "readable %d\n", b2i(q.isReadable()))
			rqDump(w, q)
		default:
			st.fwds++
			ref := msgs[rng.Intn(released)].frags[0]
			switch rng.Intn(4) {
			case 0:
				v := ref.streamSequenceNumber + uint16(rng.Intn(4)) - 1
				if !idata {
					v = ssn0 + uint16(rng.Intn(released+2)) - 1
				}
				if rng.Intn(10) == 0 {
					v = uint16(rng.Intn(65536))
				}
				q.forwardTSNForOrdered(v)
				fmt.Fprintf(w, "fwdo %d\n", v)
			case 1:
				v := ref.tsn + uint32(rng.Intn(6)) - 1
				if rng.Intn(10) == 0 {
					v = rng.Uint32()
				}
				q.forwardTSNForUnordered(v)
				fmt.Fprintf(w, "fwdu %d\n", v)
			case 2:
				v := mid0 + uint32(rng.Intn(released+2)) - 1
				if rng.Intn(10) == 0 {
					v = rng.Uint32()
				}
				q.forwardTSNForOrderedMID(v)
				fmt.Fprintf(w, "fwdom %d\n", v)
			default:
				v := umid0 + uint32(rng.Intn(released+2)) - 1
				if rng.Intn(10) == 0 {
					v = rng.Uint32()
				}
				q.forwardTSNForUnorderedMID(v)
				fmt.Fprintf(w, "fwdum %d\n", v)
			}
			rqDump(w, q)
		}
	}
	// drain: read until nothing is readable (bounded), so that the "returns to zero" path is exercised
	for i := 0; i < 80 && q.isReadable(); i++ {
		st.reads++
		rqRead(w, q, 4096)
	}
}

// rqReplayCorpus replays minimised op lists (corpus/rq.ops): lines
//
//	new si maxEntries nextSSN nextMID | push <11 fields> <data...> | read n | readable | fwdo v | fwdu v | fwdom v | fwdum v
func rqReplayCorpus(w *bufio.Writer, path string) {
	data, err := os.ReadFile(path)
	if err != nil {
		return
	}
	var q *reassemblyQueue
	cid := 0
	num := func(s string) uint64 { v, _ := strconv.ParseUint(s, 10, 64); return v }
	for _, line := range strings.Split(string(data), "\n") {
		f := strings.Fields(line)
		if len(f) == 0 || strings.HasPrefix(f[0], "#") {
			continue
		}
		switch {
		case f[0] == "new" && len(f) >= 5:
			cid++
			q = newReassemblyQueue(uint16(num(f[1])), uint32(num(f[2])))
			q.nextSSN, q.nextMID = uint16(num(f[3])), uint32(num(f[4]))
			fmt.Fprintf(w, "case corpus%d\nnew %d %d %d %d\n", cid, q.si, q.maxEntries, q.nextSSN, q.nextMID)
			rqDump(w, q)
		case q == nil:
		case f[0] == "push" && len(f) >= 12:
			n := int(num(f[11]))
			c := &chunkPayloadData{
				tsn: uint32(num(f[1])), streamIdentifier: uint16(num(f[2])), streamSequenceNumber: uint16(num(f[3])),
				messageIdentifier: uint32(num(f[4])), fragmentSequenceNumber: uint32(num(f[5])),
				payloadType: PayloadProtocolIdentifier(num(f[6])), unordered: f[7] == "1", beginningFragment: f[8] == "1",
				endingFragment: f[9] == "1", iData: f[10] == "1", userData: make([]byte, n),
			}
			for i := 0; i < n && 12+i < len(f); i++ {
				c.userData[i] = byte(num(f[12+i]))
			}
			rqPush(w, q, c)
		case f[0] == "read" && len(f) >= 2:
			rqRead(w, q, int(num(f[1])))
		case f[0] == "readable":
			fmt.Fprintf(w, "readable %d\n", b2i(q.isReadable()))
			rqDump(w, q)
		case f[0] == "fwdo" && len(f) >= 2:
			q.forwardTSNForOrdered(uint16(num(f[1])))
			fmt.Fprintf(w, "fwdo %d\n", uint16(num(f[1])))
			rqDump(w, q)
		case f[0] == "fwdu" && len(f) >= 2:
			q.forwardTSNForUnordered(uint32(num(f[1])))
			fmt.Fprintf(w, "fwdu %d\n", uint32(num(f[1])))
			rqDump(w, q)
		case f[0] == "fwdom" && len(f) >= 2:
			q.forwardTSNForOrderedMID(uint32(num(f[1])))
			fmt.Fprintf(w, "fwdom %d\n", uint32(num(f[1])))
			rqDump(w, q)
		case f[0] == "fwdum" && len(f) >= 2:
			q.forwardTSNForUnorderedMID(uint32(num(f[1])))
			fmt.Fprintf(w, "fwdum %d\n", uint32(num(f[1])))
			rqDump(w, q)
		}
	}
}

func TestVerifRQ(t *testing.T) {
	seed := verifEnvInt("VERIF_SEED", 1)
	nCases := int(verifEnvInt("VERIF_N", 300))
	nOps := int(verifEnvInt("VERIF_OPS", 90))
	w, done := verifOut(t, "/tmp/verif_rq.trace")
	defer done()
	if corpus := os.Getenv("VERIF_CORPUS"); corpus != "" {
		rqReplayCorpus(w, corpus)
	}
	rng := rand.New(rand.NewSource(seed))
	st := &rqGenStats{}
	for c := 0; c < nCases; c++ {
		rqRunCase(w, rng, fmt.Sprintf("r%d", c), nOps, st)
	}
	fmt.Printf("RQGEN cases=%d pushes=%d hostile_mutations=%d zero_len=%d skipped_sort_hypothesis=%d reads=%d fwds=%d readables=%d "+
		"mode_ordered_data=%d mode_unordered_data=%d mode_idata=%d mode_mixed=%d near_wrap=%d with_entry_limit=%d big_slices=%d\n",
		nCases, st.pushes, st.hostile, st.zeroLen, st.skippedUnsafe, st.reads, st.fwds, st.readables,
		st.modeOrdData, st.modeUnordData, st.modeIData, st.modeMixed, st.nearWrap, st.withLimit, st.bigSlice)
}
