module M = Model
open Zio
(* one record per call of Stream.onBufferReleased / SetBufferedAmountLowThreshold-independent state:
   "rel v low n hascb v' fired"  and whole histories  "hist low v0 <k> (w|r n)* | v_end fires..." *)
let run path =
  let cases = read_cases path in
  List.iter (fun (name, lines) ->
    List.iteri (fun i toks ->
      incr records;
      match toks with
      | ["rel"; v; low; n; cb; v'; fired] ->
          let (mv, mf) = M.bl_released (cz v) (cz low) (cz n) (cb = "1") in
          let m = sz mv ^ " " ^ sbool mf and im = v' ^ " " ^ fired in
          if m <> im then report name (i+1) (String.concat " " ["onBufferReleased"; v; low; n; cb]) m im
      | "hist" :: low :: v0 :: rest ->
          let rec split acc = function
            | "|" :: r -> (List.rev acc, r)
            | "w" :: n :: r -> split (M.BlWrite (cz n) :: acc) r
            | "r" :: n :: r -> split (M.BlRel (cz n) :: acc) r
            | _ -> (List.rev acc, ["?"]) in
          let (evs, obs) = split [] rest in
          let (mv, mf) = M.bl_run (cz low) (cz v0) evs in
          let m = String.concat " " (sz mv :: List.map sbool mf) and im = String.concat " " obs in
          if m <> im then report name (i+1) ("history low=" ^ low ^ " v0=" ^ v0) m im
      | _ -> report name (i+1) "unparsed" "" (String.concat " " toks)) lines) cases;
  Printf.printf "SUMMARY component=buflow cases=%d records=%d mismatches=%d\n" (List.length cases) !records !mismatches
