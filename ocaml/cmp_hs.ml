(* step-commuting check of the handshake abstraction (coq/model/Handshake.v).
   Each record: the abstract state of one endpoint before an event (start, delivery of a handshake packet,
   T1 expiry), the event with its abstract content flags, the abstract state after, the packets emitted and
   the handler's error; replayed independently: hs_ep_step pre ev must give (post, outs, herr).
   With the peer's state and the set of packets emitted so far the record is also a SYSTEM state of the
   implementation: it must lie in the computed reachable set (after the counter collapse) and satisfy the
   state predicates of the theorems.  "t1" records compare retransmission / failure times. *)
module M = Model
open Zio

let b s = (s = "1")

let parse_ep (t : string list) : M.hs_ep * string list =
  match t with
  | started :: role :: lil :: rzc :: st :: pil :: pfwd :: pifwd :: szc :: uil :: ufwd :: uifwd :: cookie :: sinit
    :: secho :: t1i :: ni :: t1c :: nc :: res :: frozen :: rest ->
    let role = (match role with "0" -> M.HsClient | "1" -> M.HsServer | _ -> M.HsSnap) in
    let st = (match M.hs_state_of_code (cz st) with Some s -> s | None -> failwith ("state outside the model: " ^ st)) in
    let res = (match res with "0" -> M.HsResNone | "1" -> M.HsResOk | "2" -> M.HsResErrInit | "3" -> M.HsResErrCookie
                          | r -> failwith ("result outside the model: " ^ r)) in
    ({ M.hs_started = b started; M.hs_role_of = role; M.hs_lil = b lil; M.hs_rzc = b rzc; M.hs_st = st;
       M.hs_pil = b pil; M.hs_pfwd = b pfwd; M.hs_pifwd = b pifwd; M.hs_szc = b szc; M.hs_uil = b uil;
       M.hs_ufwd = b ufwd; M.hs_uifwd = b uifwd; M.hs_cookie = b cookie; M.hs_sinit = b sinit; M.hs_secho = b secho;
       M.hs_t1i = b t1i; M.hs_ni = nat_of_int (int_of_string ni); M.hs_t1c = b t1c; M.hs_nc = nat_of_int (int_of_string nc);
       M.hs_res_of = res; M.hs_frozen = b frozen }, rest)
  | _ -> failwith "short endpoint line"

let zca s = match s with "0" -> M.HsZcaNone | "1" -> M.HsZcaDtls | _ -> M.HsZcaOther

let parse_pkt (t : string list) : M.hs_pkt * string list =
  match t with
  | "init" :: f :: i :: g :: z :: r -> (M.HsInit (b f, b i, b g, zca z), r)
  | "initack" :: f :: i :: g :: z :: c :: r -> (M.HsInitAck (b f, b i, b g, zca z, b c), r)
  | "echo" :: m :: r -> (M.HsCookieEcho (b m), r)
  | "ack" :: r -> (M.HsCookieAck, r)
  | k :: _ -> failwith ("packet kind outside the model: " ^ k)
  | [] -> failwith "missing packet"

let s_zca z = match z with M.HsZcaNone -> "0" | M.HsZcaDtls -> "1" | M.HsZcaOther -> "2"
let s_pkt p = match p with
  | M.HsInit (f, i, g, z) -> Printf.sprintf "init %s %s %s %s" (sbool f) (sbool i) (sbool g) (s_zca z)
  | M.HsInitAck (f, i, g, z, c) -> Printf.sprintf "initack %s %s %s %s %s" (sbool f) (sbool i) (sbool g) (s_zca z) (sbool c)
  | M.HsCookieEcho m -> "echo " ^ sbool m
  | M.HsCookieAck -> "ack"

let s_ep (e : M.hs_ep) : string =
  let role = (match e.M.hs_role_of with M.HsClient -> "client" | M.HsServer -> "server" | M.HsSnap -> "snap") in
  let res = (match e.M.hs_res_of with M.HsResNone -> "none" | M.HsResOk -> "ok" | M.HsResErrInit -> "errInit" | M.HsResErrCookie -> "errCookie") in
  Printf.sprintf "started=%s role=%s il=%s zc=%s st=%s peer(il=%s fwd=%s ifwd=%s) szc=%s use(il=%s fwd=%s ifwd=%s) cookie=%s sinit=%s secho=%s t1i=%s/%d t1c=%s/%d res=%s frozen=%s"
    (sbool e.M.hs_started) role (sbool e.M.hs_lil) (sbool e.M.hs_rzc) (sz (M.hs_state_code e.M.hs_st))
    (sbool e.M.hs_pil) (sbool e.M.hs_pfwd) (sbool e.M.hs_pifwd) (sbool e.M.hs_szc) (sbool e.M.hs_uil) (sbool e.M.hs_ufwd)
    (sbool e.M.hs_uifwd) (sbool e.M.hs_cookie) (sbool e.M.hs_sinit) (sbool e.M.hs_secho)
    (sbool e.M.hs_t1i) (int_of_nat e.M.hs_ni) (sbool e.M.hs_t1c) (int_of_nat e.M.hs_nc) res (sbool e.M.hs_frozen)

let rec parse_pkts k t acc = if k = 0 then List.rev acc else let (p, r) = parse_pkt t in parse_pkts (k - 1) r (p :: acc)
let rec parse_net k t acc =
  if k = 0 then List.rev acc else
  match t with
  | from :: r -> let (p, r') = parse_pkt r in parse_net (k - 1) r' ((b from, p) :: acc)
  | [] -> failwith "short net line"

let kinds = Hashtbl.create 16
let bump k = Hashtbl.replace kinds k (1 + try Hashtbl.find kinds k with Not_found -> 0)

let reach = lazy (M.hs_reach_set_f ())

let s_herr h = match h with M.HsENone -> "0" | M.HsEInitState -> "1" | M.HsENoCookie -> "2"
let st_name e = sz (M.hs_state_code e.M.hs_st)

let run path =
  let cases = read_cases path in
  List.iter (fun (name, lines) ->
    incr records;
    try
      let find k = List.tl (List.find (fun l -> List.hd l = k) lines) in
      let has k = List.exists (fun l -> List.hd l = k) lines in
      if has "t1" then begin
        (* t1 <kind> rto rtomax k e1 .. ek fail : expiry times (ms after the timer start) and failure time *)
        (match find "t1" with
         | kind :: rto :: rtomax :: k :: rest ->
           bump ("t1-" ^ kind);
           let k = int_of_string k in
           let times = List.filteri (fun i _ -> i < k) rest in
           let fail = List.nth rest k in
           let want = List.init (int_of_nat M.hs_maxr) (fun i -> sz (M.hs_t1_expiry_time (cz rto) (cz rtomax) (nat_of_int (i + 1)))) in
           let wfail = sz (M.hs_t1_fail_time (cz rto) (cz rtomax)) in
           if times <> want || fail <> wfail then
             report name 0 ("T1 " ^ kind ^ " retransmission/failure times") (String.concat "," want ^ " fail=" ^ wfail)
               (String.concat "," times ^ " fail=" ^ fail)
         | _ -> failwith "bad t1 line")
      end else begin
      let x = b (List.hd (find "x")) in
      let (pre, _) = parse_ep (find "pre") in
      let (post, _) = parse_ep (find "post") in
      let evl = find "ev" in
      let ev = (match evl with
        | ["start"] -> M.HsStart
        | "startsnap" :: r -> M.HsStartSnap (fst (parse_pkt r))
        | "deliver" :: r -> M.HsDeliver (fst (parse_pkt r))
        | ["t1i"] -> M.HsT1Init
        | ["t1c"] -> M.HsT1Cookie
        | _ -> failwith "bad event") in
      let kname = (match evl with "deliver" :: k :: _ -> k | k :: _ -> k | [] -> "?") in
      bump (kname ^ "@" ^ st_name pre);
      let outs = (match find "outs" with k :: r -> parse_pkts (int_of_string k) r [] | [] -> failwith "bad outs") in
      let herr = List.hd (find "herr") in
      let ((post', outs'), herr') = M.hs_ep_step pre ev in
      let so l = String.concat ";" (List.map s_pkt l) in
      if not (M.hs_ep_eqb post' post) then
        report name 0 ("endpoint state after ev=" ^ String.concat " " evl ^ " from [" ^ s_ep pre ^ "]") (s_ep post') (s_ep post)
      else if so outs' <> so outs then
        report name 0 ("packets emitted by ev=" ^ String.concat " " evl ^ " from [" ^ s_ep pre ^ "]") (so outs') (so outs)
      else if herr <> "-" && s_herr herr' <> herr then
        report name 0 ("handler error of ev=" ^ String.concat " " evl) (s_herr herr') herr;
      if pre.M.hs_frozen then bump "frozen-pre";
      if post.M.hs_frozen && not pre.M.hs_frozen then bump "freezes";
      (* system-level: the implementation's state is in the computed reachable set and satisfies the predicates *)
      if has "peer" && has "net" then begin
        let (peer, _) = parse_ep (find "peer") in
        let net = (match find "net" with k :: r -> parse_net (int_of_string k) r [] | [] -> failwith "bad net") in
        let netm = List.fold_left (fun acc fp -> M.hs_net_ins fp acc) [] net in
        let sys = if x then { M.hs_a = peer; M.hs_b = post; M.hs_net = netm } else { M.hs_a = post; M.hs_b = peer; M.hs_net = netm } in
        bump "sys";
        if not (M.hs_in (Lazy.force reach) (M.hs_norm sys)) then
          report name 0 "system state of the implementation is outside the computed reachable set" "in hs_reach_set"
            ("A=[" ^ s_ep sys.M.hs_a ^ "] B=[" ^ s_ep sys.M.hs_b ^ "] net=" ^ String.concat ";" (List.map (fun (f, p) -> sbool f ^ ":" ^ s_pkt p) netm))
        else if not (M.hs_state_ok sys) then
          report name 0 "state predicates (agree_interleaving/fwd_variant/zero_checksum/quiet/waiting/canonical) fail on the implementation's state" "true" "false";
        if M.hs_goal sys then bump "sys-goal"
      end
      end
    with Failure e | Invalid_argument e -> report name 0 ("malformed record: " ^ e) "" ""
       | Not_found -> report name 0 "malformed record (missing line)" "" "") cases;
  let ks = String.concat "," (List.sort compare (Hashtbl.fold (fun k v acc -> (k ^ ":" ^ string_of_int v) :: acc) kinds [])) in
  Printf.printf "SUMMARY component=hs cases=%d records=%d mismatches=%d kinds=%s\n" (List.length cases) !records !mismatches ks
