#!/usr/bin/env python3
"""seedcheck.py <seed-out-dir> <id> [check ...]
Confirms a seeded change (patch.diff + demo_test.go) in a scratch worktree of /repo's HEAD:
  1. patch applies, package builds, the whole existing suite passes with it,
  2. the demonstration fails with the patch and passes without it,
then applies the patch to /repo itself, runs the listed checks (quick tier), and reverts /repo.
Writes /verif/seeded/<id>/{patch.diff,demo_test.go,meta.json}."""
import json, os, shutil, subprocess, sys, time

src, sid = sys.argv[1], sys.argv[2]
checks = sys.argv[3:]
ENV = dict(os.environ, GOFLAGS="-mod=mod", GOPROXY="off")
WT = "/tmp/seedverify-" + sid


def sh(cmd, cwd=None, timeout=1500):
    p = subprocess.run(cmd, cwd=cwd, env=ENV, shell=isinstance(cmd, str), stdout=subprocess.PIPE, stderr=subprocess.STDOUT, text=True, timeout=timeout)
    return p.returncode, p.stdout


res = {"id": sid, "source": src}
subprocess.run(["git", "-C", "/repo", "worktree", "remove", "--force", WT], capture_output=True)
rc, out = sh(["git", "-C", "/repo", "worktree", "add", "--detach", WT, "HEAD"])
try:
    patch = os.path.join(src, "patch.diff")
    demo = os.path.join(src, "demo_test.go")
    rc, out = sh(["git", "apply", patch], cwd=WT)
    if rc != 0:
        rc, out = sh(["git", "apply", "--3way", patch], cwd=WT)
    res["applies"] = rc == 0
    if rc != 0:
        res["apply_error"] = out[-800:]
    else:
        rc, out = sh("go build ./... && go test -vet=off -count=1 -timeout 25m ./... 2>&1 | tail -15", cwd=WT)
        res["suite_with_patch"] = "PASS" if (rc == 0 and "FAIL" not in out) else "FAIL"
        res["suite_tail"] = out[-600:]
        demo_dst = os.path.join(WT, "zz_seed_demo_test.go")
        shutil.copy(demo, demo_dst)
        rc, out = sh("go test -vet=off -count=1 -timeout 10m -run 'TestSeed|Seed' . 2>&1 | tail -25", cwd=WT)
        res["demo_with_patch"] = "FAIL" if ("FAIL" in out or rc != 0) else "PASS"
        res["demo_with_patch_tail"] = out[-700:]
        sh(["git", "reset", "-q", "--hard", "HEAD"], cwd=WT)
        rc, out = sh("go test -vet=off -count=1 -timeout 10m -run 'TestSeed|Seed' . 2>&1 | tail -8", cwd=WT)
        res["demo_without_patch"] = "PASS" if (rc == 0 and "FAIL" not in out and "no tests to run" not in out) else "FAIL/none: " + out[-300:]
finally:
    subprocess.run(["git", "-C", "/repo", "worktree", "remove", "--force", WT], capture_output=True)
    shutil.rmtree(WT, ignore_errors=True)

confirmed = res.get("applies") and res.get("suite_with_patch") == "PASS" and res.get("demo_with_patch") == "FAIL" and res.get("demo_without_patch") == "PASS"
res["confirmed"] = bool(confirmed)
res["checks"] = {}
if confirmed and checks:
    # While other work is going on in /verif and /repo, the checks are run from a private copy of /verif
    # against a private worktree of /repo's HEAD with the patch applied (VERIF_REPO); nothing shared is touched.
    # (Final pass: the same checks are re-run against /repo itself, see DESIGN.md.)
    iso = os.environ.get("SEED_ISOLATED", "1") == "1"
    VC = "/tmp/seedverif-" + sid
    try:
        if iso:
            subprocess.run(["git", "-C", "/repo", "worktree", "remove", "--force", WT], capture_output=True)
            sh(["git", "-C", "/repo", "worktree", "add", "--detach", WT, "HEAD"])
            rc1, _ = sh(["git", "apply", os.path.join(src, "patch.diff")], cwd=WT)
            if rc1 != 0:
                sh(["git", "apply", "--3way", os.path.join(src, "patch.diff")], cwd=WT)
            shutil.rmtree(VC, ignore_errors=True)
            sh(["rsync", "-a", "--exclude", ".git", "--exclude", "replays", "/verif/", VC + "/"])
            ENV["VERIF_REPO"] = WT
            root = VC
        else:
            st = subprocess.run(["git", "-C", "/repo", "status", "--porcelain"], capture_output=True, text=True).stdout.strip()
            if st:
                raise RuntimeError("/repo not clean: " + st)
            sh(["git", "-C", "/repo", "apply", os.path.join(src, "patch.diff")])
            root = "/verif"
        for c in checks:
            t0 = time.time()
            rc, out = sh([os.path.join(root, "check"), c, "--tier", "quick"], cwd=root, timeout=3000)
            lines = [l for l in out.splitlines() if l.startswith(("VIOLATION", "KNOWN-FINDING", "OK ", "  broken"))]
            res["checks"][c] = {"rc": rc, "wall_s": round(time.time() - t0, 1), "lines": [l[:500] for l in lines[:8]]}
            # keep the replay the check wrote
            for l in lines:
                if l.startswith("VIOLATION") and "replay=" in l:
                    rp = l.split("replay=")[1].split()[0]
                    try:
                        os.makedirs(os.path.join("/verif/seeded", sid), exist_ok=True)
                        shutil.copy(rp, os.path.join("/verif/seeded", sid, "replay_%s_%s" % (c, os.path.basename(rp))))
                    except OSError:
                        pass
        res["checks_ran_isolated"] = iso
    except Exception as e:
        res["checks_error"] = str(e)
    finally:
        if iso:
            subprocess.run(["git", "-C", "/repo", "worktree", "remove", "--force", WT], capture_output=True)
            shutil.rmtree(WT, ignore_errors=True)
            shutil.rmtree(VC, ignore_errors=True)
        else:
            subprocess.run(["git", "-C", "/repo", "checkout", "--", "."], capture_output=True)
dst = os.path.join("/verif/seeded", sid)
os.makedirs(dst, exist_ok=True)
if confirmed:
    shutil.copy(os.path.join(src, "patch.diff"), dst)
    shutil.copy(os.path.join(src, "demo_test.go"), dst)
    meta = {}
    try:
        meta = json.load(open(os.path.join(src, "meta.json")))
    except Exception as e:
        meta = {"meta_error": str(e)}
    meta["verification"] = res
    json.dump(meta, open(os.path.join(dst, "meta.json"), "w"), indent=1)
print(json.dumps(res, indent=1))
