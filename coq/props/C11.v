(* C11 — receive-window accounting and memory bound.
   Model: coq/model/RQ.v (reassembly_queue.go, all four modes) + the association-level pieces
   getMyReceiverWindowCredit / acceptPayloadData (association.go) + canPush of RPQ.v.
   Histories ([rq_op] lists) are arbitrary: any chunks (also hostile: wrong stream, stale or
   repeated SSN/MID/TSN/FSN, any flag combination, empty payloads, DATA and I-DATA mixed), reads with
   any buffer length, the four forward operations with any argument; any start values of the
   SSN/MID cursors and any entry limit ([rq_empty q0]).  The only hypothesis on a history is that
   the payload bytes pushed in total stay below 2^63 (the uint64 counter and its int conversion). *)
From Coq Require Import ZArith Bool List.
From Sctp Require Import Gen SnaProofs RQ RQProofs RPQ E2E E2EProofs.
Import ListNotations.
Open Scope Z_scope.

(* the byte counter equals the payload bytes of all chunks held (ordered sets, unordered sets, loose
   unordered chunks, both I-DATA slices and the pending unordered I-DATA map), in every reachable state *)
Theorem c11_counter_exact : forall q0 ops,
  rq_empty q0 -> rq_ops_bytes ops < B63 ->
  rq_nbytes (rq_run q0 ops) = rq_held_bytes (rq_run q0 ops).
Proof. exact rq_bytes_exact_thm. Qed.
Print Assumptions c11_counter_exact.

(* no call of subtractNumBytes ever takes its clamp branch *)
Theorem c11_clamp_unreachable : forall q0 ops o,
  rq_empty q0 -> rq_ops_bytes (ops ++ [o]) < B63 ->
  rq_step_clamps (rq_run q0 ops) o = false.
Proof. exact rq_clamp_unreachable_thm. Qed.
Print Assumptions c11_clamp_unreachable.

(* the counter is zero exactly when every held chunk has an empty payload; nothing held => zero *)
Theorem c11_counter_zero_iff : forall q0 ops,
  rq_empty q0 -> rq_ops_bytes ops < B63 ->
  (rq_nbytes (rq_run q0 ops) = 0 <-> Forall (fun c => rqc_data c = []) (rq_all_chunks (rq_run q0 ops))).
Proof. exact rq_counter_zero_iff_thm. Qed.
Print Assumptions c11_counter_zero_iff.

Theorem c11_drained : forall q0 ops,
  rq_empty q0 -> rq_ops_bytes ops < B63 ->
  rq_all_chunks (rq_run q0 ops) = [] -> rq_nbytes (rq_run q0 ops) = 0.
Proof. exact rq_drained_thm. Qed.
Print Assumptions c11_drained.

(* getMyReceiverWindowCredit: buffer minus the sum of the counters, floored at 0, never above the buffer *)
Theorem c11_a_rwnd_formula : forall buf cs,
  0 <= buf < 4294967296 -> Forall (fun n => 0 <= n) cs -> zsum cs < 4294967296 ->
  rq_a_rwnd buf cs = Z.max 0 (buf - zsum cs).
Proof. exact rq_a_rwnd_formula. Qed.
Print Assumptions c11_a_rwnd_formula.

Theorem c11_a_rwnd_range : forall buf cs, 0 <= buf < 4294967296 -> 0 <= rq_a_rwnd buf cs <= buf.
Proof. exact rq_a_rwnd_range. Qed.
Print Assumptions c11_a_rwnd_range.

(* for the streams in the association's map: advertised window = buffer - bytes held, and the full
   buffer once everything was read or purged *)
Theorem c11_window_is_buffer_minus_held : forall buf qs,
  0 <= buf < 4294967296 -> Forall rq_reachable qs -> zsum (map rq_held_bytes qs) < 4294967296 ->
  rq_a_rwnd buf (map rq_nbytes qs) = Z.max 0 (buf - zsum (map rq_held_bytes qs)).
Proof. exact rq_window_formula_thm. Qed.
Print Assumptions c11_window_is_buffer_minus_held.

Theorem c11_window_full_when_drained : forall buf qs,
  0 <= buf < 4294967296 -> Forall rq_reachable qs -> Forall (fun q => rq_all_chunks q = []) qs ->
  rq_a_rwnd buf (map rq_nbytes qs) = buf.
Proof. exact rq_window_full_when_drained_thm. Qed.
Print Assumptions c11_window_full_when_drained.

(* admission: a chunk handed to a stream lies in the TSN window above the cumulative point and was
   not received before; at zero credit it additionally lies strictly below the highest TSN received *)
Theorem c11_tsn_window : forall pq credit tsn,
  rq_assoc_takes pq credit tsn = true ->
  has_chunk pq tsn = false /\ sna32LTE tsn (cum pq) = false /\
  sna32GT tsn (wrap32 (cum pq + max_off pq)) = false.
Proof. exact rq_assoc_takes_window. Qed.
Print Assumptions c11_tsn_window.

Theorem c11_zero_window_rule : forall pq tsn,
  rq_assoc_takes pq 0 tsn = true -> size pq <> 0 /\ sna32LT tsn (tail pq) = true.
Proof. exact rq_assoc_takes_zero_window. Qed.
Print Assumptions c11_zero_window_rule.

(* memory clause under the hypothesis that no pushed chunk has an empty payload (0 < len): the number
   of chunks a stream holds never exceeds its byte counter, so for the streams of the map the chunks
   held are at most buffer - a_rwnd while credit is left.  The hypothesis is what the association does
   NOT enforce today (D13, refuted below); once handleData rejects empty DATA it holds for every chunk
   that reaches a queue. *)
Theorem c11_chunks_held_le_counter : forall q0 ops,
  rq_empty q0 -> rq_ops_bytes ops < B63 -> Forall (fun c => 0 < rqc_len c) (rq_pushed ops) ->
  Z.of_nat (length (rq_all_chunks (rq_run q0 ops))) <= rq_nbytes (rq_run q0 ops).
Proof. exact rq_chunks_le_counter_thm. Qed.
Print Assumptions c11_chunks_held_le_counter.

Theorem c11_chunks_held_le_buffer : forall buf qs,
  0 <= buf < 4294967296 ->
  Forall (fun q => exists q0 ops, rq_empty q0 /\ rq_ops_bytes ops < B63 /\
                   Forall (fun c => 0 < rqc_len c) (rq_pushed ops) /\ q = rq_run q0 ops) qs ->
  zsum (map rq_held_bytes qs) < 4294967296 ->
  0 < rq_a_rwnd buf (map rq_nbytes qs) ->
  zsum (map (fun q => Z.of_nat (length (rq_all_chunks q))) qs) <= buf - rq_a_rwnd buf (map rq_nbytes qs).
Proof. exact rq_chunks_le_buffer_thm. Qed.
Print Assumptions c11_chunks_held_le_buffer.

(* with an entry limit configured (WithMaxReassemblyQueueEntries N > 0) a stream never holds more than N
   ordered and N unordered DATA chunks, whatever arrives; a further chunk is refused with the error on
   which the association aborts.  (For I-DATA the limit counts message identifiers, not chunks.) *)
Theorem c11_entry_limit_bounds_data : forall ops q,
  0 < rq_max q -> rq_ordered_count q <= rq_max q -> rq_unordered_count q <= rq_max q ->
  rq_ordered_count (rq_run q ops) <= rq_max q /\ rq_unordered_count (rq_run q ops) <= rq_max q.
Proof. exact rq_entry_limit_thm. Qed.
Print Assumptions c11_entry_limit_bounds_data.

Theorem c11_entry_limit_error : forall q c,
  0 < rq_max q -> rqc_idata c = false -> rqc_si c = rq_si q -> rqc_unord c = true ->
  rq_max q <= rq_unordered_count q -> rq_push q c = (q, RqErrLimit).
Proof. exact rq_entry_limit_error. Qed.
Print Assumptions c11_entry_limit_error.

(* non-vacuity: an I-DATA history across the MID wrap with a duplicate, a short read and a purge *)
Example c11_example_history :
  let c m f b e d := mkRqChunk (100 + f) 3 0 m f 53 false b e true d in
  let ops := [RqPush (c 4294967295 1 false true [7;8]); RqPush (c 4294967295 0 true false [5]);
              RqPush (c 4294967295 1 false true [7;8]); RqPush (c 0 0 true false [9;9;9]);
              RqRead 2; RqRead 3; RqFwdOM 0] in
  let q0 := mkRq 3 0 4294967295 [] [] [] [] [] [] false 0 0 in
  rq_nbytes (rq_run q0 (firstn 4 ops)) = 6 /\ snd (rq_read (rq_run q0 (firstn 4 ops)) 2) = RdShort 3 /\
  rq_nbytes (rq_run q0 (firstn 6 ops)) = 3 /\ rq_nbytes (rq_run q0 ops) = 0 /\ rq_nextMID (rq_run q0 ops) = 1.
Proof. vm_compute. repeat split. Qed.

(* D13: the memory clause fails for chunks with an empty payload when no entry limit is configured:
   for every n there is a history of n accepted DATA chunks (distinct TSNs, one SSN ahead of the read
   cursor) after which n chunks are held, the counter is 0, the advertised window is still the whole
   buffer and nothing is readable. *)
Theorem c11_memory_bound_refuted_zero_length : forall n b,
  let q := rq_run (rq_new 0 0) (rq_zhist n) in
  Z.of_nat (length (rq_all_chunks q)) = Z.of_nat n /\ rq_nbytes q = 0 /\
  rq_a_rwnd 1048576 [rq_nbytes q] = 1048576 /\ snd (rq_read q b) = RdTryAgain.
Proof. exact rq_zero_length_unbounded_thm. Qed.
Print Assumptions c11_memory_bound_refuted_zero_length.

(* Stream resets (D12, repaired in /repo by 243f816): resetStreamsIfAny removes the stream from the map but
   remembers it in a.detachedStreams while its queue still holds unread bytes, and
   getMyReceiverWindowCredit counts those.  [rq_credit buf mapq detq] is that function; [e2e_reset] is the
   reset of one stream in the composed receiver state of E2E.v (bitmap + stream map + detached list),
   [e2e_a_rwnd] the window a SACK advertises, [e2e_held] the payload bytes held by every stream object the
   application was handed and that still has data. *)
Theorem c11_window_counts_reset_streams : forall buf mapq detq,
  0 <= buf < 4294967296 -> Forall rq_reachable mapq -> Forall rq_reachable detq ->
  zsum (map rq_held_bytes mapq) + zsum (map rq_held_bytes detq) < 4294967296 ->
  rq_credit buf mapq detq = Z.max 0 (buf - zsum (map rq_held_bytes mapq) - zsum (map rq_held_bytes detq)).
Proof. exact rq_credit_formula_thm. Qed.
Print Assumptions c11_window_counts_reset_streams.

Theorem c11_reset_keeps_window : forall st sid,
  0 <= e2e_buf st < 4294967296 -> e2e_queues_reachable st -> e2e_held st < 4294967296 ->
  e2e_a_rwnd (e2e_reset st sid) = e2e_a_rwnd st /\ e2e_held (e2e_reset st sid) = e2e_held st /\
  e2e_queues_reachable (e2e_reset st sid).
Proof. exact e2e_reset_keeps_window. Qed.
Print Assumptions c11_reset_keeps_window.

Theorem c11_window_is_buffer_minus_all_held : forall st,
  0 <= e2e_buf st < 4294967296 -> e2e_queues_reachable st -> e2e_held st < 4294967296 ->
  e2e_a_rwnd st = Z.max 0 (e2e_buf st - e2e_held st).
Proof. exact e2e_window_formula. Qed.
Print Assumptions c11_window_is_buffer_minus_all_held.

Theorem c11_window_full_when_all_drained : forall buf mapq detq,
  0 <= buf < 4294967296 -> Forall rq_reachable mapq -> Forall rq_reachable detq ->
  Forall (fun q => rq_all_chunks q = []) mapq -> Forall (fun q => rq_all_chunks q = []) detq ->
  rq_credit buf mapq detq = buf.
Proof. exact rq_credit_full_when_drained_thm. Qed.
Print Assumptions c11_window_full_when_all_drained.

(* the former D12 witness as a regression: an unread message, the peer resets the stream, the window still
   shows its bytes; once the application has read it from the detached stream the whole buffer is advertised *)
Example c11_window_after_inbound_reset :
  let c := mkRqChunk 1 7 0 0 0 53 false true true false [1; 2; 3] in
  let st1 := fst (e2e_recv_data (e2e_new 1 4096 0 false) c true) in
  let st2 := e2e_reset st1 7 in
  let st3 := fst (e2e_read_detached st2 0 64) in
  e2e_a_rwnd st1 = 4093 /\ e2e_streams st2 = [] /\ e2e_a_rwnd st2 = 4093 /\ e2e_a_rwnd st3 = 4096.
Proof. exact e2e_window_after_reset_example. Qed.
