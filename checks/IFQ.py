"""IFQ — component check for the generic ring deque (queue.go) and the in-flight queue (payload_queue.go).
Not a property of properties.jsonl: the theorems of props/IFQProps.v are cited by C15 (buffered amount) and C10/C01
(sender model).  `./check IFQ` builds, checks Print Assumptions and runs the differential for this component alone."""
import vlib

PROP = "IFQ"
PROPS_FILE = "props/IFQProps.v"
COQ_FILES = ["gen/Gen.v", "model/IFQ.v", "proofs/IFQProofs.v", "props/IFQProps.v"]
TRUSTED_BASE = [
    "Coq 8.16.1 kernel; vm_compute only in Examples / refutation witnesses; no native_compute",
    "hand-written model coq/model/IFQ.v of queue.go + payload_queue.go (Go % is Z.rem; chunk mutation through the stored "
    "pointer is rg_set_at; a nil pointer in an unused slot is the zero chunk)",
    "extraction (ExtrOcamlBasic only) + /verif/ocaml/cmp_ifq.ml; Go harness zz_verif_ifq_test.go (overlay)",
]
ASSUMPTIONS = [
    "the association pushes consecutive TSNs (generateNextTSN) and never stores one chunk pointer twice; outside this invariant "
    "the model is still compared with the code (non-consecutive cases) and props/IFQProps.v states what get() then returns",
    "only nbytes >= 0 is proved; nbytes < 2^32 for the uint32 casts in association.go must come from the sender/cwnd model",
]


def correspondence(ctx):
    vlib.differential(ctx, "ifq-differential", "TestVerifIFQ", "ifq",
                      {"VERIF_N": ctx.scale(160, 1200), "VERIF_OPS": ctx.scale(150, 200)})
    vlib.differential(ctx, "ring-differential", "TestVerifRing", "ifq",
                      {"VERIF_N": ctx.scale(160, 1200), "VERIF_OPS": ctx.scale(150, 200)})


def search(ctx):
    vlib.differential(ctx, "ifq-differential-wide", "TestVerifIFQ", "ifq",
                      {"VERIF_N": 600, "VERIF_OPS": 200, "VERIF_SEED": ctx.seed + 23})


LEVEL_TEXT = ("Coq theorems: the ring deque refines a list (PushBack/PopFront/Front/Back/At/Len, growth included, no index leaves "
              "the buffer in any reachable state); in-flight queue: get(tsn) finds exactly the chunk with that TSN when TSNs are "
              "consecutive, nBytes = sum of un-acked payload lengths >= 0, markAsAcked releases each chunk's bytes exactly once, "
              "pop removes only the matching front chunk, markAllToRetrasmit marks exactly the un-acked non-abandoned chunks; "
              "for all op histories. Tied to the code by an op-sequence differential with full state dumps.")
LEVEL_NOTE = "Component-level check; feeds C15/C10/C01. get() does not compare the found chunk's TSN (refutation outside the invariant)."
TECHNIQUE = "Coq proof (refinement + invariants) + differential correspondence"
