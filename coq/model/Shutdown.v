(* Executable control abstraction of the graceful-shutdown machinery of association.go (property C08).

   One endpoint = the projection of Association that the shutdown sequence reads and writes:
     state, willSendShutdown, willSendShutdownAck, willSendShutdownComplete, shutdownCompletePending,
     T2 running, pendingQueue.size(), inflightQueue.size(), ackState, the result of the user's
     Shutdown call, and "read/write loops have exited" (transport closed).
   Step functions mirror, branch by branch:
     Shutdown, sendPayloadData's state check, handleShutdown (+ finishShutdownHandling, isShutdownHandleState,
     entersShutdownReceived from Gen.v), handleShutdownAck, handleShutdownComplete, retransmitShutdownAck,
     handleInit in SHUTDOWN-ACK-SENT, handleData's shutdownSent branch and canHandleData (isDataReceiveState from
     Gen.v), handleSack's state filter + postprocessSack + advanceShutdownAfterDataDrain, onShutdownTimeout (T2),
     onAckTimeout, gatherOutboundPriorityPackets / gatherOutbound / gatherOutboundShutdownPackets /
     gatherOutboundSackPackets (what is emitted in which state, in which order, and when the write loop closes the
     association), close() and the readLoop exit path.
   The data path is abstracted to two counters; what the acknowledgement routine (processAcknowledgement, shared
   by SACK and SHUTDOWN) removes from the in-flight queue and what the admission test moves out of the pending
   queue are ORACLES of the event (sd_ackres, moved, rtx): theorems quantify over all their values, the
   correspondence check supplies the observed ones.
   No proofs in this file. *)
From Coq Require Import ZArith Bool List PArith FMapPositive.
From Sctp Require Import Gen.
Import ListNotations.
Open Scope Z_scope.

Inductive sd_kind := SdData | SdSack | SdShutdown | SdShutdownAck | SdShutdownComplete | SdInit.

(* result of the user's Shutdown call: not called / blocked / nil / refused at once (ErrShutdownNonEstablished) /
   ErrShutdownIncomplete (the association closed before the shutdown sequence reached its end) *)
Inductive sd_retv := SdNotCalled | SdWaiting | SdRetNil | SdRetErr | SdRetIncomplete.

Record sd_ep := mkSdEp {
  sd_state : Z;      (* association state (Gen.c_established ...) *)
  sd_wsd : bool;     (* willSendShutdown *)
  sd_wsa : bool;     (* willSendShutdownAck *)
  sd_wsc : bool;     (* willSendShutdownComplete *)
  sd_scp : bool;     (* shutdownCompletePending *)
  sd_done : bool;    (* shutdownCompleted: SHUTDOWN ACK seen in SHUTDOWN-SENT / -ACK-SENT, or SHUTDOWN COMPLETE in -ACK-SENT *)
  sd_t2 : bool;      (* t2Shutdown.isRunning() *)
  sd_pend : Z;       (* pendingQueue.size() *)
  sd_infl : Z;       (* inflightQueue.size() *)
  sd_ack : Z;        (* ackState: 0 idle, 1 immediate, 2 delay *)
  sd_ret : sd_retv;  (* the user's Shutdown call: not called / blocked / returned nil / returned an error *)
  sd_down : bool     (* closeWriteLoopCh closed: loops exit, nothing is handled or sent any more *)
}.

Definition sd_ackIdle : Z := 0.
Definition sd_ackImmediate : Z := 1.
Definition sd_ackDelay : Z := 2.

Definition sd_set_state (e : sd_ep) (v : Z) : sd_ep :=
  mkSdEp v (sd_wsd e) (sd_wsa e) (sd_wsc e) (sd_scp e) (sd_done e) (sd_t2 e) (sd_pend e) (sd_infl e) (sd_ack e) (sd_ret e) (sd_down e).
Definition sd_set_wsd (e : sd_ep) (v : bool) : sd_ep :=
  mkSdEp (sd_state e) v (sd_wsa e) (sd_wsc e) (sd_scp e) (sd_done e) (sd_t2 e) (sd_pend e) (sd_infl e) (sd_ack e) (sd_ret e) (sd_down e).
Definition sd_set_wsa (e : sd_ep) (v : bool) : sd_ep :=
  mkSdEp (sd_state e) (sd_wsd e) v (sd_wsc e) (sd_scp e) (sd_done e) (sd_t2 e) (sd_pend e) (sd_infl e) (sd_ack e) (sd_ret e) (sd_down e).
Definition sd_set_wsc (e : sd_ep) (v : bool) : sd_ep :=
  mkSdEp (sd_state e) (sd_wsd e) (sd_wsa e) v (sd_scp e) (sd_done e) (sd_t2 e) (sd_pend e) (sd_infl e) (sd_ack e) (sd_ret e) (sd_down e).
Definition sd_set_scp (e : sd_ep) (v : bool) : sd_ep :=
  mkSdEp (sd_state e) (sd_wsd e) (sd_wsa e) (sd_wsc e) v (sd_done e) (sd_t2 e) (sd_pend e) (sd_infl e) (sd_ack e) (sd_ret e) (sd_down e).
Definition sd_set_done (e : sd_ep) (v : bool) : sd_ep :=
  mkSdEp (sd_state e) (sd_wsd e) (sd_wsa e) (sd_wsc e) (sd_scp e) v (sd_t2 e) (sd_pend e) (sd_infl e) (sd_ack e) (sd_ret e) (sd_down e).
Definition sd_set_t2 (e : sd_ep) (v : bool) : sd_ep :=
  mkSdEp (sd_state e) (sd_wsd e) (sd_wsa e) (sd_wsc e) (sd_scp e) (sd_done e) v (sd_pend e) (sd_infl e) (sd_ack e) (sd_ret e) (sd_down e).
Definition sd_set_pend (e : sd_ep) (v : Z) : sd_ep :=
  mkSdEp (sd_state e) (sd_wsd e) (sd_wsa e) (sd_wsc e) (sd_scp e) (sd_done e) (sd_t2 e) v (sd_infl e) (sd_ack e) (sd_ret e) (sd_down e).
Definition sd_set_infl (e : sd_ep) (v : Z) : sd_ep :=
  mkSdEp (sd_state e) (sd_wsd e) (sd_wsa e) (sd_wsc e) (sd_scp e) (sd_done e) (sd_t2 e) (sd_pend e) v (sd_ack e) (sd_ret e) (sd_down e).
Definition sd_set_ack (e : sd_ep) (v : Z) : sd_ep :=
  mkSdEp (sd_state e) (sd_wsd e) (sd_wsa e) (sd_wsc e) (sd_scp e) (sd_done e) (sd_t2 e) (sd_pend e) (sd_infl e) v (sd_ret e) (sd_down e).
Definition sd_set_ret (e : sd_ep) (v : sd_retv) : sd_ep :=
  mkSdEp (sd_state e) (sd_wsd e) (sd_wsa e) (sd_wsc e) (sd_scp e) (sd_done e) (sd_t2 e) (sd_pend e) (sd_infl e) (sd_ack e) v (sd_down e).
Definition sd_set_down (e : sd_ep) (v : bool) : sd_ep :=
  mkSdEp (sd_state e) (sd_wsd e) (sd_wsa e) (sd_wsc e) (sd_scp e) (sd_done e) (sd_t2 e) (sd_pend e) (sd_infl e) (sd_ack e) (sd_ret e) v.

(* hasPendingOrInflightData *)
Definition sd_has_data (e : sd_ep) : bool := (0 <? sd_pend e) || (0 <? sd_infl e).

(* close() and the deferred part of readLoop: state closed, timers closed, closeWriteLoopCh closed.  Whatever closed
   the channel wakes the select in Shutdown, which (since fix 568b58f) returns nil only if shutdownCompleted is set and
   ErrShutdownIncomplete otherwise *)
Definition sd_close (e : sd_ep) : sd_ep :=
  let e1 := sd_set_down (sd_set_t2 (sd_set_state e c_closed) false) true in
  match sd_ret e with
  | SdWaiting => sd_set_ret e1 (if sd_done e then SdRetNil else SdRetIncomplete)
  | _ => e1
  end.

(* Shutdown(ctx): the bool is "accepted" (false = ErrShutdownNonEstablished returned at once) *)
Definition sd_api_shutdown (e : sd_ep) : sd_ep * bool :=
  if negb (sd_state e =? c_established) then
    (match sd_ret e with SdNotCalled => sd_set_ret e SdRetErr | _ => e end, false)
  else
    let e1 := sd_set_state e c_shutdownPending in
    let e2 := if sd_has_data e1 then e1 else sd_set_state (sd_set_wsd e1 true) c_shutdownSent in
    (sd_set_ret e2 SdWaiting, true).

(* Stream.WriteSCTP -> sendPayloadData for a message of [n] chunks; bool = accepted *)
Definition sd_write_attempt (e : sd_ep) (n : Z) : sd_ep * bool :=
  if negb (sd_state e =? c_established) then (e, false)
  else (sd_set_pend e (sd_pend e + n), true).

(* advanceShutdownAfterDataDrain(state) *)
Definition sd_advance_after_drain (e : sd_ep) (st : Z) : sd_ep :=
  if sd_has_data e then e
  else if st =? c_shutdownPending then sd_set_state (sd_set_wsd e true) c_shutdownSent
  else if st =? c_shutdownReceived then sd_set_state (sd_set_wsa e true) c_shutdownAckSent
  else e.

(* what processAcknowledgement did with the cumulative TSN ack (oracle) *)
Inductive sd_ackres :=
| SdAckOk (acked : Z)   (* processed; [acked] chunks left the in-flight queue *)
| SdAckStale            (* cumulative ack older than the ack point: result.processed = false *)
| SdAckErr.             (* validation error, nothing mutated *)

(* retransmitShutdownAck *)
Definition sd_retransmit_shutdown_ack (e : sd_ep) : sd_ep :=
  if sd_scp e then e
  else sd_set_wsa (sd_set_wsd (sd_set_t2 e false) false) true.

(* finishShutdownHandling(state) *)
Definition sd_finish_shutdown_handling (e : sd_ep) (st : Z) : sd_ep :=
  if (st =? c_established) || (st =? c_shutdownPending) || (st =? c_shutdownReceived) then
    if sd_has_data e then sd_set_state e c_shutdownReceived
    else sd_set_state (sd_set_wsa e true) c_shutdownAckSent
  else e.

(* handleShutdown *)
Definition sd_recv_shutdown (e : sd_ep) (r : sd_ackres) : sd_ep :=
  if sd_scp e then e
  else
    let st := sd_state e in
    if st =? c_shutdownAckSent then sd_retransmit_shutdown_ack e
    else if st =? c_shutdownSent then
      sd_set_state (sd_set_wsa (sd_set_wsd (sd_set_t2 e false) false) true) c_shutdownAckSent
    else if negb (isShutdownHandleState st) then e
    else
      let e1 := if entersShutdownReceived st then sd_set_state e c_shutdownReceived else e in
      match r with
      | SdAckErr => sd_set_state e1 st          (* ack point unchanged: the previous state is restored *)
      | SdAckStale => sd_finish_shutdown_handling e1 st
      | SdAckOk acked => sd_finish_shutdown_handling (sd_set_infl e1 (sd_infl e1 - acked)) st
      end.

(* handleShutdownAck *)
Definition sd_recv_shutdown_ack (e : sd_ep) : sd_ep :=
  if (sd_state e =? c_shutdownSent) || (sd_state e =? c_shutdownAckSent) then
    sd_set_done (sd_set_wsc (sd_set_scp (sd_set_wsa (sd_set_wsd (sd_set_t2 e false) false) false) true) true) true
  else e.

(* handleShutdownComplete *)
Definition sd_recv_shutdown_complete (e : sd_ep) : sd_ep :=
  if sd_state e =? c_shutdownAckSent then sd_close (sd_set_done e true) else e.

(* handleInit: only the SHUTDOWN-ACK-SENT branch (matching ports) touches the projection; in the other states of
   an established association the INIT is refused with an error that handleChunk swallows *)
Definition sd_recv_init (e : sd_ep) : sd_ep :=
  if sd_state e =? c_shutdownAckSent then sd_retransmit_shutdown_ack e else e.

(* handleData for one packet of DATA chunks + handleChunksEnd.  [imm] = a chunk asked for an immediate SACK
   (I bit, gap, hole in the receive queue, no-delay mode). *)
Definition sd_recv_data (e : sd_ep) (imm : bool) : sd_ep :=
  if sd_scp e || negb (isDataReceiveState (sd_state e)) then e
  else
    let ss := sd_state e =? c_shutdownSent in
    let e1 := if ss then sd_set_t2 (sd_set_wsd e true) false else e in
    if imm || ss then sd_set_ack e1 sd_ackImmediate
    else if sd_ack e1 =? sd_ackIdle then sd_set_ack e1 sd_ackDelay
    else sd_set_ack e1 sd_ackImmediate.

(* handleSack: state filter, acknowledgement (oracle), postprocessSack *)
Definition sd_recv_sack (e : sd_ep) (r : sd_ackres) : sd_ep :=
  let st := sd_state e in
  if negb ((st =? c_established) || (st =? c_shutdownPending) || (st =? c_shutdownReceived)) then e
  else
    match r with
    | SdAckErr => e
    | SdAckStale => e
    | SdAckOk acked =>
      let e1 := sd_set_infl e (sd_infl e - acked) in
      if 0 <? sd_infl e1 then e1
      else if 0 <? sd_pend e1 then e1
      else sd_advance_after_drain e1 st
    end.

(* onShutdownTimeout: the timer fires only while started *)
Definition sd_t2_expire (e : sd_ep) : sd_ep :=
  if negb (sd_t2 e) then e
  else if sd_scp e then e
  else if sd_state e =? c_shutdownSent then sd_set_wsd e true
  else if sd_state e =? c_shutdownAckSent then sd_set_wsa e true
  else e.

(* onAckTimeout: the ack timer runs only in the delay state *)
Definition sd_ack_timeout (e : sd_ep) : sd_ep :=
  if sd_ack e =? sd_ackDelay then sd_set_ack e sd_ackImmediate else e.

(* ---------------------------------------------------------------- gather *)

(* gatherOutboundShutdownPackets: (endpoint, packets, ok) *)
Definition sd_gather_shutdown (e : sd_ep) : sd_ep * list sd_kind * bool :=
  if sd_wsc e then (sd_set_wsd (sd_set_wsa (sd_set_wsc e false) false) false, [SdShutdownComplete], false)
  else if sd_wsa e then (sd_set_t2 (sd_set_wsd (sd_set_wsa e false) false) true, [SdShutdownAck], true)
  else if sd_wsd e then (sd_set_t2 (sd_set_wsd e false) true, [SdShutdown], true)
  else (e, [], true).

(* gatherOutboundSackPackets *)
Definition sd_gather_sack (e : sd_ep) : sd_ep * list sd_kind :=
  if sd_ack e =? sd_ackImmediate then (sd_set_ack e sd_ackIdle, [SdSack]) else (e, []).

(* retransmissions + popPendingDataChunksToSend + fast retransmissions, abstracted: [moved] chunks go from the
   pending to the in-flight queue, [rtx] = some in-flight chunk is sent again *)
Definition sd_gather_data (e : sd_ep) (moved : Z) (rtx : bool) : sd_ep * list sd_kind :=
  let e1 := sd_set_infl (sd_set_pend e (sd_pend e - moved)) (sd_infl e + moved) in
  (e1, if (0 <? moved) || (rtx && (0 <? sd_infl e)) then [SdData] else []).

(* gatherOutbound (ABORT and the control queue are outside the projection); the write loop closes the
   association when ok = false *)
Definition sd_gather (e : sd_ep) (moved : Z) (rtx : bool) : sd_ep * list sd_kind :=
  if sd_down e then (e, [])
  else if sd_wsc e then
    (* terminal: SHUTDOWN COMPLETE alone, whatever else is queued *)
    let '(e1, o1, ok) := sd_gather_shutdown e in
    (if ok then e1 else sd_close e1, o1)
  else
    let '(e1, o1) :=
      if (sd_state e =? c_shutdownAckSent) && sd_wsa e then
        let '(x, o, _) := sd_gather_shutdown e in (x, o)
      else if (sd_state e =? c_shutdownSent) && sd_wsd e then
        let '(x, o) := sd_gather_sack e in
        let '(y, o', _) := sd_gather_shutdown x in (y, o ++ o')
      else (e, []) in
    let st := sd_state e1 in
    if st =? c_established then
      let '(e2, o2) := sd_gather_data e1 moved rtx in
      let '(e3, o3) := sd_gather_sack e2 in
      (e3, o1 ++ o2 ++ o3)
    else if (st =? c_shutdownPending) || (st =? c_shutdownReceived) then
      let '(e2, o2) := sd_gather_data e1 moved rtx in
      let e3 := sd_advance_after_drain e2 st in
      let '(e4, o4) := sd_gather_sack e3 in
      let '(e5, o5, ok) := sd_gather_shutdown e4 in
      (if ok then e5 else sd_close e5, o1 ++ o2 ++ o4 ++ o5)
    else if st =? c_shutdownSent then
      let '(e2, o2) := sd_gather_sack e1 in
      let '(e3, o3, ok) := sd_gather_shutdown e2 in
      (if ok then e3 else sd_close e3, o1 ++ o2 ++ o3)
    else if st =? c_shutdownAckSent then
      let '(e2, o2, ok) := sd_gather_shutdown e1 in
      (if ok then e2 else sd_close e2, o1 ++ o2)
    else (e1, o1).

(* ---------------------------------------------------------------- one harness event on one endpoint *)

Inductive sd_event :=
| SdEvShutdownCall
| SdEvWrite (n : Z)
| SdEvRecvData (imm : bool)
| SdEvRecvSack (r : sd_ackres)
| SdEvRecvShutdown (r : sd_ackres)
| SdEvRecvShutdownAck
| SdEvRecvShutdownComplete
| SdEvRecvInit
| SdEvT2
| SdEvAckTimer
| SdEvRtx                (* T3 / RACK / PTO expiry: marks chunks, wakes the write loop *)
| SdEvTransportDown      (* netConn.Read fails: readLoop exits *)
| SdEvRecvAbort          (* ABORT from the peer: handleAbort closes, readLoop exits *)
| SdEvCloseCall.         (* the user calls Close (or Abort) while Shutdown may be blocked *)

(* the handler part; bool = the API call was accepted (true for non-API events) *)
Definition sd_handle (e : sd_ep) (ev : sd_event) : sd_ep * bool :=
  match ev with
  | SdEvShutdownCall => sd_api_shutdown e
  | SdEvWrite n => sd_write_attempt e n
  | SdEvCloseCall => (sd_close e, true)
  | _ =>
    if sd_down e then (e, true)
    else
      (match ev with
       | SdEvRecvData imm => sd_recv_data e imm
       | SdEvRecvSack r => sd_recv_sack e r
       | SdEvRecvShutdown r => sd_recv_shutdown e r
       | SdEvRecvShutdownAck => sd_recv_shutdown_ack e
       | SdEvRecvShutdownComplete => sd_recv_shutdown_complete e
       | SdEvRecvInit => sd_recv_init e
       | SdEvT2 => sd_t2_expire e
       | SdEvAckTimer => sd_ack_timeout e
       | SdEvTransportDown => sd_close e
       | SdEvRecvAbort => sd_close e
       | _ => e
       end, true)
  end.

(* handler, then the write loop runs once *)
Definition sd_step (e : sd_ep) (ev : sd_event) (moved : Z) (rtx : bool) : sd_ep * list sd_kind * bool :=
  let '(e1, acc) := sd_handle e ev in
  let '(e2, out) := sd_gather e1 moved rtx in
  (e2, out, acc).

(* constraint on the gather oracles, checked on the observed values by the correspondence *)
Definition sd_sends_data (st : Z) : bool :=
  (st =? c_established) || (st =? c_shutdownPending) || (st =? c_shutdownReceived).

Definition sd_oracle_ok (e1 : sd_ep) (moved : Z) (rtx : bool) : bool :=
  (0 <=? moved) && (moved <=? sd_pend e1) &&
  (if (0 <? moved) || rtx then sd_sends_data (sd_state e1) && negb (sd_down e1) && negb (sd_wsc e1) else true) &&
  (if rtx then 0 <? sd_infl e1 else true).

Definition sd_ackres_ok (e : sd_ep) (r : sd_ackres) : bool :=
  match r with SdAckOk a => (0 <=? a) && (a <=? sd_infl e) | _ => true end.

(* for the comparator: everything about a step as one tuple *)
Definition sd_replay (e : sd_ep) (ev : sd_event) (moved : Z) (rtx : bool) : sd_ep * list sd_kind * bool * bool :=
  let '(e1, acc) := sd_handle e ev in
  let ok := sd_oracle_ok e1 moved rtx &&
            match ev with SdEvRecvSack r => sd_ackres_ok e r | SdEvRecvShutdown r => sd_ackres_ok e r | _ => true end in
  let '(e2, out) := sd_gather e1 moved rtx in
  (e2, out, acc, ok).

(* ---------------------------------------------------------------- two endpoints and the network *)

Record sd_net := mkSdNet { sd_n_data : bool; sd_n_sack : bool; sd_n_sd : bool; sd_n_sa : bool; sd_n_sc : bool }.

Definition sd_net_empty : sd_net := mkSdNet false false false false false.

Definition sd_net_has (n : sd_net) (k : sd_kind) : bool :=
  match k with
  | SdData => sd_n_data n | SdSack => sd_n_sack n | SdShutdown => sd_n_sd n
  | SdShutdownAck => sd_n_sa n | SdShutdownComplete => sd_n_sc n
  | SdInit => true      (* a stale INIT with the association's ports may show up at any time *)
  end.

Definition sd_net_add (n : sd_net) (k : sd_kind) : sd_net :=
  match k with
  | SdData => mkSdNet true (sd_n_sack n) (sd_n_sd n) (sd_n_sa n) (sd_n_sc n)
  | SdSack => mkSdNet (sd_n_data n) true (sd_n_sd n) (sd_n_sa n) (sd_n_sc n)
  | SdShutdown => mkSdNet (sd_n_data n) (sd_n_sack n) true (sd_n_sa n) (sd_n_sc n)
  | SdShutdownAck => mkSdNet (sd_n_data n) (sd_n_sack n) (sd_n_sd n) true (sd_n_sc n)
  | SdShutdownComplete => mkSdNet (sd_n_data n) (sd_n_sack n) (sd_n_sd n) (sd_n_sa n) true
  | SdInit => n
  end.

Definition sd_net_adds (n : sd_net) (ks : list sd_kind) : sd_net := fold_left sd_net_add ks n.

(* side false = A, true = B *)
Record sd_sys := mkSdSys {
  sd_a : sd_ep; sd_b : sd_ep;
  sd_ab : sd_net;   (* packets from A travelling to B: every element may be delivered at any time, any number of times *)
  sd_ba : sd_net
}.

Definition sd_ep_of (s : sd_sys) (side : bool) : sd_ep := if side then sd_b s else sd_a s.
Definition sd_net_to (s : sd_sys) (side : bool) : sd_net := if side then sd_ab s else sd_ba s.

Inductive sd_label :=
| SdL (side : bool) (ev : sd_event) (moved : Z) (rtx : bool)
| SdLoseAll.            (* everything in transit is lost *)

Definition sd_ev_kind (ev : sd_event) : option sd_kind :=
  match ev with
  | SdEvRecvData _ => Some SdData | SdEvRecvSack _ => Some SdSack | SdEvRecvShutdown _ => Some SdShutdown
  | SdEvRecvShutdownAck => Some SdShutdownAck | SdEvRecvShutdownComplete => Some SdShutdownComplete
  | SdEvRecvInit => Some SdInit
  | _ => None
  end.

Record sd_cfg := mkSdCfg {
  sd_cfg_call_a : bool;   (* the user of A may call Shutdown *)
  sd_cfg_call_b : bool;
  sd_cfg_cap : Z;         (* at most this many messages queued per side (bound of the finite exploration) *)
  sd_cfg_fail : bool      (* the transport may fail, an ABORT may arrive and the user may call Close at any time
                             (otherwise the transport closes only after the peer has closed) *)
}.

Definition sd_is_api (ev : sd_event) : bool :=
  match ev with SdEvShutdownCall | SdEvWrite _ | SdEvCloseCall => true | _ => false end.

(* is the event enabled in the system state (environment side of the step relation) *)
Definition sd_enabled (c : sd_cfg) (s : sd_sys) (side : bool) (ev : sd_event) : bool :=
  let e := sd_ep_of s side in
  match ev with
  | SdEvShutdownCall =>
    (if side then sd_cfg_call_b c else sd_cfg_call_a c) &&
    match sd_ret e with SdNotCalled => true | _ => false end
  | SdEvWrite n => sd_pend e + sd_infl e + n <=? sd_cfg_cap c
  | SdEvT2 => sd_t2 e
  | SdEvAckTimer => sd_ack e =? sd_ackDelay
  | SdEvRtx => (0 <? sd_infl e) && negb (sd_down e)
  | SdEvTransportDown => negb (sd_down e) && (sd_cfg_fail c || sd_down (sd_ep_of s (negb side)))
  | SdEvRecvAbort => negb (sd_down e) && sd_cfg_fail c     (* forged / peer-initiated ABORT: part of the hostile environment *)
  | SdEvCloseCall => negb (sd_down e) && sd_cfg_fail c
  | _ => match sd_ev_kind ev with Some k => sd_net_has (sd_net_to s side) k && negb (sd_down e) | None => false end
  end.

Definition sd_sys_step (c : sd_cfg) (s : sd_sys) (l : sd_label) : option sd_sys :=
  match l with
  | SdLoseAll => Some (mkSdSys (sd_a s) (sd_b s) sd_net_empty sd_net_empty)
  | SdL side ev moved rtx =>
    if negb (sd_enabled c s side ev) then None
    else
      let e := sd_ep_of s side in
      let '(e1, _) := sd_handle e ev in
      if negb (sd_oracle_ok e1 moved rtx) then None
      else
        let '(e2, out) := sd_gather e1 moved rtx in
        Some (if side then mkSdSys (sd_a s) e2 (sd_ab s) (sd_net_adds (sd_ba s) out)
              else mkSdSys e2 (sd_b s) (sd_net_adds (sd_ab s) out) (sd_ba s))
  end.

(* enumeration of the oracle values *)
Fixpoint sd_upto (n : nat) : list Z :=
  match n with O => [0] | S m => sd_upto m ++ [Z.of_nat (S m)] end.

Definition sd_ackres_all (infl : Z) : list sd_ackres :=
  SdAckStale :: SdAckErr :: map SdAckOk (sd_upto (Z.to_nat infl)).

Definition sd_events_all (e : sd_ep) : list sd_event :=
  [SdEvShutdownCall; SdEvWrite 1; SdEvRecvData false; SdEvRecvData true; SdEvRecvShutdownAck; SdEvRecvShutdownComplete;
   SdEvRecvInit; SdEvT2; SdEvAckTimer; SdEvRtx; SdEvTransportDown; SdEvRecvAbort; SdEvCloseCall]
  ++ map SdEvRecvSack (sd_ackres_all (sd_infl e)) ++ map SdEvRecvShutdown (sd_ackres_all (sd_infl e)).

(* all labels worth trying in s: every enabled event, every value of [moved] that can be valid.  [rtx] is set only
   in the SdEvRtx step: a gather that also retransmits DATA adds DATA to the network and changes nothing else, which
   is the same gather without retransmission followed by SdEvRtx. *)
Definition sd_moved_candidates (e : sd_ep) (ev : sd_event) : list Z :=
  if sd_sends_data (sd_state e) || (match ev with SdEvShutdownCall => true | _ => false end) then
    sd_upto (Z.to_nat (sd_pend e + (match ev with SdEvWrite n => n | _ => 0 end)))
  else [0].

Definition sd_labels_side (c : sd_cfg) (s : sd_sys) (side : bool) : list sd_label :=
  let e := sd_ep_of s side in
  flat_map (fun ev =>
    if sd_enabled c s side ev then
      map (fun moved => SdL side ev moved (match ev with SdEvRtx => true | _ => false end)) (sd_moved_candidates e ev)
    else [])
    (sd_events_all e).

Definition sd_labels (c : sd_cfg) (s : sd_sys) : list sd_label :=
  SdLoseAll :: sd_labels_side c s false ++ sd_labels_side c s true.

Fixpoint sd_filter_some {A} (l : list (option A)) : list A :=
  match l with [] => [] | Some x :: r => x :: sd_filter_some r | None :: r => sd_filter_some r end.

Definition sd_succs (c : sd_cfg) (s : sd_sys) : list sd_sys :=
  sd_filter_some (map (sd_sys_step c s) (sd_labels c s)).

(* steps the network and the timers take by themselves (no API call, no loss, no transport failure before the peer
   is gone): the moves a fair environment eventually makes *)
Definition sd_label_live (l : sd_label) : bool :=
  match l with
  | SdLoseAll => false
  | SdL _ ev _ _ => negb (sd_is_api ev)
  end.

Definition sd_cfg_live : sd_cfg := mkSdCfg false false 0 false.

Definition sd_lsuccs (s : sd_sys) : list sd_sys :=
  sd_filter_some (map (sd_sys_step sd_cfg_live s) (filter sd_label_live (sd_labels sd_cfg_live s))).

Definition sd_ep0 (pend : Z) : sd_ep :=
  mkSdEp c_established false false false false false false pend 0 sd_ackIdle SdNotCalled false.

Definition sd_init (pa pb : Z) : sd_sys := mkSdSys (sd_ep0 pa) (sd_ep0 pb) sd_net_empty sd_net_empty.

(* ---------------------------------------------------------------- decidable equality and a hash key *)

Definition sd_retv_code (r : sd_retv) : Z :=
  match r with SdNotCalled => 0 | SdWaiting => 1 | SdRetNil => 2 | SdRetErr => 3 | SdRetIncomplete => 4 end.

Definition sd_ep_eqb (x y : sd_ep) : bool :=
  (sd_state x =? sd_state y) && Bool.eqb (sd_wsd x) (sd_wsd y) && Bool.eqb (sd_wsa x) (sd_wsa y) &&
  Bool.eqb (sd_wsc x) (sd_wsc y) && Bool.eqb (sd_scp x) (sd_scp y) && Bool.eqb (sd_done x) (sd_done y) && Bool.eqb (sd_t2 x) (sd_t2 y) &&
  (sd_pend x =? sd_pend y) && (sd_infl x =? sd_infl y) && (sd_ack x =? sd_ack y) &&
  (sd_retv_code (sd_ret x) =? sd_retv_code (sd_ret y)) && Bool.eqb (sd_down x) (sd_down y).

Definition sd_net_eqb (x y : sd_net) : bool :=
  Bool.eqb (sd_n_data x) (sd_n_data y) && Bool.eqb (sd_n_sack x) (sd_n_sack y) && Bool.eqb (sd_n_sd x) (sd_n_sd y) &&
  Bool.eqb (sd_n_sa x) (sd_n_sa y) && Bool.eqb (sd_n_sc x) (sd_n_sc y).

Definition sd_sys_eqb (x y : sd_sys) : bool :=
  sd_ep_eqb (sd_a x) (sd_a y) && sd_ep_eqb (sd_b x) (sd_b y) && sd_net_eqb (sd_ab x) (sd_ab y) && sd_net_eqb (sd_ba x) (sd_ba y).

Definition sd_b2z (b : bool) : Z := if b then 1 else 0.

(* the key only has to spread the states over the buckets; nothing is proved about it *)
Definition sd_ep_code (e : sd_ep) : Z :=
  (((((((((sd_state e * 2 + sd_b2z (sd_wsd e)) * 2 + sd_b2z (sd_wsa e)) * 2 + sd_b2z (sd_wsc e)) * 2 + sd_b2z (sd_scp e)) * 2
      + sd_b2z (sd_t2 e)) * 4 + sd_pend e) * 4 + sd_infl e) * 4 + sd_ack e) * 8 + sd_retv_code (sd_ret e)) * 4 + 2 * sd_b2z (sd_done e) + sd_b2z (sd_down e).

Definition sd_net_code (n : sd_net) : Z :=
  (((sd_b2z (sd_n_data n) * 2 + sd_b2z (sd_n_sack n)) * 2 + sd_b2z (sd_n_sd n)) * 2 + sd_b2z (sd_n_sa n)) * 2 + sd_b2z (sd_n_sc n).

Definition sd_key (s : sd_sys) : positive :=
  Z.to_pos (((sd_ep_code (sd_a s) * 4194304 + sd_ep_code (sd_b s)) * 32 + sd_net_code (sd_ab s)) * 32 + sd_net_code (sd_ba s) + 1).

(* ---------------------------------------------------------------- finite sets of states, worklist closure, ranks *)

Section SdSets.
  Variable T : Type.
  Variable teq : T -> T -> bool.
  Variable tkey : T -> positive.

  Definition sd_set := PositiveMap.t (list T).

  Definition sd_smem (x : T) (m : sd_set) : bool :=
    match PositiveMap.find (tkey x) m with Some l => existsb (teq x) l | None => false end.

  Definition sd_sadd (x : T) (m : sd_set) : sd_set :=
    match PositiveMap.find (tkey x) m with
    | Some l => PositiveMap.add (tkey x) (x :: l) m
    | None => PositiveMap.add (tkey x) [x] m
    end.

  Definition sd_selems (m : sd_set) : list T := flat_map snd (PositiveMap.elements m).

  Variable succs : T -> list T.

  (* one breadth-first level: add the unseen successors of the frontier *)
  Definition sd_bfs_level (frontier : list T) (m : sd_set) : sd_set * list T :=
    fold_left (fun acc x =>
      fold_left (fun (acc : sd_set * list T) y =>
        let '(m, nw) := acc in if sd_smem y m then acc else (sd_sadd y m, y :: nw)) (succs x) acc)
      frontier (m, []).

  Fixpoint sd_bfs (fuel : nat) (frontier : list T) (m : sd_set) : sd_set :=
    match fuel with
    | O => m
    | S f =>
      match frontier with
      | [] => m
      | _ => let '(m', nw) := sd_bfs_level frontier m in sd_bfs f nw m'
      end
    end.

  Definition sd_explore (fuel : nat) (inits : list T) : sd_set :=
    let m0 := fold_left (fun m x => if sd_smem x m then m else sd_sadd x m) inits (PositiveMap.empty _) in
    sd_bfs fuel inits m0.

  (* the certificate checked in the proofs: the set contains the initial states and is closed under succs *)
  Definition sd_closed_check (m : sd_set) : bool :=
    forallb (fun x => forallb (fun y => sd_smem y m) (succs x)) (sd_selems m).

  (* ranks: distance to a goal state along [lsuccs] *)
  Definition sd_rmap := PositiveMap.t (list (T * nat)).

  Fixpoint sd_rfind (x : T) (l : list (T * nat)) : option nat :=
    match l with [] => None | (y, r) :: t => if teq x y then Some r else sd_rfind x t end.

  Definition sd_rget (x : T) (m : sd_rmap) : option nat :=
    match PositiveMap.find (tkey x) m with Some l => sd_rfind x l | None => None end.

  Definition sd_radd (x : T) (r : nat) (m : sd_rmap) : sd_rmap :=
    match PositiveMap.find (tkey x) m with
    | Some l => PositiveMap.add (tkey x) ((x, r) :: l) m
    | None => PositiveMap.add (tkey x) [(x, r)] m
    end.

  Variable goal : T -> bool.
  Variable lsuccs : T -> list T.

  Definition sd_min_rank (m : sd_rmap) (l : list T) : option nat :=
    fold_left (fun acc y => match sd_rget y m, acc with
                            | Some r, Some a => Some (Nat.min r a)
                            | Some r, None => Some r
                            | None, _ => acc end) l None.

  (* the rounds work on the precomputed graph (state, its successors) *)
  Definition sd_rank_round (univ : list (T * list T)) (m : sd_rmap) : sd_rmap * bool :=
    fold_left (fun (acc : sd_rmap * bool) xs =>
      let '(m, ch) := acc in
      let '(x, sx) := xs in
      match sd_rget x m with
      | Some _ => acc
      | None => if goal x then (sd_radd x O m, true)
                else match sd_min_rank m sx with
                     | Some r => (sd_radd x (S r) m, true)
                     | None => acc
                     end
      end) univ (m, false).

  Fixpoint sd_rank_iter (fuel : nat) (univ : list (T * list T)) (m : sd_rmap) : sd_rmap :=
    match fuel with
    | O => m
    | S f => let '(m', ch) := sd_rank_round univ m in if ch then sd_rank_iter f univ m' else m'
    end.

  Definition sd_rank_compute (fuel : nat) (univ : list T) : sd_rmap :=
    sd_rank_iter fuel (map (fun x => (x, lsuccs x)) univ) (PositiveMap.empty _).

  Definition sd_relems (m : sd_rmap) : list (T * nat) := flat_map snd (PositiveMap.elements m).

  (* certificate: every ranked state is a goal state or has a successor of smaller rank *)
  Definition sd_rank_check (m : sd_rmap) : bool :=
    forallb (fun xr : T * nat => let '(x, r) := xr in
      goal x || existsb (fun y => match sd_rget y m with Some r' => Nat.ltb r' r | None => false end) (lsuccs x))
      (sd_relems m).

  Definition sd_ranked_all (univ : list T) (m : sd_rmap) : bool :=
    forallb (fun x => match sd_rget x m with Some _ => true | None => false end) univ.
End SdSets.

(* ---------------------------------------------------------------- the instances used by the theorems *)

Definition sd_cfg_one : sd_cfg := mkSdCfg true false 2 false.      (* only A's user calls Shutdown *)
Definition sd_cfg_crossed : sd_cfg := mkSdCfg true true 2 false.   (* both users may call Shutdown *)
Definition sd_cfg_failing : sd_cfg := mkSdCfg true true 2 true.    (* ... and the transport may fail at any time *)

Definition sd_inits : list sd_sys :=
  flat_map (fun pa => map (fun pb => sd_init pa pb) [0; 1; 2]) [0; 1; 2].

Definition sd_reach_set (c : sd_cfg) : sd_set sd_sys :=
  sd_explore sd_sys sd_sys_eqb sd_key (sd_succs c) 200 sd_inits.

(* "a shutdown is in progress or done": the liveness statements are about these states *)
Definition sd_started (s : sd_sys) : bool :=
  let st r := match r with SdWaiting | SdRetNil | SdRetIncomplete => true | _ => false end in
  st (sd_ret (sd_a s)) || st (sd_ret (sd_b s)).

Definition sd_both_closed (s : sd_sys) : bool :=
  (sd_state (sd_a s) =? c_closed) && (sd_state (sd_b s) =? c_closed) && sd_down (sd_a s) && sd_down (sd_b s).

(* ranks: distance to "both closed" (states in which no shutdown was started need not have one) *)
Definition sd_rank_map (c : sd_cfg) : sd_rmap sd_sys :=
  sd_rank_compute sd_sys sd_sys_eqb sd_key sd_both_closed sd_lsuccs 200 (sd_selems sd_sys (sd_reach_set c)).

(* safety predicates evaluated on every reachable state / transition *)

(* (a) a SHUTDOWN or SHUTDOWN ACK leaves an endpoint only when it has nothing pending or in flight *)
Definition sd_emit_drained (e : sd_ep) (ev : sd_event) (moved : Z) (rtx : bool) : bool :=
  let '(e2, out, _) := sd_step e ev moved rtx in
  if existsb (fun k => match k with SdShutdown | SdShutdownAck => true | _ => false end) out
  then negb (sd_has_data e2) else true.

(* Shutdown returned nil only after the sequence completed, with nothing left pending or in flight at the caller;
   as long as the environment does not close the association under it, it never returns ErrShutdownIncomplete *)
Definition sd_ret_nil_drained (e : sd_ep) : bool :=
  match sd_ret e with
  | SdRetNil => negb (sd_has_data e) && (sd_state e =? c_closed) && sd_done e
  | _ => true
  end.

Definition sd_sys_safe (s : sd_sys) : bool := sd_ret_nil_drained (sd_a s) && sd_ret_nil_drained (sd_b s).

(* will-send flags and states are consistent: what the write loop will emit next was justified by a drain *)
Definition sd_ep_inv (e : sd_ep) : bool :=
  (if sd_wsd e then (sd_state e =? c_shutdownSent) else true) &&
  (if sd_wsa e then (sd_state e =? c_shutdownAckSent) else true) &&
  (if (sd_state e =? c_shutdownSent) || (sd_state e =? c_shutdownAckSent) then negb (sd_has_data e) else true) &&
  (if sd_wsc e then sd_scp e else true) &&
  (* between harness events SHUTDOWN-PENDING / SHUTDOWN-RECEIVED mean "still draining" *)
  (if (sd_state e =? c_shutdownPending) || (sd_state e =? c_shutdownReceived) then sd_has_data e else true) &&
  (* ... and nothing is left to be sent by the write loop *)
  negb (sd_wsd e) && negb (sd_wsa e) && negb (sd_wsc e) &&
  (0 <=? sd_pend e) && (0 <=? sd_infl e).

Definition sd_sys_inv (s : sd_sys) : bool := sd_ep_inv (sd_a s) && sd_ep_inv (sd_b s).

Definition sd_set_forall (c : sd_cfg) (p : sd_sys -> bool) : bool :=
  forallb p (sd_selems sd_sys (sd_reach_set c)).

Definition sd_set_size (c : sd_cfg) : nat := length (sd_selems sd_sys (sd_reach_set c)).
