// Verification harness: laws checked directly on the implementation (failing-input search / monitors).
package sctp

import (
	"fmt"
	"math/rand"
	"testing"
)

// TestVerifSnaLaws evaluates the C16 laws (trichotomy, flip, shift invariance) on the Go functions.
func TestVerifSnaLaws(t *testing.T) {
	seed := verifEnvInt("VERIF_SEED", 1)
	n := int(verifEnvInt("VERIF_N", 200000))
	rng := rand.New(rand.NewSource(seed))
	bad := 0
	fail := func(s string) {
		bad++
		if bad <= 10 {
			fmt.Println("LAWFAIL " + s)
		}
	}
	one := func(a, b, c bool) bool { return b2i(a)+b2i(b)+b2i(c) == 1 }
	for i := 0; i < n; i++ {
		a, b, k := rng.Uint32(), rng.Uint32(), rng.Uint32()
		switch rng.Intn(4) {
		case 0:
			b = a + uint32(rng.Intn(7)) - 3
		case 1:
			b = a + 1<<31 + uint32(rng.Intn(7)) - 3
		case 2:
			k = uint32(0) - a - uint32(rng.Intn(5))
		}
		if b-a != 1<<31 {
			if !one(sna32LT(a, b), sna32EQ(a, b), sna32GT(a, b)) {
				fail(fmt.Sprintf("law=trichotomy32 a=%d b=%d", a, b))
			}
			if sna32GT(a, b) != sna32LT(b, a) {
				fail(fmt.Sprintf("law=flip32 a=%d b=%d", a, b))
			}
		}
		if sna32LT(a+k, b+k) != sna32LT(a, b) || sna32GT(a+k, b+k) != sna32GT(a, b) ||
			sna32LTE(a+k, b+k) != sna32LTE(a, b) || sna32GTE(a+k, b+k) != sna32GTE(a, b) {
			fail(fmt.Sprintf("law=shift32 a=%d b=%d k=%d", a, b, k))
		}
		d := b - a
		if sna32LT(a, b) != (d > 0 && d < 1<<31) {
			fail(fmt.Sprintf("law=distance32 a=%d b=%d", a, b))
		}
		x, y, z := uint16(a), uint16(b), uint16(k)
		if rng.Intn(3) == 0 {
			y = x + 1<<15 + uint16(rng.Intn(7)) - 3
		}
		if y-x != 1<<15 {
			if !one(sna16LT(x, y), sna16EQ(x, y), sna16GT(x, y)) {
				fail(fmt.Sprintf("law=trichotomy16 a=%d b=%d", x, y))
			}
			if sna16GT(x, y) != sna16LT(y, x) {
				fail(fmt.Sprintf("law=flip16 a=%d b=%d", x, y))
			}
		}
		if sna16LT(x+z, y+z) != sna16LT(x, y) || sna16GT(x+z, y+z) != sna16GT(x, y) ||
			sna16LTE(x+z, y+z) != sna16LTE(x, y) || sna16GTE(x+z, y+z) != sna16GTE(x, y) {
			fail(fmt.Sprintf("law=shift16 a=%d b=%d k=%d", x, y, z))
		}
		d16 := y - x
		if sna16LT(x, y) != (d16 > 0 && d16 < 1<<15) {
			fail(fmt.Sprintf("law=distance16 a=%d b=%d", x, y))
		}
	}
	fmt.Printf("SNALAWS evaluated=%d bad=%d\n", n, bad)
}

// one relative operation of a receive-queue script
type rpqRelOp struct {
	kind int    // 0 push 1 pop 2 popforce 3 advance 4 gaps 5 has 6 can 7 dups
	rel  uint32 // offset relative to the script's base cumulative TSN
}

func rpqRunRel(maxOff uint32, base uint32, script []rpqRelOp) []string {
	q := newReceivePayloadQueue(maxOff)
	q.init(base)
	out := make([]string, 0, len(script))
	for _, op := range script {
		switch op.kind {
		case 0:
			out = append(out, fmt.Sprintf("push %d", b2i(q.push(base+op.rel))))
		case 1:
			out = append(out, fmt.Sprintf("pop %d", b2i(q.pop(false))))
		case 2:
			out = append(out, fmt.Sprintf("popf %d", b2i(q.pop(true))))
		case 3:
			q.advanceCumulativeTSN(base + op.rel)
			out = append(out, "adv")
		case 4:
			out = append(out, fmt.Sprintf("gaps %v", q.getGapAckBlocks()))
		case 5:
			out = append(out, fmt.Sprintf("has %d", b2i(q.hasChunk(base+op.rel))))
		case 6:
			out = append(out, fmt.Sprintf("can %d", b2i(q.canPush(base+op.rel))))
		case 7:
			d := q.popDuplicates()
			for i := range d {
				d[i] -= base
			}
			out = append(out, fmt.Sprintf("dups %v", d))
		}
		tail := q.tailTSN - base
		out[len(out)-1] += fmt.Sprintf(" | cum=%d tail=%d size=%d", q.cumulativeTSN-base, tail, q.chunkSize)
	}
	return out
}

// TestVerifRPQShift: the same relative script must behave identically (after normalisation) for every
// base cumulative TSN, in particular for bases whose tracking window straddles 2^32.
func TestVerifRPQShift(t *testing.T) {
	seed := verifEnvInt("VERIF_SEED", 1)
	nCases := int(verifEnvInt("VERIF_N", 60))
	nOps := int(verifEnvInt("VERIF_OPS", 150))
	nBases := int(verifEnvInt("VERIF_BASES", 12))
	rng := rand.New(rand.NewSource(seed))
	bufSizes := []uint32{1024, 300000, 1024 * 1024, 1024 * 1024, 2 * 1024 * 1024, 3000000}
	diffs, runs := 0, 0
	for c := 0; c < nCases; c++ {
		maxOff := getMaxTSNOffset(bufSizes[rng.Intn(len(bufSizes))])
		if rng.Intn(4) == 0 {
			maxOff = uint32(64 * (1 + rng.Intn(40)))
		}
		mo := newReceivePayloadQueue(maxOff).maxTSNOffset
		script := make([]rpqRelOp, 0, nOps)
		cumRel := uint32(0)
		for i := 0; i < nOps; i++ {
			r := rng.Intn(100)
			var op rpqRelOp
			relIn := func() uint32 {
				if rng.Intn(3) == 0 {
					return cumRel + mo - uint32(rng.Intn(130)) // top of the window
				}
				return cumRel + 1 + uint32(rng.Intn(int(mo)))
			}
			switch {
			case r < 55:
				op = rpqRelOp{0, relIn()}
			case r < 62:
				op = rpqRelOp{1, 0}
			case r < 65:
				op = rpqRelOp{2, 0}
				cumRel++
			case r < 69:
				adv := uint32(rng.Intn(200))
				op = rpqRelOp{3, cumRel + adv}
				cumRel += adv
			case r < 82:
				op = rpqRelOp{4, 0}
			case r < 90:
				op = rpqRelOp{5, relIn()}
			case r < 97:
				op = rpqRelOp{6, relIn()}
			default:
				op = rpqRelOp{7, 0}
			}
			script = append(script, op)
		}
		ref := rpqRunRel(maxOff, 1000000, script)
		for bI := 0; bI < nBases; bI++ {
			// bases within one tracking window (plus a word) below 2^32, so the window straddles the wrap
			base := uint32(0) - uint32(rng.Intn(int(mo)+64)) - 1
			if bI == 0 {
				base = ^uint32(0) - 100
			}
			got := rpqRunRel(maxOff, base, script)
			runs++
			for i := range ref {
				if ref[i] != got[i] {
					diffs++
					words := len(newReceivePayloadQueue(maxOff).tsnBitmask)
					if diffs <= 5 {
						fmt.Printf("SHIFTDIFF maxoff=%d words=%d words_divides_2p26=%d base=%d step=%d op=%d rel=%d ref=[%s] got=[%s] seed=%d case=%d\n",
							maxOff, words, b2i((1<<26)%words == 0), base, i, script[i].kind, script[i].rel, ref[i], got[i], seed, c)
					}
					break
				}
			}
		}
	}
	fmt.Printf("RPQSHIFT scripts=%d runs=%d diffs=%d\n", nCases, runs, diffs)
}
