(* The tie between the counters of the shutdown control abstraction (Shutdown.v: sd_pend, sd_infl) and the integer-level
   sender model (Sender.v), for unbounded queues.

   handleShutdown processes the Cumulative TSN Ack of a SHUTDOWN with the routine it uses for a SACK
   (processShutdownAcknowledgement -> processAcknowledgement -> processSelectiveAck, then finishAcknowledgement):
   a SACK with the same cumulative ack and no gap blocks, minus the rwnd update and the state filter.
   ASSUMED, not proved here: Sender.sack_step models that routine (tied to the code by the step-commuting records of
   the components `sender` (C10) and `sd` (the in-flight count after every delivered SACK and SHUTDOWN)).
   PROVED here: whatever sack_step does with a gap-free acknowledgement is an instance of the oracle the control
   abstraction quantifies over — [acked] chunks leave the front of the in-flight queue, 0 <= acked <= in flight, the
   pending queue is untouched — so "sd_infl = 0 and sd_pend = 0" (the drain test hasPendingOrInflightData) means
   that every chunk accepted before was removed by a cumulative acknowledgement of the peer. *)
From Coq Require Import ZArith Bool List Lia.
From Sctp Require Import Gen Sender SenderProofs Shutdown.
Import ListNotations.
Open Scope Z_scope.

Lemma sd_fr_loop_pendn : forall fuel s tsn maxTSN htna s',
  fr_loop fuel s tsn maxTSN htna = Some s' -> st_pendn s' = st_pendn s.
Proof.
  induction fuel as [|f IH]; intros s tsn maxTSN htna s' H; [discriminate|]. cbn [fr_loop] in H.
  destruct (negb (sna32LT tsn maxTSN)); [inversion H; reflexivity|].
  destruct (infl_get s tsn) as [c|]; [|discriminate].
  apply IH in H. rewrite H.
  destruct (negb (sc_acked c) && negb (sc_aband c) && (sc_miss c <? 3))%bool; [|reflexivity].
  destruct ((sc_miss c + 1 =? 3) && negb (st_infr s))%bool; reflexivity.
Qed.

Lemma sd_fast_rtx_pendn s cum gaps htna adv s' :
  fast_rtx s cum gaps htna adv = Some s' -> st_pendn s' = st_pendn s.
Proof.
  unfold fast_rtx. intros H.
  destruct (negb (st_infr s) || st_infr s && adv)%bool.
  - destruct (fr_loop _ _ _ _ _) as [s1|] eqn:E; [|discriminate]. apply sd_fr_loop_pendn in E.
    destruct (st_infr s1 && adv)%bool; inversion H; subst; cbn [st_pendn]; exact E.
  - destruct (st_infr s && adv)%bool; inversion H; subst; reflexivity.
Qed.

Lemma sd_cwnd_grow_pendn s total : st_pendn (cwnd_grow s total) = st_pendn s.
Proof.
  unfold cwnd_grow. destruct (st_cwnd s <=? st_ssthresh s).
  - destruct (negb (st_infr s) && (0 <? st_pendn s))%bool; reflexivity.
  - destruct ((wrap32 (st_pba s + wrap32 total) >=? st_cwnd s) && (0 <? st_pendn s))%bool; reflexivity.
Qed.

(* a gap-free acknowledgement (SACK without gap blocks, or the cumulative ack of a SHUTDOWN) removes a prefix of the
   in-flight queue and nothing else that the drain test looks at *)
Theorem sd_cumack_removes_prefix s cum arwnd s' :
  sack_step s cum arwnd [] = SOk s' -> chunks_ok (st_infl s) ->
  exists popped rest, st_infl s = popped ++ rest /\ length (st_infl s') = length rest /\ st_pendn s' = st_pendn s.
Proof.
  unfold sack_step. intros H Hok.
  destruct (negb (state_accepts_sack (st_state s))); [inversion H; subst; exists [], (st_infl s'); auto|].
  destruct (sna32GT (st_cum s) cum); [inversion H; subst; exists [], (st_infl s'); auto|].
  destruct (negb (sack_valid s cum [])); [discriminate|].
  destruct (pop_acked _ _ _ _ _) as [[s1 acc1]|] eqn:Ep; [|discriminate].
  cbn [mark_gaps] in H.
  destruct (pop_acked_spec _ _ _ _ _ _ _ Ep Hok) as (popped & E1 & _ & _ & _ & _ & E6 & _).
  match type of H with match fast_rtx ?X _ _ _ _ with _ => _ end = _ => set (s4 := X) in H end.
  destruct (fast_rtx s4 cum [] cum (sna32LT (st_cum s) cum)) as [s5|] eqn:Ef; [|discriminate].
  inversion H; subst s'. clear H.
  pose proof (sd_fast_rtx_pendn _ _ _ _ _ _ Ef) as P5.
  apply fast_rtx_frame in Ef. destruct Ef as (_ & _ & _ & _ & _ & M).
  apply (f_equal (@length _)) in M. rewrite !map_length in M.
  exists popped, (st_infl s1). split; [exact E1|].
  unfold s4 in M, P5. cbn [st_infl st_pendn] in M, P5.
  destruct (sna32LT (st_cum s) cum).
  - destruct (cwnd_grow_frame (mkS (st_state s1) cum (st_front s1) (st_infl s1) (st_nbytes s1) (st_cwnd s1) (st_rwnd s1)
        (st_ssthresh s1) (st_pba s1) (st_infr s1) (st_frexit s1) (st_rtxfast s1) (st_mtu s1) (st_mincwnd s1) (st_castep s1)
        (st_pendn s1) (st_pendbytes s1) (st_buffered s1)) (sum_bytes acc1)) as (C1 & _).
    rewrite C1 in M. rewrite sd_cwnd_grow_pendn in P5. cbn [st_infl st_pendn] in M, P5. split; [exact M|congruence].
  - split; [exact M|congruence].
Qed.

(* the abstraction relation between the sender model and an abstract endpoint *)
Definition sd_abs_sender (s : sst) (e : sd_ep) : Prop :=
  sd_pend e = st_pendn s /\ sd_infl e = Z.of_nat (length (st_infl s)).

(* the integer-level acknowledgement step is one of the oracle values the abstract handlers are quantified over *)
Theorem sd_cumack_refines s cum arwnd s' e :
  sack_step s cum arwnd [] = SOk s' -> chunks_ok (st_infl s) -> sd_abs_sender s e ->
  exists acked, sd_ackres_ok e (SdAckOk acked) = true /\
    sd_abs_sender s' (sd_set_infl e (sd_infl e - acked)).
Proof.
  intros H Hok [A1 A2].
  destruct (sd_cumack_removes_prefix s cum arwnd s' H Hok) as (popped & rest & E1 & E2 & E3).
  exists (Z.of_nat (length popped)).
  assert (L : length (st_infl s) = (length popped + length rest)%nat) by (rewrite E1; apply app_length).
  split.
  - unfold sd_ackres_ok. apply andb_true_iff. split; apply Z.leb_le; lia.
  - unfold sd_abs_sender. cbn [sd_pend sd_infl sd_set_infl]. split; [congruence|]. rewrite E2. lia.
Qed.

(* the drain test of the abstraction, read on the integer model: nothing pending, and the whole in-flight queue was the
   prefix removed by the cumulative acknowledgement (pop_acked only pops TSNs <= the acknowledged one) *)
Corollary sd_drained_all_cum_acked s cum arwnd s' e :
  sack_step s cum arwnd [] = SOk s' -> chunks_ok (st_infl s) -> sd_abs_sender s' e -> sd_has_data e = false ->
  st_pendn s' <= 0 /\ st_infl s' = [] /\
  exists popped rest, st_infl s = popped ++ rest /\ rest = [].
Proof.
  intros H Hok [A1 A2] Hd. unfold sd_has_data in Hd. apply orb_false_iff in Hd. destruct Hd as [D1 D2].
  apply Z.ltb_ge in D1, D2.
  assert (E : st_infl s' = []) by (destruct (st_infl s') as [|c l]; [reflexivity|cbn [length] in A2; lia]).
  split; [lia|]. split; [exact E|].
  destruct (sd_cumack_removes_prefix s cum arwnd s' H Hok) as (popped & rest & E1 & E2 & _).
  exists popped, rest. split; [exact E1|]. rewrite E in E2. destruct rest; [reflexivity|discriminate E2].
Qed.
