(* Executable model of the partial-reliability (PR-SCTP, RFC 3758 / RFC 8260) paths of association.go,
   chunk_payload_data.go, payload_queue.go and stream.go.  No proofs in this file.  Prefix pr_.

   Sender side
     checkPartialReliabilityStatus, partialReliabilityEnabled, chunkPayloadData.abandoned /
     setAbandoned / setAllInflight (flags on the HEAD fragment of a message),
     movePendingDataChunkToInflightQueue (nSent = 1, firstSent), getDataPacketsToRetransmit
     (retransmit flag, nSent++, status check), gatherOutboundFastRetransmissionPackets (nSent++, status
     check), the marking paths (T3: payloadQueue.markAllToRetrasmit; RACK on SACK / RACK timer / PTO
     probe: one chunk each), processSelectiveAck (validation, pop, gap marks), finishAcknowledgement
     C1-C3, the C2-C3 loop of the T3 branch of onRetransmissionTimeout, createForwardTSN,
     createIForwardTSN, gatherOutboundForwardTSNPackets.
   Receiver side
     handleForwardTSN / handleIForwardTSN (incl. getOrCreateSkippedStream, fix 5722c17) on top of RPQ.advance
     and the RQ forward operations, followed by the pop loop of handlePeerLastTSNAndAcknowledgement.

   Representation
   - the in-flight queue is the list of its chunks, oldest first; payloadQueue.get computes the offset
     from the TSN of the front chunk as uint32 and bounds-checks it against the length ([pr_get]);
   - the [head] pointer of a fragment becomes the message identity [pr_msg]; the flags _abandoned and
     _allInflight of the head live in the message table [pr_msgs] (a message is entered when its B
     fragment is sent and never leaves: the head object stays reachable from its later fragments);
   - a.streams restricted to (reliabilityType, reliabilityValue) is the association list [pr_pol];
     a missing key is the "stream not found" branch;
   - time is virtual nanoseconds; int64(time.Since(firstSent).Seconds()*1000) is modelled as the
     integer division by 10^6 ([pr_elapsed_ms]; the float expression can be 1 smaller only when the
     duration is an exact multiple of 1 ms - the comparator checks this oracle constraint);
   - what the model does not decide (which chunks RACK/PTO mark, how many marked chunks the window /
     burst budget lets a gather retransmit, which chunks have three miss indications) are the events
     themselves; [pr_step] refuses (None) an event the code cannot perform: marking or fast-
     retransmitting an acked or abandoned chunk, retransmitting a chunk whose retransmit flag is not
     set or whose message has been abandoned (fix 3b069d1), fast-retransmitting a chunk already
     retransmitted. *)
From Coq Require Import ZArith Bool List.
From Sctp Require Import Gen RPQ RQ.
Import ListNotations.
Open Scope Z_scope.

(* ------------------------------------------------------------------ sender state *)

Record pr_chunk := mkPrChunk {
  pr_tsn : Z;        (* uint32 *)
  pr_sid : Z;        (* streamIdentifier *)
  pr_ssn : Z;        (* streamSequenceNumber, uint16 *)
  pr_mid : Z;        (* messageIdentifier, uint32 (I-DATA) *)
  pr_unord : bool;
  pr_beg : bool;
  pr_end : bool;
  pr_msg : Z;        (* identity of the head fragment *)
  pr_dcep : bool;    (* payloadType == PayloadTypeWebRTCDCEP *)
  pr_nsent : Z;      (* nSent, uint32 *)
  pr_acked : bool;
  pr_rtx : bool;     (* retransmit *)
  pr_first : Z       (* firstSent, virtual ns *)
}.

Record pr_minfo := mkPrMinfo {
  pr_m_id : Z;
  pr_m_aband : bool;     (* head._abandoned *)
  pr_m_allinfl : bool;   (* head._allInflight *)
  pr_m_dcep : bool       (* head.payloadType == DCEP *)
}.

Record pr_state := mkPrState {
  pr_infl : list pr_chunk;
  pr_msgs : list pr_minfo;
  pr_pol : list (Z * (Z * Z));   (* stream id -> (reliabilityType, reliabilityValue) *)
  pr_cum : Z;                    (* cumulativeTSNAckPoint *)
  pr_adv : Z;                    (* advancedPeerTSNAckPoint *)
  pr_next : Z;                   (* myNextTSN *)
  pr_usefwd : bool;              (* useForwardTSN *)
  pr_useifwd : bool;             (* useIForwardTSN *)
  pr_willfwd : bool              (* willSendForwardTSN *)
}.

Definition pr_set_core (s : pr_state) (infl : list pr_chunk) (msgs : list pr_minfo) : pr_state :=
  mkPrState infl msgs (pr_pol s) (pr_cum s) (pr_adv s) (pr_next s) (pr_usefwd s) (pr_useifwd s) (pr_willfwd s).

Fixpoint pr_minfo_get (m : Z) (l : list pr_minfo) : option pr_minfo :=
  match l with
  | [] => None
  | x :: r => if pr_m_id x =? m then Some x else pr_minfo_get m r
  end.

Fixpoint pr_minfo_upd (m : Z) (f : pr_minfo -> pr_minfo) (l : list pr_minfo) : list pr_minfo :=
  match l with
  | [] => []
  | x :: r => if pr_m_id x =? m then f x :: r else x :: pr_minfo_upd m f r
  end.

Definition pr_set_aband (m : Z) (l : list pr_minfo) : list pr_minfo :=
  pr_minfo_upd m (fun x => mkPrMinfo (pr_m_id x) true (pr_m_allinfl x) (pr_m_dcep x)) l.
Definition pr_set_allinfl (m : Z) (l : list pr_minfo) : list pr_minfo :=
  pr_minfo_upd m (fun x => mkPrMinfo (pr_m_id x) (pr_m_aband x) true (pr_m_dcep x)) l.

(* chunkPayloadData.abandoned(): head._abandoned && head._allInflight *)
Definition pr_msg_abandoned (msgs : list pr_minfo) (m : Z) : bool :=
  match pr_minfo_get m msgs with
  | Some x => pr_m_aband x && pr_m_allinfl x
  | None => false
  end.
Definition pr_msg_flag (msgs : list pr_minfo) (m : Z) : bool :=
  match pr_minfo_get m msgs with Some x => pr_m_aband x | None => false end.
Definition pr_msg_allinfl (msgs : list pr_minfo) (m : Z) : bool :=
  match pr_minfo_get m msgs with Some x => pr_m_allinfl x | None => false end.
Definition pr_abandoned (s : pr_state) (c : pr_chunk) : bool := pr_msg_abandoned (pr_msgs s) (pr_msg c).

Fixpoint pr_pol_get (sid : Z) (l : list (Z * (Z * Z))) : option (Z * Z) :=
  match l with
  | [] => None
  | (k, v) :: r => if k =? sid then Some v else pr_pol_get sid r
  end.

Definition pr_enabled (s : pr_state) : bool := pr_usefwd s || pr_useifwd s.

Definition pr_elapsed_ms (now first : Z) : Z := (now - first) / 1000000.

(* checkPartialReliabilityStatus: the new message table *)
Definition pr_check_status (s : pr_state) (msgs : list pr_minfo) (c : pr_chunk) (now : Z) : list pr_minfo :=
  if negb (pr_enabled s) then msgs
  else if pr_dcep c then msgs
  else match pr_pol_get (pr_sid c) (pr_pol s) with
       | None => msgs                                   (* stream not found (remote reset) *)
       | Some (rt, rv) =>
           if rt =? c_ReliabilityTypeRexmit then
             (if pr_nsent c >=? rv then pr_set_aband (pr_msg c) msgs else msgs)
           else if rt =? c_ReliabilityTypeTimed then
             (if pr_elapsed_ms now (pr_first c) >=? rv then pr_set_aband (pr_msg c) msgs else msgs)
           else msgs
       end.

(* payloadQueue.get *)
Definition pr_get (l : list pr_chunk) (tsn : Z) : option pr_chunk :=
  match l with
  | [] => None
  | c0 :: _ =>
      let off := wrap32 (tsn - pr_tsn c0) in
      if off >=? Z.of_nat (length l) then None else nth_error l (Z.to_nat off)
  end.

Fixpoint pr_upd_nth (l : list pr_chunk) (n : nat) (x : pr_chunk) : list pr_chunk :=
  match l, n with
  | [], _ => []
  | _ :: r, O => x :: r
  | a :: r, S m => a :: pr_upd_nth r m x
  end.

Definition pr_put (l : list pr_chunk) (tsn : Z) (x : pr_chunk) : list pr_chunk :=
  match l with
  | [] => []
  | c0 :: _ => pr_upd_nth l (Z.to_nat (wrap32 (tsn - pr_tsn c0))) x
  end.

Definition pr_with (c : pr_chunk) (nsent : Z) (acked rtx : bool) (first : Z) : pr_chunk :=
  mkPrChunk (pr_tsn c) (pr_sid c) (pr_ssn c) (pr_mid c) (pr_unord c) (pr_beg c) (pr_end c) (pr_msg c) (pr_dcep c)
            nsent acked rtx first.

(* ------------------------------------------------------------------ C1 - C3 *)

(* RFC 3758 3.5 C2: for i := adv+1; ; i++ { c, ok := get(i); if !ok || !c.abandoned() { break }; adv = i } *)
Fixpoint pr_adv_loop (fuel : nat) (infl : list pr_chunk) (msgs : list pr_minfo) (adv : Z) : Z :=
  match fuel with
  | O => adv
  | S f =>
      let i := wrap32 (adv + 1) in
      match pr_get infl i with
      | None => adv
      | Some c => if pr_msg_abandoned msgs (pr_msg c) then pr_adv_loop f infl msgs i else adv
      end
  end.

(* C1 (only after a SACK), C2, C3 *)
Definition pr_advance (s : pr_state) (c1 : bool) : pr_state :=
  if negb (pr_enabled s) then s
  else
    let a1 := if c1 && sna32LT (pr_adv s) (pr_cum s) then pr_cum s else pr_adv s in
    let a2 := pr_adv_loop (S (length (pr_infl s))) (pr_infl s) (pr_msgs s) a1 in
    mkPrState (pr_infl s) (pr_msgs s) (pr_pol s) (pr_cum s) a2 (pr_next s) (pr_usefwd s) (pr_useifwd s)
              (if sna32GT a2 (pr_cum s) then true else pr_willfwd s).

(* payloadQueue.markAllToRetrasmit *)
Definition pr_mark_all_rtx (s : pr_state) : pr_state :=
  pr_set_core s
    (map (fun c => if pr_acked c || pr_abandoned s c then c
                   else pr_with c (pr_nsent c) (pr_acked c) true (pr_first c)) (pr_infl s))
    (pr_msgs s).

(* ------------------------------------------------------------------ FORWARD-TSN construction *)

(* chunks visited by "for i := cum+1; sna32LTE(i, adv); i++ { c, ok := get(i); if !ok { break } ... }" *)
Fixpoint pr_range (fuel : nat) (infl : list pr_chunk) (adv i : Z) : list pr_chunk :=
  match fuel with
  | O => []
  | S f =>
      if sna32LTE i adv then
        match pr_get infl i with
        | None => []
        | Some c => c :: pr_range f infl adv (wrap32 (i + 1))
        end
      else []
  end.

Definition pr_fwd_range (s : pr_state) : list pr_chunk :=
  pr_range (S (length (pr_infl s))) (pr_infl s) (pr_adv s) (wrap32 (pr_cum s + 1)).

(* Go map[uint16]T as an association list sorted by key; [better old new] = replace the stored value *)
Fixpoint pr_map_upd (better : Z -> Z -> bool) (k v : Z) (m : list (Z * Z)) : list (Z * Z) :=
  match m with
  | [] => [(k, v)]
  | (k0, v0) :: r =>
      if k =? k0 then (k0, if better v0 v then v else v0) :: r
      else if k <? k0 then (k, v) :: m
      else (k0, v0) :: pr_map_upd better k v r
  end.

(* createForwardTSN: per stream the serial maximum of the SSNs of the ORDERED chunks in (cum, adv] *)
Definition pr_mk_fwd (s : pr_state) : Z * list (Z * Z) :=
  (pr_adv s,
   fold_left (fun m c => if pr_unord c then m else pr_map_upd sna16LT (pr_sid c) (pr_ssn c) m) (pr_fwd_range s) []).

(* createIForwardTSN: per (stream, U) the serial maximum of the MIDs; ordered entries first, each group sorted by stream *)
Definition pr_mk_ifwd (s : pr_state) : Z * list (Z * bool * Z) :=
  let om := fold_left (fun m c => if pr_unord c then m else pr_map_upd sna32LT (pr_sid c) (pr_mid c) m) (pr_fwd_range s) [] in
  let um := fold_left (fun m c => if pr_unord c then pr_map_upd sna32LT (pr_sid c) (pr_mid c) m else m) (pr_fwd_range s) [] in
  (pr_adv s, map (fun kv => (fst kv, false, snd kv)) om ++ map (fun kv => (fst kv, true, snd kv)) um).

Inductive pr_out :=
| PrOutFwd (newcum : Z) (streams : list (Z * Z))
| PrOutIFwd (newcum : Z) (streams : list (Z * bool * Z)).

(* gatherOutboundForwardTSNPackets *)
Definition pr_gather_fwd (s : pr_state) : pr_state * list pr_out :=
  if pr_willfwd s then
    let s' := mkPrState (pr_infl s) (pr_msgs s) (pr_pol s) (pr_cum s) (pr_adv s) (pr_next s) (pr_usefwd s) (pr_useifwd s) false in
    if sna32GT (pr_adv s) (pr_cum s) then
      if pr_useifwd s then (s', [PrOutIFwd (fst (pr_mk_ifwd s)) (snd (pr_mk_ifwd s))])
      else if pr_usefwd s then (s', [PrOutFwd (fst (pr_mk_fwd s)) (snd (pr_mk_fwd s))])
      else (s', [])
    else (s', [])
  else (s, []).

(* ------------------------------------------------------------------ SACK *)

(* validation at the head of processSelectiveAck (before any mutation) *)
Definition pr_sack_valid (s : pr_state) (cum : Z) (gaps : list (Z * Z)) : bool :=
  (if sna32LT (pr_cum s) cum then
     match pr_get (pr_infl s) (wrap32 (pr_cum s + 1)), pr_get (pr_infl s) cum with
     | Some _, Some _ => true
     | _, _ => false
     end
   else true) &&
  forallb (fun g : Z * Z =>
    let (gs, ge) := g in
    negb (gs =? 0) && (gs <=? ge) &&
    match pr_get (pr_infl s) (wrap32 (cum + gs)) with
    | Some _ =>
        if wrap32 (cum + ge) =? wrap32 (cum + gs) then true
        else match pr_get (pr_infl s) (wrap32 (cum + ge)) with Some _ => true | None => false end
    | None => false
    end) gaps.

(* for idx := cum+1; sna32LTE(idx, newcum); idx++ { pop(idx) } *)
Fixpoint pr_pop_acked (fuel : nat) (l : list pr_chunk) (idx newcum : Z) : option (list pr_chunk) :=
  match fuel with
  | O => None
  | S f =>
      if negb (sna32LTE idx newcum) then Some l
      else match l with
           | [] => None
           | c :: r => if pr_tsn c =? idx then pr_pop_acked f r (wrap32 (idx + 1)) newcum else None
           end
  end.

(* markAsAcked of one gap-acked TSN (when not acked yet) *)
Definition pr_mark_one (l : list pr_chunk) (tsn : Z) : option (list pr_chunk) :=
  match pr_get l tsn with
  | None => None
  | Some c =>
      if pr_acked c then Some l
      else Some (pr_put l tsn (pr_with c (pr_nsent c) true false (pr_first c)))
  end.

Fixpoint pr_mark_range (n : nat) (l : list pr_chunk) (cum i : Z) : option (list pr_chunk) :=
  match n with
  | O => Some l
  | S m =>
      match pr_mark_one l (wrap32 (cum + i)) with
      | None => None
      | Some l' => pr_mark_range m l' cum (i + 1)
      end
  end.

Fixpoint pr_mark_gaps (gaps : list (Z * Z)) (l : list pr_chunk) (cum : Z) : option (list pr_chunk) :=
  match gaps with
  | [] => Some l
  | (gs, ge) :: r =>
      match pr_mark_range (Z.to_nat (ge - gs + 1)) l cum gs with
      | None => None
      | Some l' => pr_mark_gaps r l' cum
      end
  end.

(* handleSack restricted to the fields of this projection: processAcknowledgement + finishAcknowledgement *)
Definition pr_sack (s : pr_state) (cum : Z) (gaps : list (Z * Z)) : option pr_state :=
  if sna32GT (pr_cum s) cum then Some s                      (* out-of-order SACK: dropped *)
  else if negb (pr_sack_valid s cum gaps) then Some s       (* error return before any mutation *)
  else
    match pr_pop_acked (S (length (pr_infl s))) (pr_infl s) (wrap32 (pr_cum s + 1)) cum with
    | None => None
    | Some l1 =>
        match pr_mark_gaps gaps l1 cum with
        | None => None
        | Some l2 =>
            let cum' := if sna32LT (pr_cum s) cum then cum else pr_cum s in
            Some (pr_advance (mkPrState l2 (pr_msgs s) (pr_pol s) cum' (pr_adv s) (pr_next s)
                                        (pr_usefwd s) (pr_useifwd s) (pr_willfwd s)) true)
        end
    end.

(* ------------------------------------------------------------------ transmissions *)

(* movePendingDataChunkToInflightQueue; [c] carries tsn, stream, ssn, mid, flags, message identity, dcep *)
Definition pr_send (s : pr_state) (c : pr_chunk) (now : Z) : option pr_state :=
  if negb (pr_tsn c =? pr_next s) then None
  else
    let known := match pr_minfo_get (pr_msg c) (pr_msgs s) with Some _ => true | None => false end in
    if Bool.eqb (pr_beg c) known then None                   (* B fragment: new head; other fragments: head exists *)
    else
      let m1 := if pr_beg c then pr_msgs s ++ [mkPrMinfo (pr_msg c) false false (pr_dcep c)] else pr_msgs s in
      let m2 := if pr_end c then pr_set_allinfl (pr_msg c) m1 else m1 in
      let c1 := pr_with c 1 false false now in
      let m3 := pr_check_status s m2 c1 now in
      Some (mkPrState (pr_infl s ++ [c1]) m3 (pr_pol s) (pr_cum s) (pr_adv s) (wrap32 (pr_next s + 1))
                      (pr_usefwd s) (pr_useifwd s) (pr_willfwd s)).

(* one chunk marked by RACK (on SACK or on its timer) or by the PTO probe *)
Definition pr_mark (s : pr_state) (tsn : Z) : option pr_state :=
  match pr_get (pr_infl s) tsn with
  | None => None
  | Some c =>
      if pr_acked c || pr_abandoned s c then None
      else Some (pr_set_core s (pr_put (pr_infl s) tsn (pr_with c (pr_nsent c) (pr_acked c) true (pr_first c))) (pr_msgs s))
  end.

(* getDataPacketsToRetransmit, one chunk: retransmit = false; nSent++; status check.
   Fix 3b069d1: a marked chunk whose message has been abandoned in the meantime is not retransmitted (its mark
   is cleared instead: pr_unmark) *)
Definition pr_retransmit (s : pr_state) (tsn now : Z) : option pr_state :=
  match pr_get (pr_infl s) tsn with
  | None => None
  | Some c =>
      if negb (pr_rtx c) || pr_abandoned s c then None
      else
        let c1 := pr_with c (wrap32 (pr_nsent c + 1)) (pr_acked c) false (pr_first c) in
        Some (pr_set_core s (pr_put (pr_infl s) tsn c1) (pr_check_status s (pr_msgs s) c1 now))
  end.

(* getDataPacketsToRetransmit visiting a marked chunk of an abandoned message: retransmit = false, nothing sent *)
Definition pr_unmark (s : pr_state) (tsn : Z) : option pr_state :=
  match pr_get (pr_infl s) tsn with
  | None => None
  | Some c =>
      if pr_rtx c && pr_abandoned s c
      then Some (pr_set_core s (pr_put (pr_infl s) tsn (pr_with c (pr_nsent c) (pr_acked c) false (pr_first c))) (pr_msgs s))
      else None
  end.

(* gatherOutboundFastRetransmissionPackets, one chunk *)
Definition pr_fast_retransmit (s : pr_state) (tsn now : Z) : option pr_state :=
  match pr_get (pr_infl s) tsn with
  | None => None
  | Some c =>
      if pr_acked c || pr_abandoned s c || (pr_nsent c >? 1) then None
      else
        let c1 := pr_with c (wrap32 (pr_nsent c + 1)) (pr_acked c) (pr_rtx c) (pr_first c) in
        Some (pr_set_core s (pr_put (pr_infl s) tsn c1) (pr_check_status s (pr_msgs s) c1 now))
  end.

(* T3 branch of onRetransmissionTimeout: C2-C3 (no C1), then markAllToRetrasmit *)
Definition pr_t3 (s : pr_state) : pr_state := pr_mark_all_rtx (pr_advance s false).

(* ------------------------------------------------------------------ events and histories *)

Inductive pr_ev :=
| PrSend (c : pr_chunk) (now : Z)
| PrMark (tsn : Z)
| PrT3
| PrRtx (tsn now : Z)
| PrUnmark (tsn : Z)
| PrFrtx (tsn now : Z)
| PrSack (cum : Z) (gaps : list (Z * Z))
| PrGather.

Definition pr_step (s : pr_state) (e : pr_ev) : option (pr_state * list pr_out) :=
  match e with
  | PrSend c now => match pr_send s c now with Some s' => Some (s', []) | None => None end
  | PrMark t => match pr_mark s t with Some s' => Some (s', []) | None => None end
  | PrT3 => Some (pr_t3 s, [])
  | PrRtx t now => match pr_retransmit s t now with Some s' => Some (s', []) | None => None end
  | PrUnmark t => match pr_unmark s t with Some s' => Some (s', []) | None => None end
  | PrFrtx t now => match pr_fast_retransmit s t now with Some s' => Some (s', []) | None => None end
  | PrSack cum gaps => match pr_sack s cum gaps with Some s' => Some (s', []) | None => None end
  | PrGather => Some (pr_gather_fwd s)
  end.

Fixpoint pr_run (s : pr_state) (evs : list pr_ev) : option (pr_state * list pr_out) :=
  match evs with
  | [] => Some (s, [])
  | e :: r =>
      match pr_step s e with
      | None => None
      | Some (s1, o1) =>
          match pr_run s1 r with
          | None => None
          | Some (s2, o2) => Some (s2, o1 ++ o2)
          end
      end
  end.

(* createAssociationFromConfigWithTsn: both points start at initial TSN - 1 *)
Definition pr_init (tsn : Z) (pol : list (Z * (Z * Z))) (usefwd useifwd : bool) : pr_state :=
  mkPrState [] [] pol (wrap32 (tsn - 1)) (wrap32 (tsn - 1)) tsn usefwd useifwd false.

(* ------------------------------------------------------------------ receiver side *)

Record pr_rcv := mkPrRcv {
  pr_r_pq : rpq;                      (* payloadQueue *)
  pr_r_streams : list (Z * rq);       (* a.streams: stream id -> reassembly queue, sorted by id *)
  pr_r_inter : bool;                  (* useInterleaving *)
  pr_r_usefwd : bool;
  pr_r_useifwd : bool;
  pr_r_maxent : Z;                    (* maxReassemblyQueueEntries *)
  pr_r_accq : Z                       (* len(a.acceptCh) *)
}.

Inductive pr_rres := PrrAbort | PrrErrorChunk | PrrStale | PrrApplied.

Fixpoint pr_streams_get (sid : Z) (l : list (Z * rq)) : option rq :=
  match l with
  | [] => None
  | (k, q) :: r => if k =? sid then Some q else pr_streams_get sid r
  end.

Fixpoint pr_streams_upd (sid : Z) (f : rq -> rq) (l : list (Z * rq)) : list (Z * rq) :=
  match l with
  | [] => []
  | (k, q) :: r => if k =? sid then (k, f q) :: r else (k, q) :: pr_streams_upd sid f r
  end.

Fixpoint pr_streams_ins (sid : Z) (q : rq) (l : list (Z * rq)) : list (Z * rq) :=
  match l with
  | [] => [(sid, q)]
  | (k, q0) :: r => if sid <? k then (sid, q) :: l else (k, q0) :: pr_streams_ins sid q r
  end.

(* getOrCreateSkippedStream (fix 5722c17) followed by the forward operation f: an existing stream is used; a
   missing one is created as the first DATA chunk would have created it (createStream with accept: refused
   when acceptCh is full, then the entry is dropped) *)
Definition pr_skip_stream (maxent : Z) (sid : Z) (f : rq -> rq) (st : list (Z * rq) * Z) : list (Z * rq) * Z :=
  let '(l, accq) := st in
  match pr_streams_get sid l with
  | Some _ => (pr_streams_upd sid f l, accq)
  | None =>
      if accq <? c_acceptChSize then (pr_streams_ins sid (f (rq_new sid maxent)) l, accq + 1)
      else (l, accq)
  end.

(* the loop of handlePeerLastTSNAndAcknowledgement: pop(false) while it succeeds *)
Fixpoint pr_pop_loop (fuel : nat) (q : rpq) : rpq :=
  match fuel with
  | O => q
  | S f => let '(q', ok) := pop q false in if ok then pr_pop_loop f q' else q
  end.

Definition pr_after_fwd (r : pr_rcv) (q : rpq) (st : list (Z * rq) * Z) : pr_rcv :=
  mkPrRcv (pr_pop_loop (S (Z.to_nat (size q))) q) (fst st) (pr_r_inter r) (pr_r_usefwd r) (pr_r_useifwd r)
          (pr_r_maxent r) (snd st).

(* handleForwardTSN *)
Definition pr_recv_fwd (r : pr_rcv) (newcum : Z) (entries : list (Z * Z)) : pr_rcv * pr_rres :=
  if pr_r_inter r then (r, PrrAbort)
  else if negb (pr_r_usefwd r) then (r, PrrErrorChunk)
  else if sna32LTE newcum (cum (pr_r_pq r)) then (r, PrrStale)
  else
    let q := advance (pr_r_pq r) newcum in
    let st1 := fold_left (fun st (e : Z * Z) => pr_skip_stream (pr_r_maxent r) (fst e) (fun x => rq_fwd_ordered x (snd e)) st)
                         entries (pr_r_streams r, pr_r_accq r) in
    let st2 := (map (fun kq : Z * rq => (fst kq, rq_fwd_unordered (snd kq) newcum)) (fst st1), snd st1) in
    (pr_after_fwd r q st2, PrrApplied).

(* handleIForwardTSN *)
Definition pr_recv_ifwd (r : pr_rcv) (newcum : Z) (entries : list (Z * bool * Z)) : pr_rcv * pr_rres :=
  if negb (pr_r_useifwd r) then (r, PrrAbort)
  else if sna32LTE newcum (cum (pr_r_pq r)) then (r, PrrStale)
  else
    let q := advance (pr_r_pq r) newcum in
    let st1 := fold_left (fun st (e : Z * bool * Z) =>
                 let '(sid, u, mid) := e in
                 pr_skip_stream (pr_r_maxent r) sid (fun x => if u then rq_fwd_unordered_mid x mid else rq_fwd_ordered_mid x mid) st)
               entries (pr_r_streams r, pr_r_accq r) in
    (pr_after_fwd r q st1, PrrApplied).
