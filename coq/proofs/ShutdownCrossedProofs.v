(* The finite instance "both users may call Shutdown" (it contains the one-sided runs: a user who may call need not),
   and the schedule that refuted "Shutdown returned nil => everything was delivered" before fix 568b58f, replayed on the
   model of the fixed code. *)
From Coq Require Import ZArith Bool List Lia PArith FMapPositive.
From Sctp Require Import Gen Shutdown ShutdownProofs.
Import ListNotations.
Open Scope Z_scope.

Lemma sd_checks_crossed : sd_all_checks sd_cfg_crossed 9621 = true.
Proof. vm_compute. reflexivity. Qed.

Lemma sd_size_crossed : Z.of_nat (sd_set_size sd_cfg_crossed) = 9621.
Proof. exact (sd_all_checks_size _ _ sd_checks_crossed). Qed.

Lemma sd_crossed : forall s, sd_reach sd_cfg_crossed s ->
  sd_sys_safe s = true /\ sd_sys_inv s = true /\ (sd_started s = true -> sd_eventually_closed s).
Proof. exact (sd_all_checks_sound _ _ sd_checks_crossed). Qed.

(* ---------------------------------------------------------------- transport failure racing the drain (D18) *)

Fixpoint sd_run_labels (c : sd_cfg) (s : sd_sys) (ls : list sd_label) : option sd_sys :=
  match ls with
  | [] => Some s
  | l :: r => match sd_sys_step c s l with Some s' => sd_run_labels c s' r | None => None end
  end.

(* A writes one message (one chunk, sent at once), calls Shutdown; the DATA is lost; A's transport fails.
   Before fix 568b58f this schedule ended with sd_ret = SdRetNil, one chunk still in flight and B untouched (the model of
   that code had [sd_close] answer SdRetNil unconditionally; theorem c08_shutdown_nil_without_delivery_refuted).
   On the fixed code the call returns ErrShutdownIncomplete. *)
Definition sd_d18_schedule : list sd_label :=
  [SdL false (SdEvWrite 1) 1 false; SdL false SdEvShutdownCall 0 false; SdLoseAll; SdL false SdEvTransportDown 0 false].

Definition sd_d18_state : sd_sys :=
  mkSdSys (mkSdEp c_closed false false false false false false 0 1 sd_ackIdle SdRetIncomplete true) (sd_ep0 0)
          sd_net_empty sd_net_empty.

Lemma sd_d18_run : sd_run_labels sd_cfg_failing (sd_init 0 0) sd_d18_schedule = Some sd_d18_state.
Proof. vm_compute. reflexivity. Qed.

(* the same with an ABORT from the peer and with a concurrent Close instead of the transport failure *)
Lemma sd_d18_run_abort :
  sd_run_labels sd_cfg_failing (sd_init 0 0)
    [SdL false (SdEvWrite 1) 1 false; SdL false SdEvShutdownCall 0 false; SdLoseAll; SdL false SdEvRecvAbort 0 false]
  = Some sd_d18_state.
Proof. vm_compute. reflexivity. Qed.

Lemma sd_d18_run_close :
  sd_run_labels sd_cfg_failing (sd_init 0 0)
    [SdL false (SdEvWrite 1) 1 false; SdL false SdEvShutdownCall 0 false; SdLoseAll; SdL false SdEvCloseCall 0 false]
  = Some sd_d18_state.
Proof. vm_compute. reflexivity. Qed.
