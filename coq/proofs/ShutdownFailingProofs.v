(* The finite instance in which the environment may close the association under a blocked Shutdown at any time
   (transport failure, ABORT from the peer, concurrent Close), both users may call Shutdown, <= 2 messages queued per side:
   the statement that the pre-fix code refuted on this very configuration now holds in every reachable state. *)
From Coq Require Import ZArith Bool List Lia PArith FMapPositive.
From Sctp Require Import Gen Shutdown ShutdownProofs.
Import ListNotations.
Open Scope Z_scope.

Lemma sd_checks_failing : sd_safety_checks sd_cfg_failing 41599 = true.
Proof. vm_compute. reflexivity. Qed.

(* Shutdown returned nil => shutdownCompleted is set, the caller is closed and has nothing pending or in flight *)
Lemma sd_failing_safe : forall s, sd_reach sd_cfg_failing s -> sd_sys_safe s = true.
Proof. exact (sd_safety_checks_sound _ _ sd_checks_failing). Qed.
