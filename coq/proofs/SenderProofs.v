(* Window admission (C10) and byte accounting (C15) of the sender model coq/model/Sender.v. *)
From Coq Require Import ZArith Bool List Lia.
From Coq Require Import ZifyBool.
From Sctp Require Import Gen SnaProofs Sender.
Import ListNotations.
Open Scope Z_scope.
Ltac Zify.zify_post_hook ::= Z.div_mod_to_equations.

(* ---------------------------------------------------------------- C10: admission *)

(* observation of a gather: for every moved chunk the in-flight byte count after the move, the
   receive window credit before it and the admission kind *)
Fixpoint gather_obs (s : sst) (chunks : list (Z * Z)) (tsn : Z) (moved : bool) : list (Z * Z * Z * admission) :=
  match chunks with
  | [] => []
  | (sid, n) :: r =>
    match admit_new s n moved with
    | AdmitWindow => (st_nbytes s + n, st_rwnd s, Z.of_nat (length (st_infl s)), AdmitWindow)
                     :: gather_obs (send_new s sid n tsn true) r (wrap32 (tsn + 1)) true
    | AdmitProbe => [(st_nbytes s + n, st_rwnd s, Z.of_nat (length (st_infl s)), AdmitProbe)]
    | AdmitNo => []
    end
  end.

(* ghost: A = the receive window most recently advertised by the peer (a_rwnd of the last accepted SACK,
   or the INIT value).  WI relates the code's rwnd to it. *)
Definition WI (s : sst) (A : Z) : Prop := st_rwnd s = 0 \/ st_rwnd s + st_nbytes s <= A.

Definition ranges (s : sst) : Prop :=
  0 <= st_nbytes s < 4294967296 /\ 0 <= st_rwnd s < 4294967296.

Lemma admit_window_bounds s n moved A :
  ranges s -> WI s A -> 0 < n -> st_nbytes s + n < 4294967296 ->
  admit_new s n moved = AdmitWindow ->
  st_nbytes s + n <= st_cwnd s /\ st_nbytes s + n <= A /\ n <= st_rwnd s.
Proof.
  unfold admit_new, ranges, WI, wrap32. intros (Hn & Hr) Hw Hpos Hlt.
  destruct ((((st_nbytes s mod 4294967296 + n) mod 4294967296 <=? st_cwnd s) && (n <=? st_rwnd s))%bool) eqn:E.
  - intros _. apply andb_true_iff in E. destruct E as [E1 E2].
    rewrite (Z.mod_small (st_nbytes s)) in E1 by lia. rewrite Z.mod_small in E1 by lia. lia.
  - destruct (negb moved && (Z.of_nat (length (st_infl s)) =? 0))%bool; discriminate.
Qed.

Lemma admit_probe_only_when_empty s n moved :
  admit_new s n moved = AdmitProbe -> moved = false /\ st_infl s = [].
Proof.
  unfold admit_new.
  destruct ((wrap32 (wrap32 (st_nbytes s) + n) <=? st_cwnd s) && (n <=? st_rwnd s))%bool; [discriminate|].
  destruct (negb moved && (Z.of_nat (length (st_infl s)) =? 0))%bool eqn:E; [|discriminate].
  intros _. apply andb_true_iff in E. destruct E as [E1 E2]. split.
  - destruct moved; [discriminate|reflexivity].
  - destruct (st_infl s); [reflexivity|cbn in E2; lia].
Qed.

Lemma send_new_window_WI s sid n tsn A :
  ranges s -> WI s A -> 0 < n -> n <= st_rwnd s -> st_nbytes s + n < 4294967296 ->
  WI (send_new s sid n tsn true) A /\ ranges (send_new s sid n tsn true).
Proof.
  unfold WI, ranges, send_new, wrap32; cbn [st_rwnd st_nbytes st_cwnd]. intros (Hn & Hr) Hw Hpos Hle Hlt.
  rewrite Z.mod_small by lia. split; [|lia]. destruct Hw as [Hz|Hw]; [lia|]. right. lia.
Qed.

(* every chunk moved by a gather: a window admission keeps outstanding bytes within cwnd and within the
   peer's last advertised window; the only other possibility is the single probe, sent first and alone
   while nothing at all is in flight *)
Lemma gather_obs_ok : forall chunks s tsn moved A,
  ranges s -> WI s A ->
  (forall sid n, In (sid, n) chunks -> 0 < n) ->
  st_nbytes s + fold_right (fun c a => snd c + a) 0 chunks < 4294967296 ->
  forall out rw ninfl k, In (out, rw, ninfl, k) (gather_obs s chunks tsn moved) ->
    (k = AdmitWindow /\ out <= st_cwnd s /\ out <= A) \/
    (k = AdmitProbe /\ ninfl = 0 /\ moved = false).
Proof.
  induction chunks as [|[sid n] r IH]; intros s tsn moved A HR HW Hpos Hsum out rw ninfl k Hin; [destruct Hin|].
  cbn [gather_obs] in Hin. cbn [fold_right snd] in Hsum.
  assert (Hn : 0 < n) by (apply (Hpos sid); left; reflexivity).
  assert (Hrest : 0 <= fold_right (fun c a => snd c + a) 0 r).
  { clear - Hpos. induction r as [|[a b] r IHr]; cbn; [lia|].
    assert (0 < b) by (apply (Hpos a); right; left; reflexivity).
    assert (0 <= fold_right (fun c a0 => snd c + a0) 0 r); [|lia].
    apply IHr. intros s0 n0 H0. apply (Hpos s0). destruct H0 as [H0|H0]; [left; assumption|right; right; assumption]. }
  destruct (admit_new s n moved) eqn:Ea.
  - destruct (admit_window_bounds s n moved A HR HW Hn ltac:(lia) Ea) as (B1 & B2 & B3).
    destruct Hin as [E|Hin].
    + inversion E; subst. left. repeat split; assumption.
    + destruct (send_new_window_WI s sid n tsn A HR HW Hn B3 ltac:(lia)) as [HW' HR'].
      assert (Ec : st_cwnd (send_new s sid n tsn true) = st_cwnd s) by reflexivity.
      destruct (IH (send_new s sid n tsn true) (wrap32 (tsn + 1)) true A HR' HW'
                   ltac:(intros s0 n0 H0; apply (Hpos s0); right; assumption)
                   ltac:(cbn [send_new st_nbytes]; lia) out rw ninfl k Hin) as [(K & O1 & O2)|(K & N0 & M)].
      * left. rewrite Ec in O1. repeat split; assumption.
      * discriminate.
  - destruct Hin as [E|[]]. inversion E; subst.
    destruct (admit_probe_only_when_empty s n moved Ea) as [M Ei]. right. rewrite Ei. repeat split; try reflexivity; assumption.
  - destruct Hin.
Qed.

(* gather_new accepts exactly what gather_obs describes *)
Lemma gather_new_some_all_admitted : forall chunks s tsn moved s',
  gather_new s chunks tsn moved = Some s' ->
  length (gather_obs s chunks tsn moved) = length chunks.
Proof.
  induction chunks as [|[sid n] r IH]; intros s tsn moved s' H; [reflexivity|].
  cbn [gather_new gather_obs] in *. destruct (admit_new s n moved).
  - cbn [length]. f_equal. eapply IH. eassumption.
  - destruct r; [reflexivity|discriminate].
  - discriminate.
Qed.

(* after an accepted SACK the relation to the advertised window is re-established *)
Definition rwnd_after_sack (nbytes arwnd : Z) : Z :=
  if wrap32 nbytes >=? arwnd then 0 else wrap32 (arwnd - wrap32 nbytes).

Lemma rwnd_after_sack_WI nbytes arwnd : 0 <= nbytes < 4294967296 -> 0 <= arwnd < 4294967296 ->
  rwnd_after_sack nbytes arwnd = 0 \/ rwnd_after_sack nbytes arwnd + nbytes <= arwnd.
Proof.
  unfold rwnd_after_sack, wrap32. intros Hn Ha. rewrite (Z.mod_small nbytes) by lia.
  destruct (nbytes >=? arwnd) eqn:E; [left; reflexivity|right]. rewrite Z.mod_small by lia. lia.
Qed.

(* the oversize probe leaves a stale window: the faithful model refutes the unconditional statement *)
Definition stale_probe_witness : sst :=
  mkS c_established 99 0 [] 0 10000 700 5000 0 false 0 false 1200 0 0 2 1200 [(1, 1200)].

(* ---------------------------------------------------------------- cwnd floor and cuts *)

Lemma set_cwnd_ge s c : st_mincwnd s <= set_cwnd s c /\ c <= set_cwnd s c.
Proof. unfold set_cwnd. destruct (c <? st_mincwnd s) eqn:E; lia. Qed.

Lemma t3_cwnd s : 0 < st_mtu s < 1073741824 ->
  st_cwnd (t3_step s) = Z.max (st_mtu s) (st_mincwnd s) /\
  st_ssthresh (t3_step s) = Z.max (st_cwnd s / 2) (4 * st_mtu s).
Proof.
  intros Hm. unfold t3_step, set_cwnd, wrap32; cbn [st_cwnd st_ssthresh st_mincwnd st_mtu].
  rewrite Z.mod_small by lia. split; [|reflexivity].
  destruct (st_mtu s <? st_mincwnd s) eqn:E; lia.
Qed.

Lemma t3_is_a_cut s : 0 < st_mtu s < 1073741824 -> st_mtu s <= st_cwnd s -> st_mincwnd s <= st_cwnd s ->
  st_cwnd (t3_step s) <= st_cwnd s /\ st_mtu s <= st_cwnd (t3_step s).
Proof. intros Hm H1 H2. destruct (t3_cwnd s Hm) as [E _]. rewrite E. lia. Qed.

Lemma init_cwnd_floor mtu mincwnd : 0 < mtu < 1073741824 -> mtu <= init_cwnd mtu mincwnd /\ mincwnd <= init_cwnd mtu mincwnd.
Proof.
  intros Hm. unfold init_cwnd, min32, max32, wrap32. rewrite !Z.mod_small by lia.
  destruct (2 * mtu >? 4380) eqn:E1; destruct (4 * mtu <? _) eqn:E2; destruct (_ <? mincwnd) eqn:E3; lia.
Qed.

(* ---------------------------------------------------------------- the SACK step and the windows *)

Lemma fr_loop_frame : forall fuel s tsn maxTSN htna s',
  fr_loop fuel s tsn maxTSN htna = Some s' ->
  st_rwnd s' = st_rwnd s /\ st_nbytes s' = st_nbytes s /\ st_buffered s' = st_buffered s /\
  st_cum s' = st_cum s /\ st_pendbytes s' = st_pendbytes s /\ st_mincwnd s' = st_mincwnd s /\ st_mtu s' = st_mtu s /\
  map (fun c => (sc_sid c, sc_len c, sc_acked c)) (st_infl s') = map (fun c => (sc_sid c, sc_len c, sc_acked c)) (st_infl s).
Proof.
  induction fuel as [|f IH]; intros s tsn maxTSN htna s' H; [discriminate|]. cbn [fr_loop] in H.
  destruct (negb (sna32LT tsn maxTSN)); [inversion H; subst; repeat split; reflexivity|].
  destruct (infl_get s tsn) as [c|] eqn:Eg; [|discriminate].
  match type of H with fr_loop f ?X _ _ _ = _ => set (s1 := X) in H end.
  apply IH in H. destruct H as (H1 & H2 & H3 & H4 & H5 & H6 & H7 & H8).
  assert (F : st_rwnd s1 = st_rwnd s /\ st_nbytes s1 = st_nbytes s /\ st_buffered s1 = st_buffered s /\
              st_cum s1 = st_cum s /\ st_pendbytes s1 = st_pendbytes s /\ st_mincwnd s1 = st_mincwnd s /\ st_mtu s1 = st_mtu s /\
              map (fun c => (sc_sid c, sc_len c, sc_acked c)) (st_infl s1) = map (fun c => (sc_sid c, sc_len c, sc_acked c)) (st_infl s)).
  { unfold s1. destruct (negb (sc_acked c) && negb (sc_aband c) && (sc_miss c <? 3))%bool; [|repeat split; reflexivity].
    assert (U : forall x, infl_get s tsn = Some c ->
              map (fun c0 => (sc_sid c0, sc_len c0, sc_acked c0))
                  (upd_nth (st_infl s) (Z.to_nat (wrap32 (tsn - st_front s)))
                           (mkSC (sc_sid c) (sc_len c) (sc_acked c) (sc_aband c) x (sc_rtx c))) =
              map (fun c0 => (sc_sid c0, sc_len c0, sc_acked c0)) (st_infl s)).
    { intros x. unfold infl_get. destruct (st_infl s) as [|c0 l0] eqn:El; [discriminate|].
      destruct (wrap32 (tsn - st_front s) >=? Z.of_nat (length (c0 :: l0))); [discriminate|].
      generalize (Z.to_nat (wrap32 (tsn - st_front s))). generalize (c0 :: l0). clear.
      induction l as [|a l IHl]; intros n H; [destruct n; discriminate|].
      destruct n as [|n]; cbn [nth_error upd_nth map] in *.
      - inversion H; subst. reflexivity.
      - f_equal. apply IHl. assumption. }
    destruct ((sc_miss c + 1 =? 3) && negb (st_infr s))%bool; cbn [st_rwnd st_nbytes st_buffered st_cum st_pendbytes st_mincwnd st_mtu st_infl];
      repeat split; try reflexivity; apply U; assumption. }
  destruct F as (F1 & F2 & F3 & F4 & F5 & F6 & F7 & F8).
  repeat split; congruence.
Qed.

Lemma fast_rtx_frame s cum gaps htna adv s' :
  fast_rtx s cum gaps htna adv = Some s' ->
  st_rwnd s' = st_rwnd s /\ st_nbytes s' = st_nbytes s /\ st_buffered s' = st_buffered s /\
  st_cum s' = st_cum s /\ st_pendbytes s' = st_pendbytes s /\
  map (fun c => (sc_sid c, sc_len c, sc_acked c)) (st_infl s') = map (fun c => (sc_sid c, sc_len c, sc_acked c)) (st_infl s).
Proof.
  unfold fast_rtx. intros H.
  destruct (negb (st_infr s) || st_infr s && adv)%bool.
  - destruct (fr_loop _ _ _ _ _) as [s1|] eqn:E; [|discriminate].
    apply fr_loop_frame in E. destruct E as (E1 & E2 & E3 & E4 & E5 & _ & _ & E8).
    destruct (st_infr s1 && adv)%bool; inversion H; subst; cbn [st_rwnd st_nbytes st_buffered st_cum st_pendbytes st_infl];
      repeat split; assumption.
  - destruct (st_infr s && adv)%bool; inversion H; subst; cbn; repeat split; reflexivity.
Qed.

(* an accepted, processed SACK sets rwnd from the advertised credit and the bytes still in flight *)
Lemma sack_step_rwnd s cum arwnd gaps s' :
  sack_step s cum arwnd gaps = SOk s' ->
  state_accepts_sack (st_state s) = true -> sna32GT (st_cum s) cum = false ->
  st_rwnd s' = rwnd_after_sack (st_nbytes s') arwnd.
Proof.
  unfold sack_step. intros H Hst Hold. rewrite Hst, Hold in H. cbn [negb] in H.
  destruct (negb (sack_valid s cum gaps)); [discriminate|].
  destruct (pop_acked _ _ _ _ _) as [[s1 acc1]|]; [|discriminate].
  destruct (mark_gaps _ _ _ _ _) as [[[s2 acc2] htna]|]; [|discriminate].
  match type of H with match fast_rtx ?X _ _ _ _ with _ => _ end = _ => set (s4 := X) in H end.
  destruct (fast_rtx s4 cum gaps htna (sna32LT (st_cum s) cum)) as [s5|] eqn:Ef; [|discriminate].
  inversion H; subst s'. apply fast_rtx_frame in Ef. destruct Ef as (E1 & E2 & _).
  rewrite E1, E2. unfold s4. cbn [st_rwnd st_nbytes]. unfold rwnd_after_sack. reflexivity.
Qed.

(* ---------------------------------------------------------------- C15: byte accounting *)

Fixpoint lookup (l : list (Z * Z)) (k : Z) : Z :=
  match l with
  | [] => 0
  | (k', v) :: r => if k' =? k then v else lookup r k
  end.

Definition infl_sid (l : list schunk) (sid : Z) : Z :=
  fold_right (fun c a => (if sc_sid c =? sid then sc_len c else 0) + a) 0 l.
Definition infl_sum (l : list schunk) : Z := fold_right (fun c a => sc_len c + a) 0 l.
Definition chunk_ok (c : schunk) : Prop := 0 <= sc_len c /\ (sc_acked c = true -> sc_len c = 0).
Definition chunks_ok (l : list schunk) : Prop := Forall chunk_ok l.

Lemma lookup_add_bytes l s n k : lookup (add_bytes l s n) k = lookup l k + (if k =? s then n else 0).
Proof.
  induction l as [|[k' v] r IH]; cbn [add_bytes lookup].
  - destruct (Z.eqb_spec s k), (Z.eqb_spec k s); try lia; congruence.
  - destruct (Z.eqb_spec k' s) as [->|Ne]; cbn [lookup].
    + destruct (Z.eqb_spec s k), (Z.eqb_spec k s); try lia; congruence.
    + destruct (Z.eqb_spec k' k) as [->|Ne2].
      * destruct (Z.eqb_spec k s); [congruence|lia].
      * apply IH.
Qed.

Lemma keys_add_bytes l s n : NoDup (map fst l) -> NoDup (map fst (add_bytes l s n)) /\
  (forall k, In k (map fst (add_bytes l s n)) <-> In k (map fst l) \/ k = s).
Proof.
  induction l as [|[k' v] r IH]; cbn [add_bytes map fst]; intros ND.
  - split; [constructor; [intros []|constructor]|]. intros k. cbn. intuition.
  - inversion ND as [|? ? Hn ND']; subst. destruct (Z.eqb_spec k' s) as [->|Ne]; cbn [map fst].
    + split; [assumption|]. intros k. cbn. intuition.
    + destruct (IH ND') as [N1 N2]. split.
      * constructor; [|assumption]. intros X. apply N2 in X. destruct X as [X|X]; [contradiction|congruence].
      * intros k. cbn. rewrite N2. intuition.
Qed.

Lemma add_bytes_nonneg l s n : 0 <= n -> Forall (fun kv => 0 <= snd kv) l -> Forall (fun kv => 0 <= snd kv) (add_bytes l s n).
Proof.
  intros Hn. induction l as [|[k v] r IH]; cbn [add_bytes]; intros F.
  - constructor; [cbn; lia|constructor].
  - inversion F; subst. destruct (k =? s); constructor; cbn in *; try lia; auto.
Qed.

Lemma infl_sid_app a b sid : infl_sid (a ++ b) sid = infl_sid a sid + infl_sid b sid.
Proof. unfold infl_sid. induction a as [|c a IH]; cbn [app fold_right]; [lia|rewrite IH; lia]. Qed.
Lemma infl_sum_app a b : infl_sum (a ++ b) = infl_sum a + infl_sum b.
Proof. unfold infl_sum. induction a as [|c a IH]; cbn [app fold_right]; [lia|rewrite IH; lia]. Qed.

(* frame of the pop loop *)
Lemma pop_acked_spec : forall fuel s idx newcum acc s' acc',
  pop_acked fuel s idx newcum acc = Some (s', acc') ->
  chunks_ok (st_infl s) ->
  exists popped, st_infl s = popped ++ st_infl s' /\
    st_nbytes s' = st_nbytes s - infl_sum popped /\
    (forall k, lookup acc' k = lookup acc k + infl_sid popped k) /\
    st_buffered s' = st_buffered s /\ st_pendbytes s' = st_pendbytes s /\ st_pendn s' = st_pendn s /\
    st_rwnd s' = st_rwnd s /\ st_cwnd s' = st_cwnd s /\ st_state s' = st_state s /\ st_cum s' = st_cum s /\
    (NoDup (map fst acc) -> NoDup (map fst acc')) /\
    (Forall (fun kv => 0 <= snd kv) acc -> Forall (fun kv => 0 <= snd kv) acc').
Proof.
  induction fuel as [|f IH]; intros s idx newcum acc s' acc' H Hok; [discriminate|]. cbn [pop_acked] in H.
  destruct (negb (sna32LTE idx newcum)).
  { inversion H; subst. exists []. cbn. repeat split; try reflexivity; try lia; auto. }
  destruct (st_infl s) as [|c rest] eqn:El; [discriminate|].
  destruct (negb (st_front s =? idx)); [discriminate|].
  match type of H with pop_acked f ?X _ _ ?A = _ => set (s1 := X) in H; set (acc1 := A) in H end.
  inversion Hok as [|? ? Hc Hrest]; subst.
  assert (Hok1 : chunks_ok (st_infl s1)) by (unfold s1; cbn [st_infl]; assumption).
  destruct (IH s1 _ newcum acc1 s' acc' H Hok1) as (popped & E1 & E2 & E3 & E4 & E5 & E6 & E7 & E8 & E9 & E10 & E11 & E12).
  exists (c :: popped). unfold s1 in *. cbn [st_infl st_nbytes st_buffered st_pendbytes st_pendn st_rwnd st_cwnd st_state st_cum] in *.
  split; [cbn; congruence|]. split; [cbn [infl_sum fold_right]; fold (infl_sum popped); lia|].
  destruct Hc as [Hc0 Hca].
  split.
  { intros k. rewrite E3. unfold acc1. cbn [infl_sid fold_right]. fold (infl_sid popped k).
    destruct (sc_acked c) eqn:Ea.
    - rewrite (Hca eq_refl). destruct (sc_sid c =? k); lia.
    - rewrite lookup_add_bytes. rewrite (Z.eqb_sym k). lia. }
  repeat split; try assumption.
  - intros ND. apply E11. unfold acc1. destruct (sc_acked c); [assumption|apply keys_add_bytes; assumption].
  - intros F. apply E12. unfold acc1. destruct (sc_acked c); [assumption|apply add_bytes_nonneg; assumption].
Qed.

(* replacing the n-th chunk *)
Lemma upd_nth_sums : forall (l : list schunk) n c c',
  nth_error l n = Some c ->
  (forall sid, infl_sid (upd_nth l n c') sid = infl_sid l sid - (if sc_sid c =? sid then sc_len c else 0)
                                                 + (if sc_sid c' =? sid then sc_len c' else 0)) /\
  infl_sum (upd_nth l n c') = infl_sum l - sc_len c + sc_len c' /\
  (chunks_ok l -> chunk_ok c' -> chunks_ok (upd_nth l n c')) /\
  length (upd_nth l n c') = length l.
Proof.
  induction l as [|a l IH]; intros n c c' H; [destruct n; discriminate|].
  destruct n as [|n]; cbn [nth_error upd_nth] in *.
  - inversion H; subst. unfold infl_sid, infl_sum; cbn [fold_right length]. split; [|split; [|split]].
    + intros sid. lia.
    + lia.
    + intros Hok Hc. inversion Hok; subst. constructor; assumption.
    + reflexivity.
  - destruct (IH n c c' H) as (A & B & C & D). unfold infl_sid, infl_sum in *; cbn [fold_right length]. split; [|split; [|split]].
    + intros sid. rewrite A. lia.
    + lia.
    + intros Hok Hc. inversion Hok; subst. constructor; [assumption|]. apply C; assumption.
    + lia.
Qed.

Lemma infl_get_nth s tsn c : infl_get s tsn = Some c ->
  nth_error (st_infl s) (Z.to_nat (wrap32 (tsn - st_front s))) = Some c.
Proof.
  unfold infl_get. destruct (st_infl s) as [|a l]; [discriminate|].
  destruct (_ >=? _); [discriminate|]. auto.
Qed.

(* per-stream conservation: bytes credited to the ack accumulator leave the in-flight sums *)
Definition conserve (s s' : sst) (acc acc' : list (Z * Z)) : Prop :=
  (forall k, lookup acc' k + infl_sid (st_infl s') k = lookup acc k + infl_sid (st_infl s) k) /\
  st_nbytes s' - infl_sum (st_infl s') = st_nbytes s - infl_sum (st_infl s) /\
  (chunks_ok (st_infl s) -> chunks_ok (st_infl s')) /\
  st_buffered s' = st_buffered s /\ st_pendbytes s' = st_pendbytes s /\ st_pendn s' = st_pendn s /\
  st_rwnd s' = st_rwnd s /\ st_cwnd s' = st_cwnd s /\ st_state s' = st_state s /\ st_cum s' = st_cum s /\
  (NoDup (map fst acc) -> NoDup (map fst acc')) /\
  (chunks_ok (st_infl s) -> Forall (fun kv => 0 <= snd kv) acc -> Forall (fun kv => 0 <= snd kv) acc') /\
  (chunks_ok (st_infl s) -> infl_sum (st_infl s') <= infl_sum (st_infl s)).

Lemma conserve_refl s acc : conserve s s acc acc.
Proof. unfold conserve. repeat split; auto. intros _. lia. Qed.

Lemma conserve_trans s1 s2 s3 a1 a2 a3 : conserve s1 s2 a1 a2 -> conserve s2 s3 a2 a3 -> conserve s1 s3 a1 a3.
Proof.
  unfold conserve. intros (A1 & A2 & A3 & A4 & A5 & A6 & A7 & A8 & A9 & A10 & A11 & A12 & A13)
                          (B1 & B2 & B3 & B4 & B5 & B6 & B7 & B8 & B9 & B10 & B11 & B12 & B13).
  split; [intros k; rewrite B1, A1; reflexivity|].
  split; [lia|]. split; [auto|]. split; [congruence|]. split; [congruence|]. split; [congruence|].
  split; [congruence|]. split; [congruence|]. split; [congruence|]. split; [congruence|]. split; [auto|].
  split; [auto|]. intros Hok. specialize (A13 Hok). specialize (B13 (A3 Hok)). lia.
Qed.

Lemma mark_one_conserve s tsn acc htna s' acc' h' :
  mark_one s tsn acc htna = Some (s', acc', h') -> conserve s s' acc acc'.
Proof.
  unfold mark_one. destruct (infl_get s tsn) as [c|] eqn:Eg; [|discriminate].
  apply infl_get_nth in Eg.
  destruct (sc_acked c) eqn:Ea; intros H; inversion H; subst; [apply conserve_refl|].
  set (c' := mkSC (sc_sid c) 0 true (sc_aband c) (sc_miss c) false).
  destruct (upd_nth_sums (st_infl s) _ c c' Eg) as (A & B & C & D).
  unfold conserve; cbn [st_infl st_nbytes st_buffered st_pendbytes st_pendn st_rwnd st_cwnd st_state st_cum].
  repeat split; try reflexivity.
  - intros k. rewrite lookup_add_bytes, A. unfold c'; cbn [sc_sid sc_len]. rewrite (Z.eqb_sym k).
    destruct (sc_sid c =? k); lia.
  - rewrite B. unfold c'; cbn [sc_len]. lia.
  - intros Hok. apply C; [assumption|]. unfold c', chunk_ok; cbn. split; [lia|reflexivity].
  - intros ND. apply keys_add_bytes. assumption.
  - intros Hok F. apply add_bytes_nonneg; [|assumption].
    assert (In c (st_infl s)) by (eapply nth_error_In; eassumption).
    unfold chunks_ok in Hok. rewrite Forall_forall in Hok. apply Hok. assumption.
  - intros Hok. rewrite B. unfold c'; cbn [sc_len].
    assert (In c (st_infl s)) by (eapply nth_error_In; eassumption).
    unfold chunks_ok in Hok. rewrite Forall_forall in Hok. destruct (Hok c H0). lia.
Qed.

Lemma mark_range_conserve : forall n s cum i acc htna s' acc' h',
  mark_range n s cum i acc htna = Some (s', acc', h') -> conserve s s' acc acc'.
Proof.
  induction n as [|n IH]; intros s cum i acc htna s' acc' h' H; cbn [mark_range] in H.
  - inversion H; subst. apply conserve_refl.
  - destruct (mark_one s (wrap32 (cum + i)) acc htna) as [[[s1 a1] h1]|] eqn:E; [|discriminate].
    eapply conserve_trans; [eapply mark_one_conserve; eassumption|eapply IH; eassumption].
Qed.

Lemma mark_gaps_conserve : forall gaps s cum acc htna s' acc' h',
  mark_gaps gaps s cum acc htna = Some (s', acc', h') -> conserve s s' acc acc'.
Proof.
  induction gaps as [|[gs ge] r IH]; intros s cum acc htna s' acc' h' H; cbn [mark_gaps] in H.
  - inversion H; subst. apply conserve_refl.
  - destruct (mark_range _ s cum gs acc htna) as [[[s1 a1] h1]|] eqn:E; [|discriminate].
    eapply conserve_trans; [eapply mark_range_conserve; eassumption|eapply IH; eassumption].
Qed.

(* releasing the acknowledged bytes from the per-stream buffered amounts *)
Lemma lookup_release_one : forall l sid n k, NoDup (map fst l) ->
  lookup (release_one l sid n) k =
    if (k =? sid) && (existsb (fun kv => fst kv =? sid) l)
    then (if n <=? 0 then lookup l k else if lookup l k <? n then 0 else lookup l k - n)
    else lookup l k.
Proof.
  induction l as [|[k' v] r IH]; intros sid n k ND; cbn [release_one lookup existsb fst].
  - rewrite andb_false_r. reflexivity.
  - inversion ND as [|? ? Hn ND']; subst.
    destruct (Z.eqb_spec k' sid) as [->|Ne]; cbn [lookup orb].
    + destruct (Z.eqb_spec sid k) as [->|Ne2].
      * rewrite Z.eqb_refl. cbn. reflexivity.
      * destruct (Z.eqb_spec k sid); [congruence|]. cbn. reflexivity.
    + rewrite IH by assumption. destruct (Z.eqb_spec k' k) as [->|Ne2].
      * destruct (Z.eqb_spec k sid); [congruence|]. cbn. reflexivity.
      * reflexivity.
Qed.

Lemma keys_release_one l sid n : map fst (release_one l sid n) = map fst l.
Proof. induction l as [|[k v] r IH]; cbn [release_one map fst]; [reflexivity|]. destruct (k =? sid); cbn; congruence. Qed.

Lemma existsb_key l sid : existsb (fun kv : Z * Z => fst kv =? sid) l = true <-> In sid (map fst l).
Proof.
  rewrite existsb_exists. split.
  - intros [[k v] [Hin E]]. cbn in E. apply Z.eqb_eq in E. subst. apply in_map_iff. exists (sid, v). auto.
  - intros H. apply in_map_iff in H. destruct H as [[k v] [E Hin]]. cbn in E. subst. exists (sid, v). split; [assumption|apply Z.eqb_refl].
Qed.

Lemma release_all_spec : forall acc buf,
  NoDup (map fst buf) -> NoDup (map fst acc) -> Forall (fun kv => 0 <= snd kv) acc ->
  (forall k, In k (map fst buf) -> lookup acc k <= lookup buf k) ->
  map fst (release_all buf acc) = map fst buf /\
  forall k, In k (map fst buf) -> lookup (release_all buf acc) k = lookup buf k - lookup acc k.
Proof.
  unfold release_all.
  induction acc as [|[a v] r IH]; intros buf NDb NDa Fa Hle; cbn [fold_left fst snd].
  - split; [reflexivity|]. intros k _. cbn. lia.
  - inversion NDa as [|? ? Hna NDr]; subst. inversion Fa as [|? ? Hv Fr]; subst. cbn in Hv.
    assert (Hl0 : lookup r a = 0).
    { clear - Hna. induction r as [|[k w] r IHr]; [reflexivity|]. cbn [lookup]. cbn in Hna.
      destruct (Z.eqb_spec k a); [exfalso; apply Hna; left; assumption|]. apply IHr. intros X. apply Hna. right. assumption. }
    assert (NDb' : NoDup (map fst (release_one buf a v))) by (rewrite keys_release_one; assumption).
    assert (Hle' : forall k, In k (map fst (release_one buf a v)) -> lookup r k <= lookup (release_one buf a v) k).
    { intros k Hk. rewrite keys_release_one in Hk. rewrite lookup_release_one by assumption.
      specialize (Hle k Hk). cbn [lookup] in Hle.
      destruct (Z.eqb_spec k a) as [->|Ne].
      - rewrite Z.eqb_refl in Hle. replace (existsb (fun kv => fst kv =? a) buf) with true by (symmetry; apply existsb_key; assumption).
        cbn. rewrite Hl0. destruct (v <=? 0) eqn:E0; [lia|]. destruct (lookup buf a <? v) eqn:E1; lia.
      - cbn. destruct (Z.eqb_spec a k); [congruence|]. assumption. }
    destruct (IH (release_one buf a v) NDb' NDr Fr Hle') as [K1 K2].
    split; [rewrite K1; apply keys_release_one|].
    intros k Hk. rewrite K2 by (rewrite keys_release_one; assumption).
    rewrite lookup_release_one by assumption. cbn [lookup].
    specialize (Hle k Hk). cbn [lookup] in Hle.
    destruct (Z.eqb_spec k a) as [->|Ne].
    + rewrite Z.eqb_refl in *. replace (existsb (fun kv => fst kv =? a) buf) with true by (symmetry; apply existsb_key; assumption).
      cbn. rewrite Hl0. destruct (v <=? 0) eqn:E0; [lia|]. destruct (lookup buf a <? v) eqn:E1; lia.
    + cbn. destruct (Z.eqb_spec a k); [congruence|]. lia.
Qed.

Record BI (s : sst) (pend : list (Z * Z)) : Prop := {
  bi_ok : chunks_ok (st_infl s);
  bi_nbytes : st_nbytes s = infl_sum (st_infl s);
  bi_nodup : NoDup (map fst (st_buffered s));
  bi_buf : forall k, In k (map fst (st_buffered s)) ->
           lookup (st_buffered s) k = lookup pend k + infl_sid (st_infl s) k;
  bi_pend : forall k, 0 <= lookup pend k
}.

Lemma infl_sid_nonneg l k : chunks_ok l -> 0 <= infl_sid l k.
Proof.
  unfold infl_sid. induction 1 as [|c l [Hc _] _ IH]; cbn [fold_right]; [lia|]. destruct (sc_sid c =? k); lia.
Qed.

Lemma proj_sums (l l' : list schunk) :
  map (fun c => (sc_sid c, sc_len c, sc_acked c)) l' = map (fun c => (sc_sid c, sc_len c, sc_acked c)) l ->
  (forall k, infl_sid l' k = infl_sid l k) /\ infl_sum l' = infl_sum l /\ (chunks_ok l -> chunks_ok l').
Proof.
  revert l'. induction l as [|c l IH]; intros [|c' l'] H; try discriminate.
  - repeat split; auto.
  - cbn [map] in H. inversion H as [[E1 E2 E3 E4]]. destruct (IH l' E4) as (A & B & C).
    unfold infl_sid, infl_sum in *. cbn [fold_right]. repeat split.
    + intros k. rewrite A, E1, E2. reflexivity.
    + rewrite B, E2. reflexivity.
    + intros Hok. inversion Hok as [|? ? [H0 H1] Hr]; subst. constructor; [|apply C; assumption].
      unfold chunk_ok. rewrite E2, E3. split; assumption.
Qed.

Lemma cwnd_grow_frame s total :
  st_infl (cwnd_grow s total) = st_infl s /\ st_nbytes (cwnd_grow s total) = st_nbytes s /\
  st_buffered (cwnd_grow s total) = st_buffered s /\ st_pendbytes (cwnd_grow s total) = st_pendbytes s /\
  st_cum (cwnd_grow s total) = st_cum s.
Proof.
  unfold cwnd_grow. destruct (st_cwnd s <=? st_ssthresh s).
  - destruct (negb (st_infr s) && (0 <? st_pendn s))%bool; cbn; repeat split; reflexivity.
  - destruct ((wrap32 (st_pba s + wrap32 total) >=? st_cwnd s) && (0 <? st_pendn s))%bool; cbn; repeat split; reflexivity.
Qed.

Lemma lookup_nil k : lookup [] k = 0. Proof. reflexivity. Qed.

(* the SACK step preserves the accounting invariant (pending bytes are not touched by it) *)
Lemma infl_sum_nonneg l : chunks_ok l -> 0 <= infl_sum l.
Proof. unfold infl_sum. induction 1 as [|c l [Hc _] _ IH]; cbn [fold_right]; lia. Qed.

Lemma sack_step_BI s cum arwnd gaps s' pend :
  sack_step s cum arwnd gaps = SOk s' -> BI s pend ->
  BI s' pend /\ st_nbytes s' <= st_nbytes s /\ map fst (st_buffered s') = map fst (st_buffered s).
Proof.
  unfold sack_step. intros H B.
  destruct (negb (state_accepts_sack (st_state s))); [inversion H; subst; split; [assumption|split; [lia|reflexivity]]|].
  destruct (sna32GT (st_cum s) cum); [inversion H; subst; split; [assumption|split; [lia|reflexivity]]|].
  destruct (negb (sack_valid s cum gaps)); [discriminate|].
  destruct (pop_acked _ s _ cum []) as [[s1 acc1]|] eqn:Ep; [|discriminate].
  destruct (mark_gaps gaps s1 cum acc1 cum) as [[[s2 acc2] htna]|] eqn:Em; [|discriminate].
  destruct B as [Bok Bn Bnd Bbuf Bp].
  destruct (pop_acked_spec _ _ _ _ _ _ _ Ep Bok) as (popped & P1 & P2 & P3 & P4 & P5 & P6 & P7 & P8 & P9 & P10 & P11 & P12).
  assert (Hok1 : chunks_ok (st_infl s1)).
  { unfold chunks_ok in *. rewrite P1 in Bok. apply Forall_app in Bok. apply Bok. }
  assert (Hokp : chunks_ok popped).
  { unfold chunks_ok in *. rewrite P1 in Bok. apply Forall_app in Bok. apply Bok. }
  destruct (mark_gaps_conserve _ _ _ _ _ _ _ _ Em) as (C1 & C2 & C3 & C4 & C5 & C6 & C7 & C8 & C9 & C10 & C11 & C12 & C13).
  specialize (C3 Hok1).
  match type of H with match fast_rtx ?X _ _ _ _ with _ => _ end = _ => set (s4 := X) in H end.
  destruct (fast_rtx s4 cum gaps htna (sna32LT (st_cum s) cum)) as [s5|] eqn:Ef; [|discriminate].
  inversion H; subst s'. clear H.
  apply fast_rtx_frame in Ef. destruct Ef as (F1 & F2 & F3 & F4 & F5 & F6).
  destruct (proj_sums _ _ F6) as (G1 & G2 & G3).
  (* s4 has the in-flight list and byte counter of s2 *)
  assert (E4i : st_infl s4 = st_infl s2 /\ st_nbytes s4 = st_nbytes s2).
  { unfold s4. cbn [st_infl st_nbytes]. destruct (sna32LT (st_cum s) cum).
    - destruct (cwnd_grow_frame (mkS (st_state s2) cum (st_front s2) (st_infl s2) (st_nbytes s2) (st_cwnd s2) (st_rwnd s2)
         (st_ssthresh s2) (st_pba s2) (st_infr s2) (st_frexit s2) (st_rtxfast s2) (st_mtu s2) (st_mincwnd s2) (st_castep s2)
         (st_pendn s2) (st_pendbytes s2) (st_buffered s2)) (sum_bytes acc2)) as (W1 & W2 & _). rewrite W1, W2. split; reflexivity.
    - split; reflexivity. }
  destruct E4i as [E4a E4b].
  assert (E4buf : st_buffered s4 = release_all (st_buffered s) acc2).
  { unfold s4. cbn [st_buffered]. destruct (sna32LT (st_cum s) cum).
    - destruct (cwnd_grow_frame (mkS (st_state s2) cum (st_front s2) (st_infl s2) (st_nbytes s2) (st_cwnd s2) (st_rwnd s2)
         (st_ssthresh s2) (st_pba s2) (st_infr s2) (st_frexit s2) (st_rtxfast s2) (st_mtu s2) (st_mincwnd s2) (st_castep s2)
         (st_pendn s2) (st_pendbytes s2) (st_buffered s2)) (sum_bytes acc2)) as (_ & _ & W3 & _). rewrite W3. cbn [st_buffered]. congruence.
    - congruence. }
  (* what the accumulator holds, per stream *)
  assert (Hacc : forall k, lookup acc2 k + infl_sid (st_infl s2) k = infl_sid (st_infl s) k).
  { intros k. rewrite C1, P3, lookup_nil. rewrite P1. rewrite infl_sid_app. lia. }
  assert (NDacc : NoDup (map fst acc2)) by (apply C11, P11; constructor).
  assert (Facc : Forall (fun kv => 0 <= snd kv) acc2) by (apply C12; [assumption|apply P12; constructor]).
  assert (Hle : forall k, In k (map fst (st_buffered s)) -> lookup acc2 k <= lookup (st_buffered s) k).
  { intros k Hk. rewrite (Bbuf k Hk). specialize (Hacc k). specialize (Bp k).
    pose proof (infl_sid_nonneg (st_infl s2) k C3). lia. }
  destruct (release_all_spec acc2 (st_buffered s) Bnd NDacc Facc Hle) as [R1 R2].
  assert (Hsum0 : infl_sum (st_infl s) = infl_sum popped + infl_sum (st_infl s1)) by (rewrite P1; apply infl_sum_app).
  split; [|split; [|rewrite F3, E4buf, R1; reflexivity]].
  2:{ rewrite F2, E4b. specialize (C13 Hok1). pose proof (infl_sum_nonneg popped Hokp). lia. }
  constructor.
  - apply G3. rewrite E4a. assumption.
  - rewrite F2, G2, E4a, E4b.
    assert (Hsum : infl_sum (st_infl s) = infl_sum popped + infl_sum (st_infl s1)) by (rewrite P1; apply infl_sum_app).
    lia.
  - rewrite F3, E4buf, R1. assumption.
  - intros k Hk. rewrite F3, E4buf in *. rewrite R1 in Hk. rewrite (R2 k Hk), (Bbuf k Hk), G1, E4a.
    specialize (Hacc k). lia.
  - assumption.
Qed.

(* ---------------------------------------------------------------- other steps *)

Lemma t3_step_BI s pend : BI s pend -> BI (t3_step s) pend.
Proof.
  intros [Bok Bn Bnd Bbuf Bp].
  assert (P : map (fun c => (sc_sid c, sc_len c, sc_acked c)) (st_infl (t3_step s)) =
              map (fun c => (sc_sid c, sc_len c, sc_acked c)) (st_infl s)).
  { unfold t3_step; cbn [st_infl]. rewrite map_map. apply map_ext. intros c. destruct (sc_acked c || sc_aband c)%bool; reflexivity. }
  destruct (proj_sums _ _ P) as (G1 & G2 & G3).
  constructor.
  - apply G3. assumption.
  - rewrite G2. unfold t3_step; cbn [st_nbytes]. assumption.
  - unfold t3_step; cbn [st_buffered]. assumption.
  - intros k Hk. rewrite G1. unfold t3_step in *; cbn [st_buffered] in *. apply Bbuf. assumption.
  - assumption.
Qed.

Lemma fold_add_nonneg frags : Forall (fun f => 0 < f) frags -> forall a, a <= fold_left Z.add frags a.
Proof. induction 1 as [|f r Hf _ IH]; intros a; cbn [fold_left]; [lia|]. specialize (IH (a + f)). lia. Qed.

Lemma write_step_BI s pend sid frags :
  BI s pend -> Forall (fun f => 0 < f) frags -> In sid (map fst (st_buffered s)) ->
  BI (write_step s sid frags) (add_bytes pend sid (fold_left Z.add frags 0)) /\
  map fst (st_buffered (write_step s sid frags)) = map fst (st_buffered s).
Proof.
  intros [Bok Bn Bnd Bbuf Bp] Hf Hreg. pose proof (fold_add_nonneg frags Hf 0) as Hn.
  destruct (keys_add_bytes (st_buffered s) sid (fold_left Z.add frags 0) Bnd) as [K1 K2].
  assert (Keys : map fst (add_bytes (st_buffered s) sid (fold_left Z.add frags 0)) = map fst (st_buffered s)).
  { clear - Hreg. induction (st_buffered s) as [|[k v] r IH]; [destruct Hreg|]. cbn [add_bytes map fst] in *.
    destruct (Z.eqb_spec k sid) as [->|Ne]; [reflexivity|]. cbn [map fst]. f_equal. apply IH.
    destruct Hreg as [E|H]; [congruence|assumption]. }
  split; [|exact Keys].
  constructor; unfold write_step; cbn [st_infl st_nbytes st_buffered]; try assumption.
  - intros k Hk. rewrite !lookup_add_bytes. rewrite Keys in Hk. rewrite (Bbuf k Hk). lia.
  - intros k. rewrite lookup_add_bytes. specialize (Bp k). destruct (k =? sid); lia.
Qed.

(* moving one pending chunk of a registered stream to the in-flight queue *)
Lemma send_new_BI s pend sid n tsn w :
  BI s pend -> 0 < n -> n <= lookup pend sid ->
  BI (send_new s sid n tsn w) (add_bytes pend sid (- n)) /\
  map fst (st_buffered (send_new s sid n tsn w)) = map fst (st_buffered s).
Proof.
  intros [Bok Bn Bnd Bbuf Bp] Hn Hle. split; [|reflexivity].
  constructor; unfold send_new; cbn [st_infl st_nbytes st_buffered]; try assumption.
  - unfold chunks_ok in *. apply Forall_app. split; [assumption|]. constructor; [|constructor].
    unfold chunk_ok; cbn. split; [lia|discriminate].
  - rewrite infl_sum_app. unfold infl_sum at 2; cbn [fold_right sc_len]. lia.
  - intros k Hk. rewrite lookup_add_bytes, infl_sid_app. unfold infl_sid at 2; cbn [fold_right sc_sid sc_len].
    rewrite (Bbuf k Hk). rewrite (Z.eqb_sym k). destruct (sid =? k); lia.
  - intros k. rewrite lookup_add_bytes. specialize (Bp k). destruct (Z.eqb_spec k sid) as [->|]; lia.
Qed.

(* ---------------------------------------------------------------- histories *)

(* ---------------------------------------------------------------- the congestion response to a RACK loss *)

Lemma rack_cut_frame_full s :
  st_rwnd (rack_cut s) = st_rwnd s /\ st_nbytes (rack_cut s) = st_nbytes s /\ st_infl (rack_cut s) = st_infl s /\
  st_buffered (rack_cut s) = st_buffered s /\ st_cum (rack_cut s) = st_cum s /\ st_front (rack_cut s) = st_front s /\
  st_state (rack_cut s) = st_state s /\ st_mtu (rack_cut s) = st_mtu s /\ st_mincwnd (rack_cut s) = st_mincwnd s /\
  st_pendbytes (rack_cut s) = st_pendbytes s.
Proof. unfold rack_cut. destruct (st_infr s); cbn; repeat split; reflexivity. Qed.

Lemma rack_cut_frame s : map fst (st_buffered (rack_cut s)) = map fst (st_buffered s).
Proof. destruct (rack_cut_frame_full s) as (_ & _ & _ & E & _). rewrite E. reflexivity. Qed.

Lemma rack_cut_BI s pend : BI s pend -> BI (rack_cut s) pend.
Proof.
  intros [Bok Bn Bnd Bbuf Bp]. destruct (rack_cut_frame_full s) as (_ & F2 & F3 & F4 & _).
  constructor; rewrite ?F2, ?F3, ?F4; assumption.
Qed.

(* the response itself: outside fast recovery the window is cut to max(cwnd/2, 4*MTU) (never below the floors),
   ssthresh likewise, partial_bytes_acked is cleared and fast recovery is entered; inside fast recovery (one cut
   per window of data) nothing changes *)
Lemma rack_cut_spec s : 0 < st_mtu s < 1073741824 ->
  (st_infr s = true -> rack_cut s = s) /\
  (st_infr s = false ->
     st_infr (rack_cut s) = true /\ st_pba (rack_cut s) = 0 /\
     st_ssthresh (rack_cut s) = Z.max (st_cwnd s / 2) (4 * st_mtu s) /\
     st_cwnd (rack_cut s) = Z.max (Z.max (st_cwnd s / 2) (4 * st_mtu s)) (st_mincwnd s) /\
     st_mtu s <= st_cwnd (rack_cut s) /\ st_mincwnd s <= st_cwnd (rack_cut s) /\
     (4 * st_mtu s <= st_cwnd s -> st_mincwnd s <= st_cwnd s -> st_cwnd (rack_cut s) <= st_cwnd s)).
Proof.
  intros Hm. unfold rack_cut. split; intros E; rewrite E; [reflexivity|].
  cbn [st_infr st_pba st_ssthresh st_cwnd st_mtu st_mincwnd]. unfold set_cwnd, wrap32; cbn [st_mincwnd].
  rewrite Z.mod_small by lia.
  destruct (Z.max (st_cwnd s / 2) (4 * st_mtu s) <? st_mincwnd s) eqn:E2; repeat split; lia.
Qed.

Inductive sev :=
| EvSack (cum arwnd : Z) (gaps : list (Z * Z))
| EvT3
| EvWrite (sid : Z) (frags : list Z)
| EvGather (chunks : list (Z * Z)) (tsn : Z)
| EvRackLoss.                                   (* RACK declared chunks lost (on a SACK or by its timer) *)

(* ghost: pending bytes per stream, and A = the receive window most recently advertised by the peer *)
Record sghost := mkSG { g_pend : list (Z * Z); g_A : Z }.

Fixpoint pend_sub (pend : list (Z * Z)) (chunks : list (Z * Z)) : list (Z * Z) :=
  match chunks with
  | [] => pend
  | (sid, n) :: r => pend_sub (add_bytes pend sid (- n)) r
  end.

(* chunks moved by a gather must be pending chunks (positive length, bytes available per stream) *)
Fixpoint pend_has (pend : list (Z * Z)) (chunks : list (Z * Z)) : Prop :=
  match chunks with
  | [] => True
  | (sid, n) :: r => 0 < n /\ n <= lookup pend sid /\ pend_has (add_bytes pend sid (- n)) r
  end.

Definition sack_processed (s : sst) (cum : Z) (gaps : list (Z * Z)) (arwnd : Z) : bool :=
  state_accepts_sack (st_state s) && negb (sna32GT (st_cum s) cum) &&
  match sack_step s cum arwnd gaps with SOk _ => true | SErr => false end.

Definition sstep (sg : sst * sghost) (e : sev) : option (sst * sghost) :=
  let (s, g) := sg in
  match e with
  | EvSack cum arwnd gaps =>
      match sack_step s cum arwnd gaps with
      | SOk s' => Some (s', mkSG (g_pend g) (if sack_processed s cum gaps arwnd then arwnd else g_A g))
      | SErr => Some (s, g)       (* rejected: no effect *)
      end
  | EvT3 => Some (t3_step s, g)
  | EvWrite sid frags => Some (write_step s sid frags, mkSG (add_bytes (g_pend g) sid (fold_left Z.add frags 0)) (g_A g))
  | EvGather chunks tsn =>
      match gather_new s chunks tsn false with
      | Some s' => Some (s', mkSG (pend_sub (g_pend g) chunks) (g_A g))
      | None => None              (* the implementation never moves a chunk the admission rule forbids *)
      end
  | EvRackLoss => Some (rack_cut s, g)
  end.

(* side conditions of an event (hypotheses of the history theorems) *)
Definition sev_ok (sg : sst * sghost) (e : sev) : Prop :=
  let (s, g) := sg in
  match e with
  | EvSack cum arwnd gaps => 0 <= arwnd < 4294967296
  | EvT3 => True
  | EvWrite sid frags => Forall (fun f => 0 < f) frags /\ In sid (map fst (st_buffered s))
  | EvGather chunks tsn =>
      pend_has (g_pend g) chunks /\
      st_nbytes s + fold_right (fun c a => snd c + a) 0 chunks < 4294967296
  | EvRackLoss => True
  end.

Fixpoint srun_ok (sg : sst * sghost) (evs : list sev) : Prop :=
  match evs with
  | [] => True
  | e :: r => sev_ok sg e /\ match sstep sg e with Some sg' => srun_ok sg' r | None => False end
  end.

Fixpoint srun (sg : sst * sghost) (evs : list sev) : option (sst * sghost) :=
  match evs with
  | [] => Some sg
  | e :: r => match sstep sg e with Some sg' => srun sg' r | None => None end
  end.

Definition SInv (sg : sst * sghost) : Prop :=
  BI (fst sg) (g_pend (snd sg)) /\ WI (fst sg) (g_A (snd sg)) /\ 0 <= st_rwnd (fst sg) < 4294967296 /\
  st_nbytes (fst sg) < 4294967296.

Lemma BI_nbytes_nonneg s pend : BI s pend -> 0 <= st_nbytes s.
Proof.
  intros [Bok Bn _ _ _]. rewrite Bn. clear Bn. unfold infl_sum. induction Bok as [|c l [Hc _] _ IH]; cbn [fold_right]; lia.
Qed.

Lemma gather_new_frame : forall chunks s tsn moved s',
  gather_new s chunks tsn moved = Some s' ->
  st_cwnd s' = st_cwnd s /\ map fst (st_buffered s') = map fst (st_buffered s).
Proof.
  induction chunks as [|[sid n] r IH]; intros s tsn moved s' H; cbn [gather_new] in H.
  - inversion H; subst. split; reflexivity.
  - destruct (admit_new s n moved).
    + apply IH in H. cbn [send_new st_cwnd st_buffered] in H. assumption.
    + destruct r; [|discriminate]. inversion H; subst. split; reflexivity.
    + discriminate.
Qed.

(* a gather preserves the invariants; window admissions keep WI, the (permitted) probe too *)
Lemma gather_new_SInv : forall chunks s tsn moved s' pend A,
  gather_new s chunks tsn moved = Some s' ->
  BI s pend -> WI s A -> 0 <= st_rwnd s < 4294967296 ->
  pend_has pend chunks ->
  st_nbytes s + fold_right (fun c a => snd c + a) 0 chunks < 4294967296 ->
  BI s' (pend_sub pend chunks) /\ WI s' A /\ 0 <= st_rwnd s' < 4294967296 /\ st_nbytes s' < 4294967296.
Proof.
  induction chunks as [|[sid n] r IH]; intros s tsn moved s' pend A H HB HW HR HP Hsum.
  - cbn in H. inversion H; subst. cbn in Hsum. cbn [pend_sub]. split; [assumption|]. split; [assumption|]. split; [assumption|lia].
  - cbn [gather_new] in H. cbn [pend_has] in HP. destruct HP as (Hn & Hle & HP'). cbn [fold_right snd] in Hsum.
    pose proof (BI_nbytes_nonneg s pend HB) as Hnn.
    assert (Hrest : 0 <= fold_right (fun c a => snd c + a) 0 r).
    { clear - HP'. revert HP'. generalize (add_bytes pend sid (- n)). induction r as [|[a b] r IHr]; intros p HP'; cbn; [lia|].
      cbn [pend_has] in HP'. destruct HP' as (Hb & _ & HP''). specialize (IHr _ HP''). lia. }
    cbn [pend_sub].
    destruct (admit_new s n moved) eqn:Ea.
    + assert (Hlt : st_nbytes s < 4294967296) by lia.
      assert (Hlt2 : st_nbytes s + n < 4294967296) by lia.
      assert (HRg : ranges s) by (unfold ranges; split; [split; assumption|assumption]).
      destruct (admit_window_bounds s n moved A HRg HW Hn Hlt2 Ea) as (B1 & B2 & B3).
      destruct (send_new_window_WI s sid n tsn A HRg HW Hn B3 Hlt2) as [HW' [_ HR']].
      destruct (send_new_BI s pend sid n tsn true HB Hn Hle) as [HB' _].
      apply (IH (send_new s sid n tsn true) (wrap32 (tsn + 1)) true s' _ A H HB' HW' HR' HP').
      cbn [send_new st_nbytes]. lia.
    + destruct r; [|discriminate]. inversion H; subst s'. cbn [pend_sub].
      destruct (send_new_BI s pend sid n tsn false HB Hn Hle) as [HB' _].
      split; [assumption|]. cbn in Hsum.
      destruct (admit_probe_only_when_empty s n moved Ea) as [_ Hemp].
      assert (Hn0 : st_nbytes s = 0) by (destruct HB as [_ Bn _ _ _]; rewrite Hemp in Bn; exact Bn).
      unfold WI, send_new, min32, wrap32; cbn [st_rwnd st_nbytes]. rewrite Hn0.
      destruct (st_rwnd s <? n) eqn:E.
      * rewrite Z.sub_diag. cbn. split; [left; reflexivity|lia].
      * rewrite Z.mod_small by lia. split; [|lia]. destruct HW as [Hz|HW]; [lia|]. right. lia.
    + discriminate.
Qed.

Lemma rwnd_after_sack_range nbytes arwnd : 0 <= rwnd_after_sack nbytes arwnd < 4294967296.
Proof. unfold rwnd_after_sack, wrap32. destruct (_ >=? _); lia. Qed.

Lemma sstep_SInv sg e sg' : SInv sg -> sev_ok sg e -> sstep sg e = Some sg' ->
  SInv sg' /\ map fst (st_buffered (fst sg')) = map fst (st_buffered (fst sg)).
Proof.
  destruct sg as [s g]. unfold SInv; cbn [fst snd]. intros (HB & HW & HR & HN) Hok H.
  destruct e as [cum arwnd gaps| |sid frags|chunks tsn| ]; cbn [sstep sev_ok] in *.
  - destruct (sack_step s cum arwnd gaps) as [s1|] eqn:Es; inversion H; subst sg'; cbn [fst snd g_pend g_A].
    2:{ split; [split; [assumption|split; [assumption|split; assumption]]|reflexivity]. }
    destruct (sack_step_BI _ _ _ _ _ _ Es HB) as (HB1 & Hle & Hk).
    split; [|assumption]. split; [assumption|].
    unfold sack_processed. rewrite Es.
    destruct (state_accepts_sack (st_state s)) eqn:Est; cbn [andb].
    2:{ (* ignored by state: unchanged *)
        unfold sack_step in Es. rewrite Est in Es. cbn in Es. inversion Es; subst. split; [assumption|split; assumption]. }
    destruct (sna32GT (st_cum s) cum) eqn:Eold; cbn [negb andb].
    { unfold sack_step in Es. rewrite Est, Eold in Es. cbn in Es. inversion Es; subst. split; [assumption|split; assumption]. }
    pose proof (sack_step_rwnd _ _ _ _ _ Es Est Eold) as Er.
    pose proof (BI_nbytes_nonneg _ _ HB1) as Hnn.
    rewrite Er. split; [|split; [apply rwnd_after_sack_range|lia]].
    unfold WI. rewrite Er. apply rwnd_after_sack_WI; lia.
  - inversion H; subst sg'; cbn [fst snd]. split; [|reflexivity].
    split; [apply t3_step_BI; assumption|]. unfold WI, t3_step in *; cbn [st_rwnd st_nbytes]. split; [assumption|split; assumption].
  - inversion H; subst sg'; cbn [fst snd g_pend g_A]. destruct Hok as [Hf Hreg].
    destruct (write_step_BI s (g_pend g) sid frags HB Hf Hreg) as [HB1 Hk]. split; [|assumption].
    split; [assumption|]. unfold WI, write_step in *; cbn [st_rwnd st_nbytes]. split; [assumption|split; assumption].
  - destruct (gather_new s chunks tsn false) as [s1|] eqn:Eg; [|discriminate]. inversion H; subst sg'; cbn [fst snd g_pend g_A].
    destruct Hok as (Hp & Hsum).
    destruct (gather_new_SInv chunks s tsn false s1 (g_pend g) (g_A g) Eg HB HW HR Hp Hsum) as (A1 & A2 & A3 & A4).
    split; [split; [assumption|split; [assumption|split; assumption]]|]. apply (gather_new_frame _ _ _ _ _ Eg).
  - inversion H; subst sg'; cbn [fst snd]. split; [|apply rack_cut_frame].
    split; [apply rack_cut_BI; assumption|].
    destruct (rack_cut_frame_full s) as (F1 & F2 & _). unfold WI in *. rewrite F1, F2. split; [assumption|split; assumption].
Qed.

Lemma srun_SInv : forall evs sg sg', SInv sg -> srun_ok sg evs -> srun sg evs = Some sg' ->
  SInv sg' /\ map fst (st_buffered (fst sg')) = map fst (st_buffered (fst sg)).
Proof.
  induction evs as [|e r IH]; intros sg sg' HI Hok H; cbn [srun srun_ok] in *.
  - inversion H; subst. split; [assumption|reflexivity].
  - destruct Hok as [He Hr]. destruct (sstep sg e) as [sg1|] eqn:Es; [|contradiction].
    destruct (sstep_SInv sg e sg1 HI He Es) as [HI1 K1].
    destruct (IH sg1 sg' HI1 Hr H) as [HI2 K2]. split; [assumption|congruence].
Qed.

Lemma srun_app : forall evs sg e, srun_ok sg (evs ++ [e]) ->
  exists sg1, srun sg evs = Some sg1 /\ srun_ok sg evs /\ sev_ok sg1 e /\ sstep sg1 e <> None.
Proof.
  induction evs as [|x r IH]; intros sg e H; cbn [app srun srun_ok] in *.
  - destruct H as [He Hs]. exists sg. repeat split; [assumption|]. destruct (sstep sg e); [discriminate|contradiction].
  - destruct H as [Hx Hr]. destruct (sstep sg x) as [sg1|] eqn:Es; [|contradiction].
    destruct (IH sg1 e Hr) as (sg2 & R1 & R2 & R3 & R4). exists sg2. repeat split; assumption.
Qed.

(* C15 at the level of histories *)
Lemma buffered_exact evs sg s g :
  SInv sg -> srun_ok sg evs -> srun sg evs = Some (s, g) ->
  (forall k, In k (map fst (st_buffered s)) ->
     lookup (st_buffered s) k = lookup (g_pend g) k + infl_sid (st_infl s) k) /\
  st_nbytes s = infl_sum (st_infl s) /\
  (forall k, 0 <= lookup (g_pend g) k) /\
  map fst (st_buffered s) = map fst (st_buffered (fst sg)).
Proof.
  intros HI Hok H. destruct (srun_SInv evs sg (s, g) HI Hok H) as [(HB & _) K]. cbn [fst snd] in *.
  destruct HB as [Bok Bn Bnd Bbuf Bp]. repeat split; assumption.
Qed.

(* C10 at the level of histories: every chunk moved by any gather of any history *)
Lemma window_respected evs sg chunks tsn :
  SInv sg -> srun_ok sg (evs ++ [EvGather chunks tsn]) ->
  exists s g, srun sg evs = Some (s, g) /\
  forall out rw ninfl k, In (out, rw, ninfl, k) (gather_obs s chunks tsn false) ->
    (k = AdmitWindow /\ out <= st_cwnd s /\ out <= g_A g) \/ (k = AdmitProbe /\ ninfl = 0).
Proof.
  intros HI Hok. destruct (srun_app evs sg _ Hok) as ([s g] & R1 & R2 & R3 & R4).
  exists s, g. split; [assumption|].
  destruct (srun_SInv evs sg (s, g) HI R2 R1) as [(HB & HW & HR & HN) _]. cbn [fst snd] in *.
  cbn [sev_ok] in R3. destruct R3 as (Hp & Hsum).
  intros out rw ninfl k Hin.
  assert (Hpos : forall sid n, In (sid, n) chunks -> 0 < n).
  { clear - Hp. revert Hp. generalize (g_pend g). induction chunks as [|[a b] r IHr]; intros p Hp sid n Hin; [destruct Hin|].
    cbn [pend_has] in Hp. destruct Hp as (Hb & _ & Hp'). destruct Hin as [E|Hin]; [inversion E; subst; assumption|].
    apply (IHr _ Hp' sid n Hin). }
  pose proof (BI_nbytes_nonneg _ _ HB) as Hnn.
  assert (HRg : ranges s) by (unfold ranges; split; [split; [assumption|lia]|assumption]).
  destruct (gather_obs_ok chunks s tsn false (g_A g) HRg HW Hpos Hsum out rw ninfl k Hin) as [X|(K & N0 & _)].
  - left. assumption.
  - right. subst k. split; [reflexivity|assumption].
Qed.

(* D19 (fixed in /repo by b8dfdc0): before the fix the probe path left rwnd untouched; with 0 < rwnd < n the
   next gather could move more new data although outstanding bytes already exceeded the advertised window
   (witness: rwnd = a_rwnd = 700, probe of 1100 bytes, then 100 bytes admitted: 1200 > 700).  With the
   saturating decrement the same history is refused by the admission rule: *)
Lemma stale_probe_now_refused :
  exists s1,
    gather_new stale_probe_witness [(1, 1100)] 100 false = Some s1 /\
    st_rwnd s1 = 0 /\ admit_new s1 100 false = AdmitNo.
Proof. eexists. split; [vm_compute; reflexivity|]. split; vm_compute; reflexivity. Qed.

(* ---------------------------------------------------------------- congestion window floor through a SACK *)

Definition floor_ok (s : sst) : Prop := st_mtu s <= st_cwnd s /\ st_mincwnd s <= st_cwnd s.

Lemma fr_loop_floor : forall fuel s tsn maxTSN htna s',
  fr_loop fuel s tsn maxTSN htna = Some s' -> 0 < st_mtu s < 1073741824 -> floor_ok s -> floor_ok s'.
Proof.
  induction fuel as [|f IH]; intros s tsn maxTSN htna s' H Hm Hf; [discriminate|]. cbn [fr_loop] in H.
  destruct (negb (sna32LT tsn maxTSN)); [inversion H; subst; assumption|].
  destruct (infl_get s tsn) as [c|]; [|discriminate].
  match type of H with fr_loop f ?X _ _ _ = _ => set (s1 := X) in H end.
  apply IH in H; [assumption| |].
  - unfold s1. destruct (negb (sc_acked c) && negb (sc_aband c) && (sc_miss c <? 3))%bool; [|assumption].
    destruct ((sc_miss c + 1 =? 3) && negb (st_infr s))%bool; cbn [st_mtu]; assumption.
  - unfold s1. destruct (negb (sc_acked c) && negb (sc_aband c) && (sc_miss c <? 3))%bool; [|assumption].
    destruct ((sc_miss c + 1 =? 3) && negb (st_infr s))%bool; unfold floor_ok in *; cbn [st_mtu st_cwnd st_mincwnd]; [|assumption].
    pose proof (set_cwnd_ge s (Z.max (st_cwnd s / 2) (wrap32 (4 * st_mtu s)))) as [G1 G2].
    assert (E4 : wrap32 (4 * st_mtu s) = 4 * st_mtu s) by (unfold wrap32; lia).
    rewrite E4 in *. split; lia.
Qed.

Lemma pop_acked_cwnd : forall fuel s idx newcum acc s' acc',
  pop_acked fuel s idx newcum acc = Some (s', acc') ->
  st_cwnd s' = st_cwnd s /\ st_mtu s' = st_mtu s /\ st_mincwnd s' = st_mincwnd s /\ st_ssthresh s' = st_ssthresh s /\
  st_pendn s' = st_pendn s /\ st_castep s' = st_castep s.
Proof.
  induction fuel as [|f IH]; intros s idx newcum acc s' acc' H; [discriminate|]. cbn [pop_acked] in H.
  destruct (negb (sna32LTE idx newcum)); [inversion H; subst; repeat split; reflexivity|].
  destruct (st_infl s) as [|c rest]; [discriminate|]. destruct (negb (st_front s =? idx)); [discriminate|].
  apply IH in H. cbn in H. assumption.
Qed.

Lemma mark_gaps_cwnd : forall gaps s cum acc htna s' acc' h',
  mark_gaps gaps s cum acc htna = Some (s', acc', h') ->
  st_cwnd s' = st_cwnd s /\ st_mtu s' = st_mtu s /\ st_mincwnd s' = st_mincwnd s /\ st_castep s' = st_castep s.
Proof.
  assert (One : forall s tsn acc htna s' acc' h', mark_one s tsn acc htna = Some (s', acc', h') ->
            st_cwnd s' = st_cwnd s /\ st_mtu s' = st_mtu s /\ st_mincwnd s' = st_mincwnd s /\ st_castep s' = st_castep s).
  { intros s tsn acc htna s' acc' h'. unfold mark_one. destruct (infl_get s tsn) as [c|]; [|discriminate].
    destruct (sc_acked c); intros H; inversion H; subst; cbn; repeat split; reflexivity. }
  assert (Rng : forall n s cum i acc htna s' acc' h', mark_range n s cum i acc htna = Some (s', acc', h') ->
            st_cwnd s' = st_cwnd s /\ st_mtu s' = st_mtu s /\ st_mincwnd s' = st_mincwnd s /\ st_castep s' = st_castep s).
  { induction n as [|n IH]; intros s cum i acc htna s' acc' h' H; cbn [mark_range] in H.
    - inversion H; subst. repeat split; reflexivity.
    - destruct (mark_one s (wrap32 (cum + i)) acc htna) as [[[s1 a1] h1]|] eqn:E; [|discriminate].
      apply One in E. apply IH in H. destruct E as (E1 & E2 & E3 & E4), H as (H1 & H2 & H3 & H4). repeat split; congruence. }
  induction gaps as [|[gs ge] r IH]; intros s cum acc htna s' acc' h' H; cbn [mark_gaps] in H.
  - inversion H; subst. repeat split; reflexivity.
  - destruct (mark_range _ s cum gs acc htna) as [[[s1 a1] h1]|] eqn:E; [|discriminate].
    apply Rng in E. apply IH in H. destruct E as (E1 & E2 & E3 & E4), H as (H1 & H2 & H3 & H4). repeat split; congruence.
Qed.

Lemma cwnd_grow_floor s total : 0 <= st_cwnd s < 2147483648 -> 0 <= st_castep s < 2147483648 -> 0 < st_mtu s < 1073741824 ->
  floor_ok s -> floor_ok (cwnd_grow s total) /\ st_cwnd s <= st_cwnd (cwnd_grow s total) /\
  st_mtu (cwnd_grow s total) = st_mtu s /\ st_mincwnd (cwnd_grow s total) = st_mincwnd s.
Proof.
  intros Hc Hs Hm [F1 F2]. unfold cwnd_grow, floor_ok.
  destruct (st_cwnd s <=? st_ssthresh s).
  - destruct (negb (st_infr s) && (0 <? st_pendn s))%bool; cbn [st_cwnd st_mtu st_mincwnd]; [|repeat split; lia].
    pose proof (set_cwnd_ge s (wrap32 (st_cwnd s + Z.min (wrap32 total) (st_cwnd s)))) as [G1 G2].
    assert (0 <= Z.min (wrap32 total) (st_cwnd s) <= st_cwnd s) by (unfold wrap32; lia).
    unfold wrap32 in G2 at 1. rewrite Z.mod_small in G2 by lia. repeat split; lia.
  - destruct ((wrap32 (st_pba s + wrap32 total) >=? st_cwnd s) && (0 <? st_pendn s))%bool; cbn [st_cwnd st_mtu st_mincwnd]; [|repeat split; lia].
    pose proof (set_cwnd_ge s (wrap32 (st_cwnd s + Z.max (st_mtu s) (st_castep s)))) as [G1 G2].
    unfold wrap32 in G2 at 1. rewrite Z.mod_small in G2 by lia. repeat split; lia.
Qed.

(* the congestion window never falls below one MTU (nor below the configured minimum) through a SACK *)
Lemma sack_step_floor s cum arwnd gaps s' :
  sack_step s cum arwnd gaps = SOk s' ->
  0 <= st_cwnd s < 2147483648 -> 0 <= st_castep s < 2147483648 -> 0 < st_mtu s < 1073741824 ->
  floor_ok s -> floor_ok s'.
Proof.
  unfold sack_step. intros H Hc Hs Hm Hf.
  destruct (negb (state_accepts_sack (st_state s))); [inversion H; subst; assumption|].
  destruct (sna32GT (st_cum s) cum); [inversion H; subst; assumption|].
  destruct (negb (sack_valid s cum gaps)); [discriminate|].
  destruct (pop_acked _ s _ cum []) as [[s1 acc1]|] eqn:Ep; [|discriminate].
  destruct (mark_gaps gaps s1 cum acc1 cum) as [[[s2 acc2] htna]|] eqn:Em; [|discriminate].
  apply pop_acked_cwnd in Ep. destruct Ep as (P1 & P2 & P3 & P4 & P5 & P6).
  apply mark_gaps_cwnd in Em. destruct Em as (M1 & M2 & M3 & M4).
  match type of H with match fast_rtx ?X _ _ _ _ with _ => _ end = _ => set (s4 := X) in H end.
  destruct (fast_rtx s4 cum gaps htna (sna32LT (st_cum s) cum)) as [s5|] eqn:Ef; [|discriminate].
  inversion H; subst s'. clear H.
  assert (F2 : floor_ok s2 /\ 0 < st_mtu s2 < 1073741824 /\ 0 <= st_cwnd s2 < 2147483648 /\ 0 <= st_castep s2 < 2147483648).
  { unfold floor_ok in *. rewrite M1, M2, M3, M4, P1, P2, P3, P6. repeat split; lia. }
  destruct F2 as (F2 & Hm2 & Hc2 & Hs2).
  assert (F4 : floor_ok s4 /\ 0 < st_mtu s4 < 1073741824).
  { unfold s4, floor_ok in *; cbn [st_cwnd st_mtu st_mincwnd]. destruct (sna32LT (st_cum s) cum); [|repeat split; lia].
    match goal with |- context[cwnd_grow ?X ?T] => remember X as x eqn:Ex; remember T as tt end.
    assert (Fx : floor_ok x /\ 0 <= st_cwnd x < 2147483648 /\ 0 <= st_castep x < 2147483648 /\ 0 < st_mtu x < 1073741824).
    { subst x. unfold floor_ok in *; cbn [st_cwnd st_mtu st_mincwnd st_castep]. repeat split; lia. }
    destruct Fx as (Fx & Hcx & Hsx & Hmx).
    destruct (cwnd_grow_floor x tt Hcx Hsx Hmx Fx) as ([G1a G1b] & G2 & G3 & G4).
    rewrite G3 in *. rewrite G4 in *. split; [split; assumption|assumption]. }
  destruct F4 as [F4 Hm4].
  unfold fast_rtx in Ef.
  destruct (negb (st_infr s4) || st_infr s4 && sna32LT (st_cum s) cum)%bool.
  - destruct (fr_loop _ _ _ _ _) as [s6|] eqn:E; [|discriminate].
    apply fr_loop_floor in E; [|assumption|assumption].
    destruct (st_infr s6 && sna32LT (st_cum s) cum)%bool; inversion Ef; subst; unfold floor_ok in *; cbn; assumption.
  - destruct (st_infr s4 && sna32LT (st_cum s) cum)%bool; inversion Ef; subst; unfold floor_ok in *; cbn; assumption.
Qed.

(* ---------------------------------------------------------------- C03: invalid and stale acknowledgements *)

(* a SACK older than the cumulative ack point is ignored *)
Lemma sack_stale_ignored s cum arwnd gaps :
  state_accepts_sack (st_state s) = true -> sna32GT (st_cum s) cum = true -> sack_step s cum arwnd gaps = SOk s.
Proof. intros H1 H2. unfold sack_step. rewrite H1, H2. reflexivity. Qed.

Lemma sack_ignored_outside_data_states s cum arwnd gaps :
  state_accepts_sack (st_state s) = false -> sack_step s cum arwnd gaps = SOk s.
Proof. intros H1. unfold sack_step. rewrite H1. reflexivity. Qed.

(* whole-SACK validation precedes every mutation: an invalid SACK is rejected (and the event leaves the
   state as it was, see sstep) *)
Lemma sack_invalid_rejected s cum arwnd gaps :
  state_accepts_sack (st_state s) = true -> sna32GT (st_cum s) cum = false ->
  sack_valid s cum gaps = false -> sack_step s cum arwnd gaps = SErr.
Proof. intros H1 H2 H3. unfold sack_step. rewrite H1, H2, H3. reflexivity. Qed.

Lemma sack_valid_gap_conditions s cum gaps gs ge :
  sack_valid s cum gaps = true -> In (gs, ge) gaps ->
  gs <> 0 /\ gs <= ge /\ infl_get s (wrap32 (cum + gs)) <> None /\ infl_get s (wrap32 (cum + ge)) <> None.
Proof.
  unfold sack_valid. intros H Hin. apply andb_true_iff in H. destruct H as [_ H].
  rewrite forallb_forall in H. specialize (H (gs, ge) Hin). cbn in H.
  apply andb_true_iff in H. destruct H as [H H3]. apply andb_true_iff in H. destruct H as [H1 H2].
  destruct (infl_get s (wrap32 (cum + gs))) as [c|] eqn:E1; [|discriminate].
  split; [lia|]. split; [lia|]. split; [discriminate|].
  destruct (wrap32 (cum + ge) =? wrap32 (cum + gs)) eqn:E2.
  - apply Z.eqb_eq in E2. rewrite E2, E1. discriminate.
  - destruct (infl_get s (wrap32 (cum + ge))); [discriminate|discriminate].
Qed.

Lemma sack_valid_cum_in_flight s cum gaps :
  sack_valid s cum gaps = true -> sna32LT (st_cum s) cum = true ->
  infl_get s (wrap32 (st_cum s + 1)) <> None /\ infl_get s cum <> None.
Proof.
  unfold sack_valid. intros H Hlt. apply andb_true_iff in H. destruct H as [H _]. rewrite Hlt in H.
  destruct (infl_get s (wrap32 (st_cum s + 1))); [|discriminate].
  destruct (infl_get s cum); [|discriminate]. split; discriminate.
Qed.

(* a TSN the in-flight queue does not hold (never sent, or already released) cannot be acknowledged *)
Lemma infl_get_in_range s tsn c : infl_get s tsn = Some c ->
  0 <= wrap32 (tsn - st_front s) < Z.of_nat (length (st_infl s)).
Proof.
  unfold infl_get. destruct (st_infl s) as [|a l] eqn:E; [discriminate|].
  destruct (wrap32 (tsn - st_front s) >=? Z.of_nat (length (a :: l))) eqn:E2; [discriminate|].
  intros _. unfold wrap32 in *. lia.
Qed.

(* ---------------------------------------------------------------- C02: the retransmission source after T3 *)

(* T3 expiry marks every outstanding chunk (not acked, not abandoned) for retransmission *)
Lemma t3_marks_all_outstanding s c :
  In c (st_infl (t3_step s)) -> sc_acked c = false -> sc_aband c = false -> sc_rtx c = true.
Proof.
  unfold t3_step; cbn [st_infl]. intros Hin Ha Hb. apply in_map_iff in Hin. destruct Hin as [c0 [E Hin]].
  destruct (sc_acked c0 || sc_aband c0)%bool eqn:Eo.
  - subst c. apply orb_true_iff in Eo. destruct Eo; congruence.
  - subst c. reflexivity.
Qed.

Lemma t3_keeps_queue s :
  map (fun c => (sc_sid c, sc_len c, sc_acked c, sc_aband c)) (st_infl (t3_step s)) =
  map (fun c => (sc_sid c, sc_len c, sc_acked c, sc_aband c)) (st_infl s) /\ st_nbytes (t3_step s) = st_nbytes s.
Proof.
  unfold t3_step; cbn [st_infl st_nbytes]. split; [|reflexivity]. rewrite map_map. apply map_ext.
  intros c. destruct (sc_acked c || sc_aband c)%bool; reflexivity.
Qed.

(* the lowest outstanding chunk, once marked, is always selected for retransmission — whatever rwnd is
   (zero-window probe) — as long as it fits the congestion window (which never falls below one MTU) and the
   first-send burst gate lets it pass *)
Lemma rtx_first_selected s gate c rest :
  st_infl s = c :: rest -> sc_rtx c = true -> sc_aband c = false -> 0 <= sc_len c -> sc_len c <= st_cwnd s ->
  gate (sc_len c) = true -> In 0 (rtx_select s gate).
Proof.
  intros Ei Hr Ha Hl Hc Hg. unfold rtx_select. rewrite Ei. cbn [rtx_walk]. rewrite Hr, Ha. cbn [negb].
  replace (0 =? 0) with true by reflexivity. cbn [andb].
  destruct (st_rwnd s <? sc_len c) eqn:Er.
  - rewrite Hg. cbn. left. reflexivity.
  - assert (E : 0 + sc_len c >? min32 (st_cwnd s) (st_rwnd s) = false).
    { unfold min32. destruct (st_cwnd s <? st_rwnd s) eqn:E2; lia. }
    rewrite E, Hg. cbn. left. reflexivity.
Qed.

(* combined: right after a T3 expiry the chunk at cumulativeTSNAckPoint+1, if still unacknowledged and not
   abandoned, is retransmitted *)
Lemma t3_retransmits_lowest_outstanding s gate c rest :
  st_infl s = c :: rest -> sc_acked c = false -> sc_aband c = false -> 0 <= sc_len c ->
  0 < st_mtu s -> sc_len c <= st_mtu s -> st_mincwnd s <= st_cwnd s -> gate (sc_len c) = true ->
  In 0 (rtx_select (t3_step s) gate).
Proof.
  intros Ei Ha Hb Hl Hm Hlm Hmin Hg.
  set (c' := mkSC (sc_sid c) (sc_len c) false false (sc_miss c) true).
  assert (E : st_infl (t3_step s) = c' :: map (fun c0 => if (sc_acked c0 || sc_aband c0)%bool then c0
              else mkSC (sc_sid c0) (sc_len c0) (sc_acked c0) (sc_aband c0) (sc_miss c0) true) rest).
  { unfold t3_step; cbn [st_infl]. rewrite Ei. cbn [map]. rewrite Ha, Hb. reflexivity. }
  apply (rtx_first_selected (t3_step s) gate c' _ E); unfold c'; cbn [sc_rtx sc_len sc_aband]; try assumption; try reflexivity.
  pose proof (set_cwnd_ge s (st_mtu s)) as [G1 G2]. unfold t3_step; cbn [st_cwnd]. lia.
Qed.
