(* C02: every fault-free retransmission round (model Live.lv_round) strictly advances the cumulative
   acknowledgement, keeps the invariant that links the sender's in-flight queue to what the receiver holds,
   and therefore drains the in-flight queue within as many rounds as there are chunks in flight -- from
   ANY state satisfying the link invariant, i.e. after any earlier history of loss, duplication, reordering,
   back-off, window collapse or zero-window episodes that led there. *)
From Coq Require Import ZArith Bool List Lia.
From Coq Require Import ZifyBool.
From Sctp Require Import Gen SnaProofs Sender SenderProofs RPQ RPQProofs RPQWordProofs RQ Live LiveSender.
Import ListNotations.
Open Scope Z_scope.
Ltac Zify.zify_post_hook ::= Z.div_mod_to_equations.

(* ---------- receiver: acceptance in terms of the ghost indices ---------- *)

Lemma can_push_is_push q t : can_push q t = snd (push q t).
Proof.
  unfold can_push, push.
  destruct (sna32GT t (wrap32 (cum q + max_off q))); destruct (sna32LTE t (cum q)); destruct (has_chunk q t); reflexivity.
Qed.

Lemma push_iff k0 q g k :
  J k0 (q, g) -> - H31 < k - gK g < H31 ->
  (snd (push q (wrap32 k)) = true <-> gK g < k <= gK g + max_off q /\ ~ In k (gacc g)).
Proof.
  intros [I Hc Hh Hcov Hmono] Hk. cbn [fst snd] in *.
  assert (Ht : in32 (wrap32 k)) by (unfold in32, wrap32; lia).
  rewrite (push_result _ _ I Ht). unfold push_ok.
  destruct (dist_of_index (gK g) k Hk) as [Dpos Dneg]. rewrite <- Hc in Dpos, Dneg.
  destruct (inv_off _ I) as [Hmo _].
  destruct (Z_lt_le_dec (k - gK g) 0) as [Hneg|Hpos].
  - specialize (Dneg Hneg). split; [intros [? _]; lia|intros [? _]; lia].
  - rewrite (Dpos Hpos). split.
    + intros [Hr Hn]. split; [lia|]. intros X. apply Hn. apply Hh; [lia|].
      replace (gK g + (k - gK g)) with k by lia. assumption.
    + intros [Hr Hn]. split; [lia|]. intros X. apply Hn. apply Hh in X; [|lia].
      replace (gK g + (k - gK g)) with k in X by lia. assumption.
Qed.

(* receive one DATA TSN with ghost index k *)
Definition recv_g (credit : Z) (s : rpq * ghost) (k : Z) : rpq * ghost :=
  if can_push (fst s) (wrap32 k) then
    (if rq_admit credit (last_tsn_received (fst s)) (wrap32 k) then gstep s (EArr k) else s)
  else gstep s (EArr k).

Lemma recv_g_fst credit q g k : fst (recv_g credit (q, g) k) = lv_recv credit q (wrap32 k).
Proof.
  unfold recv_g, lv_recv. cbn [fst]. destruct (can_push q (wrap32 k)); [destruct (rq_admit _ _ _)|]; reflexivity.
Qed.

Lemma gstep_arr_ghost s k :
  gK (snd (gstep s (EArr k))) = gK (snd s) /\
  (forall x, In x (gacc (snd s)) -> In x (gacc (snd (gstep s (EArr k))))) /\
  (forall x, In x (gacc (snd (gstep s (EArr k)))) -> In x (gacc (snd s)) \/ x = k) /\
  (snd (push (fst s) (wrap32 k)) = true -> In k (gacc (snd (gstep s (EArr k))))).
Proof.
  destruct s as [q g]. cbn [gstep fst snd]. destruct (snd (push q (wrap32 k))); cbn [gK gacc].
  - repeat split; auto. + intros x H; right; assumption. + intros x [H|H]; [right; congruence|left; assumption]. + intros _. left. reflexivity.
  - repeat split; auto. discriminate.
Qed.

Lemma recv_g_props k0 credit s k :
  J k0 s -> - H31 < k - gK (snd s) < H31 ->
  J k0 (recv_g credit s k) /\ gK (snd (recv_g credit s k)) = gK (snd s) /\
  (forall x, In x (gacc (snd s)) -> In x (gacc (snd (recv_g credit s k)))) /\
  (forall x, In x (gacc (snd (recv_g credit s k))) -> In x (gacc (snd s)) \/ x = k) /\
  max_off (fst (recv_g credit s k)) = max_off (fst s).
Proof.
  intros Js Hk. unfold recv_g.
  assert (G : J k0 (gstep s (EArr k)) /\ gK (snd (gstep s (EArr k))) = gK (snd s) /\
              (forall x, In x (gacc (snd s)) -> In x (gacc (snd (gstep s (EArr k))))) /\
              (forall x, In x (gacc (snd (gstep s (EArr k)))) -> In x (gacc (snd s)) \/ x = k) /\
              max_off (fst (gstep s (EArr k))) = max_off (fst s)).
  { destruct (gstep_J k0 s (EArr k) Js Hk) as [J1 _]. destruct (gstep_arr_ghost s k) as (A & B & C & _).
    split; [assumption|]. split; [assumption|]. split; [assumption|]. split; [assumption|]. apply max_off_gstep. }
  destruct (can_push (fst s) (wrap32 k)); [destruct (rq_admit _ _ _)|]; try exact G.
  split; [assumption|]. split; [reflexivity|]. split; [auto|]. split; [auto|]. reflexivity.
Qed.

Lemma recv_g_accepts k0 credit s k :
  J k0 s -> gK (snd s) < k <= gK (snd s) + max_off (fst s) -> max_off (fst s) < H31 -> ~ In k (gacc (snd s)) -> 0 < credit ->
  In k (gacc (snd (recv_g credit s k))).
Proof.
  intros Js Hk Hm Hn Hc. destruct s as [q g]. cbn [fst snd] in *.
  assert (P : snd (push q (wrap32 k)) = true) by (apply (push_iff k0 q g k Js); [unfold H31 in *; lia|split; assumption]).
  unfold recv_g. cbn [fst]. rewrite can_push_is_push, P.
  unfold rq_admit. replace (credit >? 0) with true by lia.
  apply (gstep_arr_ghost (q, g) k). exact P.
Qed.

(* ---------- delivering the selected retransmissions ---------- *)

Definition deliver_g (credit : Z -> Z) (K : Z) (sel : list Z) (s : rpq * ghost) : rpq * ghost :=
  fold_left (fun s i => recv_g (credit i) s (K + 1 + i)) sel s.

Lemma deliver_g_fst credit K front : front = wrap32 (K + 1) -> forall sel q g,
  fst (deliver_g credit K sel (q, g)) = fold_left (fun q i => lv_recv (credit i) q (wrap32 (front + i))) sel q.
Proof.
  intros Hf. induction sel as [|i r IH]; intros q g; [reflexivity|].
  unfold deliver_g in *. cbn [fold_left].
  destruct (recv_g (credit i) (q, g) (K + 1 + i)) as [q1 g1] eqn:E.
  rewrite IH. f_equal.
  assert (X : q1 = fst (recv_g (credit i) (q, g) (K + 1 + i))) by (rewrite E; reflexivity).
  rewrite X, recv_g_fst. f_equal. subst front. unfold wrap32. lia.
Qed.

Lemma deliver_g_props k0 credit K n : 0 <= n < B30 -> forall sel s,
  (forall i, In i sel -> 0 <= i < n) -> J k0 s -> K <= gK (snd s) <= K + n ->
  (forall x, In x (gacc (snd s)) -> x <= K + n) ->
  let s' := deliver_g credit K sel s in
  J k0 s' /\ gK (snd s') = gK (snd s) /\
  (forall x, In x (gacc (snd s)) -> In x (gacc (snd s'))) /\
  (forall x, In x (gacc (snd s')) -> x <= K + n) /\
  max_off (fst s') = max_off (fst s).
Proof.
  intros Hn. induction sel as [|i r IH]; intros s Hsel Js HK Hacc; cbn zeta.
  - split; [assumption|]. split; [reflexivity|]. split; [auto|]. split; [assumption|]. reflexivity.
  - unfold deliver_g. cbn [fold_left]. fold (deliver_g credit K r (recv_g (credit i) s (K + 1 + i))).
    assert (Hi : 0 <= i < n) by (apply Hsel; left; reflexivity).
    destruct (recv_g_props k0 (credit i) s (K + 1 + i) Js) as (J1 & G1 & A1 & B1 & M1); [unfold H31, B30 in *; lia|].
    destruct (IH (recv_g (credit i) s (K + 1 + i))) as (J2 & G2 & A2 & B2 & M2).
    + intros j Hj. apply Hsel. right. assumption.
    + assumption.
    + rewrite G1. assumption.
    + intros x Hx. destruct (B1 x Hx) as [X|X]; [apply Hacc; assumption|lia].
    + split; [assumption|]. split; [congruence|]. split; [intros x Hx; apply A2, A1; assumption|]. split; [assumption|]. congruence.
Qed.

Lemma deliver_g_lowest k0 credit K n : 0 <= n < B30 -> forall sel s,
  (forall i, In i sel -> 0 <= i < n) -> J k0 s -> gK (snd s) = K ->
  (forall x, In x (gacc (snd s)) -> x <= K + n) ->
  1 <= max_off (fst s) < H31 -> 0 < credit 0 -> In 0 sel ->
  In (K + 1) (gacc (snd (deliver_g credit K sel s))).
Proof.
  intros Hn. induction sel as [|i r IH]; intros s Hsel Js HK Hacc Hmo Hc Hin; [destruct Hin|].
  unfold deliver_g. cbn [fold_left]. fold (deliver_g credit K r (recv_g (credit i) s (K + 1 + i))).
  assert (Hi : 0 <= i < n) by (apply Hsel; left; reflexivity).
  destruct (recv_g_props k0 (credit i) s (K + 1 + i) Js) as (J1 & G1 & A1 & B1 & M1); [unfold H31, B30 in *; lia|].
  assert (Hr : forall j, In j r -> 0 <= j < n) by (intros j Hj; apply Hsel; right; assumption).
  assert (Hacc1 : forall x, In x (gacc (snd (recv_g (credit i) s (K + 1 + i)))) -> x <= K + n).
  { intros x Hx. destruct (B1 x Hx) as [X|X]; [apply Hacc; assumption|lia]. }
  destruct (Z.eq_dec i 0) as [->|Ni].
  - (* the lowest outstanding chunk arrives now *)
    assert (In (K + 1) (gacc (snd (recv_g (credit 0) s (K + 1 + 0))))).
    { replace (K + 1 + 0) with (K + 1) in * by lia.
      destruct (in_dec Z.eq_dec (K + 1) (gacc (snd s))) as [Y|N]; [apply A1; assumption|].
      apply (recv_g_accepts k0); try assumption; lia. }
    destruct (deliver_g_props k0 credit K n Hn r (recv_g (credit 0) s (K + 1 + 0))) as (_ & _ & A2 & _); try assumption.
    + rewrite G1. lia.
    + apply A2. assumption.
  - destruct Hin as [X|X]; [congruence|]. apply IH; try assumption; try congruence.
Qed.

(* ---------- moving the cumulative point over everything consecutive ---------- *)

Fixpoint pops_g (fuel : nat) (s : rpq * ghost) : rpq * ghost :=
  match fuel with
  | O => s
  | S f => if snd (pop (fst s) false) then pops_g f (gstep s (EPop false)) else s
  end.

Lemma pops_g_fst : forall fuel q g, fst (pops_g fuel (q, g)) = lv_pops fuel q.
Proof.
  induction fuel as [|f IH]; intros q g; [reflexivity|]. cbn [pops_g lv_pops fst].
  destruct (snd (pop q false)) eqn:E; [|reflexivity].
  cbn [gstep]. rewrite E. apply IH.
Qed.

Lemma pop_size q f : snd (pop q f) = true -> size (fst (pop q f)) = size q - 1.
Proof. unfold pop. destruct (has_chunk q (wrap32 (cum q + 1))); [reflexivity|]. destruct f; discriminate. Qed.

Lemma gstep_pop_ghost s : snd (pop (fst s) false) = true ->
  gK (snd (gstep s (EPop false))) = gK (snd s) + 1 /\ gacc (snd (gstep s (EPop false))) = gacc (snd s).
Proof. destruct s as [q g]. cbn [fst snd gstep]. intros E. rewrite E. cbn. split; reflexivity. Qed.

Lemma pops_g_props k0 B : forall fuel s,
  J k0 s -> gK (snd s) <= B -> (forall x, In x (gacc (snd s)) -> x <= B) ->
  J k0 (pops_g fuel s) /\ gK (snd s) <= gK (snd (pops_g fuel s)) <= B /\
  gacc (snd (pops_g fuel s)) = gacc (snd s) /\ max_off (fst (pops_g fuel s)) = max_off (fst s) /\
  (size (fst s) < Z.of_nat fuel -> snd (pop (fst (pops_g fuel s)) false) = false).
Proof.
  induction fuel as [|f IH]; intros s Js HB Hacc; cbn [pops_g].
  - split; [assumption|]. split; [lia|]. split; [reflexivity|]. split; [reflexivity|].
    intros Hsz. pose proof (size_nonneg (fst s) (j_inv k0 s Js)). lia.
  - destruct (snd (pop (fst s) false)) eqn:E.
    + destruct (gstep_J k0 s (EPop false) Js I) as [J1 _].
      destruct (gstep_pop_ghost s E) as [G1 A1].
      assert (Hh : held (fst s) 1) by (apply (pop_spec (fst s) false (j_inv k0 s Js)); assumption).
      assert (Hin : In (gK (snd s) + 1) (gacc (snd s))) by (apply (j_held k0 s Js 1); [lia|assumption]).
      destruct (IH (gstep s (EPop false)) J1) as (J2 & G2 & A2 & M2 & F2).
      * rewrite G1. apply Hacc. assumption.
      * rewrite A1. assumption.
      * split; [assumption|]. split; [lia|]. split; [congruence|].
        split; [rewrite M2; apply max_off_gstep|].
        intros Hsz. apply F2. destruct s as [q g]. cbn [fst snd gstep] in *. rewrite (pop_size q false E). lia.
    + split; [assumption|]. split; [lia|]. split; [reflexivity|]. split; [reflexivity|]. intros _. assumption.
Qed.

(* ---------- the sender after a T3 expiry ---------- *)

Lemma t3_shape s : same_shape (t3_step s) s.
Proof. unfold same_shape, t3_step. cbn [st_state st_cum st_front st_infl st_mtu st_mincwnd]. rewrite map_length. repeat split; reflexivity. Qed.

Lemma t3_nth s i : nth_error (st_infl (t3_step s)) i =
  option_map (fun c => if (sc_acked c || sc_aband c)%bool then c
                       else mkSC (sc_sid c) (sc_len c) (sc_acked c) (sc_aband c) (sc_miss c) true) (nth_error (st_infl s) i).
Proof. unfold t3_step. cbn [st_infl]. apply nth_error_map. Qed.

Lemma t3_Sl s K : Sl s K -> Sl (t3_step s) K.
Proof.
  intros [A B C D]. destruct (t3_shape s) as (Q1 & Q2 & Q3 & Q4 & Q5 & Q6). constructor.
  - congruence.
  - intros Hne. rewrite Q3. apply B. intros X. apply Hne. apply length_zero_iff_nil. rewrite Q4, X. reflexivity.
  - rewrite Q4. assumption.
  - rewrite Q1. assumption.
Qed.

Lemma rtx_walk_range gate : forall chunks i bytes awnd rwnd x,
  In x (rtx_walk chunks i bytes awnd rwnd gate) -> i <= x < i + Z.of_nat (length chunks).
Proof.
  induction chunks as [|c r IH]; intros i bytes awnd rwnd x H; cbn [rtx_walk] in H; [destruct H|].
  cbn [length].
  destruct (negb (sc_rtx c)); [apply IH in H; lia|].
  destruct (sc_aband c); [apply IH in H; lia|].
  destruct (if (i =? 0) && (rwnd <? sc_len c) then false else bytes + sc_len c >? awnd); [destruct H|].
  destruct (negb (gate (sc_len c))); [destruct H|].
  destruct H as [H|H]; [lia|apply IH in H; lia].
Qed.

Lemma nth_skipn {A} : forall (n : nat) (l : list A) i, nth_error (skipn n l) i = nth_error l (n + i).
Proof. induction n as [|n IH]; intros l i; [reflexivity|]. destruct l as [|a l]; [destruct i; reflexivity|]. cbn. apply IH. Qed.

(* ---------- the link invariant and one round ---------- *)

Record LInv (st : lv) (K : Z) (g : ghost) (k0 : Z) : Prop := {
  li_sl : Sl (lv_s st) K;
  li_j : J k0 (lv_q st, g);
  li_cum : K <= gK g <= K + Z.of_nat (length (st_infl (lv_s st)));
  li_sent : forall k, In k (gacc g) -> k <= K + Z.of_nat (length (st_infl (lv_s st)));
  li_acked : forall i c, nth_error (st_infl (lv_s st)) i = Some c -> sc_acked c = true -> In (K + 1 + Z.of_nat i) (gacc g);
  li_chunks : forall i c, nth_error (st_infl (lv_s st)) i = Some c -> sc_aband c = false /\ 0 <= sc_len c <= st_mtu (lv_s st);
  li_hole : ~ In (gK g + 1) (gacc g);
  li_win : 1 <= max_off (lv_q st);
  li_mtu : 0 < st_mtu (lv_s st)
}.

Theorem round_progress gate credit arwnd st K g k0 :
  LInv st K g k0 -> st_infl (lv_s st) <> [] ->
  (forall x, 0 <= x <= st_mtu (lv_s st) -> gate x = true) -> 0 < credit 0 ->
  exists st' d g', lv_round gate credit arwnd st = Some st' /\ 1 <= d /\ LInv st' (K + d) g' k0 /\
    Z.of_nat (length (st_infl (lv_s st'))) = Z.of_nat (length (st_infl (lv_s st))) - d /\
    st_mtu (lv_s st') = st_mtu (lv_s st).
Proof.
  intros [SL Jq Hcum Hsent Hack Hch Hhole Hwin Hmtu] Hne Hgate Hcr.
  destruct st as [s q]. cbn [lv_s lv_q] in *.
  set (n := Z.of_nat (length (st_infl s))) in *.
  assert (Hn : 0 <= n < B30) by (pose proof (sl_len s K SL); unfold n; lia).
  pose proof (t3_Sl s K SL) as SL1. destruct (t3_shape s) as (Q1 & Q2 & Q3 & Q4 & Q5 & Q6).
  assert (Hfront : st_front (t3_step s) = wrap32 (K + 1)) by (rewrite Q3; apply (sl_front s K SL Hne)).
  set (sel := rtx_select (t3_step s) gate).
  assert (Hsel : forall i, In i sel -> 0 <= i < n).
  { intros i Hi. unfold sel, rtx_select in Hi. apply rtx_walk_range in Hi. rewrite Q4 in Hi. unfold n. lia. }
  pose proof (inv_off q (j_inv k0 (q, g) Jq)) as [Hmo _].
  (* receiver side, with ghosts *)
  set (r1 := deliver_g credit K sel (q, g)).
  destruct (deliver_g_props k0 credit K n Hn sel (q, g) Hsel Jq Hcum Hsent) as (J1 & G1 & A1 & B1 & M1). fold r1 in J1, G1, A1, B1, M1.
  cbn [fst snd] in G1, A1, M1.
  set (r2 := pops_g (S (Z.to_nat (size (fst r1)))) r1).
  destruct (pops_g_props k0 (K + n) (S (Z.to_nat (size (fst r1)))) r1 J1) as (J2 & G2 & A2 & M2 & F2); [rewrite G1; lia|assumption|].
  fold r2 in J2, G2, A2, M2, F2.
  assert (Hend : snd (pop (fst r2) false) = false).
  { apply F2. pose proof (size_nonneg (fst r1) (j_inv k0 r1 J1)). lia. }
  assert (Hhole2 : ~ In (gK (snd r2) + 1) (gacc (snd r2))).
  { intros X. apply (j_held k0 r2 J2 1) in X; [|lia].
    apply (pop_spec (fst r2) false (j_inv k0 r2 J2)) in X. congruence. }
  (* the cumulative point has moved past the sender's ack point *)
  assert (Hd : K + 1 <= gK (snd r2)).
  { destruct (Z_le_gt_dec (K + 1) (gK g)) as [Ha|Hb]; [lia|].
    assert (EK : gK g = K) by lia.
    destruct (st_infl s) as [|c0 rest] eqn:El; [contradiction|].
    destruct (Hch 0%nat c0 eq_refl) as [Hab Hlen].
    assert (Hna : sc_acked c0 = false).
    { destruct (sc_acked c0) eqn:Ea; [|reflexivity]. exfalso. apply Hhole. rewrite EK.
      replace (K + 1) with (K + 1 + Z.of_nat 0) by (cbn; lia). apply (Hack 0%nat c0); [reflexivity|assumption]. }
    assert (H0 : In 0 sel).
    { unfold sel. set (c' := mkSC (sc_sid c0) (sc_len c0) false false (sc_miss c0) true).
      assert (E : st_infl (t3_step s) = c' :: map (fun c => if (sc_acked c || sc_aband c)%bool then c
                    else mkSC (sc_sid c) (sc_len c) (sc_acked c) (sc_aband c) (sc_miss c) true) rest).
      { unfold t3_step; cbn [st_infl]. rewrite El. cbn [map]. rewrite Hna, Hab. reflexivity. }
      apply (rtx_first_selected (t3_step s) gate c' _ E); unfold c'; cbn [sc_rtx sc_len sc_aband]; try reflexivity; try lia.
      - pose proof (set_cwnd_ge s (st_mtu s)) as [_ G]. unfold t3_step; cbn [st_cwnd]. lia.
      - apply Hgate. lia. }
    assert (Hin : In (K + 1) (gacc (snd r1))).
    { unfold r1. apply (deliver_g_lowest k0 credit K n Hn sel (q, g) Hsel Jq EK Hsent); try assumption. cbn [fst]. lia. }
    rewrite <- A2 in Hin.
    destruct (Z.eq_dec (gK (snd r2)) K) as [E2|N2]; [exfalso; apply Hhole2; rewrite E2; assumption|].
    lia. }
  set (d := gK (snd r2) - K).
  assert (Hdr : 1 <= d <= n) by (unfold d; lia).
  (* the SACK the receiver builds lies inside what is in flight *)
  pose proof (j_inv k0 r2 J2) as I2.
  assert (Ecum : cum (fst r2) = wrap32 (K + d)).
  { rewrite (j_cum k0 r2 J2). f_equal. unfold d. lia. }
  assert (Hgaps : gaps_in_range (gap_blocks (fst r2)) (Z.of_nat (length (st_infl (t3_step s))) - d)).
  { unfold gaps_in_range. apply Forall_forall. intros [b e] Hin. cbn [fst snd].
    destruct (gap_blocks_sound (fst r2) b e I2 Hin) as (L1 & L2 & L3 & L4).
    assert (He : held (fst r2) e) by (apply L4; lia).
    apply (j_held k0 r2 J2 e) in He; [|lia]. rewrite A2 in He. apply B1 in He. rewrite Q4. fold n. unfold d. lia. }
  destruct (sack_total (t3_step s) K d arwnd (gap_blocks (fst r2)) SL1) as (s2 & E2 & C2 & St2 & Mt2 & Mc2 & F2' & L2);
    [rewrite Q4; fold n; lia|assumption|].
  (* assemble the round *)
  assert (Eq2 : fst r2 = lv_pops (S (Z.to_nat (size (fold_left (fun q i => lv_recv (credit i) q (wrap32 (st_front (t3_step s) + i))) sel q))))
                        (fold_left (fun q i => lv_recv (credit i) q (wrap32 (st_front (t3_step s) + i))) sel q)).
  { unfold r2. rewrite <- (deliver_g_fst credit K (st_front (t3_step s)) Hfront sel q g). fold r1.
    destruct r1 as [q1 g1]. cbn [fst]. apply pops_g_fst. }
  exists (mkLv s2 (fst r2)), d, (snd r2). split.
  { unfold lv_round. cbn [lv_s lv_q]. fold sel. rewrite <- Eq2. rewrite Ecum, E2. reflexivity. }
  split; [lia|].
  destruct L2 as [Len2 Fl2].
  assert (Len2' : Z.of_nat (length (st_infl s2)) = n - d).
  { rewrite Len2, skipn_length, Q4. unfold n. lia. }
  split; [|cbn [lv_s]; split; [exact Len2'|congruence]].
  constructor; cbn [lv_s lv_q].
  - constructor; [assumption| intros X; rewrite (F2' X); f_equal; lia | lia | rewrite St2, Q1; apply (sl_state s K SL)].
  - destruct r2 as [q2 g2]. exact J2.
  - rewrite Len2'. unfold d. lia.
  - intros k Hk. rewrite A2 in Hk. apply B1 in Hk. rewrite Len2'. lia.
  - intros i c' Ei Ha. destruct (Fl2 i c' Ei) as (c1 & E1 & Ab1 & Fa1 & _).
    rewrite nth_skipn in E1. rewrite t3_nth in E1.
    destruct (nth_error (st_infl s) (Z.to_nat d + i)) as [c|] eqn:Ec; [|discriminate]. cbn [option_map] in E1. inversion E1 as [E1']. clear E1.
    destruct (Fa1 Ha) as [X|X].
    + assert (Hac : sc_acked c = true).
      { rewrite <- E1' in X. destruct (sc_acked c || sc_aband c)%bool eqn:Eo; [assumption|]. cbn in X. apply orb_false_iff in Eo. destruct Eo. congruence. }
      rewrite A2. apply A1. replace (K + d + 1 + Z.of_nat i) with (K + 1 + Z.of_nat (Z.to_nat d + i)) by lia.
      apply (Hack _ c); assumption.
    + destruct X as (b & e & Hin & Hr).
      destruct (gap_blocks_sound (fst r2) b e I2 Hin) as (_ & _ & _ & L4).
      assert (He : held (fst r2) (Z.of_nat i + 1)) by (apply L4; lia).
      apply (j_held k0 r2 J2) in He; [|lia].
      replace (K + d + 1 + Z.of_nat i) with (gK (snd r2) + (Z.of_nat i + 1)) by (unfold d; lia). assumption.
  - intros i c' Ei. destruct (Fl2 i c' Ei) as (c1 & E1 & Ab1 & _ & Ln1).
    rewrite nth_skipn in E1. rewrite t3_nth in E1.
    destruct (nth_error (st_infl s) (Z.to_nat d + i)) as [c|] eqn:Ec; [|discriminate]. cbn [option_map] in E1. inversion E1 as [E1']. clear E1.
    destruct (Hch _ c Ec) as [Hab Hlen].
    assert (Hc1 : sc_aband c1 = false /\ sc_len c1 = sc_len c).
    { rewrite <- E1'. destruct (sc_acked c || sc_aband c)%bool; [split; [assumption|reflexivity]|cbn; split; [assumption|reflexivity]]. }
    destruct Hc1 as [Hab1 Hl1]. rewrite Mt2, Q5. split; [congruence|]. destruct Ln1 as [X|X]; lia.
  - exact Hhole2.
  - rewrite M2, M1. assumption.
  - rewrite Mt2, Q5. assumption.
Qed.

(* ---------- iteration: the in-flight queue drains ---------- *)

Theorem drains gate credit arwnd k0 : 0 < credit 0 -> forall N st K g,
  (length (st_infl (lv_s st)) <= N)%nat -> LInv st K g k0 ->
  (forall x, 0 <= x <= st_mtu (lv_s st) -> gate x = true) ->
  exists m st' g', (m <= N)%nat /\ lv_rounds m gate credit arwnd st = Some st' /\
    LInv st' (K + Z.of_nat (length (st_infl (lv_s st)))) g' k0 /\ st_infl (lv_s st') = [].
Proof.
  intros Hcr. induction N as [|N IH]; intros st K g HN LI Hgate.
  - exists 0%nat, st, g. split; [lia|]. split; [reflexivity|].
    assert (E : st_infl (lv_s st) = []) by (apply length_zero_iff_nil; lia).
    rewrite E. cbn [length]. replace (K + Z.of_nat 0) with K by lia. split; [assumption|reflexivity].
  - destruct (st_infl (lv_s st)) as [|c r] eqn:El.
    + exists 0%nat, st, g. split; [lia|]. split; [reflexivity|]. cbn [length]. replace (K + Z.of_nat 0) with K by lia.
      split; [assumption|exact El].
    + assert (Hne : st_infl (lv_s st) <> []) by (rewrite El; discriminate).
      destruct (round_progress gate credit arwnd st K g k0 LI Hne Hgate Hcr) as (st1 & d & g1 & E1 & Hd & LI1 & Len1 & Mt1).
      destruct (IH st1 (K + d) g1) as (m & st' & g' & Hm & Em & LI' & Ee).
      * rewrite El in Len1. cbn [length] in *. lia.
      * assumption.
      * intros x Hx. apply Hgate. rewrite <- Mt1. assumption.
      * exists (S m), st', g'. split; [lia|]. split; [cbn [lv_rounds]; rewrite E1; exact Em|].
        split; [|assumption].
        replace (K + Z.of_nat (length (c :: r))) with (K + d + Z.of_nat (length (st_infl (lv_s st1)))); [assumption|].
        rewrite El in Len1. lia.
Qed.

(* ---------- the invariant holds in the worst starting point: everything that was sent has been lost ---------- *)

Lemma LInv_all_lost s K m :
  Sl s K -> 1 <= m < 2147483584 -> 0 < st_mtu s ->
  (forall i c, nth_error (st_infl s) i = Some c -> sc_acked c = false /\ sc_aband c = false /\ 0 <= sc_len c <= st_mtu s) ->
  LInv (mkLv s (fst (ginit (rpq_new m) K))) K (snd (ginit (rpq_new m) K)) K.
Proof.
  intros SL Hm Hmtu Hch. destruct (rpq_new_ok m) as (HR & Hoff & Hmo); [lia|].
  constructor; cbn [lv_s lv_q ginit fst snd gK gacc].
  - assumption.
  - apply (ginit_J (rpq_new m) K HR Hoff).
  - lia.
  - intros k [].
  - intros i c E Ha. destruct (Hch i c E) as (X & _). congruence.
  - intros i c E. destruct (Hch i c E) as (_ & X & Y). split; assumption.
  - intros [].
  - cbn [rpq_init max_off]. lia.
  - assumption.
Qed.

Theorem all_lost_drains gate credit arwnd s K m :
  Sl s K -> 1 <= m < 2147483584 -> 0 < st_mtu s ->
  (forall i c, nth_error (st_infl s) i = Some c -> sc_acked c = false /\ sc_aband c = false /\ 0 <= sc_len c <= st_mtu s) ->
  (forall x, 0 <= x <= st_mtu s -> gate x = true) -> 0 < credit 0 ->
  exists r st', (r <= length (st_infl s))%nat /\
    lv_rounds r gate credit arwnd (mkLv s (rpq_init (rpq_new m) (wrap32 K))) = Some st' /\
    st_infl (lv_s st') = [] /\ st_cum (lv_s st') = wrap32 (K + Z.of_nat (length (st_infl s))).
Proof.
  intros SL Hm Hmtu Hch Hgate Hcr.
  pose proof (LInv_all_lost s K m SL Hm Hmtu Hch) as LI. cbn [ginit fst snd] in LI.
  destruct (drains gate credit arwnd K Hcr (length (st_infl s)) (mkLv s (rpq_init (rpq_new m) (wrap32 K))) K _ (le_n _) LI Hgate) as (r & st' & g' & Hr & Er & LI' & Ee).
  exists r, st'. split; [assumption|]. split; [assumption|]. split; [assumption|].
  cbn [lv_s] in LI'. apply (sl_cum _ _ (li_sl _ _ _ _ LI')).
Qed.
