// C20 validation harness (overlay; not part of pion/sctp).  VALIDATION ONLY, not proof:
// storms of concurrent API calls on a pair of real associations over an in-memory conn, meant to
// be run under the race detector (checks/C20.py builds a -race binary in the thorough tier), plus a
// witness for the finding "user-supplied stream scheduler is called with the association lock held".
//
//	TestVerifC20Storm              prints  C20RACE-free monitors: C20STUCK / C20ORDER / C20PANIC lines, then C20STORM summary
//	TestVerifC20SchedulerReentry   prints  C20WITNESS key=calluser-under-lock:scheduler deadlock=0|1
package sctp

import (
	"context"
	"encoding/binary"
	"errors"
	"fmt"
	"io"
	"math/rand"
	"net"
	"os"
	"runtime"
	"sync"
	"sync/atomic"
	"testing"
	"time"

	"github.com/pion/logging"
)

// ---------------------------------------------------------------- in-memory packet conn

type c20Addr struct{}

func (c20Addr) Network() string { return "c20" }
func (c20Addr) String() string  { return "c20" }

type c20Timeout struct{}

func (c20Timeout) Error() string   { return "c20: i/o timeout" }
func (c20Timeout) Timeout() bool   { return true }
func (c20Timeout) Temporary() bool { return true }

type c20Conn struct {
	in     chan []byte
	peer   *c20Conn
	closed chan struct{}
	once   sync.Once
	mu     sync.Mutex
	rdl    time.Time
	kick   chan struct{}
	drop   int32 // drop 1 packet in `drop` (0 = none)
	n      uint32
}

func c20Pipe(drop int32) (*c20Conn, *c20Conn) {
	a := &c20Conn{in: make(chan []byte, 4096), closed: make(chan struct{}), kick: make(chan struct{}), drop: drop}
	b := &c20Conn{in: make(chan []byte, 4096), closed: make(chan struct{}), kick: make(chan struct{}), drop: drop}
	a.peer, b.peer = b, a
	return a, b
}

func (c *c20Conn) Read(p []byte) (int, error) {
	for {
		c.mu.Lock()
		dl := c.rdl
		kick := c.kick
		c.mu.Unlock()
		var tc <-chan time.Time
		if !dl.IsZero() {
			d := time.Until(dl)
			if d <= 0 {
				return 0, c20Timeout{}
			}
			t := time.NewTimer(d)
			defer t.Stop()
			tc = t.C
		}
		select {
		case b := <-c.in:
			return copy(p, b), nil
		case <-c.closed:
			return 0, io.EOF
		case <-kick:
		case <-tc:
		}
	}
}

func (c *c20Conn) Write(p []byte) (int, error) {
	select {
	case <-c.closed:
		return 0, io.ErrClosedPipe
	default:
	}
	if d := atomic.LoadInt32(&c.drop); d > 0 && atomic.AddUint32(&c.n, 1)%uint32(d) == 0 {
		return len(p), nil
	}
	b := make([]byte, len(p))
	copy(b, p)
	select {
	case c.peer.in <- b:
	case <-c.peer.closed:
	default: // queue full: lost
	}
	return len(p), nil
}

func (c *c20Conn) Close() error {
	c.once.Do(func() { close(c.closed) })
	return nil
}
func (c *c20Conn) LocalAddr() net.Addr  { return c20Addr{} }
func (c *c20Conn) RemoteAddr() net.Addr { return c20Addr{} }
func (c *c20Conn) SetDeadline(t time.Time) error {
	return c.SetReadDeadline(t)
}
func (c *c20Conn) SetReadDeadline(t time.Time) error {
	c.mu.Lock()
	c.rdl = t
	close(c.kick)
	c.kick = make(chan struct{})
	c.mu.Unlock()
	return nil
}
func (c *c20Conn) SetWriteDeadline(time.Time) error { return nil }

func c20Quiet() logging.LoggerFactory {
	lf := logging.NewDefaultLoggerFactory()
	lf.DefaultLogLevel = logging.LogLevelDisabled
	return lf
}

func c20Pair(blockWrite bool, drop int32, extra ...AssociationOption) (*Association, *Association, error) {
	c0, c1 := c20Pipe(drop)
	type res struct {
		a   *Association
		err error
	}
	ch0, ch1 := make(chan res, 1), make(chan res, 1)
	go func() {
		opts := []ClientOption{WithName("c20a"), WithNetConn(c0), WithLoggerFactory(c20Quiet()), WithBlockWrite(blockWrite)}
		for _, o := range extra {
			opts = append(opts, o)
		}
		a, err := ClientWithOptions(opts...)
		ch0 <- res{a, err}
	}()
	go func() {
		opts := []ServerOption{WithName("c20b"), WithNetConn(c1), WithLoggerFactory(c20Quiet()), WithBlockWrite(blockWrite)}
		for _, o := range extra {
			opts = append(opts, o)
		}
		a, err := ServerWithOptions(opts...)
		ch1 <- res{a, err}
	}()
	var r0, r1 res
	select {
	case r0 = <-ch0:
	case <-time.After(20 * time.Second):
		return nil, nil, errors.New("client handshake timed out")
	}
	select {
	case r1 = <-ch1:
	case <-time.After(20 * time.Second):
		return nil, nil, errors.New("server handshake timed out")
	}
	if r0.err != nil {
		return nil, nil, r0.err
	}
	if r1.err != nil {
		return nil, nil, r1.err
	}
	return r0.a, r1.a, nil
}

// ---------------------------------------------------------------- the storm

type c20Stats struct {
	writes, writeErrs, reads, readTimeouts, callbacks, apiCalls, order, stuck, panics int64
}

// message = stream(2) writer(2) seq(4) padding
func c20Msg(sid uint16, w uint16, seq uint32, n int) []byte {
	if n < 8 {
		n = 8
	}
	b := make([]byte, n)
	binary.BigEndian.PutUint16(b[0:], sid)
	binary.BigEndian.PutUint16(b[2:], w)
	binary.BigEndian.PutUint32(b[4:], seq)
	return b
}

func c20Guard(st *c20Stats, what string) {
	if r := recover(); r != nil {
		atomic.AddInt64(&st.panics, 1)
		buf := make([]byte, 4096)
		buf = buf[:runtime.Stack(buf, false)]
		fmt.Printf("C20PANIC in=%s value=%v stack=%q\n", what, r, string(buf))
	}
}

func c20Reader(s *Stream, monitored bool, rng *rand.Rand, st *c20Stats, stop <-chan struct{}) {
	defer c20Guard(st, "reader")
	buf := make([]byte, 70000)
	next := map[uint16]uint32{}
	for {
		if rng.Intn(4) == 0 {
			_ = s.SetReadDeadline(time.Now().Add(time.Duration(rng.Intn(20)+1) * time.Millisecond))
		} else if rng.Intn(8) == 0 {
			_ = s.SetReadDeadline(time.Time{})
		}
		n, _, err := s.ReadSCTP(buf)
		if err != nil {
			if errors.Is(err, ErrReadDeadlineExceeded) || errors.Is(err, os.ErrDeadlineExceeded) {
				atomic.AddInt64(&st.readTimeouts, 1)
				select {
				case <-stop:
					return
				default:
				}
				continue
			}
			if errors.Is(err, io.ErrShortBuffer) {
				continue
			}
			return
		}
		atomic.AddInt64(&st.reads, 1)
		if monitored && n >= 8 {
			sid := binary.BigEndian.Uint16(buf[0:])
			w := binary.BigEndian.Uint16(buf[2:])
			seq := binary.BigEndian.Uint32(buf[4:])
			if _, seen := next[w]; !seen {
				// a stream object re-created after a reset starts wherever the sender is (writes racing
				// with Close may be queued behind the reset marker): contiguity is checked per stream object
				next[w] = seq
			}
			if sid != s.StreamIdentifier() || seq != next[w] {
				atomic.AddInt64(&st.order, 1)
				fmt.Printf("C20ORDER stream=%d got_stream=%d writer=%d got_seq=%d want_seq=%d\n", s.StreamIdentifier(), sid, w, seq, next[w])
				next[w] = seq + 1
			} else {
				next[w]++
			}
		}
	}
}

func c20Writer(s *Stream, a *Association, w uint16, monitored bool, rng *rand.Rand, st *c20Stats, stop <-chan struct{}) {
	defer c20Guard(st, "writer")
	seq := uint32(0)
	for {
		select {
		case <-stop:
			return
		default:
		}
		n := 8 + rng.Intn(64)
		if rng.Intn(6) == 0 {
			n = 8 + rng.Intn(3000)
		}
		_, err := s.WriteSCTP(c20Msg(s.StreamIdentifier(), w, seq, n), PayloadTypeWebRTCBinary)
		if err != nil {
			atomic.AddInt64(&st.writeErrs, 1)
			return
		}
		seq++
		atomic.AddInt64(&st.writes, 1)
		// back-pressure so that the storm stays bounded
		for a.BufferedAmount() > 256*1024 {
			select {
			case <-stop:
				return
			case <-time.After(time.Millisecond):
			}
		}
		if rng.Intn(16) == 0 {
			runtime.Gosched()
		}
	}
}

// everything else of the API, in random order
func c20Meddler(a *Association, streams []*Stream, free map[uint16]bool, rng *rand.Rand, st *c20Stats, stop <-chan struct{}) {
	defer c20Guard(st, "meddler")
	for {
		select {
		case <-stop:
			return
		default:
		}
		s := streams[rng.Intn(len(streams))]
		atomic.AddInt64(&st.apiCalls, 1)
		switch rng.Intn(22) {
		case 0:
			_ = s.BufferedAmount()
		case 1:
			_ = s.BufferedAmountLowThreshold()
		case 2:
			s.SetBufferedAmountLowThreshold(uint64(rng.Intn(4096)))
		case 3:
			ss := s
			s.OnBufferedAmountLow(func() {
				// a callback that calls back into the stream and the association
				k := atomic.AddInt64(&st.callbacks, 1)
				_ = ss.BufferedAmount()
				ss.SetBufferedAmountLowThreshold(uint64(k%2048 + 1))
				_ = a.BufferedAmount()
				_ = ss.State()
			})
		case 4:
			if free[s.StreamIdentifier()] {
				s.SetReliabilityParams(rng.Intn(2) == 0, byte(rng.Intn(3)), uint32(rng.Intn(5)))
			}
		case 5:
			_ = s.State()
		case 6:
			_ = s.StreamIdentifier()
		case 7:
			s.SetDefaultPayloadType(PayloadTypeWebRTCBinary)
		case 8:
			_ = s.SetReadDeadline(time.Now().Add(time.Duration(rng.Intn(30)) * time.Millisecond))
		case 9:
			_ = s.SetWriteDeadline(time.Now().Add(time.Second))
		case 10:
			_ = a.BufferedAmount()
		case 11:
			_, _ = a.BytesSent(), a.BytesReceived()
		case 12:
			_, _, _, _ = a.MTU(), a.CWND(), a.RWND(), a.SRTT()
		case 13:
			_, _ = a.Metadata()
		case 14:
			a.SetMaxMessageSize(a.MaxMessageSize())
		case 15:
			a.ActiveHeartbeat()
		case 16:
			_ = s.SetDeadline(time.Now().Add(50 * time.Millisecond))
		case 17:
			if os := a.BufferedAmount(); os < 0 {
				fmt.Printf("C20ORDER negative buffered amount %d\n", os)
			}
		default:
			time.Sleep(time.Duration(rng.Intn(300)) * time.Microsecond)
		}
	}
}

func c20WaitTimeout(wg *sync.WaitGroup, d time.Duration) bool {
	done := make(chan struct{})
	go func() { wg.Wait(); close(done) }()
	select {
	case <-done:
		return true
	case <-time.After(d):
		return false
	}
}

func c20StormOnce(t *testing.T, seed int64, st *c20Stats) {
	rng := rand.New(rand.NewSource(seed))
	blockWrite := rng.Intn(3) == 0
	drop := int32(0)
	if rng.Intn(2) == 0 {
		drop = int32(20 + rng.Intn(80))
	}
	a, b, err := c20Pair(blockWrite, 0, WithEnableInterleaving(rng.Intn(2) == 0))
	if err == nil { // losses only after the handshake (T1 retransmits after 1 s of real time)
		atomic.StoreInt32(&a.netConn.(*c20Conn).drop, drop)
		atomic.StoreInt32(&b.netConn.(*c20Conn).drop, drop)
	}
	if err != nil {
		fmt.Printf("C20STUCK seed=%d phase=handshake err=%v\n", seed, err)
		atomic.AddInt64(&st.stuck, 1)
		return
	}
	nStreams := 3 + rng.Intn(6)
	stop := make(chan struct{})
	var wg sync.WaitGroup
	spawn := func(f func()) {
		wg.Add(1)
		go func() { defer wg.Done(); f() }()
	}
	// acceptor on b: every accepted stream gets a reader and an echo-less writer
	spawn(func() {
		for {
			s, err := b.AcceptStream()
			if err != nil {
				return
			}
			r := rand.New(rand.NewSource(seed*1000 + int64(s.StreamIdentifier())))
			mon := s.StreamIdentifier()%2 == 0
			spawn(func() { c20Reader(s, mon, r, st, stop) })
			r2 := rand.New(rand.NewSource(seed*1000 + 500 + int64(s.StreamIdentifier())))
			spawn(func() { c20Writer(s, b, 100, false, r2, st, stop) })
			r3 := rand.New(rand.NewSource(seed*1000 + 700 + int64(s.StreamIdentifier())))
			spawn(func() { c20Meddler(b, []*Stream{s}, map[uint16]bool{}, r3, st, stop) })
		}
	})
	var streams []*Stream
	free := map[uint16]bool{} // odd streams: reliability parameters change at random, not monitored
	for i := 0; i < nStreams; i++ {
		s, err := a.OpenStream(uint16(i), PayloadTypeWebRTCBinary)
		if err != nil {
			fmt.Printf("C20STUCK seed=%d phase=open err=%v\n", seed, err)
			atomic.AddInt64(&st.stuck, 1)
			return
		}
		streams = append(streams, s)
		free[uint16(i)] = i%2 == 1
	}
	for i, s := range streams {
		s := s
		mon := i%2 == 0
		for w := 0; w < 2; w++ {
			w := uint16(w)
			r := rand.New(rand.NewSource(seed*100 + int64(i)*10 + int64(w)))
			spawn(func() { c20Writer(s, a, w, mon, r, st, stop) })
		}
		r := rand.New(rand.NewSource(seed*100 + int64(i)*10 + 7))
		spawn(func() { c20Reader(s, false, r, st, stop) }) // reads what b's writers send
	}
	for m := 0; m < 3; m++ {
		r := rand.New(rand.NewSource(seed*100 + 90 + int64(m)))
		spawn(func() { c20Meddler(a, streams, free, r, st, stop) })
	}
	time.Sleep(time.Duration(40+rng.Intn(120)) * time.Millisecond)
	// close some streams while their writers and readers are running
	for i, s := range streams {
		if rng.Intn(3) == 0 {
			s := s
			_ = i
			spawn(func() { defer c20Guard(st, "close"); _ = s.Close() })
		}
	}
	time.Sleep(time.Duration(10+rng.Intn(40)) * time.Millisecond)
	// tear down both sides concurrently, in a random way, with everything still running
	end := func(x *Association, how int) {
		defer c20Guard(st, "teardown")
		switch how {
		case 0:
			ctx, cancel := context.WithTimeout(context.Background(), 3*time.Second)
			defer cancel()
			_ = x.Shutdown(ctx)
			_ = x.Close()
		case 1:
			_ = x.Close()
		case 2:
			x.Abort("c20 storm")
		default:
			_ = x.Close()
			_ = x.Close()
		}
	}
	ha, hb := rng.Intn(4), rng.Intn(4)
	spawn(func() { end(a, ha) })
	if rng.Intn(2) == 0 {
		spawn(func() { end(a, rng.Intn(4)) }) // two teardown calls racing on the same association
	}
	spawn(func() { end(b, hb) })
	time.Sleep(5 * time.Millisecond)
	close(stop)
	if !c20WaitTimeout(&wg, 90*time.Second) {
		atomic.AddInt64(&st.stuck, 1)
		buf := make([]byte, 1<<20)
		buf = buf[:runtime.Stack(buf, true)]
		fmt.Printf("C20STUCK seed=%d phase=teardown blockWrite=%v teardown=%d/%d goroutines=%q\n", seed, blockWrite, ha, hb, string(buf[:min(len(buf), 6000)]))
		// make sure the conns are closed so that later iterations are not disturbed
		_ = a.netConn.Close()
		_ = b.netConn.Close()
	}
}

func TestVerifC20Storm(t *testing.T) {
	seed := verifEnvInt("VERIF_SEED", 1)
	n := verifEnvInt("VERIF_N", 6)
	st := &c20Stats{}
	t0 := time.Now()
	for i := int64(0); i < n; i++ {
		c20StormOnce(t, seed*7919+i, st)
	}
	fmt.Printf("C20STORM iterations=%d writes=%d write_errs=%d reads=%d read_timeouts=%d callbacks=%d api_calls=%d order_violations=%d stuck=%d panics=%d wall_ms=%d\n",
		n, st.writes, st.writeErrs, st.reads, st.readTimeouts, st.callbacks, st.apiCalls, st.order, st.stuck, st.panics, time.Since(t0).Milliseconds())
	if st.order+st.stuck+st.panics > 0 {
		t.Fail()
	}
}

// ---------------------------------------------------------------- witness: re-entrant user scheduler

type c20Sched struct {
	inner InterleavingStreamScheduler
	assoc *atomic.Pointer[Association]
	calls *int64
}

func (s *c20Sched) Reset() { s.inner.Reset() }
func (s *c20Sched) Push(c StreamSchedulerChunk) {
	atomic.AddInt64(s.calls, 1)
	if a := s.assoc.Load(); a != nil {
		_ = a.BufferedAmount() // an exported, read-only query: needs Association.lock.RLock
	}
	s.inner.Push(c)
}
func (s *c20Sched) Peek() StreamSchedulerChunk       { return s.inner.Peek() }
func (s *c20Sched) Pop(c StreamSchedulerChunk) error { return s.inner.Pop(c) }

// A custom stream scheduler (public option WithInterleavingStreamSchedulerFactory) that asks the
// association for its buffered amount deadlocks Stream.Write: Push runs with Association.lock held.
func TestVerifC20SchedulerReentry(t *testing.T) {
	var ap atomic.Pointer[Association]
	var calls int64
	opt := WithInterleavingOptions(WithInterleavingStreamSchedulerFactory(func() InterleavingStreamScheduler {
		return &c20Sched{inner: newRoundRobinPendingQueuePolicy(), assoc: &ap, calls: &calls}
	}))
	a, b, err := c20Pair(false, 0, WithEnableInterleaving(true), opt)
	if err != nil {
		fmt.Printf("C20WITNESS key=calluser-under-lock:scheduler setup_failed=%v\n", err)
		t.Fatal(err)
	}
	ap.Store(a)
	s, err := a.OpenStream(1, PayloadTypeWebRTCBinary)
	if err != nil {
		t.Fatal(err)
	}
	done := make(chan error, 1)
	go func() {
		_, err := s.WriteSCTP([]byte("hello"), PayloadTypeWebRTCBinary)
		done <- err
	}()
	select {
	case err := <-done:
		fmt.Printf("C20WITNESS key=calluser-under-lock:scheduler deadlock=0 scheduler_calls=%d interleaving=%v write_err=%v\n",
			atomic.LoadInt64(&calls), a.useInterleaving, err)
		_ = a.Close()
		_ = b.Close()
	case <-time.After(2 * time.Second):
		fmt.Printf("C20WITNESS key=calluser-under-lock:scheduler deadlock=1 scheduler_calls=%d what=\"Stream.WriteSCTP -> sendPayloadData (Association.lock.Lock) -> pendingQueue.push -> user scheduler Push -> Association.BufferedAmount (Association.lock.RLock): never returns\"\n",
			atomic.LoadInt64(&calls))
		// the association lock is held forever by the stuck writer; nothing can be cleaned up
		_ = a.netConn.Close()
		_ = b.netConn.Close()
	}
}
