(* Weighted fair queueing (self-clocked fair queueing on virtual finish tags): tag invariants and the
   fairness / no-starvation bounds for the model coq/model/PQ.v.  Exact rationals are represented as
   integers scaled by wf_scale (a common multiple of the weights). *)
From Coq Require Import ZArith Bool List Lia Permutation.
From Coq Require Import ZifyBool.
From Sctp Require Import Gen PQ PQProofs.
Import ListNotations.
Open Scope Z_scope.

Lemma wf_phi_eq : forall w w' s, wf_w w' = wf_w w -> wf_scale w' = wf_scale w -> wf_phi w' s = wf_phi w s.
Proof. intros w w' s H1 H2. unfold wf_phi, wf_weight. rewrite H1, H2. reflexivity. Qed.

Lemma wf_fin_of_eq : forall w w' s, wf_fin w' = wf_fin w -> wf_fin_of w' s = wf_fin_of w s.
Proof. intros w w' s H. unfold wf_fin_of. rewrite H. reflexivity. Qed.

(* consecutive chunks of one stream queue: finish(next) = finish(prev) + len(next) * phi *)
Fixpoint wf_chain (phi : Z) (l : list (pchunk * Z)) : Prop :=
  match l with
  | [] => True
  | (c1, f1) :: r =>
      match r with [] => True | (c2, f2) :: _ => f2 = f1 + pc_len c2 * phi end /\ wf_chain phi r
  end.

Definition wf_last_is (l : list (pchunk * Z)) (f : Z) : Prop := exists l0 c, l = l0 ++ [(c, f)].

Lemma wf_chain_snoc : forall phi l fl c tag,
  wf_chain phi l -> wf_last_is l fl -> tag = fl + pc_len c * phi -> wf_chain phi (l ++ [(c, tag)]).
Proof.
  induction l as [|[c1 f1] r IH]; intros fl c tag Hch (l0 & cl & Hl) Htag.
  - destruct l0; discriminate.
  - cbn [wf_chain] in Hch. destruct Hch as [Hh Ht].
    destruct r as [|[c2 f2] r2].
    + destruct l0 as [|x l0]; [|destruct l0; discriminate].
      cbn [app] in Hl. inversion Hl. subst. cbn. repeat split.
    + cbn [app wf_chain]. split; [exact Hh|].
      destruct l0 as [|x l0]; [discriminate|]. cbn [app] in Hl. inversion Hl as [[Hx Hr]].
      apply (IH fl c tag Ht); [exists l0, cl; exact Hr|exact Htag].
Qed.

Lemma wf_chain_le_last : forall phi l c f fl, 0 <= phi ->
  wf_chain phi ((c, f) :: l) -> Forall (fun cf => 0 <= pc_len (fst cf)) l ->
  wf_last_is ((c, f) :: l) fl -> f <= fl.
Proof.
  induction l as [|[c2 f2] r IH]; intros c f fl Hphi Hch Hlen (l0 & cl & Hl).
  - destruct l0 as [|x l0]; [|destruct l0; discriminate]. cbn [app] in Hl. inversion Hl. lia.
  - cbn [wf_chain] in Hch. destruct Hch as [Hh Ht].
    pose proof (Forall_inv Hlen) as Hc2. pose proof (Forall_inv_tail Hlen) as Hr. cbn [fst] in Hc2.
    destruct l0 as [|x l0]; [discriminate|]. cbn [app] in Hl. inversion Hl as [[Hx Hr']].
    assert (f2 <= fl) by (apply (IH c2 f2 fl Hphi Ht Hr); exists l0, cl; exact Hr').
    assert (0 <= pc_len c2 * phi) by (apply Z.mul_nonneg_nonneg; assumption). lia.
Qed.

Lemma wf_last_is_tail : forall x l f, l <> [] -> wf_last_is (x :: l) f -> wf_last_is l f.
Proof.
  intros x l f Hne (l0 & cl & Hl). destruct l0 as [|y l0].
  - cbn [app] in Hl. inversion Hl. subst. contradiction.
  - cbn [app] in Hl. inversion Hl. exists l0, cl. reflexivity.
Qed.

Lemma wf_last_is_single : forall x f c, wf_last_is [x] f -> x = (c, f) \/ snd x = f.
Proof.
  intros x f c (l0 & cl & Hl). destruct l0 as [|y l0]; [|destruct l0; discriminate].
  cbn [app] in Hl. inversion Hl. right. reflexivity.
Qed.

Definition svc (s : Z) (T : list pchunk) : Z := sum_len (filter (on_stream s) T).

Lemma svc_app : forall s a b, svc s (a ++ b) = svc s a + svc s b.
Proof. intros. unfold svc. rewrite filter_app, sum_len_app. reflexivity. Qed.

(* virtual start tag of the head chunk of stream s (or the start tag its next chunk would get) *)
Definition wf_start (w : wfq) (s : Z) : Z :=
  match al_get s (wf_qs w) with
  | Some ((c, f) :: _) => f - pc_len c * wf_phi w s
  | _ => Z.max (wf_vt w) (wf_fin_of w s)
  end.

Section WFQ.
Variable Lmax : Z -> Z.
Hypothesis Lmax_nonneg : forall s, 0 <= Lmax s.

Definition wf_tinv3 (w : wfq) : Prop :=
  (forall s, 0 <= wf_phi w s) /\
  (forall s l, al_get s (wf_qs w) = Some l ->
      Forall (fun cf => 0 <= pc_len (fst cf) <= Lmax s) l /\
      wf_chain (wf_phi w s) l /\
      (match l with
       | (c, f) :: _ => f - pc_len c * wf_phi w s <= wf_vt w /\ wf_vt w <= f
       | [] => True
       end) /\
      wf_last_is l (wf_fin_of w s)) /\
  (forall s, al_get s (wf_qs w) = None -> wf_fin_of w s <= wf_vt w).

(* while a selection is held the virtual time is the finish tag of the selected head chunk *)
Definition wf_tsel (w : wfq) : Prop :=
  wf_sel w = true -> exists c l, al_get (wf_selsid w) (wf_qs w) = Some ((c, wf_vt w) :: l).

Definition wf_tinv (w : wfq) : Prop := wf_tinv3 w /\ wf_tsel w.

Lemma wf_tinv3_ext : forall w w',
  wf_qs w' = wf_qs w -> wf_fin w' = wf_fin w -> wf_vt w' = wf_vt w -> wf_w w' = wf_w w -> wf_scale w' = wf_scale w ->
  wf_tinv3 w -> wf_tinv3 w'.
Proof.
  intros [q f ws sc vt sl ss] [q' f' ws' sc' vt' sl' ss']. cbn [wf_qs wf_fin wf_vt wf_w wf_scale].
  intros -> -> -> -> -> H. exact H.
Qed.

Lemma wf_start_ext : forall w w' s,
  wf_qs w' = wf_qs w -> wf_fin w' = wf_fin w -> wf_vt w' = wf_vt w -> wf_w w' = wf_w w -> wf_scale w' = wf_scale w ->
  wf_start w' s = wf_start w s.
Proof.
  intros [q f ws sc vt sl ss] [q' f' ws' sc' vt' sl' ss'] s. cbn [wf_qs wf_fin wf_vt wf_w wf_scale].
  intros -> -> -> -> ->. reflexivity.
Qed.

(* bounds on the start tag *)
Lemma wf_start_le_vt : forall w s, wf_sinv w -> wf_tinv3 w -> wf_start w s <= wf_vt w.
Proof.
  intros w s (_ & Hq & _) (_ & Ht & Hn). unfold wf_start.
  destruct (al_get s (wf_qs w)) as [l|] eqn:G.
  - destruct (Hq _ _ G) as [Hne _]. destruct l as [|[c f] l]; [contradiction|].
    destruct (Ht _ _ G) as (_ & _ & [H _] & _). exact H.
  - specialize (Hn _ G). lia.
Qed.

Lemma wf_start_ge : forall w s, wf_sinv w -> wf_tinv3 w -> wf_vt w - Lmax s * wf_phi w s <= wf_start w s.
Proof.
  intros w s (_ & Hq & _) (Hphi & Ht & Hn). unfold wf_start.
  assert (0 <= Lmax s * wf_phi w s) by (apply Z.mul_nonneg_nonneg; [apply Lmax_nonneg|apply Hphi]).
  destruct (al_get s (wf_qs w)) as [l|] eqn:G.
  - destruct l as [|[c f] l]; [lia|].
    destruct (Ht _ _ G) as (Hall & _ & [_ H2] & _). pose proof (Forall_inv Hall) as Hc. cbn [fst] in Hc.
    assert (pc_len c * wf_phi w s <= Lmax s * wf_phi w s) by (apply Z.mul_le_mono_nonneg_r; [apply Hphi|lia]).
    lia.
  - lia.
Qed.

(* ---------- push ---------- *)
Lemma wf_push_tinv : forall w c, wf_sinv w -> wf_tinv w ->
  0 <= pc_len c <= Lmax (pc_sid c) ->
  wf_tinv (wf_push w c) /\ (forall s, wf_start (wf_push w c) s = wf_start w s) /\ wf_vt (wf_push w c) = wf_vt w.
Proof.
  intros w c Hs [(Hphi & Ht & Hn) Hsel] Hlen.
  pose proof (wf_push_sinv w c Hs) as H. cbv zeta in H.
  destruct H as (Hs' & _ & _ & Hoth & Hget & Hfin & Hfino & Hvt & Hsel' & Hselsid' & Hw & Hsc & _).
  set (w' := wf_push w c) in *. set (s0 := pc_sid c) in *.
  set (tag := Z.max (wf_vt w) (wf_fin_of w s0) + pc_len c * wf_phi w s0) in *.
  assert (Hphieq : forall s, wf_phi w' s = wf_phi w s) by (intros; apply wf_phi_eq; assumption).
  assert (Hmul : 0 <= pc_len c * wf_phi w s0) by (apply Z.mul_nonneg_nonneg; [lia|apply Hphi]).
  destruct Hs as (_ & Hq & _).
  repeat apply conj.
  - intros s. rewrite Hphieq. apply Hphi.
  - intros s l G. rewrite Hphieq, Hvt. destruct (Z.eq_dec s s0) as [->|Hne].
    + rewrite Hget in G. injection G as <-. rewrite Hfin. unfold wf_q.
      destruct (al_get s0 (wf_qs w)) as [l0|] eqn:G0.
      * destruct (Hq _ _ G0) as [Hne0 _]. destruct (Ht _ _ G0) as (Hall & Hch & Hhd & Hlast).
        destruct l0 as [|[c0 f0] l0']; [contradiction|].
        assert (Hle : f0 <= wf_fin_of w s0).
        { eapply wf_chain_le_last; [apply Hphi|exact Hch| |exact Hlast].
          pose proof (Forall_inv_tail Hall) as Hr. eapply Forall_impl; [|exact Hr]. intros cf Hx; cbv beta in *. lia. }
        destruct Hhd as [Hh1 Hh2].
        assert (Htag : tag = wf_fin_of w s0 + pc_len c * wf_phi w s0) by (unfold tag; lia).
        split; [|split; [|split; [split|]]].
        -- apply Forall_app. split; [exact Hall|constructor; [exact Hlen|constructor]].
        -- eapply wf_chain_snoc; [exact Hch|exact Hlast|exact Htag].
        -- exact Hh1.
        -- exact Hh2.
        -- exists ((c0, f0) :: l0'), c. reflexivity.
      * specialize (Hn _ G0). cbn [app]. split; [|split; [|split; [split|]]].
        -- constructor; [exact Hlen|constructor].
        -- cbn. split; exact I.
        -- unfold tag. lia.
        -- unfold tag. lia.
        -- exists [], c. reflexivity.
    + rewrite Hoth in G by exact Hne. rewrite Hfino by exact Hne. apply Ht. exact G.
  - intros s G. rewrite Hvt. destruct (Z.eq_dec s s0) as [->|Hne].
    + rewrite Hget in G. discriminate.
    + rewrite Hoth in G by exact Hne. rewrite Hfino by exact Hne. apply Hn. exact G.
  - intros H. rewrite Hsel' in H. destruct (Hsel H) as (c1 & l1 & G1). rewrite Hselsid', Hvt.
    destruct (Z.eq_dec (wf_selsid w) s0) as [He|Hne].
    + rewrite He in *. rewrite Hget. unfold wf_q. rewrite G1. exists c1, (l1 ++ [(c, tag)]). reflexivity.
    + rewrite Hoth by exact Hne. exists c1, l1. exact G1.
  - intros s. unfold wf_start. rewrite Hphieq, Hvt. destruct (Z.eq_dec s s0) as [->|Hne].
    + rewrite Hget, Hfin. unfold wf_q.
      destruct (al_get s0 (wf_qs w)) as [l0|] eqn:G0.
      * destruct (Hq _ _ G0) as [Hne0 _]. destruct l0 as [|[c0 f0] l0']; [contradiction|]. reflexivity.
      * cbn [app]. specialize (Hn _ G0). unfold tag. lia.
    + rewrite Hoth by exact Hne. rewrite Hfino by exact Hne. reflexivity.
  - exact Hvt.
Qed.

Lemma wf_push_fold_tinv : forall x w, wf_sinv w -> wf_tinv w ->
  Forall (fun c => 0 <= pc_len c <= Lmax (pc_sid c)) x ->
  let w' := fold_left wf_push x w in
  wf_sinv w' /\ wf_tinv w' /\ (forall s, wf_start w' s = wf_start w s) /\ wf_vt w' = wf_vt w /\
  wf_w w' = wf_w w /\ wf_scale w' = wf_scale w.
Proof.
  induction x as [|c t IH]; intros w Hs Ht Hall; cbn [fold_left]; cbv zeta.
  - split; [exact Hs|]. split; [exact Ht|]. repeat split; reflexivity.
  - pose proof (Forall_inv Hall) as Hc. pose proof (Forall_inv_tail Hall) as Hr. cbv beta in Hc.
    destruct (wf_push_tinv w c Hs Ht Hc) as (Ht1 & Hst1 & Hvt1).
    pose proof (wf_push_sinv w c Hs) as H. cbv zeta in H.
    destruct H as (Hs1 & _ & _ & _ & _ & _ & _ & _ & _ & _ & Hw1 & Hsc1 & _).
    destruct (IH _ Hs1 Ht1 Hr) as (Hs2 & Ht2 & Hst2 & Hvt2 & Hw2 & Hsc2).
    split; [exact Hs2|]. split; [exact Ht2|]. repeat split.
    + intros s. rewrite Hst2. apply Hst1.
    + rewrite Hvt2. exact Hvt1.
    + rewrite Hw2. exact Hw1.
    + rewrite Hsc2. exact Hsc1.
Qed.

(* ---------- peek ---------- *)
Lemma wf_peek_tinv : forall w, wf_sinv w -> wf_tinv w ->
  wf_tinv (fst (wf_peek w)) /\ wf_vt w <= wf_vt (fst (wf_peek w)) /\
  (forall s, wf_start w s <= wf_start (fst (wf_peek w)) s /\
             (al_get s (wf_qs w) <> None -> wf_start (fst (wf_peek w)) s = wf_start w s)).
Proof.
  intros w Hs [Ht3 Hsel].
  destruct (wf_sel w) eqn:Es.
  - unfold wf_peek. rewrite Es. cbn [fst]. split; [split; assumption|]. split; [lia|].
    intros s. split; [lia|intros _; reflexivity].
  - pose proof Hs as (Hsrt & Hq & _). destruct Ht3 as (Hphi & Ht & Hn). unfold wf_peek. rewrite Es.
    pose proof (wf_scan_spec (wf_qs w) None) as Hsp.
    destruct (wf_scan (wf_qs w) None) as [[[c s0] f]|]; cbn [fst].
    + destruct Hsp as ([H|[l H]] & _ & Hmin); [discriminate|].
      assert (G : al_get s0 (wf_qs w) = Some ((c, f) :: l)) by (apply al_in_get; assumption).
      destruct (Ht _ _ G) as (_ & _ & [_ Hvf] & _).
      assert (Hmax : Z.max (wf_vt w) f = f) by lia. rewrite Hmax.
      set (w' := mkWfq (wf_qs w) (wf_fin w) (wf_w w) (wf_scale w) f true s0).
      assert (Hphieq : forall s, wf_phi w' s = wf_phi w s) by (intros; apply wf_phi_eq; reflexivity).
      assert (Hfineq : forall s, wf_fin_of w' s = wf_fin_of w s) by (intros; apply wf_fin_of_eq; reflexivity).
      split; [split; [split; [|split]|]|split].
      * intros s. rewrite Hphieq. apply Hphi.
      * intros s l1 G1. rewrite Hphieq, Hfineq. cbn [wf_qs wf_vt w'] in *.
        destruct (Ht _ _ G1) as (Ha & Hb & Hc & Hd).
        split; [exact Ha|]. split; [exact Hb|]. split; [|exact Hd].
        destruct l1 as [|[c1 f1] l1']; [exact I|]. destruct Hc as [Hc1 Hc2].
        apply al_get_in in G1. pose proof (Hmin _ _ _ _ G1) as Hle. unfold lexle in Hle. split; lia.
      * intros s G1. rewrite Hfineq. cbn [wf_qs wf_vt w'] in *. specialize (Hn _ G1). lia.
      * unfold wf_tsel. cbn [wf_sel wf_selsid wf_qs wf_vt w']. intros _. exists c, l. exact G.
      * cbn [wf_vt w']. lia.
      * intros s. unfold wf_start. rewrite Hphieq, Hfineq. cbn [wf_qs wf_vt w'].
        destruct (al_get s (wf_qs w)) as [l1|] eqn:G1.
        -- destruct (Hq _ _ G1) as [Hne1 _]. destruct l1 as [|[c1 f1] l1']; [contradiction|]. split; [lia|intros _; reflexivity].
        -- split; [lia|intros Hx; contradiction].
    + split; [split; [split; [exact Hphi|split; [exact Ht|exact Hn]]|exact Hsel]|]. split; [lia|].
      intros s. split; [lia|intros _; reflexivity].
Qed.

(* ---------- pop ---------- *)
Lemma wf_pop_tinv : forall w, wf_sinv w -> wf_tinv w ->
  let w' := fst (wf_step w PO_pop) in
  let o := snd (wf_step w PO_pop) in
  wf_tinv w' /\ wf_vt w <= wf_vt w' /\
  forall s, wf_start w s + svc s o * wf_phi w s <= wf_start w' s /\
            (al_get s (wf_qs w) <> None -> wf_start w' s = wf_start w s + svc s o * wf_phi w s).
Proof.
  intros w Hs [(Hphi & Ht & Hn) Hsel]. pose proof (wf_pop_step w Hs) as H. cbv zeta in H. cbv zeta.
  destruct H as [(-> & -> & _ & _)|(s0 & c & f & l & G & -> & Hc & Hst & Hmin0 & G' & Hoth & Hvt & Hfin & Hw & Hsc & Hsel' & Hs' & _)].
  - split; [split; [split; [exact Hphi|split; [exact Ht|exact Hn]]|exact Hsel]|]. split; [lia|].
    intros s. unfold svc. cbn [filter sum_len fold_right]. split; [lia|intros _; lia].
  - set (w' := fst (wf_step w PO_pop)) in *.
    assert (Hphieq : forall s, wf_phi w' s = wf_phi w s) by (intros; apply wf_phi_eq; assumption).
    assert (Hfineq : forall s, wf_fin_of w' s = wf_fin_of w s) by (intros; apply wf_fin_of_eq; assumption).
    (* f is the minimum of the head tags *)
    assert (Hmin : forall s' c' f' l', al_get s' (wf_qs w) = Some ((c', f') :: l') -> f <= f').
    { destruct (wf_sel w) eqn:Es.
      - destruct (Hsel Es) as (c1 & l1 & G1). rewrite <- (Hst eq_refl) in G1.
        rewrite G in G1. injection G1 as _ Hf _.
        intros s' c' f' l' G2. destruct (Ht _ _ G2) as (_ & _ & [_ Hx] & _). lia.
      - intros s' c' f' l' G1. specialize (Hmin0 eq_refl _ _ _ _ G1). unfold lexle in Hmin0. lia. }
    destruct (Ht _ _ G) as (Hall & Hch & [Hh1 Hh2] & Hlast).
    assert (Hvt' : wf_vt w' = f) by (rewrite Hvt; lia).
    destruct Hs as (_ & Hq & _).
    split; [split; [repeat apply conj|]|split].
    + intros s. rewrite Hphieq. apply Hphi.
    + intros s l1 G1. rewrite Hphieq, Hfineq, Hvt'. destruct (Z.eq_dec s s0) as [->|Hne].
      * rewrite G' in G1. destruct l as [|[c2 f2] l2]; [discriminate|]. injection G1 as <-.
        pose proof (Forall_inv_tail Hall) as Hr. cbn [wf_chain] in Hch. destruct Hch as [Hlink Hch2].
        pose proof (Forall_inv Hr) as Hc2. cbn [fst] in Hc2.
        assert (0 <= pc_len c2 * wf_phi w s0) by (apply Z.mul_nonneg_nonneg; [lia|apply Hphi]).
        split; [exact Hr|]. split; [exact Hch2|]. split; [split; lia|].
        apply (wf_last_is_tail (c, f)); [discriminate|exact Hlast].
      * rewrite Hoth in G1 by exact Hne. destruct (Ht _ _ G1) as (Ha & Hb & Hc1 & Hd).
        split; [exact Ha|]. split; [exact Hb|]. split; [|exact Hd].
        destruct l1 as [|[c1 f1] l1']; [exact I|]. destruct Hc1 as [Hc1a Hc1b].
        pose proof (Hmin _ _ _ _ G1). split; lia.
    + intros s G1. rewrite Hfineq, Hvt'. destruct (Z.eq_dec s s0) as [->|Hne].
      * rewrite G' in G1. destruct l; [|discriminate].
        destruct Hlast as (l0 & cl & Hl). destruct l0 as [|y l0]; [|destruct l0; discriminate].
        cbn [app] in Hl. inversion Hl. lia.
      * rewrite Hoth in G1 by exact Hne. specialize (Hn _ G1). lia.
    + unfold wf_tsel. rewrite Hsel'. discriminate.
    + lia.
    + intros s. unfold wf_start. rewrite Hphieq, Hfineq, Hvt'. unfold svc. cbn [filter]. unfold on_stream at 1 2.
      destruct (Z.eq_dec s s0) as [->|Hne].
      * replace (pc_sid c =? s0) with true by lia. cbn [sum_len fold_right]. rewrite G, G'.
        destruct l as [|[c2 f2] l2].
        -- assert (wf_fin_of w s0 = f).
           { destruct Hlast as (l0 & cl & Hl). destruct l0 as [|y l0]; [|destruct l0; discriminate].
             cbn [app] in Hl. inversion Hl. reflexivity. }
           split; [lia|intros _; lia].
        -- cbn [wf_chain] in Hch. destruct Hch as [Hlink _]. split; [lia|intros _; lia].
      * replace (pc_sid c =? s) with false by lia. cbn [sum_len fold_right]. rewrite Hoth by exact Hne.
        destruct (al_get s (wf_qs w)) as [l1|] eqn:G1.
        -- destruct (Hq _ _ G1) as [Hne1 _]. destruct l1 as [|[c1 f1] l1']; [contradiction|]. split; [lia|intros _; lia].
        -- split; [lia|intros Hx; contradiction].
Qed.

(* ---------- one step, runs ---------- *)
Definition op_lens_ok (op : pq_op) : Prop :=
  match op with PO_push x => Forall (fun c => pc_len c <= Lmax (pc_sid c)) x | _ => True end.

Lemma wf_step_tinv : forall w op, wf_sinv w -> wf_tinv w -> op_ok op = true -> op_lens_ok op ->
  let w' := fst (wf_step w op) in
  let o := snd (wf_step w op) in
  wf_sinv w' /\ wf_tinv w' /\ wf_vt w <= wf_vt w' /\ wf_w w' = wf_w w /\ wf_scale w' = wf_scale w /\
  forall s, wf_start w s + svc s o * wf_phi w s <= wf_start w' s /\
            (al_get s (wf_qs w) <> None -> wf_start w' s = wf_start w s + svc s o * wf_phi w s).
Proof.
  intros w op Hs Ht Hok Hl. cbv zeta.
  assert (Hsinv' : wf_sinv (fst (wf_step w op))).
  { pose proof (pol_step_perm (PP_wfq w) op Hs Hok) as H. cbv zeta in H. rewrite pol_step_wfq in H. cbn [fst pol_inv] in H. apply H. }
  split; [exact Hsinv'|].
  destruct op as [x| | |b].
  - cbn [op_ok] in Hok. cbn [op_lens_ok] in Hl.
    assert (Hall : Forall (fun c => 0 <= pc_len c <= Lmax (pc_sid c)) x).
    { pose proof (msg_ok_all x Hok) as H0. rewrite Forall_forall in *. intros c Hc.
      destruct (H0 c Hc) as (_ & _ & H1). specialize (Hl c Hc). lia. }
    pose proof (wf_push_fold_tinv x w Hs Ht Hall) as H. cbv zeta in H.
    destruct H as (_ & Ht' & Hst & Hvt & Hw & Hsc). cbn [wf_step fst snd].
    split; [exact Ht'|]. split; [lia|]. split; [exact Hw|]. split; [exact Hsc|].
    intros s. unfold svc. cbn [filter sum_len fold_right]. rewrite Hst. split; [lia|intros _; lia].
  - cbn [wf_step fst snd]. destruct (wf_peek_tinv w Hs Ht) as (Ht' & Hvt & Hst).
    pose proof (wf_peek_keeps w) as H. cbv zeta in H. destruct H as (_ & _ & _ & H4 & H5 & _).
    split; [exact Ht'|]. split; [exact Hvt|]. split; [exact H4|]. split; [exact H5|].
    intros s. unfold svc. cbn [filter sum_len fold_right]. destruct (Hst s) as [Ha Hb].
    split; [lia|intros Hx; rewrite (Hb Hx); lia].
  - pose proof (wf_pop_tinv w Hs Ht) as H. cbv zeta in H. destruct H as (Ht' & Hvt & Hst).
    pose proof (wf_pop_step w Hs) as H. cbv zeta in H.
    assert (Hws : wf_w (fst (wf_step w PO_pop)) = wf_w w /\ wf_scale (fst (wf_step w PO_pop)) = wf_scale w).
    { destruct H as [(_ & -> & _)|(s0 & c & f & l & _ & _ & _ & _ & _ & _ & _ & _ & _ & Hw & Hsc & _)]; split; try reflexivity; assumption. }
    destruct Hws as [Hw Hsc]. split; [exact Ht'|]. split; [exact Hvt|]. split; [exact Hw|]. split; [exact Hsc|exact Hst].
  - cbn [wf_step fst snd]. split; [exact Ht|]. split; [lia|]. split; [reflexivity|]. split; [reflexivity|].
    intros s. unfold svc. cbn [filter sum_len fold_right]. split; [lia|intros _; lia].
Qed.

(* stream s has a queued chunk in every state of the run *)
Fixpoint wf_backlogged (s : Z) (w : wfq) (ops : list pq_op) : Prop :=
  al_get s (wf_qs w) <> None /\
  match ops with
  | [] => True
  | op :: r => wf_backlogged s (fst (wf_step w op)) r
  end.

Lemma wf_backlogged_head : forall s w ops, wf_backlogged s w ops -> al_get s (wf_qs w) <> None.
Proof. intros s w [|op r] H; cbn [wf_backlogged] in H; apply H. Qed.

Lemma wf_run_track : forall ops w, wf_sinv w -> wf_tinv w ->
  forallb op_ok ops = true -> Forall op_lens_ok ops ->
  let w' := fst (run_gen wf_step w ops) in
  let T := snd (run_gen wf_step w ops) in
  wf_sinv w' /\ wf_tinv w' /\ wf_vt w <= wf_vt w' /\ wf_w w' = wf_w w /\ wf_scale w' = wf_scale w /\
  forall s, wf_start w s + svc s T * wf_phi w s <= wf_start w' s /\
            (wf_backlogged s w ops -> wf_start w' s = wf_start w s + svc s T * wf_phi w s).
Proof.
  induction ops as [|op r IH]; intros w Hs Ht Hok Hl; cbn [run_gen wf_backlogged]; cbv zeta.
  - cbn [fst snd]. split; [exact Hs|]. split; [exact Ht|]. split; [lia|]. split; [reflexivity|]. split; [reflexivity|].
    intros s. unfold svc. cbn [filter sum_len fold_right]. split; [lia|intros _; lia].
  - cbn [forallb] in Hok. apply andb_prop in Hok. destruct Hok as [Hok1 Hok2].
    pose proof (Forall_inv Hl) as Hl1. pose proof (Forall_inv_tail Hl) as Hl2.
    pose proof (wf_step_tinv w op Hs Ht Hok1 Hl1) as H. cbv zeta in H.
    destruct H as (Hs1 & Ht1 & Hvt1 & Hw1 & Hsc1 & Hst1).
    destruct (wf_step w op) as [w1 o1]. cbn [fst snd] in *.
    pose proof (IH w1 Hs1 Ht1 Hok2 Hl2) as H. cbv zeta in H.
    destruct H as (Hs2 & Ht2 & Hvt2 & Hw2 & Hsc2 & Hst2).
    destruct (run_gen wf_step w1 r) as [w2 o2]. cbn [fst snd] in *.
    split; [exact Hs2|]. split; [exact Ht2|]. split; [lia|]. split; [congruence|]. split; [congruence|].
    intros s. rewrite svc_app.
    assert (Hp : wf_phi w1 s = wf_phi w s) by (apply wf_phi_eq; assumption).
    destruct (Hst1 s) as [Ha1 Hb1]. destruct (Hst2 s) as [Ha2 Hb2]. rewrite Hp in *.
    split; [lia|]. intros [Hb0 Hbr].
    rewrite (Hb2 Hbr), (Hb1 Hb0). lia.
Qed.

(* Fairness of the tags: a stream i that is backlogged throughout a run never falls behind any other
   stream k by more than one maximum-size chunk of each, in scaled units (phi = scale / weight). *)
Lemma wf_fair_phi : forall ops w i k, wf_sinv w -> wf_tinv w ->
  forallb op_ok ops = true -> Forall op_lens_ok ops ->
  wf_backlogged i w ops ->
  let T := snd (run_gen wf_step w ops) in
  svc k T * wf_phi w k - svc i T * wf_phi w i <= Lmax k * wf_phi w k + Lmax i * wf_phi w i.
Proof.
  intros ops w i k Hs Ht Hok Hl Hb. cbv zeta.
  pose proof (wf_run_track ops w Hs Ht Hok Hl) as H. cbv zeta in H.
  destruct H as (Hs' & [Ht3' _] & Hvt & Hw & Hsc & Hst).
  destruct (Hst k) as [Hk _]. destruct (Hst i) as [_ Hi]. specialize (Hi Hb).
  destruct Ht as [Ht3 _].
  pose proof (wf_start_le_vt _ k Hs' Ht3') as U1.
  pose proof (wf_start_ge w k Hs Ht3) as U2.
  pose proof (wf_start_ge _ i Hs' Ht3') as L1.
  pose proof (wf_start_le_vt w i Hs Ht3) as L2.
  rewrite (wf_phi_eq w _ i Hw Hsc) in L1.
  lia.
Qed.

End WFQ.

(* ---------- weights: phi * weight = scale ---------- *)
Lemma wf_copy_weights_pos : forall ws, Forall (fun sw => 0 <= snd sw) ws ->
  Forall (fun sw => 0 < snd sw) (wf_copy_weights ws).
Proof.
  induction ws as [|[s x] r IH]; intros H; cbn [wf_copy_weights]; [constructor|].
  pose proof (Forall_inv H) as Hx. pose proof (Forall_inv_tail H) as Hr. cbn [snd] in Hx.
  destruct (x =? 0) eqn:E; [apply IH; exact Hr|].
  rewrite Forall_forall. intros [k v] Hin. cbn [snd].
  destruct (al_in_set _ _ _ _ _ Hin) as [[_ ->]|Hin']; [lia|].
  specialize (IH Hr). rewrite Forall_forall in IH. apply (IH _ Hin').
Qed.

Lemma wf_lcm_all_spec : forall cw, Forall (fun sw => 0 < snd sw) cw ->
  0 < wf_lcm_all cw /\ forall s x, In (s, x) cw -> (x | wf_lcm_all cw).
Proof.
  induction cw as [|[s0 x0] r IH]; intros H; cbn [wf_lcm_all fold_right snd].
  - split; [lia|intros ? ? []].
  - pose proof (Forall_inv H) as Hx. pose proof (Forall_inv_tail H) as Hr. cbn [snd] in Hx.
    destruct (IH Hr) as [Hpos Hdiv]. fold (wf_lcm_all r).
    split.
    + pose proof (Z.lcm_nonneg x0 (wf_lcm_all r)).
      assert (Z.lcm x0 (wf_lcm_all r) <> 0) by (rewrite Z.lcm_eq_0; lia). lia.
    + intros s x [Hin|Hin].
      * inversion Hin. subst. apply Z.divide_lcm_l.
      * eapply Z.divide_trans; [apply (Hdiv _ _ Hin)|apply Z.divide_lcm_r].
Qed.

Lemma wf_new_weights : forall ws, Forall (fun sw => 0 <= snd sw) ws ->
  let w := wf_new ws in
  0 < wf_scale w /\ forall s, 0 < wf_weight w s /\ wf_phi w s * wf_weight w s = wf_scale w /\ 0 <= wf_phi w s.
Proof.
  intros ws H. cbv zeta. pose proof (wf_copy_weights_pos ws H) as Hpos.
  destruct (wf_lcm_all_spec _ Hpos) as [Hsc Hdiv].
  unfold wf_new, wf_phi, wf_weight. cbn [wf_scale wf_w]. split; [exact Hsc|].
  intros s. destruct (al_get s (wf_copy_weights ws)) as [x|] eqn:G.
  - apply al_get_in in G. rewrite Forall_forall in Hpos. pose proof (Hpos _ G) as Hx. cbn [snd] in Hx.
    replace (x =? 0) with false by lia. destruct (Hdiv _ _ G) as [k Hk].
    split; [exact Hx|]. rewrite Hk. rewrite Z.div_mul by lia. split; [reflexivity|].
    assert (0 < k * x) by lia. nia.
  - split; [lia|]. rewrite Z.div_1_r. split; lia.
Qed.

Lemma wf_tinv_new : forall Lmax ws, Forall (fun sw => 0 <= snd sw) ws -> wf_tinv Lmax (wf_new ws).
Proof.
  intros Lmax ws H. destruct (wf_new_weights ws H) as [_ Hw]. cbv zeta in Hw.
  split; [split; [|split]|].
  - intros s. apply Hw.
  - intros s l G. cbn in G. discriminate.
  - intros s _. cbn. lia.
  - intros Hs. cbn in Hs. discriminate.
Qed.

(* ---------- lifting to the pendingQueue ---------- *)
(* the sub-queue k (stream k under a scheduler) is non-empty in every state of the run *)
Fixpoint pq_backlogged (k : Z) (q : pq) (ops : list pq_op) : Prop :=
  pol_subq (pq_pol q) k <> [] /\
  match ops with
  | [] => True
  | op :: r => pq_backlogged k (fst (pq_step q op)) r
  end.

Definition pq_weight (ws : list (Z * Z)) (s : Z) : Z := wf_weight (wf_new ws) s.

Lemma pq_step_wfq : forall q w op, pq_pol q = PP_wfq w -> no_setil op = true ->
  pq_pol (fst (pq_step q op)) = PP_wfq (fst (wf_step w op)).
Proof.
  intros q w op Hp Hn. destruct (pq_step_pol q op Hn) as [H _]. rewrite H, Hp, pol_step_wfq. reflexivity.
Qed.

Lemma pq_backlogged_wfq : forall ops q w k, pq_pol q = PP_wfq w -> forallb no_setil ops = true ->
  pq_backlogged k q ops -> wf_backlogged k w ops.
Proof.
  induction ops as [|op r IH]; intros q w k Hp Hns H.
  - cbn [pq_backlogged wf_backlogged] in *. destruct H as [H _]. split; [|exact I].
    rewrite Hp in H. cbn [pol_subq] in H. unfold wf_q in H. destruct (al_get k (wf_qs w)); [discriminate|]. contradiction.
  - cbn [pq_backlogged wf_backlogged] in *. cbn [forallb] in Hns. apply andb_prop in Hns. destruct Hns as [Hn1 Hn2].
    destruct H as [H1 H2]. split.
    + rewrite Hp in H1. cbn [pol_subq] in H1. unfold wf_q in H1. destruct (al_get k (wf_qs w)); [discriminate|]. contradiction.
    + apply (IH (fst (pq_step q op))); [apply pq_step_wfq; assumption|exact Hn2|exact H2].
Qed.

Lemma pq_run_wfq : forall ops q w, pq_pol q = PP_wfq w -> forallb no_setil ops = true ->
  pq_pol (fst (pq_run q ops)) = PP_wfq (fst (run_gen wf_step w ops)) /\
  snd (pq_run q ops) = snd (run_gen wf_step w ops).
Proof.
  intros ops q w Hp Hns. destruct (pq_run_pol ops q Hns) as [H1 H2]. rewrite H1, H2, Hp, pol_run_wfq. split; reflexivity.
Qed.

Lemma forallb_app_true : forall {A} (f : A -> bool) a b, forallb f (a ++ b) = true -> forallb f a = true /\ forallb f b = true.
Proof. intros A f a b H. rewrite forallb_app in H. apply andb_prop in H. exact H. Qed.

(* 4. WFQ fairness, weights cross-multiplied:
      W_k/w_k - W_i/w_i <= Lmax_k/w_k + Lmax_i/w_i   for i backlogged throughout, any k *)
Lemma pq_wfq_fair : forall ws Lmax ops1 ops2 i k,
  Forall (fun sw => 0 <= snd sw) ws -> (forall s, 0 <= Lmax s) ->
  forallb op_ok (ops1 ++ ops2) = true -> forallb no_setil (ops1 ++ ops2) = true ->
  Forall (op_lens_ok Lmax) (ops1 ++ ops2) ->
  let q0 := pq_interleaved (PS_wfq ws) in
  let qa := fst (pq_run q0 ops1) in
  pq_backlogged i qa ops2 ->
  let T := snd (pq_run qa ops2) in
  svc k T * pq_weight ws i - svc i T * pq_weight ws k <= Lmax k * pq_weight ws i + Lmax i * pq_weight ws k.
Proof.
  intros ws Lmax ops1 ops2 i k Hws HL Hok Hns Hlen. cbv zeta. intros Hback.
  destruct (forallb_app_true _ _ _ Hok) as [Hok1 Hok2].
  destruct (forallb_app_true _ _ _ Hns) as [Hns1 Hns2].
  apply Forall_app in Hlen. destruct Hlen as [Hlen1 Hlen2].
  assert (Hp0 : pq_pol (pq_interleaved (PS_wfq ws)) = PP_wfq (wf_new ws)) by reflexivity.
  set (w0 := wf_new ws) in *.
  destruct (pq_run_wfq ops1 _ _ Hp0 Hns1) as [Hpa _].
  set (qa := fst (pq_run (pq_interleaved (PS_wfq ws)) ops1)) in *.
  set (wa := fst (run_gen wf_step w0 ops1)) in *.
  pose proof (wf_run_track Lmax ops1 w0 (wf_sinv_new ws) (wf_tinv_new Lmax ws Hws) Hok1 Hlen1) as H. cbv zeta in H.
  destruct H as (Hsa & Hta & _ & Hwa & Hsca & _). fold wa in Hsa, Hta, Hwa, Hsca.
  destruct (pq_run_wfq ops2 _ _ Hpa Hns2) as [_ HT]. rewrite HT.
  pose proof (wf_fair_phi Lmax HL ops2 wa i k Hsa Hta Hok2 Hlen2
                (pq_backlogged_wfq _ _ _ _ Hpa Hns2 Hback)) as Hf.
  cbv zeta in Hf.
  rewrite (wf_phi_eq w0 wa i Hwa Hsca), (wf_phi_eq w0 wa k Hwa Hsca) in Hf.
  destruct (wf_new_weights ws Hws) as [Hsc Hw]. cbv zeta in Hw. fold w0 in Hsc, Hw.
  destruct (Hw i) as (Hwi & Hpi & _). destruct (Hw k) as (Hwk & Hpk & _).
  unfold pq_weight. fold w0.
  set (T := snd (run_gen wf_step wa ops2)) in *.
  set (a := svc k T) in *. set (b := svc i T) in *.
  set (pk := wf_phi w0 k) in *. set (pi_ := wf_phi w0 i) in *.
  set (wk := wf_weight w0 k) in *. set (wi := wf_weight w0 i) in *.
  set (D := wf_scale w0) in *.
  assert (HD : D * (a * wi - b * wk) <= D * (Lmax k * wi + Lmax i * wk)).
  { assert (E1 : D * (a * wi - b * wk) = (a * pk - b * pi_) * (wk * wi)).
    { transitivity (a * (pk * wk) * wi - b * (pi_ * wi) * wk); [rewrite Hpk, Hpi; ring|ring]. }
    assert (E2 : D * (Lmax k * wi + Lmax i * wk) = (Lmax k * pk + Lmax i * pi_) * (wk * wi)).
    { transitivity (Lmax k * (pk * wk) * wi + Lmax i * (pi_ * wi) * wk); [rewrite Hpk, Hpi; ring|ring]. }
    rewrite E1, E2. apply Z.mul_le_mono_nonneg_r; [nia|exact Hf]. }
  apply (Z.mul_le_mono_pos_l _ _ D Hsc). exact HD.
Qed.

(* two continuously backlogged streams: the bound holds in both directions *)
Lemma pq_wfq_fair_two : forall ws Lmax ops1 ops2 i k,
  Forall (fun sw => 0 <= snd sw) ws -> (forall s, 0 <= Lmax s) ->
  forallb op_ok (ops1 ++ ops2) = true -> forallb no_setil (ops1 ++ ops2) = true ->
  Forall (op_lens_ok Lmax) (ops1 ++ ops2) ->
  let q0 := pq_interleaved (PS_wfq ws) in
  let qa := fst (pq_run q0 ops1) in
  pq_backlogged i qa ops2 -> pq_backlogged k qa ops2 ->
  let T := snd (pq_run qa ops2) in
  Z.abs (svc k T * pq_weight ws i - svc i T * pq_weight ws k) <= Lmax k * pq_weight ws i + Lmax i * pq_weight ws k.
Proof.
  intros ws Lmax ops1 ops2 i k Hws HL Hok Hns Hlen. cbv zeta. intros Hbi Hbk.
  pose proof (pq_wfq_fair ws Lmax ops1 ops2 i k Hws HL Hok Hns Hlen Hbi) as H1.
  pose proof (pq_wfq_fair ws Lmax ops1 ops2 k i Hws HL Hok Hns Hlen Hbk) as H2.
  cbv zeta in H1, H2. lia.
Qed.

(* no starvation: while a backlogged stream i receives no service, every other stream k can be
   served at most  Lmax_k + Lmax_i * w_k / w_i  bytes *)
Lemma pq_wfq_no_starvation : forall ws Lmax ops1 ops2 i k,
  Forall (fun sw => 0 <= snd sw) ws -> (forall s, 0 <= Lmax s) ->
  forallb op_ok (ops1 ++ ops2) = true -> forallb no_setil (ops1 ++ ops2) = true ->
  Forall (op_lens_ok Lmax) (ops1 ++ ops2) ->
  let q0 := pq_interleaved (PS_wfq ws) in
  let qa := fst (pq_run q0 ops1) in
  pq_backlogged i qa ops2 ->
  let T := snd (pq_run qa ops2) in
  svc i T = 0 ->
  svc k T * pq_weight ws i <= Lmax k * pq_weight ws i + Lmax i * pq_weight ws k.
Proof.
  intros ws Lmax ops1 ops2 i k Hws HL Hok Hns Hlen. cbv zeta. intros Hbi Hz.
  pose proof (pq_wfq_fair ws Lmax ops1 ops2 i k Hws HL Hok Hns Hlen Hbi) as H1.
  cbv zeta in H1. rewrite Hz in H1. lia.
Qed.
