(* Invariants and laws of the timer models (coq/model/TimerFsm.v).  Integer only; no axioms. *)
From Coq Require Import ZArith Bool List Lia.
From Coq Require Import ZifyBool.
From Sctp Require Import Gen RPQ TimerFsm.
Import ListNotations.
Open Scope Z_scope.
Ltac Zify.zify_post_hook ::= Z.div_mod_to_equations.

(* ================================================================================================ *)
(* core invariant: the pending counter counts the armed runtime timer plus the in-flight callbacks   *)
(* ================================================================================================ *)
Definition tm_b2z (o : option (Z * Z)) : Z := match o with Some _ => 1 | None => 0 end.
Definition tm_nfl (c : tcore) : Z := Z.of_nat (length (tc_inflight c)).

(* fewer than 255 expired callbacks are waiting for the mutex (pending is a uint8) *)
Definition tm_small (c : tcore) : Prop := tm_nfl c < 255.

Record tc_inv (c : tcore) : Prop := mkTcInv {
  ti_pending : tc_pending c = tm_b2z (tc_armed c) + tm_nfl c;
  ti_armed_started : tc_armed c <> None -> tc_state c = tm_started;
  ti_armed_dl : forall g dl, tc_armed c = Some (g, dl) -> dl = tc_lastdl c;
  ti_fired : tc_state c = tm_started -> tc_armed c = None -> tc_lastdl c <= tc_now c
}.

Lemma tc_inv_init : tc_inv tc_init.
Proof. split; cbn; try reflexivity; try congruence. Qed.

Lemma tm_nfl_nonneg : forall c, 0 <= tm_nfl c.
Proof. intro c. unfold tm_nfl. lia. Qed.

Lemma tc_not_started_unarmed : forall c, tc_inv c -> tc_state c <> tm_started -> tc_armed c = None.
Proof.
  intros c I Hs. destruct (tc_armed c) eqn:E; [|reflexivity].
  exfalso. apply Hs. apply (ti_armed_started c I). rewrite E. discriminate.
Qed.

(* start / re-arm: set the state to started, then pending++ and Reset *)
Lemma tc_inv_arm : forall c d, tc_inv c -> tm_small c -> tc_armed c = None ->
  tc_inv (tc_arm (tc_set_state c tm_started) d).
Proof.
  intros c d I S A. destruct I as [P _ _ _]. unfold tm_small, tm_nfl in *.
  split; cbn [tc_arm tc_set_state tc_pending tc_armed tc_inflight tc_state tc_lastdl tc_now tc_gen].
  - rewrite P, A. unfold tm_nfl, wrap8. cbn [tm_b2z tc_inflight tc_arm tc_set_state]. lia.
  - reflexivity.
  - intros g dl E. injection E as _ <-. reflexivity.
  - intros _ E. discriminate E.
Qed.

(* stop / close / failure: disarm if armed, leave the started state *)
Lemma tc_inv_disarm : forall c s, tc_inv c -> tm_small c -> s <> tm_started ->
  tc_inv (tc_set_state (tc_disarm c) s).
Proof.
  intros c s I S Hs. destruct I as [P _ _ _]. unfold tm_small, tm_nfl in *. unfold tc_disarm.
  destruct (tc_armed c) as [[g dl]|] eqn:A;
    split; cbn [tc_set_state tc_pending tc_armed tc_inflight tc_state tc_lastdl tc_now tc_gen]; try rewrite A;
    try (intros; congruence).
  - rewrite P. unfold tm_nfl, wrap8. cbn [tm_b2z tc_inflight tc_set_state]. lia.
  - rewrite P. unfold tm_nfl. cbn [tm_b2z tc_inflight tc_set_state]. reflexivity.
Qed.

Lemma tc_inv_set_state_unarmed : forall c s, tc_inv c -> tc_armed c = None -> s <> tm_started ->
  tc_inv (tc_set_state c s).
Proof.
  intros c s I A Hs. destruct I as [P _ _ _].
  split; cbn [tc_set_state tc_pending tc_armed tc_inflight tc_state tc_lastdl tc_now tc_gen]; try rewrite A;
    try (intros; congruence).
  rewrite P, A. reflexivity.
Qed.

Lemma tc_inv_fire : forall c c', tc_inv c -> tc_fire c = Some c' -> tc_inv c'.
Proof.
  intros c c' I F. unfold tc_fire in F. destruct (tc_armed c) as [[g dl]|] eqn:A; [|discriminate F].
  destruct (dl <=? tc_now c) eqn:L; [|discriminate F]. injection F as <-.
  pose proof (ti_armed_dl c I g dl A) as Hdl. pose proof (ti_armed_started c I) as Hst. destruct I as [P _ _ _].
  split; cbn [tc_pending tc_armed tc_inflight tc_state tc_lastdl tc_now tc_gen]; try (intros; congruence).
  - rewrite P, A. unfold tm_nfl. cbn [tm_b2z tc_inflight]. rewrite app_length. cbn [length]. lia.
  - intros _ _. lia.
Qed.

Lemma tm_remove_nth_length : forall k l y r, tm_remove_nth k l = Some (y, r) -> length l = S (length r).
Proof.
  induction k as [|k IH]; intros [|x l] y r H; cbn in H; try discriminate H.
  - injection H as <- <-. reflexivity.
  - destruct (tm_remove_nth k l) as [[y' r']|] eqn:E; [|discriminate H]. injection H as <- <-.
    cbn [length]. f_equal. eapply IH. exact E.
Qed.

(* after "t.pending--" of a callback: the counter still equals armed + in-flight *)
Lemma tc_take_facts : forall c k g c1, tc_inv c -> tm_small c -> tc_take c k = Some (g, c1) ->
  tc_pending c1 = tm_b2z (tc_armed c1) + tm_nfl c1 /\ tm_nfl c = tm_nfl c1 + 1 /\
  tc_armed c1 = tc_armed c /\ tc_state c1 = tc_state c /\ tc_lastdl c1 = tc_lastdl c /\ tc_now c1 = tc_now c.
Proof.
  intros c k g c1 I S T. unfold tc_take in T.
  destruct (tm_remove_nth k (tc_inflight c)) as [[y r]|] eqn:E; [|discriminate T]. injection T as _ <-.
  apply tm_remove_nth_length in E. destruct I as [P _ _ _]. unfold tm_small, tm_nfl in *.
  cbn [tc_pending tc_armed tc_inflight tc_state tc_lastdl tc_now]. rewrite P, E.
  repeat split; try reflexivity; try lia.
  unfold wrap8, tm_b2z. destruct (tc_armed c); lia.
Qed.

Lemma tc_inv_take_noaction : forall c k g c1, tc_inv c -> tm_small c -> tc_take c k = Some (g, c1) -> tc_inv c1.
Proof.
  intros c k g c1 I S T. destruct (tc_take_facts c k g c1 I S T) as (P & _ & A & St & L & N).
  split.
  - exact P.
  - rewrite A, St. apply (ti_armed_started c I).
  - intros g' dl. rewrite A, L. apply (ti_armed_dl c I).
  - rewrite A, St, L, N. apply (ti_fired c I).
Qed.

Lemma tc_inv_advance : forall c d, tc_inv c -> 0 <= d -> tc_inv (tc_advance c d).
Proof.
  intros c d I Hd. pose proof (ti_fired c I) as F. destruct I as [P Hs Hdl _].
  split; cbn [tc_advance tc_pending tc_armed tc_inflight tc_state tc_lastdl tc_now tc_gen]; try assumption.
  intros H1 H2. specialize (F H1 H2). lia.
Qed.

Lemma tm_small_take : forall c k g c1, tc_take c k = Some (g, c1) -> tm_small c -> tm_small c1.
Proof.
  intros c k g c1 T S. unfold tc_take in T.
  destruct (tm_remove_nth k (tc_inflight c)) as [[y r]|] eqn:E; [|discriminate T]. injection T as _ <-.
  apply tm_remove_nth_length in E. unfold tm_small, tm_nfl in *. cbn [tc_inflight]. lia.
Qed.

(* ================================================================================================ *)
(* rtxTimer                                                                                          *)
(* ================================================================================================ *)
Definition tm_is_callback (o : tm_out) : bool :=
  match o with OTimeout _ _ | OFailure _ | OAck => true | _ => false end.

Definition tm_callbacks (os : list tm_out) : list tm_out := filter tm_is_callback os.

Definition rtx_inv (t : rtx) : Prop := tc_inv (rx_core t).
Definition rtx_small (t : rtx) : Prop := tm_small (rx_core t).

Lemma rtx_inv_new : forall id mr mx, rtx_inv (rtx_new id mr mx).
Proof. intros. unfold rtx_inv, rtx_new. cbn [rx_core]. apply tc_inv_init. Qed.

Lemma rtx_inv_step : forall t e, rtx_inv t -> rtx_small t -> rtx_inv (fst (rtx_step t e)).
Proof.
  intros t e I S. unfold rtx_inv, rtx_small in *. unfold rtx_step.
  destruct e as [rto| | | |d| |k].
  - (* start *)
    destruct (negb (tc_state (rx_core t) =? tm_stopped)) eqn:E; cbn [fst]; [exact I|].
    cbn [rtx_with_core rx_core]. apply tc_inv_arm; try assumption.
    apply tc_not_started_unarmed; [exact I|]. unfold tm_stopped, tm_started in *. lia.
  - (* stop *)
    destruct (tc_state (rx_core t) =? tm_started) eqn:E; cbn [fst rtx_with_core rx_core]; [|exact I].
    apply tc_inv_disarm; try assumption. unfold tm_stopped, tm_started. lia.
  - (* close *)
    destruct (tc_state (rx_core t) =? tm_started) eqn:E; cbn [fst rtx_with_core rx_core].
    + apply tc_inv_disarm; try assumption. unfold tm_closed, tm_started. lia.
    + apply tc_inv_set_state_unarmed; try assumption.
      * apply tc_not_started_unarmed; [exact I|]. lia.
      * unfold tm_closed, tm_started. lia.
  - exact I.
  - destruct (0 <=? d) eqn:E; cbn [fst rtx_with_core rx_core]; [|exact I]. apply tc_inv_advance; [exact I|lia].
  - destruct (tc_fire (rx_core t)) as [c'|] eqn:F; cbn [fst rtx_with_core rx_core]; [|exact I].
    eapply tc_inv_fire; eassumption.
  - (* run *)
    destruct (tc_take (rx_core t) k) as [[g c1]|] eqn:T; cbn [fst]; [|exact I].
    pose proof (tc_inv_take_noaction _ _ _ _ I S T) as I1.
    pose proof (tm_small_take _ _ _ _ T S) as S1.
    destruct ((tc_pending c1 =? 0) && (tc_state c1 =? tm_started)) eqn:C; cbn [fst rtx_with_core rx_core]; [|exact I1].
    apply andb_prop in C. destruct C as [C1 C2].
    assert (A1 : tc_armed c1 = None).
    { destruct I1 as [P _ _ _]. pose proof (tm_nfl_nonneg c1). destruct (tc_armed c1); [cbn [tm_b2z] in P; lia|reflexivity]. }
    destruct ((rx_maxretrans t =? 0) || (wrap64 (rx_nrtos t + 1) <=? rx_maxretrans t)) eqn:R;
      cbn [fst rtx_with_core rx_core].
    + replace c1 with (tc_set_state c1 tm_started) at 1.
      * apply tc_inv_arm; assumption.
      * apply Z.eqb_eq in C2. destruct c1 as [s1 p1 a1 i1 g1 l1 n1]. cbn [tc_state] in C2. subst s1. reflexivity.
    + apply tc_inv_set_state_unarmed; try assumption. unfold tm_stopped, tm_started. lia.
Qed.

(* execution without outputs, and the bound on in-flight callbacks along a run *)
Definition rtx_exec (t : rtx) (evs : list tm_ev) : rtx := fold_left (fun t e => fst (rtx_step t e)) evs t.

Lemma rtx_run_exec : forall evs t, fst (rtx_run t evs) = rtx_exec t evs.
Proof.
  induction evs as [|e r IH]; intro t; [reflexivity|].
  cbn [rtx_run rtx_exec fold_left]. destruct (rtx_step t e) as [t1 o] eqn:E1.
  specialize (IH t1). destruct (rtx_run t1 r) as [t2 os]. cbn [fst] in *. exact IH.
Qed.

Fixpoint rtx_small_run (t : rtx) (evs : list tm_ev) : Prop :=
  rtx_small t /\ match evs with [] => True | e :: r => rtx_small_run (fst (rtx_step t e)) r end.

Lemma rtx_inv_exec : forall evs t, rtx_inv t -> rtx_small_run t evs -> rtx_inv (rtx_exec t evs).
Proof.
  induction evs as [|e r IH]; intros t I S; [exact I|].
  cbn [rtx_exec fold_left]. destruct S as [S0 S1]. apply IH; [apply rtx_inv_step; assumption | exact S1].
Qed.

(* ---------- no stale, no early expiry ---------- *)
(* Whenever a step hands a callback to the observer, it is a [TRun], the timer had not been stopped or closed
   since it was last started, no arming is still pending, the callback that runs is the last one in flight,
   and the deadline of the latest arming has been reached. *)
Lemma rtx_callback_step : forall t e, rtx_inv t -> rtx_small t ->
  tm_is_callback (snd (rtx_step t e)) = true ->
  (exists k, e = TRun k) /\
  tc_state (rx_core t) = tm_started /\ tc_armed (rx_core t) = None /\
  length (tc_inflight (rx_core t)) = 1%nat /\ tc_lastdl (rx_core t) <= tc_now (rx_core t).
Proof.
  intros t e I S H. unfold rtx_inv, rtx_small in *. unfold rtx_step in H.
  destruct e as [rto| | | |d| |k].
  - destruct (negb (tc_state (rx_core t) =? tm_stopped)); discriminate H.
  - destruct (tc_state (rx_core t) =? tm_started); discriminate H.
  - destruct (tc_state (rx_core t) =? tm_started); discriminate H.
  - discriminate H.
  - destruct (0 <=? d); discriminate H.
  - destruct (tc_fire (rx_core t)); discriminate H.
  - destruct (tc_take (rx_core t) k) as [[g c1]|] eqn:T; [|discriminate H].
    destruct (tc_take_facts _ _ _ _ I S T) as (P & N & A & St & L & Nw).
    destruct ((tc_pending c1 =? 0) && (tc_state c1 =? tm_started)) eqn:C; [|discriminate H].
    apply andb_prop in C. destruct C as [C1 C2].
    pose proof (tm_nfl_nonneg c1) as Hn.
    assert (A1 : tc_armed c1 = None) by (destruct (tc_armed c1); [cbn [tm_b2z] in P; lia|reflexivity]).
    assert (N1 : tm_nfl c1 = 0) by (rewrite A1 in P; cbn [tm_b2z] in P; lia).
    split; [eexists; reflexivity|].
    rewrite <- St, <- A, <- L, <- Nw. repeat split.
    + lia.
    + exact A1.
    + unfold tm_nfl in *. lia.
    + apply (ti_fired c1); [eapply tc_inv_take_noaction; eassumption | lia | exact A1].
Qed.

Theorem rtx_no_stale_expiry : forall id mr mx pre e,
  rtx_small_run (rtx_new id mr mx) pre ->
  let t := rtx_exec (rtx_new id mr mx) pre in
  rtx_small t ->
  tm_is_callback (snd (rtx_step t e)) = true ->
  (exists k, e = TRun k) /\
  tc_state (rx_core t) = tm_started /\ tc_armed (rx_core t) = None /\
  length (tc_inflight (rx_core t)) = 1%nat /\ tc_lastdl (rx_core t) <= tc_now (rx_core t).
Proof.
  intros id mr mx pre e S t St H. apply rtx_callback_step; try assumption.
  apply rtx_inv_exec; [apply rtx_inv_new | exact S].
Qed.

(* the pending counter in every reachable state *)
Theorem rtx_pending_counts : forall id mr mx evs,
  rtx_small_run (rtx_new id mr mx) evs ->
  let c := rx_core (rtx_exec (rtx_new id mr mx) evs) in
  tc_pending c = tm_b2z (tc_armed c) + Z.of_nat (length (tc_inflight c)) /\
  (tc_armed c <> None -> tc_state c = tm_started).
Proof.
  intros id mr mx evs S c. pose proof (rtx_inv_exec evs _ (rtx_inv_new id mr mx) S) as I.
  split; [apply (ti_pending _ I) | apply (ti_armed_started _ I)].
Qed.

(* ---------- small laws ---------- *)
Lemma rtx_start_when_not_stopped_is_noop : forall t rto,
  tc_state (rx_core t) <> tm_stopped -> rtx_step t (TStart rto) = (t, OStarted false).
Proof.
  intros t rto H. unfold rtx_step. destruct (tc_state (rx_core t) =? tm_stopped) eqn:E; [lia|reflexivity].
Qed.

Lemma rtx_stop_when_not_started_is_noop : forall t,
  tc_state (rx_core t) <> tm_started -> rtx_step t TStop = (t, ONone).
Proof.
  intros t H. unfold rtx_step. destruct (tc_state (rx_core t) =? tm_started) eqn:E; [lia|reflexivity].
Qed.

Lemma rtx_start_arms : forall t rto, tc_state (rx_core t) = tm_stopped ->
  let t' := fst (rtx_step t (TStart rto)) in
  snd (rtx_step t (TStart rto)) = OStarted true /\
  tc_state (rx_core t') = tm_started /\ rx_nrtos t' = 0 /\ rx_rto t' = rto /\
  tc_armed (rx_core t') =
    Some (tc_gen (rx_core t), tc_now (rx_core t) + tm_next_timeout_ms rto 0 (rx_rtomax t) * tm_ms).
Proof.
  intros t rto H. unfold rtx_step. rewrite H. cbn. repeat split.
Qed.

(* closed is final: no event leaves it, and no callback is ever delivered afterwards *)
Lemma rtx_closed_step : forall t e, rtx_inv t -> rtx_small t -> tc_state (rx_core t) = tm_closed ->
  tc_state (rx_core (fst (rtx_step t e))) = tm_closed /\ tm_is_callback (snd (rtx_step t e)) = false.
Proof.
  intros t e I S H. split.
  - unfold rtx_step. destruct e as [rto| | | |d| |k]; rewrite ?H; cbn; try reflexivity; try exact H.
    + destruct (0 <=? d); cbn; exact H.
    + unfold tc_fire. destruct (tc_armed (rx_core t)) as [[g dl]|]; [|exact H].
      destruct (dl <=? tc_now (rx_core t)); cbn; exact H.
    + destruct (tc_take (rx_core t) k) as [[g c1]|] eqn:T; [|exact H].
      destruct (tc_take_facts _ _ _ _ I S T) as (_ & _ & _ & St & _ & _).
      rewrite St, H. rewrite andb_false_r. cbn. rewrite St. exact H.
  - destruct (tm_is_callback (snd (rtx_step t e))) eqn:C; [|reflexivity].
    destruct (rtx_callback_step t e I S C) as (_ & St & _). rewrite H in St. discriminate St.
Qed.

(* ================================================================================================ *)
(* retry bound                                                                                       *)
(* ================================================================================================ *)
Definition tm_quiet (e : tm_ev) : Prop :=
  match e with TStart _ | TStop | TClose => False | _ => True end.

(* the j-th expiry (j = 1, 2, ...) of a timer with maxRetrans = N > 0 *)
Definition rtx_expiry (id N j : Z) : tm_out := if j <=? N then OTimeout id j else OFailure id.

(* expiries k+1 .. k+n *)
Definition rtx_expiries (id N k : Z) (n : nat) : list tm_out :=
  map (fun i => rtx_expiry id N (k + 1 + Z.of_nat i)) (seq 0 n).

Lemma rtx_expiries_cons : forall id N k n,
  rtx_expiries id N k (S n) = rtx_expiry id N (k + 1) :: rtx_expiries id N (k + 1) n.
Proof.
  intros. unfold rtx_expiries. cbn [seq map]. f_equal; [f_equal; lia|].
  rewrite <- seq_shift, map_map. apply map_ext. intro i. f_equal. lia.
Qed.

(* state of an undisturbed timer after k expiries *)
Definition rtx_live (t : rtx) (k : Z) : Prop :=
  tc_state (rx_core t) = tm_started /\ rx_nrtos t = k /\
  tm_b2z (tc_armed (rx_core t)) + tm_nfl (rx_core t) = 1.

Definition rtx_dead (t : rtx) : Prop :=
  tc_state (rx_core t) = tm_stopped /\ tc_armed (rx_core t) = None /\ tc_inflight (rx_core t) = [].

Lemma rtx_live_small : forall t k, rtx_live t k -> rtx_small t.
Proof.
  intros t k (_ & _ & H). unfold rtx_small, tm_small. destruct (tc_armed (rx_core t)); cbn [tm_b2z] in H; lia.
Qed.

Lemma rtx_dead_small : forall t, rtx_dead t -> rtx_small t.
Proof. intros t (_ & _ & H). unfold rtx_small, tm_small, tm_nfl. rewrite H. cbn. lia. Qed.

(* one quiet step of a live timer with a positive retry limit *)
Lemma rtx_live_step : forall t k e N,
  rtx_inv t -> rx_maxretrans t = N -> 0 < N < 18446744073709551615 -> 0 <= k <= N ->
  rtx_live t k -> tm_quiet e ->
  let t' := fst (rtx_step t e) in let o := snd (rtx_step t e) in
  rx_maxretrans t' = N /\ rx_id t' = rx_id t /\
  ((tm_is_callback o = false /\ rtx_live t' k) \/
   (o = rtx_expiry (rx_id t) N (k + 1) /\ k + 1 <= N /\ rtx_live t' (k + 1)) \/
   (o = rtx_expiry (rx_id t) N (k + 1) /\ k = N /\ rtx_dead t')).
Proof.
  intros t k e N I HN RN Hk (Hst & Hnr & Hone) Q t' o. subst t' o.
  assert (S : rtx_small t) by (eapply rtx_live_small; repeat split; eassumption).
  unfold rtx_inv, rtx_small in *. unfold rtx_step.
  destruct e as [rto| | | |d| |j]; try (exfalso; exact Q).
  - cbn [fst snd]. repeat split; try assumption. left. repeat split; assumption.
  - destruct (0 <=? d); cbn [fst snd rtx_with_core rx_core rx_maxretrans rx_id rx_nrtos tm_is_callback];
      repeat split; try assumption; left; repeat split; assumption.
  - unfold tc_fire. destruct (tc_armed (rx_core t)) as [[g dl]|] eqn:A.
    2:{ cbn [fst snd tm_is_callback]. repeat split; try assumption. left. unfold rtx_live. rewrite A.
        repeat split; assumption. }
    destruct (dl <=? tc_now (rx_core t)).
    2:{ cbn [fst snd tm_is_callback]. repeat split; try assumption. left. unfold rtx_live. rewrite A.
        repeat split; assumption. }
    cbn [fst snd rtx_with_core rx_core rx_maxretrans rx_id rx_nrtos tm_is_callback].
    repeat split; try assumption. left. split; [reflexivity|].
    unfold rtx_live, tm_nfl in *. cbn [rtx_with_core rx_core rx_nrtos tc_state tc_armed tc_inflight tm_b2z] in *.
    rewrite app_length. cbn [length]. repeat split; try assumption; lia.
  - destruct (tc_take (rx_core t) j) as [[g c1]|] eqn:T.
    2:{ cbn [fst snd tm_is_callback]. repeat split; try assumption. left. repeat split; assumption. }
    destruct (tc_take_facts _ _ _ _ I S T) as (P & Nf & A & St & L & Nw).
    pose proof (tm_nfl_nonneg c1) as Hn.
    assert (A1 : tc_armed c1 = None).
    { rewrite A. destruct (tc_armed (rx_core t)); [cbn [tm_b2z] in Hone; lia | reflexivity]. }
    assert (N1 : tm_nfl c1 = 0) by (rewrite <- A, A1 in Hone; cbn [tm_b2z] in Hone; lia).
    assert (P0 : tc_pending c1 = 0) by (rewrite P, A1, N1; reflexivity).
    rewrite P0, St, Hst. cbn [Z.eqb andb]. change (tm_started =? tm_started) with true. cbn [andb].
    rewrite HN, Hnr.
    assert (W : wrap64 (k + 1) = k + 1) by (unfold wrap64; lia).
    rewrite W.
    assert (Z0 : (N =? 0) = false) by lia. rewrite Z0. cbn [orb].
    destruct (k + 1 <=? N) eqn:LE.
    + cbn [fst snd rtx_with_core rx_core rx_maxretrans rx_id rx_nrtos].
      split; [reflexivity|]. split; [reflexivity|]. right; left.
      unfold rtx_expiry, rtx_live, tm_nfl in *. rewrite LE.
      cbn [rtx_with_core rx_core rx_nrtos tc_arm tc_set_state tc_state tc_armed tc_inflight tm_b2z].
      repeat split; try reflexivity; lia.
    + cbn [fst snd rtx_with_core rx_core rx_maxretrans rx_id rx_nrtos].
      split; [reflexivity|]. split; [reflexivity|]. right; right.
      unfold rtx_expiry, rtx_dead, tm_nfl in *. rewrite LE.
      cbn [rtx_with_core rx_core rx_nrtos tc_arm tc_set_state tc_state tc_armed tc_inflight tm_b2z].
      repeat split; try reflexivity; try lia; try exact A1.
      destruct (tc_inflight c1); [reflexivity|cbn [length] in N1; lia].
Qed.

(* a dead timer stays dead and silent under quiet events *)
Lemma rtx_dead_step : forall t e, rtx_dead t -> tm_quiet e ->
  rtx_dead (fst (rtx_step t e)) /\ tm_is_callback (snd (rtx_step t e)) = false /\
  rx_maxretrans (fst (rtx_step t e)) = rx_maxretrans t /\ rx_id (fst (rtx_step t e)) = rx_id t.
Proof.
  intros t e (Hs & Ha & Hf) Q. unfold rtx_step, rtx_dead.
  destruct e as [rto| | | |d| |j]; try (exfalso; exact Q).
  - cbn. repeat split; assumption.
  - destruct (0 <=? d); cbn; repeat split; assumption.
  - unfold tc_fire. rewrite Ha. cbn. repeat split; assumption.
  - unfold tc_take. rewrite Hf. destruct j; cbn; repeat split; assumption.
Qed.

Lemma rtx_dead_run : forall evs t, rtx_dead t -> Forall tm_quiet evs ->
  tm_callbacks (snd (rtx_run t evs)) = [] /\ rtx_dead (fst (rtx_run t evs)).
Proof.
  induction evs as [|e r IH]; intros t D Q; [split; [reflexivity|exact D]|].
  inversion Q as [|? ? Qe Qr]; subst. cbn [rtx_run].
  destruct (rtx_dead_step t e D Qe) as (D1 & C1 & _ & _).
  destruct (rtx_step t e) as [t1 o] eqn:E. cbn [fst snd] in *.
  destruct (IH t1 D1 Qr) as (C2 & D2). destruct (rtx_run t1 r) as [t2 os]. cbn [fst snd] in *.
  unfold tm_callbacks in *. cbn [filter]. rewrite C1. split; assumption.
Qed.

Lemma rtx_live_run : forall evs t k N,
  rtx_inv t -> rx_maxretrans t = N -> 0 < N < 18446744073709551615 -> 0 <= k <= N ->
  rtx_live t k -> Forall tm_quiet evs ->
  exists n : nat,
    tm_callbacks (snd (rtx_run t evs)) = rtx_expiries (rx_id t) N k n /\
    k + Z.of_nat n <= N + 1 /\
    (k + Z.of_nat n <= N -> rtx_live (fst (rtx_run t evs)) (k + Z.of_nat n)) /\
    (k + Z.of_nat n = N + 1 -> rtx_dead (fst (rtx_run t evs))).
Proof.
  induction evs as [|e r IH]; intros t k N I HN RN Hk L Q.
  - exists 0%nat. split; [reflexivity|]. split; [lia|]. split.
    + intros _. replace (k + Z.of_nat 0) with k by lia. exact L.
    + intro H. exfalso. lia.
  - inversion Q as [|? ? Qe Qr]; subst.
    pose proof (rtx_live_step t k e (rx_maxretrans t) I eq_refl RN Hk L Qe) as Hstep.
    pose proof (rtx_inv_step t e I (rtx_live_small t k L)) as I1.
    cbn [rtx_run]. destruct (rtx_step t e) as [t1 o] eqn:E. cbn [fst snd] in *.
    destruct Hstep as (HN1 & Hid & [(C & L1) | [(Eo & Hle & L1) | (Eo & Hk' & D1)]]).
    + destruct (IH t1 k (rx_maxretrans t) I1 HN1 RN Hk L1 Qr) as (n & Hc & Hb & Hl & Hd).
      destruct (rtx_run t1 r) as [t2 os]. cbn [fst snd] in *.
      exists n. unfold tm_callbacks in *. cbn [filter]. rewrite C, <- Hid.
      split; [exact Hc|]. split; [exact Hb|]. split; [exact Hl | exact Hd].
    + destruct (IH t1 (k + 1) (rx_maxretrans t) I1 HN1 RN ltac:(lia) L1 Qr) as (n & Hc & Hb & Hl & Hd).
      destruct (rtx_run t1 r) as [t2 os]. cbn [fst snd] in *.
      exists (S n). unfold tm_callbacks in *. cbn [filter].
      assert (Cb : tm_is_callback o = true).
      { rewrite Eo. unfold rtx_expiry. destruct (k + 1 <=? rx_maxretrans t); reflexivity. }
      rewrite Cb, rtx_expiries_cons, <- Eo, <- Hid, Hc.
      split; [reflexivity|]. split; [lia|]. split.
      * intro H. replace (k + Z.of_nat (S n)) with (k + 1 + Z.of_nat n) by lia. apply Hl. lia.
      * intro H. apply Hd. lia.
    + destruct (rtx_dead_run r t1 D1 Qr) as (Hc & D2).
      destruct (rtx_run t1 r) as [t2 os]. cbn [fst snd] in *.
      exists 1%nat. unfold tm_callbacks in *. cbn [filter].
      assert (Cb : tm_is_callback o = true).
      { rewrite Eo. unfold rtx_expiry. destruct (k + 1 <=? rx_maxretrans t); reflexivity. }
      rewrite Cb, Hc. unfold rtx_expiries. cbn [seq map]. replace (k + 1 + Z.of_nat 0) with (k + 1) by lia.
      rewrite Eo. split; [reflexivity|]. split; [lia|]. split.
      * intro H. exfalso. lia.
      * intros _. exact D2.
Qed.

(* a timer that is stopped with nothing armed and nothing in flight *)
Definition rtx_clean (t : rtx) : Prop := rtx_inv t /\ rtx_dead t.

(* Retry bound: after start, if the timer is left alone (clock, expiries and callbacks only), the observer sees
   a prefix of  timeout(1), ..., timeout(N), failure ; after the failure the timer is stopped for good. *)
Theorem rtx_retry_bound : forall t rto evs N,
  rtx_clean t -> rx_maxretrans t = N -> 0 < N < 18446744073709551615 -> Forall tm_quiet evs ->
  let r := rtx_run (fst (rtx_step t (TStart rto))) evs in
  exists n : nat,
    tm_callbacks (snd r) = rtx_expiries (rx_id t) N 0 n /\ Z.of_nat n <= N + 1 /\
    (Z.of_nat n <= N -> rtx_live (fst r) (Z.of_nat n)) /\
    (Z.of_nat n = N + 1 -> rtx_dead (fst r)).
Proof.
  intros t rto evs N (I & Hs & Ha & Hf) HN RN Q r. subst r.
  assert (S : rtx_small t) by (apply rtx_dead_small; repeat split; assumption).
  pose proof (rtx_inv_step t (TStart rto) I S) as I1.
  destruct (rtx_start_arms t rto Hs) as (_ & St & Nr & _ & Ar).
  assert (M1 : rx_maxretrans (fst (rtx_step t (TStart rto))) = N /\ rx_id (fst (rtx_step t (TStart rto))) = rx_id t /\
               tc_inflight (rx_core (fst (rtx_step t (TStart rto)))) = []).
  { unfold rtx_step. rewrite Hs. cbn. repeat split; assumption. }
  destruct M1 as (M1 & Id1 & Fl1).
  assert (L : rtx_live (fst (rtx_step t (TStart rto))) 0).
  { repeat split; try assumption. rewrite Ar. unfold tm_nfl. rewrite Fl1. reflexivity. }
  destruct (rtx_live_run evs _ 0 N I1 M1 RN ltac:(lia) L Q) as (n & Hc & Hb & Hl & Hd).
  exists n. rewrite Id1 in Hc. split; [exact Hc|]. split; [lia|]. split.
  - intro H. replace (Z.of_nat n) with (0 + Z.of_nat n) by lia. apply Hl. lia.
  - intro H. apply Hd. lia.
Qed.

(* ---------- maxRetrans = 0 (T2-shutdown, T3-rtx, reconfig): the timer never gives up ---------- *)
Definition rtx_alive (t : rtx) : Prop :=
  tc_state (rx_core t) = tm_started /\ tm_b2z (tc_armed (rx_core t)) + tm_nfl (rx_core t) = 1.

Lemma rtx_alive_small : forall t, rtx_alive t -> rtx_small t.
Proof.
  intros t (_ & H). unfold rtx_small, tm_small. destruct (tc_armed (rx_core t)); cbn [tm_b2z] in H; lia.
Qed.

Lemma rtx_forever_step : forall t e, rtx_inv t -> rx_maxretrans t = 0 -> rtx_alive t -> tm_quiet e ->
  rx_maxretrans (fst (rtx_step t e)) = 0 /\ rtx_alive (fst (rtx_step t e)) /\
  (forall id, snd (rtx_step t e) <> OFailure id).
Proof.
  intros t e I HN (Hst & Hone) Q.
  assert (S : rtx_small t) by (apply rtx_alive_small; split; assumption).
  unfold rtx_inv, rtx_small in *. unfold rtx_step.
  destruct e as [rto| | | |d| |j]; try (exfalso; exact Q).
  - cbn [fst snd]. split; [exact HN|]. split; [split; assumption|]. intros id H; discriminate H.
  - destruct (0 <=? d); cbn [fst snd rtx_with_core rx_core rx_maxretrans];
      (split; [exact HN|]; split; [split; assumption|]; intros id H; discriminate H).
  - unfold tc_fire. destruct (tc_armed (rx_core t)) as [[g dl]|] eqn:A.
    2:{ cbn [fst snd]. split; [exact HN|]. split; [unfold rtx_alive; rewrite A; split; assumption|].
        intros id H; discriminate H. }
    destruct (dl <=? tc_now (rx_core t)).
    2:{ cbn [fst snd]. split; [exact HN|]. split; [unfold rtx_alive; rewrite A; split; assumption|].
        intros id H; discriminate H. }
    cbn [fst snd rtx_with_core rx_core rx_maxretrans]. split; [exact HN|]. split; [|intros id H; discriminate H].
    unfold rtx_alive, tm_nfl in *. cbn [rtx_with_core rx_core tc_state tc_armed tc_inflight tm_b2z] in *.
    rewrite app_length. cbn [length]. split; [assumption|lia].
  - destruct (tc_take (rx_core t) j) as [[g c1]|] eqn:T.
    2:{ cbn [fst snd]. split; [exact HN|]. split; [split; assumption|]. intros id H; discriminate H. }
    destruct (tc_take_facts _ _ _ _ I S T) as (P & Nf & A & St & L & Nw).
    pose proof (tm_nfl_nonneg c1) as Hn.
    assert (A1 : tc_armed c1 = None).
    { rewrite A. destruct (tc_armed (rx_core t)); [cbn [tm_b2z] in Hone; lia | reflexivity]. }
    assert (N1 : tm_nfl c1 = 0) by (rewrite <- A, A1 in Hone; cbn [tm_b2z] in Hone; lia).
    assert (P0 : tc_pending c1 = 0) by (rewrite P, A1, N1; reflexivity).
    rewrite P0, St, Hst, HN. cbn [Z.eqb andb orb]. change (tm_started =? tm_started) with true. cbn [andb].
    cbn [fst snd rtx_with_core rx_core rx_maxretrans]. split; [reflexivity|]. split; [|intros id H; discriminate H].
    unfold rtx_alive, tm_nfl in *.
    cbn [rtx_with_core rx_core tc_arm tc_state tc_armed tc_inflight tm_b2z]. split; lia.
Qed.

(* With maxRetrans = 0 no failure is ever reported and the timer stays armed (or its callback is about to run). *)
Theorem rtx_never_gives_up : forall evs t,
  rtx_inv t -> rx_maxretrans t = 0 -> rtx_alive t -> Forall tm_quiet evs ->
  (forall id, ~ In (OFailure id) (snd (rtx_run t evs))) /\ rtx_alive (fst (rtx_run t evs)).
Proof.
  induction evs as [|e r IH]; intros t I HN A Q.
  - split; [intros id H; exact H | exact A].
  - inversion Q as [|? ? Qe Qr]; subst.
    destruct (rtx_forever_step t e I HN A Qe) as (HN1 & A1 & NF).
    pose proof (rtx_inv_step t e I (rtx_alive_small t A)) as I1.
    cbn [rtx_run]. destruct (rtx_step t e) as [t1 o] eqn:E. cbn [fst snd] in *.
    destruct (IH t1 I1 HN1 A1 Qr) as (NF2 & A2). destruct (rtx_run t1 r) as [t2 os]. cbn [fst snd] in *.
    split; [|exact A2]. intros id [H|H]; [exact (NF id H) | exact (NF2 id H)].
Qed.

(* timer id -> retry limit, as wired in createAssociationFromConfigWithTsn *)
Lemma tm_max_retrans_table :
  tm_max_retrans c_timerT1Init = c_maxInitRetrans /\ tm_max_retrans c_timerT1Cookie = c_maxInitRetrans /\
  tm_max_retrans c_timerT2Shutdown = 0 /\ tm_max_retrans c_timerT3RTX = 0 /\ tm_max_retrans c_timerReconfig = 0 /\
  0 < c_maxInitRetrans < 18446744073709551615.
Proof. vm_compute. repeat split; congruence. Qed.

(* ================================================================================================ *)
(* ackTimer                                                                                          *)
(* ================================================================================================ *)
Lemma ack_inv_step : forall c e, tc_inv c -> tm_small c -> tc_inv (fst (ack_step c e)).
Proof.
  intros c e I S. unfold ack_step.
  destruct e as [rto| | | |d| |k].
  - destruct (negb (tc_state c =? tm_stopped)) eqn:E; cbn [fst]; [exact I|].
    apply tc_inv_arm; try assumption. apply tc_not_started_unarmed; [exact I|]. unfold tm_stopped, tm_started in *. lia.
  - destruct (tc_state c =? tm_started) eqn:E; cbn [fst]; [|exact I].
    apply tc_inv_disarm; try assumption. unfold tm_stopped, tm_started. lia.
  - destruct (tc_state c =? tm_started) eqn:E; cbn [fst].
    + apply tc_inv_disarm; try assumption. unfold tm_closed, tm_started. lia.
    + apply tc_inv_set_state_unarmed; try assumption.
      * apply tc_not_started_unarmed; [exact I|]. lia.
      * unfold tm_closed, tm_started. lia.
  - exact I.
  - destruct (0 <=? d) eqn:E; cbn [fst]; [|exact I]. apply tc_inv_advance; [exact I|lia].
  - destruct (tc_fire c) as [c'|] eqn:F; cbn [fst]; [|exact I]. eapply tc_inv_fire; eassumption.
  - destruct (tc_take c k) as [[g c1]|] eqn:T; cbn [fst]; [|exact I].
    pose proof (tc_inv_take_noaction _ _ _ _ I S T) as I1.
    destruct ((tc_pending c1 =? 0) && (tc_state c1 =? tm_started)) eqn:C; cbn [fst]; [|exact I1].
    apply andb_prop in C. destruct C as [C1 C2].
    apply tc_inv_set_state_unarmed; try assumption.
    + destruct I1 as [P _ _ _]. pose proof (tm_nfl_nonneg c1). destruct (tc_armed c1); [cbn [tm_b2z] in P; lia|reflexivity].
    + unfold tm_stopped, tm_started. lia.
Qed.

Definition ack_exec (c : tcore) (evs : list tm_ev) : tcore := fold_left (fun c e => fst (ack_step c e)) evs c.

Fixpoint ack_small_run (c : tcore) (evs : list tm_ev) : Prop :=
  tm_small c /\ match evs with [] => True | e :: r => ack_small_run (fst (ack_step c e)) r end.

Lemma ack_inv_exec : forall evs c, tc_inv c -> ack_small_run c evs -> tc_inv (ack_exec c evs).
Proof.
  induction evs as [|e r IH]; intros c I S; [exact I|].
  cbn [ack_exec fold_left]. destruct S as [S0 S1]. apply IH; [apply ack_inv_step; assumption | exact S1].
Qed.

Lemma ack_callback_step : forall c e, tc_inv c -> tm_small c ->
  tm_is_callback (snd (ack_step c e)) = true ->
  (exists k, e = TRun k) /\ snd (ack_step c e) = OAck /\
  tc_state c = tm_started /\ tc_armed c = None /\
  length (tc_inflight c) = 1%nat /\ tc_lastdl c <= tc_now c /\
  tc_state (fst (ack_step c e)) = tm_stopped.
Proof.
  intros c e I S H. unfold ack_step in *.
  destruct e as [rto| | | |d| |k].
  - destruct (negb (tc_state c =? tm_stopped)); discriminate H.
  - destruct (tc_state c =? tm_started); discriminate H.
  - destruct (tc_state c =? tm_started); discriminate H.
  - discriminate H.
  - destruct (0 <=? d); discriminate H.
  - destruct (tc_fire c); discriminate H.
  - destruct (tc_take c k) as [[g c1]|] eqn:T; [|discriminate H].
    destruct (tc_take_facts _ _ _ _ I S T) as (P & N & A & St & L & Nw).
    destruct ((tc_pending c1 =? 0) && (tc_state c1 =? tm_started)) eqn:C; [|discriminate H].
    apply andb_prop in C. destruct C as [C1 C2].
    pose proof (tm_nfl_nonneg c1) as Hn.
    assert (A1 : tc_armed c1 = None) by (destruct (tc_armed c1); [cbn [tm_b2z] in P; lia|reflexivity]).
    assert (N1 : tm_nfl c1 = 0) by (rewrite A1 in P; cbn [tm_b2z] in P; lia).
    cbn [fst snd tc_set_state tc_state].
    split; [eexists; reflexivity|]. split; [reflexivity|].
    rewrite <- St, <- A, <- L, <- Nw. repeat split.
    + lia.
    + exact A1.
    + unfold tm_nfl in *. lia.
    + apply (ti_fired c1); [eapply tc_inv_take_noaction; eassumption | lia | exact A1].
Qed.

(* the acknowledgement callback is delivered only by the latest arming, not before its deadline
   (200 ms after the start), and only if the timer was not stopped or closed since *)
Theorem ack_no_stale_expiry : forall pre e,
  ack_small_run tc_init pre ->
  let c := ack_exec tc_init pre in
  tm_small c ->
  tm_is_callback (snd (ack_step c e)) = true ->
  (exists k, e = TRun k) /\ snd (ack_step c e) = OAck /\
  tc_state c = tm_started /\ tc_armed c = None /\
  length (tc_inflight c) = 1%nat /\ tc_lastdl c <= tc_now c /\
  tc_state (fst (ack_step c e)) = tm_stopped.
Proof.
  intros pre e S c Sc H. apply ack_callback_step; try assumption.
  apply ack_inv_exec; [apply tc_inv_init | exact S].
Qed.

(* start on a stopped ack timer arms it for exactly ackInterval; start on a started or closed one changes nothing,
   in particular it does not move the deadline *)
Lemma ack_start_arms : forall c r, tc_state c = tm_stopped ->
  ack_step c (TStart r) =
  (tc_arm (tc_set_state c tm_started) tm_ack_interval, OStarted true) /\
  tc_armed (fst (ack_step c (TStart r))) = Some (tc_gen c, tc_now c + 200 * 1000000) /\
  tc_state (fst (ack_step c (TStart r))) = tm_started.
Proof. intros c r H. unfold ack_step. rewrite H. cbn. repeat split. Qed.

Lemma ack_start_when_not_stopped_is_noop : forall c r,
  tc_state c <> tm_stopped -> ack_step c (TStart r) = (c, OStarted false).
Proof. intros c r H. unfold ack_step. destruct (tc_state c =? tm_stopped) eqn:E; [lia|reflexivity]. Qed.

(* ================================================================================================ *)
(* Karn's rule                                                                                       *)
(* ================================================================================================ *)
Lemma karn_sample_only_first_transmission : forall tsn mn ns,
  karn_takes_sample tsn mn ns = true -> ns = 1 /\ sna32GTE tsn mn = true.
Proof. intros tsn mn ns H. unfold karn_takes_sample in H. apply andb_prop in H. destruct H as [H1 H2]. split; [lia|exact H1]. Qed.

(* every TSN whose round trip is fed to setNewRTT by a SACK belongs to a chunk that was sent exactly once
   and was not acknowledged before *)
Theorem karn_sack_sound : forall chunks mn nx t,
  In t (snd (karn_sack mn nx chunks)) -> In (t, 1, false) chunks.
Proof.
  induction chunks as [|[[tsn ns] ak] r IH]; intros mn nx t H; cbn [karn_sack] in H.
  - destruct H.
  - destruct (negb ak && karn_takes_sample tsn mn ns) eqn:E.
    + destruct (karn_sack nx nx r) as [m l] eqn:K. cbn [snd] in H. destruct H as [H|H].
      * subst t. apply andb_prop in E. destruct E as [E1 E2].
        apply karn_sample_only_first_transmission in E2. destruct E2 as [-> _].
        destruct ak; [discriminate E1|]. left. reflexivity.
      * right. apply (IH nx nx). rewrite K. exact H.
    + right. apply (IH mn nx). exact H.
Qed.

(* retransmitted chunks never produce a sample *)
Corollary karn_no_sample_from_retransmitted : forall chunks mn nx t ns ak,
  In t (snd (karn_sack mn nx chunks)) -> (forall c, In c chunks -> fst (fst c) = t -> c = (t, ns, ak)) -> ns = 1.
Proof.
  intros chunks mn nx t ns ak H U. pose proof (karn_sack_sound chunks mn nx t H) as H1.
  specialize (U (t, 1, false) H1 eq_refl). congruence.
Qed.

(* ================================================================================================ *)
(* ack decision                                                                                      *)
(* ================================================================================================ *)
Lemma ack_on_data_fields : forall a s l,
  ak_state (ack_on_data a s l) = ak_state a /\ ak_mode (ack_on_data a s l) = ak_mode a /\
  (ak_imm a = true -> ak_imm (ack_on_data a s l) = true) /\
  (ak_del a = true -> ak_del (ack_on_data a s l) = true) /\
  (ak_imm (ack_on_data a s l) = true \/ ak_del (ack_on_data a s l) = true) /\
  (s || l = true -> ak_imm (ack_on_data a s l) = true) /\
  (ak_state a <> c_ackStateIdle -> ak_imm (ack_on_data a s l) = true).
Proof.
  intros a s l. unfold ack_on_data.
  destruct (s || l || (ak_mode a =? c_ackModeNoDelay)) eqn:E1;
    [| destruct ((ak_mode a =? c_ackModeAlwaysDelay) ||
                 ((ak_mode a =? c_ackModeNormal) && negb (ak_state a =? c_ackStateImmediate))) eqn:E2;
       [destruct (ak_state a =? c_ackStateIdle) eqn:E3|] ];
    cbn [ak_state ak_mode ak_imm ak_del]; repeat split; auto;
    try (intro H; destruct s, l; cbn in E1; discriminate);
    try (intro H; lia).
Qed.

Definition ack_fold (a : ackst) (chunks : list (bool * bool)) : ackst :=
  fold_left (fun a ch => ack_on_data a (fst ch) (snd ch)) chunks a.

Lemma ack_fold_fields : forall chunks a,
  ak_state (ack_fold a chunks) = ak_state a /\ ak_mode (ack_fold a chunks) = ak_mode a /\
  (ak_imm a = true -> ak_imm (ack_fold a chunks) = true) /\
  (ak_del a = true -> ak_del (ack_fold a chunks) = true).
Proof.
  induction chunks as [|[s l] r IH]; intro a; [repeat split; auto|].
  unfold ack_fold in *. cbn [fold_left fst snd].
  destruct (IH (ack_on_data a s l)) as (H1 & H2 & H3 & H4).
  destruct (ack_on_data_fields a s l) as (G1 & G2 & G3 & G4 & _).
  repeat split; try congruence; auto.
Qed.

Lemma ack_fold_triggers : forall chunks a, chunks <> [] ->
  ak_imm (ack_fold a chunks) = true \/ ak_del (ack_fold a chunks) = true.
Proof.
  intros [|[s l] r] a H; [congruence|]. unfold ack_fold. cbn [fold_left fst snd].
  destruct (ack_on_data_fields a s l) as (_ & _ & _ & _ & [G|G] & _).
  - left. apply (ack_fold_fields r (ack_on_data a s l)). exact G.
  - right. apply (ack_fold_fields r (ack_on_data a s l)). exact G.
Qed.

Lemma ack_fold_gap_immediate : forall chunks a,
  (exists ch, In ch chunks /\ fst ch || snd ch = true) -> ak_imm (ack_fold a chunks) = true.
Proof.
  induction chunks as [|[s l] r IH]; intros a (ch & Hin & Hch); [destruct Hin|].
  unfold ack_fold in *. cbn [fold_left fst snd]. destruct Hin as [<-|Hin].
  - apply (ack_fold_fields r (ack_on_data a s l)).
    destruct (ack_on_data_fields a s l) as (_ & _ & _ & _ & _ & G & _). apply G. exact Hch.
  - apply IH. exists ch. split; assumption.
Qed.

(* After a packet that carried at least one DATA chunk the acknowledgement is either scheduled at once or the
   200 ms timer is running (the ack timer is closed only when the association is torn down). *)
Theorem ack_after_data : forall a tmr chunks, chunks <> [] ->
  tc_state tmr = tm_stopped \/ tc_state tmr = tm_started ->
  let r := ack_packet a tmr chunks in
  ak_state (fst r) = c_ackStateImmediate \/
  (ak_state (fst r) = c_ackStateDelay /\ tc_state (snd r) = tm_started).
Proof.
  intros a tmr chunks Hne Hst r. subst r. unfold ack_packet.
  fold (ack_fold (ack_chunks_start a) chunks).
  destruct (ack_fold_triggers chunks (ack_chunks_start a) Hne) as [Hi|Hd];
    unfold ack_chunks_end.
  - rewrite Hi. cbn [fst snd ak_state]. left. reflexivity.
  - destruct (ak_imm (ack_fold (ack_chunks_start a) chunks)); cbn [fst snd ak_state]; [left; reflexivity|].
    rewrite Hd. cbn [fst snd ak_state]. right. split; [reflexivity|].
    unfold ack_step. destruct Hst as [Hst|Hst]; rewrite Hst; cbn; [reflexivity | exact Hst].
Qed.

(* a gap (or an I bit, or a chunk arriving in SHUTDOWN-SENT) anywhere in the packet forces the immediate path *)
Theorem ack_gap_immediate : forall a tmr chunks,
  (exists ch, In ch chunks /\ fst ch || snd ch = true) ->
  ak_state (fst (ack_packet a tmr chunks)) = c_ackStateImmediate.
Proof.
  intros a tmr chunks H. unfold ack_packet. fold (ack_fold (ack_chunks_start a) chunks).
  unfold ack_chunks_end. rewrite (ack_fold_gap_immediate chunks (ack_chunks_start a) H). reflexivity.
Qed.

(* the delayed path arms the timer for exactly 200 ms and a later delayed packet cannot extend it: in state Delay
   every further DATA packet takes the immediate path *)
Theorem ack_delay_arms_200ms : forall a tmr chunks,
  tc_state tmr = tm_stopped ->
  ak_state (fst (ack_packet a tmr chunks)) = c_ackStateDelay -> ak_state a <> c_ackStateDelay ->
  tc_armed (snd (ack_packet a tmr chunks)) = Some (tc_gen tmr, tc_now tmr + 200 * 1000000).
Proof.
  intros a tmr chunks Hst. unfold ack_packet. fold (ack_fold (ack_chunks_start a) chunks).
  unfold ack_chunks_end.
  destruct (ak_imm (ack_fold (ack_chunks_start a) chunks)); cbn [fst snd ak_state].
  - intro H. discriminate H.
  - destruct (ak_del (ack_fold (ack_chunks_start a) chunks)); cbn [fst snd ak_state].
    + intros _ _. apply ack_start_arms. exact Hst.
    + intros H1 H2. exfalso. apply H2.
      destruct (ack_fold_fields chunks (ack_chunks_start a)) as (E & _). rewrite E in H1. exact H1.
Qed.

Theorem ack_second_packet_immediate : forall a tmr chunks, chunks <> [] ->
  ak_state a = c_ackStateDelay -> ak_state (fst (ack_packet a tmr chunks)) = c_ackStateImmediate.
Proof.
  intros a tmr [|[s l] r] Hne Hst; [congruence|]. unfold ack_packet.
  fold (ack_fold (ack_chunks_start a) ((s, l) :: r)). unfold ack_chunks_end.
  assert (Hi : ak_imm (ack_fold (ack_chunks_start a) ((s, l) :: r)) = true).
  { unfold ack_fold. cbn [fold_left fst snd].
    apply (ack_fold_fields r (ack_on_data (ack_chunks_start a) s l)).
    destruct (ack_on_data_fields (ack_chunks_start a) s l) as (_ & _ & _ & _ & _ & _ & G). apply G.
    cbn [ack_chunks_start ak_state]. rewrite Hst.
    unfold c_ackStateDelay, c_ackStateIdle. lia. }
  rewrite Hi. reflexivity.
Qed.

(* ================================================================================================ *)
(* duplicates (handleData after 19816ad)                                                             *)
(* ================================================================================================ *)
Lemma ack_record_duplicate_flag : forall q tsn,
  snd (ack_record_duplicate q tsn) =
  ack_duplicate_flag (can_push q tsn) (sna32GT tsn (wrap32 (cum q + max_off q))).
Proof.
  intros q tsn. unfold ack_record_duplicate, ack_duplicate_flag.
  destruct (can_push q tsn) eqn:C; [reflexivity|]. cbn [negb andb snd].
  unfold can_push in C. unfold push.
  destruct (sna32GT tsn (wrap32 (cum q + max_off q))) eqn:G; cbn [fst negb].
  - apply Nat.ltb_irrefl.
  - destruct (sna32LTE tsn (cum q) || has_chunk q tsn) eqn:D.
    + cbn [fst dups]. rewrite app_length. cbn [length]. apply Nat.ltb_lt. lia.
    + exfalso. rewrite orb_false_r in C.
      destruct (has_chunk q tsn), (sna32LTE tsn (cum q)); cbn in C, D; discriminate.
Qed.

(* a TSN at or below the cumulative point, or already held, that is not beyond the tracking window: it is recorded
   in the duplicate list (nothing else of the queue changes), the duplicate flag is set, createSelectiveAckChunk's
   popDuplicates returns it, and sackNow is true *)
Theorem ack_duplicate_recorded : forall q tsn,
  sna32LTE tsn (cum q) || has_chunk q tsn = true ->
  sna32GT tsn (wrap32 (cum q + max_off q)) = false ->
  let r := ack_record_duplicate q tsn in
  snd r = true /\ dups (fst r) = dups q ++ [tsn] /\ In tsn (snd (pop_duplicates (fst r))) /\
  cum (fst r) = cum q /\ tail (fst r) = tail q /\ size (fst r) = size q /\ bits (fst r) = bits q /\
  forall imm last st, ack_sack_now imm (snd r) tsn last st = true.
Proof.
  intros q tsn D G r.
  assert (C : can_push q tsn = false).
  { unfold can_push. rewrite G, orb_false_r.
    destruct (has_chunk q tsn), (sna32LTE tsn (cum q)); cbn in D |- *; try reflexivity; discriminate D. }
  assert (P : push q tsn =
              (mkRpq (cum q) (tail q) (size q) (bits q) (dups q ++ [tsn]) (max_off q) (nwords q), false)).
  { unfold push. rewrite G, D. reflexivity. }
  assert (F : (length (dups q) <? length (dups q ++ [tsn]))%nat = true).
  { rewrite app_length. cbn [length]. apply Nat.ltb_lt. lia. }
  subst r. unfold ack_record_duplicate. rewrite C, P. cbn [fst snd dups cum tail size bits pop_duplicates].
  split; [exact F|]. split; [reflexivity|]. split; [apply in_or_app; right; left; reflexivity|].
  repeat (split; [reflexivity|]).
  intros imm last st. unfold ack_sack_now. rewrite F.
  destruct (st =? c_shutdownSent); [reflexivity|]. apply orb_true_r.
Qed.

(* ... and the packet that carries it is acknowledged at once, whatever else it carries and whatever the ack
   state and mode were *)
Theorem ack_duplicate_immediate : forall q tsn a tmr before after imm last st loss,
  sna32LTE tsn (cum q) || has_chunk q tsn = true ->
  sna32GT tsn (wrap32 (cum q + max_off q)) = false ->
  let dup := snd (ack_record_duplicate q tsn) in
  ak_state (fst (ack_packet a tmr (before ++ (ack_sack_now imm dup tsn last st, loss) :: after))) = c_ackStateImmediate.
Proof.
  intros q tsn a tmr before after imm last st loss D G dup.
  apply ack_gap_immediate. exists (ack_sack_now imm dup tsn last st, loss). split.
  - apply in_or_app. right. left. reflexivity.
  - cbn [fst snd]. destruct (ack_duplicate_recorded q tsn D G) as (_ & _ & _ & _ & _ & _ & _ & H).
    subst dup. rewrite H. reflexivity.
Qed.

(* a chunk beyond the tracking window is not a duplicate: nothing is recorded *)
Lemma ack_beyond_window_not_duplicate : forall q tsn,
  sna32GT tsn (wrap32 (cum q + max_off q)) = true -> ack_record_duplicate q tsn = (q, false).
Proof.
  intros q tsn G. unfold ack_record_duplicate, can_push. rewrite G, !orb_true_r. unfold push. rewrite G.
  cbn [fst]. rewrite Nat.ltb_irrefl. reflexivity.
Qed.
