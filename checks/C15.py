"""C15 — buffered-amount accounting is exact and the low-threshold callback fires."""
import vlib, simcommon

PROP = "C15"
PROPS_FILE = "props/C15.v"
COQ_FILES = ["gen/Gen.v", "proofs/SnaProofs.v", "model/Sender.v", "proofs/SenderProofs.v", "model/StreamW.v",
             "proofs/StreamWProofs.v", "model/BufLow.v", "proofs/BufLowProofs.v", "props/C15.v"]
TRUSTED_BASE = [
    "Coq 8.16.1 kernel; vm_compute only in Examples; no native_compute",
    "hand-written models coq/model/Sender.v (Stream.packetize / onBufferReleased, processSelectiveAck byte accounting, markAsAcked) "
    "and coq/model/StreamW.v (Stream.WriteSCTP incl. the roll-back of a refused write)",
    "coq/model/BufLow.v (Stream.onBufferReleased: clamp and callback decision), compared call by call and history by history with "
    "the real Stream object (go/inpkg/zz_verif_buflow_test.go, ocaml/cmp_buflow.ml)",
    "extraction (ExtrOcamlBasic) + ocaml/cmp_sender.ml; simulator harness (overlay, synctest, go1.26.8)",
    "modelled, not verified: the callback is invoked after Stream.lock is released (read off stream.go:onBufferReleased; the lock-set "
    "computation of C20 covers it), goroutine scheduling",
]
ASSUMPTIONS = [
    "abandoned chunks (partial reliability) are outside the Sender.v theorem (sc_aband is carried but never set by its events); their "
    "release through FORWARD-TSN + cumulative ack is covered by the white-box monitor on the PR simulations and scenarios",
    "theorem is stated for histories without stream deregistration (inbound reset removes a stream from the association map while "
    "its data may still be in flight; the release is then skipped) — exercised by the reset scenarios, not by this theorem",
]
LEVEL_TEXT = ("Coq theorem over all write / gather / SACK (incl. gap-ack then cumulative ack, stale and rejected SACKs) / T3 "
              "histories: per registered stream, bufferedAmount = pending bytes + un-acknowledged in-flight bytes; the in-flight "
              "counter equals the sum of un-acked payloads; the underflow clamp is unreachable; back to zero when drained. Tied to the "
              "code by step-commuting records (per-stream figures compared after every event) and a white-box monitor at quiescent points.")
LEVEL_NOTE = ("Trusted: Coq kernel, hand models, extraction, simulator. The callback firing rule is proved on BufLow.v for all "
              "histories of writes and releases (fires for each downward crossing and only then) and tied to Stream.onBufferReleased by "
              "a call-by-call differential; that it runs without internal locks is C20's lock-set theorem plus the re-entrant "
              "callback of the differential and the threshold-crossing scenario.")
TECHNIQUE = "Coq proof (accounting invariant over histories) + step-commuting correspondence on simulated associations"


def correspondence(ctx):
    vlib.differential(ctx, "sender-step-commuting", "TestVerifSimSender", "sender",
                      {"VERIF_N": ctx.scale(40, 1500), "VERIF_EVENTS": 250}, timeout=3000)
    vlib.differential(ctx, "streamw-differential", "TestVerifStreamW", "streamw", {"VERIF_N": ctx.scale(300, 6000)})
    vlib.differential(ctx, "buflow-differential", "TestVerifBufLow", "buflow", {"VERIF_N": ctx.scale(4000, 200000)})
    simcommon.transfer(ctx)
    # partially reliable traffic: abandoned chunks are released through FORWARD-TSN + cumulative ack
    simcommon.sim_monitor(ctx, "pr-sims-buffered", "TestVerifSimPR", {"VERIF_N": ctx.scale(40, 600)}, "SIMPR")
    simcommon.sim_monitor(ctx, "pr-scenarios-buffered", "TestVerifScenPR", {}, "SCENPR")
    simcommon.sim_monitor(ctx, "buffered-low-callback", "TestVerifScenBufferedLow", {"VERIF_N": ctx.scale(20, 300)}, "SCENBUFLOW")


def search(ctx):
    simcommon.sim_monitor(ctx, "sim-transfer-wide", "TestVerifSimTransfer",
                          {"VERIF_N": 600, "VERIF_EVENTS": 300, "VERIF_SEED": ctx.seed + 17}, "SIMTRANSFER")
