"""C11 — receive-window accounting and memory bound."""
import os
import vlib

PROP = "C11"
PROPS_FILE = "props/C11.v"
COQ_FILES = ["gen/Gen.v", "proofs/SnaProofs.v", "model/RQ.v", "model/RPQ.v", "proofs/RPQProofs.v", "proofs/RQProofs.v",
             "model/E2E.v", "proofs/E2EProofs.v", "props/C11.v", "props/RQSafety.v"]
TRUSTED_BASE = [
    "Coq 8.16.1 kernel; vm_compute only in Examples/refutation witnesses; no native_compute",
    "translator (serial arithmetic, isReassemblyQueueLimitReached) + hand-written model coq/model/RQ.v of "
    "reassembly_queue.go and of getMyReceiverWindowCredit (incl. the detached streams of 243f816)/acceptPayloadData (association.go); "
    "canPush from coq/model/RPQ.v; the inbound stream reset (resetStreamsIfAny: stream leaves the map, kept as detached while it holds "
    "data) is e2e_reset in coq/model/E2E.v",
    "extraction (ExtrOcamlBasic only) + /verif/ocaml/cmp_rq.ml; Go harness zz_verif_rq_test.go, zz_verif_rqmon_test.go, zz_verif_rqdrain_test.go (overlay)",
    "modelled, not verified: sort.Slice is the transcribed insertion sort (Go's algorithm for n <= 12); above 12 elements the "
    "differential only generates slices whose keys are distinct within a quarter of the number space (strict total order), where "
    "every sort agrees - no theorem depends on the sort beyond its being a permutation; orderedMIDMap is the orderedMID slice "
    "(pointer identity checked in every dump); unorderedMIDMap is an association list dumped in key order",
]
ASSUMPTIONS = [
    "hypothesis of the counter theorems: payload bytes pushed over the whole history < 2^63 (uint64 counter read through int())",
    "association level: a_rwnd / admission are pure functions of (buffer, counters of the streams in the map, TSN bitmap); their "
    "call sites are exercised by the bare-association monitors TestVerifRQWindow and TestVerifRQDrain (handleChunk: sender-like traffic with "
    "losses, duplicates, FORWARD-TSN / I-FORWARD-TSN built as a sender builds them, hostile TSNs anywhere in the number space; at the end "
    "everything is abandoned or read and the window must be the whole buffer), not by a step check of the full association",
]


def _key(line):
    parts = line.split()
    return "c11-" + parts[1] if len(parts) > 1 else "c11-unknown"


def correspondence(ctx):
    corpus = os.path.join(vlib.VERIF, "corpus/rq.ops")
    vlib.differential(ctx, "rq-differential", "TestVerifRQ", "rq",
                      {"VERIF_N": ctx.scale(400, 12000), "VERIF_OPS": ctx.scale(100, 140), "VERIF_CORPUS": corpus})
    vlib.monitor(ctx, "rq-predicates-on-implementation", "TestVerifRQMon",
                 {"VERIF_N": ctx.scale(1500, 40000), "VERIF_OPS": 120},
                 fail_prefixes=("RQMON ",), classify=_key, summary_prefix="RQMONSUM")
    vlib.monitor(ctx, "assoc-window-on-implementation", "TestVerifRQWindow",
                 {"VERIF_N": ctx.scale(120, 3000), "VERIF_OPS": 250, "VERIF_CORPUS": os.path.join(vlib.VERIF, "corpus/rqwin.ops")},
                 fail_prefixes=("RQWIN ",), classify=_key, summary_prefix="RQWINSUM")
    # association level: credit over map + detached streams, inbound resets, reads on detached streams (E2E.v)
    vlib.differential(ctx, "e2e-receiver-step-commuting", "TestVerifE2ERecv", "e2e",
                      {"VERIF_N": ctx.scale(100, 3000), "VERIF_OPS": 160})
    vlib.monitor(ctx, "assoc-drain-to-full-window", "TestVerifRQDrain",
                 {"VERIF_N": ctx.scale(300, 6000), "VERIF_OPS": 200},
                 fail_prefixes=("RQDRAIN ",), classify=_key, summary_prefix="RQDRAINSUM")


def search(ctx):
    vlib.monitor(ctx, "rq-predicates-wide", "TestVerifRQMon", {"VERIF_N": 20000, "VERIF_OPS": 160, "VERIF_SEED": ctx.seed + 17},
                 fail_prefixes=("RQMON ",), classify=_key, summary_prefix="RQMONSUM")
    vlib.monitor(ctx, "assoc-window-wide", "TestVerifRQWindow", {"VERIF_N": 1500, "VERIF_OPS": 300, "VERIF_SEED": ctx.seed + 17},
                 fail_prefixes=("RQWIN ",), classify=_key, summary_prefix="RQWINSUM")


LEVEL_TEXT = ("Coq theorems over all operation histories of the reassembly queue (arbitrary, also hostile chunks in all four "
              "modes, reads with any buffer length, the four forward operations, any cursor start values and entry limit): the "
              "byte counter equals the payload bytes held, the clamp of subtractNumBytes is unreachable, counter 0 iff only "
              "empty payloads are held; a_rwnd = max 0 (buffer - sum of counters); admission implies the TSN window and, at "
              "zero credit, a TSN strictly below the highest received; the window counts the unread data of streams the peer has "
              "reset (detached streams, fix 243f816) and a reset does not change it (c11_window_counts_reset_streams, "
              "c11_reset_keeps_window). The memory clause is refuted for empty payloads (theorem "
              "c11_memory_bound_refuted_zero_length, finding D13). Model tied to reassembly_queue.go by an operation-sequence "
              "differential with a full state dump after every operation, to the association-level functions by the composed-receiver "
              "step-commuting differential (arrivals, reads, inbound resets, reads on detached streams, window compared in every "
              "state) and by predicate monitors on the implementation.")
LEVEL_NOTE = ("Trusted: Coq kernel, hand-written model RQ.v, extraction, harness. Hypothesis: < 2^63 payload bytes pushed per "
              "history. The sort hypothesis (see trusted base) restricts the differential's generator for slices above 12 elements, "
              "not the theorems.")
TECHNIQUE = "Coq proof (conservation for every weight function + invariants over histories) + differential correspondence + monitors"
