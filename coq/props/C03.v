(* C03 — no inbound bytes can crash, hang or corrupt an endpoint.
   The property is a conjunction over the inbound path; each clause is a theorem about the model of the
   code that implements it (Codec.v: packet.unmarshal; Inbound.v: dispatch guards; Sender.v: SACK
   processing; RPQ.v: receive bitmap / FORWARD-TSN; RQ.v: reassembly; Handshake.v: stale handshake chunks).
   All model functions are total Coq functions: loops are structural or carry explicit fuel, and the
   theorems below exclude the Panic / OutOfFuel results.  Only statements closed by [exact]. *)
From Coq Require Import ZArith Bool List.
From Sctp Require Import Gen SnaProofs Codec CodecProofs Inbound InboundProofs Sender SenderProofs RPQ RPQProofs RQ RQProofs
  Handshake HandshakeProofs.
Import ListNotations.
Open Scope Z_scope.

(* 1. decoding: for every byte string the packet decoder neither reads out of bounds nor runs out of fuel *)
Theorem c03_decoder_total : forall doChecksum ck_ok raw,
  cd_bytes raw = true ->
  cd_dec_packet doChecksum ck_ok raw <> CPanic /\ cd_dec_packet doChecksum ck_ok raw <> CFuel.
Proof. exact dec_total. Qed.
Print Assumptions c03_decoder_total.

(* 2. a chunk of the wrong kind (DATA under interleaving, I-DATA without, either FORWARD-TSN variant) is
      answered with a protocol-violation ABORT; payload chunks outside the data-receiving states are dropped *)
Theorem c03_wrong_kind_data_aborts : forall c,
  ib_complete_pending c = false -> isDataReceiveState (ib_state c) = true ->
  (ib_use_il c = true -> ib_dispatch c IbData = IbAbort) /\
  (ib_use_il c = false -> ib_dispatch c IbIData = IbAbort) /\
  (ib_use_il c = false -> ib_dispatch c IbData = IbProcess) /\
  (ib_use_il c = true -> ib_dispatch c IbIData = IbProcess).
Proof. exact ib_wrong_kind_data_aborts. Qed.
Print Assumptions c03_wrong_kind_data_aborts.

Theorem c03_wrong_kind_forward_tsn_aborts : forall c,
  (ib_use_il c = true -> ib_dispatch c IbFwd = IbAbort) /\
  (ib_use_ifwd c = false -> ib_dispatch c IbIFwd = IbAbort).
Proof. exact ib_wrong_kind_fwd_aborts. Qed.
Print Assumptions c03_wrong_kind_forward_tsn_aborts.

Theorem c03_data_ignored_outside_receive_states : forall c k,
  (k = IbData \/ k = IbIData) ->
  (ib_complete_pending c = true \/ isDataReceiveState (ib_state c) = false) -> ib_dispatch c k = IbIgnore.
Proof. exact ib_data_ignored_outside_receive_states. Qed.
Print Assumptions c03_data_ignored_outside_receive_states.

(* 3. acknowledgements: whole-SACK validation precedes every mutation.  A SACK with a zero or reversed gap
      block, or naming a TSN the in-flight queue does not hold (never sent / already released), is rejected;
      a SACK older than the cumulative ack point or arriving outside the data states is ignored *)
Theorem c03_invalid_sack_rejected : forall s cum arwnd gaps,
  state_accepts_sack (st_state s) = true -> sna32GT (st_cum s) cum = false ->
  sack_valid s cum gaps = false -> sack_step s cum arwnd gaps = SErr.
Proof. exact sack_invalid_rejected. Qed.
Print Assumptions c03_invalid_sack_rejected.

Theorem c03_valid_sack_names_only_inflight : forall s cum gaps gs ge,
  sack_valid s cum gaps = true -> In (gs, ge) gaps ->
  gs <> 0 /\ gs <= ge /\ infl_get s (wrap32 (cum + gs)) <> None /\ infl_get s (wrap32 (cum + ge)) <> None.
Proof. exact sack_valid_gap_conditions. Qed.
Print Assumptions c03_valid_sack_names_only_inflight.

Theorem c03_valid_sack_cum_in_flight : forall s cum gaps,
  sack_valid s cum gaps = true -> sna32LT (st_cum s) cum = true ->
  infl_get s (wrap32 (st_cum s + 1)) <> None /\ infl_get s cum <> None.
Proof. exact sack_valid_cum_in_flight. Qed.
Print Assumptions c03_valid_sack_cum_in_flight.

Theorem c03_stale_sack_ignored : forall s cum arwnd gaps,
  state_accepts_sack (st_state s) = true -> sna32GT (st_cum s) cum = true -> sack_step s cum arwnd gaps = SOk s.
Proof. exact sack_stale_ignored. Qed.
Print Assumptions c03_stale_sack_ignored.

(* the rejected / stale SACK leaves the whole sender state alone, in every history *)
Theorem c03_rejected_sack_no_effect : forall s g cum arwnd gaps,
  sack_step s cum arwnd gaps = SErr -> sstep (s, g) (EvSack cum arwnd gaps) = Some (s, g).
Proof. intros s g cum arwnd gaps H. cbn. rewrite H. reflexivity. Qed.
Print Assumptions c03_rejected_sack_no_effect.

(* an accepted SACK releases exactly the bytes it acknowledges: the accounting invariant is preserved and
   in-flight bytes never grow (unacknowledged data is not released: C15's theorem gives the exact figure) *)
Theorem c03_accepted_sack_releases_only_acked : forall s cum arwnd gaps s' pend,
  sack_step s cum arwnd gaps = SOk s' -> BI s pend ->
  BI s' pend /\ st_nbytes s' <= st_nbytes s /\ map fst (st_buffered s') = map fst (st_buffered s).
Proof. exact sack_step_BI. Qed.
Print Assumptions c03_accepted_sack_releases_only_acked.

(* 4. a FORWARD-TSN at or behind the cumulative point (or more than half the number space ahead) leaves the
      receive queue untouched; an accepted one moves the point exactly to the named TSN *)
Theorem c03_forward_tsn_behind_is_noop : forall q c, Inv q -> in32 c ->
  let a := dist (cum q) c in
  Inv (advance q c) /\
  (if (0 <? a) && (a <? H31)
   then cum (advance q c) = c /\ forall o, 1 <= o -> (held (advance q c) o <-> held q (o + a))
   else advance q c = q).
Proof. exact advance_spec. Qed.
Print Assumptions c03_forward_tsn_behind_is_noop.

(* 5. reassembly: no chunk, however hostile, makes the queue panic; its well-formedness is an invariant *)
Theorem c03_reassembly_never_panics : forall q0 ops c, rq_empty q0 -> snd (rq_push (rq_run q0 ops) c) <> RqPanic.
Proof. exact rq_no_panic_thm. Qed.
Print Assumptions c03_reassembly_never_panics.

(* 6. stale handshake chunks do not disturb an established association *)
Theorem c03_stale_handshake_chunks_noop : forall e,
  hs_st e = HsEstablished -> hs_started e = true -> hs_frozen e = false ->
  (forall f i g z, hs_ep_step e (HsDeliver (HsInit f i g z)) = (e, [], HsEInitState)) /\
  (forall f i g z c, hs_ep_step e (HsDeliver (HsInitAck f i g z c)) = (e, [], HsENone)) /\
  hs_ep_step e (HsDeliver HsCookieAck) = (e, [], HsENone) /\
  (hs_cookie e = true -> hs_ep_step e (HsDeliver (HsCookieEcho true)) = (e, [HsCookieAck], HsENone)) /\
  hs_ep_step e (HsDeliver (HsCookieEcho false)) = (e, [], HsENone) /\
  (hs_cookie e = false -> forall m, hs_ep_step e (HsDeliver (HsCookieEcho m)) = (e, [], HsENone)).
Proof. exact hs_stale_noop. Qed.
Print Assumptions c03_stale_handshake_chunks_noop.

(* non-vacuity: a concrete in-flight state, a valid SACK, an invalid one, a stale one *)
Example c03_example_sacks :
  let s := mkS c_established 99 100 [mkSC 1 500 false false 0 false; mkSC 1 500 false false 0 false; mkSC 2 300 false false 0 false]
               1300 4380 5000 5000 0 false 0 false 1200 0 0 0 0 [(1, 1000); (2, 300)] in
  sack_valid s 100 [(2, 2)] = true /\ sack_valid s 100 [(2, 5)] = false /\ sack_valid s 103 [] = false /\
  sack_step s 100 9000 [(5, 3)] = SErr /\ sack_step s 98 9000 [] = SOk s /\
  match sack_step s 100 9000 [(2, 2)] with SOk s' => st_nbytes s' = 500 /\ st_buffered s' = [(1, 500); (2, 0)] | SErr => False end.
Proof. vm_compute. repeat split; reflexivity. Qed.
