// locktranslator: package sctp (non-test files of /repo, type-checked with go/types) ->
// coq/gen/LockGraph.v, the lock / call / blocking-operation / field-access abstraction that
// coq/model/LockCheck.v decides (property C20).  Regenerated on every check run.
//
// What the abstraction keeps (trusted subset semantics, see notes/C20.md):
//   - sync.Mutex / sync.RWMutex operations on struct fields: the mutex CLASS is (struct type, field);
//     all instances of a class are identified.
//   - defer: the deferred call is inlined, in LIFO order, before every return that follows its
//     registration (conditionally registered defers become Choice[Skip, call]).
//   - return / break / continue: Block + Exit n.   if/switch/select: Choice (conditions are dropped,
//     except conditions on immutable configuration flags: IfFlag).   for/range: Loop (0 or more times).
//   - calls: static calls by go/types resolution; calls through package interfaces: Choice over all
//     implementations in the package (+ a user callback when the interface is exported with exported
//     methods only); calls of function-typed fields / variables: user callbacks;
//     net.Conn methods: external calls; channel operations, sync.Cond, sync.Once, sync/atomic: own atoms.
//   - field accesses (read / write / atomic) of the tracked struct types.
//
// Anything it cannot classify in a function that is reachable from a root or that touches a lock
// makes it exit with status 2 and a message; it never guesses.
//
// usage: locktranslator <repo dir> <out.v> [<out.json>]
package main

import (
	"encoding/json"
	"fmt"
	"go/ast"
	"go/importer"
	"go/parser"
	"go/token"
	"go/types"
	"os"
	"path/filepath"
	"sort"
	"strings"
)

// struct types whose field accesses are recorded
var trackedTypes = []string{"Association", "Stream", "rtxTimer", "ackTimer", "rtoManager",
	"pendingQueue", "payloadQueue", "receivePayloadQueue", "reassemblyQueue", "controlQueue"}

// immutable configuration flags (verified: never assigned outside a composite literal)
var flagFields = []string{"Association.blockWrite"}

func die(code int, format string, a ...interface{}) {
	fmt.Fprintf(os.Stderr, "locktranslator: "+format+"\n", a...)
	os.Exit(code)
}

func main() {
	if len(os.Args) < 3 {
		die(2, "usage: locktranslator <repo dir> <out.v> [<out.json>]")
	}
	dir, _ := filepath.Abs(os.Args[1])
	outV := os.Args[2]
	outJ := ""
	if len(os.Args) > 3 {
		outJ = os.Args[3]
	}
	cwd, _ := os.Getwd()
	if !filepath.IsAbs(outV) {
		outV = filepath.Join(cwd, outV)
	}
	if outJ != "" && !filepath.IsAbs(outJ) {
		outJ = filepath.Join(cwd, outJ)
	}
	if err := os.Chdir(dir); err != nil { // the source importer resolves module imports relative to the cwd
		die(2, "%v", err)
	}
	fset := token.NewFileSet()
	ents, err := os.ReadDir(dir)
	if err != nil {
		die(2, "%v", err)
	}
	var files []*ast.File
	for _, e := range ents {
		n := e.Name()
		if !strings.HasSuffix(n, ".go") || strings.HasSuffix(n, "_test.go") {
			continue
		}
		f, err := parser.ParseFile(fset, filepath.Join(dir, n), nil, parser.ParseComments)
		if err != nil {
			die(2, "parse: %v", err)
		}
		files = append(files, f)
	}
	var terrs []string
	conf := types.Config{Importer: importer.ForCompiler(fset, "source", nil), Error: func(err error) { terrs = append(terrs, err.Error()) }}
	info := &types.Info{Types: map[ast.Expr]types.TypeAndValue{}, Uses: map[*ast.Ident]types.Object{}, Defs: map[*ast.Ident]types.Object{},
		Selections: map[*ast.SelectorExpr]*types.Selection{}}
	pkg, _ := conf.Check("github.com/pion/sctp", fset, files, info)
	if len(terrs) > 0 {
		die(2, "type check failed (is the translator built with the go toolchain required by /repo/go.mod?):\n  %s", strings.Join(terrs, "\n  "))
	}

	t := &T{fset: fset, pkg: pkg, info: info, fns: map[types.Object]*Fn{}, lits: map[*ast.FuncLit]*Fn{},
		tracked: map[string]bool{}, mutexes: map[string]string{}, condMutex: map[string]string{}, flags: map[string]bool{},
		flagFuncs: map[string]string{}, roots: map[string]string{}, ignored: map[string]int{}, userIDs: map[string]bool{},
		fresh: map[types.Object]bool{}, alias: map[types.Object]ast.Expr{}, chanByObj: map[types.Object]string{}}
	for _, n := range trackedTypes {
		if pkg.Scope().Lookup(n) == nil {
			die(2, "tracked type %s does not exist any more", n)
		}
		t.tracked[n] = true
	}
	for _, f := range flagFields {
		t.flags[f] = true
	}

	// ---- declared functions
	for _, f := range files {
		for _, d := range f.Decls {
			fd, ok := d.(*ast.FuncDecl)
			if !ok || fd.Body == nil {
				continue
			}
			obj := info.Defs[fd.Name]
			fn := &Fn{Name: fd.Name.Name, Pos: fd.Pos(), Decl: fd, Exported: fd.Name.IsExported()}
			if fd.Recv != nil && len(fd.Recv.List) == 1 {
				if n := derefNamed(info.Types[fd.Recv.List[0].Type].Type); n != nil {
					fn.Recv = n.Obj().Name()
					fn.Name = fn.Recv + "." + fd.Name.Name
				}
			}
			t.fns[obj] = fn
			t.order = append(t.order, fn)
		}
	}
	sort.SliceStable(t.order, func(i, j int) bool { return t.order[i].Name < t.order[j].Name })

	// ---- pre-pass: cond -> mutex, flag immutability, flag getters
	for _, f := range files {
		ast.Inspect(f, func(n ast.Node) bool {
			as, ok := n.(*ast.AssignStmt)
			if !ok {
				return true
			}
			for i, l := range as.Lhs {
				se, ok := unparen(l).(*ast.SelectorExpr)
				if !ok {
					continue
				}
				owner, field, _, ok := t.fieldOf(se)
				if !ok {
					continue
				}
				if t.flags[owner+"."+field] {
					die(2, "%s: flag field %s.%s is assigned; it can no longer be treated as an immutable flag", fset.Position(as.Pos()), owner, field)
				}
				if len(as.Rhs) == len(as.Lhs) {
					if call, ok := unparen(as.Rhs[i]).(*ast.CallExpr); ok {
						if se2, ok := unparen(call.Fun).(*ast.SelectorExpr); ok && se2.Sel.Name == "NewCond" && len(call.Args) == 1 {
							if u, ok := unparen(call.Args[0]).(*ast.UnaryExpr); ok && u.Op == token.AND {
								if ms, ok := unparen(u.X).(*ast.SelectorExpr); ok {
									if mo, mf, _, ok := t.fieldOf(ms); ok {
										t.condMutex[owner+"."+field] = mo + "." + mf
									}
								}
							}
						}
					}
				}
			}
			return true
		})
	}
	for _, fn := range t.order {
		fd := fn.Decl.(*ast.FuncDecl)
		if len(fd.Body.List) == 1 {
			if r, ok := fd.Body.List[0].(*ast.ReturnStmt); ok && len(r.Results) == 1 {
				if se, ok := unparen(r.Results[0]).(*ast.SelectorExpr); ok {
					if owner, field, _, ok := t.fieldOf(se); ok && t.flags[owner+"."+field] {
						t.flagFuncs[fn.Name] = owner + "." + field
					}
				}
			}
		}
	}

	// ---- translate (literals are appended to t.order while their parents are translated)
	for i := 0; i < len(t.order); i++ {
		t.translateFn(t.order[i])
	}
	for _, fn := range t.order {
		if fn.IsLit && !fn.Invoked {
			t.addRoot(fn.Name, "closure")
		}
	}

	// ---- API roots
	for _, fn := range t.order {
		if fn.IsLit || !fn.Exported {
			continue
		}
		if fn.Recv == "" {
			t.addRoot(fn.Name, "ctor")
		} else if o := pkg.Scope().Lookup(fn.Recv); o != nil && o.Exported() {
			t.addRoot(fn.Name, "api")
		}
	}

	byName := map[string]*Fn{}
	for _, fn := range t.order {
		byName[fn.Name] = fn
	}

	// ---- relevance, reachability, read pruning
	keepAll := func(a Atom) bool { return true }
	relevant := map[*Fn]bool{}
	computeRelevance := func(keep func(Atom) bool) {
		for k := range relevant {
			delete(relevant, k)
		}
		for changed := true; changed; {
			changed = false
			for _, fn := range t.order {
				if relevant[fn] {
					continue
				}
				s := simplify(fn.Body, keep, func(f *Fn) bool { return relevant[f] })
				if hasEffect(s) {
					relevant[fn] = true
					changed = true
				}
			}
		}
	}
	reachable := func() map[*Fn]bool {
		seen := map[*Fn]bool{}
		var visit func(fn *Fn)
		visit = func(fn *Fn) {
			if seen[fn] {
				return
			}
			seen[fn] = true
			walk(fn.Body, func(s Stmt) {
				switch x := s.(type) {
				case CallS:
					visit(x.F)
				case Atom:
					if x.Fn != nil {
						visit(x.Fn)
					}
				}
			})
		}
		for _, r := range t.rootOrder {
			visit(byName[r])
		}
		return seen
	}
	computeRelevance(keepAll)
	reach := reachable()
	written := map[string]bool{}
	for _, fn := range t.order {
		if !reach[fn] {
			continue
		}
		walk(fn.Body, func(s Stmt) {
			if a, ok := s.(Atom); ok && (a.Kind == "write" || a.Kind == "atomic") {
				written[a.Obj] = true
			}
		})
	}
	keep := func(a Atom) bool { return a.Kind != "read" || written[a.Obj] }
	computeRelevance(keep)

	// ---- refusals
	var fatal, warn []string
	for _, fn := range t.order {
		if len(fn.Refused) == 0 {
			continue
		}
		touches := false
		walk(fn.Body, func(s Stmt) {
			if a, ok := s.(Atom); ok && (a.Kind == "lock" || a.Kind == "unlock" || a.Kind == "rlock" || a.Kind == "runlock") {
				touches = true
			}
		})
		for _, r := range fn.Refused {
			msg := fmt.Sprintf("%s (in %s)", r, fn.Name)
			if touches || reach[fn] {
				fatal = append(fatal, msg)
			} else {
				warn = append(warn, msg)
			}
		}
	}
	// fmt may call String()/Error() implicitly: they must be irrelevant
	for _, fn := range t.order {
		if i := strings.LastIndex(fn.Name, "."); i >= 0 {
			switch fn.Name[i+1:] {
			case "String", "Error", "GoString", "Format":
				if relevant[fn] {
					fatal = append(fatal, fmt.Sprintf("%s: %s may be called implicitly by fmt but touches locks/tracked state", t.fset.Position(fn.Pos), fn.Name))
				}
			}
		}
	}
	if len(fatal) > 0 {
		die(2, "REFUSED: constructs that cannot be classified:\n  %s", strings.Join(fatal, "\n  "))
	}

	emit(t, byName, relevant, reach, keep, warn, outV, outJ)
}

// ---------------------------------------------------------------- emission

func coqIdent(s string) string {
	var b strings.Builder
	for _, r := range s {
		switch {
		case r >= 'a' && r <= 'z', r >= 'A' && r <= 'Z', r >= '0' && r <= '9', r == '_':
			b.WriteRune(r)
		case r == '$':
			b.WriteString("_lit")
		default:
			b.WriteRune('_')
		}
	}
	return b.String()
}

type table struct {
	prefix string
	names  []string
	id     map[string]int
}

func newTable(prefix string, set map[string]bool) *table {
	tb := &table{prefix: prefix, id: map[string]int{}}
	tb.names = sortedKeys(set)
	for i, n := range tb.names {
		tb.id[n] = i
	}
	return tb
}

func (tb *table) ref(n string) string { return tb.prefix + coqIdent(n) }

var kindCoq = map[string]string{
	"user": "KUser", "ext": "KExt", "send": "KSend", "recv": "KRecv", "trysend": "KTrySend", "tryrecv": "KTryRecv",
	"selsend": "KSelSend", "selrecv": "KSelRecv", "close": "KClose", "wait": "KWait", "signal": "KSignal",
	"write": "KWrite", "read": "KRead", "atomic": "KAtomic", "go": "KGo",
}

type emitter struct {
	t                          *T
	mu, fl, fd, ch, cv, cb, ex *table
	fnID                       map[*Fn]int
	relevant                   map[*Fn]bool
}

func (e *emitter) atom(a Atom) string {
	switch a.Kind {
	case "lock":
		return "lk " + e.mu.ref(a.Obj)
	case "unlock":
		return "ul " + e.mu.ref(a.Obj)
	case "rlock":
		return "rlk " + e.mu.ref(a.Obj)
	case "runlock":
		return "rul " + e.mu.ref(a.Obj)
	case "go":
		return fmt.Sprintf("act KGo %s", fnRef(a.Fn))
	case "user":
		return "act KUser " + e.cb.ref(a.Obj)
	case "ext":
		return "act KExt " + e.ex.ref(a.Obj)
	case "wait", "signal":
		return "act " + kindCoq[a.Kind] + " " + e.cv.ref(a.Obj)
	case "write", "read", "atomic":
		return "act " + kindCoq[a.Kind] + " " + e.fd.ref(a.Obj)
	case "send", "recv", "trysend", "tryrecv", "selsend", "selrecv", "close":
		return "act " + kindCoq[a.Kind] + " " + e.ch.ref(a.Obj)
	}
	panic("atom kind " + a.Kind)
}

func fnRef(fn *Fn) string { return "fn_" + coqIdent(fn.Name) }

func (e *emitter) stmt(s Stmt, ind string) string {
	switch x := s.(type) {
	case Skip:
		return "SSkip"
	case Atom:
		return e.atom(x)
	case CallS:
		return "SCall " + fnRef(x.F)
	case Exit:
		return fmt.Sprintf("SExit %d (* %s *)", x.N, x.Why)
	case Seq:
		p := make([]string, len(x.L))
		for i, el := range x.L {
			p[i] = e.stmt(el, ind+" ")
		}
		return "(" + strings.Join(p, " ;;\n"+ind+" ") + ")"
	case Choice:
		p := make([]string, len(x.L))
		for i, el := range x.L {
			p[i] = e.stmt(el, ind+"  ")
		}
		return "(" + strings.Join(p, "\n"+ind+" [+] ") + ")"
	case Loop:
		return "SLoop (" + e.stmt(x.B, ind+"  ") + ")"
	case Block:
		return "SBlock (" + e.stmt(x.B, ind+"  ") + ")"
	case IfFlag:
		return "SIfFlag " + e.fl.ref(x.Flag) + "\n" + ind + "  (" + e.stmt(x.A, ind+"   ") + ")\n" + ind + "  (" + e.stmt(x.B, ind+"   ") + ")"
	}
	panic(fmt.Sprintf("emit %T", s))
}

type jAtom struct {
	Kind string `json:"kind"`
	Obj  string `json:"obj"`
	Pos  string `json:"pos"`
}
type jFn struct {
	ID    int     `json:"id"`
	Name  string  `json:"name"`
	Pos   string  `json:"pos"`
	Atoms []jAtom `json:"atoms"`
	Calls []jAtom `json:"calls"`
}
type jOut struct {
	Mutexes    []string            `json:"mutexes"`
	MutexKind  map[string]string   `json:"mutex_kind"`
	Flags      []string            `json:"flags"`
	Fields     []string            `json:"fields"`
	Chans      []string            `json:"chans"`
	Conds      []string            `json:"conds"`
	Users      []string            `json:"users"`
	Exts       []string            `json:"exts"`
	Funcs      []jFn               `json:"funcs"`
	Roots      []map[string]string `json:"roots"`
	Ignored    map[string]int      `json:"ignored_external_calls"`
	Notes      []string            `json:"notes"`
	Warnings   []string            `json:"unclassified_in_unreachable_lock_free_functions"`
	Irrelevant int                 `json:"functions_with_empty_abstraction"`
}

func emit(t *T, byName map[string]*Fn, relevant, reach map[*Fn]bool, keep func(Atom) bool, warn []string, outV, outJ string) {
	callRel := func(f *Fn) bool { return relevant[f] }
	var funs []*Fn
	bodies := map[*Fn]Stmt{}
	for _, fn := range t.order {
		if relevant[fn] {
			funs = append(funs, fn)
			bodies[fn] = simplify(fn.Body, keep, callRel)
		}
	}
	sort.SliceStable(funs, func(i, j int) bool { return funs[i].Name < funs[j].Name })
	sets := map[string]map[string]bool{"mu": {}, "fl": {}, "fd": {}, "ch": {}, "cv": {}, "cb": {}, "ex": {}}
	for _, fn := range funs {
		walk(bodies[fn], func(s Stmt) {
			switch x := s.(type) {
			case IfFlag:
				sets["fl"][x.Flag] = true
			case Atom:
				switch x.Kind {
				case "lock", "unlock", "rlock", "runlock":
					sets["mu"][x.Obj] = true
				case "user":
					sets["cb"][x.Obj] = true
				case "ext":
					sets["ex"][x.Obj] = true
				case "wait", "signal":
					sets["cv"][x.Obj] = true
				case "write", "read", "atomic":
					sets["fd"][x.Obj] = true
				case "go":
				default:
					sets["ch"][x.Obj] = true
				}
			}
		})
	}
	e := &emitter{t: t, relevant: relevant, fnID: map[*Fn]int{}}
	e.mu, e.fl, e.fd, e.ch = newTable("mu_", sets["mu"]), newTable("fl_", sets["fl"]), newTable("fd_", sets["fd"]), newTable("ch_", sets["ch"])
	e.cv, e.cb, e.ex = newTable("cv_", sets["cv"]), newTable("cb_", sets["cb"]), newTable("ex_", sets["ex"])
	for i, fn := range funs {
		fn.ID = i
		e.fnID[fn] = i
	}

	var b strings.Builder
	w := func(format string, a ...interface{}) { fmt.Fprintf(&b, format, a...) }
	w("(* GENERATED by /verif/go/locktranslator from the non-test files of package sctp - do not edit.\n")
	w("   Lock / call / blocking-operation / field-access abstraction of every function whose abstraction is\n")
	w("   not empty (%d functions and literals; the others do not touch locks, channels, callbacks or tracked\n   fields).  Language: coq/model/LockLang.v. *)\n", len(funs))
	w("From Coq Require Import List.\nFrom Sctp Require Import LockLang.\nImport ListNotations.\nOpen Scope lg_scope.\n\n")
	tbl := func(title string, tb *table, extra func(string) string) {
		w("(* %s *)\n", title)
		for i, n := range tb.names {
			x := ""
			if extra != nil {
				x = extra(n)
			}
			w("Definition %s : nat := %d. (* %s%s *)\n", tb.ref(n), i, n, x)
		}
		w("\n")
	}
	tbl("mutex classes (struct type . field); sync.Once fields are mutexes held while the once-function runs", e.mu, func(n string) string { return " : " + t.mutexes[n] })
	w("Definition lg_nmutex : nat := %d.\n\n", len(e.mu.names))
	tbl("immutable configuration flags", e.fl, nil)
	w("Definition lg_nflags : nat := %d.\n\n", len(e.fl.names))
	tbl("fields of the tracked struct types", e.fd, nil)
	tbl("channels", e.ch, nil)
	tbl("condition variables", e.cv, func(n string) string { return " on " + t.condMutex[n] })
	tbl("user-supplied code (callback fields, function values, user-implementable interfaces)", e.cb, nil)
	tbl("external calls (net.Conn is supplied by the user)", e.ex, nil)
	w("(* functions *)\n")
	for i, fn := range funs {
		// file names only: line numbers would make this file change with every unrelated edit of /repo
		w("Definition %s : nat := %d. (* %s  %s%s *)\n", fnRef(fn), i, fn.Name, t.fileOf(fn.Pos), map[bool]string{true: "", false: "  [not reachable from a root]"}[reach[fn]])
	}
	w("\n")
	for _, fn := range funs {
		w("(* %s  %s *)\nDefinition body_%s : stmt :=\n  %s.\n\n", fn.Name, t.fileOf(fn.Pos), coqIdent(fn.Name), e.stmt(bodies[fn], "  "))
	}
	w("Definition lg_funs : list stmt := [\n")
	for i, fn := range funs {
		sep := ";"
		if i == len(funs)-1 {
			sep = ""
		}
		w("  body_%s%s\n", coqIdent(fn.Name), sep)
	}
	w("].\n\n")
	w("(* roots: entered with no lock held.  api = exported method, ctor = exported package function,\n")
	w("   goroutine = target of a go statement, timer = time.AfterFunc callback, closure = escaping function literal *)\n")
	var roots []string
	var jroots []map[string]string
	for _, r := range t.rootOrder {
		fn := byName[r]
		if fn == nil || !relevant[fn] {
			continue
		}
		roots = append(roots, fmt.Sprintf("  %s (* %s *)", fnRef(fn), t.roots[r]))
		jroots = append(jroots, map[string]string{"fn": r, "kind": t.roots[r]})
	}
	w("Definition lg_roots : list nat := [\n%s\n].\n\n", strings.Join(roots, ";\n"))
	w("Definition program : lg_program :=\n  {| lg_p_funs := lg_funs; lg_p_roots := lg_roots; lg_p_nmutex := lg_nmutex; lg_p_nflags := lg_nflags |}.\n")
	if err := os.WriteFile(outV, []byte(b.String()), 0o644); err != nil {
		die(2, "%v", err)
	}

	if outJ != "" {
		jo := jOut{Mutexes: e.mu.names, MutexKind: t.mutexes, Flags: e.fl.names, Fields: e.fd.names, Chans: e.ch.names, Conds: e.cv.names,
			Users: e.cb.names, Exts: e.ex.names, Roots: jroots, Ignored: t.ignored, Notes: t.notes, Warnings: warn, Irrelevant: len(t.order) - len(funs)}
		for _, fn := range funs {
			jf := jFn{ID: fn.ID, Name: fn.Name, Pos: t.posStr(fn.Pos)}
			walk(bodies[fn], func(s Stmt) {
				switch x := s.(type) {
				case Atom:
					o := x.Obj
					if x.Fn != nil {
						o = x.Fn.Name
					}
					jf.Atoms = append(jf.Atoms, jAtom{x.Kind, o, t.posStr(x.Pos)})
				case CallS:
					jf.Calls = append(jf.Calls, jAtom{"call", x.F.Name, t.posStr(x.Pos)})
				}
			})
			jo.Funcs = append(jo.Funcs, jf)
		}
		data, _ := json.MarshalIndent(jo, "", " ")
		if err := os.WriteFile(outJ, data, 0o644); err != nil {
			die(2, "%v", err)
		}
	}
	fmt.Printf("locktranslator: %d functions (%d with empty abstraction), %d mutex classes, %d fields, %d channels, %d roots\n",
		len(funs), len(t.order)-len(funs), len(e.mu.names), len(e.fd.names), len(e.ch.names), len(roots))
}

func (t *T) fileOf(p token.Pos) string { return shortFile(t.fset.Position(p).Filename) }

func (t *T) posStr(p token.Pos) string {
	q := t.fset.Position(p)
	return fmt.Sprintf("%s:%d", shortFile(q.Filename), q.Line)
}
