// Verification harness (overlay; not part of pion/sctp): the C17 queue/scheduler predicates evaluated
// directly on the real pendingQueue for long random backlogged workloads.  One line per failure,
// prefix "PQMON", with a stable key=... ; a final "PQMONSUM" line carries the counts.
//
// Workload styles:
//
//	atomic  - every peek is immediately followed by the pop of the peeked chunk (no push in between)
//	stalled - as the association does when cwnd/rwnd/burst budget stops the write loop after peek():
//	          the selection is held, writers push, and only later the peeked chunk is popped
//
// Predicates (exact integer arithmetic, weights cross-multiplied, no floats):
//
//	conservation / per-stream FIFO / counters        all policies
//	contiguity: fragments of a message get consecutive pop indices, unordered first at boundaries   message policy
//	rr-round: between two services of a continuously backlogged stream no other stream twice; wait <= #streams   RR
//	wfq-fair: for stream i continuously backlogged over an interval and any stream k:
//	          W_k/w_k - W_i/w_i <= Lmax_k/w_k + Lmax_i/w_i      (two-sided bound follows for two backlogged streams;
//	          with W_i = 0 it is the no-starvation bound)       WFQ
package sctp

import (
	"fmt"
	"math/rand"
	"os"
	"strconv"
	"strings"
	"testing"
)

type pqmChunk struct {
	c    *chunkPayloadData
	msg  int // message number
	frag int // fragment index within the message
	nfr  int
}

type pqMon struct {
	q        *pendingQueue
	kind     string
	style    string
	il       bool
	weights  map[int]int64
	info     map[*chunkPayloadData]*pqmChunk
	perSt    map[int][]*chunkPayloadData // expected FIFO per stream (interleaved) or per class (message mode: key 0/1)
	backlog  map[int]int
	lmax     map[int]int64
	gmax     int64
	nBytes   int
	nChunks  int
	popIdx   int
	lastMsg  int
	lastFrag int
	lastNfr  int
	uQueued  int // unordered messages completely queued and not started
	// rr
	sinceServed map[int]map[int]bool
	wait        map[int]int
	// wfq: D[i][k] = W_k*w_i - W_i*w_k since i became backlogged; minD[i][k]
	d, minD map[int]map[int]int64
	fails   *int
	failBy  map[string]int
	seed    int64
	caseNo  int
	script  []string
}

func (m *pqMon) w(s int) int64 {
	if v, ok := m.weights[s]; ok && v != 0 {
		return v
	}
	return 1
}

func (m *pqMon) fail(key, format string, a ...interface{}) {
	*m.fails++
	m.failBy[key]++
	if m.failBy[key] <= 3 {
		sc := m.script
		if len(sc) > 60 {
			sc = sc[len(sc)-60:]
		}
		fmt.Printf("PQMON key=%s policy=%s style=%s seed=%d case=%d %s weights=%v script(last %d of %d)=[%s]\n",
			key, m.kind, m.style, m.seed, m.caseNo, fmt.Sprintf(format, a...), m.weights, len(sc), len(m.script), strings.Join(sc, "; "))
	}
}

func (m *pqMon) fifoKey(c *chunkPayloadData) int {
	if m.il {
		return int(c.streamIdentifier)
	}
	return b2i(c.unordered)
}

func (m *pqMon) pushMsg(sid int, unord bool, sizes []int) {
	m.lastMsgNo()
	parts := []string{}
	for i, n := range sizes {
		c := &chunkPayloadData{streamIdentifier: uint16(sid), unordered: unord, beginningFragment: i == 0,
			endingFragment: i == len(sizes)-1, userData: make([]byte, n)}
		m.info[c] = &pqmChunk{c: c, msg: msgCounter, frag: i, nfr: len(sizes)}
		m.q.push(c)
		k := m.fifoKey(c)
		m.perSt[k] = append(m.perSt[k], c)
		m.backlog[sid]++
		if int64(n) > m.lmax[sid] {
			m.lmax[sid] = int64(n)
		}
		if int64(n) > m.gmax {
			m.gmax = int64(n)
		}
		m.nBytes += n
		m.nChunks++
		parts = append(parts, strconv.Itoa(n))
		if m.backlog[sid] == 1 && m.kind != "msg" {
			// stream becomes backlogged: start its observation periods
			m.sinceServed[sid] = map[int]bool{}
			m.wait[sid] = 0
			m.d[sid] = map[int]int64{}
			m.minD[sid] = map[int]int64{}
		}
	}
	if unord {
		m.uQueued++
	}
	m.script = append(m.script, fmt.Sprintf("msg %d %d %s", sid, b2i(unord), strings.Join(parts, " ")))
	m.counters("push")
}

var msgCounter int

func (m *pqMon) lastMsgNo() { msgCounter++ }

func (m *pqMon) counters(after string) {
	if m.q.getNumBytes() != m.nBytes || m.q.size() != m.nChunks {
		m.fail("counters", "after %s: getNumBytes=%d size=%d, held bytes=%d chunks=%d", after, m.q.getNumBytes(), m.q.size(), m.nBytes, m.nChunks)
		m.nBytes, m.nChunks = m.q.getNumBytes(), m.q.size()
	}
}

func (m *pqMon) peek() *chunkPayloadData {
	m.script = append(m.script, "peek")
	return m.q.peek()
}

// pop pops c (which must be what peek returned) and evaluates the predicates.
func (m *pqMon) pop(c *chunkPayloadData) {
	m.script = append(m.script, "pop")
	if err := m.q.pop(c); err != nil {
		m.fail("pop-error", "pop of the peeked chunk failed: %v", err)
		return
	}
	inf := m.info[c]
	sid := int(c.streamIdentifier)
	n := len(c.userData)
	m.nBytes -= n
	m.nChunks--
	m.counters("pop")
	// per-stream (or per-class) FIFO
	k := m.fifoKey(c)
	if len(m.perSt[k]) == 0 || m.perSt[k][0] != c {
		m.fail("fifo", "popped chunk msg=%d frag=%d of stream %d is not the oldest queued one of its stream/class", inf.msg, inf.frag, sid)
	} else {
		m.perSt[k] = m.perSt[k][1:]
	}
	if !m.il {
		// contiguity: pop index = TSN offset
		if m.lastFrag+1 < m.lastNfr {
			if inf.msg != m.lastMsg || inf.frag != m.lastFrag+1 {
				m.fail("msg-contiguity", "pop #%d is msg=%d frag=%d but msg=%d was at frag %d of %d", m.popIdx, inf.msg, inf.frag, m.lastMsg, m.lastFrag, m.lastNfr)
			}
		} else {
			if inf.frag != 0 {
				m.fail("msg-contiguity", "pop #%d at a message boundary is frag %d of msg %d", m.popIdx, inf.frag, inf.msg)
			}
			if m.uQueued > 0 && !c.unordered {
				m.fail("msg-unordered-first", "ordered msg %d started while %d unordered messages wait", inf.msg, m.uQueued)
			}
			if c.unordered {
				m.uQueued--
			}
		}
		m.lastMsg, m.lastFrag, m.lastNfr = inf.msg, inf.frag, inf.nfr
	}
	m.popIdx++
	m.backlog[sid]--
	if m.kind == "rr" {
		for s, set := range m.sinceServed {
			if s == sid || m.backlog[s] == 0 {
				continue
			}
			if set[sid] {
				m.fail("rr-round", "stream %d served twice while backlogged stream %d waits for its turn", sid, s)
			}
			set[sid] = true
			m.wait[s]++
			if m.wait[s] > len(m.lmax) {
				m.fail("rr-starved", "stream %d backlogged and not served for %d pops (%d streams)", s, m.wait[s], len(m.lmax))
			}
		}
		m.sinceServed[sid] = map[int]bool{}
		m.wait[sid] = 0
	}
	if m.kind == "wfq" {
		// service of stream sid by n bytes
		for i := range m.d {
			if m.backlog[i] == 0 && i != sid {
				continue
			}
			if i == sid {
				// W_i grows: D[i][k] -= n*w_k for all k
				for k2 := range m.lmax {
					if k2 == i {
						continue
					}
					m.d[i][k2] -= int64(n) * m.w(k2)
					if m.d[i][k2] < m.minD[i][k2] {
						m.minD[i][k2] = m.d[i][k2]
					}
				}
				continue
			}
			// W_sid grows as seen from backlogged stream i
			m.d[i][sid] += int64(n) * m.w(i)
			bound := m.lmax[sid]*m.w(i) + m.lmax[i]*m.w(sid)
			gbound := m.gmax*m.w(i) + m.gmax*m.w(sid)
			if diff := m.d[i][sid] - m.minD[i][sid]; diff > bound {
				key := "wfq-unfair"
				if m.style == "stalled" {
					key = "wfq-unfair-stale-selection"
				}
				m.fail(key, "stream %d (w=%d, Lmax=%d) got ahead of continuously backlogged stream %d (w=%d, Lmax=%d): (W_k*w_i - W_i*w_k)=%d > bound %d (bound with the global Lmax %d: %d, exceeded=%v)",
					sid, m.w(sid), m.lmax[sid], i, m.w(i), m.lmax[i], diff, bound, m.gmax, gbound, diff > gbound)
				m.minD[i][sid] = m.d[i][sid] // report each excess once
			}
		}
	}
	if m.backlog[sid] == 0 {
		delete(m.sinceServed, sid)
		delete(m.wait, sid)
		delete(m.d, sid)
		delete(m.minD, sid)
	}
}

func (m *pqMon) backlogKeys() []int {
	out := []int{}
	for s, n := range m.backlog {
		if n > 0 {
			out = append(out, s)
		}
	}
	return out
}

func pqMonRun(rng *rand.Rand, kind, style string, seed int64, caseNo, nOps int, fails *int, failBy map[string]int, totals map[string]int) {
	nStreams := 2 + rng.Intn(5)
	weights := map[int]int64{}
	ws := [][2]int{}
	if kind == "wfq" {
		for s := 0; s < nStreams; s++ {
			if rng.Intn(4) == 0 {
				continue
			}
			wt := []int{1, 1, 2, 3, 4, 5, 8, 10, 16, 100, 1000}[rng.Intn(11)]
			if rng.Intn(6) == 0 {
				wt = 1 + rng.Intn(65535)
			}
			weights[s] = int64(wt)
			ws = append(ws, [2]int{s, wt})
		}
	}
	fk := kind
	if kind == "msg" {
		fk = "rr"
	}
	m := &pqMon{q: newPendingQueue(pqFactory(fk, ws)), kind: kind, style: style, weights: weights,
		info: map[*chunkPayloadData]*pqmChunk{}, perSt: map[int][]*chunkPayloadData{}, backlog: map[int]int{},
		lmax: map[int]int64{}, sinceServed: map[int]map[int]bool{}, wait: map[int]int{},
		d: map[int]map[int]int64{}, minD: map[int]map[int]int64{}, fails: fails, failBy: failBy, seed: seed, caseNo: caseNo,
		lastNfr: 0, lastFrag: -1}
	for s := 0; s < nStreams; s++ {
		m.lmax[s] = 0
	}
	if kind != "msg" {
		if err := m.q.setInterleaving(true); err != nil {
			m.fail("setil", "setInterleaving(true) on an empty queue: %v", err)
			return
		}
		m.il = true
		m.script = append(m.script, "setil 1")
	}
	maxLen := []int{16, 100, 1200, 1200}[rng.Intn(4)]
	// keep the queue backlogged: push whenever few chunks are queued
	target := 5 + rng.Intn(40)
	push := func() {
		sid := rng.Intn(nStreams)
		nf := 1
		if rng.Intn(2) == 0 {
			nf = 1 + rng.Intn(6)
		}
		sizes := make([]int, nf)
		for k := range sizes {
			sizes[k] = maxLen
			if k == nf-1 || rng.Intn(5) == 0 {
				sizes[k] = 1 + rng.Intn(maxLen)
			}
		}
		m.pushMsg(sid, rng.Intn(3) == 0, sizes)
	}
	for i := 0; i < nOps; i++ {
		if m.q.size() < target || rng.Intn(4) == 0 {
			push()
			continue
		}
		c := m.peek()
		if c == nil {
			m.fail("peek-nil", "peek returned nil with %d chunks queued", m.q.size())
			break
		}
		if style == "stalled" && rng.Intn(3) == 0 {
			// the write loop stopped after peek (window full); writers keep writing; later the same chunk goes out
			for k := 1 + rng.Intn(6); k > 0; k-- {
				push()
			}
			c2 := m.peek()
			if c2 != c && kind == "msg" && m.lastFrag+1 >= m.lastNfr {
				// message policy at a message boundary: no selection is held, a newly written unordered
				// message may overtake; the association re-peeks under the same lock hold as the pop
				c = c2
			}
			if c2 != c {
				m.fail("peek-unstable", "peek returned a different chunk after pushes while a selection was held")
				c = c2
			}
		}
		m.pop(c)
		totals["pops"]++
	}
	// drain and check conservation
	for {
		c := m.q.peek()
		if c == nil {
			break
		}
		m.pop(c)
		totals["pops"]++
	}
	for k, l := range m.perSt {
		if len(l) != 0 {
			m.fail("conservation", "%d chunks of stream/class %d were never popped", len(l), k)
		}
	}
	if m.q.size() != 0 || m.q.getNumBytes() != 0 {
		m.fail("counters", "after drain size=%d bytes=%d", m.q.size(), m.q.getNumBytes())
	}
	if kind != "msg" {
		if err := m.q.setInterleaving(false); err != nil {
			m.fail("setil", "setInterleaving(false) on a drained queue: %v", err)
		}
	}
	totals["cases_"+kind+"_"+style]++
}

// pqMonWitness replays the witness of finding wfq-unfair-stale-selection (notes/C17.md) on the real queue;
// the fairness predicate is evaluated by m.pop, so a regression prints PQMON key=wfq-unfair-stale-selection.
func pqMonWitness(fails *int, failBy map[string]int) {
	ws := [][2]int{{1, 1}, {2, 10}, {3, 10}}
	m := &pqMon{q: newPendingQueue(pqFactory("wfq", ws)), kind: "wfq", style: "stalled", weights: map[int]int64{1: 1, 2: 10, 3: 10},
		info: map[*chunkPayloadData]*pqmChunk{}, perSt: map[int][]*chunkPayloadData{}, backlog: map[int]int{},
		lmax: map[int]int64{1: 0, 2: 0, 3: 0}, sinceServed: map[int]map[int]bool{}, wait: map[int]int{},
		d: map[int]map[int]int64{}, minD: map[int]map[int]int64{}, fails: fails, failBy: failBy, seed: 0, caseNo: -1, lastFrag: -1}
	_ = m.q.setInterleaving(true)
	m.il = true
	m.script = append(m.script, "setil 1")
	m.pushMsg(1, false, []int{100})
	c := m.peek() // selection of stream 1 is now held
	m.pushMsg(2, false, []int{100})
	for k := 0; k < 12; k++ {
		m.pushMsg(3, false, []int{100})
	}
	m.pop(c)
	m.pushMsg(2, false, []int{100})
	m.pushMsg(2, false, []int{100})
	order := []int{}
	for k := 0; k < 11; k++ {
		c := m.peek()
		order = append(order, int(c.streamIdentifier))
		m.pop(c)
	}
	fmt.Printf("PQMONWITNESS stale-selection pop order after the held chunk: %v (streams 2 and 3 both backlogged throughout, weights 10 and 10, all chunks 100 bytes)\n", order)
}

func TestVerifPQMonitor(t *testing.T) {
	seed := verifEnvInt("VERIF_SEED", 1)
	nCases := int(verifEnvInt("VERIF_N", 60))
	nOps := int(verifEnvInt("VERIF_OPS", 3000))
	styles := os.Getenv("VERIF_STYLES")
	if styles == "" {
		styles = "atomic,stalled"
	}
	rng := rand.New(rand.NewSource(seed))
	fails := 0
	failBy := map[string]int{}
	totals := map[string]int{}
	if strings.Contains(styles, "witness") {
		pqMonWitness(&fails, failBy)
	}
	for c := 0; c < nCases; c++ {
		for _, style := range strings.Split(styles, ",") {
			if style != "atomic" && style != "stalled" {
				continue
			}
			for _, kind := range []string{"msg", "rr", "wfq"} {
				pqMonRun(rng, kind, style, seed, c, nOps, &fails, failBy, totals)
			}
		}
	}
	fmt.Printf("PQMONSUM styles=%s cases=%d pops=%d failures=%d by_key=%v runs=%v\n", styles, nCases, totals["pops"], fails, failBy, totals)
}
