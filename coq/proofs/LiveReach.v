(* C02 / C01: the link invariant LInv of LiveProofs.v holds in EVERY reachable state of the two-endpoint
   system under an arbitrary network: new chunks are sent at any time, T3 expires at any time, any DATA chunk
   that is or ever was in flight arrives at any time and any number of times (loss = never arriving), every
   SACK the receiver ever emitted arrives at any time, any number of times and in any order.  The system is
   the ghost-instrumented composition of the executable models (Sender.send_new / t3_step / sack_step,
   Live.lv_recv / lv_pops, RPQ.gap_blocks); K is the unbounded index of the sender's ack point, g the
   receiver's ghost (RPQProofs), each SACK in the network carries the index C of its cumulative TSN. *)
From Coq Require Import ZArith Bool List Lia.
From Coq Require Import ZifyBool.
From Sctp Require Import Gen SnaProofs Sender SenderProofs RPQ RPQProofs RPQWordProofs RQ Live LiveSender LiveProofs.
Import ListNotations.
Open Scope Z_scope.
Ltac Zify.zify_post_hook ::= Z.div_mod_to_equations.

Record lsys := mkLs {
  ls_st : lv;
  ls_K : Z;
  ls_g : ghost;
  ls_sacks : list (Z * list (Z * Z));  (* (index of the cumulative TSN, gap blocks) of every SACK emitted so far *)
  ls_pend : list (Z * Z)               (* ghost: per stream, the bytes written but still in the pending queue *)
}.

Inductive lev :=
| LWrite (sid : Z) (frags : list Z) (* an accepted WriteSCTP: the fragments of one message enter the pending queue *)
| LSend (sid len : Z)           (* a chunk moves from the pending queue to the in-flight queue and onto the wire *)
| LT3                            (* T3-rtx expires *)
| LData (i : Z) (credit : Z)     (* a copy of the DATA chunk with in-flight index i arrives (i < 0: an old duplicate) *)
| LSack (k : nat) (arwnd : Z).   (* a copy of the k-th SACK ever emitted arrives *)

Definition ls_n (y : lsys) : Z := Z.of_nat (length (st_infl (lv_s (ls_st y)))).

Definition lstep (y : lsys) (e : lev) : lsys :=
  let s := lv_s (ls_st y) in let q := lv_q (ls_st y) in
  match e with
  | LWrite sid frags =>
      mkLs (mkLv (write_step s sid frags) q) (ls_K y) (ls_g y) (ls_sacks y) (add_bytes (ls_pend y) sid (fold_left Z.add frags 0))
  | LSend sid len =>
      mkLs (mkLv (send_new s sid len (wrap32 (ls_K y + 1 + ls_n y)) true) q) (ls_K y) (ls_g y) (ls_sacks y)
           (add_bytes (ls_pend y) sid (- len))
  | LT3 => mkLs (mkLv (t3_step s) q) (ls_K y) (ls_g y) (ls_sacks y) (ls_pend y)
  | LData i credit =>
      let r1 := recv_g credit (q, ls_g y) (ls_K y + 1 + i) in
      let r2 := pops_g (S (Z.to_nat (size (fst r1)))) r1 in
      mkLs (mkLv s (fst r2)) (ls_K y) (snd r2) (ls_sacks y ++ [(gK (snd r2), gap_blocks (fst r2))]) (ls_pend y)
  | LSack k arwnd =>
      match nth_error (ls_sacks y) k with
      | None => y
      | Some (C, gaps) =>
          match sack_step s (wrap32 C) arwnd gaps with
          | SOk s' => mkLs (mkLv s' q) (if C <? ls_K y then ls_K y else C) (ls_g y) (ls_sacks y) (ls_pend y)
          | SErr => y
          end
      end
  end.

(* what the environment may do: chunk sizes within the MTU, fewer than 2^30 chunks in flight, arrivals only of
   TSNs that were sent and not older than 2^30 TSNs (bounded packet lifetime, as in C05) *)
Definition lev_ok (y : lsys) (e : lev) : Prop :=
  match e with
  | LWrite sid frags => Forall (fun f => 0 < f) frags /\ In sid (map fst (st_buffered (lv_s (ls_st y))))
  | LSend sid len => 0 < len <= st_mtu (lv_s (ls_st y)) /\ len <= lookup (ls_pend y) sid /\ ls_n y + 1 < B30
  | LT3 => True
  | LData i credit => - B30 < i < ls_n y
  | LSack k arwnd => match nth_error (ls_sacks y) k with Some (C, _) => ls_K y - B30 < C | None => True end
  end.

Fixpoint lrun_ok (y : lsys) (evs : list lev) : Prop :=
  match evs with
  | [] => True
  | e :: r => lev_ok y e /\ lrun_ok (lstep y e) r
  end.

Definition lrun (y : lsys) (evs : list lev) : lsys := fold_left lstep evs y.

(* a SACK in the network tells the truth about some earlier state of the receiver *)
Definition truthful (g : ghost) (sk : Z * list (Z * Z)) : Prop :=
  fst sk <= gK g /\
  forall b e, In (b, e) (snd sk) -> 1 <= b /\ b <= e /\ forall o, b <= o <= e -> In (fst sk + o) (gacc g).

Definition SysInv (k0 : Z) (y : lsys) : Prop :=
  LInv (ls_st y) (ls_K y) (ls_g y) k0 /\ Forall (truthful (ls_g y)) (ls_sacks y) /\ BI (lv_s (ls_st y)) (ls_pend y).

(* ---------- preservation, event by event ---------- *)

Lemma truthful_mono g g' sk : gK g <= gK g' -> (forall x, In x (gacc g) -> In x (gacc g')) -> truthful g sk -> truthful g' sk.
Proof.
  intros HK Hacc [T1 T2]. split; [lia|]. intros b e Hin. destruct (T2 b e Hin) as (A & B & C).
  split; [assumption|]. split; [assumption|]. intros o Ho. apply Hacc, C. assumption.
Qed.

Lemma LInv_send st K g k0 sid len :
  LInv st K g k0 -> 0 <= len <= st_mtu (lv_s st) -> Z.of_nat (length (st_infl (lv_s st))) + 1 < B30 ->
  LInv (mkLv (send_new (lv_s st) sid len (wrap32 (K + 1 + Z.of_nat (length (st_infl (lv_s st))))) true) (lv_q st)) K g k0.
Proof.
  intros [SL Jq Hcum Hsent Hack Hch Hhole Hwin Hmtu] Hlen Hn. destruct st as [s q]. cbn [lv_s lv_q] in *.
  destruct SL as [A B C D].
  assert (Einfl : st_infl (send_new s sid len (wrap32 (K + 1 + Z.of_nat (length (st_infl s)))) true) = st_infl s ++ [mkSC sid len false false 0 false]) by reflexivity.
  assert (Elen : Z.of_nat (length (st_infl s ++ [mkSC sid len false false 0 false])) = Z.of_nat (length (st_infl s)) + 1) by (rewrite app_length; cbn [length]; lia).
  constructor; cbn [lv_s lv_q]; rewrite ?Einfl, ?Elen.
  - constructor; cbn [send_new st_cum st_front st_infl st_state].
    + assumption.
    + intros _. destruct (st_infl s) as [|c r] eqn:El; [cbn [length]; f_equal; lia|apply B; discriminate].
    + rewrite Elen. assumption.
    + assumption.
  - assumption.
  - lia.
  - intros k Hk. specialize (Hsent k Hk). lia.
  - intros i c Ei Ha. destruct (Nat.lt_ge_cases i (length (st_infl s))) as [L|Ge].
    + rewrite nth_error_app1 in Ei by assumption. apply (Hack i c); assumption.
    + rewrite nth_error_app2 in Ei by assumption. destruct (i - length (st_infl s))%nat as [|j]; cbn in Ei; [|destruct j; discriminate].
      inversion Ei; subst c. cbn in Ha. discriminate.
  - intros i c Ei. cbn [send_new st_mtu]. destruct (Nat.lt_ge_cases i (length (st_infl s))) as [L|Ge].
    + rewrite nth_error_app1 in Ei by assumption. apply (Hch i c); assumption.
    + rewrite nth_error_app2 in Ei by assumption. destruct (i - length (st_infl s))%nat as [|j]; cbn in Ei; [|destruct j; discriminate].
      inversion Ei; subst c. cbn. split; [reflexivity|assumption].
  - assumption.
  - assumption.
  - assumption.
Qed.

Lemma LInv_t3 st K g k0 : LInv st K g k0 -> LInv (mkLv (t3_step (lv_s st)) (lv_q st)) K g k0.
Proof.
  intros [SL Jq Hcum Hsent Hack Hch Hhole Hwin Hmtu]. destruct st as [s q]. cbn [lv_s lv_q] in *.
  destruct (t3_shape s) as (Q1 & Q2 & Q3 & Q4 & Q5 & Q6).
  constructor; cbn [lv_s lv_q]; rewrite ?Q4, ?Q5; try assumption.
  - apply t3_Sl. assumption.
  - intros i c' Ei Ha. rewrite t3_nth in Ei. destruct (nth_error (st_infl s) i) as [c|] eqn:Ec; [|discriminate].
    cbn [option_map] in Ei. inversion Ei as [E]. apply (Hack i c); [assumption|].
    rewrite <- E in Ha. destruct (sc_acked c || sc_aband c)%bool eqn:Eo; [assumption|]. cbn in Ha. apply orb_false_iff in Eo. destruct Eo. congruence.
  - intros i c' Ei. rewrite t3_nth in Ei. destruct (nth_error (st_infl s) i) as [c|] eqn:Ec; [|discriminate].
    cbn [option_map] in Ei. inversion Ei as [E]. destruct (Hch i c Ec) as [X Y].
    destruct (sc_acked c || sc_aband c)%bool; cbn; split; assumption.
Qed.

Lemma LInv_data st K g k0 i credit :
  LInv st K g k0 -> - B30 < i < Z.of_nat (length (st_infl (lv_s st))) ->
  let r1 := recv_g credit (lv_q st, g) (K + 1 + i) in
  let r2 := pops_g (S (Z.to_nat (size (fst r1)))) r1 in
  LInv (mkLv (lv_s st) (fst r2)) K (snd r2) k0 /\
  gK g <= gK (snd r2) /\ (forall x, In x (gacc g) -> In x (gacc (snd r2))) /\
  truthful (snd r2) (gK (snd r2), gap_blocks (fst r2)).
Proof.
  intros [SL Jq Hcum Hsent Hack Hch Hhole Hwin Hmtu] Hi. destruct st as [s q]. cbn [lv_s lv_q] in *. cbn zeta.
  set (n := Z.of_nat (length (st_infl s))) in *.
  assert (Hn : 0 <= n < B30) by (pose proof (sl_len s K SL); unfold n; lia).
  set (r1 := recv_g credit (q, g) (K + 1 + i)).
  destruct (recv_g_props k0 credit (q, g) (K + 1 + i) Jq) as (J1 & G1 & A1 & B1 & M1); [cbn [snd]; unfold H31, B30 in *; lia|].
  fold r1 in J1, G1, A1, B1, M1. cbn [fst snd] in G1, A1, B1, M1.
  assert (Hacc1 : forall x, In x (gacc (snd r1)) -> x <= K + n).
  { intros x Hx. destruct (B1 x Hx) as [X|X]; [apply Hsent; assumption|lia]. }
  set (r2 := pops_g (S (Z.to_nat (size (fst r1)))) r1).
  destruct (pops_g_props k0 (K + n) (S (Z.to_nat (size (fst r1)))) r1 J1) as (J2 & G2 & A2 & M2 & F2); [rewrite G1; lia|assumption|].
  fold r2 in J2, G2, A2, M2, F2.
  assert (Hend : snd (pop (fst r2) false) = false).
  { apply F2. pose proof (size_nonneg (fst r1) (j_inv k0 r1 J1)). lia. }
  assert (Hhole2 : ~ In (gK (snd r2) + 1) (gacc (snd r2))).
  { intros X. apply (j_held k0 r2 J2 1) in X; [|lia].
    apply (pop_spec (fst r2) false (j_inv k0 r2 J2)) in X. congruence. }
  split; [|split; [lia|split]].
  - constructor; cbn [lv_s lv_q]; try assumption.
    + destruct r2 as [q2 g2]. exact J2.
    + fold n. lia.
    + intros k Hk. rewrite A2 in Hk. fold n. apply Hacc1. assumption.
    + intros j c Ej Ha. rewrite A2. apply A1. apply (Hack j c); assumption.
    + rewrite M2, M1. assumption.
  - intros x Hx. rewrite A2. apply A1. assumption.
  - split; cbn [fst snd]; [lia|]. intros b e Hin.
    destruct (gap_blocks_sound (fst r2) b e (j_inv k0 r2 J2) Hin) as (L1 & L2 & L3 & L4).
    split; [assumption|]. split; [assumption|]. intros o Ho. apply (j_held k0 r2 J2 o); [lia|]. apply L4. assumption.
Qed.

Lemma LInv_sack st K g k0 C gaps arwnd :
  LInv st K g k0 -> truthful g (C, gaps) -> K - B30 < C ->
  exists s', sack_step (lv_s st) (wrap32 C) arwnd gaps = SOk s' /\
             LInv (mkLv s' (lv_q st)) (if C <? K then K else C) g k0.
Proof.
  intros LI [T1 T2] Hlife. cbn [fst snd] in T1, T2.
  pose proof LI as [SL Jq Hcum Hsent Hack Hch Hhole Hwin Hmtu]. destruct st as [s q]. cbn [lv_s lv_q] in *.
  set (n := Z.of_nat (length (st_infl s))) in *.
  assert (Hn : 0 <= n < B30) by (pose proof (sl_len s K SL); unfold n; lia).
  destruct (C <? K) eqn:EC.
  - (* older than the ack point: ignored *)
    exists s. split; [|exact LI].
    apply sack_stale_ignored; [apply (sl_state s K SL)|].
    rewrite (sl_cum s K SL). replace (wrap32 K) with (wrap32 (C + (K - C))) by (f_equal; lia).
    replace (wrap32 C) with (wrap32 (C + 0)) by (f_equal; lia).
    rewrite gt_idx by (unfold B30 in *; lia). lia.
  - set (d := C - K). assert (Hd : 0 <= d <= n) by (unfold d; lia).
    assert (Hgaps : gaps_in_range gaps (n - d)).
    { unfold gaps_in_range. apply Forall_forall. intros [b e] Hin. cbn [fst snd].
      destruct (T2 b e Hin) as (A & B & Cc). split; [assumption|]. split; [assumption|].
      assert (In (C + e) (gacc g)) by (apply Cc; lia). apply Hsent in H. unfold d. fold n in H. lia. }
    replace C with (K + d) by (unfold d; lia).
    destruct (sack_total s K d arwnd gaps SL) as (s2 & E2 & C2 & St2 & Mt2 & Mc2 & F2' & L2); [fold n; lia|fold n; assumption|].
    exists s2. split; [exact E2|].
    destruct L2 as [Len2 Fl2].
    assert (Len2' : Z.of_nat (length (st_infl s2)) = n - d) by (rewrite Len2, skipn_length; unfold n; lia).
    constructor; cbn [lv_s lv_q].
    + constructor; [assumption| intros X; rewrite (F2' X); f_equal; lia | lia | rewrite St2; apply (sl_state s K SL)].
    + assumption.
    + rewrite Len2'. unfold d. lia.
    + intros k Hk. rewrite Len2'. specialize (Hsent k Hk). fold n in Hsent. lia.
    + intros i c' Ei Ha. destruct (Fl2 i c' Ei) as (c1 & E1 & Ab1 & Fa1 & _).
      rewrite nth_skipn in E1. destruct (Fa1 Ha) as [X|X].
      * replace (K + d + 1 + Z.of_nat i) with (K + 1 + Z.of_nat (Z.to_nat d + i)) by lia. apply (Hack _ c1); assumption.
      * destruct X as (b & e & Hin & Hr). destruct (T2 b e Hin) as (_ & _ & Cc).
        replace (K + d + 1 + Z.of_nat i) with (C + (Z.of_nat i + 1)) by (unfold d; lia). apply Cc. lia.
    + intros i c' Ei. destruct (Fl2 i c' Ei) as (c1 & E1 & Ab1 & _ & Ln1).
      rewrite nth_skipn in E1. destruct (Hch _ c1 E1) as [Hab Hlen]. rewrite Mt2. split; [congruence|]. destruct Ln1 as [X|X]; lia.
    + assumption.
    + assumption.
    + rewrite Mt2. assumption.
Qed.

(* ---------- every reachable state ---------- *)

Lemma LInv_write st K g k0 sid frags :
  LInv st K g k0 -> LInv (mkLv (write_step (lv_s st) sid frags) (lv_q st)) K g k0.
Proof.
  intros [SL Jq Hcum Hsent Hack Hch Hhole Hwin Hmtu]. destruct st as [s q]. cbn [lv_s lv_q] in *.
  destruct SL as [A B C D].
  constructor; cbn [lv_s lv_q write_step st_infl st_mtu]; try assumption.
  constructor; cbn [write_step st_cum st_front st_infl st_state]; assumption.
Qed.

Lemma lstep_inv k0 y e : SysInv k0 y -> lev_ok y e -> SysInv k0 (lstep y e).
Proof.
  intros (LI & TR & HB) Hok. destruct y as [st K g sacks pend]. cbn [ls_st ls_K ls_g ls_sacks ls_pend] in *.
  destruct e as [sid frags|sid len|  |i credit|k arwnd]; cbn [lstep lev_ok ls_st ls_K ls_g ls_sacks ls_pend ls_n lv_s lv_q] in *.
  - destruct Hok as [Hf Hin]. split; [apply LInv_write; assumption|]. split; [assumption|].
    apply (write_step_BI (lv_s st) pend sid frags HB Hf Hin).
  - destruct Hok as (Hl & Hp & Hn). split; [apply (LInv_send st K g k0 sid len LI); [lia|assumption]|]. split; [assumption|].
    apply (send_new_BI (lv_s st) pend sid len _ true HB); lia.
  - split; [apply LInv_t3; assumption|]. split; [assumption|]. apply t3_step_BI. assumption.
  - destruct (LInv_data st K g k0 i credit LI Hok) as (LI2 & GK & ACC & TN).
    split; [exact LI2|]. split; [|assumption].
    apply Forall_app. split.
    + eapply Forall_impl; [|exact TR]. intros sk Hsk. eapply truthful_mono; eassumption.
    + constructor; [exact TN|constructor].
  - destruct (nth_error sacks k) as [[C gaps]|] eqn:En; [|split; [assumption|split; assumption]].
    assert (Ht : truthful g (C, gaps)).
    { rewrite Forall_forall in TR. apply TR. eapply nth_error_In. eassumption. }
    destruct (LInv_sack st K g k0 C gaps arwnd LI Ht Hok) as (s' & E & LI').
    rewrite E. cbn [ls_st ls_K ls_g ls_sacks ls_pend lv_s]. split; [assumption|]. split; [assumption|].
    apply (sack_step_BI (lv_s st) (wrap32 C) arwnd gaps s' pend E HB).
Qed.

Theorem lrun_inv k0 : forall evs y, SysInv k0 y -> lrun_ok y evs -> SysInv k0 (lrun y evs).
Proof.
  induction evs as [|e r IH]; intros y Hy Hok; cbn [lrun fold_left]; [assumption|].
  destruct Hok as [He Hr]. apply (IH (lstep y e)); [apply lstep_inv; assumption|assumption].
Qed.

(* the start: nothing in flight, receiver initialised at the same TSN, no SACK emitted yet *)
Lemma SysInv_init s K m :
  Sl s K -> st_infl s = [] -> 1 <= m < 2147483584 -> 0 < st_mtu s -> BI s [] ->
  SysInv K (mkLs (mkLv s (rpq_init (rpq_new m) (wrap32 K))) K (mkGhost K [] []) [] []).
Proof.
  intros SL Ee Hm Hmtu HB. split; [|split; [constructor|exact HB]]. cbn [ls_st ls_K ls_g].
  apply (LInv_all_lost s K m SL Hm Hmtu). intros i c Ei. rewrite Ee in Ei. destruct i; discriminate.
Qed.

Lemma round_BI gate credit arwnd st st' pend :
  lv_round gate credit arwnd st = Some st' -> BI (lv_s st) pend -> BI (lv_s st') pend.
Proof.
  unfold lv_round. intros H HB.
  match type of H with match sack_step ?S ?C ?A ?G with _ => _ end = _ => destruct (sack_step S C A G) as [s2|] eqn:E; [|discriminate] end.
  inversion H; subst st'. cbn [lv_s].
  apply (sack_step_BI _ _ _ _ _ pend E). apply t3_step_BI. assumption.
Qed.

Lemma rounds_BI gate credit arwnd pend : forall n st st',
  lv_rounds n gate credit arwnd st = Some st' -> BI (lv_s st) pend -> BI (lv_s st') pend.
Proof.
  induction n as [|n IH]; intros st st' H HB; cbn [lv_rounds] in H.
  - inversion H; subst. assumption.
  - destruct (lv_round gate credit arwnd st) as [st1|] eqn:E; [|discriminate].
    apply (IH st1 st' H). apply (round_BI gate credit arwnd st st1 pend E HB).
Qed.

(* C02 for every reachable state: after ANY history of sends, T3 expiries, arrivals, losses, duplications and
   reorderings of DATA and SACKs, a fault-free suffix of at most n retransmission rounds empties the in-flight queue *)
Theorem reachable_state_drains gate credit arwnd s K m evs :
  Sl s K -> st_infl s = [] -> 1 <= m < 2147483584 -> 0 < st_mtu s -> BI s [] ->
  let y0 := mkLs (mkLv s (rpq_init (rpq_new m) (wrap32 K))) K (mkGhost K [] []) [] [] in
  lrun_ok y0 evs ->
  let y := lrun y0 evs in
  (forall x, 0 <= x <= st_mtu (lv_s (ls_st y)) -> gate x = true) -> 0 < credit 0 ->
  exists r st', (r <= length (st_infl (lv_s (ls_st y))))%nat /\
    lv_rounds r gate credit arwnd (ls_st y) = Some st' /\ st_infl (lv_s st') = [] /\
    st_cum (lv_s st') = wrap32 (ls_K y + ls_n y) /\
    st_nbytes (lv_s st') = 0 /\
    (forall k, In k (map fst (st_buffered (lv_s st'))) -> lookup (st_buffered (lv_s st')) k = lookup (ls_pend y) k).
Proof.
  intros SL Ee Hm Hmtu HB0 y0 Hok y Hgate Hcr.
  destruct (lrun_inv K evs y0 (SysInv_init s K m SL Ee Hm Hmtu HB0) Hok) as (LI & _ & HB). fold y in LI, HB.
  destruct (drains gate credit arwnd K Hcr (length (st_infl (lv_s (ls_st y)))) (ls_st y) (ls_K y) (ls_g y) (le_n _) LI Hgate)
    as (r & st' & g' & Hr & Er & LI' & Ee').
  pose proof (rounds_BI gate credit arwnd (ls_pend y) r (ls_st y) st' Er HB) as HB'.
  exists r, st'. split; [assumption|]. split; [assumption|]. split; [assumption|].
  split; [apply (sl_cum _ _ (li_sl _ _ _ _ LI'))|].
  destruct HB' as [Bok Bn Bnd Bbuf Bp]. rewrite Ee' in Bn, Bbuf. split; [exact Bn|].
  intros k Hk. rewrite (Bbuf k Hk). unfold infl_sid. cbn. lia.
Qed.

(* C01-style safety that falls out of the invariant: in every reachable state the sender's cumulative ack
   point never runs ahead of what the receiver has actually taken, and every chunk the sender considers
   acknowledged was accepted by the receiver *)
Theorem reachable_ack_is_honest s K m evs :
  Sl s K -> st_infl s = [] -> 1 <= m < 2147483584 -> 0 < st_mtu s -> BI s [] ->
  let y0 := mkLs (mkLv s (rpq_init (rpq_new m) (wrap32 K))) K (mkGhost K [] []) [] [] in
  lrun_ok y0 evs ->
  let y := lrun y0 evs in
  st_cum (lv_s (ls_st y)) = wrap32 (ls_K y) /\ ls_K y <= gK (ls_g y) /\ cum (lv_q (ls_st y)) = wrap32 (gK (ls_g y)) /\
  (forall i c, nth_error (st_infl (lv_s (ls_st y))) i = Some c -> sc_acked c = true -> In (ls_K y + 1 + Z.of_nat i) (gacc (ls_g y))) /\
  (forall k, K < k <= gK (ls_g y) -> In k (gacc (ls_g y)) \/ skipped (ls_g y) k).
Proof.
  intros SL Ee Hm Hmtu HB0 y0 Hok y.
  destruct (lrun_inv K evs y0 (SysInv_init s K m SL Ee Hm Hmtu HB0) Hok) as (LI & _ & _). fold y in LI.
  destruct LI as [SL' Jq Hcum Hsent Hack Hch Hhole Hwin Hmtu'].
  split; [apply (sl_cum _ _ SL')|]. split; [lia|]. split; [apply (j_cum _ _ Jq)|]. split; [exact Hack|].
  apply (j_cover _ _ Jq).
Qed.
