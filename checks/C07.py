"""C07 — messages the sender gives up on never block or damage other traffic."""
import vlib, simcommon

PROP = "C07"
PROPS_FILE = "props/C07.v"
COQ_FILES = ["gen/Gen.v", "proofs/SnaProofs.v", "model/RPQ.v", "proofs/RPQProofs.v", "model/RQ.v", "proofs/RQProofs.v",
             "props/RQSafety.v", "model/StreamW.v", "proofs/StreamWProofs.v", "model/PR.v", "proofs/PRProofs.v", "props/C07.v"]
TRUSTED_BASE = [
    "Coq 8.16.1 kernel; vm_compute only in Examples / witnesses; no native_compute",
    "hand-written model coq/model/PR.v of association.go (finishAcknowledgement C1-C3, the C2-C3 loop of the T3 branch of "
    "onRetransmissionTimeout, createForwardTSN, createIForwardTSN, gatherOutboundForwardTSNPackets, handleForwardTSN, "
    "handleIForwardTSN incl. getOrCreateSkippedStream, handlePeerLastTSNAndAcknowledgement's pop loop) on top of RPQ.v "
    "(receive bitmap) and RQ.v (reassembly queue); translator for constants and serial arithmetic",
    "extraction (ExtrOcamlBasic) + ocaml/cmp_pr.ml; simulator harness go/inpkg/zz_verif_sim*_test.go (overlay, synctest, "
    "go1.26.8); primitive step lists read from the association's trace-log calls (recording logging.LeveledLogger)",
    "Go map iteration in createForwardTSN / createIForwardTSN: the model builds the list sorted by stream id "
    "(c07_fwd_lists_max_ordered_ssn: one entry per stream, keys increasing); the comparator sorts the implementation's list",
]
ASSUMPTIONS = [
    "fewer than 2^31 - 1 chunks in flight; SACK fields are uint32 (pr_ev_sane)",
    "maximality of the reported SSN / MID: the numbers of one stream within (cum, adv] span less than half the number space",
    "c07_no_collateral_* and the purge theorems: well-formed universe pr_mono16 / pr_mono32 (per stream and ordering class, "
    "SSN / MID non-decreasing with the TSN, equal number = same message, span < half the space), established by "
    "Stream.packetize (StreamW.v) and the FIFO theorems of C17; link hypotheses between the receiver's held sets and the "
    "sender's in-flight chunks (an incomplete set still has a fragment in flight) are stated in the theorems",
    "a skip entry for a stream that does not exist yet creates it only while the accept queue (16 entries) has room "
    "(createStream with accept; same rule as for an arriving DATA chunk)",
]
LEVEL_TEXT = ("Coq theorems over all histories (sends, markings, retransmissions, SACKs with arbitrary contents, T3 expiries): "
              "every TSN in (cumulativeTSNAckPoint, advancedPeerTSNAckPoint] belongs to a message that is abandoned and entirely "
              "in flight, abandonment is never reset, the point never passes a live chunk; FORWARD-TSN lists per stream exactly "
              "the serial-maximum SSN of the abandoned ORDERED chunks in that range and nothing for unordered ones "
              "(I-FORWARD-TSN: per stream and U flag, MIDs); in a well-formed universe an entry can only concern abandoned "
              "messages, the receiver's purges (cited RQ theorems) remove only sets / fragments of abandoned messages, the "
              "cursor moves past the skipped numbers and the next live message becomes readable; an entry for a stream never "
              "seen creates it with the skip applied (fix 5722c17, D29). Tied to the code by step-commuting records: sender "
              "projection incl. emitted FORWARD-TSN / I-FORWARD-TSN chunks after every harness event, receiver bitmap and all "
              "reassembly queues before / after every delivered FORWARD-TSN / I-FORWARD-TSN.")
LEVEL_NOTE = ("Trusted: Coq kernel, hand model PR.v (+RPQ.v, RQ.v), extraction, simulator. Monitors: reliable and DCEP messages "
              "are all delivered after the network healed, nothing stays buffered, ordered subsequence; targeted scenarios: "
              "abandoned first message of a stream (DATA and I-DATA), abandoned message partially received, FORWARD-TSN lost "
              "/ duplicated, runs of abandoned messages, ordered + unordered + DCEP on one stream.")
TECHNIQUE = "Coq proof (invariants over histories) + step-commuting correspondence on simulated associations + wire monitors"


def correspondence(ctx):
    vlib.differential(ctx, "pr-step-commuting", "TestVerifSimPRObs", "pr",
                      {"VERIF_N": ctx.scale(40, 600), "VERIF_EVENTS": 250}, timeout=3000)
    simcommon.sim_monitor(ctx, "sim-partial-reliability", "TestVerifSimPR",
                          {"VERIF_N": ctx.scale(60, 2000), "VERIF_EVENTS": 250}, "SIMPR")
    simcommon.sim_monitor(ctx, "pr-targeted-scenarios", "TestVerifScenPR", {}, "SCENPR")
    simcommon.sim_monitor(ctx, "fwd-unordered-scenario", "TestVerifScenFwdUnordered", {}, "SCENFWDUNORD")


def search(ctx):
    simcommon.sim_monitor(ctx, "sim-partial-reliability-wide", "TestVerifSimPR",
                          {"VERIF_N": 600, "VERIF_EVENTS": 300, "VERIF_SEED": ctx.seed + 17}, "SIMPR")
