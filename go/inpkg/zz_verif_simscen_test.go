// Verification harness: targeted scenarios (corpus of minimal replays found by the machinery).
package sctp

import (
	"fmt"
	"testing"
	"testing/synctest"
	"time"
)

// simScenario runs fn on an established pair with the given options and reports monitor failures.
func simScenario(t *testing.T, label string, o simOpts, fn func(s *sim)) []string {
	var fails []string
	synctest.Test(t, func(t *testing.T) {
		s := newSim(t, o, label)
		if !s.establish() {
			s.fail("C04", fmt.Sprintf("fault-free handshake did not complete: errs=%v,%v", s.hsErr[0], s.hsErr[1]))
		} else {
			fn(s)
		}
		s.closeBoth()
		fails = s.fails
		s.report()
	})
	return fails
}

// TestVerifScenProbeWindow: receiver nearly full (small non-zero a_rwnd), sender idle; a chunk larger
// than rwnd goes out through the probe path; does a following small write respect the advertised window?
func TestVerifScenProbeWindow(t *testing.T) {
	n := 0
	for _, buf := range []uint32{4000, 6000, 20000} {
		o := simOpts{seed: int64(buf), interleaveA: 0, interleaveB: 0, setTSN: true, tsnA: 100, tsnB: 5000, recvBuf: buf}
		f := simScenario(t, fmt.Sprintf("probe-window/buf=%d", buf), o, func(s *sim) {
			a := s.assoc[0]
			mp := int(a.maxPayloadSize)
			// fill the peer's buffer (no reads on side 1) leaving a small positive window
			for int(buf)-len(s.sent[0][1])*(mp-60) > mp {
				_ = s.write(0, 1, mp-60, PayloadTypeWebRTCBinary)
				s.runFaultFreeNoRead(2*time.Second, 50*time.Millisecond)
			}
			s.runFaultFreeNoRead(3*time.Second, 50*time.Millisecond)
			// now a chunk larger than the remaining window, then a small one, without any delivery in between
			_ = s.write(0, 1, mp-60, PayloadTypeWebRTCBinary)
			_ = s.write(0, 1, 100, PayloadTypeWebRTCBinary)
			s.runFaultFreeNoRead(2*time.Second, 50*time.Millisecond)
		})
		n += len(f)
	}
	fmt.Printf("SCENPROBE fails=%d\n", n)
}

// runFaultFreeNoRead delivers everything in order for a while without reading on either side.
func (s *sim) runFaultFreeNoRead(limit, step time.Duration) {
	deadline := s.now() + limit
	for s.now() < deadline {
		for len(s.flight[0]) > 0 || len(s.flight[1]) > 0 {
			from := 0
			if len(s.flight[0]) == 0 || (len(s.flight[1]) > 0 && s.flight[1][0].id < s.flight[0][0].id) {
				from = 1
			}
			s.deliver(from, 0, false)
		}
		s.advance(step)
	}
}

// bufLowObserver counts downward crossings of the buffered-amount threshold at harness events.
type bufLowObserver struct {
	st       *Stream
	th       uint64
	pre      uint64
	expected *int
}

func (o *bufLowObserver) before(s *sim, ev *simEvent) { o.pre = o.st.BufferedAmount() }
func (o *bufLowObserver) after(s *sim, ev *simEvent) {
	post := o.st.BufferedAmount()
	if ev.kind == "deliver" && o.pre > o.th && post <= o.th {
		*o.expected++
	}
}

// TestVerifScenBufferedLow: the low-threshold callback fires once per downward crossing, and may call
// back into the stream and the association (it runs without internal locks held).
func TestVerifScenBufferedLow(t *testing.T) {
	seed := verifEnvInt("VERIF_SEED", 1)
	n := int(verifEnvInt("VERIF_N", 20))
	total, crossings := 0, 0
	for i := 0; i < n; i++ {
		o := simOpts{seed: seed*7919 + int64(i), interleaveA: i % 2, interleaveB: i % 2, setTSN: true, tsnA: uint32(i * 1000), tsnB: 77}
		f := simScenario(t, fmt.Sprintf("buffered-low/%d", i), o, func(s *sim) {
			a := s.assoc[0]
			st := s.openStream(0, 3)
			th := uint64(500 + 700*(i%5))
			st.SetBufferedAmountLowThreshold(th)
			fired, expected := 0, 0
			st.OnBufferedAmountLow(func() {
				fired++
				// re-entrancy: these take the stream / association locks
				_ = st.BufferedAmount()
				_ = a.BufferedAmount()
				_ = st.BufferedAmountLowThreshold()
			})
			s.obs = append(s.obs, &bufLowObserver{st: st, th: th, expected: &expected})
			for k := 0; k < 6; k++ {
				_ = s.write(0, 3, 300+int(o.seed+int64(k*977))%4000, PayloadTypeWebRTCBinary)
				if k%2 == 1 {
					s.runFaultFree(3*time.Second, 20*time.Millisecond, func() bool { return a.BufferedAmount() == 0 })
				}
			}
			s.runFaultFree(10*time.Second, 20*time.Millisecond, func() bool { return a.BufferedAmount() == 0 })
			if fired != expected {
				s.fail("C15", fmt.Sprintf("low-threshold callback fired %d times for %d downward crossings (threshold=%d)", fired, expected, th))
			}
			if st.BufferedAmount() != 0 {
				s.fail("C15", fmt.Sprintf("buffered amount %d after everything was acknowledged", st.BufferedAmount()))
			}
			crossings += expected
		})
		total += len(f)
	}
	fmt.Printf("SCENBUFLOW scenarios=%d crossings=%d fails=%d\n", n, crossings, total)
}

// TestVerifScenEmptyWrite: an empty write must send nothing and must not disturb later messages (C18).
func TestVerifScenEmptyWrite(t *testing.T) {
	n := 0
	for _, il := range []int{0, 1} {
		for _, block := range []bool{false, true} {
			o := simOpts{seed: int64(il), interleaveA: il, interleaveB: il, setTSN: true, tsnA: 10, tsnB: 20, blockWrite: block}
			f := simScenario(t, fmt.Sprintf("empty-write/il=%d/block=%v", il, block), o, func(s *sim) {
				_ = s.write(0, 1, 20, PayloadTypeWebRTCBinary)
				before := len(s.wire)
				err := s.write(0, 1, 0, PayloadTypeWebRTCBinary)
				s.settle()
				for _, p := range s.wire[before:] {
					if p.from == 0 && p.pkt != nil {
						for _, c := range p.pkt.chunks {
							if d, ok := c.(*chunkPayloadData); ok && s.txCount[0][d.tsn] == 1 && len(d.userData) == 0 {
								s.fail("C18", "empty write put a DATA chunk on the wire (empty-write-sends)")
							}
						}
					}
				}
				_ = err
				_ = s.write(0, 1, 30, PayloadTypeWebRTCBinary)
				_ = s.write(0, 1, 40, PayloadTypeWebRTCString)
				ok := s.runFaultFree(30*time.Second, 50*time.Millisecond, s.allDelivered)
				if !ok {
					s.fail("C18", fmt.Sprintf("messages written after an empty write are never delivered (empty-write-consumes-sequence-number): delivered %d of %d", len(s.recvd[1][1]), len(s.sent[0][1])))
				}
			})
			n += len(f)
		}
	}
	fmt.Printf("SCENEMPTY fails=%d\n", n)
}

// TestVerifScenReadDeadline: a read deadline makes a blocked read return at the deadline without losing
// or duplicating a message, for arrival instants swept around the deadline (C18).
func TestVerifScenReadDeadline(t *testing.T) {
	n, runs := 0, 0
	offsets := []time.Duration{-5 * time.Millisecond, -1 * time.Nanosecond, 0, 1 * time.Nanosecond, 5 * time.Millisecond, 300 * time.Millisecond}
	for _, il := range []int{0, 1} {
		for _, off := range offsets {
			o := simOpts{seed: int64(off), interleaveA: il, interleaveB: il, setTSN: true, tsnA: 1, tsnB: 2}
			f := simScenario(t, fmt.Sprintf("read-deadline/il=%d/off=%v", il, off), o, func(s *sim) {
				// open the stream on the receiving side by delivering a first message
				_ = s.write(0, 1, 10, PayloadTypeWebRTCBinary)
				s.runFaultFree(2*time.Second, 10*time.Millisecond, s.allDelivered)
				st := s.streams[1][1]
				if st == nil {
					s.fail("C18", "receiving stream not created")
					return
				}
				const D = 100 * time.Millisecond
				type res struct {
					n   int
					err error
					at  time.Duration
				}
				out := make(chan res, 4)
				t0 := s.now()
				_ = st.SetReadDeadline(time.Now().Add(D))
				go func() {
					buf := make([]byte, 4096)
					k, _, err := st.ReadSCTP(buf)
					out <- res{k, err, s.now() - t0}
				}()
				s.settle()
				// the message is written now but its packet is delivered at D+off
				_ = s.write(0, 1, 33, PayloadTypeWebRTCBinary)
				wait := D + off
				if wait > 0 {
					time.Sleep(wait)
				}
				for len(s.flight[0]) > 0 {
					s.deliver(0, 0, false)
				}
				time.Sleep(D) // let the deadline pass in every case
				s.settle()
				var r res
				select {
				case r = <-out:
				default:
					s.fail("C18", "read blocked past its deadline (read-deadline-ignored)")
					return
				}
				got := 0
				if r.err == nil {
					got++
					if r.n != 33 {
						s.fail("C18", fmt.Sprintf("read returned %d bytes, expected 33", r.n))
					}
				} else if r.at < D {
					s.fail("C18", fmt.Sprintf("read failed with %v before its deadline (at %v)", r.err, r.at))
				}
				// a read issued while the deadline is still expired (the message may have arrived after it): it may return
				// the buffered message or the timeout, but must not consume a message it does not return (seed C18-4)
				st.lock.RLock()
				readableNow := st.reassemblyQueue.isReadable()
				st.lock.RUnlock()
				if readableNow {
					buf := make([]byte, 4096)
					if k, _, err := st.ReadSCTP(buf); err == nil && k == 33 {
						got++
					}
				}
				// clear the deadline and drain: the message must be there exactly once in total
				_ = st.SetReadDeadline(time.Time{})
				for {
					st.lock.RLock()
					readable := st.reassemblyQueue.isReadable()
					st.lock.RUnlock()
					if !readable {
						break
					}
					buf := make([]byte, 4096)
					k, _, err := st.ReadSCTP(buf)
					if err != nil {
						s.fail("C18", fmt.Sprintf("read after clearing the deadline failed: %v", err))
						break
					}
					if k == 33 {
						got++
					}
				}
				if got != 1 {
					s.fail("C18", fmt.Sprintf("message delivered %d times around a read deadline (read-deadline-loses-or-duplicates) off=%v", got, off))
				}
				runs++
			})
			n += len(f)
		}
	}
	fmt.Printf("SCENREADDL runs=%d fails=%d\n", runs, n)
}

// TestVerifScenBlockingWrite: in blocking-write mode a write returns only after all previously written data
// left the pending queue; a write that hits its deadline is rolled back and disturbs nothing (C18).
func TestVerifScenBlockingWrite(t *testing.T) {
	n, runs := 0, 0
	for _, il := range []int{0, 1} {
		for _, dl := range []bool{false, true} {
			o := simOpts{seed: int64(il), interleaveA: il, interleaveB: il, setTSN: true, tsnA: 7, tsnB: 9, blockWrite: true}
			f := simScenario(t, fmt.Sprintf("blocking-write/il=%d/deadline=%v", il, dl), o, func(s *sim) {
				a := s.assoc[0]
				st := s.openStream(0, 2)
				big := 20 * int(a.maxPayloadSize) // more than the initial cwnd: stays in the pending queue
				type wres struct {
					err     error
					pending int
				}
				w1 := make(chan wres, 1)
				w2 := make(chan wres, 1)
				go func() {
					_, err := st.WriteSCTP(simPayload(0, 2, 0, big), PayloadTypeWebRTCBinary)
					w1 <- wres{err, a.pendingQueue.size()}
				}()
				s.settle()
				s.sent[0][2] = append(s.sent[0][2], simMsg{sid: 2, ppi: PayloadTypeWebRTCBinary, idx: 0, n: big})
				if dl {
					_ = st.SetWriteDeadline(time.Now().Add(50 * time.Millisecond))
				} else {
					// the second write must eventually be accepted: register it up front so that its delivery
					// (which may happen before the harness looks at the result) is recognised
					s.sent[0][2] = append(s.sent[0][2], simMsg{sid: 2, ppi: PayloadTypeWebRTCBinary, idx: 1, n: 500})
				}
				go func() {
					_, err := st.WriteSCTP(simPayload(0, 2, 1, 500), PayloadTypeWebRTCBinary)
					a.lock.RLock()
					p := a.pendingQueue.size()
					a.lock.RUnlock()
					w2 <- wres{err, p}
				}()
				s.settle()
				select {
				case r := <-w2:
					s.fail("C18", fmt.Sprintf("second blocking write returned (err=%v) while %d chunks of the first were still pending (blocking-write-not-blocked)", r.err, a.pendingQueue.size()))
					return
				default:
				}
				if dl {
					time.Sleep(60 * time.Millisecond)
					s.settle()
					select {
					case r := <-w2:
						if r.err == nil {
							s.fail("C18", "blocking write with an expired deadline returned without error")
						}
					default:
						s.fail("C18", "blocking write did not return at its deadline (write-deadline-ignored)")
					}
					_ = st.SetWriteDeadline(time.Time{})
				}
				s.runFaultFree(20*time.Second, 20*time.Millisecond, func() bool { return a.BufferedAmount() == 0 })
				if !dl {
					select {
					case r := <-w2:
						if r.err != nil {
							s.fail("C18", fmt.Sprintf("second blocking write failed: %v", r.err))
						}
					default:
						s.fail("C18", "second blocking write never returned although everything was sent (blocking-write-stuck)")
					}
				}
				// a later write must work and everything accepted must be delivered in order
				if err := s.write(0, 2, 77, PayloadTypeWebRTCBinary); err != nil {
					s.fail("C18", fmt.Sprintf("write after the blocked writes failed: %v", err))
				}
				if !s.runFaultFree(30*time.Second, 20*time.Millisecond, s.allDelivered) {
					s.fail("C18", fmt.Sprintf("messages written around a failed blocking write are not all delivered: %d of %d (failed-write-disturbs-delivery)", len(s.recvd[1][2]), len(s.sent[0][2])))
				}
				s.checkOrderedPrefix(false)
				runs++
			})
			n += len(f)
		}
	}
	fmt.Printf("SCENBLOCKW runs=%d fails=%d\n", runs, n)
}

// TestVerifScenFwdUnordered: an abandoned UNORDERED message on a stream that also carries ordered (DCEP)
// messages must not make the receiver skip a live ordered message (C07).
func TestVerifScenFwdUnordered(t *testing.T) {
	n := 0
	for _, il := range []int{0, 1} {
		o := simOpts{seed: int64(il), interleaveA: il, interleaveB: il, setTSN: true, tsnA: 1000, tsnB: 2000}
		f := simScenario(t, fmt.Sprintf("fwd-unordered/il=%d", il), o, func(s *sim) {
			st := s.openStream(0, 4)
			st.SetReliabilityParams(true, ReliabilityTypeRexmit, 0) // unordered, no retransmission
			_ = s.write(0, 4, 20, PayloadTypeWebRTCDCEP)            // ordered (DCEP is forced ordered + reliable)
			s.runFaultFree(2*time.Second, 20*time.Millisecond, s.allDelivered)
			_ = s.write(0, 4, 30, PayloadTypeWebRTCBinary) // unordered, will be abandoned
			for len(s.flight[0]) > 0 {
				s.drop(0, 0)
			}
			// let T3 expire: the chunk is abandoned, FORWARD-TSN goes out and is delivered
			s.runFaultFree(5*time.Second, 50*time.Millisecond, func() bool { return s.assoc[0].BufferedAmount() == 0 })
			_ = s.write(0, 4, 40, PayloadTypeWebRTCDCEP) // next ordered message on the same stream
			has := func(idx int) bool {
				for _, m := range s.recvd[1][4] {
					if m.idx == idx {
						return true
					}
				}
				return false
			}
			s.runFaultFree(20*time.Second, 50*time.Millisecond, func() bool { return has(2) })
			if !has(0) || !has(2) {
				s.fail("C07", fmt.Sprintf("ordered message after an abandoned unordered message on the same stream is never delivered (forward-tsn-skips-live-ordered-message): delivered %d", len(s.recvd[1][4])))
			}
		})
		n += len(f)
	}
	fmt.Printf("SCENFWDUNORD fails=%d\n", n)
}

// TestVerifScenZeroWindow: a reader that pauses until the peer's window is zero, then resumes; the sender must
// recover (window probes, SACK-driven restart) and drain (C02).
func TestVerifScenZeroWindow(t *testing.T) {
	n, runs := 0, 0
	for _, buf := range []uint32{4000, 16 * 1024, 64 * 1024} {
		for _, il := range []int{0, 1} {
			for _, lossy := range []bool{false, true} {
				o := simOpts{seed: int64(buf) + int64(il), interleaveA: il, interleaveB: il, setTSN: true, tsnA: ^uint32(0) - 50, tsnB: 5, recvBuf: buf}
				f := simScenario(t, fmt.Sprintf("zero-window/buf=%d/il=%d/lossy=%v", buf, il, lossy), o, func(s *sim) {
					a := s.assoc[0]
					total := 0
					k := 0
					// write more than the peer's buffer in messages that each fit into it; nobody reads
					for total < 3*int(buf) {
						sz := int(buf)/5 + 17*k
						if a.BufferedAmount() > 2*int(buf) {
							break
						}
						_ = s.write(0, uint16(k%2), sz, PayloadTypeWebRTCBinary)
						total += sz
						k++
					}
					// let it run without reading until the window closed
					for i := 0; i < 400; i++ {
						for len(s.flight[0]) > 0 || len(s.flight[1]) > 0 {
							from := 0
							if len(s.flight[0]) == 0 {
								from = 1
							}
							if lossy && i%7 == 3 {
								s.drop(from, 0)
							} else {
								s.deliver(from, 0, false)
							}
						}
						s.advance(100 * time.Millisecond)
						s.checkNoStallInvariant()
					}
					// the application resumes reading: everything must drain within the bound
					if !s.runFaultFree(5*60*time.Second, 50*time.Millisecond, s.allDelivered) {
						s.fail("C02", fmt.Sprintf("association stuck after a zero-window episode (zero-window-stall): delivered=%d,%d of %d,%d buffered=%d rwnd=%d inflight=%d pending=%d",
							len(s.recvd[1][0]), len(s.recvd[1][1]), len(s.sent[0][0]), len(s.sent[0][1]), a.BufferedAmount(), a.RWND(), a.inflightQueue.size(), a.pendingQueue.size()))
					}
					s.checkOrderedPrefix(true)
					runs++
				})
				n += len(f)
			}
		}
	}
	fmt.Printf("SCENZEROWND runs=%d fails=%d\n", runs, n)
}
