(* C01: what an ordered stream hands to the application is a prefix of what was written.
   Part A: one reassembly queue fed with fragments of a message family (DATA mode), each fragment at
           most once, in any order, reads with any buffers in between.
   Part B: the composed receiver (E2E.v) feeds every queue that way (receive bitmap, C05).
   Part C: the sender universe generator produces such a family. *)
From Coq Require Import ZArith Bool List Lia Permutation Sorted.
From Coq Require Import ZifyBool.
From Sctp Require Import Gen SnaProofs RPQ RQ E2E RQProofs.
Import ListNotations.
Open Scope Z_scope.
Ltac Zify.zify_post_hook ::= Z.div_mod_to_equations.

(* ------------------------------------------------------------------------------------------ *)
(* serial-number facts used below                                                               *)
(* ------------------------------------------------------------------------------------------ *)
Lemma e2e_not_stale m k : m <= k < m + 32768 -> sna16LT (wrap16 k) (wrap16 m) = false.
Proof.
  intros H. destruct (sna16LT (wrap16 k) (wrap16 m)) eqn:E; [|reflexivity].
  apply sna16LT_spec in E; unfold in16, wrap16 in *; lia.
Qed.

Lemma e2e_gt_cursor m k : m <= k < m + 32768 -> (sna16GT (wrap16 k) (wrap16 m) = false <-> k = m).
Proof.
  intros H. split.
  - intros E. destruct (Z.eq_dec k m) as [|N]; [assumption|exfalso].
    assert (X : sna16GT (wrap16 k) (wrap16 m) = true) by (apply sna16GT_spec; unfold in16, wrap16; lia).
    congruence.
  - intros ->. destruct (sna16GT (wrap16 m) (wrap16 m)) eqn:E; [|reflexivity].
    apply sna16GT_spec in E; unfold in16, wrap16 in *; lia.
Qed.

Lemma e2e_key_inj m k k' : m <= k < m + 32768 -> m <= k' < m + 32768 -> wrap16 k = wrap16 k' -> k = k'.
Proof. unfold wrap16. intros. lia. Qed.

Lemma e2e_tsn_step a j j' : 0 <= j < 2147483648 -> 0 <= j' < 2147483648 ->
  wrap32 (a + j') = wrap32 (wrap32 (a + j) + 1) -> j' = j + 1.
Proof. unfold wrap32. intros. lia. Qed.

Lemma NoDup_app_snoc {A} (l : list A) x : NoDup l /\ ~ In x l -> NoDup (l ++ [x]).
Proof.
  intros [H1 H2]. apply (Permutation_NoDup (l := x :: l)); [|constructor; assumption].
  change (x :: l) with ([x] ++ l). apply Permutation_app_comm.
Qed.

(* ------------------------------------------------------------------------------------------ *)
(* rq_split_frag                                                                                *)
(* ------------------------------------------------------------------------------------------ *)
Lemma e2e_split_frag_spec ssn : forall l, Forall (fun x => rqs_chunks x <> []) l ->
  match rq_split_frag ssn l with
  | None => False
  | Some None => forall x, In x l -> rqs_key x = ssn -> exists c0 t, rqs_chunks x = c0 :: t /\ rqc_fragmented c0 = false
  | Some (Some (b, x, a)) => l = b ++ x :: a /\ rqs_key x = ssn /\
                             exists c0 t, rqs_chunks x = c0 :: t /\ rqc_fragmented c0 = true
  end.
Proof.
  induction 1 as [|y t Hy Ht IH]; cbn [rq_split_frag]; [intros x []|].
  destruct (rqs_chunks y) as [|c0 cs] eqn:Ec; [congruence|].
  destruct (rq_split_frag ssn t) as [[[[b x] a]|]|]; [| |destruct IH].
  - destruct IH as (-> & Hk & Hx).
    destruct (rqs_key y =? ssn) eqn:Ek; [destruct (rqc_fragmented c0) eqn:Ef|].
    + split; [reflexivity|]. split; [lia|]. exists c0, cs. auto.
    + split; [reflexivity|]. auto.
    + split; [reflexivity|]. auto.
  - destruct (rqs_key y =? ssn) eqn:Ek; [destruct (rqc_fragmented c0) eqn:Ef|].
    + split; [reflexivity|]. split; [lia|]. exists c0, cs. auto.
    + intros x [<-|Hx] Hkx; [exists c0, cs; auto|apply IH; assumption].
    + intros x [<-|Hx] Hkx; [lia|apply IH; assumption].
Qed.

Definition js (n : Z) : list Z := map Z.of_nat (seq 0 (Z.to_nat n)).

  Lemma map_nth_ext {A} (f : Z -> A) : forall (cs : list A) (a : nat),
    (forall i c, nth_error cs i = Some c -> c = f (Z.of_nat (a + i))) ->
    cs = map f (map Z.of_nat (seq a (length cs))).
  Proof.
    induction cs as [|c t IH]; intros a H; [reflexivity|]. cbn [length seq map]. f_equal.
    - rewrite (H 0%nat c eq_refl). f_equal. f_equal. lia.
    - apply IH. intros i c' Hi. rewrite (H (S i) c' Hi). f_equal. f_equal. lia.
  Qed.

  Lemma last_nth_error {A} (cs : list A) d : cs <> [] -> nth_error cs (length cs - 1) = Some (last cs d).
  Proof.
    induction cs as [|c t IH]; [congruence|]. intros _. destruct t as [|c' t']; [reflexivity|].
    cbn [length]. replace (S (S (length t')) - 1)%nat with (S (length (c' :: t') - 1)) by (cbn [length]; lia).
    cbn [nth_error]. rewrite IH by discriminate. reflexivity.
  Qed.

  Lemma wrap16_succ m : wrap16 (wrap16 m + 1) = wrap16 (m + 1).
  Proof. unfold wrap16. rewrite Zplus_mod_idemp_l. reflexivity. Qed.

  Lemma In_js j n : In j (js n) <-> 0 <= j < n.
  Proof.
    unfold js. rewrite in_map_iff. split.
    - intros (i & <- & Hi). apply in_seq in Hi. lia.
    - intros H. exists (Z.to_nat j). split; [lia|]. apply in_seq. lia.
  Qed.

(* ========================================================================================== *)
(* Part A: one queue, DATA mode                                                                 *)
(* ========================================================================================== *)
Section OneQueue.
  Variable s : Z.                       (* stream identifier *)
  Variable T : Z -> Z.                  (* TSN index of the first fragment of message k *)
  Variable nfr : Z -> Z.                (* number of fragments of message k *)
  Variable frag : Z -> Z -> list Z.     (* payload of fragment j of message k *)
  Variable mppi : Z -> Z.               (* payload protocol identifier of message k *)
  Hypothesis Hnfr : forall k, 1 <= nfr k < 2147483648.

  Definition qchunk (k j : Z) : rqchunk :=
    mkRqChunk (wrap32 (T k + j)) s (wrap16 k) 0 0 (mppi k) false (j =? 0) (j =? nfr k - 1) false (frag k j).

  Definition qmsg (k : Z) : list rqchunk := map (qchunk k) (js (nfr k)).

  Definition set_ok (m : Z) (P : list (Z * Z)) (x : rqset) : Prop :=
    exists k, m <= k < m + 32768 /\ rqs_key x = wrap16 k /\ rqs_ppi x = mppi k /\ rqs_chunks x <> [] /\
              Forall (fun c => exists j, 0 <= j < nfr k /\ c = qchunk k j /\ In (k, j) P) (rqs_chunks x).

  Definition QInv (q : rq) (m : Z) (P : list (Z * Z)) : Prop :=
    rq_inter q = false /\ rq_unordered q = [] /\ rq_si q = s /\ rq_nextSSN q = wrap16 m /\ 0 <= m /\
    Forall (set_ok m P) (rq_ordered q) /\ NoDup (map rqs_key (rq_ordered q)) /\
    (forall k j, 0 <= k < m -> 0 <= j < nfr k -> In (k, j) P).

  Lemma set_ok_mono m P P' x : (forall p, In p P -> In p P') -> set_ok m P x -> set_ok m P' x.
  Proof.
    intros HP (k & H1 & H2 & H3 & H4 & H5). exists k. repeat split; try assumption; try lia.
    eapply Forall_impl; [|exact H5]. intros c (j & A & B & C). exists j. auto.
  Qed.

  Lemma qchunk_fragmented k j : 0 <= j < nfr k -> rqc_fragmented (qchunk k j) = negb (nfr k =? 1).
  Proof. intros H. unfold rqc_fragmented, qchunk. cbn [rqc_beg rqc_end]. lia. Qed.

  (* a fragment that was not pushed before, within the span of the read cursor, arrives *)
  Lemma QInv_push q m P k j :
    QInv q m P -> 0 <= k -> 0 <= j < nfr k -> ~ In (k, j) P -> k < m + 32768 ->
    QInv (fst (rq_push q (qchunk k j))) m ((k, j) :: P).
  Proof.
    intros (Hi & Hu & Hs & Hn & Hm & Hsets & Hnd & Hdone) Hk Hj Hnew Hspan.
    assert (Hkm : m <= k).
    { destruct (Z_lt_le_dec k m) as [L|]; [|assumption]. exfalso. apply Hnew, Hdone; lia. }
    assert (Hmono : Forall (set_ok m ((k, j) :: P)) (rq_ordered q)).
    { eapply Forall_impl; [|exact Hsets]. intros x. apply set_ok_mono. intros p Hp. right. exact Hp. }
    assert (Same : QInv q m ((k, j) :: P)).
    { repeat split; try assumption. intros k0 j0 A B. right. apply Hdone; assumption. }
    unfold rq_push. change (rqc_idata (qchunk k j)) with false. change (rqc_si (qchunk k j)) with s.
    change (rqc_unord (qchunk k j)) with false. rewrite Hs. replace (negb (s =? s)) with false by lia. cbv iota.
    unfold rq_push_ordered. change (rqc_ssn (qchunk k j)) with (wrap16 k). rewrite Hn.
    rewrite (e2e_not_stale m k) by lia.
    rewrite (qchunk_fragmented k j Hj).
    assert (Hne : Forall (fun x => rqs_chunks x <> []) (rq_ordered q)).
    { eapply Forall_impl; [|exact Hsets]. intros x (k0 & _ & _ & _ & H & _). exact H. }
    (* the set of message k, if there is one *)
    assert (Hown : forall x, In x (rq_ordered q) -> rqs_key x = wrap16 k ->
                   2 <= nfr k /\ Forall (fun c => exists j0, 0 <= j0 < nfr k /\ c = qchunk k j0 /\ In (k, j0) P) (rqs_chunks x)).
    { intros x Hx Hkx. eapply Forall_forall in Hsets; [|exact Hx].
      destruct Hsets as (k0 & R0 & K0 & _ & N0 & F0). rewrite Hkx in K0.
      assert (k0 = k) by (symmetry; eapply (e2e_key_inj m); [lia|lia|exact K0]). subst k0.
      split; [|exact F0]. destruct (rqs_chunks x) as [|c0 t]; [congruence|].
      inversion F0 as [|? ? (j0 & A & B & C) _]; subst.
      destruct (Z.eq_dec (nfr k) 1) as [E1|]; [|specialize (Hnfr k); lia].
      exfalso. apply Hnew. replace j with j0 by lia. exact C. }
    destruct (nfr k =? 1) eqn:En; cbn [negb].
    - (* unfragmented message: a new set *)
      cbv iota.
      destruct (rq_has_limit q && rq_limit_reached q (rq_ordered_count q)); [exact Same|].
      cbn [fst]. unfold QInv, rq_set_q. cbn [rq_inter rq_unordered rq_si rq_nextSSN rq_ordered].
      repeat split; try assumption.
      + apply rq_isort_Forall, Forall_snoc; [exact Hmono|]. exists k. cbn [rqs_key rqs_ppi rqs_chunks].
        repeat split; try lia; try discriminate. constructor; [|constructor]. exists j. repeat split; try lia. left. reflexivity.
      + eapply Permutation_NoDup; [apply Permutation_map; symmetry; apply rq_isort_perm|].
        rewrite map_app. cbn [map rqs_key]. apply NoDup_app_snoc. split; [exact Hnd|].
        intros Hin. apply in_map_iff in Hin. destruct Hin as (x & Kx & Hx). destruct (Hown x Hx Kx) as [H2 _]. lia.
      + intros k0 j0 A B. right. apply Hdone; assumption.
    - (* fragmented message *)
      pose proof (e2e_split_frag_spec (wrap16 k) (rq_ordered q) Hne) as HS.
      destruct (rq_split_frag (wrap16 k) (rq_ordered q)) as [[[[b x] a]|]|]; [| |destruct HS].
      + destruct HS as (El & Kx & c0 & t0 & Ec & Ef).
        destruct (rq_has_tsn (rqc_tsn (qchunk k j)) (rqs_chunks x)); [exact Same|].
        destruct (rq_has_limit q && rq_limit_reached q (rq_ordered_count q)); [exact Same|].
        cbn [fst]. unfold QInv, rq_set_q. cbn [rq_inter rq_unordered rq_si rq_nextSSN rq_ordered].
        assert (Hx : In x (rq_ordered q)) by (rewrite El; apply in_or_app; right; left; reflexivity).
        destruct (Hown x Hx Kx) as [_ HF].
        rewrite El in Hmono, Hnd. apply Forall_app in Hmono. destruct Hmono as [Mb Ma]. inversion Ma as [|? ? Mx Ma']; subst.
        repeat split; try assumption.
        * apply Forall_app. split; [exact Mb|]. constructor; [|exact Ma'].
          destruct Mx as (k0 & R0 & K0 & P0 & _ & _). rewrite Kx in K0.
          assert (k0 = k) by (symmetry; eapply (e2e_key_inj m); [lia|lia|exact K0]). subst k0.
          exists k. unfold rq_push_chunk_to_set. cbn [rqs_key rqs_ppi rqs_chunks]. repeat split; try lia; try assumption.
          -- apply rq_isort_nonempty. destruct (rqs_chunks x); discriminate.
          -- apply rq_isort_Forall, Forall_snoc.
             ++ eapply Forall_impl; [|exact HF]. intros c (j0 & A & B & C). exists j0. repeat split; try lia; try assumption. right. exact C.
             ++ exists j. repeat split; try lia. left. reflexivity.
        * rewrite map_app in *. cbn [map] in *. unfold rq_push_chunk_to_set. cbn [rqs_key]. exact Hnd.
        * intros k0 j0 A B. right. apply Hdone; assumption.
      + (* no set of this message yet *)
        cbv iota.
        destruct (rq_has_limit q && rq_limit_reached q (rq_ordered_count q)); [exact Same|].
        cbn [fst]. unfold QInv, rq_set_q. cbn [rq_inter rq_unordered rq_si rq_nextSSN rq_ordered].
        repeat split; try assumption.
        * apply rq_isort_Forall, Forall_snoc; [exact Hmono|]. exists k. cbn [rqs_key rqs_ppi rqs_chunks].
          repeat split; try lia; try discriminate. constructor; [|constructor]. exists j. repeat split; try lia. left. reflexivity.
        * eapply Permutation_NoDup; [apply Permutation_map; symmetry; apply rq_isort_perm|].
          rewrite map_app. cbn [map rqs_key]. apply NoDup_app_snoc. split; [exact Hnd|].
          intros Hin. apply in_map_iff in Hin. destruct Hin as (x & Kx & Hx).
          destruct (HS x Hx Kx) as (c0 & t0 & Ec & Ef). destruct (Hown x Hx Kx) as [_ HF].
          rewrite Ec in HF. inversion HF as [|? ? (j0 & A & B & C) _]; subst.
          rewrite (qchunk_fragmented k j0 A), En in Ef. discriminate.
        * intros k0 j0 A B. right. apply Hdone; assumption.
  Qed.

  (* ---------- a complete set made of fragments of message k is the whole message, in order ---------- *)
  Lemma qchunk_inj k j j' : 0 <= j < nfr k -> 0 <= j' < nfr k -> qchunk k j = qchunk k j' -> j = j'.
  Proof.
    intros A B E. apply (f_equal rqc_tsn) in E. cbn [qchunk rqc_tsn] in E.
    pose proof (Hnfr k). unfold wrap32 in E. lia.
  Qed.



  Lemma complete_is_message k cs :
    Forall (fun c => exists j, 0 <= j < nfr k /\ c = qchunk k j) cs -> rqs_complete cs = true -> cs = qmsg k.
  Proof.
    intros HF HC. apply rqs_complete_iff in HC. destruct HC as (c0 & t & E & Hb & He & Hcon).
    assert (Hidx : forall i c, nth_error cs i = Some c -> c = qchunk k (Z.of_nat i) /\ Z.of_nat i < nfr k).
    { induction i as [|i IH]; intros c Hc.
      - rewrite E in Hc. cbn in Hc. inversion Hc; subst c. rewrite E in HF. inversion HF as [|? ? H0 _]. destruct H0 as (j & A & B).
        rewrite B in Hb. cbn [qchunk rqc_beg] in Hb. assert (j = 0) by lia. subst j. split; [exact B|lia].
      - destruct (nth_error cs i) as [x|] eqn:Ex.
        + destruct (IH x eq_refl) as [Ex' Hi]. assert (Hin : In c cs) by (eapply nth_error_In; exact Hc).
          eapply Forall_forall in HF; [|exact Hin]. destruct HF as (j & A & B).
          pose proof (Hcon i x c Ex Hc) as Ht. rewrite Ex', B in Ht. cbn [qchunk rqc_tsn] in Ht.
          pose proof (Hnfr k). apply e2e_tsn_step in Ht; try lia. split; [rewrite B; f_equal; lia|lia].
        + exfalso. apply nth_error_None in Ex. assert (X : nth_error cs (S i) <> None) by congruence.
          apply nth_error_Some in X. lia. }
    assert (Hne : cs <> []) by (rewrite E; discriminate).
    assert (Hlen : Z.of_nat (length cs) = nfr k).
    { pose proof (last_nth_error cs c0 Hne) as HL. destruct (Hidx _ _ HL) as [EL Hlt].
      rewrite EL in He. cbn [qchunk rqc_end] in He.
      assert (length cs <> 0)%nat by (destruct cs; [congruence|cbn; lia]). lia. }
    unfold qmsg, js. rewrite <- Hlen, Nat2Z.id. apply map_nth_ext. intros i c Hc. apply Hidx. exact Hc.
  Qed.



  (* a read: either it delivers exactly the next message, or it changes nothing *)
  Lemma QInv_read q m P b :
    QInv q m P ->
    match snd (rq_read q b) with
    | RdOk n ppi del => del = qmsg m /\ ppi = mppi m /\ QInv (fst (rq_read q b)) (m + 1) P
    | _ => fst (rq_read q b) = q
    end.
  Proof.
    intros (Hi & Hu & Hs & Hn & Hm & Hsets & Hnd & Hdone).
    unfold rq_read. rewrite Hi, Hu.
    destruct (rq_ordered q) as [|x rest] eqn:EO; [reflexivity|].
    destruct (rqs_complete (rqs_chunks x)) eqn:Ec; cbn [negb]; [|reflexivity].
    destruct (sna16GT (rqs_key x) (rq_nextSSN q)) eqn:Eg; [reflexivity|].
    rewrite rq_copy_short_iff. destruct (rq_short b (rqs_chunks x)); [reflexivity|]. cbn [fst snd].
    inversion Hsets as [|? ? (k & Rk & Kk & Pk & Nk & Fk) Hrest]; subst.
    rewrite Kk, Hn in Eg. apply (e2e_gt_cursor m k Rk) in Eg. subst k.
    assert (Emsg : rqs_chunks x = qmsg m).
    { apply complete_is_message; [|exact Ec]. eapply Forall_impl; [|exact Fk]. intros c (j & A & B & _). exists j. auto. }
    split; [exact Emsg|]. split; [exact Pk|].
    unfold QInv, rq_set_next. cbn [rq_inter rq_unordered rq_si rq_nextSSN rq_ordered].
    cbn [map] in Hnd. inversion Hnd as [|? ? Hnotin Hnd']; subst.
    repeat split; try assumption; try lia.
    - rewrite Kk, Hn, Z.eqb_refl. apply wrap16_succ.
    - apply Forall_forall. intros y Hy. eapply Forall_forall in Hrest; [|exact Hy].
      destruct Hrest as (k & Rk' & Kk' & Rest). exists k. split; [|split; [exact Kk'|exact Rest]].
      assert (k <> m). { intros ->. apply Hnotin. rewrite Kk, <- Kk'. apply in_map. exact Hy. }
      lia.
    - intros k j A B. destruct (Z.eq_dec k m) as [->|]; [|apply Hdone; lia].
      assert (Hin : In (qchunk m j) (rqs_chunks x)).
      { rewrite Emsg. unfold qmsg. apply in_map. apply In_js. exact B. }
      eapply Forall_forall in Fk; [|exact Hin]. destruct Fk as (j0 & A0 & B0 & C0).
      replace j with j0; [exact C0|]. symmetry. eapply qchunk_inj; eassumption.
  Qed.

  (* ---------- histories on one queue ---------- *)
  Inductive qop := QPush (k j : Z) | QRead (b : Z).

  Definition qstep (q : rq) (o : qop) : rq :=
    match o with QPush k j => fst (rq_push q (qchunk k j)) | QRead b => fst (rq_read q b) end.

  Definition qout (q : rq) (o : qop) : list (list rqchunk * Z) :=
    match o with
    | QRead b => match snd (rq_read q b) with RdOk _ ppi del => [(del, ppi)] | _ => [] end
    | _ => []
    end.

  Fixpoint qouts (q : rq) (ops : list qop) : list (list rqchunk * Z) :=
    match ops with [] => [] | o :: t => qout q o ++ qouts (qstep q o) t end.

  (* hypotheses on a history: fragments exist, none is pushed twice (C05: the receive bitmap accepts a
     TSN once), and H_ssn: a fragment pushed belongs to a message less than 2^15 ahead of the number of
     messages read so far *)
  Fixpoint qvalid (m : Z) (P : list (Z * Z)) (q : rq) (ops : list qop) : Prop :=
    match ops with
    | [] => True
    | QPush k j :: t => 0 <= k /\ 0 <= j < nfr k /\ ~ In (k, j) P /\ k < m + 32768 /\
                        qvalid m ((k, j) :: P) (qstep q (QPush k j)) t
    | QRead b :: t => qvalid (m + Z.of_nat (length (qout q (QRead b)))) P (qstep q (QRead b)) t
    end.

  Definition msgs_from (m : Z) (n : nat) : list (list rqchunk * Z) :=
    map (fun i => (qmsg (m + Z.of_nat i), mppi (m + Z.of_nat i))) (seq 0 n).

  Lemma one_queue_prefix : forall ops q m P,
    QInv q m P -> qvalid m P q ops -> qouts q ops = msgs_from m (length (qouts q ops)).
  Proof.
    induction ops as [|o t IH]; intros q m P HI HV; [reflexivity|]. cbn [qouts].
    destruct o as [k j|b]; cbn [qvalid] in HV.
    - destruct HV as (A & B & C & D & HV). cbn [qout app]. eapply IH; [|exact HV].
      cbn [qstep]. apply QInv_push; assumption.
    - pose proof (QInv_read q m P b HI) as HR. cbn [qout qstep] in *.
      destruct (snd (rq_read q b)) as [n ppi del| |].
      + destruct HR as (-> & -> & HI'). cbn [length app] in *.
        specialize (IH _ _ _ HI' HV). rewrite IH at 1. unfold msgs_from. cbn [length seq map].
        replace (m + Z.of_nat 0) with m by lia. f_equal. rewrite <- seq_shift, map_map.
        apply map_ext. intros i. replace (m + 1 + Z.of_nat i) with (m + Z.of_nat (S i)) by lia. reflexivity.
      + cbn [length app] in *. rewrite HR in *. replace (m + Z.of_nat 0) with m in HV by lia. eapply IH; eassumption.
      + cbn [length app] in *. rewrite HR in *. replace (m + Z.of_nat 0) with m in HV by lia. eapply IH; eassumption.
  Qed.
End OneQueue.

(* ========================================================================================== *)
(* Part A': one queue, I-DATA mode (ordered messages identified by MID, fragments by FSN)         *)
(* ========================================================================================== *)
Lemma e2e_not_stale32 m k : m <= k < m + 2147483648 -> sna32LT (wrap32 k) (wrap32 m) = false.
Proof.
  intros H. destruct (sna32LT (wrap32 k) (wrap32 m)) eqn:E; [|reflexivity].
  apply sna32LT_spec in E; unfold in32, wrap32 in *; lia.
Qed.

Lemma e2e_gt_cursor32 m k : m <= k < m + 2147483648 -> (sna32GT (wrap32 k) (wrap32 m) = false <-> k = m).
Proof.
  intros H. split.
  - intros E. destruct (Z.eq_dec k m) as [|N]; [assumption|exfalso].
    assert (X : sna32GT (wrap32 k) (wrap32 m) = true) by (apply sna32GT_spec; unfold in32, wrap32; lia).
    congruence.
  - intros ->. destruct (sna32GT (wrap32 m) (wrap32 m)) eqn:E; [|reflexivity].
    apply sna32GT_spec in E; unfold in32, wrap32 in *; lia.
Qed.

Lemma e2e_key_inj32 m k k' : m <= k < m + 2147483648 -> m <= k' < m + 2147483648 -> wrap32 k = wrap32 k' -> k = k'.
Proof. unfold wrap32. intros. lia. Qed.

Lemma rq_split_key_none k : forall l, rq_split_key k l = None -> forall x, In x l -> rqs_key x <> k.
Proof.
  induction l as [|y t IH]; intros H x Hx; [destruct Hx|]. cbn [rq_split_key] in H.
  destruct (rqs_key y =? k) eqn:E; [discriminate|].
  destruct (rq_split_key k t) as [[[b z] a]|] eqn:Et; [discriminate|].
  destruct Hx as [<-|Hx]; [lia|apply IH; [reflexivity|exact Hx]].
Qed.

Lemma rqm_push_and_check_ppi x c x' comp :
  rqm_push_and_check x c = (x', comp, true) ->
  rqs_key x' = rqs_key x /\ Permutation (rqs_chunks x') (c :: rqs_chunks x) /\
  rqs_ppi x' = (if rqc_beg c then rqc_ppi c else rqs_ppi x).
Proof.
  unfold rqm_push_and_check. destruct (rqm_complete (rqs_chunks x)); [discriminate|].
  destruct (existsb (fun y => rqc_fsn y =? rqc_fsn c) (rqs_chunks x)); [discriminate|].
  intros H; inversion H; subst; clear H. cbn [rqs_key rqs_chunks rqs_ppi]. repeat split.
  rewrite rq_isort_perm. rewrite Permutation_app_comm. reflexivity.
Qed.

Section OneQueueI.
  Variable s : Z.
  Variable tix : Z -> Z -> Z.           (* TSN index of fragment j of message k (any) *)
  Variable nfr : Z -> Z.
  Variable frag : Z -> Z -> list Z.
  Variable mppi : Z -> Z.
  Hypothesis Hnfr : forall k, 1 <= nfr k < 2147483648.

  Definition ichunk (k j : Z) : rqchunk :=
    mkRqChunk (wrap32 (tix k j)) s (wrap16 (wrap32 k)) (wrap32 k) j (if j =? 0 then mppi k else 0)
              false (j =? 0) (j =? nfr k - 1) true (frag k j).
  Definition imsg (k : Z) : list rqchunk := map (ichunk k) (js (nfr k)).

  Definition iset_ok (m : Z) (P : list (Z * Z)) (x : rqset) : Prop :=
    exists k, m <= k < m + 2147483648 /\ rqs_key x = wrap32 k /\
              ((exists c, In c (rqs_chunks x) /\ rqc_beg c = true) -> rqs_ppi x = mppi k) /\
              rqs_chunks x <> [] /\
              Forall (fun c => exists j, 0 <= j < nfr k /\ c = ichunk k j /\ In (k, j) P) (rqs_chunks x).

  Definition IInv (q : rq) (m : Z) (P : list (Z * Z)) : Prop :=
    rq_ordered q = [] /\ rq_unordered q = [] /\ rq_unorderedMID q = [] /\ rq_si q = s /\
    rq_nextMID q = wrap32 m /\ 0 <= m /\
    Forall (iset_ok m P) (rq_orderedMID q) /\ NoDup (map rqs_key (rq_orderedMID q)) /\
    (forall k j, 0 <= k < m -> 0 <= j < nfr k -> In (k, j) P).

  Lemma iset_ok_mono m P P' x : (forall p, In p P -> In p P') -> iset_ok m P x -> iset_ok m P' x.
  Proof.
    intros HP (k & H1 & H2 & H3 & H4 & H5). exists k. repeat split; try assumption; try lia.
    eapply Forall_impl; [|exact H5]. intros c (j & A & B & C). exists j. auto.
  Qed.

  Lemma IInv_push q m P k j :
    IInv q m P -> 0 <= k -> 0 <= j < nfr k -> ~ In (k, j) P -> k < m + 2147483648 ->
    IInv (fst (rq_push q (ichunk k j))) m ((k, j) :: P).
  Proof.
    intros (Ho & Hu & Hum & Hs & Hn & Hm & Hsets & Hnd & Hdone) Hk Hj Hnew Hspan.
    assert (Hkm : m <= k).
    { destruct (Z_lt_le_dec k m) as [L|]; [|assumption]. exfalso. apply Hnew, Hdone; lia. }
    assert (Hmono : Forall (iset_ok m ((k, j) :: P)) (rq_orderedMID q)).
    { eapply Forall_impl; [|exact Hsets]. intros x. apply iset_ok_mono. intros p Hp. right. exact Hp. }
    assert (Same : IInv (rq_set_inter q) m ((k, j) :: P)).
    { unfold IInv, rq_set_inter. cbn [rq_ordered rq_unordered rq_unorderedMID rq_si rq_nextMID rq_orderedMID].
      repeat split; try assumption. intros k0 j0 A B. right. apply Hdone; assumption. }
    unfold rq_push. change (rqc_idata (ichunk k j)) with true. cbv iota.
    change (rqc_si (ichunk k j)) with s. change (rq_si (rq_set_inter q)) with (rq_si q). rewrite Hs.
    replace (negb (s =? s)) with false by lia. change (rqc_unord (ichunk k j)) with false. cbv iota.
    unfold rq_push_ordered_idata. change (rqc_mid (ichunk k j)) with (wrap32 k).
    change (rq_nextMID (rq_set_inter q)) with (rq_nextMID q). rewrite Hn.
    rewrite (e2e_not_stale32 m k) by lia.
    change (rq_orderedMID (rq_set_inter q)) with (rq_orderedMID q).
    destruct (rq_split_key (wrap32 k) (rq_orderedMID q)) as [[[b x] a]|] eqn:Esk.
    - apply rq_split_key_app in Esk. destruct Esk as [El Kx].
      destruct (rqm_push_and_check x (ichunk k j)) as [[x' comp] acc] eqn:Ep.
      destruct acc; [|exact Same].
      apply rqm_push_and_check_ppi in Ep. destruct Ep as (Kx' & Px' & Ppi).
      cbn [fst]. unfold IInv, rq_set_q, rq_set_inter.
      cbn [rq_ordered rq_unordered rq_unorderedMID rq_si rq_nextMID rq_orderedMID].
      rewrite El in Hmono, Hnd. apply Forall_app in Hmono. destruct Hmono as [Mb Ma]. inversion Ma as [|? ? Mx Ma']; subst.
      repeat split; try assumption.
      + apply Forall_app. split; [exact Mb|]. constructor; [|exact Ma'].
        destruct Mx as (k0 & R0 & K0 & P0 & N0 & F0). rewrite Kx in K0.
        assert (k0 = k) by (symmetry; eapply (e2e_key_inj32 m); [lia|lia|exact K0]). subst k0.
        exists k. rewrite Kx'. repeat split; try lia; try assumption.
        * intros (c0 & Hc0 & Bc0). rewrite Ppi. change (rqc_beg (ichunk k j)) with (j =? 0).
          change (rqc_ppi (ichunk k j)) with (if j =? 0 then mppi k else 0).
          destruct (j =? 0) eqn:Ej; [reflexivity|]. apply P0.
          apply (Permutation_in _ Px') in Hc0. destruct Hc0 as [<-|Hc0]; [cbn [ichunk rqc_beg] in Bc0; lia|].
          exists c0. auto.
        * intros E. rewrite E in Px'. apply Permutation_nil in Px'. discriminate.
        * eapply Permutation_Forall; [symmetry; exact Px'|]. constructor.
          -- exists j. repeat split; try lia. left. reflexivity.
          -- exact F0.
      + rewrite map_app in *. cbn [map] in *. rewrite Kx'. exact Hnd.
      + intros k0 j0 A B. right. apply Hdone; assumption.
    - change (rq_max (rq_set_inter q)) with (rq_max q).
      destruct (rq_limit_reached (rq_set_inter q) (Z.of_nat (length (rq_orderedMID q)))); [exact Same|].
      unfold rqm_push_and_check. cbn [rqs_chunks rqm_complete existsb app]. cbv iota.
      cbn [fst]. unfold IInv, rq_set_q, rq_set_inter.
      cbn [rq_ordered rq_unordered rq_unorderedMID rq_si rq_nextMID rq_orderedMID rqs_key].
      repeat split; try assumption.
      + eapply Permutation_Forall; [symmetry; apply rq_insert_by_mid_perm|]. constructor; [|exact Hmono].
        exists k. cbn [rqs_key rqs_ppi rqs_chunks]. repeat split; try lia.
        * intros (c0 & Hc0 & Bc0). change (rq_isort rq_fsn_lt [ichunk k j]) with [ichunk k j] in Hc0.
          destruct Hc0 as [<-|[]]. cbn [ichunk rqc_beg rqc_ppi] in *. rewrite Bc0. reflexivity.
        * change (rq_isort rq_fsn_lt [ichunk k j]) with [ichunk k j]. discriminate.
        * change (rq_isort rq_fsn_lt [ichunk k j]) with [ichunk k j]. constructor; [|constructor].
          exists j. repeat split; try lia. left. reflexivity.
      + eapply Permutation_NoDup; [apply Permutation_map; symmetry; apply rq_insert_by_mid_perm|].
        cbn [map rqs_key]. constructor; [|exact Hnd].
        intros Hin. apply in_map_iff in Hin. destruct Hin as (x & Kx & Hx).
        exact (rq_split_key_none _ _ Esk x Hx Kx).
      + intros k0 j0 A B. right. apply Hdone; assumption.
  Qed.

  Lemma ichunk_inj k j j' : ichunk k j = ichunk k j' -> j = j'.
  Proof. intros E. apply (f_equal rqc_fsn) in E. exact E. Qed.

  Lemma complete_is_message_I k cs :
    Forall (fun c => exists j, 0 <= j < nfr k /\ c = ichunk k j) cs -> rqm_complete cs = true -> cs = imsg k.
  Proof.
    intros HF HC. apply rqm_complete_iff in HC. destruct HC as (c0 & t & E & Hb & He & H0 & Hcon).
    assert (Hidx : forall i c, nth_error cs i = Some c -> c = ichunk k (Z.of_nat i) /\ Z.of_nat i < nfr k).
    { induction i as [|i IH]; intros c Hc.
      - rewrite E in Hc. cbn in Hc. inversion Hc; subst c. rewrite E in HF. inversion HF as [|? ? HH _]. destruct HH as (j & A & B).
        rewrite B in H0. cbn [ichunk rqc_fsn] in H0. subst j. split; [exact B|lia].
      - destruct (nth_error cs i) as [x|] eqn:Ex.
        + destruct (IH x eq_refl) as [Ex' Hi]. assert (Hin : In c cs) by (eapply nth_error_In; exact Hc).
          eapply Forall_forall in HF; [|exact Hin]. destruct HF as (j & A & B).
          pose proof (Hcon i x c Ex Hc) as Ht. rewrite Ex', B in Ht. cbn [ichunk rqc_fsn] in Ht.
          pose proof (Hnfr k). unfold wrap32 in Ht. split; [rewrite B; f_equal; lia|lia].
        + exfalso. apply nth_error_None in Ex. assert (X : nth_error cs (S i) <> None) by congruence.
          apply nth_error_Some in X. lia. }
    assert (Hne : cs <> []) by (rewrite E; discriminate).
    assert (Hlen : Z.of_nat (length cs) = nfr k).
    { pose proof (last_nth_error cs c0 Hne) as HL. destruct (Hidx _ _ HL) as [EL Hlt].
      rewrite EL in He. cbn [ichunk rqc_end] in He.
      assert (length cs <> 0)%nat by (destruct cs; [congruence|cbn; lia]). lia. }
    unfold imsg, js. rewrite <- Hlen, Nat2Z.id. apply map_nth_ext. intros i c Hc. apply Hidx. exact Hc.
  Qed.

  Lemma wrap32_succ m : wrap32 (wrap32 m + 1) = wrap32 (m + 1).
  Proof. unfold wrap32. rewrite Zplus_mod_idemp_l. reflexivity. Qed.

  Lemma IInv_read q m P b :
    IInv q m P ->
    match snd (rq_read q b) with
    | RdOk n ppi del => del = imsg m /\ ppi = mppi m /\ IInv (fst (rq_read q b)) (m + 1) P
    | _ => fst (rq_read q b) = q
    end.
  Proof.
    intros (Ho & Hu & Hum & Hs & Hn & Hm & Hsets & Hnd & Hdone).
    unfold rq_read. rewrite Hum, Hu, Ho. destruct (rq_inter q); [|reflexivity].
    destruct (rq_orderedMID q) as [|x rest] eqn:EO; [reflexivity|].
    destruct (rqm_complete (rqs_chunks x)) eqn:Ec; cbn [negb]; [|reflexivity].
    destruct (sna32GT (rqs_key x) (rq_nextMID q)) eqn:Eg; [reflexivity|].
    rewrite rq_copy_short_iff. destruct (rq_short b (rqs_chunks x)); [reflexivity|]. cbn [fst snd].
    inversion Hsets as [|? ? HH Hrest]; subst. destruct HH as (k & Rk & Kk & Pk & Nk & Fk).
    rewrite Kk, Hn in Eg. apply (e2e_gt_cursor32 m k Rk) in Eg. subst k.
    assert (Emsg : rqs_chunks x = imsg m).
    { apply complete_is_message_I; [|exact Ec]. eapply Forall_impl; [|exact Fk]. intros c (j & A & B & _). exists j. auto. }
    split; [exact Emsg|]. split.
    { apply Pk. apply rqm_complete_iff in Ec. destruct Ec as (c0 & t & E & Hb & _). exists c0. rewrite E. split; [left; reflexivity|exact Hb]. }
    unfold IInv, rq_set_next. cbn [rq_ordered rq_unordered rq_unorderedMID rq_si rq_nextMID rq_orderedMID].
    cbn [map] in Hnd. inversion Hnd as [|? ? Hnotin Hnd']; subst.
    repeat split; try assumption; try lia.
    - rewrite Kk, Hn, Z.eqb_refl. apply wrap32_succ.
    - apply Forall_forall. intros y Hy. eapply Forall_forall in Hrest; [|exact Hy].
      destruct Hrest as (k & Rk' & Kk' & Rest). exists k. split; [|split; [exact Kk'|exact Rest]].
      assert (k <> m). { intros ->. apply Hnotin. rewrite Kk, <- Kk'. apply in_map. exact Hy. }
      lia.
    - intros k j A B. destruct (Z.eq_dec k m) as [->|]; [|apply Hdone; lia].
      assert (Hin : In (ichunk m j) (rqs_chunks x)).
      { rewrite Emsg. unfold imsg. apply in_map. apply In_js. exact B. }
      eapply Forall_forall in Fk; [|exact Hin]. destruct Fk as (j0 & A0 & B0 & C0).
      replace j with j0; [exact C0|]. symmetry. eapply ichunk_inj; eassumption.
  Qed.

  Lemma IInv_new mx : IInv (rq_new s mx) 0 [].
  Proof.
    unfold IInv, rq_new. cbn [rq_ordered rq_unordered rq_unorderedMID rq_si rq_nextMID rq_orderedMID map].
    repeat split; try reflexivity; try lia; try constructor; intros; lia.
  Qed.
End OneQueueI.

(* ========================================================================================== *)
(* Part B: the composed receiver                                                                *)
(* ========================================================================================== *)
From Sctp Require Import RPQProofs.

Lemma e2e_get_put_same s q : forall l, e2e_get s (e2e_put s q l) = Some q.
Proof.
  induction l as [|[k x] t IH]; cbn [e2e_put e2e_get]; [rewrite Z.eqb_refl; reflexivity|].
  destruct (k =? s) eqn:E1; cbn [e2e_get]; [rewrite Z.eqb_refl; reflexivity|].
  destruct (s <? k) eqn:E2; cbn [e2e_get]; [rewrite Z.eqb_refl; reflexivity|]. rewrite E1. exact IH.
Qed.

Lemma e2e_get_put_other s s' q : s <> s' -> forall l, e2e_get s' (e2e_put s q l) = e2e_get s' l.
Proof.
  intros N. induction l as [|[k x] t IH]; cbn [e2e_put e2e_get].
  - replace (s =? s') with false by lia. reflexivity.
  - destruct (k =? s) eqn:E1; cbn [e2e_get].
    + replace (s =? s') with false by lia. replace (k =? s') with false by lia. reflexivity.
    + destruct (s <? k) eqn:E2; cbn [e2e_get].
      * replace (s =? s') with false by lia. reflexivity.
      * destruct (k =? s'); [reflexivity|exact IH].
Qed.

Lemma can_push_push q t : can_push q t = true -> snd (push q t) = true.
Proof.
  unfold can_push, push. destruct (has_chunk q t), (sna32LTE t (cum q)), (sna32GT t (wrap32 (cum q + max_off q)));
    cbn; intros H; try discriminate; reflexivity.
Qed.

Lemma not_can_push_push q t : can_push q t = false -> snd (push q t) = false.
Proof.
  unfold can_push, push. destruct (has_chunk q t), (sna32LTE t (cum q)), (sna32GT t (wrap32 (cum q + max_off q)));
    cbn; intros H; try discriminate; reflexivity.
Qed.

(* an index accepted by the bitmap was not accepted before *)
Lemma J_accept_new k0 q g i :
  J k0 (q, g) -> - H31 < i - gK g < H31 -> snd (push q (wrap32 i)) = true -> ~ In i (gacc g).
Proof.
  intros [I Hc Hh Hcov Hmono] Hk Hp. cbn [fst snd] in *.
  assert (Ht : in32 (wrap32 i)) by (unfold in32, wrap32; lia).
  apply (push_result _ _ I Ht) in Hp. destruct Hp as [Hr Hn].
  destruct (dist_of_index (gK g) i Hk) as [Dpos Dneg]. rewrite <- Hc in Dpos, Dneg.
  destruct (Z_lt_le_dec (i - gK g) 0) as [Hneg|Hpos]; [specialize (Dneg Hneg); destruct (inv_off _ I); lia|].
  rewrite (Dpos Hpos) in *. intros X. apply Hn. apply Hh; [lia|].
  replace (gK g + (i - gK g)) with i by lia. exact X.
Qed.

(* the pop loop on a bitmap with its ghost *)
Fixpoint gpop_loop (fuel : nat) (sg : rpq * ghost) : rpq * ghost :=
  match fuel with
  | O => sg
  | S f => if snd (pop (fst sg) false) then gpop_loop f (gstep sg (EPop false)) else sg
  end.
Definition gpops (sg : rpq * ghost) : rpq * ghost := gpop_loop (S (Z.to_nat (size (fst sg)))) sg.

Lemma pop_fail_same q : snd (pop q false) = false -> fst (pop q false) = q.
Proof. unfold pop. destruct (has_chunk q (wrap32 (cum q + 1))); cbn; [discriminate|reflexivity]. Qed.

Lemma gpop_loop_fst : forall fuel q g, fst (gpop_loop fuel (q, g)) = e2e_pop_loop fuel q.
Proof.
  induction fuel as [|f IH]; intros q g; [reflexivity|]. cbn [gpop_loop e2e_pop_loop fst].
  destruct (pop q false) as [q' ok] eqn:E. cbn [snd]. destruct ok.
  - cbn [gstep]. rewrite E. cbn [fst snd]. apply IH.
  - cbn [fst]. pose proof (pop_fail_same q) as H. rewrite E in H. cbn in H. symmetry. apply H. reflexivity.
Qed.

Lemma gpop_loop_J k0 : forall fuel sg, J k0 sg ->
  J k0 (gpop_loop fuel sg) /\ gacc (snd (gpop_loop fuel sg)) = gacc (snd sg) /\ gK (snd sg) <= gK (snd (gpop_loop fuel sg)).
Proof.
  induction fuel as [|f IH]; intros sg HJ; cbn [gpop_loop]; [split; [assumption|split; [reflexivity|lia]]|].
  destruct (snd (pop (fst sg) false)) eqn:E; [|split; [assumption|split; [reflexivity|lia]]].
  destruct (gstep_J k0 sg (EPop false) HJ I) as [HJ' HM].
  destruct (IH _ HJ') as (A & B & C). split; [exact A|]. split; [|lia].
  rewrite B. destruct sg as [q g]. cbn [gstep fst snd] in *. rewrite E. reflexivity.
Qed.

Section Compose.
  (* generic over the mode: DATA (il = false, span 2^15, QI = QInv) and I-DATA (il = true, span 2^31, QI = IInv) *)
  Variable il : bool.
  Variable span : Z.
  Variable U : Z -> option rqchunk.                 (* what the sender put at TSN index i *)
  Variable own : Z -> option (Z * Z * Z).           (* index -> (stream, message number, fragment number) *)
  Variable idx : Z -> Z -> Z -> Z.                  (* (stream, message, fragment) -> index *)
  Variable nfr : Z -> Z -> Z.
  Variable mppi : Z -> Z -> Z.
  Variable uchunk : Z -> Z -> Z -> rqchunk.
  Variable umsg : Z -> Z -> list rqchunk.
  Variable QI : Z -> rq -> Z -> list (Z * Z) -> Prop.
  Hypothesis Hnfr : forall s k, 1 <= nfr s k.
  Hypothesis Hck_idata : forall s k j, rqc_idata (uchunk s k j) = il.
  Hypothesis Hck_si : forall s k j, rqc_si (uchunk s k j) = s.
  Hypothesis Hck_tsn : forall s k j, rqc_tsn (uchunk s k j) = wrap32 (idx s k j).
  Hypothesis HQI_new : forall s mx, QI s (rq_new s mx) 0 [].
  Hypothesis HQI_push : forall s q m P k j,
    QI s q m P -> 0 <= k -> 0 <= j < nfr s k -> ~ In (k, j) P -> k < m + span ->
    QI s (fst (rq_push q (uchunk s k j))) m ((k, j) :: P).
  Hypothesis HQI_read : forall s q m P b, QI s q m P ->
    match snd (rq_read q b) with
    | RdOk n ppi del => del = umsg s m /\ ppi = mppi s m /\ QI s (fst (rq_read q b)) (m + 1) P
    | _ => fst (rq_read q b) = q
    end.
  Hypothesis HQI_done : forall s q m P, QI s q m P -> forall k j, 0 <= k < m -> 0 <= j < nfr s k -> In (k, j) P.
  Hypothesis Hwf : forall i c, U i = Some c ->
    exists s k j, own i = Some (s, k, j) /\ 0 <= k /\ 0 <= j < nfr s k /\ i = idx s k j /\ c = uchunk s k j.

  Definition pairs (s : Z) (l : list Z) : list (Z * Z) :=
    flat_map (fun i => match own i with
                       | Some (s', k, j) => if s' =? s then [(k, j)] else []
                       | None => []
                       end) l.

  Definition SQInv (s : Z) := QI s.

  (* receiver + bitmap ghost + number of messages read per stream *)
  Definition cstate := (e2e_rcv * ghost * (Z -> Z))%type.

  Definition CI (k0 : Z) (cs : cstate) : Prop :=
    let '(st, g, m) := cs in
    J k0 (e2e_pq st, g) /\ e2e_il st = il /\
    (forall i, In i (gacc g) -> U i <> None) /\
    (forall s, match e2e_get s (e2e_streams st) with
               | Some q => SQInv s q (m s) (pairs s (gacc g))
               | None => m s = 0 /\ pairs s (gacc g) = []
               end).

  Inductive e2e_ev := EvArr (i : Z) (ok : bool) | EvRead (sid b : Z).

  Definition cstep (cs : cstate) (e : e2e_ev) : cstate :=
    let '(st, g, m) := cs in
    match e with
    | EvArr i ok =>
        match U i with
        | None => cs
        | Some c =>
            let '(st', out) := e2e_recv_data st c ok in
            let g' := match out with
                      | EoStored (RqOk _) | EoNotAcceptable => snd (gpops (gstep (e2e_pq st, g) (EArr i)))
                      | EoStored _ => snd (gstep (e2e_pq st, g) (EArr i))
                      | EoFullDropped => snd (gpops (e2e_pq st, g))
                      | _ => g
                      end in
            (st', g', m)
        end
    | EvRead s b =>
        let '(st', r) := e2e_read st s b in
        (st', g, match r with RdOk _ _ _ => fun x => if x =? s then m s + 1 else m x | _ => m end)
    end.

  Definition cout (cs : cstate) (e : e2e_ev) : list (Z * list rqchunk * Z) :=
    match e with
    | EvRead s b => match snd (e2e_read (fst (fst cs)) s b) with RdOk _ ppi del => [(s, del, ppi)] | _ => [] end
    | _ => []
    end.

  Fixpoint couts (cs : cstate) (evs : list e2e_ev) : list (Z * list rqchunk * Z) :=
    match evs with [] => [] | e :: t => cout cs e ++ couts (cstep cs e) t end.

  (* H_tsn and H_ssn for one event *)
  Definition cev_ok (cs : cstate) (e : e2e_ev) : Prop :=
    let '(st, g, m) := cs in
    match e with
    | EvArr i _ =>
        - H31 < i - gK g < H31 /\
        match own i with Some (s, k, _) => k < m s + span | None => True end
    | EvRead _ _ => True
    end.

  Fixpoint crun_ok (cs : cstate) (evs : list e2e_ev) : Prop :=
    match evs with [] => True | e :: t => cev_ok cs e /\ crun_ok (cstep cs e) t end.

  Lemma pairs_cons_own s i l k j : own i = Some (s, k, j) -> pairs s (i :: l) = (k, j) :: pairs s l.
  Proof. intros H. unfold pairs. cbn [flat_map]. rewrite H, Z.eqb_refl. reflexivity. Qed.

  Lemma pairs_cons_other s s' i l k j : own i = Some (s', k, j) -> s' <> s -> pairs s (i :: l) = pairs s l.
  Proof. intros H N. unfold pairs. cbn [flat_map]. rewrite H. replace (s' =? s) with false by lia. reflexivity. Qed.

  Lemma pairs_in s l k j : (forall i, In i l -> U i <> None) -> In (k, j) (pairs s l) -> In (idx s k j) l.
  Proof.
    intros HU Hin. unfold pairs in Hin. apply in_flat_map in Hin. destruct Hin as (i & Hi & Hp).
    destruct (U i) as [c|] eqn:Eu; [|exfalso; apply (HU i Hi); exact Eu].
    destruct (Hwf i c Eu) as (s0 & k0 & j0 & Ho & _ & _ & Ei & _). rewrite Ho in Hp.
    destruct (s0 =? s) eqn:Es; [|destruct Hp]. destruct Hp as [Hp|[]]. inversion Hp; subst.
    assert (s0 = s) by lia. subst. exact Hi.
  Qed.

  Lemma SQInv_new s mx : SQInv s (rq_new s mx) 0 [].
  Proof. apply HQI_new. Qed.

  Lemma cstep_CI k0 cs e : CI k0 cs -> cev_ok cs e -> CI k0 (cstep cs e).
  Proof.
    destruct cs as [[st g] m]. intros (HJ & Hil & HU & HS) Hok. destruct e as [i ok|s b]; cbn [cstep].
    - (* arrival *)
      destruct (U i) as [c|] eqn:Eu; [|split; [assumption|split; [assumption|split; assumption]]].
      destruct (Hwf i c Eu) as (s & k & j & Ho & Hk & Hj & Ei & Ec).
      cbn [cev_ok] in Hok. rewrite Ho in Hok. destruct Hok as [Htsn Hssn].
      assert (Etsn : rqc_tsn c = wrap32 i) by (rewrite Ec, Ei; apply Hck_tsn).
      assert (Esi : rqc_si c = s) by (rewrite Ec; apply Hck_si).
      assert (Eid : rqc_idata c = il) by (rewrite Ec; apply Hck_idata).
      unfold e2e_recv_data. rewrite Eid, Hil, Bool.eqb_reflx. cbn [negb]. cbv iota.
      rewrite Etsn, Esi.
      destruct (can_push (e2e_pq st) (wrap32 i)) eqn:Ecp.
      + (* acceptable *)
        pose proof (HS s) as HSs.
        set (goc := match e2e_get s (e2e_streams st) with
                    | Some q => Some (q, e2e_streams st)
                    | None => if ok then Some (rq_new s (e2e_maxent st), e2e_put s (rq_new s (e2e_maxent st)) (e2e_streams st)) else None
                    end).
        assert (Hgoc : match goc with
                       | None => True
                       | Some (q, streams1) =>
                           SQInv s q (m s) (pairs s (gacc g)) /\ e2e_get s streams1 = Some q /\
                           (forall s', s' <> s -> e2e_get s' streams1 = e2e_get s' (e2e_streams st))
                       end).
        { unfold goc. destruct (e2e_get s (e2e_streams st)) as [q|] eqn:Eg.
          - split; [exact HSs|]. split; [exact Eg|reflexivity].
          - destruct ok; [|exact I]. destruct HSs as [Hm0 Hp0]. rewrite Hm0, Hp0.
            split; [apply SQInv_new|]. split; [apply e2e_get_put_same|].
            intros s' N. apply e2e_get_put_other. lia. }
        fold goc. destruct goc as [[q streams1]|]; [|split; [assumption|split; [assumption|split; assumption]]].
        destruct Hgoc as (HQ & Hget & Hoth).
        destruct (rq_admit (e2e_credit (e2e_buf st) streams1 (e2e_detached st)) (last_tsn_received (e2e_pq st)) (wrap32 i)).
        * (* handed to the stream *)
          pose proof (can_push_push _ _ Ecp) as Hpush.
          pose proof (J_accept_new k0 _ _ i HJ Htsn Hpush) as Hnew.
          destruct (gstep_J k0 (e2e_pq st, g) (EArr i) HJ Htsn) as [HJ1 _].
          assert (Eg1 : gstep (e2e_pq st, g) (EArr i) = (fst (push (e2e_pq st) (wrap32 i)), mkGhost (gK g) (i :: gacc g) (gskip g))).
          { cbn [gstep]. rewrite Hpush. reflexivity. }
          assert (HQ' : SQInv s (fst (rq_push q c)) (m s) (pairs s (i :: gacc g))).
          { rewrite (pairs_cons_own s i _ k j Ho), Ec. apply HQI_push; try assumption.
            intros Hin. apply Hnew. rewrite Ei. apply (pairs_in s); assumption. }
          assert (HU' : forall i0, In i0 (i :: gacc g) -> U i0 <> None).
          { intros i0 [<-|Hi0]; [congruence|apply HU; exact Hi0]. }
          assert (HS' : forall s0, match e2e_get s0 (e2e_put s (fst (rq_push q c)) streams1) with
                                   | Some q0 => SQInv s0 q0 (m s0) (pairs s0 (i :: gacc g))
                                   | None => m s0 = 0 /\ pairs s0 (i :: gacc g) = []
                                   end).
          { intros s0. destruct (Z.eq_dec s0 s) as [->|N].
            - rewrite e2e_get_put_same. exact HQ'.
            - rewrite e2e_get_put_other by lia. rewrite (Hoth s0 N).
              rewrite (pairs_cons_other s0 s i _ k j Ho) by lia. apply HS. }
          destruct (rq_push q c) as [q' r] eqn:Epush. cbn [fst] in *.
          destruct r; cbn [CI e2e_set e2e_pq e2e_il e2e_streams].
          -- (* stored, pop loop *)
             unfold gpops. rewrite Eg1. cbn [fst].
             rewrite Eg1 in HJ1.
             destruct (gpop_loop_J k0 (S (Z.to_nat (size (fst (push (e2e_pq st) (wrap32 i)))))) _ HJ1) as (A & B & _).
             unfold e2e_pops. rewrite <- (gpop_loop_fst _ _ (mkGhost (gK g) (i :: gacc g) (gskip g))).
             cbn [snd gacc] in B. rewrite B.
             split; [rewrite <- surjective_pairing; exact A|]. repeat split; assumption.
          -- rewrite Eg1. cbn [snd gacc]. rewrite Eg1 in HJ1. split; [assumption|split; [assumption|split; assumption]].
          -- rewrite Eg1. cbn [snd gacc]. rewrite Eg1 in HJ1. split; [assumption|split; [assumption|split; assumption]].
          -- rewrite Eg1. cbn [snd gacc]. rewrite Eg1 in HJ1. split; [assumption|split; [assumption|split; assumption]].
        * (* buffer full: dropped *)
          cbn [CI e2e_set e2e_pq e2e_il e2e_streams].
          destruct (gpop_loop_J k0 (S (Z.to_nat (size (e2e_pq st)))) _ HJ) as (A & B & _).
          unfold gpops, e2e_pops. cbn [fst]. rewrite <- (gpop_loop_fst _ _ g). cbn [snd] in B. rewrite B.
          split; [rewrite <- surjective_pairing; exact A|]. repeat split; try assumption.
          intros s0. destruct (Z.eq_dec s0 s) as [->|N]; [rewrite Hget; exact HQ|rewrite (Hoth s0 N); apply HS].
      + (* not acceptable *)
        cbn [CI e2e_set e2e_pq e2e_il e2e_streams].
        pose proof (not_can_push_push _ _ Ecp) as Hpush.
        destruct (gstep_J k0 (e2e_pq st, g) (EArr i) HJ Htsn) as [HJ1 _].
        assert (Eg1 : gstep (e2e_pq st, g) (EArr i) = (fst (push (e2e_pq st) (wrap32 i)), g)).
        { cbn [gstep]. rewrite Hpush. reflexivity. }
        rewrite Eg1 in *. unfold gpops, e2e_pops. cbn [fst].
        destruct (gpop_loop_J k0 (S (Z.to_nat (size (fst (push (e2e_pq st) (wrap32 i)))))) _ HJ1) as (A & B & _).
        rewrite <- (gpop_loop_fst _ _ g). cbn [snd] in B. rewrite B.
        split; [rewrite <- surjective_pairing; exact A|]. repeat split; assumption.
    - (* read *)
      unfold e2e_read. pose proof (HS s) as HSs.
      destruct (e2e_get s (e2e_streams st)) as [q|] eqn:Eg; [|split; [assumption|split; [assumption|split; assumption]]].
      pose proof (HQI_read s q (m s) _ b HSs) as HR.
      destruct (rq_read q b) as [q' r] eqn:Er. cbn [fst snd] in HR.
      cbn [CI e2e_set e2e_pq e2e_il e2e_streams].
      split; [exact HJ|]. split; [exact Hil|]. split; [exact HU|].
      intros s0. destruct (Z.eq_dec s0 s) as [->|N].
      + rewrite e2e_get_put_same. destruct r as [n ppi del| |].
        * destruct HR as (_ & _ & HQ). rewrite Z.eqb_refl. exact HQ.
        * subst q'. exact HSs.
        * subst q'. exact HSs.
      + rewrite e2e_get_put_other by lia.
        destruct r; [replace (s0 =? s) with false by lia|..]; apply HS.
  Qed.

  (* the messages of stream s, from number m on *)
  Definition smsgs (s m : Z) (n : nat) : list (Z * list rqchunk * Z) :=
    map (fun i => (s, umsg s (m + Z.of_nat i), mppi s (m + Z.of_nat i))) (seq 0 n).

  Definition outs_of (s : Z) (l : list (Z * list rqchunk * Z)) := filter (fun o => fst (fst o) =? s) l.

  Lemma cout_spec k0 cs e s : CI k0 cs ->
    (outs_of s (cout cs e) = [] /\ snd (cstep cs e) s = snd cs s) \/
    (outs_of s (cout cs e) = [(s, umsg s (snd cs s), mppi s (snd cs s))] /\
     snd (cstep cs e) s = snd cs s + 1).
  Proof.
    destruct cs as [[st g] m]. intros (_ & _ & _ & HS). destruct e as [i ok|s1 b]; cbn [cout cstep fst snd].
    - left. split; [reflexivity|]. destruct (U i); [|reflexivity]. destruct (e2e_recv_data st r ok). reflexivity.
    - pose proof (HS s1) as HS1. unfold e2e_read.
      destruct (e2e_get s1 (e2e_streams st)) as [q|] eqn:Eg; [|left; split; reflexivity].
      pose proof (HQI_read s1 q (m s1) _ b HS1) as HRd.
      destruct (rq_read q b) as [q' r] eqn:Er. cbn [fst snd] in *.
      destruct r as [n ppi del| |]; [|left; split; reflexivity|left; split; reflexivity].
      destruct HRd as (-> & -> & _). unfold outs_of. cbn [filter fst].
      destruct (s1 =? s) eqn:Es.
      + assert (s1 = s) by lia. subst s1. right. rewrite Z.eqb_refl. split; reflexivity.
      + left. replace (s =? s1) with false by lia. split; reflexivity.
  Qed.

  Lemma composed_prefix k0 : forall evs cs s,
    CI k0 cs -> crun_ok cs evs ->
    outs_of s (couts cs evs) = smsgs s (snd cs s) (length (outs_of s (couts cs evs))).
  Proof.
    induction evs as [|e t IH]; intros cs s HC HR; [reflexivity|]. cbn [couts crun_ok] in *.
    destruct HR as [Hev HR]. pose proof (cstep_CI k0 cs e HC Hev) as HC'.
    specialize (IH _ s HC' HR). unfold outs_of in *. rewrite filter_app.
    destruct (cout_spec k0 cs e s HC) as [[E1 E2]|[E1 E2]]; unfold outs_of in E1; rewrite E1, E2 in *.
    - cbn [app]. exact IH.
    - cbn [app length]. rewrite IH at 1. unfold smsgs. cbn [seq map].
      replace (snd cs s + Z.of_nat 0) with (snd cs s) by lia. f_equal.
      rewrite <- seq_shift, map_map. apply map_ext. intros i.
      replace (snd cs s + 1 + Z.of_nat i) with (snd cs s + Z.of_nat (S i)) by lia. reflexivity.
  Qed.

  Definition crun (cs : cstate) (evs : list e2e_ev) : cstate := fold_left cstep evs cs.

  Lemma crun_CI k0 : forall evs cs, CI k0 cs -> crun_ok cs evs -> CI k0 (crun cs evs).
  Proof.
    induction evs as [|e t IH]; intros cs HC HR; [exact HC|]. destruct HR as [Hev HR].
    cbn [crun fold_left]. apply IH; [apply cstep_CI; assumption|exact HR].
  Qed.

  Lemma crun_count k0 : forall evs cs s, CI k0 cs -> crun_ok cs evs ->
    snd (crun cs evs) s = snd cs s + Z.of_nat (length (outs_of s (couts cs evs))).
  Proof.
    induction evs as [|e t IH]; intros cs s HC HR; [cbn; lia|]. destruct HR as [Hev HR].
    cbn [crun fold_left couts]. unfold crun in IH. rewrite (IH _ s (cstep_CI k0 cs e HC Hev) HR).
    unfold outs_of. rewrite filter_app, app_length.
    destruct (cout_spec k0 cs e s HC) as [[E1 E2]|[E1 E2]]; unfold outs_of in E1; rewrite E1, E2; cbn [length]; lia.
  Qed.

  (* every message counted as read had its first fragment accepted, hence exists in the universe *)
  Lemma CI_read_exists k0 st g m s k : CI k0 (st, g, m) -> 0 <= k < m s ->
    exists i c, U i = Some c /\ own i = Some (s, k, 0).
  Proof.
    intros (_ & _ & HU & HS) Hk. pose proof (HS s) as HSs.
    destruct (e2e_get s (e2e_streams st)) as [q|]; [|lia].
    assert (Hin : In (k, 0) (pairs s (gacc g))) by (apply (HQI_done s q (m s) _ HSs); [lia|specialize (Hnfr s k); lia]).
    unfold pairs in Hin. apply in_flat_map in Hin. destruct Hin as (i & Hi & Hp).
    destruct (U i) as [c|] eqn:Eu; [|exfalso; apply (HU i Hi); exact Eu].
    exists i, c. split; [exact Eu|].
    destruct (own i) as [[[s0 k1] j1]|]; [|destruct Hp]. destruct (s0 =? s) eqn:Es; [|destruct Hp].
    destruct Hp as [Hp|[]]. inversion Hp; subst. assert (s0 = s) by lia. subst. reflexivity.
  Qed.
End Compose.

(* ---------- from the initial state ---------- *)
Definition e2e_cinit (il : bool) (peer_tsn buf maxent : Z) : cstate :=
  (e2e_new peer_tsn buf maxent il, mkGhost (peer_tsn - 1) [] [], fun _ => 0).

Lemma CI_init il U own QI peer_tsn buf maxent : in32 buf ->
  CI il U own QI (peer_tsn - 1) (e2e_cinit il peer_tsn buf maxent).
Proof.
  intros Hb. unfold e2e_cinit, CI, e2e_new. cbn [e2e_pq e2e_il e2e_streams gacc e2e_get].
  pose proof (getMaxTSNOffset_range buf Hb) as Hr.
  destruct (rpq_new_ok (getMaxTSNOffset buf)) as (HR & Hoff & _); [lia|].
  split; [exact (ginit_J (rpq_new (getMaxTSNOffset buf)) (peer_tsn - 1) HR Hoff)|].
  split; [reflexivity|]. split; [intros i []|]. intros s. split; reflexivity.
Qed.

(* the bytes and the payload protocol identifier handed to the application *)
Definition e2e_bytes (o : Z * list rqchunk * Z) : Z * list Z * Z :=
  (fst (fst o), concat (map rqc_data (snd (fst o))), snd o).

(* ---------- DATA mode ---------- *)
Section DataMode.
  Variable U : Z -> option rqchunk.
  Variable own : Z -> option (Z * Z * Z).
  Variable T : Z -> Z -> Z.
  Variable nfr : Z -> Z -> Z.
  Variable frag : Z -> Z -> Z -> list Z.
  Variable mppi : Z -> Z -> Z.
  Hypothesis Hnfr : forall s k, 1 <= nfr s k < 2147483648.
  Definition uchunk (s k j : Z) : rqchunk := qchunk s (T s) (nfr s) (frag s) (mppi s) k j.
  Hypothesis Hwf : forall i c, U i = Some c ->
    exists s k j, own i = Some (s, k, j) /\ 0 <= k /\ 0 <= j < nfr s k /\ i = T s k + j /\ c = uchunk s k j.

  Definition dQI (s : Z) := QInv s (T s) (nfr s) (frag s) (mppi s).
  Definition dmsg (s k : Z) := qmsg s (T s) (nfr s) (frag s) (mppi s) k.

  Lemma d_nfr1 : forall s k, 1 <= nfr s k.  Proof. intros s k. specialize (Hnfr s k). lia. Qed.
  Lemma d_new : forall s mx, dQI s (rq_new s mx) 0 [].
  Proof.
    intros s mx. unfold dQI, QInv, rq_new. cbn [rq_inter rq_unordered rq_si rq_nextSSN rq_ordered map].
    repeat split; try reflexivity; try lia; try constructor; intros; lia.
  Qed.
  Lemma d_push : forall s q m P k j, dQI s q m P -> 0 <= k -> 0 <= j < nfr s k -> ~ In (k, j) P -> k < m + 32768 ->
    dQI s (fst (rq_push q (uchunk s k j))) m ((k, j) :: P).
  Proof. intros. apply QInv_push; try assumption. apply Hnfr. Qed.
  Lemma d_read : forall s q m P b, dQI s q m P ->
    match snd (rq_read q b) with
    | RdOk n ppi del => del = dmsg s m /\ ppi = mppi s m /\ dQI s (fst (rq_read q b)) (m + 1) P
    | _ => fst (rq_read q b) = q
    end.
  Proof. intros. apply QInv_read; [apply Hnfr|assumption]. Qed.
  Lemma d_done : forall s q m P, dQI s q m P -> forall k j, 0 <= k < m -> 0 <= j < nfr s k -> In (k, j) P.
  Proof. intros s q m P (_ & _ & _ & _ & _ & _ & _ & H). exact H. Qed.

  Theorem e2e_ordered_prefix_data peer_tsn buf maxent evs s : in32 buf ->
    crun_ok 32768 U own (e2e_cinit false peer_tsn buf maxent) evs ->
    let outs := outs_of s (couts U (e2e_cinit false peer_tsn buf maxent) evs) in
    map e2e_bytes outs =
    map (fun i => (s, concat (map (frag s (Z.of_nat i)) (js (nfr s (Z.of_nat i)))), mppi s (Z.of_nat i)))
        (seq 0 (length outs)).
  Proof.
    intros Hb Hok outs.
    pose proof (composed_prefix false 32768 U own (fun s k j => T s k + j) nfr mppi uchunk dmsg dQI
                  d_nfr1 (fun _ _ _ => eq_refl) (fun _ _ _ => eq_refl) (fun _ _ _ => eq_refl)
                  d_new d_push d_read d_done Hwf (peer_tsn - 1) evs _ s
                  (CI_init false U own dQI peer_tsn buf maxent Hb) Hok) as H.
    fold outs in H. rewrite H at 1. unfold smsgs, e2e_cinit. cbn [snd]. rewrite map_map.
    apply map_ext. intros i. unfold e2e_bytes. cbn [fst snd]. f_equal. f_equal.
    unfold dmsg, qmsg. rewrite map_map. reflexivity.
  Qed.

  Lemma d_run_CI peer_tsn buf maxent evs : in32 buf ->
    crun_ok 32768 U own (e2e_cinit false peer_tsn buf maxent) evs ->
    CI false U own dQI (peer_tsn - 1) (crun U (e2e_cinit false peer_tsn buf maxent) evs).
  Proof.
    intros Hb Hok.
    exact (crun_CI false 32768 U own (fun s k j => T s k + j) nfr mppi uchunk dmsg dQI
             d_nfr1 (fun _ _ _ => eq_refl) (fun _ _ _ => eq_refl) (fun _ _ _ => eq_refl)
             d_new d_push d_read d_done Hwf (peer_tsn - 1) evs _ (CI_init false U own dQI peer_tsn buf maxent Hb) Hok).
  Qed.

  Lemma d_run_count peer_tsn buf maxent evs s : in32 buf ->
    crun_ok 32768 U own (e2e_cinit false peer_tsn buf maxent) evs ->
    snd (crun U (e2e_cinit false peer_tsn buf maxent) evs) s =
    Z.of_nat (length (outs_of s (couts U (e2e_cinit false peer_tsn buf maxent) evs))).
  Proof.
    intros Hb Hok.
    exact (crun_count false 32768 U own (fun s k j => T s k + j) nfr mppi uchunk dmsg dQI
             d_nfr1 (fun _ _ _ => eq_refl) (fun _ _ _ => eq_refl) (fun _ _ _ => eq_refl)
             d_new d_push d_read d_done Hwf (peer_tsn - 1) evs _ s (CI_init false U own dQI peer_tsn buf maxent Hb) Hok).
  Qed.

  Lemma d_read_exists k0 st g m s k : CI false U own dQI k0 (st, g, m) -> 0 <= k < m s ->
    exists i c, U i = Some c /\ own i = Some (s, k, 0).
  Proof.
    exact (CI_read_exists false 32768 U own (fun s k j => T s k + j) nfr mppi uchunk dmsg dQI
             d_nfr1 (fun _ _ _ => eq_refl) (fun _ _ _ => eq_refl) (fun _ _ _ => eq_refl)
             d_new d_push d_read d_done Hwf k0 st g m s k).
  Qed.
End DataMode.

(* ---------- I-DATA mode ---------- *)
Section IDataMode.
  Variable U : Z -> option rqchunk.
  Variable own : Z -> option (Z * Z * Z).
  Variable tix : Z -> Z -> Z -> Z.      (* TSN index of fragment j of message k of stream s: any interleaving *)
  Variable nfr : Z -> Z -> Z.
  Variable frag : Z -> Z -> Z -> list Z.
  Variable mppi : Z -> Z -> Z.
  Hypothesis Hnfr : forall s k, 1 <= nfr s k < 2147483648.
  Definition uichunk (s k j : Z) : rqchunk := ichunk s (tix s) (nfr s) (frag s) (mppi s) k j.
  Hypothesis Hwf : forall i c, U i = Some c ->
    exists s k j, own i = Some (s, k, j) /\ 0 <= k /\ 0 <= j < nfr s k /\ i = tix s k j /\ c = uichunk s k j.

  Definition iQI (s : Z) := IInv s (tix s) (nfr s) (frag s) (mppi s).
  Definition imsgs (s k : Z) := imsg s (tix s) (nfr s) (frag s) (mppi s) k.

  Lemma i_nfr1 : forall s k, 1 <= nfr s k.  Proof. intros s k. specialize (Hnfr s k). lia. Qed.
  Lemma i_push : forall s q m P k j, iQI s q m P -> 0 <= k -> 0 <= j < nfr s k -> ~ In (k, j) P -> k < m + 2147483648 ->
    iQI s (fst (rq_push q (uichunk s k j))) m ((k, j) :: P).
  Proof. intros. apply IInv_push; try assumption. apply Hnfr. Qed.
  Lemma i_read : forall s q m P b, iQI s q m P ->
    match snd (rq_read q b) with
    | RdOk n ppi del => del = imsgs s m /\ ppi = mppi s m /\ iQI s (fst (rq_read q b)) (m + 1) P
    | _ => fst (rq_read q b) = q
    end.
  Proof. intros. apply IInv_read; [apply Hnfr|assumption]. Qed.
  Lemma i_done : forall s q m P, iQI s q m P -> forall k j, 0 <= k < m -> 0 <= j < nfr s k -> In (k, j) P.
  Proof. intros s q m P (_ & _ & _ & _ & _ & _ & _ & _ & H). exact H. Qed.

  (* I-DATA: messages identified by MID; H_mid: fewer than 2^31 messages ahead of the read cursor *)
  Theorem e2e_ordered_prefix_idata peer_tsn buf maxent evs s : in32 buf ->
    crun_ok 2147483648 U own (e2e_cinit true peer_tsn buf maxent) evs ->
    let outs := outs_of s (couts U (e2e_cinit true peer_tsn buf maxent) evs) in
    map e2e_bytes outs =
    map (fun i => (s, concat (map (frag s (Z.of_nat i)) (js (nfr s (Z.of_nat i)))), mppi s (Z.of_nat i)))
        (seq 0 (length outs)).
  Proof.
    intros Hb Hok outs.
    pose proof (composed_prefix true 2147483648 U own tix nfr mppi uichunk imsgs iQI
                  i_nfr1 (fun _ _ _ => eq_refl) (fun _ _ _ => eq_refl) (fun _ _ _ => eq_refl)
                  (fun s mx => IInv_new s (tix s) (nfr s) (frag s) (mppi s) (Hnfr s) mx) i_push i_read i_done Hwf (peer_tsn - 1) evs _ s
                  (CI_init true U own iQI peer_tsn buf maxent Hb) Hok) as H.
    fold outs in H. rewrite H at 1. unfold smsgs, e2e_cinit. cbn [snd]. rewrite map_map.
    apply map_ext. intros i. unfold e2e_bytes. cbn [fst snd]. f_equal. f_equal.
    unfold imsgs, imsg. rewrite map_map. reflexivity.
  Qed.
End IDataMode.

(* ========================================================================================== *)
(* Part C: the universe generated from a list of writes (DATA mode) is well-formed              *)
(* ========================================================================================== *)
Section Generator.
  Variable maxp : nat.                 (* maximum payload per fragment, >= 1 *)
  Hypothesis Hmaxp : (1 <= maxp)%nat.

  Definition nfrags (w : e2e_msg) : Z := Z.of_nat (length (e2e_frags maxp (em_data w))).

  Lemma e2e_slices_concat : forall fuel d, concat (e2e_slices fuel maxp d) = d.
  Proof.
    induction fuel as [|f IH]; intros d; destruct d as [|x t]; cbn [e2e_slices concat]; try reflexivity.
    - rewrite app_nil_r. reflexivity.
    - rewrite IH. apply firstn_skipn.
  Qed.

  Lemma e2e_slices_len : forall fuel d, d <> [] -> (1 <= length (e2e_slices fuel maxp d) <= length d)%nat.
  Proof.
    induction fuel as [|f IH]; intros d Hd; destruct d as [|x t]; try congruence; cbn [e2e_slices length].
    - lia.
    - destruct (skipn maxp (x :: t)) as [|y r] eqn:Es.
      + destruct f; cbn [e2e_slices length]; lia.
      + assert (Hl : (length (skipn maxp (x :: t)) <= length t)%nat).
        { rewrite skipn_length. cbn [length]. lia. }
        rewrite Es in Hl. specialize (IH (y :: r) ltac:(discriminate)). lia.
  Qed.

  (* index of the first fragment of the kl-th message of stream s among ws, counting indices from i *)
  Fixpoint Tloc (i s : Z) (kl : nat) (ws : list e2e_msg) : Z :=
    match ws with
    | [] => 0
    | w :: t => if em_sid w =? s
                then match kl with O => i | S kl' => Tloc (i + nfrags w) s kl' t end
                else Tloc (i + nfrags w) s kl t
    end.

  Fixpoint own_msg (i sid k : Z) (j : Z) (frs : list (list Z)) : list (Z * (Z * Z * Z)) :=
    match frs with [] => [] | _ :: t => (i, (sid, k, j)) :: own_msg (i + 1) sid k (j + 1) t end.

  Fixpoint gen_own (i : Z) (cnt : list (Z * Z)) (ws : list e2e_msg) : list (Z * (Z * Z * Z)) :=
    match ws with
    | [] => []
    | w :: t => own_msg i (em_sid w) (e2e_cnt (em_sid w) cnt) 0 (e2e_frags maxp (em_data w)) ++
                gen_own (i + nfrags w) (e2e_cnt_inc (em_sid w) cnt) t
    end.

  Lemma e2e_cnt_inc_spec s s' : forall cnt, e2e_cnt s (e2e_cnt_inc s' cnt) = e2e_cnt s cnt + (if s' =? s then 1 else 0).
  Proof.
    induction cnt as [|[a n] t IH]; cbn [e2e_cnt_inc e2e_cnt].
    - destruct (s' =? s); lia.
    - destruct (a =? s') eqn:E1; cbn [e2e_cnt].
      + destruct (a =? s) eqn:E2; [replace (s' =? s) with true by lia; lia|replace (s' =? s) with false by lia; lia].
      + destruct (a =? s) eqn:E2; [replace (s' =? s) with false by lia; lia|exact IH].
  Qed.

  Lemma own_msg_spec : forall frs i sid k j0 i' s' k' j',
    In (i', (s', k', j')) (own_msg i sid k j0 frs) ->
    s' = sid /\ k' = k /\ j0 <= j' < j0 + Z.of_nat (length frs) /\ i' = i + (j' - j0).
  Proof.
    induction frs as [|p t IH]; intros i sid k j0 i' s' k' j' H; cbn [own_msg] in H; [destruct H|].
    destruct H as [H|H].
    - inversion H; subst. cbn [length]. repeat split; lia.
    - apply IH in H. cbn [length]. destruct H as (A & B & C & D). repeat split; try assumption; lia.
  Qed.

  Lemma gen_own_spec : forall ws i cnt i' s k j,
    In (i', (s, k, j)) (gen_own i cnt ws) ->
    exists kl w, nth_error (e2e_written s ws) kl = Some w /\ k = e2e_cnt s cnt + Z.of_nat kl /\
                 0 <= j < nfrags w /\ i' = Tloc i s kl ws + j.
  Proof.
    induction ws as [|w t IH]; intros i cnt i' s k j H; cbn [gen_own] in H; [destruct H|].
    apply in_app_or in H. unfold e2e_written in *. cbn [filter Tloc]. destruct H as [H|H].
    - apply own_msg_spec in H. destruct H as (-> & -> & Hj & ->). rewrite Z.eqb_refl.
      exists 0%nat, w. cbn [nth_error]. unfold nfrags. repeat split; lia.
    - apply IH in H. destruct H as (kl & w' & Hn & Hk & Hj & Hi). rewrite e2e_cnt_inc_spec in Hk.
      destruct (em_sid w =? s) eqn:Es.
      + exists (S kl), w'. cbn [nth_error]. repeat split; try assumption; lia.
      + exists kl, w'. repeat split; try assumption; lia.
  Qed.

  Variable ws : list e2e_msg.
  Variable i0 : Z.
  Hypothesis Hws : Forall (fun w => em_data w <> [] /\ Z.of_nat (length (em_data w)) < 2147483648) ws.

  Definition g_msg (s k : Z) : option e2e_msg := if k <? 0 then None else nth_error (e2e_written s ws) (Z.to_nat k).
  Definition g_T (s k : Z) : Z := Tloc i0 s (Z.to_nat k) ws.
  Definition g_nfr (s k : Z) : Z := match g_msg s k with Some w => nfrags w | None => 1 end.
  Definition g_frag (s k j : Z) : list Z :=
    match g_msg s k with Some w => nth (Z.to_nat j) (e2e_frags maxp (em_data w)) [] | None => [] end.
  Definition g_ppi (s k : Z) : Z := match g_msg s k with Some w => em_ppi w | None => 0 end.
  Definition g_own (i : Z) : option (Z * Z * Z) :=
    match find (fun p => fst p =? i) (gen_own i0 [] ws) with Some p => Some (snd p) | None => None end.
  Definition g_U (i : Z) : option rqchunk :=
    match g_own i with Some (s, k, j) => Some (uchunk g_T g_nfr g_frag g_ppi s k j) | None => None end.

  Lemma nfrags_range w : In w ws -> 1 <= nfrags w < 2147483648.
  Proof.
    intros Hw. eapply Forall_forall in Hws; [|exact Hw]. destruct Hws as [Hd Hl].
    unfold nfrags, e2e_frags. pose proof (e2e_slices_len (length (em_data w)) (em_data w) Hd). lia.
  Qed.

  Lemma written_in s kl w : nth_error (e2e_written s ws) kl = Some w -> In w ws.
  Proof. intros H. apply nth_error_In in H. unfold e2e_written in H. apply filter_In in H. tauto. Qed.

  Lemma g_nfr_range s k : 1 <= g_nfr s k < 2147483648.
  Proof.
    unfold g_nfr, g_msg. destruct (k <? 0); [lia|].
    destruct (nth_error (e2e_written s ws) (Z.to_nat k)) as [w|] eqn:E; [|lia].
    apply nfrags_range. eapply written_in; exact E.
  Qed.

  Lemma g_wf i c : g_U i = Some c ->
    exists s k j, g_own i = Some (s, k, j) /\ 0 <= k /\ 0 <= j < g_nfr s k /\ i = g_T s k + j /\
                  c = uchunk g_T g_nfr g_frag g_ppi s k j.
  Proof.
    unfold g_U. destruct (g_own i) as [[[s k] j]|] eqn:Eo; [|discriminate]. intros H; inversion H; subst c.
    exists s, k, j. split; [reflexivity|].
    unfold g_own in Eo. destruct (find (fun p => fst p =? i) (gen_own i0 [] ws)) as [[i' t]|] eqn:Ef; [|discriminate].
    apply find_some in Ef. destruct Ef as [Hin Hi]. cbn [fst snd] in *. inversion Eo; subst t. assert (i' = i) by lia. subst i'.
    apply gen_own_spec in Hin. destruct Hin as (kl & w & Hn & Hk & Hj & Hi'). cbn [e2e_cnt] in Hk.
    assert (Ek : Z.to_nat k = kl) by lia.
    assert (Em : g_msg s k = Some w) by (unfold g_msg; replace (k <? 0) with false by lia; rewrite Ek; exact Hn).
    unfold g_nfr, g_T. rewrite Em, Ek. repeat split; try lia; try reflexivity.
  Qed.

  (* the fragments of the k-th message written on s concatenate to its bytes; its PPI is the written one *)
  Lemma g_message s k w : g_msg s k = Some w ->
    concat (map (g_frag s k) (js (g_nfr s k))) = em_data w /\ g_ppi s k = em_ppi w.
  Proof.
    intros Em. unfold g_ppi, g_nfr. rewrite Em. split; [|reflexivity].
    transitivity (concat (e2e_frags maxp (em_data w))); [|apply e2e_slices_concat].
    unfold nfrags, js. rewrite Nat2Z.id. f_equal.
    set (frs := e2e_frags maxp (em_data w)).
    rewrite (map_ext (g_frag s k) (fun j => nth (Z.to_nat j) frs [])) by (intros j; unfold g_frag; rewrite Em; reflexivity).
    rewrite map_map.
    apply (nth_ext _ _ (nth (Z.to_nat (Z.of_nat 0)) frs []) []).
    - rewrite map_length, seq_length. reflexivity.
    - intros n Hn. rewrite map_length, seq_length in Hn.
      rewrite (map_nth (fun x => nth (Z.to_nat (Z.of_nat x)) frs []) (seq 0 (length frs)) 0%nat n).
      rewrite seq_nth by exact Hn. rewrite Nat2Z.id. reflexivity.
  Qed.

  Lemma g_own_msg i s k j : g_own i = Some (s, k, j) -> exists w, g_msg s k = Some w.
  Proof.
    unfold g_own. destruct (find (fun p => fst p =? i) (gen_own i0 [] ws)) as [[i' t]|] eqn:Ef; [|discriminate].
    intros Eo. apply find_some in Ef. destruct Ef as [Hin _]. cbn [snd] in Eo. inversion Eo; subst t.
    apply gen_own_spec in Hin. destruct Hin as (kl & w & Hn & Hk & _). cbn [e2e_cnt] in Hk.
    exists w. unfold g_msg. replace (k <? 0) with false by lia. replace (Z.to_nat k) with kl by lia. exact Hn.
  Qed.

  (* C01, DATA mode, in terms of the messages written *)
  Theorem e2e_ordered_prefix_written peer_tsn buf maxent evs s :
    in32 buf -> crun_ok 32768 g_U g_own (e2e_cinit false peer_tsn buf maxent) evs ->
    let outs := outs_of s (couts g_U (e2e_cinit false peer_tsn buf maxent) evs) in
    map e2e_bytes outs =
    map (fun w => (s, em_data w, em_ppi w)) (firstn (length outs) (e2e_written s ws)).
  Proof.
    intros Hb Hok outs.
    pose proof (e2e_ordered_prefix_data g_U g_own g_T g_nfr g_frag g_ppi g_nfr_range g_wf peer_tsn buf maxent evs s Hb Hok) as H.
    fold outs in H. rewrite H.
    pose proof (d_run_CI g_U g_own g_T g_nfr g_frag g_ppi g_nfr_range g_wf peer_tsn buf maxent evs Hb Hok) as HCf.
    pose proof (d_run_count g_U g_own g_T g_nfr g_frag g_ppi g_nfr_range g_wf peer_tsn buf maxent evs s Hb Hok) as Hcnt.
    fold outs in Hcnt.
    assert (Hex : forall k, (k < length outs)%nat -> exists w, nth_error (e2e_written s ws) k = Some w).
    { intros k Hk. destruct (crun g_U (e2e_cinit false peer_tsn buf maxent) evs) as [[st g] m] eqn:Ec. cbn [snd] in Hcnt.
      destruct (d_read_exists g_U g_own g_T g_nfr g_frag g_ppi g_nfr_range g_wf _ st g m s (Z.of_nat k) HCf) as (i & c & _ & Ho); [lia|].
      destruct (g_own_msg _ _ _ _ Ho) as (w & Hw). exists w. unfold g_msg in Hw.
      replace (Z.of_nat k <? 0) with false in Hw by lia. rewrite Nat2Z.id in Hw. exact Hw. }
    clear H Hcnt HCf. revert Hex. generalize (length outs) as n. intros n Hex.
    assert (G : forall n a, (forall k, (k < a + n)%nat -> exists w, nth_error (e2e_written s ws) k = Some w) ->
                map (fun i => (s, concat (map (g_frag s (Z.of_nat i)) (js (g_nfr s (Z.of_nat i)))), g_ppi s (Z.of_nat i))) (seq a n) =
                map (fun w => (s, em_data w, em_ppi w)) (firstn n (skipn a (e2e_written s ws)))).
    { induction n0 as [|n0 IH]; intros a Ha; [reflexivity|]. cbn [seq map].
      destruct (Ha a ltac:(lia)) as (w & Hw).
      assert (Em : g_msg s (Z.of_nat a) = Some w).
      { unfold g_msg. replace (Z.of_nat a <? 0) with false by lia. rewrite Nat2Z.id. exact Hw. }
      destruct (g_message s (Z.of_nat a) w Em) as [E1 E2].
      assert (Esk : skipn a (e2e_written s ws) = w :: skipn (S a) (e2e_written s ws)).
      { clear - Hw. revert a Hw. induction (e2e_written s ws) as [|x t IHl]; intros a Hw; [destruct a; discriminate|].
        destruct a; [cbn in *; inversion Hw; reflexivity|]. cbn [skipn nth_error] in *. apply IHl. exact Hw. }
      rewrite Esk. cbn [firstn map]. rewrite E1, E2. f_equal. apply IH. intros k Hk. apply Ha. lia. }
    specialize (G n 0%nat). cbn [skipn] in G. apply G. intros k Hk. apply Hex. lia.
  Qed.
End Generator.

(* ========================================================================================== *)
(* Part D: an inbound stream reset does not change the advertised window (C11, fix 243f816)     *)
(* ========================================================================================== *)
Lemma e2e_get_del_split sid : forall l q, e2e_get sid l = Some q ->
  exists l1 l2, map snd l = l1 ++ q :: l2 /\ map snd (e2e_del sid l) = l1 ++ l2.
Proof.
  induction l as [|[k x] t IH]; intros q H; cbn [e2e_get e2e_del] in *; [discriminate|].
  destruct (k =? sid).
  - inversion H; subst. exists [], (map snd t). split; reflexivity.
  - destruct (IH q H) as (l1 & l2 & A & B). exists (x :: l1), l2. cbn [map snd]. rewrite A, B. split; reflexivity.
Qed.

Definition e2e_held (st : e2e_rcv) : Z :=
  zsum (map rq_held_bytes (map snd (e2e_streams st))) + zsum (map rq_held_bytes (e2e_detached st)).

Definition e2e_queues_reachable (st : e2e_rcv) : Prop :=
  Forall rq_reachable (map snd (e2e_streams st)) /\ Forall rq_reachable (e2e_detached st).

Theorem e2e_window_formula st :
  0 <= e2e_buf st < 4294967296 -> e2e_queues_reachable st -> e2e_held st < 4294967296 ->
  e2e_a_rwnd st = Z.max 0 (e2e_buf st - e2e_held st).
Proof.
  intros Hb [Hm Hd] Hs. unfold e2e_a_rwnd, e2e_credit, e2e_held in *.
  rewrite rq_credit_formula_thm by assumption. lia.
Qed.

Theorem e2e_reset_keeps_window st sid :
  0 <= e2e_buf st < 4294967296 -> e2e_queues_reachable st -> e2e_held st < 4294967296 ->
  e2e_a_rwnd (e2e_reset st sid) = e2e_a_rwnd st /\ e2e_held (e2e_reset st sid) = e2e_held st /\
  e2e_queues_reachable (e2e_reset st sid).
Proof.
  intros Hb [Hm Hd] Hs. unfold e2e_reset. destruct (e2e_get sid (e2e_streams st)) as [q|] eqn:Eg; [|repeat split; assumption].
  destruct (e2e_get_del_split sid _ q Eg) as (l1 & l2 & A & B).
  unfold e2e_a_rwnd, e2e_credit, e2e_held, e2e_queues_reachable in *.
  cbn [e2e_buf e2e_streams e2e_detached]. rewrite A in *. rewrite B.
  assert (Hq : rq_reachable q) by (apply Forall_app in Hm; destruct Hm as [_ H]; inversion H; assumption).
  destruct (rq_reachable_counter q Hq) as [Eq Nq].
  assert (Hm' : Forall rq_reachable (l1 ++ l2)).
  { apply Forall_app in Hm. destruct Hm as [X Y]. inversion Y; subst. apply Forall_app. split; assumption. }
  assert (Hd' : Forall rq_reachable (rq_detach q (e2e_detached st))).
  { unfold rq_detach. destruct (rq_nbytes q >? 0); [apply Forall_snoc|]; assumption. }
  split; [apply rq_credit_reset_thm; assumption|]. split; [|split; assumption].
  rewrite !map_app, !zsum_app. cbn [map]. unfold rq_detach.
  destruct (rq_nbytes q >? 0) eqn:E; [rewrite map_app, zsum_app|]; unfold zsum; cbn [map]; rewrite ?gsum_cons; cbn; lia.
Qed.

(* the D12 witness, now as a regression of the model: one unread 3-byte message, the peer resets the stream,
   the window still shows the 3 bytes; after the application has read it the whole buffer is advertised *)
Example e2e_window_after_reset_example :
  let c := mkRqChunk 1 7 0 0 0 53 false true true false [1; 2; 3] in
  let st1 := fst (e2e_recv_data (e2e_new 1 4096 0 false) c true) in
  let st2 := e2e_reset st1 7 in
  let st3 := fst (e2e_read_detached st2 0 64) in
  e2e_a_rwnd st1 = 4093 /\ e2e_streams st2 = [] /\ e2e_a_rwnd st2 = 4093 /\ e2e_a_rwnd st3 = 4096.
Proof. vm_compute. repeat split. Qed.
