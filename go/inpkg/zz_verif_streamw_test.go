// Verification harness: Stream.WriteSCTP / packetize differential against coq/model/StreamW.v.
package sctp

import (
	"bytes"
	"fmt"
	"math/rand"
	"testing"
	"time"
)

type swNullConn struct{ simConn }

func swDump(s *Stream) string {
	s.lock.RLock()
	defer s.lock.RUnlock()
	return fmt.Sprintf("%d %d %d %d %d %d", s.sequenceNumber, s.nextOrderedMID, s.nextUnorderedMID, b2i(s.unordered), s.bufferedAmount, int(s.state))
}

func TestVerifStreamW(t *testing.T) {
	seed := verifEnvInt("VERIF_SEED", 1)
	n := int(verifEnvInt("VERIF_N", 300))
	w, done := verifOut(t, "/tmp/verif_streamw.trace")
	defer done()
	rng := rand.New(rand.NewSource(seed))
	contentBad := 0
	kinds := map[string]int{}
	for c := 0; c < n; c++ {
		conn := &simConn{sim: &sim{}, in: make(chan []byte, 1), closed: make(chan struct{}), rdl: make(chan struct{})}
		cfg, err := buildClientConfig(Config{NetConn: conn, LoggerFactory: simLoggerFactory()})
		if err != nil {
			t.Fatal(err)
		}
		a := createAssociationFromConfigWithTsn(cfg, rng.Uint32())
		useIL := rng.Intn(2) == 0
		a.useInterleaving = useIL
		mtus := []uint32{1191, 1200, 576, 300, 100, 9000, 60}
		a.maxPayloadSize = maxPayloadSizeForMTU(mtus[rng.Intn(len(mtus))], useIL)
		if a.maxPayloadSize == 0 {
			a.maxPayloadSize = 4
		}
		maxMsgs := []uint32{65536, 1000, 70000, 1, 5000}
		a.SetMaxMessageSize(maxMsgs[rng.Intn(len(maxMsgs))])
		a.setState(established)
		s := a.createStream(uint16(rng.Intn(5)), false)
		s.sequenceNumber = uint16(rng.Intn(4))
		s.nextOrderedMID = uint32(rng.Intn(4))
		s.nextUnorderedMID = uint32(rng.Intn(4))
		if rng.Intn(3) == 0 { // near the wraps
			s.sequenceNumber = uint16(65535 - rng.Intn(3))
			s.nextOrderedMID = ^uint32(0) - uint32(rng.Intn(3))
			s.nextUnorderedMID = ^uint32(0) - uint32(rng.Intn(3))
		}
		fmt.Fprintf(w, "case w%d\n", c)
		for k := 0; k < 12; k++ {
			switch rng.Intn(12) {
			case 0:
				s.SetReliabilityParams(rng.Intn(2) == 0, ReliabilityTypeReliable, 0)
			case 1:
				st := []uint32{established, established, established, closed, cookieWait, shutdownPending, shutdownSent}
				a.setState(st[rng.Intn(len(st))])
			case 2:
				s.lock.Lock()
				s.state = StreamState(rng.Intn(3))
				s.lock.Unlock()
			}
			mm := int(a.MaxMessageSize())
			var sz int
			switch rng.Intn(9) {
			case 0:
				sz = 0
			case 1:
				sz = mm
			case 2:
				sz = mm + 1
			case 3:
				sz = int(a.maxPayloadSize)
			case 4:
				sz = int(a.maxPayloadSize) + 1
			case 5:
				sz = 2 * int(a.maxPayloadSize)
			default:
				sz = 1 + rng.Intn(3*int(a.maxPayloadSize)+2)
			}
			if sz > 20000 && rng.Intn(4) != 0 {
				sz = sz % 20000
			}
			ppi := PayloadProtocolIdentifier(51 + rng.Intn(3))
			if rng.Intn(5) == 0 {
				ppi = PayloadTypeWebRTCDCEP
			}
			payload := make([]byte, sz)
			rng.Read(payload)
			pre := swDump(s)
			pendBefore := a.pendingQueue.size()
			var before []*chunkPayloadData
			simPendingChunks(a.pendingQueue, &before)
			ret, werr := s.WriteSCTP(payload, ppi)
			var after []*chunkPayloadData
			simPendingChunks(a.pendingQueue, &after)
			// new chunks = those not present before (per sub-queue order is FIFO; identify by pointer)
			old := map[*chunkPayloadData]bool{}
			for _, ch := range before {
				old[ch] = true
			}
			var fresh []*chunkPayloadData
			for _, ch := range after {
				if !old[ch] {
					fresh = append(fresh, ch)
				}
			}
			res := "ok"
			switch {
			case werr == nil:
			case werr != nil && (fmt.Sprint(werr) == fmt.Sprint(fmt.Errorf("%w: %v", ErrOutboundPacketTooLarge, a.MaxMessageSize()))):
				res = "toolarge"
			case werr == ErrStreamClosed:
				res = "closed"
			default:
				res = "senderr"
			}
			kinds[res]++
			if sz == 0 {
				kinds["empty"]++
			}
			fmt.Fprintf(w, "write %d %d %d %d %d %d | %s | %s %d | %s | %d", sz, ppi, b2i(useIL), a.maxPayloadSize, a.MaxMessageSize(), b2i(a.getState() == established),
				pre, res, ret, swDump(s), len(fresh))
			var cat []byte
			for _, ch := range fresh {
				fmt.Fprintf(w, " %d %d %d %d %d %d %d %d %d", b2i(ch.unordered), b2i(ch.beginningFragment), b2i(ch.endingFragment), ch.payloadType,
					ch.streamSequenceNumber, ch.messageIdentifier, ch.fragmentSequenceNumber, b2i(ch.iData), len(ch.userData))
				cat = append(cat, ch.userData...)
			}
			fmt.Fprintln(w)
			if werr == nil && !bytes.Equal(cat, payload) {
				contentBad++
				fmt.Printf("STREAMWFAIL fragments do not concatenate to the written payload: size=%d\n", sz)
			}
			_ = pendBefore
			// drain the pending queue so that policies' selection state does not matter
			for {
				ch := a.pendingQueue.peek()
				if ch == nil {
					break
				}
				if err := a.pendingQueue.pop(ch); err != nil {
					break
				}
			}
		}
		_ = a.close()
		_ = time.Now
	}
	fmt.Printf("STREAMW cases=%d ok=%d toolarge=%d closed=%d senderr=%d empty=%d content_bad=%d\n", n, kinds["ok"], kinds["toolarge"], kinds["closed"], kinds["senderr"], kinds["empty"], contentBad)
}
