(* replay of timer / ack-decision / Karn traces on the extracted model (coq/model/TimerFsm.v).
   All state changes are computed by the extracted step functions; this file only schedules the
   internal events (clock advance, fire, run) that testing/synctest performs implicitly while the
   harness sleeps, and compares observations. *)
module M = Model
open Zio

type tstate = Rtx of M.rtx | Ack of M.tcore

let core = function Rtx t -> t.M.rx_core | Ack c -> c
let step st e = match st with
  | Rtx t -> let (t', o) = M.rtx_step t e in (Rtx t', o)
  | Ack c -> let (c', o) = M.ack_step c e in (Ack c', o)

let zint n = Z.to_string (z_of_cz n)
let zadd a b = cz_of_z (Z.add (z_of_cz a) (z_of_cz b))
let zsub a b = cz_of_z (Z.sub (z_of_cz a) (z_of_cz b))
let zle a b = Z.leq (z_of_cz a) (z_of_cz b)

(* callbacks produced by an output, stamped with the model clock *)
let cb_string st o =
  let now = zint (core st).M.tc_now in
  match o with
  | M.OTimeout (id, n) -> Some (Printf.sprintf "T %s %s %s" (zint id) (zint n) now)
  | M.OFailure id -> Some (Printf.sprintf "F %s 0 %s" (zint id) now)
  | M.OAck -> Some (Printf.sprintf "A 0 0 %s" now)
  | _ -> None

(* every in-flight callback obtains the mutex (the harness is blocked, nobody else holds it) *)
let rec run_inflight st acc =
  match (core st).M.tc_inflight with
  | [] -> (st, acc)
  | _ ->
    let (st', o) = step st (M.TRun M.O) in
    let acc = match cb_string st' o with Some s -> s :: acc | None -> acc in
    run_inflight st' acc

(* the harness sleeps for d ns: timers that come due fire and their callbacks run at once *)
let rec sleep st d acc =
  let (st, acc) = run_inflight st acc in
  let c = core st in
  match c.M.tc_armed with
  | Some (_, dl) when zle dl (zadd c.M.tc_now d) ->
    let adv = zsub dl c.M.tc_now in
    let (st, _) = step st (M.TAdvance adv) in
    let (st, _) = step st M.TFire in
    sleep st (zsub d adv) acc
  | _ -> let (st, _) = step st (M.TAdvance d) in (st, acc)

let obs_string st cbs =
  let c = core st in
  let nr = match st with Rtx t -> zint t.M.rx_nrtos | Ack _ -> "0" in
  let cbs = List.rev cbs in
  Printf.sprintf "%s %s %s %d%s" (zint c.M.tc_state) (zint c.M.tc_pending) nr (List.length cbs)
    (String.concat "" (List.map (fun s -> " " ^ s) cbs))

(* ---------------------------------------------------------------- timer cases *)
let run_timer name lines =
  let st = ref (Ack M.tc_init) and pending_cbs = ref [] and stop = ref false in
  List.iteri (fun i toks ->
    if not !stop then begin
      let bad what m im = report name (i+1) what m im; stop := true in
      match toks with
      | ["rtx"; id; mr; mx] -> st := Rtx (M.rtx_new (cz id) (cz mr) (cz mx))
      | ["ack"] -> st := Ack M.tc_init
      | ["start"; rto; ok] ->
        let (s, o) = step !st (M.TStart (cz rto)) in st := s;
        (match o with
         | M.OStarted b -> if sbool b <> ok then bad ("start " ^ rto) (sbool b) ok
         | _ -> bad "start" "no result" ok)
      | ["stop"] -> let (s, _) = step !st M.TStop in st := s
      | ["close"] -> let (s, _) = step !st M.TClose in st := s
      | ["isrunning"; b] ->
        let (s, o) = step !st M.TIsRunning in st := s;
        (match o with
         | M.ORunning r -> if sbool r <> b then bad "isrunning" (sbool r) b
         | _ -> bad "isrunning" "no result" b)
      | ["sleep"; d] -> let (s, acc) = sleep !st (cz d) !pending_cbs in st := s; pending_cbs := acc
      | ["wait"] -> let (s, acc) = run_inflight !st !pending_cbs in st := s; pending_cbs := acc
      | ["holdfire"; d] ->
        let c = core !st in
        (match c.M.tc_armed with
         | Some (_, dl) when zint (zsub dl c.M.tc_now) = d ->
           let (s, _) = step !st (M.TAdvance (cz d)) in
           let (s, o) = step s M.TFire in
           st := s;
           if o = M.OInvalid then bad "holdfire" "fire not enabled" d
         | Some (_, dl) -> bad "holdfire deadline" (zint (zsub dl c.M.tc_now)) d
         | None -> bad "holdfire" "not armed" d)
      | "obs" :: rest ->
        incr records;
        let im = String.concat " " rest in
        let m = obs_string !st !pending_cbs in
        pending_cbs := [];
        if m <> im then bad "timer observation" m im
      | _ -> bad "unparsed line" "" (String.concat " " toks)
    end) lines

(* ---------------------------------------------------------------- ack decision cases *)
(* lines:  ackinit <state> <mode>
           pkt <k> { <immediateSack> <tsn> <peerLastTSN> <assocState> <hasPacketLoss> <canPush> <beyondWindow> <dupTSN grew> }*k
           sleep <ns> | gather <sackEmitted>
           each followed by:  aobs <ackState> <imm> <del> <timerRunning> <ackTimeouts so far> *)
let run_ackfsm name lines =
  let a = ref { M.ak_state = czi 0; M.ak_mode = czi 0; M.ak_imm = false; M.ak_del = false } in
  let tm = ref (Ack M.tc_init) and timeouts = ref 0 and stop = ref false in
  let tcore () = core !tm in
  List.iteri (fun i toks ->
    if not !stop then begin
      let bad what m im = report name (i+1) what m im; stop := true in
      match toks with
      | ["ackinit"; s; mode] -> a := { M.ak_state = cz s; M.ak_mode = cz mode; M.ak_imm = false; M.ak_del = false }
      | "pkt" :: _ :: rest ->
        let rec chunks = function
          | imm :: tsn :: last :: state :: loss :: canpush :: beyond :: dupgrew :: r ->
            let dup = M.ack_duplicate_flag (canpush = "1") (beyond = "1") in
            if sbool dup <> dupgrew then bad ("duplicate flag tsn=" ^ tsn) (sbool dup) dupgrew;
            (M.ack_sack_now (imm = "1") dup (cz tsn) (cz last) (cz state), loss = "1") :: chunks r
          | _ -> [] in
        let (a', c') = M.ack_packet !a (tcore ()) (chunks rest) in
        a := a'; tm := Ack c'
      | ["sleep"; d] ->
        let (s, acc) = sleep !tm (cz d) [] in
        tm := s;
        List.iter (fun _ -> incr timeouts; a := M.ack_on_timeout !a) acc
      | ["gather"; emitted] ->
        let (a', e) = M.ack_gather !a in a := a';
        if sbool e <> emitted then bad "gather" (sbool e) emitted
      | "aobs" :: rest ->
        incr records;
        let im = String.concat " " rest in
        let m = Printf.sprintf "%s %s %s %s %d" (zint !a.M.ak_state) (sbool !a.M.ak_imm) (sbool !a.M.ak_del)
            (sbool (zint (tcore ()).M.tc_state = "1")) !timeouts in
        if m <> im then bad "ack observation" m im
      | _ -> bad "unparsed line" "" (String.concat " " toks)
    end) lines

(* ---------------------------------------------------------------- Karn cases *)
(* line: karn <minTSN> <myNextTSN> <k> { <tsn> <nSent> <acked> }*k <minTSN after> <samples 0|1|2> <sampled tsn> *)
let run_karn name lines =
  List.iteri (fun i toks ->
    match toks with
    | "karn" :: mn :: nx :: k :: rest ->
      incr records;
      let k = int_of_string k in
      let rec take n l acc = if n = 0 then (List.rev acc, l) else
          match l with
          | tsn :: ns :: ak :: r -> take (n-1) r (((cz tsn, cz ns), ak = "1") :: acc)
          | _ -> (List.rev acc, []) in
      let (chunks, tail) = take k rest [] in
      let (mn', sampled) = M.karn_sack (cz mn) (cz nx) chunks in
      let cnt = min 2 (List.length sampled) in
      let first = match sampled with [] -> "0" | t :: _ -> zint t in
      let m = Printf.sprintf "%s %d %s" (zint mn') cnt (if cnt = 1 then first else "0") in
      let im = String.concat " " tail in
      if m <> im then report name (i+1) "karn" m im
    | ["maxretrans"; id; v] ->
      incr records;
      let m = zint (M.tm_max_retrans (cz id)) in
      if m <> v then report name (i+1) ("maxretrans " ^ id) m v
    | _ -> report name (i+1) "unparsed line" "" (String.concat " " toks)) lines

let run path =
  let cases = read_cases path in
  let ncase = ref 0 in
  List.iter (fun (name, lines) ->
    incr ncase;
    match lines with
    | ("rtx" :: _) :: _ | ["ack"] :: _ -> run_timer name lines
    | ("ackinit" :: _) :: _ -> run_ackfsm name lines
    | _ -> run_karn name lines) cases;
  Printf.printf "SUMMARY component=timers cases=%d records=%d mismatches=%d\n" !ncase !records !mismatches
