(* C02 — no permanent stall (partial: the wall-clock bound across goroutine wake-ups is not carried by the model;
   theorems 9-11 compose the ingredients into "every fault-free round advances, the queue drains").  What is proved: every ingredient of the progress argument, each over all states / histories
   of its model; the composition "every fault-free round strictly advances the cumulative ack" is argued in
   DESIGN.md and searched for counterexamples by the simulator (heal-then-drain scenarios, zero-window episodes,
   invariant monitors at every quiescent point).  Only statements closed by [exact]. *)
From Coq Require Import ZArith Bool List.
From Sctp Require Import Gen SnaProofs Sender SenderProofs RPQ RPQProofs RQ RQProofs TimerFsm TimerProofs Live LiveSender LiveProofs LiveReach.
Import ListNotations.
Open Scope Z_scope.

(* 1. T3 never gives up: with maxRetrans = 0 (T3-rtx, T2-shutdown, reconfig) no history of start/stop/expiry
      events produces a failure callback and the timer stays alive *)
Theorem c02_t3_never_gives_up : forall evs t,
  rtx_inv t -> rx_maxretrans t = 0 -> rtx_alive t -> Forall tm_quiet evs ->
  (forall id, ~ In (OFailure id) (snd (rtx_run t evs))) /\ rtx_alive (fst (rtx_run t evs)).
Proof. exact rtx_never_gives_up. Qed.
Print Assumptions c02_t3_never_gives_up.

(* 2. a T3 expiry marks every outstanding chunk (not acknowledged, not abandoned) for retransmission and
      keeps the queue and its byte count *)
Theorem c02_t3_marks_all_outstanding : forall s c,
  In c (st_infl (t3_step s)) -> sc_acked c = false -> sc_aband c = false -> sc_rtx c = true.
Proof. exact t3_marks_all_outstanding. Qed.
Print Assumptions c02_t3_marks_all_outstanding.

(* 3. after a T3 expiry the lowest outstanding chunk is retransmitted whatever the peer's window is (zero-window
      probe) and although the congestion window collapsed to one MTU *)
Theorem c02_t3_retransmits_lowest_outstanding : forall s gate c rest,
  st_infl s = c :: rest -> sc_acked c = false -> sc_aband c = false -> 0 <= sc_len c ->
  0 < st_mtu s -> sc_len c <= st_mtu s -> st_mincwnd s <= st_cwnd s -> gate (sc_len c) = true ->
  In 0 (rtx_select (t3_step s) gate).
Proof. exact t3_retransmits_lowest_outstanding. Qed.
Print Assumptions c02_t3_retransmits_lowest_outstanding.

(* 4. queued data always gets a chunk on the wire when nothing is in flight: the probe path *)
Theorem c02_pending_progress : forall s n,
  st_infl s = [] -> admit_new s n false <> AdmitNo.
Proof.
  intros s n H. unfold admit_new. rewrite H. cbn.
  destruct ((wrap32 (wrap32 (st_nbytes s) + n) <=? st_cwnd s) && (n <=? st_rwnd s))%bool; discriminate.
Qed.
Print Assumptions c02_pending_progress.

(* 5. the receiver always takes the lowest missing TSN: an arrival just above the cumulative point is inside
      the tracking window and, unless already accepted, is accepted by the bitmap — for every history *)
Theorem c02_lowest_missing_accepted : forall m k0 evs k,
  0 <= m < 2147483584 ->
  run_ok (ginit (rpq_new m) k0) evs ->
  let s := grun (ginit (rpq_new m) k0) evs in
  - H31 < k - gK (snd s) < H31 ->
  (snd (push (fst s) (wrap32 k)) = true <->
   gK (snd s) < k <= gK (snd s) + max_off (fst s) /\ ~ In k (gacc (snd s))).
Proof. exact accept_iff. Qed.
Print Assumptions c02_lowest_missing_accepted.

(* 6. at zero credit the association still takes a chunk that fills a gap below the highest TSN received *)
Theorem c02_gap_fill_at_zero_window : forall pq tsn,
  can_push pq tsn = true -> size pq <> 0 -> sna32LT tsn (tail pq) = true -> rq_assoc_takes pq 0 tsn = true.
Proof.
  intros pq tsn H1 H2 H3. unfold rq_assoc_takes. rewrite H1. cbn [andb].
  unfold rq_admit, last_tsn_received. destruct (size pq =? 0) eqn:E; [apply Z.eqb_eq in E; contradiction|].
  cbn. rewrite H3. reflexivity.
Qed.
Print Assumptions c02_gap_fill_at_zero_window.

(* 7. an accepted SACK that advances the cumulative point strictly shrinks the in-flight queue's byte count or
      leaves it (never grows): the measure of the progress argument *)
Theorem c02_ack_never_grows_outstanding : forall s cum arwnd gaps s' pend,
  sack_step s cum arwnd gaps = SOk s' -> BI s pend ->
  BI s' pend /\ st_nbytes s' <= st_nbytes s /\ map fst (st_buffered s') = map fst (st_buffered s).
Proof. exact sack_step_BI. Qed.
Print Assumptions c02_ack_never_grows_outstanding.

(* 8. the congestion window never falls below one MTU, so a full-sized chunk always fits it *)
Theorem c02_cwnd_floor_after_t3 : forall s, 0 < st_mtu s < 1073741824 ->
  st_cwnd (t3_step s) = Z.max (st_mtu s) (st_mincwnd s) /\
  st_ssthresh (t3_step s) = Z.max (st_cwnd s / 2) (4 * st_mtu s).
Proof. exact t3_cwnd. Qed.
Print Assumptions c02_cwnd_floor_after_t3.

(* ------------------------------------------------------------------------------------------------------
   9-11. The composition (coq/model/Live.v): one fault-free retransmission round of two endpoints =
   T3 expiry -> retransmission of what rtx_select picks -> delivery -> storage under the admission rule ->
   cumulative point moved over everything consecutive -> SACK (cumulative TSN + gap blocks of the tracker)
   -> delivery -> handleSack.  LInv is the relation between the two endpoints that every earlier history
   (whatever was lost, duplicated, reordered, whatever back-off or window collapse happened) leaves behind:
   the receiver's cumulative point lies between the sender's ack point and the highest TSN sent, it holds
   only TSNs that were sent, chunks the sender has marked acknowledged were accepted by the receiver, nothing
   consecutive is left unpopped; chunks are reliable (not abandoned) and at most one MTU long.
   Hypotheses of the property itself: the application keeps reading and the messages fit, i.e. the window
   credit is positive when the lowest outstanding chunk arrives (0 < credit 0); the retransmission gate
   (MTU / burst budget) admits one chunk of at most one MTU.
   ------------------------------------------------------------------------------------------------------ *)

(* 9. every fault-free round strictly advances the cumulative acknowledgement (by d >= 1 chunks, also across
      the 2^32 wrap: K is the unbounded index of the ack point), the SACK is never rejected, and the
      invariant holds again *)
Theorem c02_fault_free_round_advances : forall gate credit arwnd st K g k0,
  LInv st K g k0 -> st_infl (lv_s st) <> [] ->
  (forall x, 0 <= x <= st_mtu (lv_s st) -> gate x = true) -> 0 < credit 0 ->
  exists st' d g', lv_round gate credit arwnd st = Some st' /\ 1 <= d /\ LInv st' (K + d) g' k0 /\
    Z.of_nat (length (st_infl (lv_s st'))) = Z.of_nat (length (st_infl (lv_s st))) - d /\
    st_mtu (lv_s st') = st_mtu (lv_s st).
Proof. exact round_progress. Qed.
Print Assumptions c02_fault_free_round_advances.

(* 10. hence within at most as many rounds as there are chunks in flight (each round lasts at most one RTO,
       which C19 bounds by RTO.max) the in-flight queue is empty and the ack point has reached the highest
       TSN sent *)
Theorem c02_drains_within_as_many_rounds_as_chunks : forall gate credit arwnd k0, 0 < credit 0 -> forall N st K g,
  (length (st_infl (lv_s st)) <= N)%nat -> LInv st K g k0 ->
  (forall x, 0 <= x <= st_mtu (lv_s st) -> gate x = true) ->
  exists m st' g', (m <= N)%nat /\ lv_rounds m gate credit arwnd st = Some st' /\
    LInv st' (K + Z.of_nat (length (st_infl (lv_s st)))) g' k0 /\ st_infl (lv_s st') = [].
Proof. exact drains. Qed.
Print Assumptions c02_drains_within_as_many_rounds_as_chunks.

(* 11. the invariant is satisfiable in the worst starting point -- every chunk that was ever sent has been
       lost and the receiver still has nothing -- for every window size and every initial TSN; from there
       the queue drains and the ack point reaches K + n *)
Theorem c02_everything_lost_still_drains : forall gate credit arwnd s K m,
  Sl s K -> 1 <= m < 2147483584 -> 0 < st_mtu s ->
  (forall i c, nth_error (st_infl s) i = Some c -> sc_acked c = false /\ sc_aband c = false /\ 0 <= sc_len c <= st_mtu s) ->
  (forall x, 0 <= x <= st_mtu s -> gate x = true) -> 0 < credit 0 ->
  exists r st', (r <= length (st_infl s))%nat /\
    lv_rounds r gate credit arwnd (mkLv s (rpq_init (rpq_new m) (wrap32 K))) = Some st' /\
    st_infl (lv_s st') = [] /\ st_cum (lv_s st') = wrap32 (K + Z.of_nat (length (st_infl s))).
Proof. exact all_lost_drains. Qed.
Print Assumptions c02_everything_lost_still_drains.

(* 12. the link invariant is not an assumption about "nice" states: it holds in EVERY reachable state of the
       two-endpoint system (proofs/LiveReach.v) whose network may lose, duplicate, delay and reorder every DATA
       chunk and every SACK arbitrarily: messages are written and chunks sent at any time, T3 expires at any time, a copy of any
       chunk that is or was in flight arrives at any time, a copy of any SACK ever emitted arrives at any time.
       lev_ok only asks what the property itself assumes: chunks of at most one MTU, fewer than 2^30 chunks in
       flight, packets not older than 2^30 TSNs. *)
Theorem c02_invariant_in_every_reachable_state : forall s K m evs,
  Sl s K -> st_infl s = [] -> 1 <= m < 2147483584 -> 0 < st_mtu s -> BI s [] ->
  let y0 := mkLs (mkLv s (rpq_init (rpq_new m) (wrap32 K))) K (mkGhost K [] []) [] [] in
  lrun_ok y0 evs -> SysInv K (lrun y0 evs).
Proof. intros s K m evs SL Ee Hm Hmtu HB y0 Hok. exact (lrun_inv K evs y0 (SysInv_init s K m SL Ee Hm Hmtu HB) Hok). Qed.
Print Assumptions c02_invariant_in_every_reachable_state.

(* 13. no permanent stall: after ANY such history, a fault-free suffix of at most n retransmission rounds (n =
       chunks in flight; each round is at most one RTO, bounded by RTO.max: C19) leaves nothing in flight, the ack
       point at the highest TSN sent, the in-flight byte counter at 0 and every stream's buffered amount equal to
       the bytes still waiting in the pending queue (0 when everything written has been sent).  Remaining gap to the property text: the wall-clock bound itself, and
       data still in the pending queue (c02_pending_progress moves it once nothing is in flight). *)
Theorem c02_every_reachable_state_drains : forall gate credit arwnd s K m evs,
  Sl s K -> st_infl s = [] -> 1 <= m < 2147483584 -> 0 < st_mtu s -> BI s [] ->
  let y0 := mkLs (mkLv s (rpq_init (rpq_new m) (wrap32 K))) K (mkGhost K [] []) [] [] in
  lrun_ok y0 evs ->
  let y := lrun y0 evs in
  (forall x, 0 <= x <= st_mtu (lv_s (ls_st y)) -> gate x = true) -> 0 < credit 0 ->
  exists r st', (r <= length (st_infl (lv_s (ls_st y))))%nat /\
    lv_rounds r gate credit arwnd (ls_st y) = Some st' /\ st_infl (lv_s st') = [] /\
    st_cum (lv_s st') = wrap32 (ls_K y + ls_n y) /\
    st_nbytes (lv_s st') = 0 /\
    (forall k, In k (map fst (st_buffered (lv_s st'))) -> lookup (st_buffered (lv_s st')) k = lookup (ls_pend y) k).
Proof. exact reachable_state_drains. Qed.
Print Assumptions c02_every_reachable_state_drains.

(* non-vacuity of 12/13: a run across the 2^32 wrap with a lost first chunk, a gap-ack, a T3 expiry, a
   retransmission, a late SACK, a duplicated old SACK and an old duplicate DATA chunk satisfies lrun_ok *)
Example c02_example_reachable_run :
  let K := 4294967294 in
  let s0 := mkS c_established (wrap32 K) 0 [] 0 4380 100000 100000 0 false 0 false 1200 0 0 0 0 [(1, 0)] in
  let y0 := mkLs (mkLv s0 (rpq_init (rpq_new 2000) (wrap32 K))) K (mkGhost K [] []) [] [] in
  let evs := [LWrite 1 [1000; 1000; 500]; LSend 1 1000; LSend 1 1000; LSend 1 500; LData 1 50000; LSack 0 90000; LT3; LData 2 50000;
              LData 0 50000; LSack 2 90000; LSack 0 90000; LData (-1) 50000] in
  lrun_ok y0 evs /\
  map (fun n => let y := lrun y0 (firstn n evs) in (st_cum (lv_s (ls_st y)), length (st_infl (lv_s (ls_st y))), gK (ls_g y)))
      [4; 6; 9; 10; 12]%nat =
  [(4294967294, 3%nat, 4294967294); (4294967294, 3%nat, 4294967294); (4294967294, 3%nat, 4294967297);
   (1, 0%nat, 4294967297); (1, 0%nat, 4294967297)].
Proof. vm_compute. repeat split; first [discriminate | repeat constructor]. Qed.

(* the SACK half on its own: a SACK that lies inside what is in flight is never rejected by handleSack, moves
   the ack point exactly there and pops exactly the acknowledged prefix *)
Theorem c02_genuine_sack_never_rejected : forall s K d arwnd gaps,
  Sl s K -> 0 <= d <= Z.of_nat (length (st_infl s)) ->
  gaps_in_range gaps (Z.of_nat (length (st_infl s)) - d) ->
  exists s', sack_step s (wrap32 (K + d)) arwnd gaps = SOk s' /\
    st_cum s' = wrap32 (K + d) /\ st_state s' = st_state s /\ st_mtu s' = st_mtu s /\ st_mincwnd s' = st_mincwnd s /\
    (st_infl s' <> [] -> st_front s' = wrap32 (K + d + 1)) /\
    flags_le (st_infl s') (skipn (Z.to_nat d) (st_infl s)) (fun k => in_gaps gaps (Z.of_nat k + 1)).
Proof. exact sack_total. Qed.
Print Assumptions c02_genuine_sack_never_rejected.

(* non-vacuity, across the 2^32 wrap: ack point at 2^32-3, five chunks in flight (one of them gap-acked, the
   receiver holds exactly that one), cwnd about to collapse to one MTU: five rounds, the ack point runs
   4294967293 -> 4294967295 -> 0 -> 1 -> 2, nothing is left in flight and both streams' buffered amounts are 0 *)
Example c02_example_rounds_across_the_wrap :
  let K := 4294967293 in
  let s0 := mkS c_established (wrap32 K) (wrap32 (K + 1))
              [mkSC 1 1000 false false 0 false; mkSC 1 0 true false 0 false; mkSC 2 700 false false 1 false;
               mkSC 1 1000 false false 0 false; mkSC 1 300 false false 0 false]
              3000 8000 0 9000 0 false 0 false 1200 0 0 0 0 [(1, 2300); (2, 700)] in
  let st0 := mkLv s0 (fst (push (rpq_init (rpq_new 2000) (wrap32 K)) (wrap32 (K + 2)))) in
  map (fun n => match lv_rounds n (fun _ => true) (fun _ => 100000) 100000 st0 with
                | Some st => Some (st_cum (lv_s st), length (st_infl (lv_s st)))
                | None => None end) [0; 1; 2; 3; 4; 5]%nat =
    [Some (4294967293, 5%nat); Some (4294967295, 3%nat); Some (0, 2%nat); Some (1, 1%nat); Some (2, 0%nat); Some (2, 0%nat)] /\
  match lv_rounds 5 (fun _ => true) (fun _ => 100000) 100000 st0 with
  | Some st => st_nbytes (lv_s st) = 0 /\ st_buffered (lv_s st) = [(1, 0); (2, 0)] /\ cum (lv_q st) = 2
  | None => False end.
Proof. vm_compute. repeat split. Qed.

Example c02_example_t3_round :
  let s := mkS c_established 99 100 [mkSC 1 1000 false false 0 false; mkSC 1 0 true false 0 false; mkSC 2 700 false false 1 false]
               1700 8000 0 9000 0 false 0 false 1200 0 0 3 3000 [(1, 2000); (2, 2700)] in
  rtx_select (t3_step s) (fun _ => true) = [0] /\ st_cwnd (t3_step s) = 1200 /\
  map sc_rtx (st_infl (t3_step s)) = [true; false; true].
Proof. vm_compute. repeat split. Qed.
