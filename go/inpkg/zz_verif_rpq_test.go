// Verification harness (overlay; not part of pion/sctp): receivePayloadQueue differential.
// Writes a trace of operations and observed results; /verif/ocaml/cmp replays it on the
// extracted Coq model (coq/model/RPQ.v) and reports differences.
package sctp

import (
	"bufio"
	"fmt"
	"math/rand"
	"os"
	"sort"
	"strconv"
	"strings"
	"testing"
)

func rpqDump(w *bufio.Writer, q *receivePayloadQueue) {
	fmt.Fprintf(w, "dump %d %d %d %d %d", q.cumulativeTSN, q.tailTSN, q.chunkSize, q.maxTSNOffset, len(q.tsnBitmask))
	idx := []int{}
	for i, v := range q.tsnBitmask {
		if v != 0 {
			idx = append(idx, i)
		}
	}
	sort.Ints(idx)
	fmt.Fprintf(w, " %d", len(idx))
	for _, i := range idx {
		fmt.Fprintf(w, " %d %d", i, q.tsnBitmask[i])
	}
	fmt.Fprintf(w, " %d", len(q.dupTSN))
	for _, d := range q.dupTSN {
		fmt.Fprintf(w, " %d", d)
	}
	fmt.Fprintln(w)
}

// rpqRunCase runs one operation sequence given as text lines ("push 5", "pop 1", ...), used both
// by the random generator and by corpus replays.
func rpqApply(w *bufio.Writer, q *receivePayloadQueue, op string, arg uint32) {
	switch op {
	case "init":
		q.init(arg)
		fmt.Fprintf(w, "init %d\n", arg)
	case "push":
		r := q.push(arg)
		fmt.Fprintf(w, "push %d %d\n", arg, b2i(r))
	case "pop":
		r := q.pop(arg != 0)
		fmt.Fprintf(w, "pop %d %d\n", arg, b2i(r))
	case "adv":
		q.advanceCumulativeTSN(arg)
		fmt.Fprintf(w, "adv %d\n", arg)
	case "dups":
		d := q.popDuplicates()
		fmt.Fprintf(w, "dups %d", len(d))
		for _, x := range d {
			fmt.Fprintf(w, " %d", x)
		}
		fmt.Fprintln(w)
	case "gaps":
		g := q.getGapAckBlocks()
		fmt.Fprintf(w, "gaps %d", len(g))
		for _, b := range g {
			fmt.Fprintf(w, " %d %d", b.start, b.end)
		}
		fmt.Fprintln(w)
	case "has":
		fmt.Fprintf(w, "has %d %d\n", arg, b2i(q.hasChunk(arg)))
	case "can":
		fmt.Fprintf(w, "can %d %d\n", arg, b2i(q.canPush(arg)))
	case "last":
		tsn, ok := q.getLastTSNReceived()
		fmt.Fprintf(w, "last %d %d\n", b2i(ok), tsn)
	}
	rpqDump(w, q)
}

func TestVerifRPQ(t *testing.T) {
	seed := verifEnvInt("VERIF_SEED", 1)
	nCases := int(verifEnvInt("VERIF_N", 200))
	nOps := int(verifEnvInt("VERIF_OPS", 120))
	w, done := verifOut(t, "/tmp/verif_rpq.trace")
	defer done()

	// corpus replays first (op lists that exposed something before)
	if corpus := os.Getenv("VERIF_CORPUS"); corpus != "" {
		if data, err := os.ReadFile(corpus); err == nil {
			var q *receivePayloadQueue
			cid := 0
			for _, line := range strings.Split(string(data), "\n") {
				f := strings.Fields(line)
				if len(f) == 0 || strings.HasPrefix(f[0], "#") {
					continue
				}
				var arg uint64
				if len(f) > 1 {
					arg, _ = strconv.ParseUint(f[1], 10, 32)
				}
				if f[0] == "new" {
					cid++
					fmt.Fprintf(w, "case corpus%d\nnew %d\n", cid, arg)
					q = newReceivePayloadQueue(uint32(arg))
					rpqDump(w, q)
					continue
				}
				if q != nil {
					rpqApply(w, q, f[0], uint32(arg))
				}
			}
		}
	}

	rng := rand.New(rand.NewSource(seed))
	bufSizes := []uint32{0, 1024, 250000, 300000, 512 * 1024, 1024 * 1024, 2 * 1024 * 1024, 5000000, 8 * 1024 * 1024, 1 << 30}
	for c := 0; c < nCases; c++ {
		var maxOff uint32
		switch rng.Intn(4) {
		case 0:
			maxOff = getMaxTSNOffset(bufSizes[rng.Intn(len(bufSizes))])
		case 1:
			maxOff = uint32(64 * (1 + rng.Intn(12))) // small rings: wrap of the ring itself is exercised
		case 2:
			maxOff = uint32(1 + rng.Intn(2000))
		default:
			maxOff = getMaxTSNOffset(uint32(rng.Intn(12 * 1024 * 1024)))
		}
		q := newReceivePayloadQueue(maxOff)
		fmt.Fprintf(w, "case r%d\nnew %d\n", c, maxOff)
		rpqDump(w, q)
		var cum uint32
		switch rng.Intn(4) {
		case 0:
			cum = rng.Uint32()
		case 1:
			cum = uint32(rng.Intn(3))
		default: // within two windows of the 2^32 wrap
			cum = uint32(0) - uint32(rng.Intn(int(2*q.maxTSNOffset)+130))
		}
		rpqApply(w, q, "init", cum)
		// a per-case "focus" so that dense runs, medium and (rarely) whole-window patterns all appear
		span := int(q.maxTSNOffset)
		switch rng.Intn(8) {
		case 0:
		case 1, 2, 3:
			span = min(span, 2000)
		default:
			span = min(span, 300)
		}
		dense := rng.Intn(3) == 0
		for i := 0; i < nOps; i++ {
			r := rng.Intn(100)
			rel := func() uint32 {
				switch rng.Intn(10) {
				case 0:
					return q.cumulativeTSN - uint32(rng.Intn(5)) // at or below cum
				case 1:
					if rng.Intn(4) != 0 {
						return q.cumulativeTSN + 1 + uint32(rng.Intn(span))
					}
					return q.cumulativeTSN + q.maxTSNOffset + uint32(rng.Intn(3)) - 1 // window edge
				case 2:
					return rng.Uint32() // anywhere
				case 3:
					return q.cumulativeTSN + uint32(1<<31) + uint32(rng.Intn(3)) - 1 // antipode
				default:
					if dense {
						return q.cumulativeTSN + 1 + uint32(rng.Intn(140))
					}
					return q.cumulativeTSN + 1 + uint32(rng.Intn(span))
				}
			}
			switch {
			case r < 50:
				rpqApply(w, q, "push", rel())
			case r < 62:
				rpqApply(w, q, "pop", uint32(rng.Intn(2)))
			case r < 66:
				// pop run, as handleData does
				for q.pop(false) {
					fmt.Fprintf(w, "pop 0 1\n")
					rpqDump(w, q)
				}
				fmt.Fprintf(w, "pop 0 0\n")
				rpqDump(w, q)
			case r < 72:
				rpqApply(w, q, "adv", rel())
			case r < 82:
				rpqApply(w, q, "gaps", 0)
			case r < 86:
				rpqApply(w, q, "dups", 0)
			case r < 91:
				rpqApply(w, q, "has", rel())
			case r < 96:
				rpqApply(w, q, "can", rel())
			default:
				rpqApply(w, q, "last", 0)
			}
		}
		rpqApply(w, q, "gaps", 0)
	}

	// word-edge runs: a hole, then long runs of consecutive TSNs pushed in order, with the gap blocks taken after every
	// push whose TSN lies next to a 64-bit word edge of the bitmap (and after the last one).  Whole bitmap words become
	// all-ones; block ends fall on bit 63 / bit 0.  Seeded change C05-3 (fast path over full words) is only visible here.
	for c := 0; c < nCases/4+8; c++ {
		maxOff := uint32(64 * (4 + rng.Intn(40)))
		if rng.Intn(3) == 0 {
			maxOff = getMaxTSNOffset(bufSizes[rng.Intn(len(bufSizes))])
		}
		q := newReceivePayloadQueue(maxOff)
		fmt.Fprintf(w, "case w%d\nnew %d\n", c, maxOff)
		rpqDump(w, q)
		var cum uint32
		switch rng.Intn(3) {
		case 0:
			cum = uint32(0) - uint32(rng.Intn(400)) // run crosses the 2^32 wrap
		case 1:
			cum = uint32(rng.Intn(4)*64) + uint32(rng.Intn(3)) - 1 // next to a word edge
		default:
			cum = rng.Uint32()
		}
		rpqApply(w, q, "init", cum)
		pos := cum + 1 + uint32(1+rng.Intn(3)) // leave 1..3 TSNs missing
		limit := cum + q.maxTSNOffset
		for seg := 0; seg < 1+rng.Intn(3) && sna32LT(pos, limit); seg++ {
			runLen := 60 + rng.Intn(150)
			for i := 0; i < runLen && sna32LTE(pos, limit); i++ {
				rpqApply(w, q, "push", pos)
				if m := pos % 64; m >= 62 || m <= 1 || i == runLen-1 {
					rpqApply(w, q, "gaps", 0)
				}
				pos++
			}
			pos += uint32(1 + rng.Intn(70)) // next hole
		}
		rpqApply(w, q, "gaps", 0)
		// fill the first hole: the cumulative point runs over the full words
		for x := cum + 1; sna32LT(x, cum+5); x++ {
			rpqApply(w, q, "push", x)
		}
		for q.pop(false) {
			fmt.Fprintf(w, "pop 0 1\n")
			rpqDump(w, q)
		}
		fmt.Fprintf(w, "pop 0 0\n")
		rpqDump(w, q)
		rpqApply(w, q, "gaps", 0)
	}
}
