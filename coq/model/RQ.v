(* Executable model of reassembly_queue.go (reassemblyQueue, chunkSet, chunkSetMID) and of the
   association-level receive-window pieces around it.  No proofs in this file.

   Representation
   - a chunk carries exactly the fields the queue reads; userData is a list of byte values;
     [head] is always nil on the receive path, so isFragmented() = !B || !E;
   - chunkSet and chunkSetMID are one record [rqset] (key = ssn resp. mid);
   - orderedMIDMap always holds exactly the sets of the orderedMID slice (same pointers): the model
     keeps the slice only and looks sets up by mid; the harness prints the Go map next to the view
     derived from the slice, so a divergence shows up as a mismatch;
   - unorderedMIDMap (Go map) is an association list with unique keys (dumped sorted by key);
   - sort.Slice: for n <= 12 elements Go runs insertionSortLessFunc, which is transcribed here
     ([rq_isort]); for n > 12 (pdqsort) the result is the same whenever the comparator is a strict
     total order on the keys present (distinct keys within half the number space) - the generator of
     the differential keeps larger slices inside that hypothesis, smaller ones are arbitrary;
   - sort.Search in insertChunkSetByMID is transcribed as the same binary search;
   - uint16/uint32/uint64 arithmetic wraps; int(uint64) is the two's complement reinterpretation;
   - slice reads that can panic are checked ([RqPanic]). *)
From Coq Require Import ZArith Bool List.
From Sctp Require Import Gen.
Import ListNotations.
Open Scope Z_scope.

Record rqchunk := mkRqChunk {
  rqc_tsn : Z; rqc_si : Z; rqc_ssn : Z; rqc_mid : Z; rqc_fsn : Z; rqc_ppi : Z;
  rqc_unord : bool; rqc_beg : bool; rqc_end : bool; rqc_idata : bool;
  rqc_data : list Z
}.

Record rqset := mkRqSet { rqs_key : Z; rqs_ppi : Z; rqs_chunks : list rqchunk }.

Record rq := mkRq {
  rq_si : Z;
  rq_nextSSN : Z;
  rq_nextMID : Z;
  rq_ordered : list rqset;        (* ordered *)
  rq_unordered : list rqset;      (* unordered (complete sets) *)
  rq_uchunks : list rqchunk;      (* unorderedChunks *)
  rq_orderedMID : list rqset;     (* orderedMID (= values of orderedMIDMap) *)
  rq_unorderedMID : list rqset;   (* unorderedMID (complete sets) *)
  rq_umidmap : list rqset;        (* unorderedMIDMap, sorted by key *)
  rq_inter : bool;                (* useInterleaving *)
  rq_nbytes : Z;                  (* nBytes (uint64) *)
  rq_max : Z                      (* maxEntries *)
}.

Definition rq_new (si maxEntries : Z) : rq :=
  mkRq si 0 0 [] [] [] [] [] [] false 0 maxEntries.

Definition rqc_len (c : rqchunk) : Z := Z.of_nat (length (rqc_data c)).
Definition rqc_fragmented (c : rqchunk) : bool := negb (rqc_beg c) || negb (rqc_end c).

(* ---------- sort.Slice for n <= 12: insertionSortLessFunc ----------
   for i := 1; i < n; i++ { for j := i; j > 0 && less(j, j-1); j-- { swap(j, j-1) } }
   The processed prefix is kept reversed (its last element first). *)
Section Sort.
  Context {A : Type}.
  Variable lt : A -> A -> bool.
  Fixpoint rq_ins_rev (x : A) (rl : list A) : list A :=
    match rl with
    | [] => [x]
    | y :: t => if lt x y then y :: rq_ins_rev x t else x :: rl
    end.
  Definition rq_isort (l : list A) : list A :=
    rev (fold_left (fun acc x => rq_ins_rev x acc) l []).
End Sort.

Definition rq_tsn_lt (a b : rqchunk) : bool := sna32LT (rqc_tsn a) (rqc_tsn b).
Definition rq_fsn_lt (a b : rqchunk) : bool := sna32LT (rqc_fsn a) (rqc_fsn b).
Definition rq_ssn_lt (a b : rqset) : bool := sna16LT (rqs_key a) (rqs_key b).

(* ---------- chunkSet.isComplete / chunkSetMID.isComplete ---------- *)
Fixpoint rq_tsn_consec (lastT : Z) (l : list rqchunk) : bool :=
  match l with
  | [] => true
  | c :: t => (rqc_tsn c =? wrap32 (lastT + 1)) && rq_tsn_consec (rqc_tsn c) t
  end.

Fixpoint rq_fsn_consec (lastF : Z) (l : list rqchunk) : bool :=
  match l with
  | [] => true
  | c :: t => (rqc_fsn c =? wrap32 (lastF + 1)) && rq_fsn_consec (rqc_fsn c) t
  end.

Definition rqs_complete (cs : list rqchunk) : bool :=
  match cs with
  | [] => false
  | c0 :: t => rqc_beg c0 && rqc_end (last cs c0) && rq_tsn_consec (rqc_tsn c0) t
  end.

Definition rqm_complete (cs : list rqchunk) : bool :=
  match cs with
  | [] => false
  | c0 :: t => rqc_beg c0 && rqc_end (last cs c0) && (rqc_fsn c0 =? 0) && rq_fsn_consec (rqc_fsn c0) t
  end.

Definition rq_has_tsn (t : Z) (cs : list rqchunk) : bool := existsb (fun c => rqc_tsn c =? t) cs.

(* ---------- entry counts and limits ---------- *)
Definition rq_nchunks (l : list rqset) : Z :=
  fold_left (fun n s => n + Z.of_nat (length (rqs_chunks s))) l 0.
Definition rq_ordered_count (q : rq) : Z := rq_nchunks (rq_ordered q).
Definition rq_unordered_count (q : rq) : Z :=
  fold_left (fun n s => n + Z.of_nat (length (rqs_chunks s))) (rq_unordered q) (Z.of_nat (length (rq_uchunks q))).
Definition rq_has_limit (q : rq) : bool := rq_max q >? 0.
Definition rq_limit_reached (q : rq) (n : Z) : bool := isReassemblyQueueLimitReached (rq_max q) n.

Definition rq_add_bytes (nb n : Z) : Z := wrap64 (nb + n).

(* subtractNumBytes: if int(cur) >= n { cur += -uint64(n) } else { cur = 0 } *)
Definition rq_int64 (x : Z) : Z := if x <? 9223372036854775808 then x else x - 18446744073709551616.
Definition rq_sub (nb n : Z) : Z := if rq_int64 nb >=? n then wrap64 (nb - n) else 0.
Definition rq_sub_chunks (nb : Z) (cs : list rqchunk) : Z :=
  fold_left (fun b c => rq_sub b (rqc_len c)) cs nb.

Inductive rq_res := RqOk (complete : bool) | RqErrLimit | RqErrMIDLimit | RqPanic.

(* ---------- findCompleteUnorderedChunkSet ----------
   The Go loop keeps (startIdx, nChunks, lastTSN) over the slice; here the same scan carries the
   elements themselves: [pre] = everything before the current candidate run (reversed), [cur] = the
   candidate run started at the last B chunk (reversed; [] when startIdx < 0; its head carries
   lastTSN).  Result: (chunks before the run, the run, chunks after it). *)
Fixpoint rq_find_scan (l pre cur : list rqchunk) : option (list rqchunk * list rqchunk * list rqchunk) :=
  match l with
  | [] => None
  | c :: t =>
      if rqc_beg c then
        if rqc_end c then Some (rev (cur ++ pre), [c], t)
        else rq_find_scan t (cur ++ pre) [c]
      else
        match cur with
        | [] => rq_find_scan t (c :: pre) []
        | d :: _ =>
            if negb (rqc_tsn c =? wrap32 (rqc_tsn d + 1)) then rq_find_scan t (c :: cur ++ pre) []
            else if rqc_end c then Some (rev pre, rev (c :: cur), t)
            else rq_find_scan t pre (c :: cur)
        end
  end.

(* result: None = nothing found; Some (Some (set, rest)); Some None = chunks[0] out of range *)
Definition rq_find_complete (uc : list rqchunk) : option (option (rqset * list rqchunk)) :=
  match rq_find_scan uc [] [] with
  | None => None
  | Some (before, chunks, after) =>
      match chunks with
      | [] => Some None
      | c0 :: _ => Some (Some (mkRqSet 0 (rqc_ppi c0) chunks, before ++ after))
      end
  end.

(* ---------- helpers on lists of sets ---------- *)
(* loop over r.ordered looking for the first set with "set.ssn == ssn && set.chunks[0].isFragmented()";
   the list is returned split around that set.  None = chunks[0] out of range (panic). *)
Fixpoint rq_split_frag (ssn : Z) (l : list rqset) : option (option (list rqset * rqset * list rqset)) :=
  match l with
  | [] => Some None
  | s :: t =>
      let continue :=
        match rq_split_frag ssn t with
        | None => None
        | Some None => Some None
        | Some (Some (b, x, a)) => Some (Some (s :: b, x, a))
        end in
      if rqs_key s =? ssn then
        match rqs_chunks s with
        | [] => None
        | c0 :: _ => if rqc_fragmented c0 then Some (Some ([], s, t)) else continue
        end
      else continue
  end.

(* first set with the given key (the orderedMIDMap lookup, see the header) *)
Fixpoint rq_split_key (k : Z) (l : list rqset) : option (list rqset * rqset * list rqset) :=
  match l with
  | [] => None
  | s :: t =>
      if rqs_key s =? k then Some ([], s, t)
      else match rq_split_key k t with
           | None => None
           | Some (b, x, a) => Some (s :: b, x, a)
           end
  end.

Definition rq_set_q (q : rq) (ordered unordered : list rqset) (uchunks : list rqchunk)
  (omid umid umap : list rqset) (nb : Z) : rq :=
  mkRq (rq_si q) (rq_nextSSN q) (rq_nextMID q) ordered unordered uchunks omid umid umap
       (rq_inter q) nb (rq_max q).

(* ---------- pushWithError, DATA ---------- *)
Definition rq_push_unordered (q : rq) (c : rqchunk) : rq * rq_res :=
  if rq_has_limit q && rq_limit_reached q (rq_unordered_count q) then (q, RqErrLimit)
  else
    let uc := rq_isort rq_tsn_lt (rq_uchunks q ++ [c]) in
    let nb := rq_add_bytes (rq_nbytes q) (rqc_len c) in
    match rq_find_complete uc with
    | None =>
        (rq_set_q q (rq_ordered q) (rq_unordered q) uc (rq_orderedMID q) (rq_unorderedMID q) (rq_umidmap q) nb,
         RqOk false)
    | Some None =>
        (rq_set_q q (rq_ordered q) (rq_unordered q) uc (rq_orderedMID q) (rq_unorderedMID q) (rq_umidmap q) nb,
         RqPanic)
    | Some (Some (cset, rest)) =>
        (rq_set_q q (rq_ordered q) (rq_unordered q ++ [cset]) rest (rq_orderedMID q) (rq_unorderedMID q)
                  (rq_umidmap q) nb,
         RqOk true)
    end.

Definition rq_push_chunk_to_set (c : rqchunk) (s : rqset) : rqset :=
  mkRqSet (rqs_key s) (rqs_ppi s) (rq_isort rq_tsn_lt (rqs_chunks s ++ [c])).

Definition rq_push_ordered (q : rq) (c : rqchunk) : rq * rq_res :=
  if sna16LT (rqc_ssn c) (rq_nextSSN q) then (q, RqOk false)
  else
    match (if rqc_fragmented c then rq_split_frag (rqc_ssn c) (rq_ordered q) else Some None) with
    | None => (q, RqPanic)
    | Some found =>
        let dup := match found with
                   | Some (_, s, _) => rq_has_tsn (rqc_tsn c) (rqs_chunks s)
                   | None => false
                   end in
        if dup then (q, RqOk false)
        else if rq_has_limit q && rq_limit_reached q (rq_ordered_count q) then (q, RqErrLimit)
        else
          let nb := rq_add_bytes (rq_nbytes q) (rqc_len c) in
          match found with
          | Some (before, s, after) =>
              let s' := rq_push_chunk_to_set c s in
              (rq_set_q q (before ++ s' :: after) (rq_unordered q) (rq_uchunks q) (rq_orderedMID q)
                        (rq_unorderedMID q) (rq_umidmap q) nb, RqOk (rqs_complete (rqs_chunks s')))
          | None =>
              (* new set appended, r.ordered sorted by SSN, then the chunk is pushed into the set *)
              let cset := mkRqSet (rqc_ssn c) (rqc_ppi c) [c] in
              let ordered := rq_isort rq_ssn_lt (rq_ordered q ++ [cset]) in
              (rq_set_q q ordered (rq_unordered q) (rq_uchunks q) (rq_orderedMID q) (rq_unorderedMID q)
                        (rq_umidmap q) nb, RqOk (rqs_complete [c]))
          end
    end.

(* ---------- I-DATA ---------- *)
(* chunkSetMID.pushAndCheck: (set', complete, accepted) *)
Definition rqm_push_and_check (s : rqset) (c : rqchunk) : rqset * bool * bool :=
  if rqm_complete (rqs_chunks s) then (s, false, false)
  else if existsb (fun x => rqc_fsn x =? rqc_fsn c) (rqs_chunks s) then (s, false, false)
  else
    let cs := rq_isort rq_fsn_lt (rqs_chunks s ++ [c]) in
    let s' := mkRqSet (rqs_key s) (if rqc_beg c then rqc_ppi c else rqs_ppi s) cs in
    (s', rqm_complete cs, true).

(* sort.Search(n, f): smallest index in [0,n) for which f is true, by the same bisection *)
Fixpoint rq_bsearch (fuel : nat) (f : nat -> bool) (i j : nat) : nat :=
  match fuel with
  | O => i
  | S fu =>
      if Nat.ltb i j then
        let h := Nat.div (i + j) 2 in
        if negb (f h) then rq_bsearch fu f (S h) j else rq_bsearch fu f i h
      else i
  end.

Definition rq_insert_by_mid (a : list rqset) (cset : rqset) : list rqset :=
  let f := fun i => match nth_error a i with
                    | Some s => negb (sna32LT (rqs_key s) (rqs_key cset))
                    | None => true
                    end in
  let p := rq_bsearch (S (length a)) f 0%nat (length a) in
  firstn p a ++ cset :: skipn p a.

Definition rq_push_ordered_idata (q : rq) (c : rqchunk) : rq * rq_res :=
  if sna32LT (rqc_mid c) (rq_nextMID q) then (q, RqOk false)
  else
    match rq_split_key (rqc_mid c) (rq_orderedMID q) with
    | Some (before, s, after) =>
        let '(s', complete, accepted) := rqm_push_and_check s c in
        if accepted then
          (rq_set_q q (rq_ordered q) (rq_unordered q) (rq_uchunks q)
                    (before ++ s' :: after) (rq_unorderedMID q) (rq_umidmap q)
                    (rq_add_bytes (rq_nbytes q) (rqc_len c)), RqOk complete)
        else (q, RqOk false)
    | None =>
        if rq_limit_reached q (Z.of_nat (length (rq_orderedMID q))) then (q, RqErrMIDLimit)
        else
          let s0 := mkRqSet (rqc_mid c) (rqc_ppi c) [] in
          let '(s', complete, accepted) := rqm_push_and_check s0 c in
          let omid := rq_insert_by_mid (rq_orderedMID q) s' in
          (rq_set_q q (rq_ordered q) (rq_unordered q) (rq_uchunks q) omid (rq_unorderedMID q) (rq_umidmap q)
                    (if accepted then rq_add_bytes (rq_nbytes q) (rqc_len c) else rq_nbytes q),
           RqOk (if accepted then complete else false))
    end.

(* unorderedMIDMap as an association list: put replaces the entry of the key or appends, del removes
   the entry of the key (keys are unique by construction; the dump sorts by key) *)
Fixpoint rq_map_put (s : rqset) (m : list rqset) : list rqset :=
  match m with
  | [] => [s]
  | x :: t => if rqs_key x =? rqs_key s then s :: t else x :: rq_map_put s t
  end.
Definition rq_map_get (k : Z) (m : list rqset) : option rqset := find (fun s => rqs_key s =? k) m.
Fixpoint rq_map_del (k : Z) (m : list rqset) : list rqset :=
  match m with
  | [] => []
  | x :: t => if rqs_key x =? k then t else x :: rq_map_del k t
  end.

Definition rq_push_unordered_idata (q : rq) (c : rqchunk) : rq * rq_res :=
  if existsb (fun s => rqs_key s =? rqc_mid c) (rq_unorderedMID q) then (q, RqOk false)
  else
    let entry := match rq_map_get (rqc_mid c) (rq_umidmap q) with
                 | Some s => Some s
                 | None =>
                     if rq_limit_reached q (Z.of_nat (length (rq_umidmap q)) + Z.of_nat (length (rq_unorderedMID q)))
                     then None else Some (mkRqSet (rqc_mid c) (rqc_ppi c) [])
                 end in
    match entry with
    | None => (q, RqErrMIDLimit)
    | Some s =>
        let '(s', complete, accepted) := rqm_push_and_check s c in
        if negb accepted then
          (rq_set_q q (rq_ordered q) (rq_unordered q) (rq_uchunks q) (rq_orderedMID q) (rq_unorderedMID q)
                    (rq_map_put s' (rq_umidmap q)) (rq_nbytes q), RqOk false)
        else
          let nb := rq_add_bytes (rq_nbytes q) (rqc_len c) in
          if complete then
            (rq_set_q q (rq_ordered q) (rq_unordered q) (rq_uchunks q) (rq_orderedMID q)
                      (rq_unorderedMID q ++ [s']) (rq_map_del (rqc_mid c) (rq_umidmap q)) nb, RqOk true)
          else
            (rq_set_q q (rq_ordered q) (rq_unordered q) (rq_uchunks q) (rq_orderedMID q) (rq_unorderedMID q)
                      (rq_map_put s' (rq_umidmap q)) nb, RqOk false)
    end.

Definition rq_set_inter (q : rq) : rq :=
  mkRq (rq_si q) (rq_nextSSN q) (rq_nextMID q) (rq_ordered q) (rq_unordered q) (rq_uchunks q)
       (rq_orderedMID q) (rq_unorderedMID q) (rq_umidmap q) true (rq_nbytes q) (rq_max q).

Definition rq_push (q : rq) (c : rqchunk) : rq * rq_res :=
  if rqc_idata c then
    let q1 := rq_set_inter q in
    if negb (rqc_si c =? rq_si q1) then (q1, RqOk false)
    else if rqc_unord c then rq_push_unordered_idata q1 c
    else rq_push_ordered_idata q1 c
  else if negb (rqc_si c =? rq_si q) then (q, RqOk false)
  else if rqc_unord c then rq_push_unordered q c
  else rq_push_ordered q c.

(* ---------- isReadable ---------- *)
Definition rq_is_readable (q : rq) : bool :=
  if rq_inter q then
    match rq_unorderedMID q with
    | _ :: _ => true
    | [] => match rq_orderedMID q with
            | s :: _ => rqm_complete (rqs_chunks s) && sna32LTE (rqs_key s) (rq_nextMID q)
            | [] => false
            end
    end
  else
    match rq_unordered q with
    | _ :: _ => true
    | [] => match rq_ordered q with
            | s :: _ => rqs_complete (rqs_chunks s) && sna16LTE (rqs_key s) (rq_nextSSN q)
            | [] => false
            end
    end.

(* ---------- read ---------- *)
Inductive rq_rd :=
| RdOk (n ppi : Z) (delivered : list rqchunk)
| RdShort (n : Z)
| RdTryAgain.

(* the copy loop: (nTotal, short) *)
Fixpoint rq_copy (buflen nTotal : Z) (cs : list rqchunk) (short : bool) : Z * bool :=
  match cs with
  | [] => (nTotal, short)
  | c :: t => rq_copy buflen (nTotal + rqc_len c) t (short || (buflen - nTotal <? rqc_len c))
  end.

Definition rq_set_next (q : rq) (nssn nmid : Z) (ordered unordered omid umid : list rqset) (nb : Z) : rq :=
  mkRq (rq_si q) nssn nmid ordered unordered (rq_uchunks q) omid umid (rq_umidmap q) (rq_inter q) nb (rq_max q).

Definition rq_read (q : rq) (buflen : Z) : rq * rq_rd :=
  if rq_inter q then
    match rq_unorderedMID q with
    | s :: rest =>
        let '(n, short) := rq_copy buflen 0 (rqs_chunks s) false in
        if short then (q, RdShort n)
        else (rq_set_next q (rq_nextSSN q) (rq_nextMID q) (rq_ordered q) (rq_unordered q) (rq_orderedMID q) rest
                          (rq_sub (rq_nbytes q) n), RdOk n (rqs_ppi s) (rqs_chunks s))
    | [] =>
        match rq_orderedMID q with
        | s :: rest =>
            if negb (rqm_complete (rqs_chunks s)) then (q, RdTryAgain)
            else if sna32GT (rqs_key s) (rq_nextMID q) then (q, RdTryAgain)
            else
              let '(n, short) := rq_copy buflen 0 (rqs_chunks s) false in
              if short then (q, RdShort n)
              else (rq_set_next q (rq_nextSSN q)
                                (if rqs_key s =? rq_nextMID q then wrap32 (rq_nextMID q + 1) else rq_nextMID q)
                                (rq_ordered q) (rq_unordered q) rest (rq_unorderedMID q)
                                (rq_sub (rq_nbytes q) n), RdOk n (rqs_ppi s) (rqs_chunks s))
        | [] => (q, RdTryAgain)
        end
    end
  else
    match rq_unordered q with
    | s :: rest =>
        let '(n, short) := rq_copy buflen 0 (rqs_chunks s) false in
        if short then (q, RdShort n)
        else (rq_set_next q (rq_nextSSN q) (rq_nextMID q) (rq_ordered q) rest (rq_orderedMID q) (rq_unorderedMID q)
                          (rq_sub (rq_nbytes q) n), RdOk n (rqs_ppi s) (rqs_chunks s))
    | [] =>
        match rq_ordered q with
        | s :: rest =>
            if negb (rqs_complete (rqs_chunks s)) then (q, RdTryAgain)
            else if sna16GT (rqs_key s) (rq_nextSSN q) then (q, RdTryAgain)
            else
              let '(n, short) := rq_copy buflen 0 (rqs_chunks s) false in
              if short then (q, RdShort n)
              else (rq_set_next q (if rqs_key s =? rq_nextSSN q then wrap16 (rq_nextSSN q + 1) else rq_nextSSN q)
                                (rq_nextMID q) rest (rq_unordered q) (rq_orderedMID q) (rq_unorderedMID q)
                                (rq_sub (rq_nbytes q) n), RdOk n (rqs_ppi s) (rqs_chunks s))
        | [] => (q, RdTryAgain)
        end
    end.

(* ---------- forward-TSN operations ---------- *)
(* sets dropped by forwardTSNForOrdered / forwardTSNForOrderedMID *)
Definition rq_fwdo_drop (lastSSN : Z) (s : rqset) : bool :=
  sna16LTE (rqs_key s) lastSSN && negb (rqs_complete (rqs_chunks s)).
Definition rq_fwdom_drop (lastMID : Z) (s : rqset) : bool :=
  sna32LTE (rqs_key s) lastMID && negb (rqm_complete (rqs_chunks s)).

Definition rq_set_chunks (l : list rqset) : list rqchunk := concat (map rqs_chunks l).

Definition rq_fwd_ordered (q : rq) (lastSSN : Z) : rq :=
  let dropped := filter (rq_fwdo_drop lastSSN) (rq_ordered q) in
  let keep := filter (fun s => negb (rq_fwdo_drop lastSSN s)) (rq_ordered q) in
  rq_set_next q (if sna16LTE (rq_nextSSN q) lastSSN then wrap16 (lastSSN + 1) else rq_nextSSN q) (rq_nextMID q)
              keep (rq_unordered q) (rq_orderedMID q) (rq_unorderedMID q)
              (rq_sub_chunks (rq_nbytes q) (rq_set_chunks dropped)).

(* maximal prefix of unorderedChunks with !sna32GT(tsn, newCumulativeTSN) *)
Fixpoint rq_fwdu_prefix (newCum : Z) (l : list rqchunk) : list rqchunk * list rqchunk :=
  match l with
  | [] => ([], [])
  | c :: t => if sna32GT (rqc_tsn c) newCum then ([], l)
              else let '(a, b) := rq_fwdu_prefix newCum t in (c :: a, b)
  end.

Definition rq_fwd_unordered (q : rq) (newCum : Z) : rq :=
  let '(dropped, rest) := rq_fwdu_prefix newCum (rq_uchunks q) in
  mkRq (rq_si q) (rq_nextSSN q) (rq_nextMID q) (rq_ordered q) (rq_unordered q) rest
       (rq_orderedMID q) (rq_unorderedMID q) (rq_umidmap q) (rq_inter q)
       (rq_sub_chunks (rq_nbytes q) dropped) (rq_max q).

Definition rq_fwd_ordered_mid (q : rq) (lastMID : Z) : rq :=
  let dropped := filter (rq_fwdom_drop lastMID) (rq_orderedMID q) in
  let keep := filter (fun s => negb (rq_fwdom_drop lastMID s)) (rq_orderedMID q) in
  rq_set_next q (rq_nextSSN q) (if sna32LTE (rq_nextMID q) lastMID then wrap32 (lastMID + 1) else rq_nextMID q)
              (rq_ordered q) (rq_unordered q) keep (rq_unorderedMID q)
              (rq_sub_chunks (rq_nbytes q) (rq_set_chunks dropped)).

Definition rq_fwd_unordered_mid (q : rq) (lastMID : Z) : rq :=
  let dropped := filter (fun s => sna32LTE (rqs_key s) lastMID) (rq_umidmap q) in
  let keep := filter (fun s => negb (sna32LTE (rqs_key s) lastMID)) (rq_umidmap q) in
  mkRq (rq_si q) (rq_nextSSN q) (rq_nextMID q) (rq_ordered q) (rq_unordered q) (rq_uchunks q)
       (rq_orderedMID q) (rq_unorderedMID q) keep (rq_inter q)
       (rq_sub_chunks (rq_nbytes q) (rq_set_chunks dropped)) (rq_max q).

(* ---------- operations as data, for histories ---------- *)
Inductive rq_op :=
| RqPush (c : rqchunk)
| RqRead (buflen : Z)
| RqFwdO (ssn : Z) | RqFwdU (tsn : Z) | RqFwdOM (mid : Z) | RqFwdUM (mid : Z).

Definition rq_step (q : rq) (o : rq_op) : rq :=
  match o with
  | RqPush c => fst (rq_push q c)
  | RqRead b => fst (rq_read q b)
  | RqFwdO s => rq_fwd_ordered q s
  | RqFwdU t => rq_fwd_unordered q t
  | RqFwdOM m => rq_fwd_ordered_mid q m
  | RqFwdUM m => rq_fwd_unordered_mid q m
  end.

Definition rq_run (q : rq) (ops : list rq_op) : rq := fold_left rq_step ops q.

(* everything the queue holds *)
Definition rq_all_chunks (q : rq) : list rqchunk :=
  rq_set_chunks (rq_ordered q) ++ rq_set_chunks (rq_unordered q) ++ rq_uchunks q ++
  rq_set_chunks (rq_orderedMID q) ++ rq_set_chunks (rq_unorderedMID q) ++ rq_set_chunks (rq_umidmap q).

Definition rq_sum_len (cs : list rqchunk) : Z := fold_right (fun c n => rqc_len c + n) 0 cs.
Definition rq_held_bytes (q : rq) : Z := rq_sum_len (rq_all_chunks q).

(* ---------- association level (association.go) ---------- *)
(* getMyReceiverWindowCredit: bytesQueued is a uint32 accumulated over the streams of the map *)
Definition rq_bytes_queued (counters : list Z) : Z :=
  fold_left (fun acc n => wrap32 (acc + wrap32 n)) counters 0.
Definition rq_a_rwnd (buf : Z) (counters : list Z) : Z :=
  let bq := rq_bytes_queued counters in
  if bq >=? buf then 0 else wrap32 (buf - bq).

(* getMyReceiverWindowCredit since 243f816: the streams of the map, then the detached streams (reset by
   the peer while they still held unread data) that still hold data.  The call also drops the emptied
   entries from a.detachedStreams; an emptied detached stream can never receive data again (the
   association no longer routes to it), so that pruning is unobservable and the model keeps the list. *)
Definition rq_credit (buf : Z) (mapq detq : list rq) : Z :=
  rq_a_rwnd buf (map rq_nbytes mapq ++ map rq_nbytes (filter (fun q => rq_nbytes q >? 0) detq)).

(* resetStreamsIfAny, for the stream it deletes from the map: kept as detached if it still holds bytes *)
Definition rq_detach (q : rq) (detq : list rq) : list rq :=
  if rq_nbytes q >? 0 then detq ++ [q] else detq.

(* acceptPayloadData after stream lookup: true = the chunk is handed to the stream
   (payloadQueue.push + stream.handleData), false = dropped because the buffer is full *)
Definition rq_admit (credit : Z) (lastTSN : option Z) (tsn : Z) : bool :=
  if credit >? 0 then true
  else match lastTSN with
       | None => false
       | Some l => sna32LT tsn l
       end.
