(* Executable model of the outgoing-stream-reset protocol of pion/sctp for ONE stream identifier
   [sid] at one endpoint (both roles: the side that closes, and the side that is told).

   Go code modelled:
     stream.go       Close, WriteSCTP/packetize (state gate, SSN/MID counters), ReadSCTP (loop),
                     onInboundStreamReset, resetOutgoingStreamSequenceNumbers
     association.go  sendResetRequest (zero-length marker chunk pushed to the pending queue),
                     popPendingDataChunksToSend (marker popped, ids collected in sisToReset),
                     gatherOutboundDataAndReconfigPackets / gatherOutboundReconfigPackets (request with
                     senderLastTSN = myNextTSN-1 stored in a.reconfigs, retransmission of stored requests),
                     handleReconfigParam (request stored in a.reconfigRequests, limit maxReconfigRequests;
                     response: InProgress / final), resetStreamsIfAny, resetOutgoingStreamSequenceNumbers,
                     handleData -> acceptPayloadData -> getOrCreateStream/createStream (fresh object) ->
                     handlePeerLastTSNAndAcknowledgement (retry of deferred resets after every pop),
                     handleForwardTSN (cumulative point jumps, NO retry unless a pop follows),
                     onRetransmissionTimeout(timerReconfig), OpenStream
     pending_queue.go  order in which the chunks of one stream leave the queue: message policy
                     (unordered sub-queue first unless an ordered message is being popped) and the
                     per-stream FIFO of the round-robin / WFQ schedulers
     receive_payload_queue.go  canPush / push / pop on the projection "set of TSNs held above cum"
     reassembly_queue.go       ordered, unfragmented DATA only: nextSSN gate at push, sorted insert, read

   No proofs in this file.  TSN/RSN are Z with the uint32 wrap written out (Gen.wrap32 and the generated serial comparisons). *)
From Coq Require Import ZArith Bool List.
From Sctp Require Import Gen.
Import ListNotations.
Open Scope Z_scope.

(* StreamState (stream.go, iota): the harness checks these three numbers against the Go constants *)
Definition rs_st_open : Z := 0.
Definition rs_st_closing : Z := 1.
Definition rs_st_closed : Z := 2.

(* a chunk of the stream waiting in the pending queue.  rs_pc_id is a label chosen by the caller
   (write / close event); no step function looks at it. *)
Record rs_pchunk := mkRsPc {
  rs_pc_id : Z;
  rs_pc_len : Z;        (* len(userData); 0 = end-of-stream marker of sendResetRequest *)
  rs_pc_unord : bool;
  rs_pc_beg : bool;
  rs_pc_end : bool
}.

Definition rs_marker (id : Z) : rs_pchunk := mkRsPc id 0 false true true.
Definition rs_is_marker (c : rs_pchunk) : bool := rs_pc_len c =? 0.

(* outgoing reset request parameter / entry of a.reconfigs and a.reconfigRequests *)
Record rs_req := mkRsReq { rs_q_rsn : Z; rs_q_last : Z; rs_q_ids : list Z }.

(* the Stream object most recently created under the identifier *)
Record rs_strm := mkRsStrm {
  rs_gen : Z;           (* how many objects have been created under the id at this endpoint *)
  rs_state : Z;         (* Stream.state *)
  rs_eof : bool;        (* readErr = io.EOF *)
  rs_ssn : Z;           (* sequenceNumber (uint16) *)
  rs_omid : Z;          (* nextOrderedMID (uint32) *)
  rs_umid : Z;          (* nextUnorderedMID (uint32) *)
  rs_rnext : Z;         (* reassemblyQueue.nextSSN *)
  rs_rbuf : list Z      (* SSNs of the complete ordered DATA messages held, in queue order *)
}.

Record rs_ep := mkRsEp {
  rs_estab : bool;              (* association state = established *)
  rs_present : bool;            (* sid is a key of a.streams (then it maps to rs_obj) *)
  rs_obj : rs_strm;
  rs_fifo : bool;               (* pending queue: true = per-stream FIFO (stream schedulers), false = message policy *)
  rs_pend_u : list rs_pchunk;   (* message policy: this stream's entries of the unordered sub-queue *)
  rs_pend_o : list rs_pchunk;   (* ordered sub-queue entries / per-stream queue entries, marker included *)
  rs_sel_o : bool;              (* message policy: an ordered message of this stream is selected (mid-message) *)
  rs_next_tsn : Z;              (* myNextTSN *)
  rs_next_rsn : Z;              (* myNextRSN *)
  rs_reconfigs : list rs_req;   (* a.reconfigs, sorted by rsn *)
  rs_will_rtx : bool;           (* willRetransmitReconfig *)
  rs_cum : Z;                   (* peerLastTSN = payloadQueue.cumulativeTSN *)
  rs_maxoff : Z;                (* payloadQueue.maxTSNOffset *)
  rs_rcvd : list Z;             (* TSNs held by the payload queue (above cum) *)
  rs_reqs : list rs_req;        (* a.reconfigRequests, sorted by rsn *)
  rs_done : option Z            (* a.performedResetRSN[sid]: request sequence number of the newest outgoing reset
                                   request of the peer performed for this identifier (None = no entry) *)
}.

Definition rs_fresh_strm (gen : Z) : rs_strm := mkRsStrm gen rs_st_open false 0 0 0 0 [].

(* ---- field updates *)
Definition rs_set_obj (e : rs_ep) (present : bool) (o : rs_strm) : rs_ep :=
  mkRsEp (rs_estab e) present o (rs_fifo e) (rs_pend_u e) (rs_pend_o e) (rs_sel_o e) (rs_next_tsn e) (rs_next_rsn e)
         (rs_reconfigs e) (rs_will_rtx e) (rs_cum e) (rs_maxoff e) (rs_rcvd e) (rs_reqs e) (rs_done e).
Definition rs_set_pend (e : rs_ep) (u o : list rs_pchunk) (sel : bool) : rs_ep :=
  mkRsEp (rs_estab e) (rs_present e) (rs_obj e) (rs_fifo e) u o sel (rs_next_tsn e) (rs_next_rsn e)
         (rs_reconfigs e) (rs_will_rtx e) (rs_cum e) (rs_maxoff e) (rs_rcvd e) (rs_reqs e) (rs_done e).
Definition rs_set_snd (e : rs_ep) (tsn rsn : Z) (rc : list rs_req) (w : bool) : rs_ep :=
  mkRsEp (rs_estab e) (rs_present e) (rs_obj e) (rs_fifo e) (rs_pend_u e) (rs_pend_o e) (rs_sel_o e) tsn rsn
         rc w (rs_cum e) (rs_maxoff e) (rs_rcvd e) (rs_reqs e) (rs_done e).
Definition rs_set_rcv (e : rs_ep) (cum : Z) (rcvd : list Z) (rq : list rs_req) : rs_ep :=
  mkRsEp (rs_estab e) (rs_present e) (rs_obj e) (rs_fifo e) (rs_pend_u e) (rs_pend_o e) (rs_sel_o e) (rs_next_tsn e) (rs_next_rsn e)
         (rs_reconfigs e) (rs_will_rtx e) cum (rs_maxoff e) rcvd rq (rs_done e).
Definition rs_set_done (e : rs_ep) (d : option Z) : rs_ep :=
  mkRsEp (rs_estab e) (rs_present e) (rs_obj e) (rs_fifo e) (rs_pend_u e) (rs_pend_o e) (rs_sel_o e) (rs_next_tsn e) (rs_next_rsn e)
         (rs_reconfigs e) (rs_will_rtx e) (rs_cum e) (rs_maxoff e) (rs_rcvd e) (rs_reqs e) d.

Definition rs_mem (x : Z) (l : list Z) : bool := existsb (Z.eqb x) l.

(* maps keyed by rsn, kept sorted (Go map: the comparator and every theorem are order-insensitive) *)
Fixpoint rs_req_put (l : list rs_req) (r : rs_req) : list rs_req :=
  match l with
  | [] => [r]
  | h :: t => if rs_q_rsn r =? rs_q_rsn h then r :: t
              else if rs_q_rsn r <? rs_q_rsn h then r :: h :: t
              else h :: rs_req_put t r
  end.
Fixpoint rs_req_del (l : list rs_req) (rsn : Z) : list rs_req :=
  match l with
  | [] => []
  | h :: t => if rs_q_rsn h =? rsn then t else h :: rs_req_del t rsn
  end.
Fixpoint rs_req_get (l : list rs_req) (rsn : Z) : option rs_req :=
  match l with
  | [] => None
  | h :: t => if rs_q_rsn h =? rsn then Some h else rs_req_get t rsn
  end.

(* ================================================================ application calls *)

(* Association.OpenStream -> getOrCreateStream(sid, accept=false): the registered object is returned
   as it is (whatever its state); otherwise a fresh object is created and registered.
   Result None = ErrAssociationClosed is not modelled (the caller checks rs_estab). *)
Definition rs_open (e : rs_ep) : rs_ep :=
  if rs_present e then e
  else rs_set_obj e true (rs_fresh_strm (rs_gen (rs_obj e) + 1)).

(* Stream.WriteSCTP on the object rs_obj (registered or not): refused unless the state is open;
   packetize consumes a sequence number even for an empty payload; sendPayloadData fails (and the
   number is given back) when the association is not established.
   il = I-DATA in use; frags = fragment lengths; id = label of the first fragment (next ones id+1..). *)
Fixpoint rs_mk_frags (id : Z) (unord : bool) (first : bool) (frags : list Z) : list rs_pchunk :=
  match frags with
  | [] => []
  | n :: r => mkRsPc id n unord first (match r with [] => true | _ => false end) :: rs_mk_frags (id + 1) unord false r
  end.

Definition rs_bump (o : rs_strm) (il unord : bool) : rs_strm :=
  if il then
    if unord then mkRsStrm (rs_gen o) (rs_state o) (rs_eof o) (rs_ssn o) (rs_omid o) (wrap32 (rs_umid o + 1)) (rs_rnext o) (rs_rbuf o)
    else mkRsStrm (rs_gen o) (rs_state o) (rs_eof o) (rs_ssn o) (wrap32 (rs_omid o + 1)) (rs_umid o) (rs_rnext o) (rs_rbuf o)
  else if unord then o
  else mkRsStrm (rs_gen o) (rs_state o) (rs_eof o) (wrap16 (rs_ssn o + 1)) (rs_omid o) (rs_umid o) (rs_rnext o) (rs_rbuf o).

Definition rs_write (e : rs_ep) (id : Z) (il unord : bool) (frags : list Z) : rs_ep * bool :=
  if negb (rs_state (rs_obj e) =? rs_st_open) then (e, false)
  else if negb (rs_estab e) then (e, false)
  else
    let cs := rs_mk_frags id unord true frags in
    let e1 := rs_set_obj e (rs_present e) (rs_bump (rs_obj e) il unord) in
    if rs_fifo e || negb unord then (rs_set_pend e1 (rs_pend_u e) (rs_pend_o e ++ cs) (rs_sel_o e), true)
    else (rs_set_pend e1 (rs_pend_u e ++ cs) (rs_pend_o e) (rs_sel_o e), true).

(* Stream.Close on rs_obj + sendResetRequest.  Second component: a marker was queued. *)
Definition rs_close (e : rs_ep) (id : Z) : rs_ep * bool :=
  let o := rs_obj e in
  if rs_state o =? rs_st_open then
    let o' := mkRsStrm (rs_gen o) (if rs_eof o then rs_st_closed else rs_st_closing) (rs_eof o)
                       (rs_ssn o) (rs_omid o) (rs_umid o) (rs_rnext o) (rs_rbuf o) in
    let e1 := rs_set_obj e (rs_present e) o' in
    if rs_estab e then (rs_set_pend e1 (rs_pend_u e) (rs_pend_o e ++ [rs_marker id]) (rs_sel_o e), true)
    else (e1, false)
  else (e, false).

(* Stream.ReadSCTP on rs_obj, one iteration of its loop: a held message that is in sequence is
   returned first; only when nothing is readable the read error decides; otherwise the caller waits. *)
Inductive rs_rres := RsMsg (ssn : Z) | RsEOF | RsWait.

Definition rs_read_strm (o : rs_strm) : rs_strm * rs_rres :=
  match rs_rbuf o with
  | s :: r =>
    if sna16GT s (rs_rnext o) then (o, if rs_eof o then RsEOF else RsWait)
    else (mkRsStrm (rs_gen o) (rs_state o) (rs_eof o) (rs_ssn o) (rs_omid o) (rs_umid o)
                   (if s =? rs_rnext o then wrap16 (rs_rnext o + 1) else rs_rnext o) r, RsMsg s)
  | [] => (o, if rs_eof o then RsEOF else RsWait)
  end.

Definition rs_read (e : rs_ep) : rs_ep * rs_rres :=
  let (o, r) := rs_read_strm (rs_obj e) in (rs_set_obj e (rs_present e) o, r).

(* ================================================================ sending side: the pending queue *)

(* the chunk of this stream that leaves the pending queue next *)
Definition rs_pop_head (e : rs_ep) : option (rs_pchunk * rs_ep) :=
  if rs_fifo e then
    match rs_pend_o e with
    | [] => None
    | c :: r => Some (c, rs_set_pend e (rs_pend_u e) r (rs_sel_o e))
    end
  else if rs_sel_o e then
    match rs_pend_o e with
    | [] => None
    | c :: r => Some (c, rs_set_pend e (rs_pend_u e) r (negb (rs_pc_end c)))
    end
  else
    match rs_pend_u e with
    | c :: r => Some (c, rs_set_pend e r (rs_pend_o e) false)
    | [] =>
      match rs_pend_o e with
      | [] => None
      | c :: r => Some (c, rs_set_pend e [] r (negb (rs_pc_end c)))
      end
    end.

Definition rs_peek_marker (e : rs_ep) : bool :=
  match rs_pop_head e with Some (c, _) => rs_is_marker c | None => false end.

(* markers of this stream that are at the head are popped, at most [need] of them
   (need = how often sid occurs in sisToReset of this gather) *)
Fixpoint rs_skip_markers (need : nat) (e : rs_ep) (acc : list Z) : nat * rs_ep * list Z :=
  match need with
  | O => (O, e, acc)
  | S n =>
    match rs_pop_head e with
    | Some (c, e') => if rs_is_marker c then rs_skip_markers n e' (acc ++ [rs_pc_id c]) else (need, e, acc)
    | None => (need, e, acc)
    end
  end.

(* chunks that receive a TSN in one gather, in TSN order *)
Inductive rs_gitem := RsOther | RsMine (len : Z) (unord : bool).

Record rs_gout := mkRsGout {
  rs_go_sent : list (Z * Z * Z); (* (label, TSN, position among the chunks of this gather) of this stream's data
                                    chunks moved to the in-flight queue *)
  rs_go_marks : list Z;          (* labels of this stream's markers popped *)
  rs_go_rtx : list rs_req;       (* stored requests retransmitted *)
  rs_go_new : option rs_req      (* request created *)
}.

Fixpoint rs_gather_items (items : list rs_gitem) (need : nat) (e : rs_ep) (pos : Z) (sent : list (Z * Z * Z)) (marks : list Z)
  : option (nat * rs_ep * list (Z * Z * Z) * list Z) :=
  match items with
  | [] => Some (need, e, sent, marks)
  | RsOther :: r =>
    rs_gather_items r need (rs_set_snd e (wrap32 (rs_next_tsn e + 1)) (rs_next_rsn e) (rs_reconfigs e) (rs_will_rtx e)) (pos + 1) sent marks
  | RsMine len unord :: r =>
    let '(need1, e1, marks1) := rs_skip_markers need e marks in
    match rs_pop_head e1 with
    | Some (c, e2) =>
      if negb (rs_is_marker c) && (rs_pc_len c =? len) && Bool.eqb (rs_pc_unord c) unord then
        rs_gather_items r need1
          (rs_set_snd e2 (wrap32 (rs_next_tsn e2 + 1)) (rs_next_rsn e2) (rs_reconfigs e2) (rs_will_rtx e2)) (pos + 1)
          (sent ++ [(rs_pc_id c, rs_next_tsn e2, pos)]) marks1
      else None
    | None => None
    end
  end.

(* one run of gatherOutboundDataAndReconfigPackets (+ the unconditional gatherOutboundReconfigPackets of the
   write loop).  [items] = chunks moved to the in-flight queue, [ids] = sisToReset.
   None = the implementation did something the model excludes (wrong pop order, marker not at the head). *)
Definition rs_gather (sid : Z) (e : rs_ep) (items : list rs_gitem) (ids : list Z) : option (rs_ep * rs_gout) :=
  match rs_gather_items items (count_occ Z.eq_dec ids sid) e 0 [] [] with
  | None => None
  | Some (need1, e1, sent, marks1) =>
    let '(need2, e2, marks2) := rs_skip_markers need1 e1 marks1 in
    match need2 with
    | S _ => None
    | O =>
      let rtx := if rs_will_rtx e2 then rs_reconfigs e2 else [] in
      match ids with
      | [] => Some (rs_set_snd e2 (rs_next_tsn e2) (rs_next_rsn e2) (rs_reconfigs e2) false, mkRsGout sent marks2 rtx None)
      | _ =>
        let q := mkRsReq (rs_next_rsn e2) (wrap32 (rs_next_tsn e2 - 1)) ids in
        Some (rs_set_snd e2 (rs_next_tsn e2) (wrap32 (rs_next_rsn e2 + 1)) (rs_req_put (rs_reconfigs e2) q) false,
              mkRsGout sent marks2 rtx (Some q))
      end
    end
  end.

(* onRetransmissionTimeout(timerReconfig) *)
Definition rs_treconfig_expire (e : rs_ep) : rs_ep :=
  rs_set_snd e (rs_next_tsn e) (rs_next_rsn e) (rs_reconfigs e) true.

(* handleReconfigParam, *paramReconfigResponse.  Second component: the re-configuration timer is
   restarted (InProgress for a stored request) / stopped (nothing left). *)
Inductive rs_tact := RsTNone | RsTRestart | RsTStop.

Definition rs_reset_counters (o : rs_strm) : rs_strm :=
  mkRsStrm (rs_gen o) (rs_state o) (rs_eof o) 0 0 0 (rs_rnext o) (rs_rbuf o).

Definition rs_recv_response (sid : Z) (e : rs_ep) (rsn result : Z) : rs_ep * rs_tact :=
  if result =? c_reconfigResultInProgress then
    (e, match rs_req_get (rs_reconfigs e) rsn with Some _ => RsTRestart | None => RsTNone end)
  else
    let e1 :=
      if result =? c_reconfigResultSuccessPerformed then
        match rs_req_get (rs_reconfigs e) rsn with
        | Some q => (* Stream.resetOutgoingStreamSequenceNumbers does nothing on an open stream (a186bb2) *)
                    if rs_mem sid (rs_q_ids q) && rs_present e && negb (rs_state (rs_obj e) =? rs_st_open)
                    then rs_set_obj e true (rs_reset_counters (rs_obj e)) else e
        | None => e
        end
      else e in
    let rc := rs_req_del (rs_reconfigs e1) rsn in
    (rs_set_snd e1 (rs_next_tsn e1) (rs_next_rsn e1) rc (rs_will_rtx e1),
     match rc with [] => RsTStop | _ => RsTNone end).

(* ================================================================ receiving side *)

(* Stream.onInboundStreamReset *)
Definition rs_inbound_reset (o : rs_strm) : rs_strm :=
  mkRsStrm (rs_gen o) (if rs_state o =? rs_st_closing then rs_st_closed else rs_state o) true
           (rs_ssn o) (rs_omid o) (rs_umid o) (rs_rnext o) (rs_rbuf o).

(* what one examination of a request by resetStreamsIfAny produced: the response parameter, whether the
   reset hit a registered object of sid, and (for the theorems) the request's senderLastTSN and the
   cumulative TSN at that moment *)
Record rs_resp := mkRsResp { rs_r_rsn : Z; rs_r_res : Z; rs_r_hit : bool; rs_r_last : Z; rs_r_cum : Z }.

(* resetStreamsIfAny *)
(* fd7385c: a request whose sequence number is not newer than the one recorded for the identifier was
   performed already (retransmission / duplicate): answered again, not performed again *)
Definition rs_already (e : rs_ep) (q : rs_req) : bool :=
  match rs_done e with Some p => sna32LTE (rs_q_rsn q) p | None => false end.

Definition rs_reset_if_any (sid : Z) (e : rs_ep) (q : rs_req) : rs_ep * rs_resp :=
  if sna32LTE (rs_q_last q) (rs_cum e) then
    let fresh := rs_mem sid (rs_q_ids q) && negb (rs_already e q) in
    let hit := fresh && rs_present e in
    let e0 := if fresh then rs_set_done e (Some (rs_q_rsn q)) else e in
    let e1 := if hit then rs_set_obj e0 false (rs_inbound_reset (rs_obj e0)) else e0 in
    (rs_set_rcv e1 (rs_cum e1) (rs_rcvd e1) (rs_req_del (rs_reqs e1) (rs_q_rsn q)),
     mkRsResp (rs_q_rsn q) c_reconfigResultSuccessPerformed hit (rs_q_last q) (rs_cum e))
  else (e, mkRsResp (rs_q_rsn q) c_reconfigResultInProgress false (rs_q_last q) (rs_cum e)).

(* handleReconfigParam, *paramOutgoingResetRequest.  None = ErrTooManyReconfigRequests (request dropped).
   The first test compares the two uint32 values with plain < as the code does. *)
Definition rs_recv_request (sid : Z) (e : rs_ep) (q : rs_req) : option (rs_ep * rs_resp) :=
  if (rs_cum e <? rs_q_last q) && (c_maxReconfigRequests <=? Z.of_nat (length (rs_reqs e))) then None
  else
    let e1 := rs_set_rcv e (rs_cum e) (rs_rcvd e) (rs_req_put (rs_reqs e) q) in
    Some (rs_reset_if_any sid e1 q).

(* the loop body `for _, rstReq := range a.reconfigRequests { resetStreamsIfAny }`:
   every stored request is examined once; responses are collected (sorted by rsn) *)
Fixpoint rs_retry_list (sid : Z) (l : list rs_req) (e : rs_ep) (acc : list rs_resp) : rs_ep * list rs_resp :=
  match l with
  | [] => (e, acc)
  | q :: t =>
    let (e1, r) := rs_reset_if_any sid e q in
    rs_retry_list sid t e1 (acc ++ [r])
  end.

Definition rs_retry (sid : Z) (e : rs_ep) (acc : list rs_resp) : rs_ep * list rs_resp :=
  rs_retry_list sid (rs_reqs e) e acc.

(* handlePeerLastTSNAndAcknowledgement: while the next TSN is held, pop it and retry the deferred resets *)
Fixpoint rs_remove (x : Z) (l : list Z) : list Z :=
  match l with [] => [] | h :: t => if h =? x then t else h :: rs_remove x t end.

Fixpoint rs_pop_loop (fuel : nat) (sid : Z) (e : rs_ep) (acc : list rs_resp) : rs_ep * list rs_resp :=
  match fuel with
  | O => (e, acc)
  | S f =>
    let nxt := wrap32 (rs_cum e + 1) in
    if rs_mem nxt (rs_rcvd e) then
      let e1 := rs_set_rcv e nxt (rs_remove nxt (rs_rcvd e)) (rs_reqs e) in
      let (e2, acc2) := rs_retry sid e1 acc in
      rs_pop_loop f sid e2 acc2
    else (e, acc)
  end.

(* the step named in the design: the cumulative point advanced by pops *)
Definition rs_cum_advanced (sid : Z) (e : rs_ep) : rs_ep * list rs_resp :=
  rs_pop_loop (S (length (rs_rcvd e))) sid e [].

(* reassemblyQueue.pushWithError for an ordered, unfragmented DATA chunk: dropped when its SSN is
   behind nextSSN, otherwise inserted by sortChunksBySSN *)
Fixpoint rs_ssn_insert (l : list Z) (s : Z) : list Z :=
  match l with
  | [] => [s]
  | h :: t => if sna16LT s h then s :: h :: t else h :: rs_ssn_insert t s
  end.

Definition rs_push_msg (o : rs_strm) (ssn : Z) : rs_strm :=
  if sna16LT ssn (rs_rnext o) then o
  else mkRsStrm (rs_gen o) (rs_state o) (rs_eof o) (rs_ssn o) (rs_omid o) (rs_umid o) (rs_rnext o)
                (rs_ssn_insert (rs_rbuf o) ssn).

(* one DATA chunk of an inbound packet: handleData (receive-buffer-full and accept-channel-full branches
   are not modelled: the harness never fills either).
   [mine] = the chunk carries sid; [simple] = ordered, unfragmented, not I-DATA (then ssn is pushed). *)
Definition rs_can_push (e : rs_ep) (tsn : Z) : bool :=
  negb (rs_mem tsn (rs_rcvd e) || sna32LTE tsn (rs_cum e) || sna32GT tsn (wrap32 (rs_cum e + rs_maxoff e))).

Definition rs_recv_data (sid : Z) (e : rs_ep) (tsn : Z) (mine simple : bool) (ssn : Z) : rs_ep * list rs_resp :=
  let e1 :=
    if rs_can_push e tsn then
      let e0 :=
        if mine then
          let e' := if rs_present e then e else rs_set_obj e true (rs_fresh_strm (rs_gen (rs_obj e) + 1)) in
          if simple then rs_set_obj e' true (rs_push_msg (rs_obj e') ssn) else e'
        else e in
      rs_set_rcv e0 (rs_cum e0) (tsn :: rs_rcvd e0) (rs_reqs e0)
    else e in
  rs_cum_advanced sid e1.

(* reassemblyQueue.forwardTSNForOrdered on a queue whose held messages are all complete: only nextSSN moves *)
Definition rs_skip_ssn (o : rs_strm) (last : Z) : rs_strm :=
  if sna16LTE (rs_rnext o) last
  then mkRsStrm (rs_gen o) (rs_state o) (rs_eof o) (rs_ssn o) (rs_omid o) (rs_umid o) (wrap16 (last + 1)) (rs_rbuf o)
  else o.

(* handleForwardTSN / handleIForwardTSN: the cumulative point jumps; deferred resets are examined
   only if a pop follows.  [skip] = Some ssn when the FORWARD-TSN chunk lists this identifier with that
   stream sequence number and the registered stream is an ordered one (Stream.handleForwardTSNForOrdered). *)
Definition rs_recv_fwd (sid : Z) (e : rs_ep) (newcum : Z) (skip : option Z) : rs_ep * list rs_resp :=
  if sna32LTE newcum (rs_cum e) then (e, [])
  else
    let e1 := rs_set_rcv e newcum (filter (fun t => negb (sna32LTE t newcum)) (rs_rcvd e)) (rs_reqs e) in
    let e2 := match skip with
              | Some s => if rs_present e1 then rs_set_obj e1 true (rs_skip_ssn (rs_obj e1) s) else e1
              | None => e1
              end in
    rs_cum_advanced sid e2.

(* ================================================================ one endpoint, all handlers as one step *)

Inductive rs_ev :=
| RsVOpen
| RsVWrite (id : Z) (il unord : bool) (frags : list Z)
| RsVClose (id : Z)
| RsVRead
| RsVGather (items : list rs_gitem) (ids : list Z)
| RsVExpire
| RsVResp (rsn result : Z)
| RsVReq (q : rs_req)
| RsVData (tsn : Z) (mine simple : bool) (ssn : Z)
| RsVFwd (newcum : Z) (skip : option Z).

Record rs_out := mkRsOut {
  rs_o_resps : list rs_resp;       (* reset responses produced *)
  rs_o_gout : option rs_gout;      (* result of a gather *)
  rs_o_read : option rs_rres;      (* result of a read *)
  rs_o_ok : bool                   (* write accepted / marker queued *)
}.

Definition rs_ep_step (sid : Z) (e : rs_ep) (ev : rs_ev) : option (rs_ep * rs_out) :=
  match ev with
  | RsVOpen => Some (rs_open e, mkRsOut [] None None true)
  | RsVWrite id il unord frags => let (e1, ok) := rs_write e id il unord frags in Some (e1, mkRsOut [] None None ok)
  | RsVClose id => let (e1, ok) := rs_close e id in Some (e1, mkRsOut [] None None ok)
  | RsVRead => let (e1, r) := rs_read e in Some (e1, mkRsOut [] None (Some r) true)
  | RsVGather items ids =>
    match rs_gather sid e items ids with
    | None => None
    | Some (e1, g) => Some (e1, mkRsOut [] (Some g) None true)
    end
  | RsVExpire => Some (rs_treconfig_expire e, mkRsOut [] None None true)
  | RsVResp rsn result => Some (fst (rs_recv_response sid e rsn result), mkRsOut [] None None true)
  | RsVReq q =>
    match rs_recv_request sid e q with
    | None => Some (e, mkRsOut [] None None false)
    | Some (e1, r) => Some (e1, mkRsOut [r] None None true)
    end
  | RsVData tsn mine simple ssn => let (e1, rs) := rs_recv_data sid e tsn mine simple ssn in Some (e1, mkRsOut rs None None true)
  | RsVFwd c sk => let (e1, rs) := rs_recv_fwd sid e c sk in Some (e1, mkRsOut rs None None true)
  end.

(* ================================================================ two endpoints and a network *)

Inductive rs_pkt :=
| RsPReq (q : rs_req)
| RsPResp (rsn result : Z)
| RsPData (tsn ssn : Z)          (* ordered unfragmented DATA of sid *)
| RsPFwd (newcum : Z).

Record rs_sys := mkRsSys {
  rs_a : rs_ep; rs_b : rs_ep;
  rs_net : list (bool * rs_pkt)   (* (sent by A?, packet): every packet ever emitted; delivery of any element at any time *)
}.

Inductive rs_sev :=
| RsEWrite (a : bool) (id : Z)            (* one small ordered message *)
| RsEClose (a : bool) (id : Z)
| RsEOpen (a : bool)
| RsEGather (a : bool) (items : list rs_gitem) (ids : list Z)
| RsEExpire (a : bool)
| RsEDeliver (n : nat)                     (* the n-th packet of the network is delivered (it stays: duplication) *)
| RsERead (a : bool).

Definition rs_side (s : rs_sys) (a : bool) : rs_ep := if a then rs_a s else rs_b s.
Definition rs_with (s : rs_sys) (a : bool) (e : rs_ep) (out : list rs_pkt) : rs_sys :=
  let net := rs_net s ++ map (fun p => (a, p)) out in
  if a then mkRsSys e (rs_b s) net else mkRsSys (rs_a s) e net.

Definition rs_resps (l : list rs_resp) : list rs_pkt := map (fun x => RsPResp (rs_r_rsn x) (rs_r_res x)) l.

Definition rs_sys_step (sid : Z) (s : rs_sys) (ev : rs_sev) : option (rs_sys * rs_rres) :=
  match ev with
  | RsEWrite a id =>
    let '(e, ok) := rs_write (rs_side s a) id false false [1] in
    if ok then Some (rs_with s a e [], RsWait) else None
  | RsEClose a id => Some (rs_with s a (fst (rs_close (rs_side s a) id)) [], RsWait)
  | RsEOpen a => Some (rs_with s a (rs_open (rs_side s a)) [], RsWait)
  | RsEGather a items ids =>
    let e0 := rs_side s a in
    match rs_gather sid e0 items ids with
    | None => None
    | Some (e, g) =>
      (* DATA packets of this stream carry the SSN the object had when the message was written: the
         system model sends one-chunk messages and gathers right after each write, so it is ssn-1 *)
      let datas := map (fun x => RsPData (snd (fst x)) (wrap16 (rs_ssn (rs_obj e0) - 1))) (rs_go_sent g) in
      let reqs := map RsPReq (rs_go_rtx g) ++ match rs_go_new g with Some q => [RsPReq q] | None => [] end in
      Some (rs_with s a e (datas ++ reqs), RsWait)
    end
  | RsEExpire a => Some (rs_with s a (rs_treconfig_expire (rs_side s a)) [], RsWait)
  | RsEDeliver n =>
    match nth_error (rs_net s) n with
    | None => None
    | Some (froma, p) =>
      let to := negb froma in
      let e := rs_side s to in
      match p with
      | RsPReq q =>
        match rs_recv_request sid e q with
        | None => Some (s, RsWait)
        | Some (e1, r) => Some (rs_with s to e1 (rs_resps [r]), RsWait)
        end
      | RsPResp rsn result => Some (rs_with s to (fst (rs_recv_response sid e rsn result)) [], RsWait)
      | RsPData tsn ssn => let (e1, rs) := rs_recv_data sid e tsn true true ssn in Some (rs_with s to e1 (rs_resps rs), RsWait)
      | RsPFwd c => let (e1, rs) := rs_recv_fwd sid e c None in Some (rs_with s to e1 (rs_resps rs), RsWait)
      end
    end
  | RsERead a => let (e, r) := rs_read (rs_side s a) in Some (rs_with s a e [], r)
  end.

Fixpoint rs_sys_run (sid : Z) (s : rs_sys) (evs : list rs_sev) (log : list rs_rres) : option (rs_sys * list rs_rres) :=
  match evs with
  | [] => Some (s, log)
  | ev :: r =>
    match rs_sys_step sid s ev with
    | None => None
    | Some (s', res) => rs_sys_run sid s' r (match ev with RsERead _ => log ++ [res] | _ => log end)
    end
  end.

Definition rs_ep_init (fifo : bool) (tsn peer_tsn : Z) : rs_ep :=
  mkRsEp true true (rs_fresh_strm 1) fifo [] [] false tsn tsn [] false (wrap32 (peer_tsn - 1)) 8384 [] [] None.
