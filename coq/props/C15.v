(* C15 - buffered-amount accounting is exact.
   Model: coq/model/Sender.v (Stream.packetize / onBufferReleased, processSelectiveAck byte accounting,
   payload_queue markAsAcked).  Ghost g_pend = bytes of each stream still in the pending queue.
   Only statements closed by [exact] + Print Assumptions. *)
From Coq Require Import ZArith Bool List.
From Sctp Require Import Gen SnaProofs Sender SenderProofs StreamW StreamWProofs BufLow BufLowProofs.
Import ListNotations.
Open Scope Z_scope.

(* For every history of writes, gathers, SACKs (accepted, rejected or stale, with arbitrary cumulative
   point and gap blocks, incl. gap-acks later covered by cumulative acks) and T3 expiries, for every
   registered stream k:
     bufferedAmount(k) = bytes of k still pending + bytes of k in flight and not yet acknowledged,
   the association's in-flight byte counter is the sum of the un-acknowledged payload lengths, pending
   ghost bytes never go negative (so each byte is released exactly once and the underflow branch of
   onBufferReleased is never taken), and the set of registered streams is unchanged. *)
Theorem c15_buffered_exact : forall evs sg s g,
  SInv sg -> srun_ok sg evs -> srun sg evs = Some (s, g) ->
  (forall k, In k (map fst (st_buffered s)) ->
     lookup (st_buffered s) k = lookup (g_pend g) k + infl_sid (st_infl s) k) /\
  st_nbytes s = infl_sum (st_infl s) /\
  (forall k, 0 <= lookup (g_pend g) k) /\
  map fst (st_buffered s) = map fst (st_buffered (fst sg)).
Proof. exact buffered_exact. Qed.
Print Assumptions c15_buffered_exact.

(* one SACK step: the accounting invariant is preserved, in-flight bytes never grow, streams unchanged *)
Theorem c15_sack_releases_exactly : forall s cum arwnd gaps s' pend,
  sack_step s cum arwnd gaps = SOk s' -> BI s pend ->
  BI s' pend /\ st_nbytes s' <= st_nbytes s /\ map fst (st_buffered s') = map fst (st_buffered s).
Proof. exact sack_step_BI. Qed.
Print Assumptions c15_sack_releases_exactly.

(* the release arithmetic: with unique stream keys and released amounts within the buffered amounts,
   every stream's figure drops by exactly the bytes acknowledged for it *)
Theorem c15_release_exact : forall acc buf,
  NoDup (map fst buf) -> NoDup (map fst acc) -> Forall (fun kv => 0 <= snd kv) acc ->
  (forall k, In k (map fst buf) -> lookup acc k <= lookup buf k) ->
  map fst (release_all buf acc) = map fst buf /\
  forall k, In k (map fst buf) -> lookup (release_all buf acc) k = lookup buf k - lookup acc k.
Proof. exact release_all_spec. Qed.
Print Assumptions c15_release_exact.

(* an accepted write grows exactly the writing stream's figure by the message length *)
Theorem c15_write_grows : forall s pend sid frags,
  BI s pend -> Forall (fun f => 0 < f) frags -> In sid (map fst (st_buffered s)) ->
  BI (write_step s sid frags) (add_bytes pend sid (fold_left Z.add frags 0)) /\
  map fst (st_buffered (write_step s sid frags)) = map fst (st_buffered s).
Proof. exact write_step_BI. Qed.
Print Assumptions c15_write_grows.

(* at the API (model StreamW.v of Stream.WriteSCTP, tied to stream.go by its own differential): whatever the
   outcome of the call - accepted, too large, stream closing, or the association refusing the chunks (not
   established, blocking write cancelled) with the roll-back that follows - the stream's figure grows by exactly
   the byte count the call returns; and a write the association accepts on an open stream returns the full length *)
Theorem c15_write_call_accounts_exactly : forall st n ppi il maxp maxmsg ok st' r cs,
  sw_wf st -> sw_write st n ppi il maxp maxmsg ok = Some (st', r, cs) ->
  sw_buffered st' = sw_buffered st + (match r with SwOk k => k | _ => 0 end) /\
  (ok = true -> n <= maxmsg -> sw_state st = sw_open -> r = SwOk n).
Proof. exact sw_write_buffered. Qed.
Print Assumptions c15_write_call_accounts_exactly.

(* non-vacuity: gap-ack followed by cumulative ack releases each byte once; back to zero when drained *)
Example c15_example_gap_then_cum :
  let s0 := mkS c_established 99 0 [] 0 4380 100000 100000 0 false 0 false 1200 0 0 0 0 [(1, 0)] in
  let evs := [EvWrite 1 [1000; 600]; EvGather [(1, 1000); (1, 600)] 100; EvSack 99 90000 [(2, 2)];
              EvSack 100 90000 [(1, 1)]; EvSack 101 90000 []] in
  srun_ok (s0, mkSG [] 100000) evs /\
  match srun (s0, mkSG [] 100000) (firstn 3 evs), srun (s0, mkSG [] 100000) evs with
  | Some (s3, _), Some (s5, g5) =>
      lookup (st_buffered s3) 1 = 1000 /\ st_nbytes s3 = 1000 /\
      lookup (st_buffered s5) 1 = 0 /\ st_nbytes s5 = 0 /\ st_infl s5 = [] /\ lookup (g_pend g5) 1 = 0
  | _, _ => False
  end.
Proof. vm_compute. intuition (try discriminate; try reflexivity; repeat constructor). Qed.
Print Assumptions c15_example_gap_then_cum.

(* --- the low-threshold callback (Stream.onBufferReleased, model coq/model/BufLow.v) --- *)

(* one release: the amount drops by exactly n, clamped at zero (never underflows), a non-positive n changes
   nothing, and the callback is invoked exactly when one is registered and this call takes the amount from
   above the threshold to at or below it *)
Theorem c15_release_fires_iff_crossing : forall v low n hascb, 0 <= v ->
  let (v', f) := bl_released v low n hascb in
  0 <= v' <= v /\ (0 < n -> v' = Z.max 0 (v - n)) /\ (n <= 0 -> v' = v) /\
  (f = true <-> hascb = true /\ low < v /\ v' <= low).
Proof. exact bl_released_spec. Qed.
Print Assumptions c15_release_fires_iff_crossing.

(* for every history of accepted writes and releases on one stream: whenever the amount goes from above the
   threshold to at or below it, the callback fired in between (no downward crossing is missed) *)
Theorem c15_callback_for_each_downward_crossing : forall evs low v vn fs,
  bl_run low v evs = (vn, fs) -> (forall n, In (BlWrite n) evs -> 0 <= n) ->
  low < v -> vn <= low -> existsb (fun b => b) fs = true.
Proof. exact bl_crossing_fires. Qed.
Print Assumptions c15_callback_for_each_downward_crossing.

(* ... and only for crossings: while the amount stays at or below the threshold nothing fires, and every firing
   is a release that crossed *)
Theorem c15_callback_only_on_crossing : forall evs low v vn fs,
  bl_run low v evs = (vn, fs) -> (forall e, In e evs -> exists n, e = BlRel n) ->
  0 <= v <= low -> forallb negb fs = true /\ 0 <= vn <= low.
Proof. exact bl_no_fire_below. Qed.
Print Assumptions c15_callback_only_on_crossing.

Theorem c15_firing_is_a_crossing : forall low v e v1, 0 <= v -> bl_step low v e = (v1, true) ->
  exists n, e = BlRel n /\ 0 < n /\ low < v /\ v1 <= low /\ v1 = Z.max 0 (v - n).
Proof. exact bl_fire_is_crossing. Qed.
Print Assumptions c15_firing_is_a_crossing.

(* non-vacuity: two crossings, two firings; the release that stays above and the one that starts below do not fire *)
Example c15_example_two_crossings :
  bl_run 1000 3000 [BlRel 1500; BlRel 600; BlRel 300; BlWrite 2000; BlRel 1700] = (900, [false; true; false; false; true]).
Proof. vm_compute. reflexivity. Qed.
