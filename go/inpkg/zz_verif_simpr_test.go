// Verification harness: partial-reliability / unordered scenarios (C06, C07) on the simulator.
package sctp

import (
	"fmt"
	"math/rand"
	"testing"
	"testing/synctest"
	"time"
)

type prPolicy struct {
	unordered bool
	relType   byte
	relVal    uint32
}

type prStats struct {
	scenarios, events, msgs, abandonedSeen, fwd, fails int
}

// prMsgReliable: per (side, sid, idx): was the message written under a reliable policy (or DCEP)?
type prBook struct {
	reliable map[[3]int]bool
	policy   map[[3]int]prPolicy
	dcepTSN  [2]map[uint32]bool  // TSNs whose message is a DCEP message (white-box: head chunk's PPI)
	stream   map[[2]int]prPolicy // fixed reliability policy per (side, stream)
}

func runPRScenario(t *testing.T, seed int64, nEvents int, st *prStats) []string {
	var fails []string
	synctest.Test(t, func(t *testing.T) {
		rng := rand.New(rand.NewSource(seed))
		o := simRandomOpts(rng, seed)
		o.recvBuf = 0 // default buffer: window effects are C10/C11's business
		s := newSim(t, o, fmt.Sprintf("pr/tsnA=%d/mtu=%d/il=%d,%d/rr=%v", o.tsnA, o.mtu, o.interleaveA, o.interleaveB, o.schedRR))
		if !s.establish() {
			s.fail("C04", "fault-free handshake did not complete")
			s.closeBoth()
			fails = s.fails
			s.report()
			return
		}
		book := prBook{reliable: map[[3]int]bool{}, policy: map[[3]int]prPolicy{}, stream: map[[2]int]prPolicy{}}
		book.dcepTSN[0], book.dcepTSN[1] = map[uint32]bool{}, map[uint32]bool{}
		nStreams := 1 + rng.Intn(3)
		cur := map[[2]int]prPolicy{}
		setPolicy := func(side int, sid uint16) {
			p := prPolicy{unordered: rng.Intn(2) == 0}
			switch rng.Intn(4) {
			case 0:
				p.relType = ReliabilityTypeReliable
			case 1:
				p.relType, p.relVal = ReliabilityTypeRexmit, uint32(rng.Intn(3))
			case 2:
				p.relType, p.relVal = ReliabilityTypeTimed, uint32(50+rng.Intn(3000))
			default:
				p.relType, p.relVal = ReliabilityTypeRexmit, 0
			}
			stm := s.openStream(side, sid)
			if stm != nil {
				stm.SetReliabilityParams(p.unordered, p.relType, p.relVal)
				cur[[2]int{side, int(sid)}] = p
				book.stream[[2]int{side, int(sid)}] = p
			}
		}
		for side := 0; side < 2; side++ {
			for sid := 0; sid < nStreams; sid++ {
				setPolicy(side, uint16(sid))
			}
		}
		pLoss := []int{5, 15, 35}[rng.Intn(3)]
		for ev := 0; ev < nEvents; ev++ {
			r := rng.Intn(100)
			switch {
			case r < 25:
				side := rng.Intn(2)
				sid := uint16(rng.Intn(nStreams))
				if rng.Intn(10) == 0 {
					// ordered and unordered messages may share a stream; the reliability policy of a stream stays
					// fixed (the code evaluates it at retransmission time, so changing it would re-classify
					// messages already in flight)
					p := cur[[2]int{side, int(sid)}]
					p.unordered = !p.unordered
					if stm := s.openStream(side, sid); stm != nil {
						stm.SetReliabilityParams(p.unordered, p.relType, p.relVal)
						cur[[2]int{side, int(sid)}] = p
					}
				}
				a := s.assoc[side]
				n := simMsgSize(rng, a)
				if n > 20000 {
					n = 1 + n%20000
				}
				if a.BufferedAmount() > 200000 {
					continue
				}
				ppi := PayloadTypeWebRTCBinary
				if rng.Intn(7) == 0 {
					ppi = PayloadTypeWebRTCDCEP
				}
				idx := len(s.sent[side][sid])
				if err := s.write(side, sid, n, ppi); err == nil {
					p := cur[[2]int{side, int(sid)}]
					book.policy[[3]int{side, int(sid), idx}] = p
					book.reliable[[3]int{side, int(sid), idx}] = p.relType == ReliabilityTypeReliable || ppi == PayloadTypeWebRTCDCEP
					st.msgs++
				}
			case r < 65:
				from := rng.Intn(2)
				if len(s.flight[from]) == 0 {
					from = 1 - from
				}
				if len(s.flight[from]) == 0 {
					s.advance(time.Duration(1+rng.Intn(400)) * time.Millisecond)
					continue
				}
				idx := 0
				if rng.Intn(5) == 0 {
					idx = rng.Intn(len(s.flight[from]))
				}
				f := rng.Intn(100)
				switch {
				case f < pLoss:
					s.drop(from, idx)
				case f < pLoss+4:
					s.deliver(from, idx, true)
				default:
					s.deliver(from, idx, false)
				}
			case r < 78:
				s.readAll()
			case r < 90:
				s.advance(time.Duration(1+rng.Intn(1500)) * time.Millisecond)
			default:
				from := rng.Intn(2)
				for k := 0; k < 20 && len(s.flight[from]) > 0; k++ {
					s.deliver(from, 0, false)
				}
			}
			st.events++
			prCheckInflight(s, st, &book)
			if ev%7 == 0 {
				// C15: per-stream buffered amount = pending + un-acked in-flight bytes, also while chunks are abandoned
				s.checkBuffered(0)
				s.checkBuffered(1)
			}
			if len(s.fails) > 0 {
				break
			}
		}
		if len(s.fails) == 0 {
			// heal: everything that is still owed must arrive; abandoned messages may be missing
			done := func() bool {
				for side := 0; side < 2; side++ {
					if s.assoc[side].BufferedAmount() != 0 {
						return false
					}
				}
				return len(s.flight[0]) == 0 && len(s.flight[1]) == 0
			}
			bound := 5 * 60 * time.Second
			if o.rtoMax > 0 {
				bound = 60 * time.Second
			}
			healed := s.runFaultFree(bound, 50*time.Millisecond, done)
			s.runFaultFree(2*time.Second, 50*time.Millisecond, func() bool { return false })
			s.readAll()
			if !healed {
				for side := 0; side < 2; side++ {
					a := s.assoc[side]
					if a.BufferedAmount() != 0 {
						s.fail("C07", fmt.Sprintf("sender still has %d buffered bytes after the network healed (abandoned-message-blocks-traffic): side=%d inflight=%d pending=%d", a.BufferedAmount(), side, a.inflightQueue.size(), a.pendingQueue.size()))
					}
				}
			}
			prFinalChecks(s, &book)
			s.checkBuffered(0)
			s.checkBuffered(1)
			if healed {
				prCheckDrained(s)
			}
		}
		for _, p := range s.wire {
			if p.pkt == nil {
				continue
			}
			for _, c := range p.pkt.chunks {
				switch c.(type) {
				case *chunkForwardTSN, *chunkIForwardTSN:
					st.fwd++
				}
			}
		}
		s.closeBoth()
		fails = s.fails
		s.report()
	})
	return fails
}

// prCheckInflight: white-box — under a retransmission limit N a chunk is put on the wire at most N+1 times;
// abandoned chunks are never marked for retransmission; DCEP chunks are never abandoned (C06).
func prCheckInflight(s *sim, st *prStats, book *prBook) {
	for side := 0; side < 2; side++ {
		a := s.assoc[side]
		a.lock.RLock()
		for i := 0; i < a.inflightQueue.chunks.Len(); i++ {
			c := a.inflightQueue.chunks.At(i)
			ppi := c.payloadType
			if c.head != nil {
				ppi = c.head.payloadType
			}
			if ppi == PayloadTypeWebRTCDCEP {
				book.dcepTSN[side][c.tsn] = true
			}
			if c.abandoned() {
				st.abandonedSeen++
				if c.payloadType == PayloadTypeWebRTCDCEP {
					s.fail("C06", fmt.Sprintf("a DCEP chunk was abandoned (dcep-abandoned): side=%d tsn=%d", side, c.tsn))
				}
			}
			if stm, ok := a.streams[c.streamIdentifier]; ok && c.payloadType != PayloadTypeWebRTCDCEP {
				stm.lock.RLock()
				rt, rv := stm.reliabilityType, stm.reliabilityValue
				stm.lock.RUnlock()
				_ = rt
				_ = rv
			}
		}
		a.lock.RUnlock()
		// wire view: transmissions per TSN are checked against the policy of the stream in prFinalChecks
	}
}

// prCheckDrained: once everything outstanding is acknowledged or abandoned and forwarded, the buffered amount
// of every stream is zero (C15: it shrinks by the bytes acknowledged or skipped as abandoned).
func prCheckDrained(s *sim) {
	for side := 0; side < 2; side++ {
		a := s.assoc[side]
		if a == nil || a.BufferedAmount() != 0 {
			continue
		}
		a.lock.RLock()
		streams := map[uint16]*Stream{}
		for k, v := range a.streams {
			streams[k] = v
		}
		a.lock.RUnlock()
		for sid, st := range streams {
			if n := st.BufferedAmount(); n != 0 {
				s.fail("C15", fmt.Sprintf("stream buffered amount %d although nothing is pending or in flight any more (pr-stream-buffered-not-zero-after-drain): side=%d sid=%d", n, side, sid))
			}
		}
	}
}

func prFinalChecks(s *sim, book *prBook) {
	// transmissions per TSN against the stream's policy (wire view)
	type txs struct {
		sid   uint16
		frag  bool
		times []time.Duration
	}
	for side := 0; side < 2; side++ {
		// DCEP chunks are exempt from every policy.  The white-box bookkeeping of prCheckInflight only sees chunks that
		// are in flight at one of its calls; a message that left the pending queue during the healing phase is only on
		// the wire.  DATA: every fragment carries the PPI; I-DATA: the first fragment does, the others are found
		// through (stream, U flag, MID).
		type midKey struct {
			sid uint16
			u   bool
			mid uint32
		}
		dcepMID := map[midKey]bool{}
		for _, p := range s.wire {
			if p.from != side || p.pkt == nil {
				continue
			}
			for _, c := range p.pkt.chunks {
				if d, ok := c.(*chunkPayloadData); ok && d.payloadType == PayloadTypeWebRTCDCEP {
					book.dcepTSN[side][d.tsn] = true
					if d.isIData() {
						dcepMID[midKey{d.streamIdentifier, d.unordered, d.messageIdentifier}] = true
					}
				}
			}
		}
		per := map[uint32]*txs{}
		for _, p := range s.wire {
			if p.from != side || p.pkt == nil {
				continue
			}
			for _, c := range p.pkt.chunks {
				if d, ok := c.(*chunkPayloadData); ok {
					if d.isIData() && dcepMID[midKey{d.streamIdentifier, d.unordered, d.messageIdentifier}] {
						book.dcepTSN[side][d.tsn] = true
					}
					x := per[d.tsn]
					if x == nil {
						x = &txs{sid: d.streamIdentifier, frag: !(d.beginningFragment && d.endingFragment)}
						per[d.tsn] = x
					}
					x.times = append(x.times, p.at)
				}
			}
		}
		for tsn, x := range per {
			if book.dcepTSN[side][tsn] {
				continue
			}
			pol, ok := book.stream[[2]int{side, int(x.sid)}]
			if !ok {
				continue
			}
			switch pol.relType {
			case ReliabilityTypeRexmit:
				if len(x.times) > int(pol.relVal)+1 {
					key := "rexmit-limit-exceeded"
					if x.frag {
						key = "rexmit-limit-exceeded-fragmented-message"
					}
					s.fail("C06", fmt.Sprintf("chunk put on the wire %d times under a retransmission limit of %d (%s): side=%d tsn=%d sid=%d times=%v", len(x.times), pol.relVal, key, side, tsn, x.sid, x.times))
				}
			case ReliabilityTypeTimed:
				late := 0
				for _, tm := range x.times[1:] {
					if tm-x.times[0] >= time.Duration(pol.relVal)*time.Millisecond {
						late++
					}
				}
				if late > 1 {
					key := "lifetime-not-enforced"
					if x.frag {
						key = "lifetime-not-enforced-fragmented-message"
					}
					s.fail("C06", fmt.Sprintf("%d transmissions after the lifetime of %d ms expired (%s): side=%d tsn=%d sid=%d times=%v", late, pol.relVal, key, side, tsn, x.sid, x.times))
				}
			}
		}
	}
	for side := 0; side < 2; side++ {
		peer := 1 - side
		for sid, want := range s.sent[peer] {
			got := s.recvd[side][sid]
			gotSet := map[int]bool{}
			for _, m := range got {
				gotSet[m.idx] = true
			}
			// reliable messages (and DCEP) are all delivered
			for _, m := range want {
				if book.reliable[[3]int{peer, int(sid), m.idx}] && !gotSet[m.idx] {
					key := "reliable-message-lost"
					if m.ppi == PayloadTypeWebRTCDCEP {
						key = "dcep-message-lost"
					}
					s.fail("C07", fmt.Sprintf("a reliable message was never delivered although the network healed (%s): receiver side=%d sid=%d msg#%d unordered=%v of %d written, %d delivered", key, side, sid, m.idx, m.unordered, len(want), len(got)))
					break
				}
			}
			// ordered messages are delivered as a subsequence in writing order
			last := -1
			for _, m := range got {
				if m.unordered {
					continue
				}
				if m.idx < last {
					s.fail("C06", fmt.Sprintf("ordered messages delivered out of writing order (ordered-subsequence): side=%d sid=%d msg#%d after msg#%d", side, sid, m.idx, last))
					break
				}
				last = m.idx
			}
		}
	}
}

func TestVerifSimPR(t *testing.T) {
	seed := verifEnvInt("VERIF_SEED", 1)
	n := int(verifEnvInt("VERIF_N", 40))
	nEvents := int(verifEnvInt("VERIF_EVENTS", 250))
	st := &prStats{}
	if only := verifEnvInt("VERIF_ONLY", 0); only != 0 {
		runPRScenario(t, only, nEvents, st)
		return
	}
	for i := 0; i < n; i++ {
		fails := runPRScenario(t, seed*7000003+int64(i), nEvents, st)
		st.scenarios++
		st.fails += len(fails)
	}
	fmt.Printf("SIMPR scenarios=%d events=%d messages=%d abandoned_chunk_observations=%d forward_tsn_chunks=%d fails=%d\n",
		st.scenarios, st.events, st.msgs, st.abandonedSeen, st.fwd, st.fails)
}
