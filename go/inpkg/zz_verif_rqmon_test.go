// Verification harness (overlay; not part of pion/sctp): C11 / receiver-safety predicates evaluated on the
// implementation itself, independent of the Coq model.
//
//	TestVerifRQMon     queue level: byte counter = bytes held, a read that does not deliver changes nothing,
//	                   what a read delivers is one fragment run that leaves the queue, forward operations
//	                   remove only what they may, nothing is delivered twice.           failures: "RQMON <key> ..."
//	TestVerifRQWindow  association level (bare Association driven through handleChunk): the advertised
//	                   window equals buffer - bytes held for every stream the application was handed, the TSN
//	                   window and the zero-window admission rule, held chunk count bounded. failures: "RQWIN <key> ..."
package sctp

import (
	"errors"
	"fmt"
	"io"
	"math/rand"
	"net"
	"os"
	"strconv"
	"strings"
	"testing"
	"time"

	"github.com/pion/logging"
)

// ---- queue-level monitor ---------------------------------------------------------------------------

type rqHeld struct {
	c    *chunkPayloadData
	kind string // O U C OM UM MAP
	key  uint32
	set  int
	full bool // the set it sits in is complete
}

func rqHeldChunks(q *reassemblyQueue) []rqHeld {
	out := []rqHeld{}
	for i, s := range q.ordered {
		for _, c := range s.chunks {
			out = append(out, rqHeld{c, "O", uint32(s.ssn), i, s.isComplete()})
		}
	}
	for i, s := range q.unordered {
		for _, c := range s.chunks {
			out = append(out, rqHeld{c, "U", 0, i, s.isComplete()})
		}
	}
	for _, c := range q.unorderedChunks {
		out = append(out, rqHeld{c, "C", 0, 0, false})
	}
	for i, s := range q.orderedMID {
		for _, c := range s.chunks {
			out = append(out, rqHeld{c, "OM", s.mid, i, s.isComplete()})
		}
	}
	for i, s := range q.unorderedMID {
		for _, c := range s.chunks {
			out = append(out, rqHeld{c, "UM", s.mid, i, s.isComplete()})
		}
	}
	for _, s := range q.unorderedMIDMap {
		for _, c := range s.chunks {
			out = append(out, rqHeld{c, "MAP", s.mid, 0, s.isComplete()})
		}
	}
	return out
}

func rqHeldBytes(q *reassemblyQueue) int {
	n := 0
	for _, h := range rqHeldChunks(q) {
		n += len(h.c.userData)
	}
	return n
}

func TestVerifRQMon(t *testing.T) {
	seed := verifEnvInt("VERIF_SEED", 1)
	nCases := int(verifEnvInt("VERIF_N", 1500))
	nOps := int(verifEnvInt("VERIF_OPS", 120))
	rng := rand.New(rand.NewSource(seed + 7))
	fails, ops, delivered, removedByFwd := 0, 0, 0, 0
	fail := func(key, format string, a ...any) {
		fails++
		if fails <= 20 {
			fmt.Printf("RQMON %s seed=%d %s\n", key, seed, fmt.Sprintf(format, a...))
		}
	}
	for cse := 0; cse < nCases && fails < 50; cse++ {
		si := uint16(rng.Intn(4))
		maxEntries := uint32(0)
		if rng.Intn(3) == 0 {
			maxEntries = uint32(1 + rng.Intn(12))
		}
		idata := rng.Intn(2) == 0
		tsn0, ssn0, mid0, umid0 := rqNear32(rng, 40), rqNear16(rng, 12), rqNear32(rng, 12), rqNear32(rng, 12)
		st := &rqGenStats{}
		hostilePct := []int{0, 5, 30}[rng.Intn(3)]
		msgs := rqUniverse(rng, si, idata, 40, 5+rng.Intn(20), tsn0, ssn0, mid0, umid0, 1+rng.Intn(4), []int{0, 10}[rng.Intn(2)])
		q := newReassemblyQueue(si, maxEntries)
		q.nextSSN, q.nextMID = ssn0, mid0
		script := []string{fmt.Sprintf("new si=%d max=%d nextSSN=%d nextMID=%d", si, maxEntries, ssn0, mid0)}
		everDelivered := map[*chunkPayloadData]bool{}
		for i := 0; i < nOps; i++ {
			ops++
			before := rqHeldChunks(q)
			beforeDump := rqDumpString(q)
			inBefore := map[*chunkPayloadData]rqHeld{}
			for _, h := range before {
				inBefore[h.c] = h
			}
			r := rng.Intn(100)
			var op string
			var pushed *chunkPayloadData
			var readN int
			var readErr error
			var readBuf []byte
			var fwdKind int
			var fwdVal uint32
			switch {
			case r < 60:
				m := msgs[rng.Intn(len(msgs))]
				pushed = rqClone(m.frags[rng.Intn(len(m.frags))])
				if rng.Intn(100) < hostilePct {
					rqMutate(rng, pushed, si, st)
				}
				var sb strings.Builder
				rqChunkTokens(&sb, pushed)
				op = "push" + sb.String()
				_, _ = q.pushWithError(pushed)
			case r < 82:
				readBuf = make([]byte, []int{0, 1, 2, 4, 8, 16, 64, 300}[rng.Intn(8)])
				op = fmt.Sprintf("read %d", len(readBuf))
				readN, _, readErr = q.read(readBuf)
			default:
				fwdKind = 1 + rng.Intn(4)
				ref := msgs[rng.Intn(len(msgs))].frags[0]
				switch fwdKind {
				case 1:
					fwdVal = uint32(ref.streamSequenceNumber + uint16(rng.Intn(3)) - 1)
					op = fmt.Sprintf("fwdo %d", fwdVal)
					q.forwardTSNForOrdered(uint16(fwdVal))
				case 2:
					fwdVal = ref.tsn + uint32(rng.Intn(5)) - 1
					op = fmt.Sprintf("fwdu %d", fwdVal)
					q.forwardTSNForUnordered(fwdVal)
				case 3:
					fwdVal = mid0 + uint32(rng.Intn(len(msgs))) - 1
					op = fmt.Sprintf("fwdom %d", fwdVal)
					q.forwardTSNForOrderedMID(fwdVal)
				default:
					fwdVal = umid0 + uint32(rng.Intn(len(msgs))) - 1
					op = fmt.Sprintf("fwdum %d", fwdVal)
					q.forwardTSNForUnorderedMID(fwdVal)
				}
			}
			script = append(script, op)
			tail := strings.Join(script[max(0, len(script)-10):], " | ")
			after := rqHeldChunks(q)
			inAfter := map[*chunkPayloadData]bool{}
			for _, h := range after {
				inAfter[h.c] = true
			}
			gone := []rqHeld{}
			for _, h := range before {
				if !inAfter[h.c] {
					gone = append(gone, h)
				}
			}
			added := 0
			for _, h := range after {
				if _, ok := inBefore[h.c]; !ok {
					added++
					if h.c != pushed {
						fail("foreign-chunk-appeared", "case=%d op=%q script=[%s]", cse, op, tail)
					}
				}
			}
			// 1. counter = bytes held, always
			if held := rqHeldBytes(q); q.getNumBytes() != held {
				fail("counter-differs-from-held", "case=%d nBytes=%d held=%d script=[%s]", cse, q.getNumBytes(), held, tail)
			}
			switch {
			case pushed != nil:
				if len(gone) != 0 || added > 1 {
					fail("push-changed-other-chunks", "case=%d gone=%d added=%d script=[%s]", cse, len(gone), added, tail)
				}
			case readBuf != nil:
				if readErr != nil {
					// 3. failed read is the identity
					if rqDumpString(q) != beforeDump {
						fail("failed-read-changed-queue", "case=%d err=%v script=[%s]", cse, readErr, tail)
					}
					if errors.Is(readErr, io.ErrShortBuffer) && readN <= len(readBuf) {
						fail("short-buffer-without-need", "case=%d n=%d buf=%d script=[%s]", cse, readN, len(readBuf), tail)
					}
					break
				}
				// 2. delivered = exactly one set, in order, a B..E run of one SSN/MID, bytes intact, never seen before
				delivered++
				if len(gone) == 0 || added != 0 {
					fail("read-delivered-nothing-held", "case=%d n=%d script=[%s]", cse, readN, tail)
					break
				}
				var data []byte
				for k, h := range gone {
					data = append(data, h.c.userData...)
					if everDelivered[h.c] {
						fail("chunk-delivered-twice", "case=%d tsn=%d script=[%s]", cse, h.c.tsn, tail)
					}
					everDelivered[h.c] = true
					if h.kind != gone[0].kind || h.set != gone[0].set || h.set != 0 {
						fail("delivered-from-several-sets", "case=%d script=[%s]", cse, tail)
					}
					if k > 0 {
						p := gone[k-1].c
						if h.kind == "O" || h.kind == "U" {
							if h.c.tsn != p.tsn+1 {
								fail("delivered-tsn-gap", "case=%d %d after %d script=[%s]", cse, h.c.tsn, p.tsn, tail)
							}
						} else if h.c.fragmentSequenceNumber != p.fragmentSequenceNumber+1 {
							fail("delivered-fsn-gap", "case=%d script=[%s]", cse, tail)
						}
						if (h.kind == "O" && h.c.streamSequenceNumber != p.streamSequenceNumber) ||
							((h.kind == "OM" || h.kind == "UM") && h.c.messageIdentifier != p.messageIdentifier) ||
							h.c.unordered != p.unordered {
							fail("delivered-spliced-messages", "case=%d script=[%s]", cse, tail)
						}
					}
				}
				first, last := gone[0].c, gone[len(gone)-1].c
				if !first.beginningFragment || !last.endingFragment {
					fail("delivered-without-B-or-E", "case=%d script=[%s]", cse, tail)
				}
				if (gone[0].kind == "OM" || gone[0].kind == "UM") && first.fragmentSequenceNumber != 0 {
					fail("delivered-fsn-not-from-zero", "case=%d script=[%s]", cse, tail)
				}
				if readN != len(data) || string(readBuf[:readN]) != string(data) {
					fail("delivered-bytes-differ", "case=%d n=%d want=%d script=[%s]", cse, readN, len(data), tail)
				}
			default:
				// 4. forward operations remove only what they may
				removedByFwd += len(gone)
				if added != 0 {
					fail("forward-added-chunks", "case=%d script=[%s]", cse, tail)
				}
				for _, h := range gone {
					ok := false
					switch fwdKind {
					case 1:
						ok = h.kind == "O" && !h.full && sna16LTE(uint16(h.key), uint16(fwdVal))
					case 2:
						ok = h.kind == "C" && sna32LTE(h.c.tsn, fwdVal)
					case 3:
						ok = h.kind == "OM" && !h.full && sna32LTE(h.key, fwdVal)
					case 4:
						ok = h.kind == "MAP" && sna32LTE(h.key, fwdVal)
					}
					if !ok {
						fail("forward-removed-too-much", "case=%d kind=%s key=%d tsn=%d complete=%v op=%q script=[%s]",
							cse, h.kind, h.key, h.c.tsn, h.full, op, tail)
					}
				}
			}
		}
	}
	fmt.Printf("RQMONSUM cases=%d ops=%d delivered_messages=%d chunks_removed_by_forward=%d failures=%d\n",
		nCases, ops, delivered, removedByFwd, fails)
}

// ---- association-level monitor ---------------------------------------------------------------------

type rqNopConn struct{ closed chan struct{} }

func (c *rqNopConn) Read([]byte) (int, error)    { <-c.closed; return 0, io.EOF }
func (c *rqNopConn) Write(b []byte) (int, error) { return len(b), nil }
func (c *rqNopConn) Close() error {
	select {
	case <-c.closed:
	default:
		close(c.closed)
	}
	return nil
}
func (c *rqNopConn) LocalAddr() net.Addr              { return nil }
func (c *rqNopConn) RemoteAddr() net.Addr             { return nil }
func (c *rqNopConn) SetDeadline(time.Time) error      { return nil }
func (c *rqNopConn) SetReadDeadline(time.Time) error  { return nil }
func (c *rqNopConn) SetWriteDeadline(time.Time) error { return nil }

// rqBareAssoc builds an established Association without running its loops; inbound chunks are fed
// through handleChunk exactly as the read loop would after decoding a packet.
func rqBareAssoc(buf uint32, interleaving bool, peerTSN uint32) *Association {
	cfg := &Config{NetConn: &rqNopConn{closed: make(chan struct{})}, LoggerFactory: logging.NewDefaultLoggerFactory(),
		MaxReceiveBufferSize: buf}
	a := createAssociationFromConfigWithTsn(cfg, 1000)
	a.lock.Lock()
	a.setState(established)
	a.payloadQueue.init(peerTSN - 1)
	a.useForwardTSN = true
	a.useInterleaving = interleaving
	a.lock.Unlock()
	return a
}

func rqStreamHeld(s *Stream) (bytes int, chunks int) {
	s.lock.RLock()
	defer s.lock.RUnlock()
	for _, h := range rqHeldChunks(s.reassemblyQueue) {
		bytes += len(h.c.userData)
		chunks++
	}
	return
}

func TestVerifRQWindow(t *testing.T) {
	seed := verifEnvInt("VERIF_SEED", 1)
	nCases := int(verifEnvInt("VERIF_N", 120))
	nOps := int(verifEnvInt("VERIF_OPS", 250))
	rng := rand.New(rand.NewSource(seed + 13))
	fails, events, sacksChecked, zeroWindowEvents, resets, stored := 0, 0, 0, 0, 0, 0
	seen := map[string]int{}
	fail := func(key, format string, a ...any) {
		fails++
		seen[key]++
		if seen[key] <= 3 {
			fmt.Printf("RQWIN %s seed=%d %s\n", key, seed, fmt.Sprintf(format, a...))
		}
	}

	// --- corpus (corpus/rqwin.ops): minimised association-level witnesses, replayed first ---
	if path := os.Getenv("VERIF_CORPUS"); path != "" {
		rqWinReplay(path, fail)
	}

	// --- scenario A: random arrivals / reads / inbound stream resets ---
	for cse := 0; cse < nCases; cse++ {
		buf := []uint32{64, 200, 1500, 4096, 1 << 20}[rng.Intn(5)]
		idata := rng.Intn(2) == 0
		peerTSN := rqNear32(rng, 60)
		a := rqBareAssoc(buf, idata, peerTSN)
		all := []*Stream{} // every stream object the application was handed
		drain := func() {
			for {
				select {
				case s := <-a.acceptCh:
					all = append(all, s)
				default:
					return
				}
			}
		}
		// universe: a few streams, sender-like messages with consecutive TSNs over all streams
		type arrival struct{ c *chunkPayloadData }
		var arrivals []arrival
		tsn := peerTSN
		nStreams := 1 + rng.Intn(3)
		ssn := make([]uint16, nStreams)
		mid := make([]uint32, nStreams)
		for m := 0; m < 60; m++ {
			si := rng.Intn(nStreams)
			nf := 1 + rng.Intn(3)
			unordered := rng.Intn(5) == 0
			for f := 0; f < nf; f++ {
				n := rng.Intn(40)
				if rng.Intn(4) == 0 {
					n = int(buf) / 3
				}
				c := &chunkPayloadData{tsn: tsn, streamIdentifier: uint16(si), unordered: unordered,
					beginningFragment: f == 0, endingFragment: f == nf-1, payloadType: PayloadTypeWebRTCBinary,
					userData: make([]byte, n), iData: idata, streamSequenceNumber: ssn[si],
					messageIdentifier: mid[si], fragmentSequenceNumber: uint32(f)}
				if idata {
					c.typ = ctIData
					c.streamSequenceNumber = uint16(mid[si])
				}
				tsn++
				arrivals = append(arrivals, arrival{c})
			}
			if !unordered || idata {
				ssn[si]++
				mid[si]++
			}
		}
		script := []string{fmt.Sprintf("buf=%d idata=%v peerTSN=%d", buf, idata, peerTSN)}
		released := 3
		rsn := uint32(500)
		for i := 0; i < nOps; i++ {
			events++
			if released < len(arrivals) && rng.Intn(2) == 0 {
				released++
			}
			r := rng.Intn(100)
			switch {
			case r < 70:
				lo := max(0, released-12)
				c := rqClone(arrivals[lo+rng.Intn(released-lo)].c)
				a.lock.RLock()
				creditBefore := a.getMyReceiverWindowCredit()
				lastTSN, haveLast := a.payloadQueue.getLastTSNReceived()
				cum, maxOff := a.payloadQueue.getcumulativeTSN(), a.payloadQueue.maxTSNOffset
				a.lock.RUnlock()
				heldBefore := 0
				drain()
				for _, s := range all {
					_, n := rqStreamHeld(s)
					heldBefore += n
				}
				script = append(script, fmt.Sprintf("data tsn=%d si=%d len=%d", c.tsn, c.streamIdentifier, len(c.userData)))
				_ = a.handleChunk(nil, c)
				drain()
				heldAfter := 0
				for _, s := range all {
					_, n := rqStreamHeld(s)
					heldAfter += n
				}
				if heldAfter > heldBefore {
					stored++
					if !(sna32GT(c.tsn, cum) && sna32LTE(c.tsn, cum+maxOff)) {
						fail("stored-outside-tsn-window", "tsn=%d cum=%d maxoff=%d", c.tsn, cum, maxOff)
					}
					if creditBefore == 0 {
						zeroWindowEvents++
						if !haveLast || !sna32LT(c.tsn, lastTSN) {
							fail("stored-at-zero-window-not-a-gap-fill", "tsn=%d last=%d", c.tsn, lastTSN)
						}
					}
				}
			case r < 90:
				drain()
				if len(all) == 0 {
					continue
				}
				s := all[rng.Intn(len(all))]
				s.lock.RLock()
				readable := s.reassemblyQueue.isReadable()
				s.lock.RUnlock()
				if !readable {
					continue
				}
				b := make([]byte, []int{1, 16, 1 << 21}[rng.Intn(3)])
				n, _, err := s.ReadSCTP(b)
				script = append(script, fmt.Sprintf("read si=%d buf=%d -> n=%d err=%v", s.streamIdentifier, len(b), n, err))
			default:
				// inbound RECONFIG: the peer resets its outgoing stream (all its data up to lastTSN was delivered)
				a.lock.RLock()
				last := a.peerLastTSN()
				a.lock.RUnlock()
				sid := uint16(rng.Intn(nStreams))
				resets++
				rsn++
				script = append(script, fmt.Sprintf("reset-request si=%d lastTSN=%d", sid, last))
				_ = a.handleChunk(nil, &chunkReconfig{paramA: &paramOutgoingResetRequest{
					reconfigRequestSequenceNumber: rsn, reconfigResponseSequenceNumber: rsn, senderLastTSN: last,
					streamIdentifiers: []uint16{sid}}})
			}
			// the window a SACK would advertise now vs the bytes really held for the application
			drain()
			held, heldDetached := 0, 0
			a.lock.RLock()
			for _, s := range all {
				n, _ := rqStreamHeld(s)
				held += n
				if a.streams[s.streamIdentifier] != s {
					heldDetached += n
				}
			}
			rwnd := a.getMyReceiverWindowCredit()
			a.lock.RUnlock()
			sacksChecked++
			want := uint32(0)
			if uint32(held) < buf {
				want = buf - uint32(held)
			}
			if rwnd != want {
				tail := strings.Join(script[max(0, len(script)-8):], " | ")
				if heldDetached > 0 {
					fail("window-ignores-unread-bytes-of-reset-stream",
						"a_rwnd=%d buffer=%d held=%d (of which %d in streams removed from the map by an inbound reset) expected=%d script=[%s]",
						rwnd, buf, held, heldDetached, want, tail)
				} else {
					fail("window-formula-mismatch", "a_rwnd=%d buffer=%d held=%d expected=%d script=[%s]", rwnd, buf, held, want, tail)
				}
				break
			}
		}
		_ = a.close()
	}

	// --- scenario B (D13): DATA chunks with an empty payload, one message ahead of the read cursor ---
	{
		buf := uint32(4096)
		a := rqBareAssoc(buf, false, 1)
		n := int(verifEnvInt("VERIF_ZEROLEN", 20000))
		for i := 0; i < n; i++ {
			_ = a.handleChunk(nil, &chunkPayloadData{tsn: uint32(1 + i), streamIdentifier: 0, streamSequenceNumber: 1,
				beginningFragment: true, endingFragment: true, payloadType: PayloadTypeWebRTCBinary, userData: []byte{}})
		}
		s := <-a.acceptCh
		_, chunks := rqStreamHeld(s)
		a.lock.RLock()
		rwnd, maxOff, cum := a.getMyReceiverWindowCredit(), a.payloadQueue.maxTSNOffset, a.peerLastTSN()
		a.lock.RUnlock()
		// with non-empty payloads the number of chunks held can never exceed buffer + TSN window
		if uint32(chunks) > buf+maxOff {
			fail("zero-length-chunks-held-without-bound",
				"after %d DATA chunks with empty payload (tsn 1..%d, si 0, ssn 1, B+E): chunks_held=%d > buffer %d + tsn window %d; a_rwnd=%d (still the whole buffer) cumTSN=%d readable=%v",
				n, n, chunks, buf, maxOff, rwnd, cum, s.reassemblyQueue.isReadable())
		}
		_ = a.close()
	}
	// --- scenario C (former D12 witness, repaired by 243f816; kept as a regression): a peer that respects the advertised
	//     window, an application that does not read, and the peer closing (resetting) its outgoing stream after its data
	//     was acknowledged: the unread bytes of the reset streams keep counting, so the peer is stopped after one buffer ---
	{
		buf := uint32(4096)
		a := rqBareAssoc(buf, false, 1)
		tsn, rsn := uint32(1), uint32(900)
		var streams []*Stream
		rounds := 6
		sent := 0
		for round := 0; round < rounds; round++ {
			ssn := uint16(0)
			for {
				a.lock.RLock()
				rwnd := a.getMyReceiverWindowCredit()
				a.lock.RUnlock()
				if rwnd < 512 { // the peer honours a_rwnd: it never sends more than was advertised
					break
				}
				_ = a.handleChunk(nil, &chunkPayloadData{tsn: tsn, streamIdentifier: 7, streamSequenceNumber: ssn,
					beginningFragment: true, endingFragment: true, payloadType: PayloadTypeWebRTCBinary, userData: make([]byte, 512)})
				tsn++
				ssn++
				sent += 512
			}
			rsn++
			_ = a.handleChunk(nil, &chunkReconfig{paramA: &paramOutgoingResetRequest{reconfigRequestSequenceNumber: rsn,
				reconfigResponseSequenceNumber: rsn, senderLastTSN: tsn - 1, streamIdentifiers: []uint16{7}}})
			for len(a.acceptCh) > 0 {
				streams = append(streams, <-a.acceptCh)
			}
		}
		held := 0
		for _, s := range streams {
			n, _ := rqStreamHeld(s)
			held += n
		}
		a.lock.RLock()
		rwnd := a.getMyReceiverWindowCredit()
		a.lock.RUnlock()
		if uint32(held) > buf || rwnd != buf-min(buf, uint32(held)) {
			seen["window-ignores-unread-bytes-of-reset-stream"] = 0
			fail("window-ignores-unread-bytes-of-reset-stream",
				"window-respecting peer, %d rounds of [512-byte messages on stream 7 while a_rwnd >= 512; outgoing-stream reset with lastTSN = last data TSN], application never reads: unread bytes held=%d in %d stream objects (all readable) > buffer %d; a_rwnd=%d",
				rounds, held, len(streams), buf, rwnd)
		}
		_ = a.close()
	}
	fmt.Printf("RQWINSUM cases=%d events=%d windows_checked=%d chunks_stored=%d stored_at_zero_window=%d inbound_resets=%d failures=%d\n",
		nCases, events, sacksChecked, stored, zeroWindowEvents, resets, fails)
}

// rqWinReplay replays scripted association-level scenarios.  Lines:
//
//	assoc <buffer> <idata 0|1> <peerInitialTSN>      start a bare association
//	data <tsn> <si> <ssn-or-mid> <fsn> <B> <E> <U> <len>   inbound DATA / I-DATA chunk
//	zdata <count> <firstTSN> <si> <ssn>              <count> DATA chunks (B+E) with an empty payload, consecutive TSNs
//	reset <si> <senderLastTSN>                       inbound RECONFIG outgoing-SSN-reset request
//	read <si> <buflen>                               application read on the newest stream object of that id (if readable)
//
// After every line the advertised window is compared with buffer - bytes held by every stream object handed to the
// application, and the number of held chunks with buffer + TSN window.
func rqWinReplay(path string, fail func(key, format string, a ...any)) {
	data, err := os.ReadFile(path)
	if err != nil {
		return
	}
	var a *Association
	var all []*Stream
	var buf uint32
	rsn := uint32(7000)
	num := func(s string) uint64 { v, _ := strconv.ParseUint(s, 10, 64); return v }
	script := []string{}
	reportedWin, reportedMem := false, false
	check := func() {
		for len(a.acceptCh) > 0 {
			all = append(all, <-a.acceptCh)
		}
		held, detached, chunks := 0, 0, 0
		a.lock.RLock()
		for _, s := range all {
			n, c := rqStreamHeld(s)
			held += n
			chunks += c
			if a.streams[s.streamIdentifier] != s {
				detached += n
			}
		}
		rwnd, maxOff := a.getMyReceiverWindowCredit(), a.payloadQueue.maxTSNOffset
		a.lock.RUnlock()
		want := uint32(0)
		if uint32(held) < buf {
			want = buf - uint32(held)
		}
		if rwnd != want && !reportedWin {
			reportedWin = true
			key := "window-formula-mismatch"
			if detached > 0 {
				key = "window-ignores-unread-bytes-of-reset-stream"
			}
			fail(key, "corpus: a_rwnd=%d buffer=%d held=%d (%d in streams removed from the map by an inbound reset) expected=%d script=[%s]",
				rwnd, buf, held, detached, want, strings.Join(script, " | "))
		}
		if uint32(chunks) > buf+maxOff && !reportedMem {
			reportedMem = true
			fail("zero-length-chunks-held-without-bound", "corpus: chunks_held=%d > buffer %d + tsn window %d; a_rwnd=%d script=[%s]",
				chunks, buf, maxOff, rwnd, strings.Join(script, " | "))
		}
	}
	for _, line := range strings.Split(string(data), "\n") {
		f := strings.Fields(line)
		if len(f) == 0 || strings.HasPrefix(f[0], "#") {
			continue
		}
		switch {
		case f[0] == "assoc" && len(f) >= 4:
			if a != nil {
				_ = a.close()
			}
			buf = uint32(num(f[1]))
			a = rqBareAssoc(buf, f[2] == "1", uint32(num(f[3])))
			all, script, reportedWin, reportedMem = nil, []string{line}, false, false
			continue
		case a == nil:
			continue
		case f[0] == "data" && len(f) >= 9:
			c := &chunkPayloadData{tsn: uint32(num(f[1])), streamIdentifier: uint16(num(f[2])),
				fragmentSequenceNumber: uint32(num(f[4])), beginningFragment: f[5] == "1", endingFragment: f[6] == "1",
				unordered: f[7] == "1", userData: make([]byte, num(f[8])), payloadType: PayloadTypeWebRTCBinary}
			if a.useInterleaving {
				c.iData, c.typ = true, ctIData
				c.messageIdentifier = uint32(num(f[3]))
				c.streamSequenceNumber = uint16(c.messageIdentifier)
			} else {
				c.streamSequenceNumber = uint16(num(f[3]))
			}
			_ = a.handleChunk(nil, c)
		case f[0] == "zdata" && len(f) >= 5:
			for i := uint64(0); i < num(f[1]); i++ {
				_ = a.handleChunk(nil, &chunkPayloadData{tsn: uint32(num(f[2]) + i), streamIdentifier: uint16(num(f[3])),
					streamSequenceNumber: uint16(num(f[4])), beginningFragment: true, endingFragment: true,
					payloadType: PayloadTypeWebRTCBinary, userData: []byte{}})
			}
		case f[0] == "reset" && len(f) >= 3:
			rsn++
			_ = a.handleChunk(nil, &chunkReconfig{paramA: &paramOutgoingResetRequest{reconfigRequestSequenceNumber: rsn,
				reconfigResponseSequenceNumber: rsn, senderLastTSN: uint32(num(f[2])), streamIdentifiers: []uint16{uint16(num(f[1]))}}})
		case f[0] == "read" && len(f) >= 3:
			for len(a.acceptCh) > 0 {
				all = append(all, <-a.acceptCh)
			}
			for i := len(all) - 1; i >= 0; i-- {
				if s := all[i]; s.streamIdentifier == uint16(num(f[1])) {
					s.lock.RLock()
					ok := s.reassemblyQueue.isReadable()
					s.lock.RUnlock()
					if ok {
						_, _, _ = s.ReadSCTP(make([]byte, num(f[2])))
					}
					break
				}
			}
		default:
			continue
		}
		script = append(script, line)
		check()
	}
	if a != nil {
		_ = a.close()
	}
}
