(* Invariants and specifications of the receive-queue model (coq/model/RPQ.v). *)
From Coq Require Import ZArith Znumtheory Bool List Lia.
From Coq Require Import ZifyBool.
From Sctp Require Import Gen SnaProofs RPQ.
Import ListNotations.
Open Scope Z_scope.
Ltac Zify.zify_post_hook ::= Z.div_mod_to_equations.

Definition M32 : Z := 4294967296.
Definition H31 : Z := 2147483648.
Definition dist (a b : Z) : Z := (b - a) mod M32.
Definition R (q : rpq) : Z := 64 * nwords q.

(* ---------- serial comparisons as distances from the cumulative point ---------- *)

Lemma dist_range a b : 0 <= dist a b < M32.
Proof. unfold dist, M32. lia. Qed.

Lemma wrap_dist c t : in32 c -> in32 t -> wrap32 (c + dist c t) = t.
Proof. unfold in32, wrap32, dist, M32. lia. Qed.

Lemma dist_wrap c o : in32 c -> 0 <= o < M32 -> dist c (wrap32 (c + o)) = o.
Proof. unfold in32, wrap32, dist, M32. lia. Qed.

Lemma lte_cum_dist c t : in32 c -> in32 t ->
  sna32LTE t c = true <-> (dist c t = 0 \/ dist c t > H31).
Proof. intros. rewrite sna32LTE_spec by assumption. unfold in32, dist, M32, H31 in *. lia. Qed.

Lemma gt_off_dist c t m : in32 c -> in32 t -> 0 <= m < H31 ->
  sna32GT t (wrap32 (c + m)) = true <-> (m < dist c t <= m + H31).
Proof.
  intros. rewrite sna32GT_spec; unfold in32, wrap32, dist, M32, H31 in *; lia.
Qed.

Lemma gt_tail_dist c tl t : in32 c -> in32 t -> in32 tl -> dist c tl < H31 ->
  sna32GT t tl = true <-> (dist c tl < dist c t <= dist c tl + H31).
Proof.
  intros. rewrite sna32GT_spec by assumption. unfold in32, dist, M32, H31 in *. lia.
Qed.

Lemma lt_cum_dist c t : in32 c -> in32 t ->
  sna32LT c t = true <-> 0 < dist c t < H31.
Proof. intros. rewrite sna32LT_spec by assumption. unfold dist, M32, H31. tauto. Qed.

Lemma lte_tail_dist c tl t : in32 c -> in32 t -> in32 tl -> dist c tl < H31 ->
  sna32LTE tl t = true <-> (dist c tl <= dist c t < dist c tl + H31).
Proof.
  intros. rewrite sna32LTE_spec by assumption. unfold in32, dist, M32, H31 in *. lia.
Qed.

(* ---------- the ring index is a residue modulo 64*nwords ---------- *)

Lemma pos_is_mod q t : 0 < nwords q -> pos q t = t mod R q.
Proof.
  intros HW. unfold pos, R.
  rewrite (Z.rem_mul_r t 64 (nwords q)) by lia. lia.
Qed.

Definition ring_ok (q : rpq) : Prop := 0 < nwords q /\ 67108864 mod nwords q = 0.

Lemma pos_wrap q x : ring_ok q -> pos q (wrap32 x) = x mod R q.
Proof.
  intros [HW Hd]. rewrite pos_is_mod by assumption. unfold wrap32.
  symmetry. apply Zmod_div_mod; unfold R; try lia.
  apply Z.mod_divide in Hd; [|lia]. destruct Hd as [k Hk].
  exists k. lia.
Qed.

Lemma mod_inj_window r a o1 o2 : 0 < r -> 0 <= o1 < r -> 0 <= o2 < r ->
  (a + o1) mod r = (a + o2) mod r -> o1 = o2.
Proof.
  intros Hr H1 H2 E.
  assert (D : ((a + o1) - (a + o2)) mod r = 0).
  { rewrite Zminus_mod, E, Z.sub_diag. apply Z.mod_0_l. lia. }
  replace (a + o1 - (a + o2)) with (o1 - o2) in D by lia.
  destruct (Z.eq_dec o1 o2) as [|N]; [assumption|exfalso].
  apply Z.mod_divide in D; [|lia]. destruct D as [k Hk].
  assert (k = 0 \/ k >= 1 \/ k <= -1) as [K|[K|K]] by lia; nia.
Qed.

(* ---------- sets of positions ---------- *)

Lemma memz_In p l : memz p l = true <-> In p l.
Proof.
  unfold memz. rewrite existsb_exists. split.
  - intros [x [Hx E]]. apply Z.eqb_eq in E. subst. assumption.
  - intros H. exists p. split; [assumption|apply Z.eqb_refl].
Qed.

Lemma In_remz x p l : In x (remz p l) <-> In x l /\ x <> p.
Proof. unfold remz. rewrite filter_In. rewrite negb_true_iff, Z.eqb_neq. tauto. Qed.

Lemma NoDup_remz p l : NoDup l -> NoDup (remz p l).
Proof. intros. unfold remz. apply NoDup_filter. assumption. Qed.

Lemma length_remz p l : NoDup l -> In p l -> Z.of_nat (length (remz p l)) = Z.of_nat (length l) - 1.
Proof.
  induction l as [|x xs IH]; intros ND HI; [destruct HI|].
  inversion ND as [|? ? Hnx NDxs]; subst. cbn [remz filter].
  destruct (Z.eq_dec x p) as [->|Ne].
  - rewrite Z.eqb_refl. cbn [negb].
    assert (E : filter (fun x => negb (x =? p)) xs = xs).
    { clear IH ND NDxs HI. induction xs as [|y ys IHy]; [reflexivity|].
      cbn. destruct (Z.eqb_spec y p) as [->|]; [exfalso; apply Hnx; left; reflexivity|].
      cbn. f_equal. apply IHy. intros H. apply Hnx. right. assumption. }
    rewrite E. cbn [length]. lia.
  - apply Z.eqb_neq in Ne. rewrite Ne. cbn [negb length].
    destruct HI as [->|HI]; [rewrite Z.eqb_refl in Ne; discriminate|].
    fold (remz p xs). rewrite Nat2Z.inj_succ, (IH NDxs HI). cbn [length]. lia.
Qed.

Lemma In_addz x p l : In x (addz p l) <-> In x l \/ x = p.
Proof.
  unfold addz. destruct (memz p l) eqn:E.
  - apply memz_In in E. split; [tauto|]. intros [H| ->]; assumption.
  - cbn. split; intros [H|H]; auto.
Qed.

(* ---------- invariant ---------- *)

Definition held (q : rpq) (o : Z) : Prop :=
  1 <= o <= dist (cum q) (tail q) /\ In ((cum q + o) mod R q) (bits q).

Record Inv (q : rpq) : Prop := {
  inv_cum : in32 (cum q);
  inv_tail : in32 (tail q);
  inv_ring : ring_ok q;
  inv_off : 0 <= max_off q < H31 /\ max_off q <= R q;
  inv_dist : dist (cum q) (tail q) <= max_off q;
  inv_bits : forall p, In p (bits q) -> exists o, held q o /\ p = (cum q + o) mod R q;
  inv_nodup : NoDup (bits q);
  inv_size : size q = Z.of_nat (length (bits q));
  inv_tail_held : size q > 0 -> held q (dist (cum q) (tail q));
  inv_empty : size q = 0 -> tail q = cum q
}.

Lemma Rpos q : ring_ok q -> 0 < R q.
Proof. intros [H _]. unfold R. lia. Qed.

Lemma held_inj q o1 o2 : Inv q -> 1 <= o1 <= max_off q -> 1 <= o2 <= max_off q ->
  (cum q + o1) mod R q = (cum q + o2) mod R q -> o1 = o2.
Proof.
  intros I H1 H2 E. destruct (inv_off q I) as [? ?].
  assert (o1 - 1 = o2 - 1); [|lia].
  apply (mod_inj_window (R q) (cum q + 1)).
  - apply Rpos, I.
  - lia.
  - lia.
  - replace (cum q + 1 + (o1 - 1)) with (cum q + o1) by lia.
    replace (cum q + 1 + (o2 - 1)) with (cum q + o2) by lia. assumption.
Qed.

(* has_chunk characterised through the distance from the cumulative point *)
Lemma has_chunk_spec q t : Inv q -> in32 t ->
  has_chunk q t = true <-> held q (dist (cum q) t).
Proof.
  intros I Ht. pose proof (inv_cum q I) as Hc. pose proof (inv_tail q I) as Htl.
  pose proof (inv_dist q I) as Hd. destruct (inv_off q I) as [Hm HmR].
  unfold has_chunk.
  destruct (size q =? 0) eqn:Es.
  - cbn [orb]. apply Z.eqb_eq in Es. split; [discriminate|].
    intros [_ Hin]. destruct (bits q) eqn:Eb; [destruct Hin|].
    rewrite (inv_size q I), Eb in Es. cbn in Es. lia.
  - cbn [orb].
    destruct (sna32LTE t (cum q)) eqn:E1.
    + cbn [orb]. apply lte_cum_dist in E1; try assumption.
      split; [discriminate|]. intros [Hr _]. unfold H31 in *. lia.
    + cbn [orb]. destruct (sna32GT t (tail q)) eqn:E2.
      * apply gt_tail_dist with (c := cum q) in E2; try assumption; [|lia].
        split; [discriminate|]. intros [Hr _]. lia.
      * rewrite memz_In, pos_is_mod by apply I.
        assert (N1 : ~ (dist (cum q) t = 0 \/ dist (cum q) t > H31)).
        { intros X. apply lte_cum_dist in X; try assumption. congruence. }
        assert (N2 : ~ (dist (cum q) (tail q) < dist (cum q) t <= dist (cum q) (tail q) + H31)).
        { intros X. apply gt_tail_dist in X; try assumption; [congruence|lia]. }
        pose proof (dist_range (cum q) t) as Hr. pose proof (dist_range (cum q) (tail q)) as Hr2.
        assert (EQ : t mod R q = (cum q + dist (cum q) t) mod R q).
        { rewrite <- (pos_wrap q (cum q + dist (cum q) t)) by apply I.
          rewrite wrap_dist by assumption. symmetry. apply pos_is_mod. apply I. }
        rewrite EQ. unfold held. unfold H31, M32 in *. split.
        -- intros Hin. split; [lia|assumption].
        -- intros [_ Hin]. assumption.
Qed.

Lemma in_bits_held q o : Inv q -> 1 <= o <= max_off q ->
  In ((cum q + o) mod R q) (bits q) -> held q o.
Proof.
  intros I Ho Hin. destruct (inv_bits q I _ Hin) as [o' [Hh E]].
  assert (o = o'); [|subst; assumption].
  destruct Hh as [Hr _]. pose proof (inv_dist q I).
  apply (held_inj q); try assumption; lia.
Qed.

Lemma size_nonneg q : Inv q -> 0 <= size q.
Proof. intros I. rewrite (inv_size q I). lia. Qed.

(* ---------- push ---------- *)

Definition push_ok (q : rpq) (t : Z) : Prop :=
  1 <= dist (cum q) t <= max_off q /\ ~ held q (dist (cum q) t).

Lemma push_result q t : Inv q -> in32 t ->
  (snd (push q t) = true <-> push_ok q t).
Proof.
  intros I Ht. pose proof (inv_cum q I) as Hc. destruct (inv_off q I) as [Hm HmR].
  pose proof (dist_range (cum q) t) as Hr.
  unfold push, push_ok.
  destruct (sna32GT t (wrap32 (cum q + max_off q))) eqn:E1.
  - apply gt_off_dist in E1; try assumption. cbn [snd]. split; [discriminate|]. intros [? _]. lia.
  - assert (N1 : ~ (max_off q < dist (cum q) t <= max_off q + H31)).
    { intros X. apply gt_off_dist in X; try assumption. congruence. }
    destruct (sna32LTE t (cum q)) eqn:E2.
    + cbn [orb snd]. apply lte_cum_dist in E2; try assumption.
      split; [discriminate|]. intros [? _]. unfold H31 in *. lia.
    + cbn [orb]. assert (N2 : ~ (dist (cum q) t = 0 \/ dist (cum q) t > H31)).
      { intros X. apply lte_cum_dist in X; try assumption. congruence. }
      destruct (has_chunk q t) eqn:E3; cbn [snd].
      * apply has_chunk_spec in E3; try assumption. split; [discriminate|]. intros [_ ?]. contradiction.
      * split; [intros _|reflexivity]. split.
        -- unfold H31, M32 in *. lia.
        -- intros X. apply has_chunk_spec in X; try assumption. congruence.
Qed.

Lemma push_reject_state q t : snd (push q t) = false ->
  cum (fst (push q t)) = cum q /\ tail (fst (push q t)) = tail q /\ size (fst (push q t)) = size q /\
  bits (fst (push q t)) = bits q /\ max_off (fst (push q t)) = max_off q /\ nwords (fst (push q t)) = nwords q.
Proof.
  unfold push.
  destruct (sna32GT t (wrap32 (cum q + max_off q))); [cbn; tauto|].
  destruct (sna32LTE t (cum q) || has_chunk q t); cbn; [tauto|discriminate].
Qed.

Lemma push_accept_state q t : snd (push q t) = true ->
  fst (push q t) = mkRpq (cum q) (if sna32GT t (tail q) then t else tail q) (size q + 1)
                         (addz (pos q t) (bits q)) (dups q) (max_off q) (nwords q).
Proof.
  unfold push.
  destruct (sna32GT t (wrap32 (cum q + max_off q))); [cbn; discriminate|].
  destruct (sna32LTE t (cum q) || has_chunk q t); cbn; [discriminate|reflexivity].
Qed.

Lemma push_inv q t : Inv q -> in32 t -> Inv (fst (push q t)).
Proof.
  intros I Ht. destruct (snd (push q t)) eqn:Er.
  2:{ destruct (push_reject_state q t Er) as (E1 & E2 & E3 & E4 & E5 & E6).
      destruct I. constructor; unfold held, R, ring_ok in *; rewrite ?E1, ?E2, ?E3, ?E4, ?E5, ?E6; assumption. }
  pose proof Er as Ok. apply push_result in Ok; try assumption. destruct Ok as [Hd Hnh].
  rewrite (push_accept_state q t Er).
  pose proof (inv_cum q I) as Hc. pose proof (inv_tail q I) as Htl.
  destruct (inv_off q I) as [Hm HmR]. pose proof (inv_dist q I) as Hdt.
  pose proof (dist_range (cum q) (tail q)) as Hr2.
  set (d := dist (cum q) t) in *.
  assert (Ep : pos q t = (cum q + d) mod R q).
  { rewrite <- (pos_wrap q (cum q + d)) by apply I. unfold d. rewrite wrap_dist by assumption. reflexivity. }
  assert (Hnin : ~ In ((cum q + d) mod R q) (bits q)).
  { intros X. apply Hnh. apply in_bits_held; assumption. }
  assert (Ea : addz (pos q t) (bits q) = pos q t :: bits q).
  { unfold addz. destruct (memz (pos q t) (bits q)) eqn:Em; [|reflexivity].
    apply memz_In in Em. rewrite Ep in Em. contradiction. }
  rewrite Ea.
  (* the new tail *)
  assert (Etail : dist (cum q) (if sna32GT t (tail q) then t else tail q) = Z.max (dist (cum q) (tail q)) d
                  /\ in32 (if sna32GT t (tail q) then t else tail q)).
  { destruct (sna32GT t (tail q)) eqn:Eg.
    - apply gt_tail_dist with (c := cum q) in Eg; try assumption; [|lia]. fold d in Eg. split; [lia|assumption].
    - assert (~ (dist (cum q) (tail q) < d <= dist (cum q) (tail q) + H31)).
      { intros X. apply gt_tail_dist in X; try assumption; [congruence|lia]. }
      split; [unfold H31 in *; lia|assumption]. }
  destruct Etail as [Etd Etin].
  constructor; cbn [cum tail size bits dups max_off nwords]; unfold held, R; cbn [cum tail size bits dups max_off nwords];
    fold (R q); rewrite ?Etd.
  - assumption.
  - assumption.
  - apply I.
  - split; assumption.
  - lia.
  - intros p [<-|Hp].
    + exists d. split; [split; [lia|left; assumption]|assumption].
    + destruct (inv_bits q I p Hp) as [o [[Ho Hin] Eo]]. exists o. split; [split; [lia|right; assumption]|assumption].
  - constructor; [rewrite Ep; assumption|apply I].
  - rewrite (inv_size q I). cbn [length]. lia.
  - intros _. destruct (Z.max_spec (dist (cum q) (tail q)) d) as [[Hlt ->]|[Hge ->]].
    + split; [lia|left; assumption].
    + assert (Hs : size q > 0).
      { destruct (Z.eq_dec (size q) 0) as [Z0|]; [|pose proof (size_nonneg q I); lia].
        apply (inv_empty q I) in Z0. rewrite Z0 in Hge. unfold dist in Hge. rewrite Z.sub_diag in Hge.
        cbn in Hge. lia. }
      destruct (inv_tail_held q I Hs) as [Hr Hin]. split; [lia|right; assumption].
  - pose proof (size_nonneg q I). lia.
Qed.

Lemma push_held q t o : Inv q -> in32 t ->
  (held (fst (push q t)) o <-> held q o \/ (snd (push q t) = true /\ o = dist (cum q) t)).
Proof.
  intros I Ht. destruct (snd (push q t)) eqn:Er.
  2:{ destruct (push_reject_state q t Er) as (E1 & E2 & E3 & E4 & E5 & E6).
      unfold held, R. rewrite E1, E2, E4, E6. split; [tauto|]. intros [?|[? _]]; [assumption|discriminate]. }
  pose proof Er as Ok. apply push_result in Ok; try assumption. destruct Ok as [Hd Hnh].
  rewrite (push_accept_state q t Er).
  pose proof (inv_cum q I) as Hc. pose proof (inv_tail q I) as Htl.
  destruct (inv_off q I) as [Hm HmR]. pose proof (inv_dist q I) as Hdt.
  pose proof (dist_range (cum q) (tail q)) as Hr2.
  set (d := dist (cum q) t) in *.
  assert (Ep : pos q t = (cum q + d) mod R q).
  { rewrite <- (pos_wrap q (cum q + d)) by apply I. unfold d. rewrite wrap_dist by assumption. reflexivity. }
  assert (Etd : dist (cum q) (if sna32GT t (tail q) then t else tail q) = Z.max (dist (cum q) (tail q)) d).
  { destruct (sna32GT t (tail q)) eqn:Eg.
    - apply gt_tail_dist with (c := cum q) in Eg; try assumption; [|lia]. fold d in Eg. lia.
    - assert (~ (dist (cum q) (tail q) < d <= dist (cum q) (tail q) + H31)).
      { intros X. apply gt_tail_dist in X; try assumption; [congruence|lia]. }
      unfold H31 in *; lia. }
  unfold held, R; cbn [cum tail size bits dups max_off nwords]; fold (R q). rewrite Etd, In_addz, Ep.
  split.
  - intros [Hr [Hin|E]].
    + left. split; [|assumption].
      destruct (inv_bits q I _ Hin) as [o' [[Ho' _] E']].
      assert (o = o'); [|lia]. apply (held_inj q); try assumption; lia.
    + right. split; [reflexivity|]. apply (held_inj q); try assumption; lia.
  - intros [[Hr Hin]|[_ ->]]; [split; [lia|left; assumption]|split; [lia|right; reflexivity]].
Qed.

(* ---------- moving the cumulative point ---------- *)

Lemma wrap_add_mod q x o : ring_ok q -> (wrap32 x + o) mod R q = (x + o) mod R q.
Proof.
  intros HR. pose proof (Rpos q HR) as Hp.
  rewrite (Z.add_mod (wrap32 x)), (Z.add_mod x) by lia.
  f_equal. f_equal. rewrite <- (pos_is_mod q (wrap32 x)) by apply HR.
  apply pos_wrap. assumption.
Qed.

Lemma dist_shift c tl a : in32 c -> in32 tl -> 0 <= a <= dist c tl ->
  dist (wrap32 (c + a)) tl = dist c tl - a.
Proof. unfold in32, dist, wrap32, M32. intros. lia. Qed.

(* the state after the cumulative point moved forward by [a] with exactly the offsets <= a removed *)
Lemma shift_inv q q' a :
  Inv q -> 1 <= a <= dist (cum q) (tail q) ->
  cum q' = wrap32 (cum q + a) -> max_off q' = max_off q -> nwords q' = nwords q ->
  NoDup (bits q') ->
  (forall x, In x (bits q') <-> In x (bits q) /\ forall i, 1 <= i <= a -> x <> (cum q + i) mod R q) ->
  size q' = Z.of_nat (length (bits q')) ->
  (tail q' = if size q' =? 0 then cum q' else tail q) ->
  Inv q' /\ forall o, 1 <= o -> (held q' o <-> held q (o + a)).
Proof.
  intros I Ha Ec Em Ew ND Hb Es Et.
  pose proof (inv_cum q I) as Hc. pose proof (inv_tail q I) as Htl.
  destruct (inv_off q I) as [Hm HmR]. pose proof (inv_dist q I) as Hdt.
  pose proof (dist_range (cum q) (tail q)) as Hr2.
  assert (HR' : R q' = R q) by (unfold R; rewrite Ew; reflexivity).
  assert (Hring : ring_ok q') by (unfold ring_ok; rewrite Ew; apply I).
  assert (Hc' : in32 (cum q')) by (rewrite Ec; unfold in32, wrap32; lia).
  assert (Hmod : forall o, (cum q' + o) mod R q' = (cum q + (o + a)) mod R q).
  { intros o. rewrite HR', Ec, wrap_add_mod by apply I. f_equal. lia. }
  (* is anything left? *)
  assert (Hleft : size q' =? 0 = false -> dist (cum q') (tail q') = dist (cum q) (tail q) - a /\ in32 (tail q')).
  { intros E. rewrite Et, E, Ec. split; [apply dist_shift; try assumption; lia|assumption]. }
  assert (Hnone : size q' =? 0 = true -> dist (cum q') (tail q') = 0 /\ in32 (tail q')).
  { intros E. rewrite Et, E. unfold dist. rewrite Z.sub_diag. split; [reflexivity|assumption]. }
  assert (Hheld : forall o, 1 <= o -> (held q' o <-> held q (o + a))).
  { intros o Ho. unfold held. rewrite Hmod, Hb.
    destruct (size q' =? 0) eqn:E.
    - destruct (Hnone eq_refl) as [-> _]. split; [lia|].
      intros [Hr Hin]. exfalso.
      assert (In ((cum q + (o + a)) mod R q) (bits q')).
      { apply Hb. split; [assumption|]. intros i Hi X.
        assert (o + a = i); [|lia]. apply (held_inj q); try assumption; lia. }
      apply Z.eqb_eq in E. rewrite Es in E. destruct (bits q'); [contradiction|cbn in E; lia].
    - destruct (Hleft eq_refl) as [-> _]. split.
      + intros [Hr [Hin _]]. split; [lia|assumption].
      + intros [Hr Hin]. split; [lia|]. split; [assumption|].
        intros i Hi X. assert (o + a = i); [|lia]. apply (held_inj q); try assumption; lia. }
  split; [|assumption].
  constructor.
  - assumption.
  - destruct (size q' =? 0) eqn:E; [apply (Hnone eq_refl)|apply (Hleft eq_refl)].
  - assumption.
  - rewrite Em, HR'. split; assumption.
  - rewrite Em. destruct (size q' =? 0) eqn:E; [destruct (Hnone eq_refl) as [-> _]|destruct (Hleft eq_refl) as [-> _]]; lia.
  - intros p Hp. pose proof Hp as Hp2. apply Hb in Hp2. destruct Hp2 as [Hin Hne].
    destruct (inv_bits q I p Hin) as [o [[Hor Hoin] Eo]].
    assert (Hoa : a < o).
    { destruct (Z_lt_le_dec a o); [assumption|]. exfalso. apply (Hne o); [lia|assumption]. }
    exists (o - a). split.
    + apply Hheld; [lia|]. replace (o - a + a) with o by lia. split; assumption.
    + rewrite Hmod. replace (o - a + a) with o by lia. assumption.
  - assumption.
  - assumption.
  - intros Hs. assert (E : size q' =? 0 = false) by lia.
    destruct (Hleft E) as [Ed _]. rewrite Ed.
    (* some element is left, hence the old tail offset is > a and still held *)
    assert (Hs0 : size q > 0).
    { destruct (bits q') as [|p ps] eqn:Eb; [rewrite Es in Hs; cbn in Hs; lia|].
      assert (Hin : In p (bits q)) by (apply Hb; left; reflexivity).
      rewrite (inv_size q I). destruct (bits q); [destruct Hin|cbn; lia]. }
    pose proof (inv_tail_held q I Hs0) as Hth.
    assert (Hgt : a < dist (cum q) (tail q)).
    { destruct (bits q') as [|p ps] eqn:Eb; [rewrite Es in Hs; cbn in Hs; lia|].
      assert (Hp : In p (p :: ps)) by (left; reflexivity).
      apply Hb in Hp. destruct Hp as [Hin Hne].
      destruct (inv_bits q I p Hin) as [o [[Hor _] Eo]].
      destruct (Z_lt_le_dec a o); [lia|]. exfalso. apply (Hne o); [lia|assumption]. }
    apply Hheld; [lia|]. replace (dist (cum q) (tail q) - a + a) with (dist (cum q) (tail q)) by lia. assumption.
  - intros Hz. rewrite Et. apply Z.eqb_eq in Hz. rewrite Hz. reflexivity.
Qed.

Lemma empty_inv c d m w : in32 c -> (0 < w /\ 67108864 mod w = 0) -> (0 <= m < H31 /\ m <= 64 * w) ->
  Inv (mkRpq c c 0 [] d m w) /\ forall o, ~ held (mkRpq c c 0 [] d m w) o.
Proof.
  intros Hc Hw Hm. split.
  - constructor; cbn [cum tail size bits dups max_off nwords]; unfold held, R; cbn [cum tail size bits dups max_off nwords];
      try assumption; try (unfold dist; rewrite Z.sub_diag; cbn; lia).
    + constructor.
    + reflexivity.
    + reflexivity.
  - intros o [_ []].
Qed.

Lemma held_bound q o : Inv q -> held q o -> 1 <= o <= dist (cum q) (tail q) /\ dist (cum q) (tail q) <= max_off q.
Proof. intros I [H _]. split; [assumption|apply I]. Qed.

(* ---------- pop ---------- *)

Lemma pop_spec q f : Inv q ->
  Inv (fst (pop q f)) /\
  (snd (pop q f) = true <-> held q 1) /\
  (if snd (pop q f) || f
   then cum (fst (pop q f)) = wrap32 (cum q + 1) /\ forall o, 1 <= o -> (held (fst (pop q f)) o <-> held q (o + 1))
   else fst (pop q f) = q).
Proof.
  intros I. pose proof (inv_cum q I) as Hc. pose proof (inv_tail q I) as Htl.
  destruct (inv_off q I) as [Hm HmR]. pose proof (inv_dist q I) as Hdt.
  pose proof (dist_range (cum q) (tail q)) as Hr2.
  set (t := wrap32 (cum q + 1)).
  assert (Ht : in32 t) by (unfold t, in32, wrap32; lia).
  assert (Hd1 : dist (cum q) t = 1) by (unfold t; apply dist_wrap; [assumption|unfold M32; lia]).
  assert (Ep : pos q t = (cum q + 1) mod R q) by (unfold t; apply pos_wrap; apply I).
  unfold pop. fold t.
  destruct (has_chunk q t) eqn:Eh.
  - cbn [fst snd orb].
    apply has_chunk_spec in Eh; try assumption. rewrite Hd1 in Eh.
    destruct Eh as [Hr1 Hin1].
    set (q' := mkRpq t (tail q) (size q - 1) (remz (pos q t) (bits q)) (dups q) (max_off q) (nwords q)).
    assert (Hsz : size q' = Z.of_nat (length (bits q'))).
    { unfold q'; cbn [size bits]. rewrite length_remz; [rewrite (inv_size q I); reflexivity|apply I|rewrite Ep; assumption]. }
    assert (S : Inv q' /\ forall o, 1 <= o -> (held q' o <-> held q (o + 1))).
    { apply (shift_inv q q' 1); unfold q'; cbn [cum tail size bits dups max_off nwords]; try reflexivity; try assumption.
      - apply NoDup_remz, I.
      - intros x. rewrite In_remz, Ep. split.
        + intros [Hx Hne]. split; [assumption|]. intros i Hi. replace i with 1 by lia. assumption.
        + intros [Hx Hne]. split; [assumption|]. apply Hne. lia.
      - destruct (size q - 1 =? 0) eqn:E; [|reflexivity].
        (* the only element was offset 1, so the tail is the new cumulative point *)
        apply Z.eqb_eq in E. assert (Hs : size q > 0) by lia.
        destruct (inv_tail_held q I Hs) as [Hrt Hint].
        assert (dist (cum q) (tail q) = 1).
        { rewrite (inv_size q I) in E. destruct (bits q) as [|p [|p2 ps]] eqn:Eb; cbn [length] in E; try lia.
          destruct Hin1 as [E1|[]]. destruct Hint as [Et|[]].
          symmetry. apply (held_inj q); try assumption; try lia. }
        unfold t. rewrite <- (wrap_dist (cum q) (tail q)) at 1 by assumption. rewrite H. reflexivity. }
    split; [apply S|]. split; [split; [intros _; split; assumption|reflexivity]|].
    split; [reflexivity|apply S].
  - assert (Hn1 : ~ held q 1).
    { intros X. rewrite <- Hd1 in X. apply has_chunk_spec in X; try assumption. congruence. }
    destruct f; cbn [fst snd orb].
    2:{ split; [assumption|]. split; [split; [discriminate|intros; contradiction]|reflexivity]. }
    split; [|split; [split; [discriminate|intros; contradiction]|split; [reflexivity|]]].
    + destruct (size q =? 0) eqn:Es.
      * apply Z.eqb_eq in Es. assert (Eb : bits q = []).
        { rewrite (inv_size q I) in Es. destruct (bits q); [reflexivity|cbn in Es; lia]. }
        rewrite Eb, Es. apply empty_inv; [assumption|apply I|split; [assumption|apply HmR]].
      * set (q' := mkRpq t (tail q) (size q) (bits q) (dups q) (max_off q) (nwords q)).
        assert (Hs : size q > 0) by (pose proof (size_nonneg q I); lia).
        destruct (inv_tail_held q I Hs) as [Hrt Hint].
        assert (Hdt2 : 2 <= dist (cum q) (tail q)).
        { destruct (Z.eq_dec (dist (cum q) (tail q)) 1) as [E1|]; [|lia].
          exfalso. apply Hn1. split; [lia|]. rewrite E1 in Hint. assumption. }
        apply (shift_inv q q' 1); unfold q'; cbn [cum tail size bits dups max_off nwords]; try reflexivity; try assumption.
        -- lia.
        -- apply I.
        -- intros x. split; [|tauto]. intros Hx. split; [assumption|]. intros i Hi. replace i with 1 by lia.
           intros ->. apply Hn1. split; [lia|assumption].
        -- apply I.
        -- rewrite Es. reflexivity.
    + destruct (size q =? 0) eqn:Es.
      * apply Z.eqb_eq in Es. assert (Eb : bits q = []).
        { rewrite (inv_size q I) in Es. destruct (bits q); [reflexivity|cbn in Es; lia]. }
        intros o Ho. unfold held; cbn [cum tail bits]. rewrite Eb. cbn [In]. tauto.
      * set (q' := mkRpq t (tail q) (size q) (bits q) (dups q) (max_off q) (nwords q)).
        assert (Hs : size q > 0) by (pose proof (size_nonneg q I); lia).
        destruct (inv_tail_held q I Hs) as [Hrt Hint].
        assert (Hdt2 : 2 <= dist (cum q) (tail q)).
        { destruct (Z.eq_dec (dist (cum q) (tail q)) 1) as [E1|]; [|lia].
          exfalso. apply Hn1. split; [lia|]. rewrite E1 in Hint. assumption. }
        apply (shift_inv q q' 1); unfold q'; cbn [cum tail size bits dups max_off nwords]; try reflexivity; try assumption.
        -- lia.
        -- apply I.
        -- intros x. split; [|tauto]. intros Hx. split; [assumption|]. intros i Hi. replace i with 1 by lia.
           intros ->. apply Hn1. split; [lia|assumption].
        -- apply I.
        -- rewrite Es. reflexivity.
Qed.

(* ---------- advance (FORWARD-TSN) ---------- *)

Lemma wrap_wrap_add s i : wrap32 (wrap32 (s + 1) + i) = wrap32 (s + (i + 1)).
Proof. unfold wrap32. lia. Qed.

Lemma wrap_id s : in32 s -> wrap32 (s + 0) = s.
Proof. unfold wrap32, in32. lia. Qed.

Lemma clear_range_spec q : forall n start bs cl,
  NoDup bs -> in32 start ->
  let r := clear_range q start n bs cl in
  NoDup (fst r) /\
  (forall x, In x (fst r) <-> In x bs /\ forall i, 0 <= i < Z.of_nat n -> x <> pos q (wrap32 (start + i))) /\
  Z.of_nat (length (fst r)) = Z.of_nat (length bs) - (snd r - cl).
Proof.
  induction n as [|n IH]; intros start bs cl ND Hs; cbn [clear_range].
  - cbn [fst snd]. split; [assumption|]. split; [|lia]. intros x. split; [|tauto]. intros H. split; [assumption|]. intros i Hi. lia.
  - assert (Hs' : in32 (wrap32 (start + 1))) by (unfold in32, wrap32; lia).
    destruct (memz (pos q start) bs) eqn:Em.
    + apply memz_In in Em.
      specialize (IH (wrap32 (start + 1)) (remz (pos q start) bs) (cl + 1) (NoDup_remz _ _ ND) Hs').
      cbv zeta in IH. destruct IH as (N & S & L). split; [assumption|]. split.
      * intros x. rewrite S, In_remz. split.
        -- intros [[Hx Hne] Hall]. split; [assumption|]. intros i Hi.
           destruct (Z.eq_dec i 0) as [->|Ni].
           ++ rewrite wrap_id by assumption. assumption.
           ++ specialize (Hall (i - 1)). rewrite wrap_wrap_add in Hall. replace (i - 1 + 1) with i in Hall by lia. apply Hall. lia.
        -- intros [Hx Hall]. split; [split; [assumption|]|].
           ++ specialize (Hall 0). rewrite wrap_id in Hall by assumption. apply Hall. lia.
           ++ intros i Hi. rewrite wrap_wrap_add. apply Hall. lia.
      * rewrite L, length_remz by assumption. lia.
    + assert (Nin : ~ In (pos q start) bs) by (intros X; apply memz_In in X; congruence).
      specialize (IH (wrap32 (start + 1)) bs cl ND Hs').
      cbv zeta in IH. destruct IH as (N & S & L). split; [assumption|]. split; [|assumption].
      intros x. rewrite S. split.
      * intros [Hx Hall]. split; [assumption|]. intros i Hi.
        destruct (Z.eq_dec i 0) as [->|Ni].
        -- rewrite wrap_id by assumption. intros ->. contradiction.
        -- specialize (Hall (i - 1)). rewrite wrap_wrap_add in Hall. replace (i - 1 + 1) with i in Hall by lia. apply Hall. lia.
      * intros [Hx Hall]. split; [assumption|]. intros i Hi. rewrite wrap_wrap_add. apply Hall. lia.
Qed.

Lemma advance_spec q c : Inv q -> in32 c ->
  let a := dist (cum q) c in
  Inv (advance q c) /\
  (if (0 <? a) && (a <? H31)
   then cum (advance q c) = c /\ forall o, 1 <= o -> (held (advance q c) o <-> held q (o + a))
   else advance q c = q).
Proof.
  intros I Hcin a. pose proof (inv_cum q I) as Hc. pose proof (inv_tail q I) as Htl.
  destruct (inv_off q I) as [Hm HmR]. pose proof (inv_dist q I) as Hdt.
  pose proof (dist_range (cum q) (tail q)) as Hr2. pose proof (dist_range (cum q) c) as Hra. fold a in Hra.
  unfold advance.
  destruct (sna32LT (cum q) c) eqn:El; cbn [negb].
  2:{ assert (N : ~ (0 < a < H31)) by (intros X; apply lt_cum_dist in X; try assumption; congruence).
      split; [assumption|]. destruct ((0 <? a) && (a <? H31)) eqn:E; [lia|reflexivity]. }
  apply lt_cum_dist in El; try assumption. fold a in El.
  replace ((0 <? a) && (a <? H31)) with true by lia.
  assert (Ec : c = wrap32 (cum q + a)) by (unfold a; rewrite wrap_dist; [reflexivity|assumption|assumption]).
  destruct ((size q =? 0) || sna32LTE (tail q) c) eqn:Er.
  - (* everything at or below c: reset *)
    assert (Hge : size q = 0 \/ dist (cum q) (tail q) <= a).
    { apply orb_true_iff in Er. destruct Er as [Es|Et]; [left; lia|right].
      apply lte_tail_dist with (c := cum q) in Et; try assumption; [|lia]. fold a in Et. lia. }
    destruct (empty_inv c (dups q) (max_off q) (nwords q) Hcin (inv_ring q I) (conj Hm HmR)) as [Ie He].
    split; [assumption|]. split; [reflexivity|]. intros o Ho. split; [intros X; destruct (He o X)|].
    intros [Hr Hin]. exfalso. destruct Hge as [Z0|Hle]; [|lia].
    rewrite (inv_size q I) in Z0. destruct (bits q); [destruct Hin|cbn in Z0; lia].
  - apply orb_false_iff in Er. destruct Er as [Es Et].
    assert (Hlt : a < dist (cum q) (tail q)).
    { assert (~ (dist (cum q) (tail q) <= a < dist (cum q) (tail q) + H31)).
      { intros X. apply lte_tail_dist in X; try assumption; [congruence|lia]. }
      unfold H31 in *. lia. }
    set (start := wrap32 (cum q + 1)).
    assert (Hn : wrap32 (wrap32 (c - start) + 1) = a).
    { rewrite Ec. unfold start, wrap32, in32, H31, M32 in *. lia. }
    rewrite Hn.
    assert (Hst : in32 start) by (unfold start, in32, wrap32; lia).
    pose proof (clear_range_spec q (Z.to_nat a) start (bits q) 0 (inv_nodup q I) Hst) as CR.
    cbv zeta in CR. destruct (clear_range q start (Z.to_nat a) (bits q) 0) as [bs cl] eqn:Ecr.
    cbn [fst snd] in CR. destruct CR as (ND & S & L).
    set (q' := mkRpq c (if size q - cl =? 0 then c else tail q) (size q - cl) bs (dups q) (max_off q) (nwords q)).
    assert (SI : Inv q' /\ forall o, 1 <= o -> (held q' o <-> held q (o + a))).
    { apply (shift_inv q q' a); unfold q'; cbn [cum tail size bits dups max_off nwords]; try reflexivity; try assumption.
      - lia.
      - intros x. rewrite S. rewrite Z2Nat.id by lia. split.
        + intros [Hx Hall]. split; [assumption|]. intros i Hi.
          specialize (Hall (i - 1)). unfold start in Hall. rewrite wrap_wrap_add, pos_wrap in Hall by apply I.
          replace (i - 1 + 1) with i in Hall by lia. apply Hall. lia.
        + intros [Hx Hall]. split; [assumption|]. intros i Hi.
          unfold start. rewrite wrap_wrap_add, pos_wrap by apply I. apply Hall. lia.
      - rewrite (inv_size q I). lia. }
    split; [apply SI|]. split; [reflexivity|apply SI].
Qed.

(* ---------- gap blocks (bit-level scan) ---------- *)

Definition lb (cur : option Z) (o : Z) : Z := match cur with Some s0 => s0 | None => o end.

Lemma gap_scan_spec q : forall n o cur,
  (forall s0, cur = Some s0 -> s0 < o) ->
  let res := gap_scan q o n cur in
  (forall s e, In (s, e) res ->
      lb cur o <= s /\ s <= e /\ e < o + Z.of_nat n /\
      forall x, s <= x <= e -> o <= x -> held_off q x = true) /\
  (forall x, o <= x < o + Z.of_nat n -> held_off q x = true -> exists s e, In (s, e) res /\ s <= x <= e) /\
  (forall s0, cur = Some s0 -> exists e, In (s0, e) res /\ o - 1 <= e).
Proof.
  induction n as [|n IH]; intros o cur Hcur; cbn [gap_scan].
  - destruct cur as [s0|]; cbn [lb].
    + specialize (Hcur s0 eq_refl). split; [|split].
      * intros s e [E|[]]. inversion E; subst. repeat split; try lia.
      * intros x Hx. lia.
      * intros s1 E. inversion E; subst. exists (o - 1). split; [left; reflexivity|lia].
    + split; [|split].
      * intros s e [].
      * intros x Hx. lia.
      * intros s1 E. discriminate.
  - destruct (held_off q o) eqn:Eh.
    + set (cur' := match cur with Some s => Some s | None => Some o end).
      assert (Hc' : forall s0, cur' = Some s0 -> s0 < o + 1).
      { intros s0. unfold cur'. destruct cur as [s1|]; intros E; inversion E; subst; [specialize (Hcur s0 eq_refl)|]; lia. }
      assert (Elb : lb cur' (o + 1) = lb cur o) by (unfold cur', lb; destruct cur; reflexivity).
      destruct (IH (o + 1) cur' Hc') as (A & B & C). fold cur'. split; [|split].
      * intros s e Hin. destruct (A s e Hin) as (L1 & L2 & L3 & L4). rewrite Elb in L1.
        repeat split; try lia. intros x Hx Hox.
        destruct (Z.eq_dec x o) as [->|]; [assumption|]. apply L4; lia.
      * intros x Hx Hh. destruct (Z.eq_dec x o) as [->|].
        -- destruct (C (lb cur o)) as [e [Hin He]].
           { unfold cur', lb. destruct cur; reflexivity. }
           exists (lb cur o), e. split; [assumption|]. split; [|lia].
           unfold lb. destruct cur as [s1|]; [specialize (Hcur s1 eq_refl)|]; lia.
        -- apply B; [lia|assumption].
      * intros s0 E. destruct (C s0) as [e [Hin He]]; [unfold cur'; rewrite E; reflexivity|].
        exists e. split; [assumption|lia].
    + assert (HN : forall s0 : Z, @None Z = Some s0 -> s0 < o + 1) by (intros; discriminate).
      destruct (IH (o + 1) None HN) as (A & B & C). cbn [lb] in A.
      destruct cur as [s0|]; cbn [lb].
      * specialize (Hcur s0 eq_refl). split; [|split].
        -- intros s e [E|Hin].
           ++ inversion E; subst. repeat split; try lia.
           ++ destruct (A s e Hin) as (L1 & L2 & L3 & L4). repeat split; try lia.
              intros x Hx Hox. apply L4; lia.
        -- intros x Hx Hh. destruct (Z.eq_dec x o) as [->|]; [congruence|].
           destruct (B x) as [s [e [Hin Hr]]]; [lia|assumption|]. exists s, e. split; [right; assumption|assumption].
        -- intros s1 E. inversion E; subst. exists (o - 1). split; [left; reflexivity|lia].
      * split; [|split].
        -- intros s e Hin. destruct (A s e Hin) as (L1 & L2 & L3 & L4). repeat split; try lia.
           intros x Hx Hox. apply L4; lia.
        -- intros x Hx Hh. destruct (Z.eq_dec x o) as [->|]; [congruence|].
           apply B; [lia|assumption].
        -- intros s1 E. discriminate.
Qed.

Lemma held_off_held q o : Inv q -> 1 <= o <= dist (cum q) (tail q) -> (held_off q o = true <-> held q o).
Proof.
  intros I Ho. unfold held_off, held. rewrite memz_In, pos_wrap by apply I. tauto.
Qed.

(* soundness and completeness of the reported gap blocks *)
Lemma gap_blocks_sound q s e : Inv q -> In (s, e) (gap_blocks q) ->
  1 <= s /\ s <= e /\ e <= dist (cum q) (tail q) /\ forall o, s <= o <= e -> held q o.
Proof.
  intros I Hin. unfold gap_blocks in Hin. destruct (size q =? 0); [destruct Hin|].
  pose proof (dist_range (cum q) (tail q)) as Hr.
  assert (En : Z.of_nat (Z.to_nat (wrap32 (tail q - cum q))) = dist (cum q) (tail q)).
  { unfold wrap32, dist, M32 in *. lia. }
  assert (HN : forall s0 : Z, @None Z = Some s0 -> s0 < 1) by (intros; discriminate).
  destruct (gap_scan_spec q (Z.to_nat (wrap32 (tail q - cum q))) 1 None HN) as (A & _ & _).
  destruct (A s e Hin) as (L1 & L2 & L3 & L4). cbn [lb] in L1. rewrite En in L3.
  split; [lia|split; [lia|split; [lia|]]]. intros o1 Ho. apply held_off_held; [assumption|lia|]. apply L4; lia.
Qed.

Lemma gap_blocks_complete q o : Inv q -> held q o ->
  exists s e, In (s, e) (gap_blocks q) /\ s <= o <= e.
Proof.
  intros I Hh. destruct Hh as [Hr Hin]. unfold gap_blocks.
  destruct (size q =? 0) eqn:Es.
  { apply Z.eqb_eq in Es. rewrite (inv_size q I) in Es. destruct (bits q); [destruct Hin|cbn in Es; lia]. }
  pose proof (dist_range (cum q) (tail q)) as Hr2.
  assert (En : Z.of_nat (Z.to_nat (wrap32 (tail q - cum q))) = dist (cum q) (tail q)).
  { unfold wrap32, dist, M32 in *. lia. }
  assert (HN : forall s0 : Z, @None Z = Some s0 -> s0 < 1) by (intros; discriminate).
  destruct (gap_scan_spec q (Z.to_nat (wrap32 (tail q - cum q))) 1 None HN) as (_ & B & _).
  apply B; [rewrite En; lia|]. apply held_off_held; [assumption|lia|split; assumption].
Qed.

(* blocks are maximal runs: the offsets just outside a block are not held *)
Lemma rpq_init_inv q c : in32 c -> ring_ok q -> (0 <= max_off q < H31 /\ max_off q <= R q) ->
  Inv (rpq_init q c) /\ forall o, ~ held (rpq_init q c) o.
Proof. intros. unfold rpq_init. apply empty_inv; assumption. Qed.

(* ---------- histories with unbounded ghost indices ---------- *)

Inductive ev := EArr (k : Z) | EPop (f : bool) | EFwd (k : Z).

Record ghost := mkGhost { gK : Z; gacc : list Z; gskip : list (Z * Z) }.

Definition skipped (g : ghost) (k : Z) : Prop := exists lo hi, In (lo, hi) (gskip g) /\ lo <= k <= hi.

Definition gstep (s : rpq * ghost) (e : ev) : rpq * ghost :=
  let (q, g) := s in
  match e with
  | EArr k =>
      let r := push q (wrap32 k) in
      (fst r, if snd r then mkGhost (gK g) (k :: gacc g) (gskip g) else g)
  | EPop f =>
      let r := pop q f in
      (fst r, if snd r then mkGhost (gK g + 1) (gacc g) (gskip g)
              else if f then mkGhost (gK g + 1) (gacc g) ((gK g + 1, gK g + 1) :: gskip g) else g)
  | EFwd k =>
      (advance q (wrap32 k),
       if (0 <? k - gK g) && (k - gK g <? H31) then mkGhost k (gacc g) ((gK g + 1, k) :: gskip g) else g)
  end.

(* bounded packet lifetime: arrivals and forward points are within half the number space of
   the current cumulative point *)
Definition ev_ok (g : ghost) (e : ev) : Prop :=
  match e with
  | EArr k | EFwd k => - H31 < k - gK g < H31
  | EPop _ => True
  end.

Fixpoint run_ok (s : rpq * ghost) (evs : list ev) : Prop :=
  match evs with
  | [] => True
  | e :: es => ev_ok (snd s) e /\ run_ok (gstep s e) es
  end.

Definition grun (s : rpq * ghost) (evs : list ev) : rpq * ghost := fold_left gstep evs s.

Record J (k0 : Z) (s : rpq * ghost) : Prop := {
  j_inv : Inv (fst s);
  j_cum : cum (fst s) = wrap32 (gK (snd s));
  j_held : forall o, 1 <= o -> (held (fst s) o <-> In (gK (snd s) + o) (gacc (snd s)));
  j_cover : forall k, k0 < k <= gK (snd s) -> In k (gacc (snd s)) \/ skipped (snd s) k;
  j_mono : k0 <= gK (snd s)
}.

Lemma dist_of_index K k : - H31 < k - K < H31 ->
  (0 <= k - K -> dist (wrap32 K) (wrap32 k) = k - K) /\
  (k - K < 0 -> dist (wrap32 K) (wrap32 k) > H31).
Proof. unfold dist, wrap32, M32, H31. intros. split; intros; lia. Qed.

Lemma gstep_J k0 s e : J k0 s -> ev_ok (snd s) e -> J k0 (gstep s e) /\ gK (snd s) <= gK (snd (gstep s e)).
Proof.
  destruct s as [q g]. intros Jq Hok. destruct Jq as [I Hc Hh Hcov Hmono]. cbn [fst snd] in *.
  destruct (inv_off q I) as [Hm HmR].
  destruct e as [k|f|k]; cbn [gstep ev_ok] in *.
  - (* arrival *)
    assert (Ht : in32 (wrap32 k)) by (unfold in32, wrap32; lia).
    pose proof (push_inv q (wrap32 k) I Ht) as I'.
    pose proof (push_result q (wrap32 k) I Ht) as Hres.
    destruct (dist_of_index (gK g) k Hok) as [Dpos Dneg]. rewrite <- Hc in Dpos, Dneg.
    destruct (snd (push q (wrap32 k))) eqn:Er; cbn [fst snd gK gacc gskip].
    + split; [|lia]. destruct (proj1 Hres eq_refl) as [Hd Hnh].
      assert (Hdk : dist (cum q) (wrap32 k) = k - gK g).
      { destruct (Z_lt_le_dec (k - gK g) 0) as [Hneg|Hpos]; [specialize (Dneg Hneg); lia|apply Dpos; assumption]. }
      constructor; cbn [fst snd gK gacc gskip].
      * assumption.
      * rewrite (push_accept_state q _ Er). cbn [cum]. assumption.
      * intros o Ho. rewrite push_held by assumption. rewrite Er, Hdk, Hh by assumption. cbn [In].
        split; [intros [H|[_ ->]]; [right; assumption|left; lia]|intros [E|H]; [right; split; [reflexivity|lia]|left; assumption]].
      * intros k1 Hk1. destruct (Hcov k1 Hk1) as [H|H]; [left; right; assumption|right; assumption].
      * assumption.
    + split; [|lia]. destruct (push_reject_state q (wrap32 k) Er) as (E1 & E2 & E3 & E4 & E5 & E6).
      constructor; cbn [fst snd]; try assumption.
      * rewrite E1. assumption.
      * intros o Ho. rewrite <- Hh by assumption. unfold held, R. rewrite E1, E2, E4, E6. tauto.
  - (* pop *)
    destruct (pop_spec q f I) as (I' & Hr & Hst).
    destruct (snd (pop q f)) eqn:Er; cbn [orb] in Hst; cbn [fst snd gK gacc gskip].
    + destruct Hst as [Ec Hh']. split; [|lia].
      constructor; cbn [fst snd gK gacc gskip]; try assumption.
      * rewrite Ec, Hc. unfold wrap32. lia.
      * intros o Ho. rewrite Hh' by assumption. rewrite Hh by lia. replace (gK g + (o + 1)) with (gK g + 1 + o) by lia. tauto.
      * intros k1 Hk1. destruct (Z.eq_dec k1 (gK g + 1)) as [->|].
        -- left. apply Hh; [lia|]. apply Hr. reflexivity.
        -- apply Hcov. lia.
      * lia.
    + destruct f; cbn [fst snd gK gacc gskip].
      * destruct Hst as [Ec Hh']. split; [|lia].
        constructor; cbn [fst snd gK gacc gskip]; try assumption.
        -- rewrite Ec, Hc. unfold wrap32. lia.
        -- intros o Ho. rewrite Hh' by assumption. rewrite Hh by lia. replace (gK g + (o + 1)) with (gK g + 1 + o) by lia. tauto.
        -- intros k1 Hk1. destruct (Z.eq_dec k1 (gK g + 1)) as [->|].
           ++ right. exists (gK g + 1), (gK g + 1). split; [left; reflexivity|lia].
           ++ destruct (Hcov k1) as [H|[lo [hi [H1 H2]]]]; [lia|left; assumption|].
              right. exists lo, hi. split; [right; assumption|assumption].
        -- lia.
      * rewrite Hst. split; [|lia]. constructor; assumption.
  - (* forward *)
    assert (Ht : in32 (wrap32 k)) by (unfold in32, wrap32; lia).
    destruct (advance_spec q (wrap32 k) I Ht) as [I' Hst]. cbv zeta in Hst.
    destruct (dist_of_index (gK g) k Hok) as [Dpos Dneg]. rewrite <- Hc in Dpos, Dneg.
    destruct ((0 <? k - gK g) && (k - gK g <? H31)) eqn:Eg; cbn [fst snd gK gacc gskip].
    + assert (Ed : dist (cum q) (wrap32 k) = k - gK g) by (apply Dpos; lia).
      rewrite Ed, Eg in Hst. destruct Hst as [Ec Hh']. split; [|lia].
      constructor; cbn [fst snd gK gacc gskip]; try assumption.
      * intros o Ho. rewrite Hh' by assumption. rewrite Hh by lia.
        replace (gK g + (o + (k - gK g))) with (k + o) by lia. tauto.
      * intros k1 Hk1. destruct (Z_le_gt_dec k1 (gK g)) as [Hle|Hgt].
        -- destruct (Hcov k1) as [H|[lo [hi [H1 H2]]]]; [lia|left; assumption|].
           right. exists lo, hi. split; [right; assumption|assumption].
        -- right. exists (gK g + 1), k. split; [left; reflexivity|lia].
      * lia.
    + assert (En : (0 <? dist (cum q) (wrap32 k)) && (dist (cum q) (wrap32 k) <? H31) = false).
      { destruct (Z_lt_le_dec (k - gK g) 0) as [Hneg|Hpos].
        - specialize (Dneg Hneg). lia.
        - rewrite (Dpos Hpos). assumption. }
      rewrite En in Hst. rewrite Hst. split; [|lia]. constructor; assumption.
Qed.

Lemma grun_J k0 : forall evs s, J k0 s -> run_ok s evs ->
  J k0 (grun s evs) /\ gK (snd s) <= gK (snd (grun s evs)).
Proof.
  induction evs as [|e es IH]; intros s Js Hok; cbn [grun fold_left].
  - split; [assumption|lia].
  - destruct Hok as [He Hes]. destruct (gstep_J k0 s e Js He) as [J1 M1].
    destruct (IH (gstep s e) J1 Hes) as [J2 M2]. split; [assumption|unfold grun in M2; lia].
Qed.

Definition ginit (q0 : rpq) (k0 : Z) : rpq * ghost := (rpq_init q0 (wrap32 k0), mkGhost k0 [] []).

Lemma ginit_J q0 k0 : ring_ok q0 -> (0 <= max_off q0 < H31 /\ max_off q0 <= R q0) -> J k0 (ginit q0 k0).
Proof.
  intros HR Hm. assert (Hc : in32 (wrap32 k0)) by (unfold in32, wrap32; lia).
  destruct (rpq_init_inv q0 (wrap32 k0) Hc HR Hm) as [I He].
  constructor; cbn [ginit fst snd gK gacc gskip].
  - assumption.
  - reflexivity.
  - intros o Ho. split; [intros X; destruct (He o X)|intros []].
  - intros k Hk. lia.
  - lia.
Qed.

(* the queue built by newReceivePayloadQueue satisfies the ring condition, for every requested window *)
Lemma pow2_ge_spec : forall fuel n target,
  0 <= n <= 26 -> 0 <= target <= 2 ^ 26 -> 26 - n < Z.of_nat fuel ->
  exists j, n <= j <= 26 /\ pow2_ge fuel (2 ^ n) target = 2 ^ j /\ target <= 2 ^ j.
Proof.
  induction fuel as [|f IH]; intros n target Hn Ht Hf; [lia|]. cbn [pow2_ge].
  destruct (2 ^ n <? target) eqn:E.
  - assert (n < 26).
    { destruct (Z.eq_dec n 26) as [->|]; [|lia]. apply Z.ltb_lt in E. lia. }
    assert (E2 : wrap32 (Z.shiftl (2 ^ n) 1) = 2 ^ (n + 1)).
    { rewrite Z.shiftl_mul_pow2 by lia. rewrite <- Z.pow_add_r by lia.
      unfold wrap32. apply Z.mod_small. split; [apply Z.pow_nonneg; lia|].
      replace 4294967296 with (2 ^ 32) by reflexivity. apply Z.pow_lt_mono_r; lia. }
    rewrite E2. destruct (IH (n + 1) target) as [j (Hj & Ej & Tj)]; try lia.
    exists j. split; [lia|split; assumption].
  - exists n. split; [lia|]. split; [reflexivity|]. apply Z.ltb_ge in E. assumption.
Qed.

Lemma rpq_new_ok m : 0 <= m < 2147483584 ->
  ring_ok (rpq_new m) /\ (0 <= max_off (rpq_new m) < H31 /\ max_off (rpq_new m) <= R (rpq_new m)) /\
  m <= max_off (rpq_new m) < m + 64.
Proof.
  intros Hm. unfold rpq_new, ring_ok, R. cbn [max_off nwords].
  set (m' := wrap32 (wrap32 (wrap32 (m + 63) / 64) * 64)).
  assert (Em : m' = (m + 63) / 64 * 64) by (unfold m', wrap32; lia).
  assert (Hm' : 0 <= m' / 64 <= 2 ^ 26).
  { rewrite Em. rewrite Z.div_mul by lia. change (2 ^ 26) with 67108864. lia. }
  destruct (pow2_ge_spec 32 0 (m' / 64)) as [j (Hj & Ej & Tj)]; try lia.
  change (2 ^ 0) with 1 in Ej. rewrite Ej.
  assert (Hp : 0 < 2 ^ j) by (apply Z.pow_pos_nonneg; lia).
  split; [split; [assumption|]|].
  - change 67108864 with (2 ^ 26). replace 26 with (j + (26 - j)) by lia.
    rewrite Z.pow_add_r by lia. rewrite Z.mul_comm. apply Z.mod_mul. lia.
  - unfold H31. split; [split; [lia|]|lia]. rewrite Em in *. rewrite Z.div_mul in Tj by lia. lia.
Qed.

(* ---------- the property at the level of histories ---------- *)

Lemma sack_truth m k0 evs :
  0 <= m < 2147483584 ->
  run_ok (ginit (rpq_new m) k0) evs ->
  let s := grun (ginit (rpq_new m) k0) evs in
  let q := fst s in let g := snd s in
  (forall b e, In (b, e) (gap_blocks q) ->
     1 <= b /\ b <= e /\ forall o, b <= o <= e -> In (gK g + o) (gacc g)) /\
  (forall k, In k (gacc g) -> gK g < k -> exists b e, In (b, e) (gap_blocks q) /\ b <= k - gK g <= e) /\
  cum q = wrap32 (gK g) /\
  (forall k, k0 < k <= gK g -> In k (gacc g) \/ skipped g k) /\
  k0 <= gK g.
Proof.
  intros Hm Hok. destruct (rpq_new_ok m Hm) as (HR & Hoff & _).
  destruct (grun_J k0 evs _ (ginit_J _ k0 HR Hoff) Hok) as [Jf _].
  cbv zeta. destruct Jf as [I Hc Hh Hcov Hmono]. split; [|split; [|split; [|split]]]; try assumption.
  - intros b e Hin. destruct (gap_blocks_sound _ b e I Hin) as (L1 & L2 & L3 & L4).
    split; [lia|split; [lia|]]. intros o Ho. apply Hh; [lia|]. apply L4. assumption.
  - intros k Hin Hk. apply (gap_blocks_complete _ (k - gK (snd (grun (ginit (rpq_new m) k0) evs)))); [assumption|].
    apply Hh; [lia|]. replace (gK (snd (grun (ginit (rpq_new m) k0) evs)) + (k - gK (snd (grun (ginit (rpq_new m) k0) evs)))) with k by lia.
    assumption.
Qed.

Lemma run_ok_app : forall es s e, run_ok s (es ++ [e]) -> run_ok s es /\ ev_ok (snd (grun s es)) e.
Proof.
  induction es as [|x xs IH]; intros s e H; cbn [app run_ok grun fold_left] in *.
  - tauto.
  - destruct H as [H1 H2]. destruct (IH _ _ H2) as [A B]. tauto.
Qed.

Lemma cum_never_backwards m k0 evs e :
  0 <= m < 2147483584 ->
  run_ok (ginit (rpq_new m) k0) (evs ++ [e]) ->
  gK (snd (grun (ginit (rpq_new m) k0) evs)) <= gK (snd (grun (ginit (rpq_new m) k0) (evs ++ [e]))).
Proof.
  intros Hm Hok. destruct (rpq_new_ok m Hm) as (HR & Hoff & _).
  destruct (run_ok_app _ _ _ Hok) as [Hok1 Hev].
  destruct (grun_J k0 evs _ (ginit_J _ k0 HR Hoff) Hok1) as [Jf _].
  unfold grun. rewrite fold_left_app. cbn [fold_left].
  destruct (gstep_J k0 _ e Jf Hev) as [_ M]. exact M.
Qed.

(* an accepted arrival is exactly one inside the window that was not accepted before *)
Lemma accept_iff m k0 evs k :
  0 <= m < 2147483584 ->
  run_ok (ginit (rpq_new m) k0) evs ->
  let s := grun (ginit (rpq_new m) k0) evs in
  - H31 < k - gK (snd s) < H31 ->
  (snd (push (fst s) (wrap32 k)) = true <->
   gK (snd s) < k <= gK (snd s) + max_off (fst s) /\ ~ In k (gacc (snd s))).
Proof.
  intros Hm Hok s Hk. destruct (rpq_new_ok m Hm) as (HR & Hoff & _).
  destruct (grun_J k0 evs _ (ginit_J _ k0 HR Hoff) Hok) as [Jf _]. fold s in Jf.
  destruct Jf as [I Hc Hh Hcov Hmono].
  assert (Ht : in32 (wrap32 k)) by (unfold in32, wrap32; lia).
  rewrite (push_result _ _ I Ht). unfold push_ok.
  destruct (dist_of_index (gK (snd s)) k Hk) as [Dpos Dneg]. rewrite <- Hc in Dpos, Dneg.
  destruct (inv_off _ I) as [Hmo _].
  destruct (Z_lt_le_dec (k - gK (snd s)) 0) as [Hneg|Hpos].
  - specialize (Dneg Hneg). split; [intros [? _]; lia|intros [? _]; lia].
  - rewrite (Dpos Hpos). split.
    + intros [Hr Hn]. split; [lia|]. intros X. apply Hn. apply Hh; [lia|].
      replace (gK (snd s) + (k - gK (snd s))) with k by lia. assumption.
    + intros [Hr Hn]. split; [lia|]. intros X. apply Hn. apply Hh in X; [|lia].
      replace (gK (snd s) + (k - gK (snd s))) with k in X by lia. assumption.
Qed.
